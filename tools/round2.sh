#!/bin/bash
# dev-time: confirm and check all round-2 candidates that are ready
mkdir -p /tmp/mut2/results
cd /verif
for p in /tmp/mut2/C*/; do
  P=$(basename $p)
  for d in $p/out/m*; do
    [ -f $d/meta.json ] || continue
    id=$P-$(basename $d)
    if [ ! -f /tmp/mut2/results/$id.confirm.json ]; then
      python3 tools/mutants.py confirm $d /tmp/mut2/$P > /tmp/mut2/results/$id.confirm.json 2>&1
    fi
  done
done
for f in /tmp/mut2/results/*.confirm.json; do
  id=$(basename $f .confirm.json)
  ok=$(python3 -c "import json;print(json.load(open('$f')).get('confirmed'))" 2>/dev/null)
  P=${id%%-*}; K=${id##*-}
  r=$(python3 tools/mutants.py check /tmp/mut2/$P/out/$K/patch.diff 2>&1 | tail -1)
  echo "$id confirmed=$ok $r" 
done
