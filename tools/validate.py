#!/usr/bin/env python3
# dev helper: validate MANIFEST.json and evidence/*.json against the schemas (python3-vt has jsonschema)
import json, glob, sys, jsonschema
m = json.load(open('/verif/MANIFEST.json'))
jsonschema.validate(m, json.load(open('/root/.vp/MANIFEST.schema.json')))
print('manifest ok: checks=%d not_applicable=%d' % (len(m['checks']), len(m.get('not_applicable', []))))
s = json.load(open('/root/.vp/EVIDENCE.schema.json'))
for f in sorted(glob.glob('/verif/evidence/C*.json')):
    jsonschema.validate(json.load(open(f)), s)
print('evidence ok:', len(glob.glob('/verif/evidence/C*.json')))
