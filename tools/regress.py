#!/usr/bin/env python3
"""Dev-time regression over /verif/seeded (not a registered check).

Every seeded mutant must be flagged by the check of its own property; every benign refactoring must be
silent for all 18 properties (those with meta.known_false_alarm are reported separately).
Runs in scratch worktrees of /repo (never in /repo itself) with a copy of the checker binary, so it can
run while development goes on.

usage: regress.py [--workers N] [--only PREFIX] [--extra DIR ...] [--bin PATH] [--verbose]
"""
import json, os, re, shutil, subprocess, sys, tempfile
from concurrent.futures import ThreadPoolExecutor

ENV = dict(os.environ, GOFLAGS='-mod=mod', GOPROXY='off', GOSUMDB='off', GOTOOLCHAIN='local')
ENV.pop('GOWORK', None)
PROPS = ['C%02d' % i for i in range(1, 19)]
KINDS = re.compile(r'^  (RULE|UNDECIDED|ANCHOR|FLOOR|CANARY|PANIC) (\S+)')


def sh(cmd, cwd=None):
    return subprocess.run(cmd, shell=True, cwd=cwd, env=ENV, stdout=subprocess.PIPE, stderr=subprocess.STDOUT, text=True)


def main():
    workers, only, extra, binsrc, verbose = 8, None, [], '/verif/bin/verifchk', False
    a = sys.argv[1:]
    while a:
        if a[0] == '--workers': workers = int(a[1]); a = a[2:]
        elif a[0] == '--only': only = a[1]; a = a[2:]
        elif a[0] == '--extra': extra.append(a[1]); a = a[2:]
        elif a[0] == '--bin': binsrc = a[1]; a = a[2:]
        elif a[0] == '--verbose': verbose = True; a = a[1:]
        else: a = a[1:]
    base = tempfile.mkdtemp(prefix='vreg_')
    binp = os.path.join(base, 'verifchk')
    shutil.copy(binsrc, binp)
    wts = []
    for i in range(workers):
        wt = os.path.join(base, 'wt%d' % i)
        sh('git -C /repo worktree add -q --detach %s HEAD' % wt)
        wts.append(wt)
    jobs = []
    for d in sorted(os.listdir('/verif/seeded')):
        p = os.path.join('/verif/seeded', d)
        if only and not d.startswith(only): continue
        if not os.path.exists(os.path.join(p, 'patch.diff')): continue
        meta = json.load(open(os.path.join(p, 'meta.json')))
        jobs.append((d, os.path.join(p, 'patch.diff'), meta))
    for e in extra:
        meta = json.load(open(os.path.join(e, 'meta.json'))) if os.path.exists(os.path.join(e, 'meta.json')) else {}
        meta['kind'] = 'benign'  # extras are refactorings under test
        jobs.append((e, os.path.join(e, 'patch.diff'), meta))
    free = list(wts)

    def run(job):
        name, patch, meta = job
        wt = free.pop()
        try:
            sh('git checkout -q -- . && git clean -fdq', wt)
            r = sh('git apply ' + patch, wt)
            if r.returncode:
                return name, meta, None, 'patch does not apply'
            benign = meta.get('kind') == 'benign'
            props = PROPS if benign else [str(meta.get('property', ''))[:3]]
            fired = {}
            for p in props:
                out = sh('%s -repo %s -verif %s -prop %s' % (binp, wt, os.path.join(base, 'v_' + os.path.basename(wt)), p)).stdout
                keys = sorted({m.group(2) for m in map(KINDS.match, out.splitlines()) if m})
                if 'VIOLATION' in out or keys:
                    fired[p] = keys
            return name, meta, fired, None
        finally:
            sh('git checkout -q -- . && git clean -fdq', wt)
            free.append(wt)

    miss, alarm, known, bad = [], [], [], []
    with ThreadPoolExecutor(max_workers=workers) as ex:
        for name, meta, fired, err in ex.map(run, jobs):
            if err:
                bad.append((name, err)); continue
            if meta.get('kind') == 'benign':
                if fired:
                    (known if meta.get('known_false_alarm') else alarm).append((name, fired))
            else:
                if str(meta.get('property', ''))[:3] not in fired:
                    miss.append(name)
    for wt in wts:
        sh('git -C /repo worktree remove --force ' + wt)
    shutil.rmtree(base, ignore_errors=True)
    print('jobs', len(jobs))
    print('MISSED mutants:', miss)
    print('ALARMS on benign:', [(n, {p: (k if verbose else k[:3]) for p, k in f.items()}) for n, f in alarm])
    print('known false alarms still firing:', [n for n, _ in known])
    print('problems:', bad)
    sys.exit(1 if miss or alarm or bad else 0)


if __name__ == '__main__':
    main()
