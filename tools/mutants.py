#!/usr/bin/env python3
"""Dev-time harness (not a registered check): confirm candidate mutants and run the checks on them.

usage: mutants.py confirm <mutdir> <worktree>    # build, suite, demo fails with / passes without
       mutants.py check   <patch> [props...]     # apply to /repo, run checks, revert; prints props that fire
"""
import json, os, re, subprocess, sys, shutil

ENV = dict(os.environ, GOFLAGS='-mod=mod', GOPROXY='off', GOSUMDB='off', GOTOOLCHAIN='local')
ENV.pop('GOWORK', None)

def sh(cmd, cwd, timeout=900):
    p = subprocess.run(cmd, shell=True, cwd=cwd, env=ENV, stdout=subprocess.PIPE, stderr=subprocess.STDOUT, text=True, timeout=timeout)
    return p.returncode, p.stdout

def confirm(mdir, wt):
    res = {'mutant': mdir}
    meta = {}
    if os.path.exists(os.path.join(mdir, 'meta.json')):
        meta = json.load(open(os.path.join(mdir, 'meta.json')))
    cmd = meta.get('demo_cmd', '')
    m = re.search(r'(go test .*)$', cmd)
    if not m:
        res['error'] = 'no demo cmd'; return res
    gocmd = re.split(r'\s{2,}|\(', m.group(1))[0].strip()
    toks = gocmd.split()
    target = [t for t in toks if t == '.' or t.startswith('./')][-1]
    ddir = os.path.normpath(os.path.join(wt, target))
    demo = os.path.join(ddir, 'zz_demo_test.go')
    sh('git checkout -q -- . && git clean -fdq -e out', wt)
    rc, out = sh('git apply ' + os.path.join(mdir, 'patch.diff'), wt)
    if rc: res['error'] = 'apply: ' + out; return res
    rc, out = sh('go build ./... 2>&1 | grep -v "^out" ; go vet ./... >/dev/null 2>&1; true', wt)
    rc, out = sh('go build $(go list ./... | grep -v /out)', wt)
    res['build_ok'] = rc == 0
    rc, out = sh('go test -vet=off -count=1 $(go list ./... | grep -v /out)', wt)
    res['suite_ok'] = rc == 0
    if rc: res['suite_out'] = out[-800:]
    shutil.copy(os.path.join(mdir, 'demo_test.go'), demo)
    rc, out = sh(gocmd, wt)
    res['demo_fails_with'] = rc != 0
    res['demo_out_with'] = out[-600:]
    sh('git checkout -q -- .', wt)
    rc, out = sh(gocmd, wt)
    res['demo_passes_without'] = rc == 0
    if rc: res['demo_out_without'] = out[-600:]
    os.remove(demo)
    sh('git checkout -q -- . && git clean -fdq -e out', wt)
    res['confirmed'] = bool(res['build_ok'] and res['suite_ok'] and res['demo_fails_with'] and res['demo_passes_without'])
    res['demo_cmd'] = gocmd
    return res

def check(patch, props):
    rc, out = sh('git -C /repo status --porcelain', '/verif')
    if out.strip():
        print('REPO NOT CLEAN'); sys.exit(2)
    rc, out = sh('git -C /repo apply ' + patch, '/verif')
    if rc:
        print('apply failed', out); sys.exit(2)
    fired = {}
    try:
        arg = 'all' if not props else None
        if arg:
            rc, out = sh('bin/verifchk -prop all', '/verif')
            for line in out.splitlines():
                m = re.match(r'VIOLATION property=(C\d+)', line)
                if m: fired.setdefault(m.group(1), [])
                m2 = re.match(r'\s+(RULE|UNDECIDED|ANCHOR|FLOOR|CANARY) (\S+) at', line)
                if m2 and fired: fired[list(fired)[-1]].append(m2.group(2))
        else:
            for p in props:
                rc, out = sh('bin/verifchk -prop ' + p, '/verif')
                if 'VIOLATION' in out:
                    fired[p] = re.findall(r'\s+(?:RULE|UNDECIDED|ANCHOR|FLOOR|CANARY) (\S+) at', out)
    finally:
        sh('git -C /repo checkout -q -- . && git -C /repo clean -fdq', '/verif')
    return fired

if __name__ == '__main__':
    if sys.argv[1] == 'confirm':
        print(json.dumps(confirm(sys.argv[2], sys.argv[3]), indent=1))
    else:
        print(json.dumps(check(sys.argv[2], sys.argv[3:])))
