#!/bin/bash
# dev-time: run the checks on every candidate mutant under /tmp/mut and on /verif/seeded; prints a table
cd /verif
for d in /tmp/mut/C*/out/m* /verif/seeded/*; do
  [ -f $d/patch.diff ] || continue
  id=$(echo $d | sed -E 's#.*/(C[0-9]+)/out/(m[0-9]+)#\1-\2#; s#.*/seeded/##')
  r=$(python3 tools/mutants.py check $d/patch.diff 2>&1 | tail -1)
  echo "$id $r"
done
