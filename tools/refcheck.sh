#!/bin/bash
# dev-time: run all props against each refactoring patch under a round directory; any firing is a false alarm
# usage: tools/refcheck.sh /tmp/ref3 [Cxx]
B=${1:-/tmp/ref3}
cd /verif
for p in $B/${2:-C*}/; do
  P=$(basename $p)
  for d in $p/out/r*; do
    [ -f $d/patch.diff ] || continue
    echo "$P-$(basename $d) $(python3 tools/mutants.py check $d/patch.diff 2>&1 | tail -1)"
  done
done
