#!/bin/bash
# dev-time: for every seeded patch print which kinds of obligations fire under its own property
cd /verif
for d in /verif/seeded/*/ "$@"; do
  [ -f $d/patch.diff ] || continue
  id=$(basename $d)
  P=$(python3 -c "import json;print(json.load(open('$d/meta.json'))['property'])" 2>/dev/null)
  git -C /repo apply $d/patch.diff 2>/dev/null || { echo "$id APPLYFAIL"; continue; }
  out=$(bin/verifchk -prop $P 2>&1)
  git -C /repo checkout -q -- . ; git -C /repo clean -fdq
  r=$(echo "$out" | grep -c "^  RULE ")
  u=$(echo "$out" | grep -c "^  \(UNDECIDED\|ANCHOR\|FLOOR\|CANARY\) ")
  echo "$id $P rule=$r other=$u"
done
