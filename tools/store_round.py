#!/usr/bin/env python3
"""Dev-time: store a confirmed round of seeded changes under /verif/seeded.
usage: store_round.py <round-no> <mutdir-base> <refdir-base>
Mutants need <base>/results/<id>.confirm.json (confirmed) and <id>.check.txt from tools/round.sh."""
import json, os, re, shutil, sys, subprocess

rnd, mbase, rbase = sys.argv[1], sys.argv[2], sys.argv[3]
head = subprocess.run('git -C /repo rev-parse --short HEAD', shell=True, capture_output=True, text=True).stdout.strip()
nm = nb = 0
for P in sorted(os.listdir(mbase)):
    out = os.path.join(mbase, P, 'out')
    if not re.fullmatch(r'C\d+', P) or not os.path.isdir(out):
        continue
    for K in sorted(os.listdir(out)):
        d = os.path.join(out, K)
        if not re.fullmatch(r'm\d+', K) or not os.path.exists(os.path.join(d, 'meta.json')):
            continue
        conf = json.load(open(os.path.join(mbase, 'results', f'{P}-{K}.confirm.json')))
        if not conf.get('confirmed'):
            print('skip unconfirmed', P, K); continue
        caught = json.loads(open(os.path.join(mbase, 'results', f'{P}-{K}.check.txt')).read().strip().splitlines()[-1])
        if P not in caught:
            print('NOT CAUGHT BY OWN', P, K)
        meta = json.load(open(os.path.join(d, 'meta.json')))
        sid = f'r{rnd}-{P}-{K}'
        dst = os.path.join('/verif/seeded', sid)
        os.makedirs(dst, exist_ok=True)
        shutil.copy(os.path.join(d, 'patch.diff'), os.path.join(dst, 'patch.diff'))
        shutil.copy(os.path.join(d, 'demo_test.go'), os.path.join(dst, 'demo_test.go.txt'))
        m = {
            'id': sid, 'property': P, 'round': int(rnd), 'kind': 'mutant',
            'summary': meta.get('summary', ''), 'files_changed': meta.get('files_changed', []),
            'needs_to_manifest': meta.get('needs_to_manifest', ''),
            'demo': {'file': 'demo_test.go.txt (copy into the package directory named in location)', 'cmd': conf.get('demo_cmd', ''), 'location': meta.get('demo_location', '')},
            'confirmed_by_me': {
                'what_i_ran': f'tools/mutants.py confirm (scratch worktree of /repo HEAD {head}: git apply; go build ./...; existing suite; demo with patch must fail; demo without patch must pass)',
                'build_ok': conf.get('build_ok'), 'suite_ok': conf.get('suite_ok'),
                'demo_fails_with_patch': conf.get('demo_fails_with'), 'demo_passes_without': conf.get('demo_passes_without'),
                'confirmed': True},
            'base_commit': head, 'caught_by': {k: sorted(set(v)) for k, v in caught.items()},
        }
        json.dump(m, open(os.path.join(dst, 'meta.json'), 'w'), indent=1)
        nm += 1
for P in sorted(os.listdir(rbase)):
    out = os.path.join(rbase, P, 'out')
    if not re.fullmatch(r'C\d+', P) or not os.path.isdir(out):
        continue
    for K in sorted(os.listdir(out)):
        d = os.path.join(out, K)
        if not re.fullmatch(r'r\d+', K) or not os.path.exists(os.path.join(d, 'patch.diff')):
            continue
        meta = json.load(open(os.path.join(d, 'meta.json'))) if os.path.exists(os.path.join(d, 'meta.json')) else {}
        sid = f'benign-r{rnd}-{P}-{K}'
        dst = os.path.join('/verif/seeded', sid)
        os.makedirs(dst, exist_ok=True)
        shutil.copy(os.path.join(d, 'patch.diff'), os.path.join(dst, 'patch.diff'))
        m = {'id': sid, 'property': P, 'round': int(rnd), 'kind': 'benign',
             'refactoring_kind': meta.get('kind', ''), 'summary': meta.get('summary', ''),
             'files_changed': meta.get('files_changed', []), 'why_equivalent': meta.get('why_equivalent', ''),
             'expected': 'every check stays silent (behaviour-preserving refactoring; build and existing suite verified by its author, checks verified silent by me with tools/mutants.py check)',
             'base_commit': head}
        json.dump(m, open(os.path.join(dst, 'meta.json'), 'w'), indent=1)
        nb += 1
print('stored', nm, 'mutants and', nb, 'refactorings')
