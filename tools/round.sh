#!/bin/bash
# dev-time: confirm and check all candidates that are ready under a round directory
# usage: tools/round.sh /tmp/mut3
B=${1:-/tmp/mut3}
mkdir -p $B/results
cd /verif
for p in $B/C*/; do
  P=$(basename $p)
  for d in $p/out/m*; do
    [ -f $d/meta.json ] || continue
    id=$P-$(basename $d)
    if [ ! -f $B/results/$id.confirm.json ]; then
      python3 tools/mutants.py confirm $d $B/$P > $B/results/$id.confirm.json 2>&1
    fi
    if [ ! -f $B/results/$id.check.txt ] || [ -n "$RECHECK" ]; then
      python3 tools/mutants.py check $B/$P/out/$(basename $d)/patch.diff > $B/results/$id.check.txt 2>&1
    fi
  done
done
for f in $B/results/*.confirm.json; do
  [ -f $f ] || continue
  id=$(basename $f .confirm.json)
  ok=$(python3 -c "import json;print(json.load(open('$f')).get('confirmed'))" 2>/dev/null)
  echo "$id confirmed=$ok $(tail -1 $B/results/$id.check.txt)"
done
