package main

// E5 (part): lower-bound domain. lb(v) = a proven lower bound of an integer SSA value, or
// unknown. Transfer functions are tabulated per operator; loops are handled by assuming the
// bound of the loop-entry edges for a phi and checking that the back edges preserve it.

import (
	"go/constant"
	"go/token"
	"go/types"
	"math"

	"golang.org/x/tools/go/ssa"
)

const lbUnknown = math.MinInt64

type lbCtx struct {
	p       *Prog
	assume  map[ssa.Value]int64
	fieldEl map[string]int64 // "T.F" -> lower bound of elements of that slice field
	fnRet   map[*ssa.Function]int64
	busyFn  map[*ssa.Function]bool
	depth   int
	Assumed []string // assumptions used (reported in evidence)
}

func newLbCtx(p *Prog) *lbCtx {
	return &lbCtx{p: p, assume: map[ssa.Value]int64{}, fieldEl: map[string]int64{}, fnRet: map[*ssa.Function]int64{}, busyFn: map[*ssa.Function]bool{}}
}

func minLb(a, b int64) int64 {
	if a == lbUnknown || b == lbUnknown {
		return lbUnknown
	}
	if a < b {
		return a
	}
	return b
}

func addLb(a, b int64) int64 {
	if a == lbUnknown || b == lbUnknown {
		return lbUnknown
	}
	return a + b
}

func (l *lbCtx) lb(v ssa.Value) int64 {
	if a, ok := l.assume[v]; ok {
		return a
	}
	l.depth++
	defer func() { l.depth-- }()
	if l.depth > 40 {
		return lbUnknown
	}
	if isIntType(v.Type()) {
		if _, uns := intSize(v.Type()); uns {
			// unsigned values are >= 0; still try for a better bound below
			if r := l.lb0(v); r != lbUnknown && r > 0 {
				return r
			}
			return 0
		}
	}
	return l.lb0(v)
}

func (l *lbCtx) lb0(v ssa.Value) int64 {
	switch x := v.(type) {
	case *ssa.Const:
		if x.Value != nil && x.Value.Kind() == constant.Int {
			if i, ok := constant.Int64Val(x.Value); ok {
				return i
			}
		}
		return lbUnknown
	case *ssa.BinOp:
		a, b := l.lb(x.X), l.lb(x.Y)
		switch x.Op {
		case token.ADD:
			return addLb(a, b)
		case token.MUL:
			if a != lbUnknown && b != lbUnknown && a >= 0 && b >= 0 {
				return a * b
			}
		case token.QUO:
			if a != lbUnknown && a >= 0 && b != lbUnknown && b >= 0 {
				return 0
			}
		case token.REM:
			// Go's % keeps the sign of the dividend
			if a != lbUnknown && a >= 0 {
				return 0
			}
		case token.AND:
			if (a != lbUnknown && a >= 0) || (b != lbUnknown && b >= 0) {
				return 0
			}
		case token.OR, token.XOR:
			if a != lbUnknown && a >= 0 && b != lbUnknown && b >= 0 {
				return 0
			}
		case token.SHR, token.SHL:
			if a != lbUnknown && a >= 0 {
				return 0
			}
		case token.SUB:
			// a - c with constant c
			if c, ok := x.Y.(*ssa.Const); ok && c.Value != nil && c.Value.Kind() == constant.Int && a != lbUnknown {
				if k, ok := constant.Int64Val(c.Value); ok {
					return a - k
				}
			}
		}
		return lbUnknown
	case *ssa.Convert:
		if isIntType(x.X.Type()) && isIntType(x.Type()) {
			fb, _ := intSize(x.X.Type())
			tb, _ := intSize(x.Type())
			if tb >= fb {
				// widening, or same size (uint<->int of equal size: overflow not modelled)
				return l.lb(x.X)
			}
		}
		return lbUnknown
	case *ssa.ChangeType:
		return l.lb(x.X)
	case *ssa.Phi:
		// bound from the edges not (transitively) depending on the phi, then check the rest
		init := int64(math.MaxInt64)
		var cyc []ssa.Value
		for ei, e := range x.Edges {
			if dependsOn(e, x, 0) {
				cyc = append(cyc, e)
				continue
			}
			eb := l.lb(e)
			if g := guardLb(e, x.Block().Preds[ei], x.Block()); g != lbUnknown && (eb == lbUnknown || g > eb) {
				eb = g
			}
			init = minLb(init, eb)
			if init == lbUnknown {
				return lbUnknown
			}
		}
		if init == math.MaxInt64 {
			return lbUnknown
		}
		l.assume[x] = init
		ok := true
		for _, e := range cyc {
			if r := l.lb(e); r == lbUnknown || r < init {
				ok = false
			}
		}
		delete(l.assume, x)
		if ok {
			return init
		}
		return lbUnknown
	case *ssa.Call:
		cc := x.Common()
		if b, ok := cc.Value.(*ssa.Builtin); ok {
			switch b.Name() {
			case "len", "cap":
				return 0
			case "min":
				r := int64(math.MaxInt64)
				for _, a := range cc.Args {
					r = minLb(r, l.lb(a))
				}
				return r
			case "max":
				// at least the largest of the known bounds
				r := int64(lbUnknown)
				for _, a := range cc.Args {
					if b := l.lb(a); b != lbUnknown && (r == lbUnknown || b > r) {
						r = b
					}
				}
				return r
			}
			return lbUnknown
		}
		if callee := cc.StaticCallee(); callee != nil && isRepoFunc(callee) && callee.Signature.Results().Len() == 1 {
			return l.funcRet(callee)
		}
		if callee := cc.StaticCallee(); callee != nil {
			switch callee.String() {
			case "strings.IndexRune", "strings.Index", "strings.IndexByte":
				return -1
			case "unicode/utf8.RuneCountInString", "unicode/utf8.RuneCount":
				return 0
			}
		}
		return lbUnknown
	case *ssa.Extract:
		// one result of a repository helper: the least bound over its returns
		if call, ok := x.Tuple.(*ssa.Call); ok {
			if cal := call.Common().StaticCallee(); cal != nil && isRepoFunc(cal) && cal.Blocks != nil && !l.busyFn[cal] {
				l.busyFn[cal] = true
				r := int64(math.MaxInt64)
				for _, ret := range returnsOf(cal) {
					if x.Index < len(ret.Results) {
						r = minLb(r, l.lb(ret.Results[x.Index]))
					}
				}
				l.busyFn[cal] = false
				if r == math.MaxInt64 {
					return lbUnknown
				}
				return r
			}
		}
		// index of a range loop over string/map is not needed here
		if nx, ok := x.Tuple.(*ssa.Next); ok && x.Index == 0 {
			_ = nx
			return lbUnknown
		}
		if nx, ok := x.Tuple.(*ssa.Next); ok && nx.IsString && x.Index == 1 {
			return 0 // key: byte index
		}
		return lbUnknown
	case *ssa.UnOp:
		if x.Op == token.MUL {
			return l.loadLb(x.X)
		}
		return lbUnknown
	case *ssa.Lookup:
		// string[i] is a byte
		if _, ok := x.X.Type().Underlying().(*types.Basic); ok {
			return 0
		}
	case *ssa.Parameter:
		// a parameter of an unexported function that is only ever called directly: the least bound
		// over the arguments of all its call sites
		fn := x.Parent()
		if fn == nil || !isRepoFunc(fn) || fn.Parent() != nil || fn.Object() == nil || fn.Object().Exported() || l.busyFn[fn] || l.p.usedAsValue(fn) {
			return lbUnknown
		}
		if fn.Signature.Recv() != nil {
			return lbUnknown // methods may be reached through interfaces
		}
		idx := -1
		for i, q := range fn.Params {
			if q == x {
				idx = i
			}
		}
		sites := l.p.callSitesOf(fn)
		if idx < 0 || len(sites) == 0 {
			return lbUnknown
		}
		l.busyFn[fn] = true
		r := int64(math.MaxInt64)
		for _, s := range sites {
			if idx >= len(s.Common().Args) {
				r = lbUnknown
				break
			}
			r = minLb(r, l.lb(s.Common().Args[idx]))
		}
		l.busyFn[fn] = false
		if r == math.MaxInt64 {
			return lbUnknown
		}
		return r
	}
	return lbUnknown
}

// usedAsValue: the function occurs somewhere as a value (stored, passed, bound in a closure) and
// not only as the callee of direct calls.
func (p *Prog) usedAsValue(fn *ssa.Function) bool {
	if p.fnValues == nil {
		p.fnValues = map[*ssa.Function]bool{}
		for _, f := range append(append([]*ssa.Function{}, p.Funcs...), p.CanaryFuncs...) {
			eachInstr(f, func(b *ssa.BasicBlock, ins ssa.Instruction) {
				var callee ssa.Value
				if ci, ok := ins.(ssa.CallInstruction); ok && !ci.Common().IsInvoke() {
					callee = ci.Common().Value
				}
				for _, op := range ins.Operands(nil) {
					if op == nil || *op == nil {
						continue
					}
					if g, ok := (*op).(*ssa.Function); ok {
						if callee != nil && *op == callee {
							// the callee position of a direct call - but the same function may also be an argument
							cnt := 0
							for _, o2 := range ins.Operands(nil) {
								if o2 != nil && *o2 == ssa.Value(g) {
									cnt++
								}
							}
							if cnt == 1 {
								continue
							}
						}
						p.fnValues[g] = true
					}
				}
			})
		}
	}
	return p.fnValues[fn]
}

func dependsOn(v ssa.Value, target ssa.Value, depth int) bool {
	return dependsOnSeen(v, target, depth, map[ssa.Value]bool{})
}

func dependsOnSeen(v ssa.Value, target ssa.Value, depth int, seen map[ssa.Value]bool) bool {
	if v == target {
		return true
	}
	if seen[v] {
		return false // already explored on this query (cycles through other phis)
	}
	seen[v] = true
	if depth > 40 {
		return true // be conservative: treat as cyclic
	}
	switch x := v.(type) {
	case *ssa.BinOp:
		return dependsOnSeen(x.X, target, depth+1, seen) || dependsOnSeen(x.Y, target, depth+1, seen)
	case *ssa.Convert:
		return dependsOnSeen(x.X, target, depth+1, seen)
	case *ssa.ChangeType:
		return dependsOnSeen(x.X, target, depth+1, seen)
	case *ssa.UnOp:
		if x.Op != token.MUL {
			return dependsOnSeen(x.X, target, depth+1, seen)
		}
	case *ssa.Phi:
		for _, e := range x.Edges {
			if e != x && dependsOnSeen(e, target, depth+1, seen) {
				return true
			}
		}
	}
	return false
}

func (l *lbCtx) funcRet(fn *ssa.Function) int64 {
	if r, ok := l.fnRet[fn]; ok {
		return r
	}
	if l.busyFn[fn] || fn.Blocks == nil {
		return lbUnknown
	}
	l.busyFn[fn] = true
	r := int64(math.MaxInt64)
	for _, ret := range returnsOf(fn) {
		r = minLb(r, l.lb(ret.Results[0]))
	}
	l.busyFn[fn] = false
	if r == math.MaxInt64 {
		r = lbUnknown
	}
	l.fnRet[fn] = r
	return r
}

// loadLb: lower bound of a loaded value.
func (l *lbCtx) loadLb(addr ssa.Value) int64 {
	switch a := addr.(type) {
	case *ssa.IndexAddr:
		// element of a slice held in a struct field: use the field-element invariant
		if ld, ok := a.X.(*ssa.UnOp); ok && ld.Op == token.MUL {
			if fa, ok := ld.X.(*ssa.FieldAddr); ok {
				return l.fieldElemLb(fa)
			}
		}
		// element of a local literal / make: not needed
	case *ssa.Alloc:
		// non-lifted local: min over stores
		stores, paths, _ := storesTo(a)
		r := int64(math.MaxInt64)
		for i, st := range stores {
			if len(paths[i]) != 0 {
				return lbUnknown
			}
			r = minLb(r, l.lb(st.Val))
		}
		if r == math.MaxInt64 {
			return 0 // zero value
		}
		return r
	}
	return lbUnknown
}

// fieldElemLb: a lower bound for every element of the slice stored in field T.F, established
// program-wide: every slice stored into the field is freshly made (zeroed), every element store
// goes through a load of the field and stores a value with that bound, and loaded slices do not
// escape into calls or other memory.
func (l *lbCtx) fieldElemLb(fa *ssa.FieldAddr) int64 {
	st := fa.X.Type().Underlying().(*types.Pointer).Elem().Underlying().(*types.Struct)
	key := namedTypeName(fa.X.Type()) + "." + fname(st.Field(fa.Field))
	if r, ok := l.fieldEl[key]; ok {
		return r
	}
	l.fieldEl[key] = lbUnknown // cycle guard
	tn := fa.X.Type().Underlying().(*types.Pointer).Elem()
	res := int64(0)
	sameField := func(x *ssa.FieldAddr) bool {
		return x.Field == fa.Field && types.Identical(x.X.Type().Underlying().(*types.Pointer).Elem(), tn)
	}
	for _, fn := range append(append([]*ssa.Function{}, l.p.Funcs...), l.p.CanaryFuncs...) {
		eachInstr(fn, func(b *ssa.BasicBlock, ins ssa.Instruction) {
			switch x := ins.(type) {
			case *ssa.Store:
				if f, ok := x.Addr.(*ssa.FieldAddr); ok && sameField(f) {
					// what is stored into the field must be a fresh zeroed slice
					if _, ok := x.Val.(*ssa.MakeSlice); !ok {
						res = lbUnknown
					}
				}
				if ia, ok := x.Addr.(*ssa.IndexAddr); ok {
					if ld, ok := ia.X.(*ssa.UnOp); ok && ld.Op == token.MUL {
						if f, ok := ld.X.(*ssa.FieldAddr); ok && sameField(f) {
							res = minLb(res, l.lb(x.Val))
						}
					}
				}
			case *ssa.UnOp:
				if f, ok := x.X.(*ssa.FieldAddr); ok && x.Op == token.MUL && sameField(f) {
					// the loaded slice may only be indexed, measured or ranged over
					for _, ref := range *x.Referrers() {
						switch r := ref.(type) {
						case *ssa.IndexAddr, *ssa.DebugRef:
						case *ssa.Call:
							if _, ok := r.Common().Value.(*ssa.Builtin); !ok {
								res = lbUnknown
							}
						default:
							res = lbUnknown
						}
					}
				}
			}
		})
	}
	// composite literal construction of T (e.g. &T{...}) would show up as FieldAddr stores too.
	l.fieldEl[key] = res
	if res != lbUnknown {
		l.Assumed = append(l.Assumed, "elements of "+key+" are >= 0: derived from all stores in the program (code outside the repository writing the exported field is not considered)")
	}
	return res
}

// containsRem reports whether the arithmetic expression tree of v contains a % operation and
// returns it.
func containsRem(v ssa.Value, depth int) *ssa.BinOp {
	if depth > 8 {
		return nil
	}
	switch x := v.(type) {
	case *ssa.BinOp:
		if x.Op == token.REM {
			return x
		}
		if r := containsRem(x.X, depth+1); r != nil {
			return r
		}
		return containsRem(x.Y, depth+1)
	case *ssa.Convert:
		return containsRem(x.X, depth+1)
	case *ssa.ChangeType:
		return containsRem(x.X, depth+1)
	case *ssa.Extract:
		if call, ok := x.Tuple.(*ssa.Call); ok {
			if cal := call.Common().StaticCallee(); cal != nil && isRepoFunc(cal) && cal.Blocks != nil {
				for _, ret := range returnsOf(cal) {
					if x.Index < len(ret.Results) {
						if r := containsRem(ret.Results[x.Index], depth+3); r != nil {
							return r
						}
					}
				}
			}
		}
	case *ssa.Call:
		// the result of a helper of the repository that computes it with %
		if cal := x.Common().StaticCallee(); cal != nil && isRepoFunc(cal) && cal.Blocks != nil && cal.Signature.Results().Len() == 1 {
			for _, ret := range returnsOf(cal) {
				if r := containsRem(ret.Results[0], depth+3); r != nil {
					return r
				}
			}
		}
	}
	return nil
}

// guardLb: a lower bound for v implied by the branch conditions on the way to the edge
// pred -> blk (the edge's own condition and those of single-predecessor dominators).
func guardLb(v ssa.Value, pred, blk *ssa.BasicBlock) int64 {
	best := int64(lbUnknown)
	from, to := pred, blk
	for steps := 0; steps < 12 && from != nil; steps++ {
		if iff, ok := from.Instrs[len(from.Instrs)-1].(*ssa.If); ok && from.Succs[0] != from.Succs[1] {
			taken := -1
			if from.Succs[0] == to {
				taken = 0
			} else if from.Succs[1] == to {
				taken = 1
			}
			if cmp, ok := iff.Cond.(*ssa.BinOp); ok && taken >= 0 && cmp.X == v {
				if k, ok := constInt(cmp.Y); ok {
					kk := int64(k)
					var b int64 = lbUnknown
					switch {
					case cmp.Op == token.LSS && taken == 1:
						b = kk
					case cmp.Op == token.GEQ && taken == 0:
						b = kk
					case cmp.Op == token.GTR && taken == 0:
						b = kk + 1
					case cmp.Op == token.LEQ && taken == 1:
						b = kk + 1
					case cmp.Op == token.EQL && taken == 0:
						b = kk
					}
					if b != lbUnknown && (best == lbUnknown || b > best) {
						best = b
					}
				}
			}
		}
		if len(from.Preds) != 1 {
			break
		}
		to, from = from, from.Preds[0]
	}
	return best
}
