package main

import (
	"fmt"
	"regexp"
	"strings"

	"golang.org/x/tools/go/ssa"
)

// A8: the Galois field used for Aztec check words belongs to the word size.
func ruleAztecGF(c *Ctx) {
	const R = "A8-AZTEC-GF"
	c.Doc(R, "aztec.getGF(w) returns, for w in {4,6,8,10,12}, the field constructed with size 2^w, the ISO 24778 polynomial of that size and base 1 (evaluated per word size with the selector parameter substituted, whether written as a switch or as a table lookup); generateCheckWords builds its Reed-Solomon encoder from getGF of its own wordSize parameter and encodes with that encoder")
	c.Floor(R, 7)
	iso := map[int64]int64{4: 0x13, 6: 0x43, 8: 0x12D, 10: 0x409, 12: 0x1069}
	if fn := c.theFunc(R, "aztec.getGF"); fn != nil && len(fn.Params) == 1 {
		for _, w := range []int64{4, 6, 8, 10, 12} {
			key := fmt.Sprintf("aztec.getGF/w=%d", w)
			n := NewNormer(c.P)
			n.FoldTables = true
			n.env = append(n.env, map[ssa.Value]Poly{fn.Params[0]: pConst(w)})
			ret, err := returnAt(n, fn, nil, nil)
			if err != nil {
				c.Undecided(R, key, fn.Pos(), err.Error())
				continue
			}
			call, ok := ret.Results[0].(*ssa.Call)
			if !ok || calleeFull(call) != modPath+"/utils.NewGaloisField" {
				c.Check(R, key, ret.Pos(), false, "utils.NewGaloisField(pp, 2^w, 1)", n.Norm(ret.Results[0]).String())
				continue
			}
			a := call.Common().Args
			pp, ok1 := n.Norm(a[0]).IsConst()
			size, ok2 := n.Norm(a[1]).IsConst()
			base, ok3 := n.Norm(a[2]).IsConst()
			c.Check(R, key, call.Pos(), ok1 && ok2 && ok3 && pp == iso[w] && size == 1<<uint(w) && base == 1,
				fmt.Sprintf("NewGaloisField(%#x, %d, 1)", iso[w], int64(1)<<uint(w)), fmt.Sprintf("NewGaloisField(%s, %s, %s)", n.Norm(a[0]), n.Norm(a[1]), n.Norm(a[2])))
		}
	}
	if fn := c.theFunc(R, "aztec.generateCheckWords"); fn != nil && len(fn.Params) == 3 {
		n := NewNormer(c.P)
		n.MaxInline = 0
		n.BindParams(fn, "bits", "totalBits", "wordSize")
		enc := c.P.deepCallsTo(fn, c.P.Func("utils.(*ReedSolomonEncoder).Encode"))
		if len(enc) != 1 {
			c.Check(R, "aztec.generateCheckWords/encode", fn.Pos(), false, "one Reed-Solomon Encode call", fmt.Sprint(len(enc)))
		} else {
			call := enc[0].Ins.(*ssa.Call)
			got := n.NormAt(enc[0], call.Common().Args[0]).String()
			want := "call:utils.NewReedSolomonEncoder(call:aztec.getGF(wordSize))"
			c.Check(R, "aztec.generateCheckWords/encoder-field", call.Pos(), got == want, want, got)
			n.AtomAlias["call:utils.(*BitList).Len(bits)"] = "L"
			c.expectPoly(R, "aztec.generateCheckWords/ecc-count", call.Pos(), n, call.Common().Args[2], "totalBits/wordSize - L/wordSize")
		}
	}
}

func init() {
	register("C03", ruleAztecGF)
	register("C12", ruleAztecGF)
	register("C17", ruleAztecGF)
}

// S7: Code 93 check characters.
func ruleCode93Checksum(c *Ctx) {
	const R = "S7-C93-CHECKSUM"
	c.Doc(R, "code93.getChecksum(content, maxWeight): walks the RUNES of the content by position from the last to the first; the weight is 1 for the last character, grows by one per character and starts over at 1 after maxWeight; total = sum of table value x weight; the result is the table character whose value is total % 47; EncodeWithColor appends C = getChecksum(data, 20) and then K = getChecksum(data + C, 15)")
	c.Floor(R, 8)
	fn := c.theFunc(R, "code93.getChecksum")
	if fn == nil || len(fn.Params) != 2 {
		return
	}
	n := NewNormer(c.P)
	n.BindParams(fn, "content", "maxWeight")
	// the positional read of the rune slice of the content (in getChecksum or a helper it delegates to)
	var ia *ssa.IndexAddr
	outer := fn
	var loopSite DeepSite
	c.P.deepEach(fn, 2, func(s DeepSite) {
		if x, ok := s.Ins.(*ssa.IndexAddr); ok {
			if cv, ok := x.X.(*ssa.Convert); ok && isStringType(cv.X.Type()) && n.NormAt(s, cv.X).String() == "content" {
				ia, loopSite = x, s
			}
		}
	})
	if ia != nil {
		fn = loopSite.Fn // the function that contains the weighted-sum loop
		n.Ctx = loopSite.Path
	}
	if ia == nil {
		c.Check(R, "code93.getChecksum/runes", fn.Pos(), false, "characters read by position from []rune(content)", "no such read (byte offsets or a forward range do not give right-anchored rune positions)")
		return
	}
	n.Bind[ia.X] = "data"
	hdr := enclosingLoopHeader(ia.Block())
	if hdr == nil {
		c.Undecided(R, "code93.getChecksum/loop", ia.Pos(), "the read is not in a loop")
		return
	}
	first, step, cond, ok := reindexLoop(n, hdr, ia.Index)
	if !ok {
		c.Undecided(R, "code93.getChecksum/loop", ia.Pos(), "loop is not a counting loop over the position")
		return
	}
	checkTraversal := func(closedFormWeight bool) {
		// a weight that is carried from character to character needs the right-to-left walk; a weight
		// computed from the position alone only needs every position to be visited once
		if closedFormWeight && pEqual(first, pConst(0)) {
			c.Check(R, "code93.getChecksum/first", ia.Pos(), true, "every position once (weight by position)", first.String())
			c.Check(R, "code93.getChecksum/step", ia.Pos(), pEqual(step, pConst(1)), "one rune per iteration", step.String())
			c.expectCond(R, "code93.getChecksum/while", ia.Pos(), cond, "q < len(data)")
			return
		}
		c.Check(R, "code93.getChecksum/first", ia.Pos(), pEqual(first, MustRef("len(data) - 1")), "starts at the last rune", first.String())
		c.Check(R, "code93.getChecksum/step", ia.Pos(), pEqual(step, pConst(-1)), "one rune to the left per iteration", step.String())
		c.expectCond(R, "code93.getChecksum/while", ia.Pos(), cond, "q >= 0")
	}
	var elem ssa.Value
	for _, r := range *ia.Referrers() {
		if ld, ok := r.(*ssa.UnOp); ok {
			elem = ld
		}
	}
	if elem != nil {
		n.Bind[elem] = "r"
	}
	// loop state: weight (starts at 1) and total (starts at 0)
	// (the position variable is the header phi the read index is computed from)
	var xv ssa.Value
	var findPhi func(v ssa.Value, d int)
	findPhi = func(v ssa.Value, d int) {
		if d > 6 || xv != nil {
			return
		}
		switch x := v.(type) {
		case *ssa.Phi:
			if x.Block() == hdr {
				xv = x
			}
		case *ssa.BinOp:
			findPhi(x.X, d+1)
			findPhi(x.Y, d+1)
		case *ssa.Convert:
			findPhi(x.X, d+1)
		}
	}
	findPhi(ia.Index, 0)
	var wP, tP *ssa.Phi
	for _, ins := range hdr.Instrs {
		p, ok := ins.(*ssa.Phi)
		if !ok {
			break
		}
		if ssa.Value(p) == xv || !isIntType(p.Type()) {
			continue
		}
		for ei, e := range p.Edges {
			if hdr.Dominates(hdr.Preds[ei]) {
				continue
			}
			if k, ok := n.Norm(e).IsConst(); ok && k == 1 {
				wP = p
			} else if ok && k == 0 {
				tP = p
			}
		}
	}
	if tP == nil {
		c.Undecided(R, "code93.getChecksum/total", hdr.Instrs[0].Pos(), "running total (starting at 0) not found")
		return
	}
	n.Bind[tP] = "total"
	wantW := "w"
	if wP != nil {
		n.Bind[wP] = "w"
		var upd []valCase
		next := cFalse // the iteration goes on to the next character
		nBack := 0
		for ei := range wP.Edges {
			if hdr.Dominates(hdr.Preds[ei]) {
				nBack++
			}
		}
		for ei, e := range wP.Edges {
			if hdr.Dominates(hdr.Preds[ei]) {
				edge := cTrue
				if nBack > 1 {
					// several back edges (the wrap-around test closes the loop body): each value belongs to its edge
					pred := hdr.Preds[ei]
					edge = cAnd(n.ReachCond(fn, hdr.Succs[0], pred), n.EdgeCond(pred, hdr))
				}
				next = cOr(next, edge)
				for _, cs := range n.valueCases(fn, nil, e, 0) {
					upd = append(upd, valCase{cs.val, cAnd(edge, cs.cond)})
				}
			}
		}
		var dom *Cond
		if nBack > 1 {
			dom = next
		}
		checkCasesUnder(c, R, "code93.getChecksum/weight-update", wP.Pos(), mergeCases(upd), []edgeSpec{{"w + 1", "w + 1 <= maxWeight"}, {"1", "w + 1 > maxWeight"}}, dom)
	} else {
		// closed form of the weight in terms of the position
		wantW = "(len(data) - 1 - q) % maxWeight + 1"
	}
	checkTraversal(wP == nil)
	// the value of the character: encodeTable[r].value
	var valV ssa.Value
	eachInstr(fn, func(b *ssa.BasicBlock, ins ssa.Instruction) {
		if ld, ok := ins.(*ssa.UnOp); ok && hdr.Dominates(b) && inLoopBody(hdr, b) {
			if fa, ok := ld.X.(*ssa.FieldAddr); ok {
				if _, f := storeBase(fa); f == "value" && valV == nil {
					valV = ld
				}
			}
		}
	})
	if valV == nil {
		c.Undecided(R, "code93.getChecksum/value", hdr.Instrs[0].Pos(), "table value of the character not found")
		return
	}
	got := n.Norm(valV).String()
	c.Check(R, "code93.getChecksum/value", valV.Pos(), got == "idx(global:code93.encodeTable,r)#0.value", "encodeTable[r].value", got)
	n.Bind[valV] = "v"
	for ei, e := range tP.Edges {
		if hdr.Dominates(hdr.Preds[ei]) {
			c.expectPoly(R, fmt.Sprintf("code93.getChecksum/total-update#%d", ei), tP.Pos(), n, e, "total + v*("+wantW+")")
		}
	}
	// result: the character whose value equals total % 47
	// (when the sum is computed by a helper, its result on the return after the loop is total % 47)
	// (when the sum is computed by a helper, its results on the return after the loop stand for the
	// helper call in the caller: whatever is done with them afterwards is seen in terms of "total")
	subst := map[ssa.Value]Poly{}
	if fn != outer && len(loopSite.Path) == 1 {
		hc := loopSite.Path[0].(*ssa.Call)
		var post []*ssa.Return
		for _, ret := range returnsOf(fn) {
			if !inLoopBody(hdr, ret.Block()) { // returns from inside the loop: character not encodable
				post = append(post, ret)
			}
		}
		if len(post) == 1 {
			if len(post[0].Results) == 1 {
				subst[hc] = n.Norm(post[0].Results[0])
			} else {
				for _, r := range *hc.Referrers() {
					if ex, ok := r.(*ssa.Extract); ok {
						subst[ex] = n.Norm(post[0].Results[ex.Index])
					}
				}
			}
		}
	}
	n.Ctx = nil
	found := false
	c.P.deepEach(outer, 2, func(s DeepSite) {
		bo, ok := s.Ins.(*ssa.BinOp)
		if !ok || (bo.Op.String() != "==" && bo.Op.String() != "!=") {
			return
		}
		for _, pair := range [][2]ssa.Value{{bo.X, bo.Y}, {bo.Y, bo.X}} {
			if (s.Fn == fn || fn == outer) && pEqual(n.NormAt(s, pair[0]), MustRef("total % 47")) {
				// compared directly
			} else if len(subst) > 0 {
				nn := NewNormer(c.P)
				nn.BindParams(outer, "content", "maxWeight")
				nn.env = append(nn.env, subst)
				if !pEqual(nn.NormAt(s, pair[0]), MustRef("total % 47")) {
					continue
				}
			} else {
				continue
			}
			// the other side: value of the element of a range over the table; the key is returned
			var next *ssa.Next
			eachInstr(s.Fn, func(b *ssa.BasicBlock, ins ssa.Instruction) {
				if nx, ok := ins.(*ssa.Next); ok && !nx.IsString {
					next = nx
				}
			})
			if next == nil {
				continue
			}
			var keyV ssa.Value
			for _, r := range *next.Referrers() {
				if ex, ok := r.(*ssa.Extract); ok && ex.Index == 1 {
					keyV = ex
				}
			}
			nn := NewNormer(c.P)
			for _, ret := range returnsOf(s.Fn) {
				if ret.Results[0] == keyV && keyV != nil {
					rc := nn.ReachCond(s.Fn, bo.Block(), ret.Block())
					match := nn.CondOf(bo)
					if bo.Op.String() == "!=" {
						match = cNot(match)
					}
					imp, _, _ := CondRelation(rc, match)
					if imp {
						found = true
					}
				}
			}
			rng := n.NormAt(s, rangeSubject(next)).String()
			c.Check(R, "code93.getChecksum/search-table", bo.Pos(), rng == "global:code93.encodeTable", "searches encodeTable", rng)
		}
	})
	c.Check(R, "code93.getChecksum/result", outer.Pos(), found, "returns the table character whose value is total % 47", fmt.Sprint(found))

	// EncodeWithColor: C over the data with weights up to 20, then K over data+C with weights up to 15
	if enc := c.theFunc(R, "code93.EncodeWithColor"); enc != nil {
		calls := c.P.deepCallsTo(enc, outer)
		if len(calls) != 2 {
			c.Check(R, "code93.EncodeWithColor/check-characters", enc.Pos(), false, "two getChecksum calls (C and K)", fmt.Sprint(len(calls)))
			return
		}
		ne := NewNormer(c.P)
		ne.Root = enc
		ne.NoInline["code93.getChecksum"] = true
		var wts []string
		for _, s := range calls {
			wts = append(wts, ne.NormAt(s, s.Ins.(*ssa.Call).Common().Args[1]).String())
		}
		c.Check(R, "code93.EncodeWithColor/weights", calls[0].Ins.Pos(), fmt.Sprint(wts) == "[20 15]", "[20 15]", fmt.Sprint(wts))
		// K is computed over the data extended by C
		c1, c2 := calls[0].Ins.(*ssa.Call), calls[1].Ins.(*ssa.Call)
		ne.Bind[c1] = "C"
		d1 := c1.Common().Args[0]
		ne.Bind[d1] = "D"
		got := ne.NormAt(calls[1], c2.Common().Args[0]).String()
		c.Check(R, "code93.EncodeWithColor/K-over-data-and-C", c2.Pos(), got == "Cat(D,Conv:string(C))", "getChecksum(data + string(C), 15)", got)
		// and D is the very string that is drawn: the symbol characters are * D C K * (or * D * without
		// check characters) - check characters computed over anything else protect nothing
		ne.Bind[c2] = "K"
		delete(ne.Bind, d1)
		{
			// the checked string as a value of the function that also builds the drawn string
			saved := ne.Ctx
			ne.Ctx = calls[0].Path
			dv, _ := ne.throughParams(d1, calls[0].Fn)
			ne.Ctx = saved
			ne.Bind[dv] = "D"
		}
		var drawn ssa.Value
		var drawnSite DeepSite
		c.P.deepEach(enc, 2, func(s DeepSite) {
			if rg, ok := s.Ins.(*ssa.Range); ok && isStringType(rg.X.Type()) {
				// the range that feeds the pattern lookup / AddBits
				drawn, drawnSite = rg.X, s
			}
		})
		if drawn == nil {
			c.Undecided(R, "code93.EncodeWithColor/drawn-string", enc.Pos(), "no range over the symbol string")
		} else {
			seen := map[string]bool{}
			saved := ne.Ctx
			ne.Ctx = drawnSite.Path
			wv, wfn := ne.throughParams(drawn, drawnSite.Fn)
			for _, cs := range ne.valueCases(wfn, nil, wv, 0) {
				seen[strings.Join(catParts(cs.val.String()), " ")] = true
			}
			ne.Ctx = saved
			want := map[string]bool{`const:"*" D Conv:string(C) Conv:string(K) const:"*"`: true, `const:"*" D const:"*"`: true}
			c.Check(R, "code93.EncodeWithColor/drawn-string", drawn.Pos(), fmt.Sprint(seen) == fmt.Sprint(want), "* D C K * with check characters, * D * without (D = the string the check characters are computed over)", fmt.Sprintf("drawn %v", seen))
		}
	}
}

// catParts flattens a nested concatenation normal form Cat(Cat(a,b),c) into its parts.
func catParts(s string) []string {
	if !strings.HasPrefix(s, "Cat(") || !strings.HasSuffix(s, ")") {
		return []string{s}
	}
	inner := s[4 : len(s)-1]
	depth, inStr := 0, false
	for i := 0; i < len(inner); i++ {
		ch := inner[i]
		switch {
		case ch == '"' && (i == 0 || inner[i-1] != '\\'):
			inStr = !inStr
		case inStr:
		case ch == '(' || ch == '[':
			depth++
		case ch == ')' || ch == ']':
			depth--
		case ch == ',' && depth == 0:
			return append(catParts(inner[:i]), catParts(inner[i+1:])...)
		}
	}
	return []string{s}
}

func rangeSubject(nx *ssa.Next) ssa.Value {
	if r, ok := nx.Iter.(*ssa.Range); ok {
		return r.X
	}
	return nx
}

func init() {
	register("C07", ruleCode93Checksum)
}

func init() {
	// round 3: a PDF417 row-count slip rejects content that fits (C10: accept exactly what fits);
	// an out-of-range read in the IterateBytes producer kills the process from a library goroutine (C16)
	register("C10", rulePDF417Encoder)
	register("C16", ruleBitList)
}

// P11: PDF417 text compaction - the pad value and the tracked sub-mode.
func rulePDF417Pad(c *Ctx) {
	const R = "P11-PDF-PAD"
	c.Doc(R, "pdf417.encodeText: an odd number of sub-mode values is completed with the value 29; 29 is the latch to alpha in the punctuation sub-mode (ISO 15438 Table 5: ps in alpha/lower/mixed, al in punctuation), so the sub-mode returned to the caller - which continues from it after a single-byte shift 913 - is alpha exactly when the pad was added in punctuation sub-mode, and the tracked sub-mode in every other case")
	c.Floor(R, 3)
	fn := c.theFunc(R, "pdf417.encodeText")
	if fn == nil || len(fn.Params) != 2 {
		return
	}
	punct, ok1 := c.P.ConstInt("pdf417", "subPunct")
	upper, ok2 := c.P.ConstInt("pdf417", "subUpper")
	if !ok1 || !ok2 {
		c.Anchor(R, "pdf417.subPunct", "sub-mode constants not found")
		return
	}
	n := NewNormer(c.P)
	n.BindParams(fn, "text", "submode")
	// the tracked sub-mode at the end of the scan: the loop-carried phi fed by the parameter
	var sm *ssa.Phi
	eachInstr(fn, func(b *ssa.BasicBlock, ins ssa.Instruction) {
		if p, ok := ins.(*ssa.Phi); ok && sm == nil {
			for ei, e := range p.Edges {
				if e == ssa.Value(fn.Params[1]) && !b.Dominates(b.Preds[ei]) {
					sm = p
				}
			}
		}
	})
	if sm == nil {
		c.Undecided(R, "pdf417.encodeText/submode", fn.Pos(), "tracked sub-mode (loop state fed by the parameter) not found")
		return
	}
	n.Bind[sm] = "sm"
	// the pad: an appended value 30*h + 29
	var pad *ssa.Call
	for _, s := range appendSites(fn) {
		if len(s.elems) != 1 {
			continue
		}
		v := n.Norm(s.elems[0])
		if k := v[""]; k == 29 && len(v) == 2 {
			for m, cf := range v {
				if m != "" && cf == 30 {
					pad = s.call
				}
			}
		}
	}
	if pad == nil {
		c.Check(R, "pdf417.encodeText/pad", fn.Pos(), false, "an odd value count is completed with 30*h + 29", "no such append")
		return
	}
	D := pad.Block().Idom()
	padCond := n.ReachCond(fn, D, pad.Block())
	odd := regexpOddLen.MatchString(padCond.String())
	c.Check(R, "pdf417.encodeText/pad-iff-odd", pad.Pos(), odd, "pad added exactly when the number of values is odd", padCond.String())
	rets := returnsOf(fn)
	if len(rets) != 1 {
		c.Undecided(R, "pdf417.encodeText/return", fn.Pos(), fmt.Sprintf("%d returns", len(rets)))
		return
	}
	clearOpaque(padCond) // the parity test is an ordinary atom of this comparison, on both sides
	isPunct := MustRefCond(fmt.Sprintf("sm == %d", punct))
	wantAlpha := cAnd(padCond, isPunct)
	cases := n.valueCases(fn, D, rets[0].Results[0], 0)
	sawAlpha, sawSame := false, false
	for _, cs := range cases {
		clearOpaque(cs.cond)
		k, isK := cs.val.IsConst()
		switch {
		case isK && k == upper:
			sawAlpha = true
			eq, w := CondEquivalent(cs.cond, wantAlpha)
			c.Check(R, "pdf417.encodeText/returns-alpha-iff", rets[0].Pos(), eq, "alpha exactly when padded in punctuation sub-mode: "+wantAlpha.String(), cs.cond.String()+" "+w)
		case cs.val.String() == "sm":
			sawSame = true
			eq, w := CondEquivalent(cs.cond, cNot(wantAlpha))
			c.Check(R, "pdf417.encodeText/returns-tracked-iff", rets[0].Pos(), eq, "the tracked sub-mode in every other case: "+cNot(wantAlpha).String(), cs.cond.String()+" "+w)
		default:
			c.Check(R, "pdf417.encodeText/returns-other", rets[0].Pos(), false, "alpha or the tracked sub-mode", cs.val.String()+" when "+cs.cond.String())
		}
	}
	if !sawAlpha {
		c.Check(R, "pdf417.encodeText/returns-alpha-iff", rets[0].Pos(), false, "alpha when the pad 29 was added in punctuation sub-mode (there it is the latch to alpha)", "the tracked sub-mode is returned unchanged: a reader is in alpha after the pad while the encoder continues in punctuation")
	}
	if !sawSame {
		c.Check(R, "pdf417.encodeText/returns-tracked-iff", rets[0].Pos(), false, "the tracked sub-mode when no latch was padded", "never returned")
	}
}

var regexpOddLen = regexp.MustCompile(`^!\[Mod\(len\([^)]*\),2\) == 0\]$`)

func init() {
	register("C04", rulePDF417Pad)
}

func clearOpaque(c *Cond) {
	if c.Kind == CBool {
		c.Opaque = false
	}
	for _, s := range c.Sub {
		clearOpaque(s)
	}
}

// A10: the mode message stores (number of data words - 1); zero data words cannot be expressed.
func ruleAztecModeCount(c *Ctx) {
	const R = "A10-AZTEC-WORDCOUNT"
	c.Doc(R, "aztec.EncodeWithColor: generateModeMessage is reached only with a data word count >= 1 (the mode message field holds count-1; with count 0 it would announce 64 or 2048 words): the reach condition of the call from the definition of the count, together with the count's structural lower bound, implies count >= 1")
	c.Floor(R, 1)
	fn := c.theFunc(R, "aztec.EncodeWithColor")
	gm := c.P.Func("aztec.generateModeMessage")
	if fn == nil || gm == nil {
		return
	}
	sites := c.P.deepCallsTo(fn, gm)
	if len(sites) == 0 {
		c.Check(R, "aztec.EncodeWithColor/mode-message", fn.Pos(), false, "a generateModeMessage call", "none")
	}
	for i, s := range sites {
		call := s.Ins.(*ssa.Call)
		w := call.Common().Args[2]
		n := NewNormer(c.P)
		n.Root = fn
		n.Bind[w] = "W"
		from := s.Fn.Blocks[0]
		if ins, ok := w.(ssa.Instruction); ok && ins.Block() != nil {
			from = ins.Block()
		}
		n.Ctx = s.Path
		rc := n.ReachCond(s.Fn, from, call.Block())
		l := newLbCtx(c.P)
		if lb := l.lb(w); lb != lbUnknown {
			rc = cAnd(rc, MustRefCond(fmt.Sprintf("W >= %d", lb)))
		}
		imp, _, wit := CondRelation(rc, MustRefCond("W >= 1"))
		found := rc.String()
		if !imp {
			found += "; reachable with " + wit
		}
		c.Check(R, fmt.Sprintf("aztec.EncodeWithColor/mode-message#%d/count-positive", i+1), call.Pos(), imp, "data word count >= 1 where the mode message is generated", found)
	}
}

func init() {
	register("C03", ruleAztecModeCount)
	register("C10", ruleAztecModeCount)
}

// throughParams: a value that is a parameter of a helper, replaced by what the calling context passes
// for it (repeatedly); n.Ctx is shortened accordingly. Case analysis then opens the choices made in
// the caller.
func (n *Normer) throughParams(v ssa.Value, fn *ssa.Function) (ssa.Value, *ssa.Function) {
	for d := 0; d < 4; d++ {
		p, ok := v.(*ssa.Parameter)
		if !ok {
			break
		}
		arg, ctx, ok := n.paramArg(p)
		if !ok {
			break
		}
		v, n.Ctx = arg, ctx
		if ins, isIns := arg.(ssa.Instruction); isIns {
			fn = ins.Parent()
		} else if q, isP := arg.(*ssa.Parameter); isP {
			fn = q.Parent()
		}
	}
	return v, fn
}
