package main

import (
	"fmt"

	"golang.org/x/tools/go/ssa"
)

// A8: the Galois field used for Aztec check words belongs to the word size.
func ruleAztecGF(c *Ctx) {
	const R = "A8-AZTEC-GF"
	c.Doc(R, "aztec.getGF(w) returns, for w in {4,6,8,10,12}, the field constructed with size 2^w, the ISO 24778 polynomial of that size and base 1 (evaluated per word size with the selector parameter substituted, whether written as a switch or as a table lookup); generateCheckWords builds its Reed-Solomon encoder from getGF of its own wordSize parameter and encodes with that encoder")
	c.Floor(R, 7)
	iso := map[int64]int64{4: 0x13, 6: 0x43, 8: 0x12D, 10: 0x409, 12: 0x1069}
	if fn := c.theFunc(R, "aztec.getGF"); fn != nil && len(fn.Params) == 1 {
		for _, w := range []int64{4, 6, 8, 10, 12} {
			key := fmt.Sprintf("aztec.getGF/w=%d", w)
			n := NewNormer(c.P)
			n.FoldTables = true
			n.env = append(n.env, map[ssa.Value]Poly{fn.Params[0]: pConst(w)})
			ret, err := returnAt(n, fn, nil, nil)
			if err != nil {
				c.Undecided(R, key, fn.Pos(), err.Error())
				continue
			}
			call, ok := ret.Results[0].(*ssa.Call)
			if !ok || calleeFull(call) != modPath+"/utils.NewGaloisField" {
				c.Check(R, key, ret.Pos(), false, "utils.NewGaloisField(pp, 2^w, 1)", n.Norm(ret.Results[0]).String())
				continue
			}
			a := call.Common().Args
			pp, ok1 := n.Norm(a[0]).IsConst()
			size, ok2 := n.Norm(a[1]).IsConst()
			base, ok3 := n.Norm(a[2]).IsConst()
			c.Check(R, key, call.Pos(), ok1 && ok2 && ok3 && pp == iso[w] && size == 1<<uint(w) && base == 1,
				fmt.Sprintf("NewGaloisField(%#x, %d, 1)", iso[w], int64(1)<<uint(w)), fmt.Sprintf("NewGaloisField(%s, %s, %s)", n.Norm(a[0]), n.Norm(a[1]), n.Norm(a[2])))
		}
	}
	if fn := c.theFunc(R, "aztec.generateCheckWords"); fn != nil && len(fn.Params) == 3 {
		n := NewNormer(c.P)
		n.MaxInline = 0
		n.BindParams(fn, "bits", "totalBits", "wordSize")
		enc := c.P.deepCallsTo(fn, c.P.Func("utils.(*ReedSolomonEncoder).Encode"))
		if len(enc) != 1 {
			c.Check(R, "aztec.generateCheckWords/encode", fn.Pos(), false, "one Reed-Solomon Encode call", fmt.Sprint(len(enc)))
		} else {
			call := enc[0].Ins.(*ssa.Call)
			got := n.NormAt(enc[0], call.Common().Args[0]).String()
			want := "call:utils.NewReedSolomonEncoder(call:aztec.getGF(wordSize))"
			c.Check(R, "aztec.generateCheckWords/encoder-field", call.Pos(), got == want, want, got)
			n.AtomAlias["call:utils.(*BitList).Len(bits)"] = "L"
			c.expectPoly(R, "aztec.generateCheckWords/ecc-count", call.Pos(), n, call.Common().Args[2], "totalBits/wordSize - L/wordSize")
		}
	}
}

func init() {
	register("C03", ruleAztecGF)
	register("C12", ruleAztecGF)
	register("C17", ruleAztecGF)
}

// S7: Code 93 check characters.
func ruleCode93Checksum(c *Ctx) {
	const R = "S7-C93-CHECKSUM"
	c.Doc(R, "code93.getChecksum(content, maxWeight): walks the RUNES of the content by position from the last to the first; the weight is 1 for the last character, grows by one per character and starts over at 1 after maxWeight; total = sum of table value x weight; the result is the table character whose value is total % 47; EncodeWithColor appends C = getChecksum(data, 20) and then K = getChecksum(data + C, 15)")
	c.Floor(R, 8)
	fn := c.theFunc(R, "code93.getChecksum")
	if fn == nil || len(fn.Params) != 2 {
		return
	}
	n := NewNormer(c.P)
	n.BindParams(fn, "content", "maxWeight")
	// the positional read of the rune slice of the content
	var ia *ssa.IndexAddr
	eachInstr(fn, func(b *ssa.BasicBlock, ins ssa.Instruction) {
		if x, ok := ins.(*ssa.IndexAddr); ok {
			if cv, ok := x.X.(*ssa.Convert); ok && isStringType(cv.X.Type()) && n.Norm(cv.X).String() == "content" {
				ia = x
			}
		}
	})
	if ia == nil {
		c.Check(R, "code93.getChecksum/runes", fn.Pos(), false, "characters read by position from []rune(content)", "no such read (byte offsets or a forward range do not give right-anchored rune positions)")
		return
	}
	n.Bind[ia.X] = "data"
	hdr := enclosingLoopHeader(ia.Block())
	if hdr == nil {
		c.Undecided(R, "code93.getChecksum/loop", ia.Pos(), "the read is not in a loop")
		return
	}
	first, step, cond, ok := reindexLoop(n, hdr, ia.Index)
	if !ok {
		c.Undecided(R, "code93.getChecksum/loop", ia.Pos(), "loop is not a counting loop over the position")
		return
	}
	c.Check(R, "code93.getChecksum/first", ia.Pos(), pEqual(first, MustRef("len(data) - 1")), "starts at the last rune", first.String())
	c.Check(R, "code93.getChecksum/step", ia.Pos(), pEqual(step, pConst(-1)), "one rune to the left per iteration", step.String())
	c.expectCond(R, "code93.getChecksum/while", ia.Pos(), cond, "q >= 0")
	var elem ssa.Value
	for _, r := range *ia.Referrers() {
		if ld, ok := r.(*ssa.UnOp); ok {
			elem = ld
		}
	}
	if elem != nil {
		n.Bind[elem] = "r"
	}
	// loop state: weight (starts at 1) and total (starts at 0)
	// (the position variable is the header phi the read index is computed from)
	var xv ssa.Value
	var findPhi func(v ssa.Value, d int)
	findPhi = func(v ssa.Value, d int) {
		if d > 6 || xv != nil {
			return
		}
		switch x := v.(type) {
		case *ssa.Phi:
			if x.Block() == hdr {
				xv = x
			}
		case *ssa.BinOp:
			findPhi(x.X, d+1)
			findPhi(x.Y, d+1)
		case *ssa.Convert:
			findPhi(x.X, d+1)
		}
	}
	findPhi(ia.Index, 0)
	var wP, tP *ssa.Phi
	for _, ins := range hdr.Instrs {
		p, ok := ins.(*ssa.Phi)
		if !ok {
			break
		}
		if ssa.Value(p) == xv || !isIntType(p.Type()) {
			continue
		}
		for ei, e := range p.Edges {
			if hdr.Dominates(hdr.Preds[ei]) {
				continue
			}
			if k, ok := n.Norm(e).IsConst(); ok && k == 1 {
				wP = p
			} else if ok && k == 0 {
				tP = p
			}
		}
	}
	if tP == nil {
		c.Undecided(R, "code93.getChecksum/total", hdr.Instrs[0].Pos(), "running total (starting at 0) not found")
		return
	}
	n.Bind[tP] = "total"
	wantW := "w"
	if wP != nil {
		n.Bind[wP] = "w"
		var upd []valCase
		for ei, e := range wP.Edges {
			if hdr.Dominates(hdr.Preds[ei]) {
				upd = append(upd, n.valueCases(fn, nil, e, 0)...)
			}
		}
		checkCases(c, R, "code93.getChecksum/weight-update", wP.Pos(), mergeCases(upd), []edgeSpec{{"w + 1", "w + 1 <= maxWeight"}, {"1", "w + 1 > maxWeight"}})
	} else {
		// closed form of the weight in terms of the position
		wantW = "(len(data) - 1 - q) % maxWeight + 1"
	}
	// the value of the character: encodeTable[r].value
	var valV ssa.Value
	eachInstr(fn, func(b *ssa.BasicBlock, ins ssa.Instruction) {
		if ld, ok := ins.(*ssa.UnOp); ok && hdr.Dominates(b) && hdr.Succs[0].Dominates(b) {
			if fa, ok := ld.X.(*ssa.FieldAddr); ok {
				if _, f := storeBase(fa); f == "value" && valV == nil {
					valV = ld
				}
			}
		}
	})
	if valV == nil {
		c.Undecided(R, "code93.getChecksum/value", hdr.Instrs[0].Pos(), "table value of the character not found")
		return
	}
	got := n.Norm(valV).String()
	c.Check(R, "code93.getChecksum/value", valV.Pos(), got == "idx(global:code93.encodeTable,r)#0.value", "encodeTable[r].value", got)
	n.Bind[valV] = "v"
	for ei, e := range tP.Edges {
		if hdr.Dominates(hdr.Preds[ei]) {
			c.expectPoly(R, fmt.Sprintf("code93.getChecksum/total-update#%d", ei), tP.Pos(), n, e, "total + v*("+wantW+")")
		}
	}
	// result: the character whose value equals total % 47
	found := false
	c.P.deepEach(fn, 2, func(s DeepSite) {
		bo, ok := s.Ins.(*ssa.BinOp)
		if !ok || bo.Op.String() != "==" {
			return
		}
		for _, pair := range [][2]ssa.Value{{bo.X, bo.Y}, {bo.Y, bo.X}} {
			if !pEqual(n.NormAt(s, pair[0]), MustRef("total % 47")) {
				continue
			}
			// the other side: value of the element of a range over the table; the key is returned
			var next *ssa.Next
			eachInstr(s.Fn, func(b *ssa.BasicBlock, ins ssa.Instruction) {
				if nx, ok := ins.(*ssa.Next); ok && !nx.IsString {
					next = nx
				}
			})
			if next == nil {
				continue
			}
			var keyV ssa.Value
			for _, r := range *next.Referrers() {
				if ex, ok := r.(*ssa.Extract); ok && ex.Index == 1 {
					keyV = ex
				}
			}
			nn := NewNormer(c.P)
			for _, ret := range returnsOf(s.Fn) {
				if ret.Results[0] == keyV && keyV != nil {
					rc := nn.ReachCond(s.Fn, bo.Block(), ret.Block())
					imp, _, _ := CondRelation(rc, nn.CondOf(bo))
					if imp {
						found = true
					}
				}
			}
			rng := n.NormAt(s, rangeSubject(next)).String()
			c.Check(R, "code93.getChecksum/search-table", bo.Pos(), rng == "global:code93.encodeTable", "searches encodeTable", rng)
		}
	})
	c.Check(R, "code93.getChecksum/result", fn.Pos(), found, "returns the table character whose value is total % 47", fmt.Sprint(found))

	// EncodeWithColor: C over the data with weights up to 20, then K over data+C with weights up to 15
	if enc := c.theFunc(R, "code93.EncodeWithColor"); enc != nil {
		calls := c.P.deepCallsTo(enc, fn)
		if len(calls) != 2 {
			c.Check(R, "code93.EncodeWithColor/check-characters", enc.Pos(), false, "two getChecksum calls (C and K)", fmt.Sprint(len(calls)))
			return
		}
		ne := NewNormer(c.P)
		ne.Root = enc
		ne.NoInline["code93.getChecksum"] = true
		var wts []string
		for _, s := range calls {
			wts = append(wts, ne.NormAt(s, s.Ins.(*ssa.Call).Common().Args[1]).String())
		}
		c.Check(R, "code93.EncodeWithColor/weights", calls[0].Ins.Pos(), fmt.Sprint(wts) == "[20 15]", "[20 15]", fmt.Sprint(wts))
		// K is computed over the data extended by C
		c1, c2 := calls[0].Ins.(*ssa.Call), calls[1].Ins.(*ssa.Call)
		ne.Bind[c1] = "C"
		d1 := c1.Common().Args[0]
		ne.Bind[d1] = "D"
		got := ne.NormAt(calls[1], c2.Common().Args[0]).String()
		c.Check(R, "code93.EncodeWithColor/K-over-data-and-C", c2.Pos(), got == "Cat(D,Conv:string(C))", "getChecksum(data + string(C), 15)", got)
	}
}

func rangeSubject(nx *ssa.Next) ssa.Value {
	if r, ok := nx.Iter.(*ssa.Range); ok {
		return r.X
	}
	return nx
}

func init() {
	register("C07", ruleCode93Checksum)
}

func init() {
	// round 3: a PDF417 row-count slip rejects content that fits (C10: accept exactly what fits);
	// an out-of-range read in the IterateBytes producer kills the process from a library goroutine (C16)
	register("C10", rulePDF417Encoder)
	register("C16", ruleBitList)
}
