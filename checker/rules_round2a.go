package main

import (
	"fmt"
	"go/token"
	"go/types"
	"sort"
	"strings"

	"golang.org/x/tools/go/ssa"
)

// Q11: QR mode encoders: estimated bit count handed to the version search and emitted fields.
func ruleQRModeBits(c *Ctx) {
	const R = "Q11-QR-MODEBITS"
	c.Doc(R, "QR mode encoders: the data bit count handed to findSmallestVersionInfo is 10*(n/3) + {0,4,7} by n%3 (numeric), 11*(n/2) + 6*(n odd) (alphanumeric), 8*n (byte) - the same quantities that are emitted (10/4/7-bit groups, 11-bit pairs + 6-bit rest, bytes); mode indicator 4 bits; the count field is len(content) in charCountBits(mode) bits with the same mode constant throughout")
	c.Floor(R, 14)
	find := c.P.Func("qr.findSmallestVersionInfo")
	addBits := c.P.Func("utils.(*BitList).AddBits")
	ccb := c.P.Func("qr.(*versionInfo).charCountBits")
	type spec struct {
		fn    string
		mode  int64
		cases []edgeSpec
	}
	specs := []spec{
		{"qr.encodeNumeric", 1, []edgeSpec{
			{"(len(content)/3)*10", "len(content)%3 != 1 && len(content)%3 != 2"},
			{"(len(content)/3)*10 + 4", "len(content)%3 == 1"},
			{"(len(content)/3)*10 + 7", "len(content)%3 != 1 && len(content)%3 == 2"}}},
		{"qr.encodeAlphaNumeric", 2, []edgeSpec{
			{"(len(content)/2)*11", "len(content)%2 != 1"},
			{"(len(content)/2)*11 + 6", "len(content)%2 == 1"}}},
		{"qr.encodeUnicode", 4, []edgeSpec{{"8*len(content)", ""}}},
	}
	for _, sp := range specs {
		fn := c.theFunc(R, sp.fn)
		if fn == nil || find == nil {
			continue
		}
		n := NewNormer(c.P)
		n.BindParams(fn, "content", "ecl")
		// []byte(content) has the length of content
		eachInstr(fn, func(b *ssa.BasicBlock, ins ssa.Instruction) {
			if cv, ok := ins.(*ssa.Convert); ok && cv.X == ssa.Value(fn.Params[0]) {
				n.Bind[cv] = "content"
			}
		})
		calls := callsTo(fn, find)
		if len(calls) != 1 {
			c.Check(R, sp.fn+"/search", fn.Pos(), false, "one findSmallestVersionInfo call", fmt.Sprint(len(calls)))
			continue
		}
		call := calls[0]
		checkCases(c, R, sp.fn+"/estimate", call.Pos(), n.valueCases(fn, nil, call.Common().Args[2], 0), sp.cases)
		m, ok := n.Norm(call.Common().Args[1]).IsConst()
		c.Check(R, sp.fn+"/mode", call.Pos(), ok && m == sp.mode, fmt.Sprint(sp.mode), n.Norm(call.Common().Args[1]).String())
		c.expectPoly(R, sp.fn+"/level", call.Pos(), n, call.Common().Args[0], "ecl")
		// header fields: AddBits(mode, 4) and AddBits(len(content), charCountBits(mode))
		var hdrMode, hdrCount bool
		for _, ab := range callsTo(fn, addBits) {
			v := n.Norm(ab.Common().Args[1])
			w := n.Norm(ab.Common().Args[2])
			if k, ok := v.IsConst(); ok && k == sp.mode {
				if wk, ok := w.IsConst(); ok && wk == 4 && ab.Block().Dominates(ab.Block()) {
					hdrMode = true
				}
			}
			if pEqual(v, MustRef("len(content)")) {
				if wc, ok := ab.Common().Args[2].(*ssa.Call); ok && calleeOf(wc) == ccb {
					if mk, ok := n.Norm(wc.Common().Args[1]).IsConst(); ok && mk == sp.mode && wc.Common().Args[0] == ssa.Value(call) {
						hdrCount = true
					}
				}
			}
		}
		c.Check(R, sp.fn+"/mode-indicator", fn.Pos(), hdrMode, fmt.Sprintf("AddBits(%d, 4)", sp.mode), fmt.Sprint(hdrMode))
		c.Check(R, sp.fn+"/count-field", fn.Pos(), hdrCount, "AddBits(len(content), vi.charCountBits(mode)) for the selected version and the same mode", fmt.Sprint(hdrCount))
		// result: (bits, vi, nil) with vi the selected version
		for _, ret := range returnsOf(fn) {
			if !isNilConst(ret.Results[0]) {
				c.Check(R, sp.fn+"/returns-version", ret.Pos(), ret.Results[1] == ssa.Value(call), "the version that was searched", n.Norm(ret.Results[1]).String())
			}
		}
	}
	// emitted groups
	if fn := c.P.Func("qr.encodeNumeric"); fn != nil {
		n := NewNormer(c.P)
		n.BindParams(fn, "content", "ecl")
		for _, ab := range callsTo(fn, addBits) {
			if h := enclosingLoopHeader(ab.Block()); h == nil {
				continue
			}
			// the group string curStr: the Atoi argument
			var cur ssa.Value
			eachInstr(fn, func(b *ssa.BasicBlock, ins ssa.Instruction) {
				if call, ok := ins.(*ssa.Call); ok && calleeFull(call) == "strconv.Atoi" {
					cur = call.Common().Args[0]
				}
			})
			if cur == nil {
				c.Undecided(R, "qr.encodeNumeric/groups", ab.Pos(), "group conversion not found")
				continue
			}
			n.Bind[cur] = "grp"
			var gcases []valCase
			for _, cs := range n.valueCases(fn, nil, ab.Common().Args[2], 0) {
				// the switch has no default: the zero value arises only for an impossible residue
				if k, ok := cs.val.IsConst(); ok && k == 0 {
					if imp, _, _ := CondRelation(cs.cond, MustRefCond("len(grp)%3 != 0 && len(grp)%3 != 1 && len(grp)%3 != 2")); imp {
						continue
					}
				}
				gcases = append(gcases, cs)
			}
			byResidue := false
			for _, cs := range gcases {
				cv := &condVars{bases: map[string]map[int64]bool{}, bools: map[string]bool{}}
				collect(cs.cond, cv)
				if cv.bases["Mod(len(grp),3)"] != nil {
					byResidue = true
				}
			}
			if !byResidue && sliceLenWithin(c.P, fn, cur, 1, 3) {
				// the width read from a table at the group's length: a group is one to three characters
				// long (shown from how it is cut out of the content), so length and residue say the same
				dom := MustRefCond("len(grp) >= 1 && len(grp) <= 3")
				var live []valCase
				for _, cs := range gcases {
					if eq, _ := CondEquivalent(cAnd(dom, cs.cond), cFalse); !eq {
						live = append(live, cs)
					}
				}
				checkCasesUnder(c, R, "qr.encodeNumeric/group-bits", ab.Pos(), live, []edgeSpec{
					{"10", "len(grp) == 3"}, {"4", "len(grp) == 1"}, {"7", "len(grp) == 2"}}, dom)
				continue
			}
			checkCases(c, R, "qr.encodeNumeric/group-bits", ab.Pos(), gcases, []edgeSpec{
				{"10", "len(grp)%3 == 0"}, {"4", "len(grp)%3 != 0 && len(grp)%3 == 1"}, {"7", "len(grp)%3 != 0 && len(grp)%3 != 1 && len(grp)%3 == 2"}})
		}
	}
	if fn := c.P.Func("qr.encodeAlphaNumeric"); fn != nil {
		n := NewNormer(c.P)
		n.BindParams(fn, "content", "ecl")
		var recvs []*ssa.UnOp
		eachInstr(fn, func(b *ssa.BasicBlock, ins ssa.Instruction) {
			if u, ok := ins.(*ssa.UnOp); ok && u.Op == token.ARROW {
				recvs = append(recvs, u)
			}
		})
		got := []string{}
		for _, ab := range callsTo(fn, addBits) {
			if len(recvs) == 3 {
				n.Bind[recvs[0]], n.Bind[recvs[1]], n.Bind[recvs[2]] = "c1", "c2", "c3"
			}
			v, w := n.Norm(ab.Common().Args[1]).String(), n.Norm(ab.Common().Args[2]).String()
			if strings.Contains(v, "c1") || strings.Contains(v, "c3") {
				got = append(got, v+":"+w)
			}
		}
		sort.Strings(got)
		want := []string{"45*c1 + c2:11", "c3:6"}
		c.Check(R, "qr.encodeAlphaNumeric/groups", fn.Pos(), fmt.Sprint(got) == fmt.Sprint(want), fmt.Sprint(want), fmt.Sprint(got))
	}
}

// ---------------------------------------------------------------------------------------------
// Z7/Z8: Code 128 set tracking and look-ahead helpers.
func ruleCode128State(c *Ctx) {
	const R = "Z7-C128-STATE"
	c.Doc(R, "code128.getCodeIndexList: after each character the current-set variable equals the start symbol of the set that was used for it (105 if set C was chosen, 103 for A, 104 for B), whether or not a switch symbol had to be emitted; look-ahead helpers inspect nextRunes[i] for the running index i only, and shouldUseATable scans the whole remaining input")
	c.Floor(R, 5)
	if fn := c.theFunc(R, "code128.getCodeIndexList"); fn != nil {
		n := NewNormer(c.P)
		n.BindParams(fn, "content")
		bindCalls(n, c.P, fn, map[string]string{"code128.shouldUseCTable": "useC", "code128.shouldUseATable": "useA"}, nil)
		var hdr *ssa.BasicBlock
		var curP *ssa.Phi
		for _, b := range fn.Blocks {
			var phis []*ssa.Phi
			for _, ins := range b.Instrs {
				if p, ok := ins.(*ssa.Phi); ok && isIntType(p.Type()) {
					phis = append(phis, p) // (a symbol list kept in a slice variable is not loop state of interest)
				}
			}
			if len(phis) == 2 && hdr == nil && len(b.Succs) == 2 {
				hdr = b
				for _, p := range phis {
					if bt, _ := intSize(p.Type()); bt == 8 {
						curP = p
					}
				}
			}
		}
		if hdr == nil || curP == nil {
			c.Undecided(R, "code128.getCodeIndexList/state", fn.Pos(), "current-set variable not found")
		} else {
			n.Bind[curP] = "cur"
			body := hdr.Succs[0]
			branch := map[int64]string{105: "useC", 103: "!useC && useA", 104: "!useC && !useA"}
			for ei, e := range curP.Edges {
				if !hdr.Dominates(hdr.Preds[ei]) {
					c.expectPoly(R, "code128.getCodeIndexList/initial-set", curP.Pos(), n, e, "0")
					continue
				}
				for ci, cs := range n.valueCases(fn, body, e, 0) {
					key := fmt.Sprintf("code128.getCodeIndexList/next-set/case%d", ci)
					if k, ok := cs.val.IsConst(); ok {
						br, known := branch[k]
						if !known {
							c.Check(R, key, curP.Pos(), false, "one of the start symbols 103/104/105", cs.val.String())
							continue
						}
						imp, _, w := CondRelation(cs.cond, MustRefCond(br))
						c.Check(R, key, curP.Pos(), imp, fmt.Sprintf("set to %d only when that set was chosen (%s)", k, br), cs.cond.String()+" "+w)
						continue
					}
					if cs.val.String() != "cur" {
						c.Check(R, key, curP.Pos(), false, "a start symbol or the unchanged current set", cs.val.String())
						continue
					}
					want := MustRefCond("(useC && cur == 105) || (!useC && useA && cur == 103) || (!useC && !useA && cur == 104)")
					imp, _, w := CondRelation(cs.cond, want)
					c.Check(R, key, curP.Pos(), imp, "current set kept only if it already is the chosen set", cs.cond.String()+" "+w)
				}
			}
		}
	}
	if fn := c.theFunc(R, "code128.shouldUseCTable"); fn != nil && len(fn.Params) == 2 {
		n := NewNormer(c.P)
		n.BindParams(fn, "next", "cur")
		// every element load of nextRunes inside the loop uses the loop index
		var idx ssa.Value
		for _, b := range fn.Blocks {
			if v, _, init, ok := loopIndex(b); ok && init == 0 {
				idx = v
			}
		}
		if idx == nil {
			c.Undecided(R, "code128.shouldUseCTable/loop", fn.Pos(), "digit loop not found")
		} else {
			n.Bind[idx] = "i"
			bad := ""
			cnt := 0
			eachInstr(fn, func(b *ssa.BasicBlock, ins ssa.Instruction) {
				if ia, ok := ins.(*ssa.IndexAddr); ok && ia.X == ssa.Value(fn.Params[0]) {
					cnt++
					if n.Norm(ia.Index).String() != "i" {
						bad += "next[" + n.Norm(ia.Index).String() + "] "
					}
				}
			})
			c.Check(R, "code128.shouldUseCTable/subject", fn.Pos(), bad == "" && cnt >= 1, "every inspected rune is next[i]", fmt.Sprintf("%d loads; other: %s", cnt, orOK(bad)))
			// required digits: 2 in set C, else 4
			fnc1, _ := c.P.ConstInt("code128", "FNC1")
			bindByNorm(n, fn, "next[i]", "r")
			rejects := cFalse
			var loopHdr *ssa.BasicBlock
			for _, b := range fn.Blocks {
				if v, _, _, ok := loopIndex(b); ok && v == idx {
					loopHdr = b
				}
			}
			for _, ret := range returnsOf(fn) {
				if k, ok := ret.Results[0].(*ssa.Const); ok && k.Value != nil && k.Value.String() == "false" {
					if loopHdr != nil && inLoopBody(loopHdr, ret.Block()) {
						rc := n.ReachCond(fn, loopHdr.Succs[0], ret.Block())
						if !hasOpaque(rc) {
							rejects = cOr(rejects, rc)
						}
					}
				}
			}
			c.expectCond(R, "code128.shouldUseCTable/non-digit-rejects", fn.Pos(), rejects, fmt.Sprintf("!(i%%2 == 0 && r == %d) && (r < 48 || r > 57)", fnc1))
		}
	}
	if fn := c.theFunc(R, "code128.shouldUseATable"); fn != nil && len(fn.Params) == 2 {
		// the scan covers the whole remaining input
		whole := false
		eachInstr(fn, func(b *ssa.BasicBlock, ins ssa.Instruction) {
			if ia, ok := ins.(*ssa.IndexAddr); ok && ia.X == ssa.Value(fn.Params[0]) {
				if h := enclosingLoopHeader(b); h != nil {
					if idx, _, init, ok := loopIndex(h); ok && init == 0 && ia.Index == idx {
						whole = true
					}
				}
			}
		})
		c.Check(R, "code128.shouldUseATable/scan", fn.Pos(), whole, "look-ahead ranges over nextRunes from its first element", fmt.Sprint(whole))
	}
}

// ---------------------------------------------------------------------------------------------
// S5: Code 39 / Code 93 assembly.
func ruleCode39Assembly(c *Ctx) {
	const R = "S5-C39-ASSEMBLY"
	c.Doc(R, "code39/code93 prepare: a rune above 127 is an error; otherwise the full-ASCII table entry is appended when there is one, else (Code 39) the character itself - nothing else; code39.EncodeWithColor: a narrow gap precedes every character except the first (gap before pattern), every character's pattern is appended; code93: 9 modules per character and one termination bar after the stop character; Content is the prepared string that was drawn")
	c.Floor(R, 8)
	for _, pk := range []string{"code39", "code93"} {
		fn := c.theFunc(R, pk+".prepare")
		if fn == nil {
			continue
		}
		n := NewNormer(c.P)
		n.BindParams(fn, "content")
		var hdr *ssa.BasicBlock
		var rphi *ssa.Phi
		var runeV ssa.Value
		eachInstr(fn, func(b *ssa.BasicBlock, ins ssa.Instruction) {
			if nx, ok := ins.(*ssa.Next); ok {
				hdr = b
				for _, r := range *nx.Referrers() {
					if ex, ok := r.(*ssa.Extract); ok && ex.Index == 2 {
						runeV = ex
					}
				}
			}
		})
		if hdr != nil {
			for _, ins := range hdr.Instrs {
				if p, ok := ins.(*ssa.Phi); ok && isStringType(p.Type()) {
					rphi = p
				}
			}
		}
		// the result may be accumulated in a strings.Builder instead of a string variable
		var bld *ssa.Alloc
		if rphi == nil {
			eachInstr(fn, func(b *ssa.BasicBlock, ins ssa.Instruction) {
				if a, ok := ins.(*ssa.Alloc); ok && namedTypeName(a.Type().Underlying().(*types.Pointer).Elem()) == "strings.Builder" {
					bld = a
				}
			})
		}
		if hdr == nil || (rphi == nil && bld == nil) || runeV == nil {
			c.Undecided(R, pk+".prepare/loop", fn.Pos(), "accumulation loop over the runes not found")
			continue
		}
		if rphi != nil {
			n.Bind[rphi] = "acc"
		}
		n.Bind[runeV] = "r"
		projectOK(n, fn, hdr.Succs[0], hdr.Succs[0])
		body := hdr.Succs[0]
		for _, ret := range returnsOf(fn) {
			if !isNilConst(ret.Results[1]) && hdr.Dominates(ret.Block()) {
				c.expectCond(R, pk+".prepare/error-iff", ret.Pos(), n.ReachCond(fn, body, ret.Block()), "r > 127")
			}
			// every successful return hands back what the rune loop accumulated (a shortcut around the
			// loop would leave characters unexpanded that the full-ASCII spelling replaces)
			if isNilConst(ret.Results[1]) && rphi != nil {
				okRet := hdr.Dominates(ret.Block()) && n.Norm(ret.Results[0]).String() == "acc"
				if k, isK := ret.Results[0].(*ssa.Const); isK && !hdr.Dominates(ret.Block()) && k.Value != nil && k.Value.ExactString() == `""` {
					// (an empty text has nothing to expand)
					if eq, _ := CondEquivalent(n.ReachCond(fn, nil, ret.Block()), MustRefCond("len(content) == 0")); eq {
						okRet = true
					}
				}
				c.Check(R, pk+".prepare/returns-accumulated@"+c.P.Pos(ret.Pos()), ret.Pos(), okRet, "the string accumulated by the rune loop", n.Norm(ret.Results[0]).String())
			}
		}
		var allCases []valCase
		if bld != nil {
			// every write appends to what was written before: one alternative "acc + x" per write site;
			// the builder is used for nothing else, no path of one iteration writes twice, and the
			// function returns its contents
			var writes []*ssa.Call
			okUse := true
			why := ""
			for _, r := range *bld.Referrers() {
				call, isCall := r.(*ssa.Call)
				if !isCall || len(call.Common().Args) == 0 || call.Common().Args[0] != ssa.Value(bld) {
					if _, dbg := r.(*ssa.DebugRef); !dbg {
						okUse, why = false, "builder used other than as a method receiver"
					}
					continue
				}
				switch calleeFull(call) {
				case "(*strings.Builder).WriteString", "(*strings.Builder).WriteRune", "(*strings.Builder).WriteByte":
					writes = append(writes, call)
				case "(*strings.Builder).String", "(*strings.Builder).Len", "(*strings.Builder).Grow":
				default:
					okUse, why = false, calleeFull(call)
				}
			}
			for _, w := range writes {
				if !hdr.Dominates(w.Block()) || !hdr.Succs[0].Dominates(w.Block()) {
					okUse, why = false, "write outside the rune loop"
				}
				for _, w2 := range writes {
					if w != w2 {
						if eq, _ := CondEquivalent(n.ReachCond(fn, w.Block(), w2.Block()), cFalse); !eq || w.Block() == w2.Block() {
							okUse, why = false, "two writes on one path of an iteration"
						}
					}
				}
				arg := n.Norm(w.Common().Args[1]).asAtom()
				if calleeFull(w) != "(*strings.Builder).WriteString" {
					arg = "Conv:string(" + arg + ")"
				}
				allCases = append(allCases, valCase{pAtom("Cat(acc," + arg + ")"), n.ReachCond(fn, body, w.Block())})
			}
			for _, ret := range returnsOf(fn) {
				if isNilConst(ret.Results[1]) {
					sc, isCall := ret.Results[0].(*ssa.Call)
					if !isCall || calleeFull(sc) != "(*strings.Builder).String" || sc.Common().Args[0] != ssa.Value(bld) {
						okUse, why = false, "success return is not the builder's contents"
					}
				}
			}
			c.Check(R, pk+".prepare/builder", bld.Pos(), okUse, "a strings.Builder that is only appended to in the rune loop (one write per rune) and whose contents are returned", orOK(why))
		}
		var backEdges []ssa.Value
		if rphi != nil {
			backEdges = rphi.Edges
		}
		for ei, e := range backEdges {
			if !hdr.Dominates(hdr.Preds[ei]) {
				continue
			}
			pred := hdr.Preds[ei]
			edgeReach := cAnd(n.ReachCond(fn, body, pred), n.EdgeCond(pred, hdr))
			var cases []valCase
			for _, cs := range n.valueCases(fn, body, e, 0) {
				cases = append(cases, valCase{cs.val, cAnd(edgeReach, cs.cond)})
			}
			allCases = append(allCases, cases...)
		}
		{
			cases := mergeCases(allCases)
			var got []string
			for _, cs := range cases {
				got = append(got, cs.val.String()+" when "+cs.cond.String())
			}
			sort.Strings(got)
			var want []string
			if pk == "code39" {
				want = []string{
					"Cat(acc,Conv:string(slice(&alloc:code39.prepare.slicelit,,))) when (![r - 128 < 0] == false)", // placeholder, replaced below
				}
				// structural comparison instead of strings: two alternatives, table entry under ok, the rune itself otherwise
				okTable, okSelf, extra := false, false, ""
				// "the table has r": the comma-ok flag of a map, or a non-empty entry of an array indexed by r
				has := MustRefCond("r <= 127 && ok")
				hasNot := MustRefCond("r <= 127 && !ok")
				const arrEntry = "global:code39.extendedTable[r]"
				for _, cs := range cases {
					if cs.val.String() == "Cat(acc,"+arrEntry+")" {
						empty := "Eq(const:\"\"," + arrEntry + ")"
						has, hasNot = MustRefCond("r <= 127 && !emp"), MustRefCond("r <= 127 && emp")
						renameAtoms(has, map[string]string{"emp": empty})
						renameAtoms(hasNot, map[string]string{"emp": empty})
					}
				}
				for _, cs := range cases {
					v := cs.val.String()
					switch {
					case v == "Cat(acc,idx(global:code39.extendedTable,r)#0)" || v == "Cat(acc,"+arrEntry+")":
						eq, _ := CondEquivalent(cs.cond, has)
						okTable = eq
					case strings.HasPrefix(v, "Cat(acc,Conv:string("):
						eq, _ := CondEquivalent(cs.cond, hasNot)
						okSelf = eq
					default:
						extra += v + " when " + cs.cond.String() + "; "
					}
				}
				_ = want
				c.Check(R, "code39.prepare/append", hdr.Instrs[0].Pos(), okTable && okSelf && extra == "", "acc + extendedTable[r] when the table has r, acc + string(r) otherwise, nothing else", strings.Join(got, " | "))
			} else {
				ok93 := len(cases) == 1 && cases[0].val.String() == "Cat(acc,global:code93.extendedTable[r])"

				if ok93 {
					eq, _ := CondEquivalent(cases[0].cond, MustRefCond("r <= 127"))
					ok93 = eq
				}
				c.Check(R, "code93.prepare/append", hdr.Instrs[0].Pos(), ok93, "acc + extendedTable[r] for every r <= 127", strings.Join(got, " | "))
			}
		}
	}
	addBit := c.P.Func("utils.(*BitList).AddBit")
	if fn := c.theFunc(R, "code39.EncodeWithColor"); fn != nil && addBit != nil {
		n := NewNormer(c.P)
		n.BindParams(fn, "content", "includeChecksum", "fullASCII", "color")
		var gap, pat *ssa.Call
		root := fn
		// the drawing loop may live in an unexported helper
		for _, site := range c.P.deepCallsTo(root, addBit) {
			call := site.Ins.(*ssa.Call)
			if site.Fn != root {
				if fn != root && fn != site.Fn {
					c.Undecided(R, "code39.EncodeWithColor/loop", call.Pos(), "bars are appended in more than one helper")
				}
				fn = site.Fn
				c.Fn(c.P.FuncName(fn))
			}
			if bits, ok := constBoolList(c.P, call.Common().Args[1]); ok {
				if bits == "0" {
					gap = call
				} else {
					c.Check(R, "code39.EncodeWithColor/gap-bits", call.Pos(), false, "a single narrow space", bits)
				}
			} else {
				pat = call
			}
		}
		if gap == nil || pat == nil {
			c.Check(R, "code39.EncodeWithColor/gap", fn.Pos(), false, "gap and pattern appends", fmt.Sprintf("gap=%v pattern=%v", gap != nil, pat != nil))
		} else {
			hdr := enclosingLoopHeader(pat.Block())
			var posV ssa.Value
			if hdr != nil {
				eachInstr(fn, func(b *ssa.BasicBlock, ins ssa.Instruction) {
					if nx, ok := ins.(*ssa.Next); ok && b == hdr {
						for _, r := range *nx.Referrers() {
							if ex, ok := r.(*ssa.Extract); ok && ex.Index == 1 {
								posV = ex
							}
						}
					}
				})
			}
			var flag *ssa.Phi
			neg := false
			if hdr != nil {
				flag, neg = notFirstFlag(hdr)
			}
			if hdr != nil && posV == nil && flag == nil && fn == root && gapByLength(c, n, fn, hdr, gap, pat) {
				// "not the first character" read off the list itself: it is empty exactly until the first
				// pattern has been appended
				body := hdr.Succs[0]
				projectOK(n, fn, body, pat.Block())
				patC := n.ReachCond(fn, body, pat.Block())
				c.Check(R, "code39.EncodeWithColor/gap-iff", gap.Pos(), true, "a gap before every character but the first", "gap iff the list is not empty (fresh list, one non-empty pattern per character)")
				c.Check(R, "code39.EncodeWithColor/gap-before-pattern", gap.Pos(), !dominatesInstr(pat, gap) && reachableFrom(gap.Block())[pat.Block()], "the gap precedes the character's pattern", "ok")
				c.expectCond(R, "code39.EncodeWithColor/pattern-iff", pat.Pos(), patC, "ok")
			} else if hdr == nil || (posV == nil && flag == nil) {
				c.Undecided(R, "code39.EncodeWithColor/loop", pat.Pos(), "character loop not found")
			} else {
				if posV != nil {
					n.Bind[posV] = "i"
				}
				projectOK(n, fn, hdr.Succs[0], pat.Block())
				patC := n.ReachCond(fn, hdr.Succs[0], pat.Block())
				// for every character that is drawn (position i >= 0): a gap first, except at position 0
				dom := cAnd(MustRefCond("i >= 0"), patC)
				want := MustRefCond("i != 0")
				if flag != nil {
					// (or decided by a flag that is raised after the first character)
					n.Bind[flag] = "notfirst"
					if posV == nil || condMentions(n.ReachCond(fn, hdr.Succs[0], gap.Block()), "notfirst") {
						want = &Cond{Kind: CBool, Name: "notfirst"}
						if neg {
							want = cNot(want)
						}
					}
				}
				c.expectCondC(R, "code39.EncodeWithColor/gap-iff", gap.Pos(), cAnd(dom, n.ReachCond(fn, hdr.Succs[0], gap.Block())), cAnd(dom, want))
				c.Check(R, "code39.EncodeWithColor/gap-before-pattern", gap.Pos(), !dominatesInstr(pat, gap) && reachableFrom(gap.Block())[pat.Block()], "the gap precedes the character's pattern", "ok")
				c.expectCond(R, "code39.EncodeWithColor/pattern-iff", pat.Pos(), patC, "ok")
			}
		}
	}
	if fn := c.theFunc(R, "code93.EncodeWithColor"); fn != nil && addBit != nil {
		n := NewNormer(c.P)
		ab := c.P.deepCallsTo(fn, c.P.Func("utils.(*BitList).AddBits"))
		okW := len(ab) == 1
		if okW {
			k, ok := n.Norm(ab[0].Ins.(*ssa.Call).Common().Args[2]).IsConst()
			okW = ok && k == 9
		}
		c.Check(R, "code93.EncodeWithColor/modules", fn.Pos(), okW, "AddBits(pattern, 9) per character", fmt.Sprint(len(ab)))
		term := 0
		for _, s := range c.P.deepCallsTo(fn, addBit) {
			call := s.Ins.(*ssa.Call)
			if bits, ok := constBoolList(c.P, call.Common().Args[1]); ok && bits == "1" && len(ab) == 1 && s.Fn == ab[0].Fn {
				if h := enclosingLoopHeader(ab[0].Ins.Block()); h != nil && h.Succs[1].Dominates(call.Block()) {
					term++
				}
			}
		}
		c.Check(R, "code93.EncodeWithColor/termination-bar", fn.Pos(), term == 1, "one termination bar after the characters", fmt.Sprint(term))
		// content handed to the constructor is the prepared string
		nn := NewNormer(c.P)
		nn.BindParams(fn, "content", "includeChecksum", "fullASCII", "color")
		bindCalls(nn, c.P, fn, nil, map[string][2]string{"code93.prepare": {"prepared", "prepErr"}})
		eachInstr(fn, func(b *ssa.BasicBlock, ins ssa.Instruction) {
			call, ok := ins.(*ssa.Call)
			if !ok || calleeOf(call) == nil || calleeOf(call).Name() != "New1DCodeWithColor" {
				return
			}
			seen := map[string]bool{}
			for _, cs := range nn.valueCases(fn, nil, call.Common().Args[1], 0) {
				seen[cs.val.String()] = true
			}
			c.Check(R, "code93.EncodeWithColor/content", call.Pos(), seen["prepared"] && seen["content"] && len(seen) == 2, "prepared spelling in full-ASCII mode, the input otherwise", fmt.Sprint(seen))
		})
	}
	_ = types.Typ
}

// sliceLenWithin: every way the string v is cut out (x[lo:hi], possibly chosen between two cuts, with
// hi possibly min(...)) has a length between least and most, given the conditions under which the
// cut is made (loop-carried positions are named, so that "pos < len(x)" counts).
func sliceLenWithin(p *Prog, fn *ssa.Function, v ssa.Value, least, most int64) bool {
	n := NewNormer(p)
	k := 0
	for _, b := range fn.Blocks {
		for _, ins := range b.Instrs {
			phi, ok := ins.(*ssa.Phi)
			if !ok {
				break
			}
			if !isIntType(phi.Type()) {
				continue
			}
			for _, pr := range b.Preds {
				if b.Dominates(pr) {
					n.Bind[phi] = fmt.Sprintf("lv%d", k)
					k++
					break
				}
			}
		}
	}
	var cuts []*ssa.Slice
	var conds []*Cond
	var gather func(x ssa.Value, cond *Cond, depth int) bool
	gather = func(x ssa.Value, cond *Cond, depth int) bool {
		if depth > 3 {
			return false
		}
		switch y := x.(type) {
		case *ssa.Slice:
			cuts = append(cuts, y)
			conds = append(conds, cAnd(cond, n.ReachCond(fn, nil, y.Block())))
			return true
		case *ssa.Phi:
			blk := y.Block()
			for ei, e := range y.Edges {
				if blk.Dominates(blk.Preds[ei]) {
					return false
				}
				if !gather(e, cAnd(cond, cAnd(n.ReachCond(fn, nil, blk.Preds[ei]), n.EdgeCond(blk.Preds[ei], blk))), depth+1) {
					return false
				}
			}
			return true
		}
		return false
	}
	if !gather(v, cTrue, 0) || len(cuts) == 0 {
		return false
	}
	for i, sl := range cuts {
		if !isStringType(sl.X.Type()) {
			if _, isSl := sl.X.Type().Underlying().(*types.Slice); !isSl {
				return false
			}
		}
		lo := pConst(0)
		if sl.Low != nil {
			lo = n.Norm(sl.Low)
		}
		var his []valCase
		if sl.High != nil {
			his = n.valueCases(fn, nil, sl.High, 0)
		} else {
			his = []valCase{{pAtom("len(" + n.Norm(sl.X).asAtom() + ")"), cTrue}}
		}
		for _, h := range his {
			under := cAnd(conds[i], h.cond)
			if eq, _ := CondEquivalent(under, cFalse); eq {
				continue
			}
			d := pAdd(h.val, lo, -1)
			if kk, isK := d.IsConst(); isK {
				if kk < least || kk > most {
					return false
				}
				continue
			}
			want := cAnd(cmpCond(token.GEQ, d, pConst(least)), cmpCond(token.LEQ, d, pConst(most)))
			if imp, _, _ := CondRelation(under, want); !imp {
				return false
			}
		}
	}
	return true
}

// gapByLength: the gap is appended exactly when the list is not empty - `if list.Len() > 0` directly
// around the gap, on the way to the pattern -, the list is created empty in this function, nothing is
// appended to it before the loop, and every character that is drawn appends its pattern after the gap
// (the patterns are non-empty: S1 pins their nine modules). Then "list not empty" is "not the first
// character drawn".
func gapByLength(c *Ctx, n *Normer, fn *ssa.Function, hdr *ssa.BasicBlock, gap, pat *ssa.Call) bool {
	list := gap.Common().Args[0]
	if pat.Common().Args[0] != list {
		return false
	}
	al, ok := list.(*ssa.Alloc)
	if !ok || !al.Heap || namedTypeName(al.Type()) != "utils.BitList" {
		return false
	}
	// uses before the loop: none that append
	for _, r := range *al.Referrers() {
		call, isCall := r.(*ssa.Call)
		if !isCall || calleeOf(call) == nil || len(call.Common().Args) == 0 || call.Common().Args[0] != ssa.Value(al) {
			continue
		}
		nm := calleeOf(call).Name()
		if (nm == "AddBit" || nm == "AddByte" || nm == "AddBits" || nm == "SetBit") && !inLoopBody(hdr, call.Block()) && !hdr.Dominates(call.Block()) {
			return false
		}
	}
	// the guard: the gap's block is entered from a test of Len() > 0 (or != 0) on this list
	gb := gap.Block()
	if len(gb.Preds) != 1 {
		return false
	}
	pred := gb.Preds[0]
	iff, ok := pred.Instrs[len(pred.Instrs)-1].(*ssa.If)
	if !ok || pred.Succs[0] != gb {
		return false
	}
	bo, ok := iff.Cond.(*ssa.BinOp)
	if !ok {
		return false
	}
	lenCall, ok := bo.X.(*ssa.Call)
	if !ok || calleeOf(lenCall) == nil || c.P.FuncName(calleeOf(lenCall)) != "utils.(*BitList).Len" || lenCall.Common().Args[0] != ssa.Value(al) {
		return false
	}
	k, isK := constInt(bo.Y)
	if !isK || k != 0 || (bo.Op != token.GTR && bo.Op != token.NEQ) {
		return false
	}
	// the test is made for every character that is drawn, and gap and skip both lead to the pattern
	body := hdr.Succs[0]
	reachTest := n.ReachCond(fn, body, pred)
	reachPat := n.ReachCond(fn, body, pat.Block())
	eq, _ := CondEquivalent(reachTest, reachPat)
	return eq && reachableFrom(gb)[pat.Block()] && pred.Dominates(pat.Block())
}
