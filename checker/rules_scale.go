package main

import (
	"fmt"
	"go/token"
	"go/types"
	"sort"
	"strings"

	"golang.org/x/tools/go/ssa"
)

func ruleScale(c *Ctx) {
	const R4 = "X4-SCALE-ARITH"
	c.Doc(R4, "scale1DCode/scale2DCode: factor = int(float(W)/float(orgW)) (2D: min with the height quotient); error exactly when factor <= 0; offsets (W - orgW*f)/2; the wrap closure returns fill exactly when x < offX (|| y < offY) or (x-offX)/f >= orgW (|| ...), otherwise bc.At((x-offX)/f, (y-offY)/f | 0); result = newScaledBC(bc, wrap, image.Rect(0,0,W,H)); orgW = Bounds().Max.X - Bounds().Min.X")
	c.Floor(R4, 12)
	for _, dim := range []int{1, 2} {
		name := fmt.Sprintf("barcode.scale%dDCode", dim)
		fn := c.theFunc(R4, name)
		if fn == nil {
			continue
		}
		// analysed in the calling context of ScaleWithFill(bc, W, H, fill): the roles are those of the
		// exported entry point, however the request is handed on (scalars or a small struct)
		var n *Normer
		if swf := c.P.Func("barcode.ScaleWithFill"); swf != nil && len(swf.Params) == 4 {
			if sites := c.P.deepCallsTo(swf, fn); len(sites) == 1 {
				n = NewNormer(c.P)
				n.BindParams(swf, "bc", "W", "H", "fill")
				n.Ctx = append(append([]ssa.CallInstruction{}, sites[0].Path...), sites[0].Ins.(*ssa.Call))
			}
		}
		if n == nil {
			if len(fn.Params) != 4 {
				c.Undecided(R4, name, fn.Pos(), "not called once from ScaleWithFill and not of the form (bc, width, height, fill)")
				continue
			}
			n = NewNormer(c.P)
			n.BindParams(fn, "bc", "W", "H", "fill")
		}
		// the source bounds, wherever they are taken (directly or in a helper)
		n.AtomAlias["invoke:Bounds(bc)"] = "B"
		m := map[string]string{
			"orgW": "B.Max.X - B.Min.X",
			"orgH": "B.Max.Y - B.Min.Y",
		}
		if dim == 1 {
			m["f"] = "Trunc(FDiv(F(W), F({orgW})))"
		} else {
			m["f"] = "Trunc(Min(FDiv(F(W), F({orgW})), FDiv(F(H), F({orgH}))))"
		}
		m["offX"] = "(W - {orgW}*{f})/2"
		m["offY"] = "(H - {orgH}*{f})/2"
		m["sx"] = "(x - {offX})/{f}"
		m["sy"] = "(y - {offY})/{f}"
		// returns of the parent
		var okRet *ssa.Return
		for _, ret := range returnsOf(fn) {
			if isNilConst(ret.Results[0]) {
				rc := n.ReachCond(fn, nil, ret.Block())
				c.expectCond(R4, name+"/error-iff", ret.Pos(), rc, tmpl("{f} <= 0", m))
				c.Check(R4, name+"/error-nonnil", ret.Pos(), !isNilConst(ret.Results[1]), "non-nil error with nil barcode", ret.Results[1].String())
			} else {
				if okRet != nil {
					c.Undecided(R4, name+"/returns", ret.Pos(), "more than one success return")
				}
				okRet = ret
			}
		}
		if okRet == nil {
			c.Check(R4, name+"/success", fn.Pos(), false, "a success return", "none")
			continue
		}
		c.Check(R4, name+"/success-nil-error", okRet.Pos(), isNilConst(okRet.Results[1]), "nil error", okRet.Results[1].String())
		call, ok := strip(okRet.Results[0]).(*ssa.Call)
		if !ok || calleeOf(call) == nil || c.P.FuncName(calleeOf(call)) != "barcode.newScaledBC" {
			c.Check(R4, name+"/result", okRet.Pos(), false, "newScaledBC(bc, wrap, image.Rect(0,0,W,H))", okRet.Results[0].String())
			continue
		}
		args := call.Common().Args
		// what the wrapper is built from: the fields newScaledBC stores, evaluated in this calling context
		{
			saved := n.Ctx
			n.Ctx = append(append([]ssa.CallInstruction{}, saved...), call)
			fields := scaledFields(n, calleeOf(call))
			n.Ctx = saved
			c.Check(R4, name+"/wrapped", call.Pos(), fields["wrapped"] == "bc", "bc", fields["wrapped"])
			c.Check(R4, name+"/rect", call.Pos(), fields["rect"] == "call:image.Rect(0,0,W,H)", "image.Rect(0,0,W,H)", fields["rect"])
		}
		wrapArg := argOfKind(args, func(t types.Type) bool { _, ok := t.Underlying().(*types.Signature); return ok })
		if wrapArg == nil {
			c.Undecided(R4, name+"/wrap", call.Pos(), "no wrapper function handed to newScaledBC")
			continue
		}
		mc, ok := strip(wrapArg).(*ssa.MakeClosure)
		if fc, isCall := strip(wrapArg).(*ssa.Call); !ok && isCall {
			// a factory: an unexported function whose only return is a closure literal; its parameters are
			// read in the context of this call
			if g := calleeOf(fc); g != nil && isRepoFunc(g) && len(returnsOf(g)) == 1 {
				if m2, ok2 := strip(returnsOf(g)[0].Results[0]).(*ssa.MakeClosure); ok2 {
					mc, ok = m2, true
					n.Ctx = append(append([]ssa.CallInstruction{}, n.Ctx...), fc)
				}
			}
		}
		if !ok {
			c.Undecided(R4, name+"/wrap", call.Pos(), "wrapper function is not a closure literal or method value")
			continue
		}
		cl := mc.Fn.(*ssa.Function)
		if strings.Contains(cl.Synthetic, "bound method") && len(mc.Bindings) == 1 {
			// a method value: the body is the method, its receiver is the struct built in this function
			var real *ssa.Function
			eachInstr(cl, func(b *ssa.BasicBlock, ins ssa.Instruction) {
				if cc, ok := ins.(*ssa.Call); ok && cc.Common().StaticCallee() != nil {
					real = cc.Common().StaticCallee()
				}
			})
			recvAlloc, _, isAlloc := rootAlloc(mc.Bindings[0])
			byValue := false
			if ld, isLd := mc.Bindings[0].(*ssa.UnOp); isLd && !isAlloc && ld.Op == token.MUL {
				// a value receiver: a copy of the struct built here
				if _, _, ok := rootAlloc(ld.X); ok {
					byValue = true
				}
			}
			if real == nil || !(isAlloc || byValue) || len(real.Params) != 3 {
				c.Undecided(R4, name+"/wrap", call.Pos(), "method value whose receiver is not a struct built here")
				continue
			}
			if byValue {
				valAlias[real.Params[0]] = mc.Bindings[0]
				defer delete(valAlias, real.Params[0])
			} else {
				ptrAlias[real.Params[0]] = recvAlloc
				defer delete(ptrAlias, real.Params[0])
			}
			cl = real
			c.Fn(c.P.FuncName(cl))
			n.Bind[cl.Params[1]], n.Bind[cl.Params[2]] = "x", "y"
		} else {
			c.Fn(c.P.FuncName(cl))
			n.BindParams(cl, "x", "y")
		}
		fillCond := cFalse
		atRets := 0
		for _, ret := range returnsOf(cl) {
			v := ret.Results[0]
			nv := n.Norm(v)
			if pEqual(nv, pAtom("fill")) {
				fillCond = cOr(fillCond, n.ReachCond(cl, nil, ret.Block()))
				continue
			}
			at, ok := v.(*ssa.Call)
			if !ok || !at.Common().IsInvoke() || at.Common().Method.Name() != "At" {
				c.Check(R4, name+"/wrap-return", ret.Pos(), false, "fill or bc.At(...)", nv.String())
				continue
			}
			atRets++
			c.expectPoly(R4, name+"/at-receiver", at.Pos(), n, at.Common().Value, "bc")
			rc := n.ReachCond(cl, nil, ret.Block())
			c.expectPolyUnder(R4, name+"/at-x", at.Pos(), n, cl, rc, at.Common().Args[0], tmpl("{sx}", m))
			if dim == 1 {
				c.expectPolyUnder(R4, name+"/at-y", at.Pos(), n, cl, rc, at.Common().Args[1], "0")
			} else {
				c.expectPolyUnder(R4, name+"/at-y", at.Pos(), n, cl, rc, at.Common().Args[1], tmpl("{sy}", m))
			}
		}
		c.Check(R4, name+"/at-returns", cl.Pos(), atRets == 1, "exactly one bc.At return", fmt.Sprint(atRets))
		if dim == 1 {
			c.expectCond(R4, name+"/fill-iff", cl.Pos(), fillCond, tmpl("x < {offX} || {sx} >= {orgW}", m))
		} else {
			c.expectCond(R4, name+"/fill-iff", cl.Pos(), fillCond, tmpl("x < {offX} || y < {offY} || {sx} >= {orgW} || {sy} >= {orgH}", m))
		}
	}

	// X3 dispatch
	const R3 = "X3-SCALE-DISPATCH"
	c.Doc(R3, "ScaleWithFill: Metadata().Dimensions == 1 -> scale1DCode(bc,W,H,fill), == 2 -> scale2DCode(bc,W,H,fill), otherwise (nil, error). Scale: fill = ColorScheme().Background when the barcode exposes a colour scheme, else color.White")
	c.Floor(R3, 5)
	if fn := c.theFunc(R3, "barcode.ScaleWithFill"); fn != nil && len(fn.Params) == 4 {
		n := NewNormer(c.P)
		n.BindParams(fn, "bc", "W", "H", "fill")
		if mcall := invokeOn(fn, fn.Params[0], "Metadata"); mcall != nil {
			n.Bind[mcall] = "M"
		}
		seen := map[string]bool{}
		// the routine may be picked by a helper that returns it as a function value: one pass per
		// alternative of that selection
		type selCase struct {
			sel  ssa.Value
			val  Poly
			cond *Cond
		}
		sels := []selCase{{nil, nil, cTrue}}
		eachInstr(fn, func(b *ssa.BasicBlock, ins ssa.Instruction) {
			call, ok := ins.(*ssa.Call)
			if !ok || len(sels) > 1 {
				return
			}
			if _, isFn := call.Type().Underlying().(*types.Signature); !isFn {
				return
			}
			if hc, idx, ok := expandableCall(call, n); ok {
				sels = nil
				for _, cs := range n.callCases(hc, idx, 0) {
					sels = append(sels, selCase{call, cs.val, cs.cond})
				}
			}
		})
		errCond := cFalse
		armCond := map[string]*Cond{}
		armCall := map[string]*ssa.Call{}
		var armName = map[string]string{}
		for _, sc := range sels {
			if sc.sel != nil {
				n.env = append(n.env, map[ssa.Value]Poly{sc.sel: sc.val})
			}
			for _, ret := range returnsOf(fn) {
				rc := cAnd(sc.cond, n.ReachCond(fn, nil, ret.Block()))
				if eq, _ := CondEquivalent(rc, cFalse); eq && sc.sel != nil {
					continue
				}
				if isNilConst(ret.Results[0]) {
					errCond = cOr(errCond, rc)
					c.Check(R3, "barcode.ScaleWithFill/unsupported-error", ret.Pos(), !isNilConst(ret.Results[1]), "non-nil error", ret.Results[1].String())
					seen["err"] = true
					continue
				}
				ex0, ok0 := ret.Results[0].(*ssa.Extract)
				ex1, ok1 := ret.Results[1].(*ssa.Extract)
				if !ok0 || !ok1 || ex0.Tuple != ex1.Tuple || ex0.Index != 0 || ex1.Index != 1 {
					c.Check(R3, "barcode.ScaleWithFill/return", ret.Pos(), false, "both results of one scaleNDCode call", ret.String())
					continue
				}
				call, _ := ex0.Tuple.(*ssa.Call)
				cal := calleeOf(call)
				if cal == nil && call != nil && sc.sel != nil && call.Common().Value == sc.sel {
					// the selected routine
					if nm := sc.val.asAtom(); strings.HasPrefix(nm, "func:") {
						cal = c.P.Func(strings.TrimPrefix(nm, "func:"))
					}
				}
				if cal == nil {
					c.Check(R3, "barcode.ScaleWithFill/return", ret.Pos(), false, "static call", ret.String())
					continue
				}
				cn := c.P.FuncName(cal)
				if cn != "barcode.scale1DCode" && cn != "barcode.scale2DCode" {
					c.Check(R3, "barcode.ScaleWithFill/callee", ret.Pos(), false, "scale1DCode or scale2DCode", cn)
					continue
				}
				seen[cn] = true
				if armCond[cn] == nil {
					armCond[cn] = cFalse
				}
				armCond[cn] = cOr(armCond[cn], rc)
				armCall[cn], armName[cn] = call, cal.Name()
				// the request is handed on completely (as scalars or grouped); which value plays which role
				// inside is decided by X4, which analyses the callee in this calling context
				var flat []string
				for _, a := range flattenArgs(call.Common().Args) {
					flat = append(flat, n.Norm(a).String())
				}
				sort.Strings(flat)
				c.Check(R3, "barcode.ScaleWithFill/"+cal.Name()+"-args", call.Pos(), fmt.Sprint(flat) == "[H W bc fill]", "(bc, W, H, fill)", fmt.Sprint(flat))
			}
			if sc.sel != nil {
				n.env = n.env[:len(n.env)-1]
			}
		}
		if seen["err"] {
			c.expectCondC(R3, "barcode.ScaleWithFill/unsupported", fn.Pos(), errCond, MustRefCond("M.Dimensions != 1 && M.Dimensions != 2"))
		}
		for cn, want := range map[string]string{"barcode.scale1DCode": "M.Dimensions == 1", "barcode.scale2DCode": "M.Dimensions == 2"} {
			if armCond[cn] != nil {
				c.expectCondC(R3, "barcode.ScaleWithFill/"+armName[cn]+"-iff", armCall[cn].Pos(), armCond[cn], MustRefCond(want))
			}
		}
		c.Check(R3, "barcode.ScaleWithFill/arms", fn.Pos(), len(seen) == 3, "1D arm, 2D arm, error arm", fmt.Sprint(seen))
	}
	if fn := c.theFunc(R3, "barcode.Scale"); fn != nil && len(fn.Params) == 3 {
		n := NewNormer(c.P)
		n.BindParams(fn, "bc", "W", "H")
		swf := c.P.Func("barcode.ScaleWithFill")
		calls := callsTo(fn, swf)
		if len(calls) == 0 {
			c.Check(R3, "barcode.Scale/delegates", fn.Pos(), false, "delegates to ScaleWithFill", "no call")
		}
		// alternatives of the fill argument with their conditions (one call with a selected value, or
		// one call per branch)
		type alt struct {
			val  string
			cond *Cond
		}
		var alts []alt
		for _, call := range calls {
			good := true
			for i, w := range []string{"bc", "W", "H"} {
				if !pEqual(n.Norm(call.Common().Args[i]), MustRef(w)) {
					good = false
				}
			}
			c.Check(R3, "barcode.Scale/args@"+c.P.Pos(call.Pos()), call.Pos(), good, "(bc, W, H, fill)", call.String())
			reach := n.ReachCond(fn, nil, call.Block())
			for _, cs := range n.valueCases(fn, nil, call.Common().Args[3], 0) {
				alts = append(alts, alt{cs.val.asAtom(), cAnd(reach, cs.cond)})
			}
			// results passed through
			okRet := false
			for _, ret := range returnsOf(fn) {
				ex0, ok0 := ret.Results[0].(*ssa.Extract)
				ex1, ok1 := ret.Results[1].(*ssa.Extract)
				if ok0 && ok1 && ex0.Tuple == ssa.Value(call) && ex1.Tuple == ssa.Value(call) && ex0.Index == 0 && ex1.Index == 1 {
					okRet = true
				}
			}
			c.Check(R3, "barcode.Scale/returns@"+c.P.Pos(call.Pos()), call.Pos(), okRet, "returns ScaleWithFill's results", fmt.Sprint(okRet))
		}
		hasScheme := &Cond{Kind: CBool, Name: "assert(bc,barcode.BarcodeColor)#1"}
		bgSeen, whiteSeen := false, false
		for i, a := range alts {
			switch a.val {
			case "invoke:ColorScheme(assert(bc,barcode.BarcodeColor)#0).Background":
				bgSeen = true
				c.expectCondC(R3, "barcode.Scale/fill-background-iff", fn.Pos(), a.cond, hasScheme)
			case "global:image/color.White", "global:color.White":
				whiteSeen = true
				c.expectCondC(R3, "barcode.Scale/fill-white-iff", fn.Pos(), a.cond, cNot(hasScheme))
			default:
				c.Check(R3, fmt.Sprintf("barcode.Scale/fill-alt%d", i), fn.Pos(), false, "ColorScheme().Background or color.White", a.val)
			}
		}
		c.Check(R3, "barcode.Scale/fill-choices", fn.Pos(), bgSeen && whiteSeen, "both the scheme background and the white default", fmt.Sprintf("background=%v white=%v", bgSeen, whiteSeen))
	}

	// X1/X2 wrapper type
	const R1 = "X1-SCALE-WRAPPER"
	c.Doc(R1, "scaledBarcode delegates Content/Metadata/ColorModel to the wrapped barcode, Bounds returns the stored rect, At calls the stored closure with (x,y); intCSscaledBC.CheckSum forwards wrapped.(BarcodeIntCS).CheckSum(); newScaledBC stores its three arguments and returns the IntCS variant exactly when the wrapped barcode is a BarcodeIntCS")
	c.Floor(R1, 8)
	for _, m := range []string{"Content", "Metadata", "ColorModel"} {
		name := "barcode.(*scaledBarcode)." + m
		fn := c.theFunc(R1, name)
		if fn == nil {
			continue
		}
		n := NewNormer(c.P)
		n.BindParams(fn, "s")
		rets := returnsOf(fn)
		ok := len(rets) == 1 && n.Norm(rets[0].Results[0]).asAtom() == "invoke:"+m+"(s.wrapped)"
		found := ""
		if len(rets) > 0 {
			found = n.Norm(rets[0].Results[0]).asAtom()
		}
		c.Check(R1, name, fn.Pos(), ok, "invoke:"+m+"(s.wrapped)", found)
	}
	if fn := c.theFunc(R1, "barcode.(*scaledBarcode).Bounds"); fn != nil {
		n := NewNormer(c.P)
		n.BindParams(fn, "s")
		rets := returnsOf(fn)
		c.Check(R1, "barcode.(*scaledBarcode).Bounds", fn.Pos(), len(rets) == 1 && n.Norm(rets[0].Results[0]).asAtom() == "s.rect", "s.rect", n.Norm(rets[0].Results[0]).asAtom())
	}
	if fn := c.theFunc(R1, "barcode.(*scaledBarcode).At"); fn != nil {
		n := NewNormer(c.P)
		n.BindParams(fn, "s", "x", "y")
		rets := returnsOf(fn)
		got := ""
		if len(rets) == 1 {
			got = n.Norm(rets[0].Results[0]).asAtom()
		}
		c.Check(R1, "barcode.(*scaledBarcode).At", fn.Pos(), got == "dyncall:s.wrapperFunc(x,y)", "dyncall:s.wrapperFunc(x,y)", got)
	}
	if fn := c.theFunc(R1, "barcode.(*intCSscaledBC).CheckSum"); fn != nil {
		n := NewNormer(c.P)
		n.BindParams(fn, "s")
		fw := 0
		var alts []valCase
		for _, ret := range returnsOf(fn) {
			rc := n.ReachCond(fn, nil, ret.Block())
			for _, cs := range n.valueCases(fn, nil, ret.Results[0], 0) {
				alts = append(alts, valCase{cs.val, cAnd(rc, cs.cond)})
			}
		}
		for _, cs := range mergeCases(alts) {
			got := cs.val.asAtom()
			if got == "invoke:CheckSum(assert(s.scaledBarcode.wrapped,barcode.BarcodeIntCS)#0)" {
				fw++
				c.expectCondC(R1, "barcode.(*intCSscaledBC).CheckSum/forward-iff", fn.Pos(), cs.cond, &Cond{Kind: CBool, Name: "assert(s.scaledBarcode.wrapped,barcode.BarcodeIntCS)#1"})
			} else if k, ok := cs.val.IsConst(); !(ok && k == 0) {
				c.Check(R1, "barcode.(*intCSscaledBC).CheckSum/return", fn.Pos(), false, "wrapped CheckSum() (or 0 when the wrapped barcode has none)", cs.val.String())
			}
		}
		c.Check(R1, "barcode.(*intCSscaledBC).CheckSum/forwards", fn.Pos(), fw == 1, "one forwarding return", fmt.Sprint(fw))
	}
	if fn := c.theFunc(R1, "barcode.newScaledBC"); fn != nil {
		n := NewNormer(c.P)
		isRect := func(t types.Type) bool { return namedTypeName(t) == "image.Rectangle" }
		isFn := func(t types.Type) bool { _, ok := t.Underlying().(*types.Signature); return ok }
		bindByType(n, fn, roleSpec{"wrapped", isBarcodeIface}, roleSpec{"wrap", isFn})
		if !bindByType(n, fn, roleSpec{"rect", isRect}) {
			// the bounds are built here from the requested width and height
			bindByType(n, fn, roleSpec{"W", isIntType}, roleSpec{"H", isIntType})
			n.AtomAlias["call:image.Rect(0,0,W,H)"] = "rect"
		}
		// (or the struct arrives ready-made as a value: its fields carry the three roles)
		for _, p := range fn.Params {
			if namedTypeName(p.Type()) == "barcode.scaledBarcode" {
				if _, isStruct := p.Type().Underlying().(*types.Struct); isStruct {
					n.Bind[p] = "base"
					n.AtomAlias["base.wrapped"], n.AtomAlias["base.wrapperFunc"], n.AtomAlias["base.rect"] = "wrapped", "wrap", "rect"
				}
			}
		}
		// stores of the three fields
		var base *ssa.Alloc
		fields := map[string]string{}
		eachInstr(fn, func(b *ssa.BasicBlock, ins ssa.Instruction) {
			st, ok := ins.(*ssa.Store)
			if !ok {
				return
			}
			fa, ok := st.Addr.(*ssa.FieldAddr)
			if !ok {
				return
			}
			a, ok := fa.X.(*ssa.Alloc)
			if !ok || namedTypeName(a.Type()) != "barcode.scaledBarcode" {
				return
			}
			base = a
			stt := a.Type().Underlying().(*types.Pointer).Elem().Underlying().(*types.Struct)
			fields[fname(stt.Field(fa.Field))] = n.Norm(st.Val).asAtom()
		})
		if len(fields) == 0 {
			fields = scaledWhole(n, fn)
			eachInstr(fn, func(b *ssa.BasicBlock, ins ssa.Instruction) {
				if st, ok := ins.(*ssa.Store); ok {
					if a, ok := st.Addr.(*ssa.Alloc); ok && namedTypeName(a.Type()) == "barcode.scaledBarcode" {
						if _, isParam := st.Val.(*ssa.Parameter); isParam {
							base = a
						}
					}
				}
			})
		}
		want := map[string]string{"wrapped": "wrapped", "wrapperFunc": "wrap", "rect": "rect"}
		c.Check(R1, "barcode.newScaledBC/fields", fn.Pos(), fmt.Sprint(fields) == fmt.Sprint(want), fmt.Sprint(want), fmt.Sprint(fields))
		for _, ret := range returnsOf(fn) {
			v := strip(ret.Results[0])
			rc := n.ReachCond(fn, nil, ret.Block())
			isCS := &Cond{Kind: CBool, Name: "assert(wrapped,barcode.BarcodeIntCS)#1"}
			switch namedTypeName(v.Type()) {
			case "barcode.intCSscaledBC":
				c.expectCondC(R1, "barcode.newScaledBC/intcs-iff", ret.Pos(), rc, isCS)
				// embeds a copy of the plain struct
				copied := false
				if a, ok := v.(*ssa.Alloc); ok {
					sts, _, _ := storesTo(a)
					for _, st := range sts {
						if ld, ok := st.Val.(*ssa.UnOp); ok && ld.X == ssa.Value(base) {
							copied = true // a copy of the plain struct
						}
						if st.Val == ssa.Value(base) {
							copied = true // or a pointer to it
						}
					}
				}
				c.Check(R1, "barcode.newScaledBC/intcs-embeds", ret.Pos(), copied, "embeds the initialised scaledBarcode", fmt.Sprint(copied))
			case "barcode.scaledBarcode":
				c.expectCondC(R1, "barcode.newScaledBC/plain-iff", ret.Pos(), rc, cNot(isCS))
				c.Check(R1, "barcode.newScaledBC/plain-value", ret.Pos(), v == ssa.Value(base), "the initialised struct", v.String())
			default:
				c.Check(R1, "barcode.newScaledBC/return", ret.Pos(), false, "*scaledBarcode or *intCSscaledBC", namedTypeName(v.Type()))
			}
		}
	}
}

// scaledFields: the values stored into the fields of the scaledBarcode that newScaledBC builds.
func scaledFields(n *Normer, fn *ssa.Function) map[string]string {
	fields := map[string]string{}
	if fn == nil {
		return fields
	}
	eachInstr(fn, func(b *ssa.BasicBlock, ins ssa.Instruction) {
		st, ok := ins.(*ssa.Store)
		if !ok {
			return
		}
		fa, ok := st.Addr.(*ssa.FieldAddr)
		if !ok {
			return
		}
		a, ok := fa.X.(*ssa.Alloc)
		if !ok || namedTypeName(a.Type()) != "barcode.scaledBarcode" {
			return
		}
		stt := a.Type().Underlying().(*types.Pointer).Elem().Underlying().(*types.Struct)
		fields[fname(stt.Field(fa.Field))] = n.Norm(st.Val).asAtom()
	})
	if len(fields) == 0 {
		for name, v := range scaledWhole(n, fn) {
			fields[name] = v
		}
	}
	return fields
}

// scaledWhole: newScaledBC receives the scaledBarcode as a struct value and keeps it as a whole: the
// fields are those of the argument (in the calling context, or named after the parameter).
func scaledWhole(n *Normer, fn *ssa.Function) map[string]string {
	fields := map[string]string{}
	eachInstr(fn, func(b *ssa.BasicBlock, ins ssa.Instruction) {
		st, ok := ins.(*ssa.Store)
		if !ok {
			return
		}
		a, ok := st.Addr.(*ssa.Alloc)
		if !ok || namedTypeName(a.Type()) != "barcode.scaledBarcode" {
			return
		}
		if _, isParam := st.Val.(*ssa.Parameter); !isParam {
			return
		}
		stt := a.Type().Underlying().(*types.Pointer).Elem().Underlying().(*types.Struct)
		for i := 0; i < stt.NumFields(); i++ {
			if p, ok := n.fieldOf(st.Val, i, 0); ok {
				fields[fname(stt.Field(i))] = p.asAtom()
			} else {
				fields[fname(stt.Field(i))] = n.atom(n.Norm(st.Val).asAtom() + "." + fname(stt.Field(i))).asAtom()
			}
		}
	})
	return fields
}
