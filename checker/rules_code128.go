package main

import (
	"fmt"
	"go/types"
	"sort"

	"golang.org/x/tools/go/ssa"
)

func ruleCode128Encoder(c *Ctx) {
	const R4 = "Z4-C128-CHECKCHAR"
	c.Doc(R4, "code128.EncodeWithColor: weighted sum = first value + sum of position*value; the check pattern drawn is encodingTable[sum % 103] and that same SSA value is reported as checksum; patterns are appended for every symbol value, then check, then stop (106); the no-checksum variant appends only data patterns and stop")
	c.Floor(R4, 8)
	addBit := c.P.Func("utils.(*BitList).AddBit")
	patternIndex := func(call *ssa.Call) ssa.Value {
		if ld, ok := call.Common().Args[1].(*ssa.UnOp); ok {
			if ia, ok := ld.X.(*ssa.IndexAddr); ok {
				if g, ok := ia.X.(*ssa.Global); ok && g.Name() == "encodingTable" {
					return ia.Index
				}
			}
		}
		return nil
	}
	if fn := c.theFunc(R4, "code128.EncodeWithColor"); fn != nil && addBit != nil {
		n := NewNormer(c.P)
		n.BindParams(fn, "content", "color")
		// range loops over a byte slice, in EncodeWithColor or a helper it calls: the loop that draws
		// the data patterns and the loop that accumulates the weighted sum (they may be the same loop)
		type rloop struct {
			F          *ssa.Function
			path       []ssa.CallInstruction
			hdr        *ssa.BasicBlock
			posP, sumP *ssa.Phi
			subj, elem ssa.Value
		}
		var loops []*rloop
		seenF := map[*ssa.Function]bool{}
		scan := func(F *ssa.Function, path []ssa.CallInstruction) {
			if seenF[F] {
				return
			}
			seenF[F] = true
			for _, b := range F.Blocks {
				p, init, ok := loopCounter(b)
				if !ok || init != -1 {
					continue
				}
				l := &rloop{F: F, path: path, hdr: b, posP: p}
				for _, ins := range b.Instrs {
					if q, ok := ins.(*ssa.Phi); ok && q != p && isIntType(q.Type()) {
						l.sumP = q
					}
				}
				idx, _, _, _ := loopIndex(b)
				eachInstr(F, func(bb *ssa.BasicBlock, ins ssa.Instruction) {
					if ia, ok := ins.(*ssa.IndexAddr); ok && ia.Index == idx && b.Dominates(bb) {
						for _, r := range *ia.Referrers() {
							if ld, ok := r.(*ssa.UnOp); ok {
								l.subj, l.elem = ia.X, ld
							}
						}
					}
				})
				if l.elem != nil {
					loops = append(loops, l)
				}
			}
		}
		scan(fn, nil)
		c.P.deepEach(fn, 2, func(s DeepSite) { scan(s.Fn, s.Path) })
		var dataCall, checkCall, stopCall *ssa.Call
		var draw, sumL *rloop
		var drawTop ssa.Instruction // the instruction of fn that draws the data patterns (the loop's call, or the helper call)
		for _, site := range c.P.deepCallsTo(fn, addBit) {
			call := site.Ins.(*ssa.Call)
			ix := patternIndex(call)
			if ix == nil {
				c.Check(R4, "code128.EncodeWithColor/pattern-source", call.Pos(), false, "patterns come from encodingTable", call.String())
				continue
			}
			isData := false
			for _, l := range loops {
				if l.F == site.Fn && ix == l.elem && inLoopBody(l.hdr, call.Block()) {
					dataCall, draw, isData = call, l, true
					drawTop = call
					if len(site.Path) > 0 {
						drawTop = site.Path[0]
					}
				}
			}
			if isData {
				continue
			}
			if site.Fn != fn {
				c.Check(R4, "code128.EncodeWithColor/pattern-site", call.Pos(), false, "check and stop patterns are appended by EncodeWithColor itself", c.P.FuncName(site.Fn))
				continue
			}
			if k, ok := n.Norm(ix).IsConst(); ok {
				stopCall = call
				c.Check(R4, "code128.EncodeWithColor/stop", call.Pos(), k == 106, "106", fmt.Sprint(k))
			} else {
				checkCall = call
			}
		}
		for _, l := range loops {
			if l.sumP != nil {
				sumL = l
			}
		}
		if draw == nil || sumL == nil {
			c.Undecided(R4, "code128.EncodeWithColor/loop", fn.Pos(), "symbol value loop with a running sum not found")
		} else if dataCall == nil || checkCall == nil || stopCall == nil {
			c.Check(R4, "code128.EncodeWithColor/patterns", fn.Pos(), false, "data patterns, check pattern, stop pattern", fmt.Sprintf("data=%v check=%v stop=%v", dataCall != nil, checkCall != nil, stopCall != nil))
		} else {
			hdr := draw.hdr
			n.Bind[sumL.sumP] = "sum"
			n.Bind[sumL.posP] = "p"
			n.Bind[sumL.elem] = "v"
			// both loops walk the same symbol values
			saved := n.Ctx
			n.Ctx = sumL.path
			s1 := n.Norm(sumL.subj).String()
			n.Ctx = saved
			n.Ctx = draw.path
			s2 := n.Norm(draw.subj).String()
			n.Ctx = saved
			c.Check(R4, "code128.EncodeWithColor/same-values", dataCall.Pos(), s1 == s2, "the weighted sum runs over the symbol values that are drawn", fmt.Sprintf("sum over %s, drawn %s", s1, s2))
			orderOK := dominatesInstr(checkCall, stopCall)
			if draw.F == fn {
				orderOK = orderOK && hdr.Dominates(checkCall.Block()) && !inLoopBody(hdr, checkCall.Block())
			} else {
				orderOK = orderOK && dominatesInstr(drawTop, checkCall)
			}
			c.Check(R4, "code128.EncodeWithColor/order", stopCall.Pos(), orderOK, "check pattern after the data, stop last", "ok")
			cix := patternIndex(checkCall)
			if sumL.F == fn {
				c.expectPoly(R4, "code128.EncodeWithColor/check-index", checkCall.Pos(), n, cix, "sum % 103")
			} else {
				// the helper's result (single, or one of several): sum % 103 of the finished loop
				var hc *ssa.Call
				ridx := 0
				switch x := cix.(type) {
				case *ssa.Call:
					hc = x
				case *ssa.Extract:
					hc, _ = x.Tuple.(*ssa.Call)
					ridx = x.Index
				}
				good := hc != nil && hc.Common().StaticCallee() == sumL.F && len(sumL.path) == 1 && sumL.path[0] == ssa.CallInstruction(hc)
				got := n.Norm(cix).String()
				if good {
					for _, ret := range returnsOf(sumL.F) {
						if ridx >= len(ret.Results) {
							good = false
							continue
						}
						got = n.Norm(ret.Results[ridx]).String()
						if !pEqual(n.Norm(ret.Results[ridx]), MustRef("sum % 103")) || inLoopBody(sumL.hdr, ret.Block()) {
							good = false
						}
					}
				}
				c.Check(R4, "code128.EncodeWithColor/check-index", checkCall.Pos(), good, "sum % 103 of the finished weighted-sum loop", got)
			}
			// reported checksum is the same value
			for _, ret := range returnsOf(fn) {
				if call, ok := ret.Results[0].(*ssa.Call); ok && len(call.Common().Args) >= 4 {
					c.Check(R4, "code128.EncodeWithColor/reported-value", call.Pos(), call.Common().Args[3] == cix, "the value that indexed the check pattern", n.Norm(call.Common().Args[3]).String())
					c.Check(R4, "code128.EncodeWithColor/content", call.Pos(), call.Common().Args[1] == ssa.Value(fn.Params[0]), "content", n.Norm(call.Common().Args[1]).String())
				}
			}
			// the sum update
			sumP, sh := sumL.sumP, sumL.hdr
			var upd []valCase
			for ei, e := range sumP.Edges {
				if !sh.Dominates(sh.Preds[ei]) {
					c.expectPoly(R4, "code128.EncodeWithColor/sum-start", sumP.Pos(), n, e, "0")
					continue
				}
				pred := sh.Preds[ei]
				edge := cAnd(n.ReachCond(sumL.F, sh.Succs[0], pred), n.EdgeCond(pred, sh))
				for _, cs := range n.valueCases(sumL.F, sh.Succs[0], e, 0) {
					// the position counts up from 0 (range index): p + 1 >= 0 throughout
					cc := cAnd(cAnd(edge, cs.cond), MustRefCond("p + 1 >= 0"))
					val := cs.val
					// in the first iteration the running sum still has its initial value 0
					if imp, _, _ := CondRelation(cc, MustRefCond("p + 1 == 0")); imp {
						val = polyDropAtom(val, "sum")
					}
					upd = append(upd, valCase{val, cc})
				}
			}
			checkCases(c, R4, "code128.EncodeWithColor/sum-update", sumP.Pos(), mergeCases(upd), []edgeSpec{{"v", "p + 1 == 0"}, {"sum + (p+1)*v", "p + 1 > 0"}})
		}
	}
	if fn := c.theFunc(R4, "code128.EncodeWithoutChecksumWithColor"); fn != nil && addBit != nil {
		n := NewNormer(c.P)
		kinds := []string{}
		for _, site := range c.P.deepCallsTo(fn, addBit) {
			// (the data patterns may be drawn by a helper shared with the variant with check symbol)
			call := site.Ins.(*ssa.Call)
			ix := patternIndex(call)
			if ix == nil {
				kinds = append(kinds, "?")
				continue
			}
			n.Ctx = site.Path
			if k, ok := n.Norm(ix).IsConst(); ok {
				kinds = append(kinds, fmt.Sprint(k))
			} else {
				kinds = append(kinds, "data")
			}
		}
		sort.Strings(kinds)
		c.Check(R4, "code128.EncodeWithoutChecksumWithColor/patterns", fn.Pos(), fmt.Sprint(kinds) == "[106 data]", "[106 data]: data patterns and stop only", fmt.Sprint(kinds))
	}

	const R6 = "Z6-C128-CODESETS"
	c.Doc(R6, "code128.getCodeIndexList: for each code set X the start symbol is emitted iff X is chosen and nothing was emitted yet, the CODE X symbol iff X is chosen and another set is active (siblings A, B, C agree); set A/B map FNC1..4 to 102/97/96/101|100 and every other rune to its index in the set's table; set C maps FNC1 to 102 and a digit pair to 10*d1+d2")
	c.Floor(R6, 13)
	fn := c.theFunc(R6, "code128.getCodeIndexList")
	if fn == nil {
		return
	}
	n := NewNormer(c.P)
	n.BindParams(fn, "content")
	bindCalls(n, c.P, fn, map[string]string{"code128.shouldUseCTable": "useC", "code128.shouldUseATable": "useA"}, nil)
	// loop header: i counter and cur
	var hdr *ssa.BasicBlock
	var iP, curP *ssa.Phi
	for _, b := range fn.Blocks {
		var phis []*ssa.Phi
		for _, ins := range b.Instrs {
			if p, ok := ins.(*ssa.Phi); ok && isIntType(p.Type()) {
				phis = append(phis, p) // (a symbol list kept in a slice variable is not loop state of interest)
			}
		}
		if len(phis) == 2 && hdr == nil && len(b.Succs) == 2 {
			hdr = b
			for _, p := range phis {
				if bt, _ := intSize(p.Type()); bt == 8 {
					curP = p
				} else {
					iP = p
				}
			}
		}
	}
	if hdr == nil || iP == nil || curP == nil {
		c.Undecided(R6, "code128.getCodeIndexList/loop", fn.Pos(), "scanning loop (i, curEncoding) not found")
		return
	}
	n.Bind[iP], n.Bind[curP] = "i", "cur"
	body := hdr.Succs[0]
	addByte := c.P.Func("utils.(*BitList).AddByte")
	emit := map[int64]*Cond{}
	// an emission: AddByte(v) on the symbol list, or append(list, v) when the symbols are collected in a
	// byte slice
	type emission struct {
		call *ssa.Call
		val  ssa.Value
	}
	var valueCalls []emission
	var sites []DeepSite
	vals := map[ssa.Instruction]ssa.Value{}
	for _, site := range c.P.deepCallsTo(fn, addByte) {
		sites = append(sites, site)
		vals[site.Ins] = site.Ins.(*ssa.Call).Common().Args[1]
	}
	if len(sites) == 0 {
		c.P.deepEach(fn, 2, func(s DeepSite) {
			call, ok := s.Ins.(*ssa.Call)
			if !ok {
				return
			}
			if bi, isB := call.Common().Value.(*ssa.Builtin); !isB || bi.Name() != "append" || len(call.Common().Args) != 2 {
				return
			}
			if sl, isSl := call.Type().Underlying().(*types.Slice); !isSl || !isIntType(sl.Elem()) {
				return
			}
			if el := variadicElems(call.Common().Args[1]); len(el) == 1 {
				if sz, _ := intSize(el[0].Type()); sz == 8 {
					sites = append(sites, s)
					vals[s.Ins] = el[0]
				}
			}
		})
	}
	for _, site := range sites {
		call := site.Ins.(*ssa.Call)
		if k, ok := n.NormAt(site, vals[site.Ins]).IsConst(); ok {
			rc := n.ReachCondDeep(fn, body, site)
			if old, ok := emit[k]; ok {
				rc = cOr(old, rc)
			}
			emit[k] = rc
		} else if site.Fn == fn {
			valueCalls = append(valueCalls, emission{call, vals[site.Ins]})
		}
	}
	sets := []struct {
		name        string
		start, code int64
		branch      string
	}{{"C", 105, 99, "useC"}, {"A", 103, 101, "!useC && useA"}, {"B", 104, 100, "!useC && !useA"}}
	for _, s := range sets {
		st, cd := emit[s.start], emit[s.code]
		if st == nil || cd == nil {
			c.Check(R6, "code128.getCodeIndexList/set"+s.name, fn.Pos(), false, "start and code symbols emitted", fmt.Sprintf("start=%v code=%v", st != nil, cd != nil))
			continue
		}
		c.expectCond(R6, "code128.getCodeIndexList/start"+s.name+"-iff", fn.Pos(), st, fmt.Sprintf("%s && cur != %d && cur == 0", s.branch, s.start))
		c.expectCond(R6, "code128.getCodeIndexList/code"+s.name+"-iff", fn.Pos(), cd, fmt.Sprintf("%s && cur != %d && cur != 0", s.branch, s.start))
	}
	// FNC1 in set C
	if e := emit[102]; e != nil {
		fnc1, _ := c.P.ConstInt("code128", "FNC1")
		c.expectCond(R6, "code128.getCodeIndexList/C-fnc1-iff", fn.Pos(), e, fmt.Sprintf("useC && content[i] == %d", fnc1))
	} else {
		c.Check(R6, "code128.getCodeIndexList/C-fnc1", fn.Pos(), false, "FNC1 = 102 in set C", "missing")
	}
	// value emissions: byte(idx)
	fnc := map[string]int64{}
	for _, k := range []string{"FNC1", "FNC2", "FNC3", "FNC4"} {
		fnc[k], _ = c.P.ConstInt("code128", k)
	}
	bindByNorm(n, fn, "content[i]", "r")
	aT, _ := c.P.ConstString("code128", "aTable")
	bT, _ := c.P.ConstString("code128", "bTable")
	seenSets := map[string]bool{}
	for _, em := range valueCalls {
		call, arg := em.call, em.val
		if cv, ok := arg.(*ssa.Convert); ok {
			arg = cv.X
		}
		phi, ok := arg.(*ssa.Phi)
		var helperCases []valCase
		if !ok {
			if hc, idx, exp := expandableCall(arg, n); exp {
				helperCases = n.callCases(hc, idx, 0) // the value picked by a helper with one return per kind of character
			}
		}
		if !ok && len(helperCases) < 2 {
			// set C digit pair
			delete(n.Bind, iP)
			n.Bind[iP] = "i"
			got := n.Norm(arg)
			want := MustRef("(r - 48)*10 + (content[i+1] - 48)")
			seenSets["C"] = true
			c.Check(R6, "code128.getCodeIndexList/C-pair", call.Pos(), pEqual(got, want), want.String(), got.String())
			continue
		}
		// armOf: the value emitted when the current rune is val
		armOf := func(val int64) (string, error) {
			if phi == nil {
				taken := ""
				for _, cs := range helperCases {
					cv := &condVars{bases: map[string]map[int64]bool{}, bools: map[string]bool{}}
					collect(cs.cond, cv)
					for b := range cv.bases {
						if b != "r" {
							return "", fmt.Errorf("alternative %s depends on %s, not only on the rune", cs.val, b)
						}
					}
					if len(cv.bools) > 0 {
						return "", fmt.Errorf("alternative %s depends on boolean atoms", cs.val)
					}
					if evalCond(cs.cond, map[string]int64{"r": val}, nil) {
						if taken != "" {
							return "", fmt.Errorf("two alternatives for rune %d", val)
						}
						taken = cs.val.String()
					}
				}
				if taken == "" {
					return "", fmt.Errorf("no alternative for rune %d", val)
				}
				return taken, nil
			}
			from := phi.Block().Idom()
			arm, err := PhiArm(n, fn, phi, from, "r", val)
			if err != nil {
				// the function characters looked up in a package-level table
				if arm2, v, err2 := phiArmFold(n, fn, phi, from, "r", val); err2 == nil {
					if _, isK := v.IsConst(); isK {
						return v.String(), nil
					}
					return n.Norm(phi.Edges[arm2]).String(), nil // not a table entry: the arm's own expression
				}
				return "", err
			}
			return n.Norm(phi.Edges[arm]).String(), nil
		}
		table := ""
		arms := map[string]string{}
		for name, val := range fnc {
			v, err := armOf(val)
			if err != nil {
				c.Undecided(R6, "code128.getCodeIndexList/fnc-table", call.Pos(), err.Error())
				continue
			}
			arms[name] = v
		}
		if def, err := armOf(65); err == nil {
			switch def {
			case fmt.Sprintf("call:strings.IndexRune(const:%q,r)", aT):
				table = "A"
			case fmt.Sprintf("call:strings.IndexRune(const:%q,r)", bT):
				table = "B"
			}
		}
		if table == "" {
			c.Check(R6, "code128.getCodeIndexList/value-table", call.Pos(), false, "default arm = strings.IndexRune(aTable|bTable, r)", "other")
			continue
		}
		seenSets[table] = true
		want := map[string]string{"FNC1": "102", "FNC2": "97", "FNC3": "96", "FNC4": "101"}
		if table == "B" {
			want["FNC4"] = "100"
		}
		c.Check(R6, "code128.getCodeIndexList/"+table+"-fnc", call.Pos(), fmt.Sprint(arms) == fmt.Sprint(want), fmt.Sprint(want), fmt.Sprint(arms))
		// the branch this emission belongs to
		wantBranch := map[string]string{"A": "!useC && useA", "B": "!useC && !useA"}[table]
		rc := n.ReachCond(fn, body, call.Block())
		imp, _, _ := CondRelation(rc, MustRefCond(wantBranch))
		c.Check(R6, "code128.getCodeIndexList/"+table+"-branch", call.Pos(), imp, "emitted only in the "+table+" branch", rc.String())
	}
	c.Check(R6, "code128.getCodeIndexList/value-sites", fn.Pos(), seenSets["A"] && seenSets["B"] && seenSets["C"], "value emission in each of the three sets", fmt.Sprint(seenSets))
}

// polyDropAtom: p with atom := 0.
func polyDropAtom(p Poly, atom string) Poly {
	out := Poly{}
	for m, c := range p {
		drop := false
		for _, f := range splitMono(m) {
			if f == atom {
				drop = true
			}
		}
		if !drop {
			out[m] = c
		}
	}
	return out
}
