package main

import (
	"fmt"
	"go/constant"
	"go/token"
	"regexp/syntax"
	"strings"

	"golang.org/x/tools/go/ssa"
)

func constBoolList(p *Prog, arg ssa.Value) (string, bool) {
	el := variadicElems(arg)
	if el == nil {
		// a package-level pattern that is never written: its initialiser
		n := NewNormer(p)
		if tv, ok := n.tableVal(arg, 0); ok && tv.Kind == VList && len(tv.List) > 0 {
			out := make([]byte, len(tv.List))
			for i, e := range tv.List {
				if e.Kind != VBool {
					return "", false
				}
				out[i] = '0'
				if e.B {
					out[i] = '1'
				}
			}
			return string(out), true
		}
		return "", false
	}
	out := make([]byte, len(el))
	for i := 0; i < len(el); i++ {
		k, ok := el[i].(*ssa.Const)
		if !ok || k.Value == nil || k.Value.Kind() != constant.Bool {
			return "", false
		}
		out[i] = '0'
		if constant.BoolVal(k.Value) {
			out[i] = '1'
		}
	}
	return string(out), true
}

// N2/N4: EAN symbol assembly.
func ruleEANAssembly(c *Ctx) {
	const R = "N2-EAN-ASSEMBLY"
	c.Doc(R, "ean.encodeEAN8/encodeEAN13: normal guards 101 first and last, centre guard 01010 exactly before position 4 (EAN-8) / 7 (EAN-13); set selection per position: EAN-8 left = L (positions < 4), right = R; EAN-13 first digit not drawn but selects the parity row, positions 1..6 use G iff parity[pos-1] else L, positions >= 7 use R; every digit's pattern is appended")
	c.Floor(R, 14)
	addBit := c.P.Func("utils.(*BitList).AddBit")
	for _, v := range []struct {
		name string
		mid  int
	}{{"ean.encodeEAN8", 4}, {"ean.encodeEAN13", 7}} {
		fn := c.theFunc(R, v.name)
		if fn == nil || addBit == nil {
			continue
		}
		n := NewNormer(c.P)
		n.BindParams(fn, "code")
		// loop state
		var hdr *ssa.BasicBlock
		var posV ssa.Value
		var numV ssa.Value
		eachInstr(fn, func(b *ssa.BasicBlock, ins ssa.Instruction) {
			if nx, ok := ins.(*ssa.Next); ok {
				hdr = b
				for _, r := range *nx.Referrers() {
					if ex, ok := r.(*ssa.Extract); ok && ex.Index == 1 {
						posV = ex
					}
				}
			}
			if lk, ok := ins.(*ssa.Lookup); ok && lk.CommaOk {
				for _, r := range *lk.Referrers() {
					if ex, ok := r.(*ssa.Extract); ok && ex.Index == 0 {
						numV = ex
					}
				}
			}
		})
		if hdr == nil || posV == nil || numV == nil {
			c.Undecided(R, v.name+"/loop", fn.Pos(), "digit loop not found")
			continue
		}
		n.Bind[posV] = "pos"
		n.Bind[numV] = "num"
		for _, ins := range hdr.Instrs {
			if p, ok := ins.(*ssa.Phi); ok {
				n.Bind[p] = "parity"
			}
		}
		body := hdr.Succs[0]
		// guard bars may be appended directly or through small helpers: search one level deep
		var first, last, centre, data ssa.Instruction // the instruction in fn itself (call of AddBit or of the helper)
		var dataSites []*ssa.Call                     // every append of a digit pattern (one site, or one per half)
		var centreSite *DeepSite
		for _, site := range c.P.deepCallsTo(fn, addBit) {
			call := site.Ins.(*ssa.Call)
			var top ssa.Instruction = call
			if len(site.Path) > 0 {
				top = site.Path[0]
			}
			if bits, ok := constBoolList(c.P, call.Common().Args[1]); ok {
				switch {
				case bits == "101" && !hdr.Dominates(top.Block()):
					first = top
				case bits == "101":
					last = top
				case bits == "01010":
					centre = top
					cp := site
					centreSite = &cp
				default:
					c.Check(R, v.name+"/guard", call.Pos(), false, "101 or 01010", bits)
				}
			} else if len(site.Path) == 0 {
				data = call
				dataSites = append(dataSites, call)
			}
		}
		c.Check(R, v.name+"/start-guard", fn.Pos(), first != nil && first.Block() == fn.Blocks[0], "101 before the digits", fmt.Sprint(first != nil))
		c.Check(R, v.name+"/end-guard", fn.Pos(), last != nil && hdr.Succs[1].Dominates(last.Block()), "101 after the digits", fmt.Sprint(last != nil))
		if centre == nil {
			c.Check(R, v.name+"/centre-guard", fn.Pos(), false, "01010 in the middle", "missing")
		} else {
			ref := fmt.Sprintf("ok && pos == %d", v.mid)
			if v.mid == 7 {
				ref = fmt.Sprintf("ok && pos != 0 && pos == %d", v.mid)
			}
			projectOK(n, fn, body, centre.Block())
			c.expectCond(R, v.name+"/centre-guard-iff", centre.Pos(), n.ReachCondDeep(fn, body, *centreSite), ref)
		}
		if data == nil {
			c.Check(R, v.name+"/digits", fn.Pos(), false, "digit patterns appended", "no AddBit(data...)")
			continue
		}
		if centre != nil {
			okOrder := true
			for _, d := range dataSites {
				if dominatesInstr(d, centre) {
					okOrder = false
				}
			}
			c.Check(R, v.name+"/centre-before-digit", data.Pos(), okOrder, "centre guard precedes the digit at that position", "ok")
		}
		// the appended pattern, by cases (selected in place, by a helper of the digit's entry, or by
		// separate appends for the two halves)
		projectOK(n, fn, body, data.Block())
		var cases []valCase
		for _, d := range dataSites {
			at := n.ReachCond(fn, body, d.Block())
			for _, cs := range n.valueCases(fn, body, d.Common().Args[1], 0) {
				cases = append(cases, valCase{cs.val, cAnd(at, cs.cond)})
			}
		}
		cases = mergeCases(cases)
		for i, d1 := range dataSites {
			for j, d2 := range dataSites {
				if i != j {
					if eq, _ := CondEquivalent(n.ReachCond(fn, d1.Block(), d2.Block()), cFalse); !eq || d1.Block() == d2.Block() {
						c.Check(R, v.name+"/one-pattern-per-digit", d2.Pos(), false, "at most one pattern appended per digit", "a second append is reachable after the first")
					}
				}
			}
		}
		if len(cases) < 2 {
			c.Undecided(R, v.name+"/set-selection", data.Pos(), "pattern is not selected per position")
			continue
		}
		for ei, cs := range cases {
			cond := cs.cond
			f := cs.val.String()
			var want string
			switch {
			case v.mid == 4 && f == "num.LeftOdd":
				want = "ok && pos < 4"
			case v.mid == 4 && f == "num.Right":
				want = "ok && pos >= 4"
			case v.mid == 7 && f == "num.LeftEven":
				want = "ok && pos != 0 && pos < 7 && par"
			case v.mid == 7 && f == "num.LeftOdd":
				want = "ok && pos != 0 && pos < 7 && !par"
			case v.mid == 7 && f == "num.Right":
				want = "ok && pos != 0 && pos >= 7"
			default:
				c.Check(R, fmt.Sprintf("%s/set-selection/edge%d", v.name, ei), data.Pos(), false, "LeftOdd / LeftEven / Right of the looked-up digit", f)
				continue
			}
			w := MustRefCond(want)
			renameAtoms(w, map[string]string{"par": "parity[-1 + pos]"})
			c.expectCondC(R, v.name+"/set-selection/"+f, data.Pos(), cond, w)
		}
		if v.mid == 7 {
			// parity row
			for _, ins := range hdr.Instrs {
				p, ok := ins.(*ssa.Phi)
				if !ok {
					continue
				}
				delete(n.Bind, p)
				found := false
				for ei, e := range p.Edges {
					if hdr.Dominates(hdr.Preds[ei]) && e != ssa.Value(p) {
						pred := hdr.Preds[ei]
						found = true
						c.Check(R, v.name+"/parity-row", p.Pos(), n.Norm(e).String() == "num.CheckSum", "parity row of the first digit (num.CheckSum)", n.Norm(e).String())
						c.expectCond(R, v.name+"/parity-row-iff", p.Pos(), projectOK(n, fn, body, pred), "ok && pos == 0")
					}
				}
				c.Check(R, v.name+"/parity-row-set", p.Pos(), found, "parity row taken from the first digit", fmt.Sprint(found))
				n.Bind[p] = "parity"
			}
		}
	}

	const R4 = "N4-EAN-KIND"
	c.Doc(R4, "ean.EncodeWithColor: EAN-8 assembly and kind 'EAN 8' exactly for completed length 8, EAN-13 and 'EAN 13' exactly for 13; the constructor receives (kind, completed code, bars of that variant, check value, colour)")
	c.Floor(R4, 6)
	if fn := c.theFunc(R4, "ean.EncodeWithColor"); fn != nil {
		n := NewNormer(c.P)
		n.BindParams(fn, "code", "color")
		for _, v := range []struct {
			enc, kind string
			want      string
		}{{"ean.encodeEAN8", "EAN 8", "len(full) == 8"}, {"ean.encodeEAN13", "EAN 13", "len(full) != 8 && len(full) == 13"}} {
			calls := callsTo(fn, c.P.Func(v.enc))
			if len(calls) != 1 {
				c.Check(R4, "ean.EncodeWithColor/"+v.enc, fn.Pos(), false, "one call", fmt.Sprint(len(calls)))
				continue
			}
			call := calls[0]
			full := call.Common().Args[0]
			n.Bind[full] = "full"
			// the selection is judged from the highest dominator from which reaching the call depends on
			// the completed code alone (whatever was checked before - errors, flags - has been decided there)
			from := call.Block()
			for d := call.Block().Idom(); d != nil; d = d.Idom() {
				cond := n.ReachCond(fn, d, call.Block())
				cv := &condVars{bases: map[string]map[int64]bool{}, bools: map[string]bool{}}
				collect(cond, cv)
				onlyFull := len(cv.bools) == 0
				for bname := range cv.bases {
					if bname != "len(full)" {
						onlyFull = false
					}
				}
				if !onlyFull {
					break
				}
				from = d
				if ins, ok := full.(ssa.Instruction); ok && ins.Block() == d {
					break
				}
			}
			c.expectCond(R4, "ean.EncodeWithColor/"+v.enc+"-iff", call.Pos(), n.ReachCond(fn, from, call.Block()), v.want)
			// the completed code is the caller's code itself, or the caller's code followed by one more character
			// (the computed check digit, N3/V1): nothing is put in front of it and nothing replaces it
			{
				var bad []string
				unknown := 0
				seen := map[ssa.Value]bool{}
				type frame struct {
					args map[*ssa.Parameter]ssa.Value
					up   *frame
				}
				var walk func(x ssa.Value, allowCat bool, fr *frame, depth int)
				viaCall := func(call *ssa.Call, idx int, allowCat bool, fr *frame, depth int) bool {
					cal := calleeOf(call)
					if cal == nil || cal.Blocks == nil || cal.Pkg == nil || !isRepoPkg(cal.Pkg.Pkg.Path()) || depth > 3 {
						return false
					}
					nf := &frame{args: map[*ssa.Parameter]ssa.Value{}, up: fr}
					for i, p := range cal.Params {
						if i < len(call.Common().Args) {
							nf.args[p] = call.Common().Args[i]
						}
					}
					for _, ret := range returnsOf(cal) {
						if idx < len(ret.Results) {
							walk(ret.Results[idx], allowCat, nf, depth+1)
						}
					}
					return true
				}
				walk = func(x ssa.Value, allowCat bool, fr *frame, depth int) {
					if fr == nil {
						if seen[x] {
							return
						}
						seen[x] = true
					}
					switch y := x.(type) {
					case *ssa.Parameter:
						if fr != nil {
							if a, ok := fr.args[y]; ok {
								walk(a, allowCat, fr.up, depth)
								return
							}
						}
						if y != fn.Params[0] {
							bad = append(bad, n.Norm(x).String())
						}
					case *ssa.Const:
						if y.Value == nil || constant.StringVal(y.Value) != "" {
							bad = append(bad, n.Norm(x).String())
						}
					case *ssa.Phi:
						if depth > 8 {
							bad = append(bad, n.Norm(x).String())
							return
						}
						for _, e := range y.Edges {
							walk(e, allowCat, fr, depth+1)
						}
					case *ssa.Extract:
						if call, ok := y.Tuple.(*ssa.Call); !ok || !viaCall(call, y.Index, allowCat, fr, depth) {
							unknown++
						}
					case *ssa.Call:
						if !viaCall(y, 0, allowCat, fr, depth) {
							unknown++
						}
					case *ssa.BinOp:
						if y.Op == token.ADD && allowCat {
							walk(y.X, false, fr, depth+1)
						} else {
							bad = append(bad, n.Norm(x).String())
						}
					default:
						// a construct this walk does not follow (field of a local struct, slice, ...): not judged here
						unknown++
					}
				}
				delete(n.Bind, full)
				walk(full, true, nil, 0)
				n.Bind[full] = "full"
				c.Check(R4, "ean.EncodeWithColor/"+v.enc+"-digits", call.Pos(), len(bad) == 0, "the caller's code, or the caller's code + one appended check digit", fmt.Sprintf("also: %s (%d constructs not followed)", strings.Join(bad, "; "), unknown))
			}
			// the constructor fed by this call: wherever the bars of this variant arrive, the kind is the
			// variant's and the content is the completed code
			found := false
			eachInstr(fn, func(b *ssa.BasicBlock, ins ssa.Instruction) {
				ctor, ok := ins.(*ssa.Call)
				if !ok || calleeOf(ctor) == nil || len(ctor.Common().Args) < 4 || calleeOf(ctor).Pkg == nil || shortName(calleeOf(ctor).Pkg.Pkg.Path()) != "utils" {
					return
				}
				a := ctor.Common().Args
				for _, jc := range jointCases(n, fn, fn.Blocks[0], []ssa.Value{a[0], a[2], a[1]}, b, n.ReachCond(fn, nil, b), 0) {
					if jc.vals[1] != ssa.Value(call) {
						continue
					}
					found = true
					kind := ""
					if k, ok := jc.vals[0].(*ssa.Const); ok && k.Value != nil {
						kind = constant.StringVal(k.Value)
					}
					c.Check(R4, "ean.EncodeWithColor/"+v.enc+"-kind", ctor.Pos(), kind == v.kind, v.kind, kind)
					c.Check(R4, "ean.EncodeWithColor/"+v.enc+"-content", ctor.Pos(), jc.vals[2] == full, "the completed code that was drawn", n.Norm(jc.vals[2]).String())
				}
			})
			c.Check(R4, "ean.EncodeWithColor/"+v.enc+"-ctor", call.Pos(), found, "bars handed to the constructor", fmt.Sprint(found))
			delete(n.Bind, full)
		}
	}
}

// projectOK: reach condition with the loop's membership flag named "ok".
func projectOK(n *Normer, fn *ssa.Function, from, target *ssa.BasicBlock) *Cond {
	// name every comma-ok lookup flag "ok"
	// (also in the unexported helpers the function delegates to)
	n.P.deepEach(fn, 2, func(s DeepSite) {
		if ex, okx := s.Ins.(*ssa.Extract); okx && ex.Index == 1 {
			if lk, isLk := ex.Tuple.(*ssa.Lookup); isLk && lk.CommaOk {
				n.Bind[ex] = "ok"
			}
		}
	})
	return n.ReachCond(fn, from, target)
}

// B2: codabar validation.
func ruleCodabarValidation(c *Ctx) {
	const R = "B2-CODABAR-VALIDATION"
	c.Doc(R, "codabar.EncodeWithColor accepts exactly the whole-string matches of [A-D][0-9-$:/.+]*[A-D]: the pattern constant is equivalent (regexp/syntax simplified form) to the reference and is applied with the whole-match idiom ReplaceAllString(content, \"!\") == \"!\" && content != \"!\"; every rune of the accepted text has a table entry (B1)")
	c.Floor(R, 3)
	fn := c.theFunc(R, "codabar.EncodeWithColor")
	if fn == nil {
		return
	}
	n := NewNormer(c.P)
	n.BindParams(fn, "content", "color")
	var compile, repl *ssa.Call
	var replSite DeepSite
	c.P.deepEach(fn, 2, func(s DeepSite) {
		call, ok := s.Ins.(*ssa.Call)
		if !ok {
			return
		}
		switch calleeFull(call) {
		case "regexp.Compile", "regexp.MustCompile":
			compile = call
		case "(*regexp.Regexp).ReplaceAllString":
			repl, replSite = call, s
		}
	})
	hoisted := false
	if compile == nil && repl != nil {
		// the pattern compiled once into a package-level variable that is never assigned again
		if ld, ok := repl.Common().Args[0].(*ssa.UnOp); ok {
			if g, ok := ld.X.(*ssa.Global); ok && c.P.immutableGlobal(g) && g.Pkg != nil {
				if initFn := g.Pkg.Func("init"); initFn != nil {
					eachInstr(initFn, func(b *ssa.BasicBlock, ins ssa.Instruction) {
						st, ok := ins.(*ssa.Store)
						if !ok || st.Addr != ssa.Value(g) {
							return
						}
						v := st.Val
						if ex, ok := v.(*ssa.Extract); ok && ex.Index == 0 {
							v = ex.Tuple
						}
						if call, ok := v.(*ssa.Call); ok {
							switch calleeFull(call) {
							case "regexp.Compile", "regexp.MustCompile":
								compile, hoisted = call, true
							}
						}
					})
				}
			}
		}
	}
	if compile == nil {
		c.Check(R, "codabar.EncodeWithColor/pattern", fn.Pos(), false, "a compiled validation pattern", "none")
		return
	}
	pat, ok := compile.Common().Args[0].(*ssa.Const)
	if !ok || pat.Value == nil {
		c.Undecided(R, "codabar.EncodeWithColor/pattern", compile.Pos(), "pattern is not a constant")
		return
	}
	got, err1 := syntax.Parse(constant.StringVal(pat.Value), syntax.Perl)
	want, _ := syntax.Parse(`[A-D][0-9\-$:/.+]*[A-D]$`, syntax.Perl)
	gs := "unparsable"
	if err1 == nil {
		gs = got.Simplify().String()
	}
	c.Check(R, "codabar.EncodeWithColor/pattern", compile.Pos(), err1 == nil && gs == want.Simplify().String(), want.Simplify().String(), gs)
	if repl == nil {
		c.Check(R, "codabar.EncodeWithColor/whole-match", fn.Pos(), false, "whole-match idiom ReplaceAllString(content, \"!\") == \"!\"", "pattern is applied differently (a partial match would be accepted)")
		return
	}
	a := repl.Common().Args
	recvOK := hoisted
	if ex, ok := a[0].(*ssa.Extract); ok && ex.Tuple == ssa.Value(compile) && ex.Index == 0 {
		recvOK = true
	} else if a[0] == ssa.Value(compile) {
		recvOK = true
	}
	rs := "?"
	if k, ok := a[2].(*ssa.Const); ok && k.Value != nil {
		rs = constant.StringVal(k.Value)
	}
	c.Check(R, "codabar.EncodeWithColor/whole-match-args", repl.Pos(), recvOK && n.NormAt(replSite, a[1]).String() == "content" && rs == "!", "pattern.ReplaceAllString(content, \"!\")", fmt.Sprintf("recv=%v subject=%s repl=%q", recvOK, n.NormAt(replSite, a[1]), rs))
	n.Bind[repl] = "repl"
	rej := cFalse
	for _, ret := range returnsOf(fn) {
		if isNilConst(ret.Results[0]) {
			rej = cOr(rej, n.ReachCond(fn, nil, ret.Block()))
		}
	}
	wantC := MustRefCond("isBang || !replBang")
	renameAtoms(wantC, map[string]string{"isBang": "Eq(const:\"!\",content)", "replBang": "Eq(const:\"!\",repl)"})
	c.expectCondC(R, "codabar.EncodeWithColor/reject-iff", fn.Pos(), rej, wantC)
}
