package main

import (
	"fmt"
	"go/token"
	"strings"

	"golang.org/x/tools/go/ssa"
)

// A11: the bytes of a binary shift run.
func ruleAztecBinaryShiftBytes(c *Ctx) {
	const R = "A11-AZTEC-BSHIFT-BYTES"
	c.Doc(R, "aztec binaryShiftToken.appendTo: every byte it appends is read from the text relative to the start of the run - text[bShiftStart + offset], or an element of a slice of text that starts at bShiftStart + offset - with an offset that does not itself depend on bShiftStart (a run does not begin at payload index 0 in general)")
	c.Floor(R, 1)
	fn := c.theFunc(R, "aztec.(*binaryShiftToken).appendTo")
	if fn == nil {
		return
	}
	addByte := c.P.Func("utils.(*BitList).AddByte")
	sites := c.P.deepCallsTo(fn, addByte)
	if len(sites) == 0 {
		c.Check(R, "aztec.(*binaryShiftToken).appendTo/bytes", fn.Pos(), false, "AddByte of the run's bytes", "no AddByte call")
		return
	}
	for k, site := range sites {
		call := site.Ins.(*ssa.Call)
		n := NewNormer(c.P)
		n.BindParams(fn, "bst", "bits", "text")
		n.Ctx = site.Path
		key := fmt.Sprintf("aztec.(*binaryShiftToken).appendTo/byte#%d", k+1)
		var base, idx ssa.Value
		switch x := call.Common().Args[1].(type) {
		case *ssa.UnOp:
			if ia, ok := x.X.(*ssa.IndexAddr); ok {
				base, idx = ia.X, ia.Index
			}
		case *ssa.Index:
			base, idx = x.X, x.Index
		}
		if base == nil {
			c.Undecided(R, key, call.Pos(), "the appended byte is not an element read")
			continue
		}
		// where the element comes from: text itself at an index, or a slice of text
		start := Poly{}
		bv, _ := n.throughParams(base, site.Fn)
		for d := 0; d < 3; d++ {
			sl, ok := bv.(*ssa.Slice)
			if !ok {
				break
			}
			if sl.Low != nil {
				start = pAdd(start, n.Norm(sl.Low), 1)
			}
			bv, _ = n.throughParams(sl.X, site.Fn)
		}
		src := n.Norm(bv).String()
		c.Check(R, key+"/source", call.Pos(), src == "text", "a byte of text", src)
		pos := pAdd(start, n.Norm(idx), 1)
		// pos = bst.bShiftStart + (something free of bShiftStart)
		okForm := pos["bst.bShiftStart"] == 1
		for m := range pos {
			if m != "bst.bShiftStart" && strings.Contains(m, "bShiftStart") {
				okForm = false
			}
		}
		c.Check(R, key+"/position", call.Pos(), okForm, "bShiftStart + offset", pos.String())
	}
}

// A12: characters are appended to the state whose pending binary shift was closed.
func ruleAztecNoBinaryState(c *Ctx) {
	const R = "A12-AZTEC-NOBINARY-STATE"
	c.Doc(R, "aztec.updateStateForChar: latchAndAppend and shiftAndAppend are applied to s.endBinaryShift(index) - the state with the pending binary shift run closed - never to s itself (bytes of an open run would be dropped); addBinaryShiftChar is applied to s")
	c.Floor(R, 3)
	fn := c.theFunc(R, "aztec.updateStateForChar")
	if fn == nil || len(fn.Params) != 3 {
		return
	}
	n := NewNormer(c.P)
	n.BindParams(fn, "s", "data", "index")
	n.NoInline["aztec.(*state).endBinaryShift"] = true
	origins := func(v ssa.Value) []string {
		seen := map[ssa.Value]bool{}
		var out []string
		var walk func(v ssa.Value)
		walk = func(v ssa.Value) {
			if seen[v] {
				return
			}
			seen[v] = true
			if p, ok := v.(*ssa.Phi); ok {
				for _, e := range p.Edges {
					walk(e)
				}
				return
			}
			if isNilConst(v) {
				return // the lazily created state before its creation (dereferencing it would panic)
			}
			out = append(out, n.Norm(v).String())
		}
		walk(v)
		return out
	}
	for _, m := range []struct{ name, want string }{
		{"latchAndAppend", "call:aztec.(*state).endBinaryShift(s,index)"},
		{"shiftAndAppend", "call:aztec.(*state).endBinaryShift(s,index)"},
		{"addBinaryShiftChar", "s"},
	} {
		calls := callsTo(fn, c.P.Func("aztec.(*state)."+m.name))
		if len(calls) == 0 {
			c.Check(R, "aztec.updateStateForChar/"+m.name, fn.Pos(), false, "a call of "+m.name, "none")
			continue
		}
		for k, call := range calls {
			got := origins(call.Common().Args[0])
			ok := len(got) > 0
			for _, g := range got {
				if g != m.want {
					ok = false
				}
			}
			c.Check(R, fmt.Sprintf("aztec.updateStateForChar/%s#%d-receiver", m.name, k+1), call.Pos(), ok, m.want, fmt.Sprint(got))
		}
	}
}

// B5: Codabar symbol assembly.
func ruleCodabarAssembly(c *Ctx) {
	const R = "B5-CODABAR-ASSEMBLY"
	c.Doc(R, "codabar.EncodeWithColor: for every rune r of the content, in order, the whole pattern encodingTable[r] is appended (AddBit(encodingTable[r]...): patterns are 9 or 10 modules wide), preceded by one narrow space exactly when it is not the first character; nothing else is appended; the bit list is handed to the constructor with the content")
	c.Floor(R, 4)
	fn := c.theFunc(R, "codabar.EncodeWithColor")
	if fn == nil {
		return
	}
	n := NewNormer(c.P)
	n.BindParams(fn, "content", "color")
	addBit := c.P.Func("utils.(*BitList).AddBit")
	var gap, pat *ssa.Call
	carried := false
	other := 0
	F := fn
	for _, site := range c.P.deepCallsTo(fn, addBit) {
		call := site.Ins.(*ssa.Call)
		if site.Fn != fn {
			F = site.Fn
		}
		if bits, ok := constBoolList(c.P, call.Common().Args[1]); ok {
			if bits == "0" && gap == nil {
				gap = call
			} else {
				other++
			}
			continue
		}
		// a gap carried in a variable: nothing in front of the first character (nil on entry to the
		// loop), one narrow space from then on (set in every iteration)
		if phi, ok := call.Common().Args[1].(*ssa.Phi); ok && gap == nil && isLoopHeader(phi.Block()) {
			okPhi := len(phi.Edges) >= 2
			for ei, e := range phi.Edges {
				if phi.Block().Dominates(phi.Block().Preds[ei]) {
					if bits, isList := constBoolList(c.P, e); !isList || bits != "0" {
						okPhi = false
					}
				} else if !isNilConst(e) {
					okPhi = false
				}
			}
			if okPhi {
				gap, carried = call, true
				continue
			}
		}
		if pat == nil {
			pat = call
		} else {
			other++
		}
	}
	if gap == nil || pat == nil {
		c.Check(R, "codabar.EncodeWithColor/appends", fn.Pos(), false, "a gap append and a pattern append (AddBit)", fmt.Sprintf("gap=%v pattern=%v", gap != nil, pat != nil))
		return
	}
	c.Check(R, "codabar.EncodeWithColor/only-gap-and-pattern", fn.Pos(), other == 0, "no other appends", fmt.Sprint(other))
	// bits written by position instead of appended would need their own width bookkeeping
	setBit := c.P.Func("utils.(*BitList).SetBit")
	c.Check(R, "codabar.EncodeWithColor/no-positional-writes", fn.Pos(), len(c.P.deepCallsTo(fn, setBit)) == 0, "modules are appended, not written by position", fmt.Sprint(len(c.P.deepCallsTo(fn, setBit))))
	hdr := enclosingLoopHeader(pat.Block())
	var posV, runeV ssa.Value
	var rangeX ssa.Value
	if hdr != nil {
		for _, ins := range hdr.Instrs {
			if nx, ok := ins.(*ssa.Next); ok && nx.IsString {
				rangeX = rangeSubject(nx)
				for _, r := range *nx.Referrers() {
					if ex, ok := r.(*ssa.Extract); ok {
						switch ex.Index {
						case 1:
							posV = ex
						case 2:
							runeV = ex
						}
					}
				}
			}
		}
	}
	if hdr == nil || runeV == nil {
		c.Undecided(R, "codabar.EncodeWithColor/loop", pat.Pos(), "no range over the runes of the content around the pattern append")
		return
	}
	if F == fn {
		c.expectPoly(R, "codabar.EncodeWithColor/subject", hdr.Instrs[0].Pos(), n, rangeX, "content")
	}
	n.Bind[runeV] = "r"
	if posV != nil {
		n.Bind[posV] = "i"
	}
	got := canonAccess(n.Norm(pat.Common().Args[1]).String())
	c.Check(R, "codabar.EncodeWithColor/pattern", pat.Pos(), got == "global:codabar.encodingTable[r]", "encodingTable[r] as a whole", got)
	body := hdr.Succs[0]
	c.expectCond(R, "codabar.EncodeWithColor/pattern-always", pat.Pos(), n.ReachCond(F, body, pat.Block()), "true")
	dom := MustRefCond("i >= 0")
	if carried {
		okHdr := gap.Common().Args[1].(*ssa.Phi).Block() == hdr
		eq, _ := CondEquivalent(n.ReachCond(F, body, gap.Block()), cTrue)
		c.Check(R, "codabar.EncodeWithColor/gap-iff", gap.Pos(), okHdr && eq, "the carried gap (empty for the first character, one space afterwards) is appended for every character", fmt.Sprintf("state of the character loop: %v; appended when %s", okHdr, n.ReachCond(F, body, gap.Block())))
	} else {
		want := MustRefCond("i != 0")
		// (or decided by a flag that is raised after the first character)
		if flag, neg := notFirstFlag(hdr); flag != nil {
			n.Bind[flag] = "notfirst"
			if condMentions(n.ReachCond(F, body, gap.Block()), "notfirst") {
				want = &Cond{Kind: CBool, Name: "notfirst"}
				if neg {
					want = cNot(want)
				}
			}
		}
		c.expectCondC(R, "codabar.EncodeWithColor/gap-iff", gap.Pos(), cAnd(dom, n.ReachCond(F, body, gap.Block())), cAnd(dom, want))
	}
	c.Check(R, "codabar.EncodeWithColor/gap-before-pattern", gap.Pos(), !dominatesInstr(pat, gap) && reachableFrom(gap.Block())[pat.Block()], "the gap precedes the character's pattern", "ok")
}

// R8: a sentinel value in loop state must not be a possible input.
func ruleSentinelPkgs(pkgs ...string) func(c *Ctx) {
	return func(c *Ctx) { ruleSentinel(c, pkgs) }
}

func ruleSentinel(c *Ctx, pkgs []string) {
	const R = "R8-SENTINEL"
	c.Doc(R, "in the encoders' loops over the input characters, a loop-carried integer variable that is reset to a constant and tested against that constant (\"nothing pending\") never receives an unvalidated input character: wherever the current character is stored into it, the character has passed a table lookup or comparison that excludes the sentinel - otherwise an input character equal to the sentinel is silently taken for \"nothing\"")
	c.Floor(R, 0)
	checked := 0
	for _, fn := range append(append([]*ssa.Function{}, c.P.Funcs...), c.P.CanaryFuncs...) {
		if fn.Pkg == nil {
			continue
		}
		inScope := c.P.IsCanaryPos(fn.Pos())
		for _, pk := range pkgs {
			if shortName(fn.Pkg.Pkg.Path()) == pk {
				inScope = true
			}
		}
		if !inScope {
			continue
		}
		for _, hdr := range fn.Blocks {
			var runeV ssa.Value
			for _, ins := range hdr.Instrs {
				if nx, ok := ins.(*ssa.Next); ok && nx.IsString {
					for _, r := range *nx.Referrers() {
						if ex, ok := r.(*ssa.Extract); ok && ex.Index == 2 {
							runeV = ex
						}
					}
				}
			}
			if runeV == nil {
				continue
			}
			checked++
			for _, ins := range hdr.Instrs {
				p, ok := ins.(*ssa.Phi)
				if !ok || !isIntType(p.Type()) {
					continue
				}
				// back-edge values: the raw input character and a constant (the reset)
				var consts []int64
				var storesRune []*ssa.BasicBlock
				for ei, e := range p.Edges {
					if !hdr.Dominates(hdr.Preds[ei]) {
						if k, ok := constInt(e); ok {
							consts = append(consts, int64(k))
						}
						continue
					}
					collectEdgeValues(e, hdr, map[ssa.Value]bool{}, func(v ssa.Value, at *ssa.BasicBlock) {
						if k, ok := constInt(v); ok {
							consts = append(consts, int64(k))
						}
						x := v
						if cv, ok := x.(*ssa.Convert); ok {
							x = cv.X
						}
						if x == runeV {
							storesRune = append(storesRune, at)
						}
					})
				}
				if len(storesRune) == 0 || len(consts) == 0 {
					continue
				}
				// is the phi compared with one of those constants inside the loop?
				sentinel, found := int64(0), false
				eachInstr(fn, func(b *ssa.BasicBlock, i2 ssa.Instruction) {
					bo, ok := i2.(*ssa.BinOp)
					if !ok || (bo.Op != token.EQL && bo.Op != token.NEQ) || !hdr.Dominates(b) {
						return
					}
					for _, pair := range [][2]ssa.Value{{bo.X, bo.Y}, {bo.Y, bo.X}} {
						if pair[0] == ssa.Value(p) {
							if k, ok := constInt(pair[1]); ok {
								for _, cst := range consts {
									if cst == int64(k) {
										sentinel, found = cst, true
									}
								}
							}
						}
					}
				})
				if !found {
					continue
				}
				name := c.P.FuncName(fn)
				c.Fn(name)
				for k, at := range storesRune {
					n := NewNormer(c.P)
					n.Bind[runeV] = "r"
					projectOK(n, fn, hdr.Succs[0], at)
					rc := n.ReachCond(fn, hdr.Succs[0], at)
					ne := cNot(cmpCond(token.EQL, pAtom("r"), pConst(sentinel)))
					imp1, _, _ := CondRelation(rc, ne)
					imp2, _, _ := CondRelation(rc, &Cond{Kind: CBool, Name: "ok"})
					c.Check(R, fmt.Sprintf("%s/%s-store#%d", name, p.Comment, k+1), p.Pos(), imp1 || imp2, fmt.Sprintf("the character stored into %q was checked (it cannot be the sentinel %d)", p.Comment, sentinel), rc.String())
				}
			}
		}
	}
	c.Count["input_loops_scanned"] = checked
}

// collectEdgeValues walks the phis feeding a back-edge value (within the loop of hdr) and reports the
// leaf values together with the block they come from.
func collectEdgeValues(v ssa.Value, hdr *ssa.BasicBlock, seen map[ssa.Value]bool, f func(v ssa.Value, at *ssa.BasicBlock)) {
	if seen[v] {
		return
	}
	seen[v] = true
	if p, ok := v.(*ssa.Phi); ok && p.Block() != hdr && hdr.Dominates(p.Block()) {
		for ei, e := range p.Edges {
			if q, isPhi := e.(*ssa.Phi); isPhi && q.Block() != hdr {
				collectEdgeValues(e, hdr, seen, f)
				continue
			}
			f(e, p.Block().Preds[ei])
		}
		return
	}
	if ins, ok := v.(ssa.Instruction); ok {
		f(v, ins.Block())
		return
	}
	f(v, hdr)
}

func init() {
	canaries = append(canaries, canary{Pkg: "twooffive", Rule: "R8-SENTINEL", Src: `
func zzVerifCanarySentinel(content string) int {
	pairs := 0
	var pending rune
	for _, r := range content {
		if pending == 0 {
			pending = r
			continue
		}
		pairs++
		pending = 0
	}
	return pairs
}`})
	canaryExpect["R8-SENTINEL"] = []string{"zzVerifCanarySentinel"}
	register("C03", ruleAztecBinaryShiftBytes, ruleAztecNoBinaryState)
	register("C08", ruleCodabarAssembly, ruleSentinelPkgs("codabar", "twooffive"))
	register("C10", ruleCodabarAssembly, ruleSentinelPkgs("twooffive", "code39", "code93", "code128", "codabar", "ean", "qr", "datamatrix", "pdf417", "aztec"))
	register("C05", ruleSentinelPkgs("code128"))
	register("C07", ruleSentinelPkgs("code39", "code93"))
	// shared machinery registered where it serves: the 1D image type and its metadata decide how a
	// barcode is scaled (C09); state shared between calls breaks the independence of any symbol from
	// earlier ones (C09, C11, C12, C14, C18); integer widths matter for the size search (C13)
	register("C09", ruleImageMethods)
	for _, p := range []string{"C09", "C11", "C12", "C14", "C18"} {
		register(p, ruleConcurrency)
	}
	register("C13", ruleNarrowArith("qr", "datamatrix", "aztec", "pdf417", "utils"))
}
