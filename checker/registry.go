package main

func init() {
	register("C05", ruleCode128Tables)
	register("C06", ruleEANTable)
	register("C07", ruleCode39Tables, ruleCode93Tables)
	register("C08", ruleCodabarTable, ruleTwoOfFiveTables)
}

func init() {
	register("C17", ruleNegMod)
	register("C10", ruleNegMod)
}

func init() {
	register("C01", ruleAtoiPkgs(1, "qr"))
	register("C10", ruleAtoiPkgs(1))
	register("C14", ruleAtoiPkgs(0, "ean", "code128", "code39", "utils", "barcode"))
}

func init() {
	register("C11", ruleColor)
}

func init() {
	register("C15", ruleAlias)
}

func init() {
	register("C06", ruleEANLen, ruleEANCheckValue, ruleMod10)
	register("C08", ruleMod10)
	register("C14", ruleEANLen, ruleEANCheckValue)
}

func init() {
	register("C07", ruleOptGate)
}

func init() {
	register("C04", ruleRowIndicators)
	register("C12", ruleRowIndicators)
}

func init() {
	register("C01", ruleQRTables, ruleGFConstruction("qr"))
	register("C02", ruleDataMatrixTables, ruleGFConstruction("datamatrix"))
	register("C03", ruleAztecTables, ruleGFConstruction("aztec"))
	register("C04", rulePDF417Tables)
	register("C12", ruleQRTables, ruleDataMatrixTables, rulePDF417Tables)
	register("C13", ruleQRTables, ruleDataMatrixTables)
	register("C17", ruleGFConstruction())
}

func init() {
	register("C09", ruleScale)
}

func init() {
	register("C01", ruleQRFormulas)
	register("C12", ruleQRFormulas)
	register("C13", ruleQRFormulas)
	register("C10", ruleQRFormulas)
}

func init() {
	register("C16", ruleConcurrency)
	register("C15", ruleConcurrency)
}

func init() {
	register("C18", ruleBitList)
	register("C17", ruleGFArith)
	register("C15", ruleGFArith)
}

func init() {
	register("C03", ruleAztecEncoder)
	register("C10", ruleAztecEncoder)
	register("C12", ruleAztecEncoder)
	register("C13", ruleAztecEncoder)
	register("C11", ruleAztecEncoder)
}

func init() {
	register("C03", ruleAztecState)
}

func init() {
	register("C10", ruleEntryPoints, ruleGuards)
	register("C07", ruleEntryPoints)
}

func init() {
	register("C02", ruleDataMatrixEncoder)
	register("C10", ruleDataMatrixEncoder)
	register("C12", ruleDataMatrixEncoder)
	register("C13", ruleDataMatrixEncoder)
}

func init() {
	register("C06", ruleEANAssembly)
	register("C08", ruleCodabarValidation)
	register("C10", ruleEANAssembly, ruleCodabarValidation, ruleCode93Tables, ruleCode39Tables, ruleCode128Tables)
	register("C11", ruleQRTables, ruleEANAssembly)
	register("C14", ruleCode39Tables)
	register("C15", ruleCode39Tables, ruleCode93Tables)
}

func init() {
	register("C05", ruleCode128Encoder)
	register("C14", ruleCode128Encoder)
}

func init() {
	register("C04", rulePDF417Encoder)
	register("C12", rulePDF417Encoder)
	register("C13", rulePDF417Encoder)
	register("C11", rulePDF417Encoder)
}

func init() {
	register("C14", ruleCheckValue)
	register("C11", ruleCheckValue)
	register("C07", ruleRuneKeys)
	register("C10", ruleRuneKeys)
}

func init() {
	register("C11", ruleImageMethods)
}

func init() {
	register("C01", ruleQRModeBits)
	register("C10", ruleQRModeBits)
	register("C13", ruleQRModeBits)
	register("C05", ruleCode128State, ruleGuards)
	register("C07", ruleCode39Assembly)
	register("C11", ruleCode39Assembly, ruleAlias)
	register("C14", ruleScale)
	register("C16", ruleQRFormulas)
}

func init() {
	register("C04", rulePDF417Arith)
	register("C12", rulePDF417Arith)
	register("C13", rulePDF417Arith)
	register("C10", rulePDF417Arith)
	register("C17", ruleGFPolyArith)
	register("C03", ruleAztecHighLevel)
}

func init() {
	register("C02", ruleDataMatrixMerge)
	register("C08", ruleGuards)
}

func init() {
	register("C17", ruleConcurrency)
}
