package main

func init() {
	register("C05", ruleCode128Tables)
	register("C06", ruleEANTable)
	register("C07", ruleCode39Tables, ruleCode93Tables)
	register("C08", ruleCodabarTable, ruleTwoOfFiveTables)
}

func init() {
	register("C17", ruleNegMod)
	register("C10", ruleNegMod)
}
