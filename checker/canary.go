package main

// Canaries: zero-count rules (rules whose expected number of findings is zero) are exercised on
// every run against a small in-memory file (packages.Config.Overlay; nothing is written to
// /repo) containing one deliberate violation each. A rule that no longer flags its canary has
// gone blind and fails the check.

import (
	"fmt"
	"path/filepath"
)

type canary struct {
	Pkg  string // short package name the file is added to
	Rule string
	Src  string
}

var canaries []canary

// canaryRules: rule -> construct substrings that must be flagged (filled by rule files)
var canaryExpect = map[string][]string{}

func canaryOverlay(repo string) map[string][]byte {
	byPkg := map[string]string{}
	for _, c := range canaries {
		byPkg[c.Pkg] += c.Src + "\n"
		canaryPkgOf[c.Rule] = c.Pkg
	}
	ov := map[string][]byte{}
	for pkg, src := range byPkg {
		dir := filepath.Join(repo, pkg)
		name := pkg
		if pkg == "barcode" {
			dir = repo
		}
		ov[filepath.Join(dir, canaryFileName)] = []byte("package " + name + "\n\n" + canaryImports[pkg] + "\n" + src)
	}
	return ov
}

var canaryImports = map[string]string{}

// canaryPkgOf: rule -> package holding its canary (filled from the canaries list)
var canaryPkgOf = map[string]string{}

func checkCanaries(c *Ctx) {
	if len(c.P.CanaryDropped) > 0 {
		c.Notes = append(c.Notes, fmt.Sprintf("canary files of %v do not compile against this tree (renamed identifiers); their self-checks were skipped", c.P.CanaryDropped))
	}
	for rule, subs := range canaryExpect {
		if pk, ok := canaryPkgOf[rule]; ok {
			skipped := false
			for _, d := range c.P.CanaryDropped {
				if d == pk || (pk == "barcode" && d == filepath.Base(c.P.RepoDir)) {
					skipped = true
				}
			}
			if skipped {
				continue
			}
		}
		if _, used := c.Rules[rule]; !used {
			continue
		}
		for _, sub := range subs {
			hit := false
			for _, o := range c.Obs {
				if o.Canary && o.Rule == rule && !o.OK && contains(o.Construct, sub) {
					hit = true
				}
			}
			if !hit {
				c.add(Obligation{Key: rule + "/canary:" + sub, Rule: rule, Construct: "canary:" + sub, Pos: canaryFileName, OK: false,
					Expected: "the deliberate violation in the canary overlay is flagged", Found: "not flagged: the rule has gone blind", Kind: "CANARY"})
			} else {
				c.Count["canaries_flagged"]++
			}
		}
	}
}

func contains(s, sub string) bool {
	return len(sub) == 0 || (len(s) >= len(sub) && (func() bool {
		for i := 0; i+len(sub) <= len(s); i++ {
			if s[i:i+len(sub)] == sub {
				return true
			}
		}
		return false
	})())
}
