package main

// E7 — decision-table extraction. A switch / if-chain on one scrutinee ends in a phi (or in
// returns); for each value of the scrutinee exactly one arm is taken. The arm is found by
// evaluating the arms' reach conditions for that value (conditions must mention only the
// scrutinee), so `switch` and `if/else if` forms are indistinguishable.

import (
	"fmt"

	"golang.org/x/tools/go/ssa"
)

// PhiArm returns, for scrutinee value val, the index of the phi edge taken.
func PhiArm(n *Normer, fn *ssa.Function, phi *ssa.Phi, from *ssa.BasicBlock, scrutRole string, val int64) (int, error) {
	taken := -1
	for i, pred := range phi.Block().Preds {
		cond := cAnd(n.ReachCond(fn, from, pred), n.EdgeCond(pred, phi.Block()))
		cv := &condVars{bases: map[string]map[int64]bool{}, bools: map[string]bool{}}
		collect(cond, cv)
		for b := range cv.bases {
			if b != scrutRole {
				return -1, fmt.Errorf("arm %d depends on %s, not only on the scrutinee", i, b)
			}
		}
		if len(cv.bools) > 0 {
			return -1, fmt.Errorf("arm %d depends on boolean atoms %v", i, cv.bools)
		}
		if evalCond(cond, map[string]int64{scrutRole: val}, nil) {
			if taken >= 0 {
				return -1, fmt.Errorf("two arms taken for value %d", val)
			}
			taken = i
		}
	}
	if taken < 0 {
		return -1, fmt.Errorf("no arm taken for value %d", val)
	}
	return taken, nil
}
