package main

// E7 — decision-table extraction. A switch / if-chain on one scrutinee ends in a phi (or in
// returns); for each value of the scrutinee exactly one arm is taken. The arm is found by
// evaluating the arms' reach conditions for that value (conditions must mention only the
// scrutinee), so `switch` and `if/else if` forms are indistinguishable.

import (
	"fmt"

	"golang.org/x/tools/go/ssa"
)

// PhiArm returns, for scrutinee value val, the index of the phi edge taken.
func PhiArm(n *Normer, fn *ssa.Function, phi *ssa.Phi, from *ssa.BasicBlock, scrutRole string, val int64) (int, error) {
	taken := -1
	for i, pred := range phi.Block().Preds {
		cond := cAnd(n.ReachCond(fn, from, pred), n.EdgeCond(pred, phi.Block()))
		cv := &condVars{bases: map[string]map[int64]bool{}, bools: map[string]bool{}}
		collect(cond, cv)
		for b := range cv.bases {
			if b != scrutRole {
				return -1, fmt.Errorf("arm %d depends on %s, not only on the scrutinee", i, b)
			}
		}
		if len(cv.bools) > 0 {
			return -1, fmt.Errorf("arm %d depends on boolean atoms %v", i, cv.bools)
		}
		if evalCond(cond, map[string]int64{scrutRole: val}, nil) {
			if taken >= 0 {
				return -1, fmt.Errorf("two arms taken for value %d", val)
			}
			taken = i
		}
	}
	if taken < 0 {
		return -1, fmt.Errorf("no arm taken for value %d", val)
	}
	return taken, nil
}

// phiArmFold: like PhiArm for arms that are decided by reading immutable package tables at the
// scrutinee (v, ok := table[x]): the scrutinee value is substituted, table reads are folded through the
// literal evaluator, and the chosen arm's value is returned in that same environment.
func phiArmFold(n *Normer, fn *ssa.Function, phi *ssa.Phi, from *ssa.BasicBlock, scrutRole string, val int64) (int, Poly, error) {
	var subj []ssa.Value
	for v, r := range n.Bind {
		if r == scrutRole {
			subj = append(subj, v)
		}
	}
	if len(subj) == 0 {
		return -1, nil, fmt.Errorf("no value carries the role %s", scrutRole)
	}
	env := map[ssa.Value]Poly{}
	for _, v := range subj {
		delete(n.Bind, v)
		env[v] = pConst(val)
	}
	n.env = append(n.env, env)
	savedFold := n.FoldTables
	n.FoldTables = true
	defer func() {
		n.FoldTables = savedFold
		n.env = n.env[:len(n.env)-1]
		for _, v := range subj {
			n.Bind[v] = scrutRole
		}
	}()
	taken := -1
	for i, pred := range phi.Block().Preds {
		cond := cAnd(n.ReachCond(fn, from, pred), n.EdgeCond(pred, phi.Block()))
		cv := &condVars{bases: map[string]map[int64]bool{}, bools: map[string]bool{}}
		collect(cond, cv)
		if len(cv.bases) > 0 || len(cv.bools) > 0 {
			return -1, nil, fmt.Errorf("arm %d is not decided by the scrutinee and the tables alone: %s", i, cond)
		}
		if evalCond(cond, nil, nil) {
			if taken >= 0 {
				return -1, nil, fmt.Errorf("two arms taken for value %d", val)
			}
			taken = i
		}
	}
	if taken < 0 {
		return -1, nil, fmt.Errorf("no arm taken for value %d", val)
	}
	return taken, n.Norm(phi.Edges[taken]), nil
}
