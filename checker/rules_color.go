package main

import (
	"fmt"
	"go/token"
	"go/types"
	"sort"

	"golang.org/x/tools/go/ssa"
)

// aliasesOf follows a value through value-preserving instructions and local spill cells and
// returns every "real" use together with the alias it is used through.
type useSite struct {
	Ins ssa.Instruction
	Via ssa.Value
}

func realUses(v ssa.Value) []useSite {
	var out []useSite
	seen := map[ssa.Value]bool{}
	var walk func(x ssa.Value)
	walk = func(x ssa.Value) {
		if seen[x] {
			return
		}
		seen[x] = true
		refs := x.Referrers()
		if refs == nil {
			return
		}
		for _, r := range *refs {
			switch i := r.(type) {
			case *ssa.DebugRef:
			case *ssa.Phi:
				walk(i)
			case *ssa.ChangeType:
				walk(i)
			case *ssa.MakeInterface:
				walk(i)
			case *ssa.ChangeInterface:
				walk(i)
			case *ssa.Store:
				// spill into a local cell that does not otherwise escape: follow its loads
				if a, ok := i.Addr.(*ssa.Alloc); ok && i.Val == x && !a.Heap {
					for _, ar := range *a.Referrers() {
						if ld, ok := ar.(*ssa.UnOp); ok && ld.Op == token.MUL {
							walk(ld)
						} else if ar != i {
							if _, dbg := ar.(*ssa.DebugRef); !dbg {
								out = append(out, useSite{ar, a})
							}
						}
					}
					continue
				}
				out = append(out, useSite{i, x})
			default:
				out = append(out, useSite{r, x})
			}
		}
	}
	walk(v)
	return out
}

var schemeVarNames = map[string]bool{"ColorScheme8": true, "ColorScheme16": true, "ColorScheme24": true, "ColorScheme32": true}

// isSchemeGlobalLoad: v is a load of one of the package-level colour schemes of the root package.
func isSchemeGlobalLoad(v ssa.Value) (string, bool) {
	ld, ok := v.(*ssa.UnOp)
	if !ok || ld.Op != token.MUL {
		return "", false
	}
	g, ok := ld.X.(*ssa.Global)
	if !ok || g.Pkg.Pkg.Path() != modPath || !isColorScheme(g.Type().Underlying().(*types.Pointer).Elem()) {
		return "", false
	}
	return g.Name(), true
}

func colorFieldIndex(t types.Type) int {
	if p, ok := t.Underlying().(*types.Pointer); ok {
		t = p.Elem()
	}
	st, ok := t.Underlying().(*types.Struct)
	if !ok {
		return -1
	}
	for i := 0; i < st.NumFields(); i++ {
		if isColorScheme(st.Field(i).Type()) {
			return i
		}
	}
	return -1
}

// schemeInScope: fn has a ColorScheme parameter, or its receiver struct carries one.
func schemeInScope(fn *ssa.Function) bool {
	for _, p := range fn.Params {
		if isColorScheme(p.Type()) {
			return true
		}
	}
	// the receiver, or any struct (pointer) parameter, that carries a scheme
	for _, p := range fn.Params {
		if colorFieldIndex(p.Type()) >= 0 {
			return true
		}
	}
	return false
}

func ruleColor(c *Ctx) {
	const RA = "K1a-COLOR-PARAM"
	const RB = "K1b-COLOR-DEFAULT-IN-SCOPE"
	const RC = "K1c-COLOR-PLAIN"
	const RD = "K1d-COLOR-INIT"
	c.Doc(RA, "every barcode.ColorScheme parameter is used, and only as (a) the value stored into a ColorScheme struct field or (b) the argument for a ColorScheme parameter of a repo function; so the scheme reaches the image and the module pattern cannot depend on it")
	c.Doc(RB, "where a caller's scheme is in scope (ColorScheme parameter or receiver carrying one) no package-level default scheme is stored or passed and no default-colour constructor is called")
	c.Doc(RC, "functions without a scheme in scope pass/store only the package-level schemes (plain Encode: ColorScheme16, black on white)")
	c.Doc(RD, "every allocation of a struct type carrying a ColorScheme field has that field stored in the allocating function (a zero scheme has a nil model)")
	c.Floor(RA, 12)
	c.Floor(RC, 10)
	c.Floor(RD, 6)

	all := append(append([]*ssa.Function{}, c.P.Funcs...), c.P.CanaryFuncs...)

	// default-colour functions: no scheme in scope and (transitively) store a package-level scheme into a field
	defaults := map[*ssa.Function]bool{}
	changed := true
	for changed {
		changed = false
		for _, fn := range all {
			if defaults[fn] || schemeInScope(fn) {
				continue
			}
			is := false
			eachInstr(fn, func(b *ssa.BasicBlock, ins ssa.Instruction) {
				if st, ok := ins.(*ssa.Store); ok {
					if _, ok := isSchemeGlobalLoad(st.Val); ok {
						if fa, ok := st.Addr.(*ssa.FieldAddr); ok && colorFieldIndex(fa.X.Type()) == fa.Field {
							is = true
						}
					}
				}
				if cal := calleeOf(ins); cal != nil && defaults[cal] {
					is = true
				}
				// ... or hand a package-level scheme to a constructor that takes one
				if ci, ok := ins.(ssa.CallInstruction); ok {
					if cal := ci.Common().StaticCallee(); cal != nil && isRepoFunc(cal) {
						for ai, a := range ci.Common().Args {
							if _, isG := isSchemeGlobalLoad(a); isG && ai < len(cal.Params) && isColorScheme(cal.Params[ai].Type()) {
								is = true
							}
						}
					}
				}
			})
			if is {
				defaults[fn] = true
				changed = true
			}
		}
	}

	for _, fn := range all {
		name := c.P.FuncName(fn)
		inScope := schemeInScope(fn)
		// K1a
		for pi, p := range fn.Params {
			if !isColorScheme(p.Type()) {
				continue
			}
			c.Fn(name)
			uses := realUses(p)
			sinks := 0
			var bad []string
			for _, u := range uses {
				switch i := u.Ins.(type) {
				case *ssa.Store:
					if fa, ok := i.Addr.(*ssa.FieldAddr); ok && i.Val == u.Via && colorFieldIndex(fa.X.Type()) == fa.Field {
						sinks++
						continue
					}
					bad = append(bad, "stored to "+i.Addr.String())
				case ssa.CallInstruction:
					cal := i.Common().StaticCallee()
					okArg := false
					if cal != nil && isRepoFunc(cal) {
						for ai, a := range i.Common().Args {
							if a == u.Via && ai < len(cal.Params) && isColorScheme(cal.Params[ai].Type()) {
								okArg = true
							}
						}
					}
					if okArg {
						sinks++
					} else {
						bad = append(bad, "passed to "+i.Common().String())
					}
				default:
					bad = append(bad, fmt.Sprintf("%T %s", u.Ins, u.Ins.String()))
				}
			}
			ok := sinks > 0 && len(bad) == 0
			found := fmt.Sprintf("%d sink uses", sinks)
			if sinks == 0 {
				found = "parameter never reaches a colour field or a colour parameter"
			}
			if len(bad) > 0 {
				found += fmt.Sprintf("; other uses: %v", bad)
			}
			c.Check(RA, fmt.Sprintf("%s/param#%d", name, pi), p.Pos(), ok, ">=1 sink use, no other use", found)
		}
		// K1b / K1c: what schemes are stored/passed here
		k := 0
		eachInstr(fn, func(b *ssa.BasicBlock, ins ssa.Instruction) {
			var vals []ssa.Value
			switch i := ins.(type) {
			case *ssa.Store:
				if fa, ok := i.Addr.(*ssa.FieldAddr); ok && colorFieldIndex(fa.X.Type()) == fa.Field {
					vals = append(vals, i.Val)
				}
			case ssa.CallInstruction:
				cal := i.Common().StaticCallee()
				if cal != nil && isRepoFunc(cal) {
					for ai, a := range i.Common().Args {
						if ai < len(cal.Params) && isColorScheme(cal.Params[ai].Type()) {
							vals = append(vals, a)
						}
					}
					if inScope && defaults[cal] {
						k++
						c.Check(RB, fmt.Sprintf("%s/defaultcall#%d", name, k), instrPos(ins), false, "the scheme in scope is threaded", "calls default-colour function "+c.P.FuncName(cal))
					}
				}
			}
			for _, v := range vals {
				g, isG := isSchemeGlobalLoad(v)
				k++
				if inScope {
					c.Check(RB, fmt.Sprintf("%s/scheme#%d", name, k), instrPos(ins), !isG, "the scheme in scope (parameter / receiver field)", describeScheme(c, v, g, isG))
				} else {
					ok := isG && g == "ColorScheme16"
					c.Check(RC, fmt.Sprintf("%s/scheme#%d", name, k), instrPos(ins), ok, "barcode.ColorScheme16", describeScheme(c, v, g, isG))
				}
			}
		})
		// K1d
		eachInstr(fn, func(b *ssa.BasicBlock, ins ssa.Instruction) {
			a, ok := ins.(*ssa.Alloc)
			if !ok {
				return
			}
			fi := colorFieldIndex(a.Type())
			if fi < 0 {
				return
			}
			if _, isStruct := a.Type().Underlying().(*types.Pointer).Elem().Underlying().(*types.Struct); !isStruct {
				return
			}
			stored := false
			whole := false
			for _, r := range *a.Referrers() {
				if fa, ok := r.(*ssa.FieldAddr); ok && fa.Field == fi {
					for _, r2 := range *fa.Referrers() {
						if st, ok := r2.(*ssa.Store); ok && st.Addr == fa {
							stored = true
						}
					}
				}
				if st, ok := r.(*ssa.Store); ok && st.Addr == a {
					whole = true // copy of a complete struct value
				}
			}
			c.Check(RD, fmt.Sprintf("%s/alloc:%s", name, namedTypeName(a.Type())), a.Pos(), stored || whole, "colour field stored", fmt.Sprintf("stored=%v whole-copy=%v", stored, whole))
		})
	}
	var dn []string
	for f := range defaults {
		dn = append(dn, c.P.FuncName(f))
	}
	sort.Strings(dn)
	c.Notes = append(c.Notes, fmt.Sprintf("default-colour functions (computed): %v", dn))
}

func describeScheme(c *Ctx, v ssa.Value, g string, isG bool) string {
	if isG {
		return "package-level barcode." + g
	}
	n := NewNormer(c.P)
	return n.Norm(v).asAtom()
}

func init() {
	canaryImports["aztec"] = `import "github.com/boombuler/barcode"`
	canaries = append(canaries, canary{Pkg: "aztec", Rule: "K1a-COLOR-PARAM", Src: `
type zzVerifImg struct {
	size  int
	color barcode.ColorScheme
}

func zzVerifCanaryColor(size int, color barcode.ColorScheme) *zzVerifImg {
	return &zzVerifImg{size, barcode.ColorScheme16}
}`})
	canaryExpect["K1a-COLOR-PARAM"] = []string{"zzVerifCanaryColor"}
	canaryExpect["K1b-COLOR-DEFAULT-IN-SCOPE"] = []string{"zzVerifCanaryColor"}
}
