package main

import (
	"fmt"
	"go/token"
	"go/types"
	"sort"
	"strings"

	"golang.org/x/tools/go/ssa"
)

// appendSites: append(base, elems...) calls of fn with their element values.
type appendSite struct {
	call  *ssa.Call
	elems []ssa.Value
}

func appendSites(fn *ssa.Function) []appendSite {
	var out []appendSite
	eachInstr(fn, func(b *ssa.BasicBlock, ins ssa.Instruction) {
		call, ok := ins.(*ssa.Call)
		if !ok {
			return
		}
		if bi, ok := call.Common().Value.(*ssa.Builtin); !ok || bi.Name() != "append" || len(call.Common().Args) != 2 {
			return
		}
		el := variadicElems(call.Common().Args[1])
		if el == nil {
			return
		}
		var keys []int
		for k := range el {
			keys = append(keys, k)
		}
		sort.Ints(keys)
		s := appendSite{call: call}
		for _, k := range keys {
			s.elems = append(s.elems, el[k])
		}
		out = append(out, s)
	})
	return out
}

// dmLibrarySearch: the size search written as idx := slices.IndexFunc(codeSizes, func(s) bool {...})
// in EncodeWithColor or an unexported helper. Returns the value that is the chosen size in
// EncodeWithColor.
func dmLibrarySearch(c *Ctx, R8 string, fn *ssa.Function, n *Normer) (ssa.Value, bool) {
	var site *DeepSite
	c.P.deepEach(fn, 2, func(s DeepSite) {
		call, ok := s.Ins.(*ssa.Call)
		if !ok || site != nil || call.Common().StaticCallee() == nil || len(call.Common().Args) != 2 {
			return
		}
		o := call.Common().StaticCallee().Origin()
		if o == nil || o.Pkg == nil || o.Pkg.Pkg.Path() != "slices" || o.Name() != "IndexFunc" {
			return
		}
		if NewNormer(c.P).Norm(call.Common().Args[0]).asAtom() != "global:datamatrix.codeSizes" {
			return
		}
		cp := s
		site = &cp
	})
	if site == nil {
		return nil, false
	}
	call := site.Ins.(*ssa.Call)
	F := site.Fn
	c.Fn(c.P.FuncName(F))
	c.Check(R8, "datamatrix.EncodeWithColor/ascending", call.Pos(), true, "rows visited in table order from index 0 (slices.IndexFunc)", "true")
	pv := call.Common().Args[1]
	if ct, ok := pv.(*ssa.ChangeType); ok {
		pv = ct.X
	}
	mc, ok := pv.(*ssa.MakeClosure)
	if !ok || len(mc.Fn.(*ssa.Function).Params) != 1 {
		c.Undecided(R8, "datamatrix.EncodeWithColor/first-fit-guard", call.Pos(), "the predicate is not a function literal of one row")
		return nil, true
	}
	pred := mc.Fn.(*ssa.Function)
	c.Fn(c.P.FuncName(pred))
	saved := n.Ctx
	n.Ctx = site.Path
	n.Bind[pred.Params[0]] = "s"
	guard := cFalse
	for _, ret := range returnsOf(pred) {
		guard = cOr(guard, cAnd(n.ReachCond(pred, nil, ret.Block()), n.CondOf(ret.Results[0])))
	}
	n.Ctx = saved
	want := cmpCond(token.GEQ, pAtom("call:datamatrix.(*dmCodeSize).DataCodewords(s)"), MustRef("len(data)"))
	c.expectCondC(R8, "datamatrix.EncodeWithColor/first-fit-guard", pred.Pos(), guard, want)
	// what becomes of the index: codeSizes[idx] when it is >= 0, nil otherwise
	hn := NewNormer(c.P)
	hn.Bind[call] = "idx"
	found, none := cFalse, cFalse
	okVals := true
	for _, ret := range returnsOf(F) {
		if F == fn {
			break
		}
		rc := hn.ReachCond(F, nil, ret.Block())
		switch v := hn.Norm(ret.Results[0]).String(); {
		case isNilConst(ret.Results[0]):
			none = cOr(none, rc)
		case canonAccess(v) == "global:datamatrix.codeSizes[idx]":
			found = cOr(found, rc)
		default:
			okVals = false
		}
	}
	if F == fn {
		c.Undecided(R8, "datamatrix.EncodeWithColor/first-match", call.Pos(), "library search used directly in EncodeWithColor")
		return nil, true
	}
	e1, _ := CondEquivalent(found, MustRefCond("idx >= 0"))
	e2, _ := CondEquivalent(none, MustRefCond("idx < 0"))
	c.Check(R8, "datamatrix.EncodeWithColor/first-match", call.Pos(), okVals && e1 && e2, "codeSizes[idx] when a row fits (idx >= 0)", fmt.Sprintf("row when %s, nil when %s", found, none))
	c.Check(R8, "datamatrix.EncodeWithColor/none-fits", F.Pos(), e2, "nil when no size fits", none.String())
	if len(site.Path) > 0 {
		if v, ok := site.Path[0].(ssa.Value); ok {
			return v, true
		}
	}
	return nil, true
}

func ruleDataMatrixEncoder(c *Ctx) {
	const R5 = "D5-DM-ENCODATION"
	c.Doc(R5, "datamatrix.encodeText (ASCII encodation): a digit pair d1 d2 becomes 130 + 10*d1 + d2 exactly when both bytes are digits and the second exists; a byte > 127 becomes (235, byte-127); any other byte becomes byte+1; the index advances by 2 / 1. addPadding: first pad 129 iff data shorter than capacity, then 129 + (149*pos mod 253 + 1), minus 254 iff above 254, with pos = current length + 1")
	c.Floor(R5, 12)
	if fn := c.theFunc(R5, "datamatrix.encodeText"); fn != nil {
		n := NewNormer(c.P)
		n.BindParams(fn, "content")
		var in ssa.Value
		eachInstr(fn, func(b *ssa.BasicBlock, ins ssa.Instruction) {
			if cv, ok := ins.(*ssa.Convert); ok && cv.X == ssa.Value(fn.Params[0]) {
				in = cv
			}
		})
		var hdr *ssa.BasicBlock
		var iphi *ssa.Phi
		for _, b := range fn.Blocks {
			for _, ins := range b.Instrs {
				if p, ok := ins.(*ssa.Phi); ok && isIntType(p.Type()) && len(b.Succs) == 2 {
					hdr, iphi = b, p
				}
			}
		}
		if in == nil {
			// the bytes are read from the string itself
			delete(n.Bind, fn.Params[0])
			in = fn.Params[0]
		}
		if in == nil || hdr == nil {
			c.Undecided(R5, "datamatrix.encodeText/shape", fn.Pos(), "input byte slice or scanning loop not found")
		} else {
			n.Bind[in] = "in"
			n.Bind[iphi] = "i"
			body := hdr.Succs[0]
			c.expectCond(R5, "datamatrix.encodeText/while", iphi.Pos(), n.EdgeCond(hdr, body), "i < len(in)")
			pairC := "in[i] >= 48 && in[i] <= 57 && i + 1 < len(in) && in[i+1] >= 48 && in[i+1] <= 57"
			kinds := map[string]bool{}
			for _, s := range appendSites(fn) {
				cond := n.ReachCond(fn, body, s.call.Block())
				// the i value carried back from this site
				var inext ssa.Value
				for ei, p := range hdr.Preds {
					if p == s.call.Block() {
						inext = iphi.Edges[ei]
					}
				}
				switch len(s.elems) {
				case 1:
					v := n.Norm(s.elems[0])
					if pEqual(v, MustRef("in[i] + 1")) {
						kinds["ascii"] = true
						c.expectCond(R5, "datamatrix.encodeText/ascii-iff", s.call.Pos(), cond, "!("+pairC+") && in[i] <= 127")
						if inext != nil {
							c.expectPoly(R5, "datamatrix.encodeText/ascii-advance", s.call.Pos(), n, inext, "i + 1")
						}
					} else {
						kinds["pair"] = true
						c.expectPoly(R5, "datamatrix.encodeText/pair-value", s.call.Pos(), n, s.elems[0], "(in[i] - 48)*10 + (in[i+1] - 48) + 130")
						c.expectCond(R5, "datamatrix.encodeText/pair-iff", s.call.Pos(), cond, pairC)
						if inext != nil {
							c.expectPoly(R5, "datamatrix.encodeText/pair-advance", s.call.Pos(), n, inext, "i + 2")
						}
					}
				case 2:
					kinds["upper"] = true
					c.expectPoly(R5, "datamatrix.encodeText/upper-shift-code", s.call.Pos(), n, s.elems[0], "235")
					c.expectPoly(R5, "datamatrix.encodeText/upper-shift-value", s.call.Pos(), n, s.elems[1], "in[i] - 127")
					c.expectCond(R5, "datamatrix.encodeText/upper-shift-iff", s.call.Pos(), cond, "!("+pairC+") && in[i] > 127")
					if inext != nil {
						c.expectPoly(R5, "datamatrix.encodeText/upper-advance", s.call.Pos(), n, inext, "i + 1")
					}
				}
			}
			c.Check(R5, "datamatrix.encodeText/cases", fn.Pos(), len(kinds) == 3, "digit pair, upper shift and plain ASCII cases", fmt.Sprint(kinds))
			for ei, p := range hdr.Preds {
				if !hdr.Dominates(p) {
					c.expectPoly(R5, "datamatrix.encodeText/start", iphi.Pos(), n, iphi.Edges[ei], "0")
				}
			}
		}
	}
	if fn := c.theFunc(R5, "datamatrix.addPadding"); fn != nil && len(fn.Params) == 2 {
		n := NewNormer(c.P)
		n.BindParams(fn, "data", "cap")
		var hdr *ssa.BasicBlock
		var dphi *ssa.Phi
		for _, b := range fn.Blocks {
			for _, ins := range b.Instrs {
				if p, ok := ins.(*ssa.Phi); ok && len(b.Succs) == 2 && !isIntType(p.Type()) {
					hdr, dphi = b, p
				}
			}
		}
		var mkPad *ssa.MakeSlice
		eachInstr(fn, func(b *ssa.BasicBlock, ins ssa.Instruction) {
			if m, ok := ins.(*ssa.MakeSlice); ok {
				mkPad = m
			}
		})
		if hdr == nil && mkPad != nil {
			// the padded slice is allocated at its final size and filled by position
			c.expectPoly(R5, "datamatrix.addPadding/result-len", mkPad.Pos(), n, mkPad.Len, "cap")
			c.expectCond(R5, "datamatrix.addPadding/first-pad-iff", mkPad.Pos(), n.ReachCond(fn, nil, mkPad.Block()), "len(data) < cap")
			copied := false
			for _, r := range *mkPad.Referrers() {
				if call, ok := r.(*ssa.Call); ok {
					if bi, ok := call.Common().Value.(*ssa.Builtin); ok && bi.Name() == "copy" && call.Common().Args[0] == ssa.Value(mkPad) && n.Norm(call.Common().Args[1]).String() == "data" {
						copied = true
						// copy returns min(len(dst), len(src)) = len(data) here (len(data) < cap on this path)
						n.AtomAlias[n.Norm(call).asAtom()] = "len(data)"
						n.Bind[call] = "len(data)"
					}
				}
			}
			c.Check(R5, "datamatrix.addPadding/copy", mkPad.Pos(), copied, "the data codewords are copied to the front", fmt.Sprint(copied))
			nLoop, nFirst := 0, 0
			eachInstr(fn, func(b *ssa.BasicBlock, ins ssa.Instruction) {
				st, ok := ins.(*ssa.Store)
				if !ok {
					return
				}
				ia, ok := st.Addr.(*ssa.IndexAddr)
				if !ok || ia.X != ssa.Value(mkPad) {
					return
				}
				h := enclosingLoopHeader(b)
				if h == nil {
					nFirst++
					c.expectPoly(R5, "datamatrix.addPadding/first-pad-pos", st.Pos(), n, ia.Index, "len(data)")
					c.expectPoly(R5, "datamatrix.addPadding/first-pad", st.Pos(), n, st.Val, "129")
					return
				}
				nLoop++
				first, step, while, okR := reindexLoop(n, h, ia.Index)
				if !okR {
					c.Undecided(R5, "datamatrix.addPadding/loop", st.Pos(), "pad position is not an affine function of the loop variable")
					return
				}
				c.Check(R5, "datamatrix.addPadding/loop-start", st.Pos(), pEqual(first, MustRef("len(data) + 1")) && pEqual(step, pConst(1)), "positions len(data)+1, len(data)+2, ...", fmt.Sprintf("first %s step %s", first, step))
				c.expectCondC(R5, "datamatrix.addPadding/while", st.Pos(), while, MustRefCond("q < cap"))
				v := st.Val
				if cv, ok := v.(*ssa.Convert); ok {
					v = cv.X
				}
				n.StripNarrow = "uint8"
				checkCases(c, R5, "datamatrix.addPadding/value", st.Pos(), n.valueCases(fn, h.Succs[0], v, 0), []edgeSpec{
					{"129 + (149*(q+1))%253 + 1", "129 + (149*(q+1))%253 + 1 <= 254"},
					{"129 + (149*(q+1))%253 + 1 - 254", "129 + (149*(q+1))%253 + 1 > 254"}})
				n.env = n.env[:len(n.env)-1]
			})
			c.Check(R5, "datamatrix.addPadding/pads", fn.Pos(), nLoop == 1 && nFirst == 1, "first pad and the randomised pads", fmt.Sprintf("%d/%d", nFirst, nLoop))
		} else if hdr == nil {
			c.Undecided(R5, "datamatrix.addPadding/loop", fn.Pos(), "padding loop not found")
		} else {
			for _, s := range appendSites(fn) {
				if hdr.Dominates(s.call.Block()) {
					n.Bind[dphi] = "cur"
					// a position counter that runs beside the growing slice (one append per iteration):
					// pos = len(cur) + k with k fixed where the loop is entered
					posEnv := map[ssa.Value]Poly{}
					for _, ins := range hdr.Instrs {
						pp, isPhi := ins.(*ssa.Phi)
						if !isPhi {
							break
						}
						if pp == dphi || !isIntType(pp.Type()) {
							continue
						}
						var entry ssa.Value
						stepOne := true
						var curEntry ssa.Value
						for ei, e := range pp.Edges {
							if hdr.Dominates(hdr.Preds[ei]) {
								bo, isBo := e.(*ssa.BinOp)
								if !isBo || bo.Op != token.ADD || bo.X != ssa.Value(pp) {
									stepOne = false
								} else if k, isK := constInt(bo.Y); !isK || k != 1 {
									stepOne = false
								}
							} else {
								entry = e
								curEntry = dphi.Edges[ei]
							}
						}
						if entry == nil || curEntry == nil || !stepOne {
							continue
						}
						delete(n.Bind, dphi)
						kPoly := pAdd(lenAwareNorm(n, entry, 0), lenOfAppended(n, curEntry), -1)
						n.Bind[dphi] = "cur"
						if k, isK := kPoly.IsConst(); isK {
							posEnv[pp] = pAdd(pAtom("len(cur)"), pConst(k), 1)
						}
					}
					n.env = append(n.env, posEnv)
					defer func() { n.env = n.env[:len(n.env)-1] }()
					c.expectCond(R5, "datamatrix.addPadding/while", s.call.Pos(), n.LoopCond(hdr), "len(cur) < cap")
					v := s.elems[0]
					if cv, ok := v.(*ssa.Convert); ok {
						v = cv.X
					}
					// the two-way (wrap / no wrap) choice, computed in place or by a helper
					n.StripNarrow = "uint8"
					checkCases(c, R5, "datamatrix.addPadding/value", s.call.Pos(), n.valueCases(fn, hdr.Succs[0], v, 0), []edgeSpec{
						{"129 + (149*(len(cur)+1))%253 + 1", "129 + (149*(len(cur)+1))%253 + 1 <= 254"},
						{"129 + (149*(len(cur)+1))%253 + 1 - 254", "129 + (149*(len(cur)+1))%253 + 1 > 254"}})
					delete(n.Bind, dphi)
				} else {
					c.expectPoly(R5, "datamatrix.addPadding/first-pad", s.call.Pos(), n, s.elems[0], "129")
					c.expectCond(R5, "datamatrix.addPadding/first-pad-iff", s.call.Pos(), n.ReachCond(fn, nil, s.call.Block()), "len(data) < cap")
				}
			}
		}
	}

	const R8 = "D8-DM-SIZE-SELECTION"
	c.Doc(R8, "datamatrix.EncodeWithColor: the size is the FIRST row of codeSizes (ascending) with DataCodewords() >= number of encoded codewords; error iff none; the data is padded to that size's capacity, ECC is computed for that size and rendered with it and the caller's colour; Content is the input string")
	c.Floor(R8, 6)
	if fn := c.theFunc(R8, "datamatrix.EncodeWithColor"); fn != nil {
		n := NewNormer(c.P)
		n.NoInline["datamatrix.(*dmCodeSize).DataCodewords"] = true
		n.BindParams(fn, "content", "color")
		bindCalls(n, c.P, fn, map[string]string{"datamatrix.encodeText": "data"}, nil)
		// the search loop: wherever (in EncodeWithColor or an unexported helper) a row of codeSizes is
		// compared through DataCodewords
		var loopSite *DeepSite
		var row ssa.Value
		c.P.deepEach(fn, 2, func(s DeepSite) {
			call, ok := s.Ins.(*ssa.Call)
			if !ok || calleeOf(call) == nil || c.P.FuncName(calleeOf(call)) != "datamatrix.(*dmCodeSize).DataCodewords" {
				return
			}
			src := NewNormer(c.P).Norm(call.Common().Args[0]).asAtom()
			if strings.HasPrefix(src, "global:datamatrix.codeSizes[") {
				cp := s
				loopSite, row = &cp, call.Common().Args[0]
			}
		})
		var size ssa.Value
		haveSearch := false
		if loopSite == nil {
			// the search handed to the library: slices.IndexFunc(codeSizes, fits) yields the index of the
			// FIRST row that fits (or -1) by definition; what is left to check is the predicate and what is
			// done with the index
			size, haveSearch = dmLibrarySearch(c, R8, fn, n)
			if !haveSearch {
				c.Check(R8, "datamatrix.EncodeWithColor/search", fn.Pos(), false, "a search over codeSizes comparing DataCodewords()", "not found")
			}
		} else {
			haveSearch = true
			F := loopSite.Fn
			c.Fn(c.P.FuncName(F))
			// ascending from index 0
			asc := false
			if ld, ok := row.(*ssa.UnOp); ok {
				if ia, ok := ld.X.(*ssa.IndexAddr); ok {
					for _, blk := range F.Blocks {
						if idx, _, init, ok := loopIndex(blk); ok && idx == ia.Index && init == 0 {
							asc = true
						}
					}
				}
			}
			c.Check(R8, "datamatrix.EncodeWithColor/ascending", row.Pos(), asc, "rows visited in table order from index 0", fmt.Sprint(asc))
			n.Bind[row] = "s"
			body := loopSite.Ins.Block()
			iff, ok := body.Instrs[len(body.Instrs)-1].(*ssa.If)
			if !ok {
				c.Undecided(R8, "datamatrix.EncodeWithColor/first-fit-guard", loopSite.Ins.Pos(), "capacity comparison does not end the loop body block")
			} else {
				saved := n.Ctx
				n.Ctx = loopSite.Path
				guard := n.CondOf(iff.Cond)
				n.Ctx = saved
				want := cmpCond(token.GEQ, pAtom("call:datamatrix.(*dmCodeSize).DataCodewords(s)"), MustRef("len(data)"))
				c.expectCondC(R8, "datamatrix.EncodeWithColor/first-fit-guard", iff.Cond.Pos(), guard, want)
				// first match: the true edge leaves the loop with this row selected
				exit := body.Succs[0]
				var hdr *ssa.BasicBlock
				for d := body; d != nil; d = d.Idom() {
					if _, _, _, ok := loopIndex(d); ok {
						hdr = d
						break
					}
				}
				leaves := hdr != nil && !reachableWithin(hdr, exit, body)
				selected := false
				// (the row may be read a second time: the same table entry at the same loop position)
				rowForm := NewNormer(c.P).Norm(row).String()
				sameRow := func(v ssa.Value) bool {
					return v == row || (strings.HasPrefix(rowForm, "global:datamatrix.codeSizes[") && NewNormer(c.P).Norm(v).String() == rowForm)
				}
				for cur, steps := exit, 0; cur != nil && steps < 3; steps++ {
					for _, ins := range cur.Instrs {
						switch x := ins.(type) {
						case *ssa.Phi:
							for ei, e := range x.Edges {
								if sameRow(e) && (cur.Preds[ei] == body || cur.Preds[ei] == exit) {
									selected = true
								}
							}
						case *ssa.Return:
							if len(x.Results) > 0 && sameRow(x.Results[0]) {
								selected = true
							}
						}
					}
					if len(cur.Succs) == 1 {
						cur = cur.Succs[0]
					} else {
						cur = nil
					}
				}
				c.Check(R8, "datamatrix.EncodeWithColor/first-match", iff.Pos(), leaves && selected, "loop left at the first fitting row, which becomes the size", fmt.Sprintf("leaves=%v selected=%v", leaves, selected))
			}
			// the size value in EncodeWithColor
			if F == fn {
				eachInstr(fn, func(b *ssa.BasicBlock, ins ssa.Instruction) {
					if p, ok := ins.(*ssa.Phi); ok && namedTypeName(p.Type()) == "datamatrix.dmCodeSize" {
						size = p
					}
				})
			} else if len(loopSite.Path) > 0 {
				if v, ok := loopSite.Path[0].(ssa.Value); ok {
					size = v
					if _, isTuple := v.Type().(*types.Tuple); isTuple {
						// the helper hands out the size together with its capacity: the size is the *dmCodeSize
						// result; an int result that is DataCodewords() of the returned row on every return where a
						// row is returned stands for size.DataCodewords()
						size = nil
						for _, r := range *v.Referrers() {
							ex, isEx := r.(*ssa.Extract)
							if !isEx {
								continue
							}
							if namedTypeName(ex.Type()) == "datamatrix.dmCodeSize" {
								size = ex
								continue
							}
							capOK := isIntType(ex.Type())
							for _, ret := range returnsOf(F) {
								if isNilConst(ret.Results[0]) {
									continue
								}
								hn := NewNormer(c.P)
								hn.NoInline["datamatrix.(*dmCodeSize).DataCodewords"] = true
								hn.Bind[ret.Results[0]] = "row"
								if hn.Norm(ret.Results[ex.Index]).String() != "call:datamatrix.(*dmCodeSize).DataCodewords(row)" {
									capOK = false
								}
							}
							if capOK {
								n.Bind[ex] = "call:datamatrix.(*dmCodeSize).DataCodewords(size)"
							}
						}
					}
				}
				// the helper returns nil when nothing fits
				nilRet := false
				for _, ret := range returnsOf(F) {
					if isNilConst(ret.Results[0]) {
						nilRet = true
					}
				}
				c.Check(R8, "datamatrix.EncodeWithColor/none-fits", F.Pos(), nilRet, "nil when no size fits", fmt.Sprint(nilRet))
			}
		}
		if haveSearch {
			if size == nil {
				c.Undecided(R8, "datamatrix.EncodeWithColor/size", fn.Pos(), "selected size not found in EncodeWithColor")
			} else {
				n.Bind[size] = "size"
				tooMuch := cFalse
				for _, ret := range returnsOf(fn) {
					if !isNilConst(ret.Results[0]) {
						continue
					}
					rc := n.ReachCond(fn, nil, ret.Block())
					cv := &condVars{bases: map[string]map[int64]bool{}, bools: map[string]bool{}}
					collect(rc, cv)
					if _, ok := cv.bools["Eq(nil,size)"]; ok {
						pos, _, _ := CondRelation(rc, &Cond{Kind: CBool, Name: "Eq(nil,size)"})
						if pos {
							tooMuch = cOr(tooMuch, &Cond{Kind: CBool, Name: "Eq(nil,size)"})
						}
					}
				}
				c.expectCondC(R8, "datamatrix.EncodeWithColor/too-much-iff", fn.Pos(), tooMuch, &Cond{Kind: CBool, Name: "Eq(nil,size)"})
				check := func(callee string, want []string) {
					t := c.P.Func(callee)
					calls := callsTo(fn, t)
					if t == nil || len(calls) != 1 {
						c.Check(R8, "datamatrix.EncodeWithColor/"+callee, fn.Pos(), false, "one call", fmt.Sprint(len(calls)))
						return
					}
					var got []string
					for _, a := range calls[0].Common().Args {
						got = append(got, n.Norm(a).String())
					}
					c.Check(R8, "datamatrix.EncodeWithColor/"+callee+"-args", calls[0].Pos(), fmt.Sprint(got) == fmt.Sprint(want), fmt.Sprint(want), fmt.Sprint(got))
					n.Bind[calls[0]] = map[string]string{"datamatrix.addPadding": "padded", "datamatrix.(*errorCorrection).calcECC": "full"}[callee]
				}
				// the codewords that are placed: data padded to the capacity of the chosen size, followed by
				// the check words computed for that size - wherever in the pipeline the two steps are called
				_ = check
				sv := c.P.Func("datamatrix.(*codeLayout).SetValues")
				svSites := c.P.deepCallsTo(fn, sv)
				if sv == nil || len(svSites) != 1 {
					c.Check(R8, "datamatrix.EncodeWithColor/pipeline", fn.Pos(), false, "one SetValues call on the encoding path", fmt.Sprint(len(svSites)))
				} else {
					call := svSites[0].Ins.(*ssa.Call)
					n.NoInline["datamatrix.(*dmCodeSize).DataCodewords"] = true
					got := n.NormAt(svSites[0], call.Common().Args[len(call.Common().Args)-1]).String()
					want := "call:datamatrix.(*errorCorrection).calcECC(global:datamatrix.ec,call:datamatrix.addPadding(data,call:datamatrix.(*dmCodeSize).DataCodewords(size)),size)"
					c.Check(R8, "datamatrix.EncodeWithColor/placed-codewords", call.Pos(), got == want, "calcECC(addPadding(data, size.DataCodewords()), size)", got)
					// and they are placed into a layout of that same size
					recv := call.Common().Args[0]
					if lc, ok := strip(recv).(*ssa.Call); ok && calleeOf(lc) != nil {
						saved := n.Ctx
						n.Ctx = svSites[0].Path
						flat := flatNorms(n, lc.Common().Args)
						n.Ctx = saved
						hasSize := false
						for _, f := range flat {
							if f == "size" {
								hasSize = true
							}
						}
						c.Check(R8, "datamatrix.EncodeWithColor/layout-size", lc.Pos(), hasSize, "the layout is created for the chosen size", fmt.Sprint(flat))
					} else {
						c.Undecided(R8, "datamatrix.EncodeWithColor/layout-size", call.Pos(), "layout is not created by a constructor call")
					}
				}
			}
		}
	}

	const R7 = "D7-DM-BLOCKS"
	c.Doc(R7, "datamatrix calcECC: per block b a fresh buffer of DataCodewordsForBlock(b) entries (allocated inside the block loop) takes data[b], data[b+BlockCount], ...; Encode gets ErrorCorrectionCodewordsPerBlock(); check words go to data[len+b], data[len+b+BlockCount], ...; derived size quantities (regions, mapping matrix, capacities, 144x144 special case)")
	c.Floor(R7, 14)
	if fn := c.theFunc(R7, "datamatrix.(*errorCorrection).calcECC"); fn != nil && len(fn.Params) == 3 {
		n := NewNormer(c.P)
		n.MaxInline = 0
		n.BindParams(fn, "ec", "data", "size")
		enc := callsTo(fn, c.P.Func("utils.(*ReedSolomonEncoder).Encode"))
		if len(enc) != 1 {
			c.Check(R7, "datamatrix.calcECC/encode", fn.Pos(), false, "one Encode call per block", fmt.Sprint(len(enc)))
		} else {
			call := enc[0]
			// the block loop
			var bh *ssa.BasicBlock
			var bphi ssa.Value // the block index inside the body (classic or range form)
			for d := call.Block(); d != nil; d = d.Idom() {
				if idx, _, init, ok := loopIndex(d); ok && init == 0 {
					bh, bphi = d, idx
				}
			}
			if bh == nil {
				c.Undecided(R7, "datamatrix.calcECC/block-loop", call.Pos(), "block loop not found")
			} else {
				n.Bind[bphi] = "b"
				c.expectCond(R7, "datamatrix.calcECC/block-loop", bphi.Pos(), n.LoopCond(bh), "b < size.BlockCount")
				mk, ok := call.Common().Args[1].(*ssa.MakeSlice)
				fresh := ok && inLoopBody(bh, mk.Block())
				// the block's codewords may be collected by a helper that makes and fills the buffer
				var gatherFn *ssa.Function
				var gatherCtx []ssa.CallInstruction
				if hc, isCall := call.Common().Args[1].(*ssa.Call); isCall && !ok {
					if g := calleeOf(hc); g != nil && isRepoFunc(g) && g.Blocks != nil && len(returnsOf(g)) == 1 {
						if m2, isMk := returnsOf(g)[0].Results[0].(*ssa.MakeSlice); isMk {
							mk, ok = m2, true
							fresh = inLoopBody(bh, hc.Block())
							gatherFn, gatherCtx = g, []ssa.CallInstruction{hc}
							c.Fn(c.P.FuncName(g))
						}
					}
				}
				c.Check(R7, "datamatrix.calcECC/buffer-fresh-per-block", call.Pos(), fresh, "buffer made inside the block loop", fmt.Sprintf("%v", fresh))
				if ok {
					n.Ctx = gatherCtx
					got := n.Norm(mk.Len).String()
					n.Ctx = nil
					c.Check(R7, "datamatrix.calcECC/buffer-len", mk.Pos(), got == "call:datamatrix.(*dmCodeSize).DataCodewordsForBlock(size,b)", "DataCodewordsForBlock(block)", got)
				}
				got := n.Norm(call.Common().Args[2]).String()
				c.Check(R7, "datamatrix.calcECC/ecc-count", call.Pos(), got == "call:datamatrix.(*dmCodeSize).ErrorCorrectionCodewordsPerBlock(size)", "ErrorCorrectionCodewordsPerBlock()", got)
				// gather and scatter, as affine index maps in the iteration number t of their loop:
				//   buffer[t] = data[b + t*BlockCount]          while that source index is inside the data
				//   data[len + b + t*BlockCount] = ecc[t]        for every check word of the block
				inner := 0
				BC := "size.BlockCount"
				// the codeword slice: the parameter, or the parameter extended by room for the check words
				isData := func(s string) bool {
					// data itself, data extended by room for the check words, or the first len(data) entries of that
					return s == "data" || strings.HasPrefix(s, "append(data,") || (strings.HasPrefix(s, "slice(append(data,") && strings.HasSuffix(s, ",,len(data))"))
				}
				split := func(p Poly) (base, slope Poly) {
					base, slope = Poly{}, Poly{}
					for m, cf := range p {
						fs := splitMono(m)
						hasT := -1
						for i, f := range fs {
							if f == "t" {
								hasT = i
							}
						}
						if hasT < 0 {
							base[m] = cf
							continue
						}
						rest := append(append([]string{}, fs[:hasT]...), fs[hasT+1:]...)
						slope[strings.Join(rest, "*")] = cf
					}
					return
				}
				// dataTail: v is data[off:] (no upper bound) - the offset, else nil
				dataTail := func(v ssa.Value) Poly {
					sl, ok := v.(*ssa.Slice)
					if !ok || sl.Low == nil || sl.High != nil || sl.Max != nil || !isData(n.Norm(sl.X).String()) {
						return nil
					}
					return n.Norm(sl.Low)
				}
				scan := func(b2 *ssa.BasicBlock, ins ssa.Instruction) {
					st, ok := ins.(*ssa.Store)
					if !ok || (b2.Parent() == fn && !inLoopBody(bh, b2)) {
						return
					}
					dst, ok := st.Addr.(*ssa.IndexAddr)
					if !ok {
						return
					}
					h := enclosingLoopHeader(b2)
					if h == nil || h == bh {
						return
					}
					// source element
					var src *ssa.IndexAddr
					v := strip(st.Val)
					for d := 0; d < 3; d++ {
						if cv, ok := v.(*ssa.Convert); ok {
							v = cv.X
						}
					}
					if ld, ok := v.(*ssa.UnOp); ok {
						src, _ = ld.X.(*ssa.IndexAddr)
					}
					if src == nil {
						return
					}
					env := map[ssa.Value]Poly{}
					for _, lv := range loopShapes(n, h) {
						env[lv.idx] = pAdd(lv.init, pMul(pAtom("t"), lv.step), 1)
					}
					n.env = append(n.env, env)
					dBase, dSlope := split(n.Norm(dst.Index))
					sBase, sSlope := split(n.Norm(src.Index))
					cond := n.LoopCond(h)
					n.env = n.env[:len(n.env)-1]
					one := pConst(1)
					switch {
					case dst.X == ssa.Value(mk):
						inner++
						c.Check(R7, "datamatrix.calcECC/gather-dst", st.Pos(), pEqual(dBase, pConst(0)) && pEqual(dSlope, one), "buffer[t]", fmt.Sprintf("buffer[%s + t*(%s)]", dBase, dSlope))
						c.Check(R7, "datamatrix.calcECC/gather-src", st.Pos(), isData(n.Norm(src.X).String()) && pEqual(sBase, pAtom("b")) && pEqual(sSlope, pAtom(BC)), "data[b + t*BlockCount]", fmt.Sprintf("%s[%s + t*(%s)]", n.Norm(src.X), sBase, sSlope))
						eq1, _ := CondEquivalent(cond, MustRefCond("b + t*size.BlockCount < len(data)"))
						eq2, _ := CondEquivalent(cond, cmpCond(token.LSS, pAtom("t"), pAtom("call:datamatrix.(*dmCodeSize).DataCodewordsForBlock(size,b)")))
						c.Check(R7, "datamatrix.calcECC/gather-bound", st.Pos(), eq1 || eq2, "while b + t*BlockCount < len(data) (or t < buffer length)", cond.String())
					case isData(n.Norm(dst.X).String()) || dataTail(dst.X) != nil:
						inner++
						if off := dataTail(dst.X); off != nil {
							dBase = pAdd(dBase, off, 1) // a view of the codewords from `off` on
						}
						c.Check(R7, "datamatrix.calcECC/scatter-src", st.Pos(), pEqual(sBase, pConst(0)) && pEqual(sSlope, one) && src.X == ssa.Value(call), "ecc[t]", fmt.Sprintf("%s[%s + t*(%s)]", n.Norm(src.X), sBase, sSlope))
						c.Check(R7, "datamatrix.calcECC/scatter-dst", st.Pos(), pEqual(dBase, MustRef("len(data) + b")) && pEqual(dSlope, pAtom(BC)), "data[len + b + t*BlockCount]", fmt.Sprintf("data[%s + t*(%s)]", dBase, dSlope))
						ecc := "call:datamatrix.(*dmCodeSize).ErrorCorrectionCodewordsPerBlock(size)"
						w1 := cmpCond(token.LSS, pAdd(pAtom("b"), pMul(pAtom("t"), pAtom(BC)), 1), pMul(pAtom(ecc), pAtom(BC)))
						w2 := cmpCond(token.LSS, pAtom("t"), pAtom(ecc))
						nn := n.Norm(call).asAtom()
						w3 := cmpCond(token.LSS, pAtom("t"), pAtom("len("+nn+")"))
						eq1, _ := CondEquivalent(cond, w1)
						eq2, _ := CondEquivalent(cond, w2)
						eq3, _ := CondEquivalent(cond, w3)
						c.Check(R7, "datamatrix.calcECC/scatter-bound", st.Pos(), eq1 || eq2 || eq3, "for every check word of the block", cond.String())
					}
				}
				eachInstr(fn, scan)
				if gatherFn != nil {
					n.Ctx = gatherCtx
					eachInstr(gatherFn, scan)
					n.Ctx = nil
				}
				c.Check(R7, "datamatrix.calcECC/inner-loops", fn.Pos(), inner == 2, "gather and scatter loops", fmt.Sprint(inner))
			}
		}
	}
	// derived size quantities
	for _, pin := range []struct{ name, want string }{
		{"RegionRows", "(s.Rows - s.RegionCountVertical*2)/s.RegionCountVertical"},
		{"RegionColumns", "(s.Columns - s.RegionCountHorizontal*2)/s.RegionCountHorizontal"},
		{"MatrixRows", "RR*s.RegionCountVertical"},
		{"MatrixColumns", "RC*s.RegionCountHorizontal"},
		{"DataCodewords", "(MC*MR)/8 - s.ECCCount"},
		{"ErrorCorrectionCodewordsPerBlock", "s.ECCCount/s.BlockCount"},
	} {
		fn := c.theFunc(R7, "datamatrix.(*dmCodeSize)."+pin.name)
		if fn == nil {
			continue
		}
		n := NewNormer(c.P)
		n.MaxInline = 0
		n.BindParams(fn, "s")
		bindCalls(n, c.P, fn, map[string]string{"datamatrix.(*dmCodeSize).RegionRows": "RR", "datamatrix.(*dmCodeSize).RegionColumns": "RC", "datamatrix.(*dmCodeSize).MatrixRows": "MR", "datamatrix.(*dmCodeSize).MatrixColumns": "MC"}, nil)
		rets := returnsOf(fn)
		if len(rets) != 1 {
			c.Undecided(R7, "datamatrix.(*dmCodeSize)."+pin.name, fn.Pos(), "more than one return")
			continue
		}
		c.expectPoly(R7, "datamatrix.(*dmCodeSize)."+pin.name, rets[0].Pos(), n, rets[0].Results[0], pin.want)
	}
	if fn := c.theFunc(R7, "datamatrix.(*dmCodeSize).DataCodewordsForBlock"); fn != nil {
		n := NewNormer(c.P)
		n.NoInline["datamatrix.(*dmCodeSize).DataCodewords"] = true // (predicates such as "is the 144x144 symbol" are read through)
		n.BindParams(fn, "s", "idx")
		bindCalls(n, c.P, fn, map[string]string{"datamatrix.(*dmCodeSize).DataCodewords": "DC"}, nil)
		for _, ret := range returnsOf(fn) {
			rc := n.ReachCond(fn, nil, ret.Block())
			v := n.Norm(ret.Results[0])
			special := "s.Rows == 144 && s.Columns == 144"
			switch {
			case pEqual(v, MustRef("156")):
				c.expectCond(R7, "datamatrix.DataCodewordsForBlock/144-first", ret.Pos(), rc, special+" && idx < 8")
			case pEqual(v, MustRef("155")):
				c.expectCond(R7, "datamatrix.DataCodewordsForBlock/144-last", ret.Pos(), rc, special+" && idx >= 8")
			case pEqual(v, MustRef("DC/s.BlockCount")):
				c.expectCond(R7, "datamatrix.DataCodewordsForBlock/regular", ret.Pos(), rc, "!("+special+")")
			default:
				c.Check(R7, "datamatrix.DataCodewordsForBlock/value", ret.Pos(), false, "156 | 155 | DataCodewords/BlockCount", v.String())
			}
		}
	}

	const R3 = "D3-DM-PLACEMENT"
	c.Doc(R3, "datamatrix placement patterns (ISO 16022 Annex F): SetSimple is the 'utah' pattern, Corner1..4 the four corner patterns: (row, col, bit) triples as formulas in nrow/ncol; Set wraps negative rows/columns by (nrow, 4-((nrow+4)%8)) and mirror, and extracts bit 7-bitNum; SetValues triggers the corner cases under the standard conditions")
	c.Floor(R3, 46)
	iso := map[string][][2]string{
		"SetSimple": {{"row-2", "col-2"}, {"row-2", "col-1"}, {"row-1", "col-2"}, {"row-1", "col-1"}, {"row-1", "col"}, {"row", "col-2"}, {"row", "col-1"}, {"row", "col"}},
		"Corner1":   {{"nrow-1", "0"}, {"nrow-1", "1"}, {"nrow-1", "2"}, {"0", "ncol-2"}, {"0", "ncol-1"}, {"1", "ncol-1"}, {"2", "ncol-1"}, {"3", "ncol-1"}},
		"Corner2":   {{"nrow-3", "0"}, {"nrow-2", "0"}, {"nrow-1", "0"}, {"0", "ncol-4"}, {"0", "ncol-3"}, {"0", "ncol-2"}, {"0", "ncol-1"}, {"1", "ncol-1"}},
		"Corner3":   {{"nrow-3", "0"}, {"nrow-2", "0"}, {"nrow-1", "0"}, {"0", "ncol-2"}, {"0", "ncol-1"}, {"1", "ncol-1"}, {"2", "ncol-1"}, {"3", "ncol-1"}},
		"Corner4":   {{"nrow-1", "0"}, {"nrow-1", "ncol-1"}, {"0", "ncol-3"}, {"0", "ncol-2"}, {"0", "ncol-1"}, {"1", "ncol-3"}, {"1", "ncol-2"}, {"1", "ncol-1"}},
	}
	dims := map[string]string{"datamatrix.(*dmCodeSize).MatrixRows": "nrow", "datamatrix.(*dmCodeSize).MatrixColumns": "ncol"}
	aliasDims := func(n *Normer) {
		n.NoInline["datamatrix.(*dmCodeSize).MatrixRows"], n.NoInline["datamatrix.(*dmCodeSize).MatrixColumns"] = true, true
		n.AtomAlias["call:datamatrix.(*dmCodeSize).MatrixRows(l.size)"] = "nrow"
		n.AtomAlias["call:datamatrix.(*dmCodeSize).MatrixColumns(l.size)"] = "ncol"
	}
	setFn := c.P.Func("datamatrix.(*codeLayout).Set")
	for _, name := range []string{"SetSimple", "Corner1", "Corner2", "Corner3", "Corner4"} {
		fn := c.theFunc(R3, "datamatrix.(*codeLayout)."+name)
		if fn == nil || setFn == nil {
			continue
		}
		n := NewNormer(c.P)
		if name == "SetSimple" {
			n.BindParams(fn, "l", "row", "col", "value")
		} else {
			n.BindParams(fn, "l", "value")
		}
		bindCalls(n, c.P, fn, dims, nil)
		aliasDims(n)
		got := map[int64]string{}
		for _, call := range callsTo(fn, setFn) {
			a := call.Common().Args
			// a call inside a loop over a small offset table stands for one call per entry
			insts, okI := n.loopInstances(call.Block())
			if !okI {
				c.Undecided(R3, "datamatrix."+name+"/loop", call.Pos(), "module write inside a loop whose iterations cannot be enumerated")
				continue
			}
			savedFold := n.FoldTables
			n.FoldTables = true
			for _, env := range insts {
				n.env = append(n.env, env)
				bit, ok := n.Norm(a[4]).IsConst()
				if !ok || n.Norm(a[3]).String() != "value" || n.Norm(a[0]).String() != "l" {
					c.Check(R3, "datamatrix."+name+"/call", call.Pos(), false, "l.Set(r, c, value, <constant bit>)", call.String())
					n.env = n.env[:len(n.env)-1]
					continue
				}
				if _, dup := got[bit]; dup {
					c.Check(R3, fmt.Sprintf("datamatrix.%s/bit%d", name, bit), call.Pos(), false, "each bit placed once", "bit placed twice")
				}
				got[bit] = fmt.Sprintf("(%s, %s)", n.Norm(a[1]), n.Norm(a[2]))
				n.env = n.env[:len(n.env)-1]
			}
			n.FoldTables = savedFold
		}
		for bit, rc := range iso[name] {
			want := fmt.Sprintf("(%s, %s)", MustRef(rc[0]), MustRef(rc[1]))
			c.Check(R3, fmt.Sprintf("datamatrix.%s/bit%d", name, bit), fn.Pos(), got[int64(bit)] == want, want, got[int64(bit)])
		}
		if len(got) != 8 {
			c.Check(R3, "datamatrix."+name+"/count", fn.Pos(), false, "8 modules", fmt.Sprint(len(got)))
		}
	}
	if fn := c.theFunc(R3, "datamatrix.(*codeLayout).Set"); fn != nil && len(fn.Params) == 5 {
		n := NewNormer(c.P)
		n.NoInline["datamatrix.(*dmCodeSize).MatrixRows"], n.NoInline["datamatrix.(*dmCodeSize).MatrixColumns"] = true, true
		n.BindParams(fn, "l", "row", "col", "value", "bit")
		bindCalls(n, c.P, fn, dims, nil)
		aliasDims(n)
		// final (row, col) are the arguments of the Occupied call
		occ := callsTo(fn, c.P.Func("datamatrix.(*codeLayout).Occupied"))
		var a []ssa.Value
		if len(occ) == 1 {
			a = occ[0].Common().Args
		} else if len(occ) == 0 {
			// the occupancy test written out: occupy.GetBit(col + row*ncol) - row and column are the
			// two parts of that position
			for _, gb := range callsTo(fn, c.P.Func("utils.(*BitList).GetBit")) {
				add, ok := gb.Common().Args[1].(*ssa.BinOp)
				if !ok || add.Op != token.ADD {
					continue
				}
				for _, pair := range [][2]ssa.Value{{add.X, add.Y}, {add.Y, add.X}} {
					mul, isMul := pair[1].(*ssa.BinOp)
					if !isMul || mul.Op != token.MUL {
						continue
					}
					for _, mp := range [][2]ssa.Value{{mul.X, mul.Y}, {mul.Y, mul.X}} {
						if n.Norm(mp[1]).String() == "ncol" {
							a = []ssa.Value{gb.Common().Args[0], mp[0], pair[0]}
							occ = []*ssa.Call{gb}
						}
					}
				}
			}
		}
		if len(occ) != 1 || a == nil {
			c.Undecided(R3, "datamatrix.Set/occupied", fn.Pos(), "expected one Occupied(row, col) call")
		} else {
			F, ra, ca := fn, a[1], a[2]
			// the wrap may be computed by a loop-free helper returning (row, col): analyse it in the
			// context of this call
			if e1, ok := ra.(*ssa.Extract); ok {
				if e2, ok := ca.(*ssa.Extract); ok && e1.Tuple == e2.Tuple {
					if call, ok := e1.Tuple.(*ssa.Call); ok {
						if g := calleeOf(call); g != nil && pureLoopFreeAllowCalls(g) && len(returnsOf(g)) == 1 {
							ga := call.Common().Args
							names := make([]string, len(ga))
							for i, x := range ga {
								names[i] = n.Norm(x).String()
							}
							n.BindParams(g, names...)
							bindCalls(n, c.P, g, dims, nil)
							ret := returnsOf(g)[0]
							F, ra, ca = g, ret.Results[e1.Index], ret.Results[e2.Index]
							c.Fn(c.P.FuncName(g))
						}
					}
				}
			}
			rp, ok1 := ra.(*ssa.Phi)
			cp, ok2 := ca.(*ssa.Phi)
			if !ok1 || !ok2 {
				c.Undecided(R3, "datamatrix.Set/wrap", occ[0].Pos(), "wrapped row/col are not two-stage choices")
			} else {
				// stage 2 (col < 0): row phi rp = [r1, r1 + 4-((ncol+4)%8)], col phi cp = [c1, c1 + ncol]
				var r1, c1 *ssa.Phi
				for _, e := range rp.Edges {
					if p, ok := e.(*ssa.Phi); ok {
						r1 = p
					}
				}
				for _, e := range cp.Edges {
					if p, ok := e.(*ssa.Phi); ok {
						c1 = p
					}
				}
				if r1 == nil || c1 == nil {
					c.Undecided(R3, "datamatrix.Set/wrap", occ[0].Pos(), "first wrap stage not found")
				} else {
					checkPhiDef(c, R3, "datamatrix.Set/wrap-row-stage1", n, F, nil, r1, []edgeSpec{{"row", "row >= 0"}, {"row + nrow", "row < 0"}})
					checkPhiDef(c, R3, "datamatrix.Set/wrap-col-stage1", n, F, nil, c1, []edgeSpec{{"col", "row >= 0"}, {"col + 4 - (nrow+4)%8", "row < 0"}})
					n.Bind[r1], n.Bind[c1] = "r1", "c1"
					checkPhiDef(c, R3, "datamatrix.Set/wrap-row-stage2", n, F, r1.Block(), rp, []edgeSpec{{"r1", "c1 >= 0"}, {"r1 + 4 - (ncol+4)%8", "c1 < 0"}})
					checkPhiDef(c, R3, "datamatrix.Set/wrap-col-stage2", n, F, r1.Block(), cp, []edgeSpec{{"c1", "c1 >= 0"}, {"c1 + ncol", "c1 < 0"}})
				}
				n.Bind[rp], n.Bind[cp] = "R", "C"
				n.Bind[a[1]], n.Bind[a[2]] = "R", "C"
				k := 0
				for _, call := range callsTo(fn, c.P.Func("utils.(*BitList).SetBit")) {
					k++
					c.expectPoly(R3, fmt.Sprintf("datamatrix.Set/index#%d", k), call.Pos(), n, call.Common().Args[1], "C + R*ncol")
				}
				c.Check(R3, "datamatrix.Set/writes", fn.Pos(), k == 2, "occupy and matrix both written at col + row*ncol", fmt.Sprint(k))
			}
		}
		// bit extraction: the module written is bit (7 - bitNum) of the codeword, for each of the 8 bit
		// numbers (a test of one bit, in whichever form it is written)
		for _, call := range callsTo(fn, c.P.Func("utils.(*BitList).SetBit")) {
			val := call.Common().Args[2]
			if _, isK := val.(*ssa.Const); isK {
				continue // the occupancy mark
			}
			bitP := fn.Params[4]
			delete(n.Bind, bitP)
			bad := ""
			for k := int64(0); k < 8; k++ {
				n.env = append(n.env, map[ssa.Value]Poly{bitP: pConst(k)})
				cd := n.CondOf(val)
				n.env = n.env[:len(n.env)-1]
				src, bit, set, ok := singleBitTest(cd)
				if !ok || src != "value" || bit != 7-k || !set {
					bad += fmt.Sprintf("bitNum=%d: %s; ", k, cd)
				}
			}
			n.Bind[bitP] = "bit"
			c.Check(R3, "datamatrix.Set/bit-shift", call.Pos(), bad == "", "module = bit (7 - bitNum) of value", orOK(bad))
		}
	}
	if fn := c.theFunc(R3, "datamatrix.(*codeLayout).SetValues"); fn != nil {
		n := NewNormer(c.P)
		n.BindParams(fn, "l", "data")
		bindCalls(n, c.P, fn, dims, nil)
		aliasDims(n)
		// outer loop header: three phis with inits (0, 4, 0) = (idx, row, col)
		var hdr *ssa.BasicBlock
		var rowP, colP, idxP *ssa.Phi
		for _, b := range fn.Blocks {
			var phis []*ssa.Phi
			for _, ins := range b.Instrs {
				if p, ok := ins.(*ssa.Phi); ok {
					phis = append(phis, p)
				}
			}
			if (len(phis) == 3 || len(phis) == 2) && hdr == nil && len(b.Succs) == 2 {
				hdr = b
				for _, p := range phis {
					for ei, e := range p.Edges {
						if b.Dominates(b.Preds[ei]) {
							continue
						}
						if k, ok := constInt(e); ok && k == 4 {
							rowP = p
						} else if ok && k == 0 {
							if idxP == nil {
								idxP = p
							} else {
								colP = p
							}
						}
					}
				}
			}
		}
		if colP == nil && idxP != nil && hdr != nil {
			// the cursor is not loop-carried here (kept in a cell): the only zero-initialised phi is col
			nph := 0
			for _, ins := range hdr.Instrs {
				if _, ok := ins.(*ssa.Phi); ok {
					nph++
				}
			}
			if nph == 2 {
				colP, idxP = idxP, nil
			}
		}
		if hdr == nil || rowP == nil || colP == nil {
			c.Undecided(R3, "datamatrix.SetValues/loop", fn.Pos(), "placement loop state (idx=0,row=4,col=0) not found")
		} else {
			// idx and col both start at 0: col is the one compared with ncol in the loop test
			n.Bind[rowP] = "row"
			try := func(colPhi *ssa.Phi) bool {
				n.Bind[colPhi] = "col"
				defer delete(n.Bind, colPhi)
				eq, _ := CondEquivalent(cOr(n.LoopCond(hdr), cAnd(cNot(n.LoopCond(hdr)), n.ReachCond(fn, hdr.Succs[1], hdr.Succs[1]))), cTrue)
				_ = eq
				body := hdr.Succs[0]
				got := cOr(n.EdgeCond(hdr, body), cFalse)
				for _, p := range body.Preds {
					if p != hdr {
						got = cOr(got, cAnd(n.ReachCond(fn, hdr, p), n.EdgeCond(p, body)))
					}
				}
				ok, _ := CondEquivalent(got, MustRefCond("row < nrow || col < ncol"))
				return ok
			}
			if idxP != nil && !try(colP) && try(idxP) {
				colP, idxP = idxP, colP
			}
			n.Bind[colP] = "col"
			body := hdr.Succs[0]
			loopC := "(row < nrow || col < ncol)"
			reach := func(b *ssa.BasicBlock) *Cond { return n.ReachCond(fn, hdr, b) }
			_ = body
			conds := map[string]string{
				"Corner1": "row == nrow && col == 0",
				"Corner2": "row == nrow-2 && col == 0 && ncol%4 != 0",
				"Corner3": "row == nrow-2 && col == 0 && ncol%8 == 4",
				"Corner4": "row == nrow+4 && col == 2 && ncol%8 == 0",
			}
			for _, name := range []string{"Corner1", "Corner2", "Corner3", "Corner4"} {
				calls := callsTo(fn, c.P.Func("datamatrix.(*codeLayout)."+name))
				if len(calls) != 1 {
					c.Check(R3, "datamatrix.SetValues/"+name, fn.Pos(), false, "one call", fmt.Sprint(len(calls)))
					continue
				}
				c.expectCond(R3, "datamatrix.SetValues/"+name+"-iff", calls[0].Pos(), reach(calls[0].Block()), loopC+" && "+conds[name])
			}
			for ei, e := range rowP.Edges {
				if !hdr.Dominates(hdr.Preds[ei]) {
					c.expectPoly(R3, "datamatrix.SetValues/start-row", rowP.Pos(), n, e, "4")
				}
			}
		}
		// the codeword cursor: every placement takes data[cursor], advances the cursor by one in its
		// own block, and no second placement on the same path sees the same cursor value
		type placement struct {
			call   *ssa.Call
			cursor ssa.Value
		}
		var pls []placement
		plN := map[string]int{}
		eachInstr(fn, func(b *ssa.BasicBlock, ins ssa.Instruction) {
			call, ok := ins.(*ssa.Call)
			if !ok || calleeOf(call) == nil {
				return
			}
			switch calleeOf(call).Name() {
			case "Corner1", "Corner2", "Corner3", "Corner4", "SetSimple":
			default:
				return
			}
			args := call.Common().Args
			plN[calleeOf(call).Name()]++
			key := fmt.Sprintf("datamatrix.SetValues/codeword/%s#%d", calleeOf(call).Name(), plN[calleeOf(call).Name()])
			// a cursor closure: returns data[cursor] and advances the captured cursor by one
			if cc, isCall := args[len(args)-1].(*ssa.Call); isCall {
				if mc, isMC := cc.Common().Value.(*ssa.MakeClosure); isMC && isCursorClosure(mc, fn) {
					pls = append(pls, placement{call, cc}) // every call is its own cursor value
					c.Check(R3, key, call.Pos(), true, "takes the next codeword from a cursor that advances by one per call", "cursor closure")
					return
				}
			}
			ld, ok := args[len(args)-1].(*ssa.UnOp)
			var ia *ssa.IndexAddr
			if ok {
				ia, _ = ld.X.(*ssa.IndexAddr)
			}
			if ia == nil || ia.X != ssa.Value(fn.Params[1]) {
				c.Check(R3, key, call.Pos(), false, "places data[cursor]", n.Norm(args[len(args)-1]).String())
				return
			}
			pls = append(pls, placement{call, ia.Index})
			adv := 0
			other := ""
			for _, r := range *ia.Index.Referrers() {
				if bo, ok := r.(*ssa.BinOp); ok && bo.Block() == b && (bo.Op == token.ADD || bo.Op == token.SUB) && bo.X == ia.Index {
					if k, ok := constInt(bo.Y); ok && k == 1 && bo.Op == token.ADD {
						adv++
					} else {
						other = bo.String()
					}
				}
			}
			c.Check(R3, key, call.Pos(), adv == 1 && other == "", "cursor advanced by exactly one next to the placement", fmt.Sprintf("%d increments %s", adv, other))
		})
		for i, p1 := range pls {
			for j, p2 := range pls {
				if i == j || p1.cursor != p2.cursor {
					continue
				}
				var defBlk *ssa.BasicBlock
				if ins, ok := p1.cursor.(ssa.Instruction); ok {
					defBlk = ins.Block()
				}
				again := p1.call.Block() == p2.call.Block()
				if !again {
					seen := map[*ssa.BasicBlock]bool{}
					var walk func(b *ssa.BasicBlock)
					walk = func(b *ssa.BasicBlock) {
						if seen[b] || b == defBlk {
							return
						}
						seen[b] = true
						if b == p2.call.Block() {
							again = true
						}
						for _, s := range b.Succs {
							walk(s)
						}
					}
					for _, s := range p1.call.Block().Succs {
						walk(s)
					}
				}
				if again {
					c.Check(R3, fmt.Sprintf("datamatrix.SetValues/codeword-once/%s-%s", calleeOf(p1.call).Name(), calleeOf(p2.call).Name()), p2.call.Pos(), false, "each codeword is placed once", fmt.Sprintf("the placement at %s sees the same cursor value as the one at %s", c.P.Pos(p2.call.Pos()), c.P.Pos(p1.call.Pos())))
				}
			}
		}
		c.Check(R3, "datamatrix.SetValues/placements", fn.Pos(), len(pls) >= 6, "four corner placements and the two diagonal sweeps take codewords from the cursor", fmt.Sprint(len(pls)))
	}
}

// isCursorClosure: the closure reads the captured int cursor, returns data[cursor] (data: the
// enclosing function's slice parameter) and stores cursor+1 back - nothing else touches the cursor.
func isCursorClosure(mc *ssa.MakeClosure, parent *ssa.Function) bool {
	cl, ok := mc.Fn.(*ssa.Function)
	if !ok || len(cl.Blocks) != 1 || len(cl.Params) != 0 {
		return false
	}
	var cell ssa.Value // the captured cursor cell (a free variable holding *int)
	var loadIdx *ssa.UnOp
	var stores []*ssa.Store
	var ret *ssa.Return
	for _, ins := range cl.Blocks[0].Instrs {
		switch x := ins.(type) {
		case *ssa.Store:
			stores = append(stores, x)
		case *ssa.Return:
			ret = x
		}
	}
	if len(stores) != 1 || ret == nil || len(ret.Results) != 1 {
		return false
	}
	cell = stores[0].Addr
	if _, isFV := cell.(*ssa.FreeVar); !isFV {
		return false
	}
	add, ok := stores[0].Val.(*ssa.BinOp)
	if !ok || add.Op != token.ADD {
		return false
	}
	if k, isK := constInt(add.Y); !isK || k != 1 {
		return false
	}
	loadIdx, ok = add.X.(*ssa.UnOp)
	if !ok || loadIdx.X != cell {
		return false
	}
	// the returned value: data[loadIdx] with the load before the store
	rl, ok := ret.Results[0].(*ssa.UnOp)
	if !ok {
		return false
	}
	ia, ok := rl.X.(*ssa.IndexAddr)
	if !ok || !dominatesInstr(rl, stores[0]) {
		return false
	}
	if il, isLoad := ia.Index.(*ssa.UnOp); !isLoad || il.X != cell || !dominatesInstr(il, stores[0]) {
		return false
	}
	// data is the parent's slice parameter (captured by value or through its cell)
	src := ia.X
	if ld, isLd := src.(*ssa.UnOp); isLd {
		src = ld.X
	}
	fv, isFV := src.(*ssa.FreeVar)
	if !isFV {
		return false
	}
	b := freeVarBinding(fv)
	if b == nil {
		return false
	}
	if a, isAlloc := b.(*ssa.Alloc); isAlloc {
		sts, _, _ := storesTo(a)
		if len(sts) != 1 || sts[0].Val != ssa.Value(parent.Params[1]) {
			return false
		}
		return true
	}
	return b == ssa.Value(parent.Params[1])
}

// lenOfAppended: the length of v as a formula - len(x) + number of listed elements for append(x, e...),
// len(v) otherwise.
func lenOfAppended(n *Normer, v ssa.Value) Poly {
	if call, ok := v.(*ssa.Call); ok {
		if bi, isB := call.Common().Value.(*ssa.Builtin); isB && bi.Name() == "append" && len(call.Common().Args) == 2 {
			if el := variadicElems(call.Common().Args[1]); el != nil {
				return pAdd(lenOfAppended(n, call.Common().Args[0]), pConst(int64(len(el))), 1)
			}
		}
	}
	if phi, ok := v.(*ssa.Phi); ok && len(phi.Edges) > 0 {
		// the same length on every way in, or nothing known
		first := lenOfAppended(n, phi.Edges[0])
		for _, e := range phi.Edges[1:] {
			if !pEqual(first, lenOfAppended(n, e)) {
				return pAtom("len(" + n.Norm(v).asAtom() + ")")
			}
		}
		return first
	}
	return pAtom("len(" + n.Norm(v).asAtom() + ")")
}

// lenAwareNorm: the normal form of a small expression over slice lengths, with len(append(x, e...))
// read as len(x) + number of listed elements.
func lenAwareNorm(n *Normer, v ssa.Value, depth int) Poly {
	if depth < 4 {
		switch x := v.(type) {
		case *ssa.BinOp:
			switch x.Op {
			case token.ADD:
				return pAdd(lenAwareNorm(n, x.X, depth+1), lenAwareNorm(n, x.Y, depth+1), 1)
			case token.SUB:
				return pAdd(lenAwareNorm(n, x.X, depth+1), lenAwareNorm(n, x.Y, depth+1), -1)
			}
		case *ssa.Call:
			if bi, ok := x.Common().Value.(*ssa.Builtin); ok && bi.Name() == "len" && len(x.Common().Args) == 1 {
				return lenOfAppended(n, x.Common().Args[0])
			}
		}
	}
	return n.Norm(v)
}
