package main

// Conditions: boolean formulas over comparison atoms (base polynomial ⋈ constant) and named
// boolean atoms. Equivalence is decided semantically by enumerating, for every base polynomial,
// one representative integer per region its thresholds cut the number line into (a finite set
// of orderings), and all assignments of the boolean atoms. Opaque atoms (outside the fragment)
// can be projected out existentially.

import (
	"fmt"
	"go/ast"
	"go/parser"
	"go/token"
	"go/types"
	"math"
	"regexp"
	"sort"
	"strconv"
	"strings"

	"golang.org/x/tools/go/ssa"
)

type CKind int

const (
	CTrue CKind = iota
	CFalse
	CAnd
	COr
	CNot
	CCmp  // Base + K ⋈ 0 with ⋈ in {<, ==}
	CBool // named boolean atom
)

type Cond struct {
	Kind   CKind
	Sub    []*Cond
	Base   string // canonical non-constant polynomial (leading coefficient positive)
	K      int64
	Op     string // "<" or "=="
	Name   string // CBool
	Opaque bool   // CBool only
}

var cTrue = &Cond{Kind: CTrue}
var cFalse = &Cond{Kind: CFalse}

func cAnd(a, b *Cond) *Cond {
	if a.Kind == CFalse || b.Kind == CFalse {
		return cFalse
	}
	if a.Kind == CTrue {
		return b
	}
	if b.Kind == CTrue {
		return a
	}
	return &Cond{Kind: CAnd, Sub: []*Cond{a, b}}
}
func cOr(a, b *Cond) *Cond {
	if a.Kind == CTrue || b.Kind == CTrue {
		return cTrue
	}
	if a.Kind == CFalse {
		return b
	}
	if b.Kind == CFalse {
		return a
	}
	if a == b {
		return a
	}
	return &Cond{Kind: COr, Sub: []*Cond{a, b}}
}
func cNot(a *Cond) *Cond {
	switch a.Kind {
	case CTrue:
		return cFalse
	case CFalse:
		return cTrue
	case CNot:
		return a.Sub[0]
	}
	return &Cond{Kind: CNot, Sub: []*Cond{a}}
}

func (c *Cond) String() string {
	switch c.Kind {
	case CTrue:
		return "true"
	case CFalse:
		return "false"
	case CAnd:
		return "(" + c.Sub[0].String() + " && " + c.Sub[1].String() + ")"
	case COr:
		return "(" + c.Sub[0].String() + " || " + c.Sub[1].String() + ")"
	case CNot:
		return "!" + c.Sub[0].String()
	case CCmp:
		k := ""
		if c.K > 0 {
			k = fmt.Sprintf(" + %d", c.K)
		} else if c.K < 0 {
			k = fmt.Sprintf(" - %d", -c.K)
		}
		return fmt.Sprintf("[%s%s %s 0]", c.Base, k, c.Op)
	case CBool:
		return c.Name
	}
	return "?"
}

// cmpCond builds the condition  a ⋈ b  for integer polynomials.
func cmpCond(op token.Token, a, b Poly) *Cond {
	d := pAdd(a, b, -1)        // a - b ⋈ 0
	lt := func(p Poly) *Cond { // p < 0
		if k, ok := p.IsConst(); ok {
			if k < 0 {
				return cTrue
			}
			return cFalse
		}
		base, k, flipped := splitBase(p)
		if !flipped {
			return &Cond{Kind: CCmp, Base: base, K: k, Op: "<"}
		}
		// p = -(base + k') < 0  <=>  base + k' > 0 <=> !(base + k' - 1 < 0)  [integers]
		return cNot(&Cond{Kind: CCmp, Base: base, K: k - 1, Op: "<"})
	}
	eq := func(p Poly) *Cond {
		if k, ok := p.IsConst(); ok {
			if k == 0 {
				return cTrue
			}
			return cFalse
		}
		base, k, _ := splitBase(p)
		return &Cond{Kind: CCmp, Base: base, K: k, Op: "=="}
	}
	switch op {
	case token.LSS:
		return lt(d)
	case token.GEQ:
		return cNot(lt(d))
	case token.GTR:
		return lt(pScale(d, -1))
	case token.LEQ:
		return cNot(lt(pScale(d, -1)))
	case token.EQL:
		return eq(d)
	case token.NEQ:
		return cNot(eq(d))
	}
	return &Cond{Kind: CBool, Name: "?cmp", Opaque: true}
}

// splitBase splits p into sign * (base + k) with base's leading coefficient positive. For the
// flipped case the returned k is the constant of the positive form: p = -(base + k).
func splitBase(p Poly) (base string, k int64, flipped bool) {
	q := Poly{}
	for m, c := range p {
		if m == "" {
			k = c
		} else {
			q[m] = c
		}
	}
	keys := make([]string, 0, len(q))
	for m := range q {
		keys = append(keys, m)
	}
	sort.Strings(keys)
	if q[keys[0]] < 0 {
		flipped = true
		q = pScale(q, -1)
		k = -k
	}
	// divide by gcd of coefficients when it also divides... keep simple: no scaling
	return q.String(), k, flipped
}

// ---------------------------------------------------------------------------------------------

// CondOf converts a boolean SSA value into a Cond.
func (n *Normer) CondOf(v ssa.Value) *Cond {
	if n.FoldTables {
		if tv, ok := n.tableVal(v, 0); ok && tv != nil && tv.Kind == VBool {
			if tv.B {
				return cTrue
			}
			return cFalse
		}
	}
	for i := len(n.env) - 1; i >= 0; i-- {
		if p, ok := n.env[i][v]; ok {
			// a boolean fixed by the case under consideration
			if k, isK := p.IsConst(); isK && isBoolType(v.Type()) {
				if k != 0 {
					return cTrue
				}
				return cFalse
			}
			break
		}
	}
	switch x := v.(type) {
	case *ssa.Const:
		if x.Value != nil && x.Value.String() == "true" {
			return cTrue
		}
		return cFalse
	case *ssa.UnOp:
		if x.Op == token.NOT {
			return cNot(n.CondOf(x.X))
		}
	case *ssa.BinOp:
		switch x.Op {
		case token.EQL, token.NEQ, token.LSS, token.LEQ, token.GTR, token.GEQ:
			if isIntType(x.X.Type()) {
				// an operand selected by a branch just before (limit := A; if c { limit = B }): the
				// comparison by cases of that selection
				if n.phiDepth < 3 {
					var p *ssa.Phi
					if q := firstOpenPhi(x.X, n, 0); q != nil {
						p = q
					} else if q := firstOpenPhi(x.Y, n, 0); q != nil {
						p = q
					}
					if p == nil {
						// ... or delivered by a helper with several returns (limit := maxFor(kind))
						var open ssa.Value
						if o := firstOpen(x.X, n, 0); o != nil {
							open = o
						} else if o := firstOpen(x.Y, n, 0); o != nil {
							open = o
						}
						if call, idx, okC := expandableCall(open, n); okC && open != nil && smallConstSelector(call.Common().StaticCallee(), idx) {
							n.phiDepth++
							total := cFalse
							for _, sub := range n.callCases(call, idx, 0) {
								n.env = append(n.env, map[ssa.Value]Poly{open: sub.val})
								total = cOr(total, cAnd(sub.cond, n.CondOf(v)))
								n.env = n.env[:len(n.env)-1]
							}
							n.phiDepth--
							return total
						}
					}
					if p != nil && len(p.Edges) >= 2 && p.Block().Idom() != nil {
						blk := p.Block()
						n.phiDepth++
						total := cFalse
						for ei := range p.Edges {
							pred := blk.Preds[ei]
							edge := cAnd(n.ReachCond(blk.Parent(), blk.Idom(), pred), n.EdgeCond(pred, blk))
							n.PhiChoice[p] = ei
							total = cOr(total, cAnd(edge, n.CondOf(v)))
							delete(n.PhiChoice, p)
						}
						n.phiDepth--
						return total
					}
				}
				before := n.Opaque
				n.Opaque = false
				a, b := n.Norm(x.X), n.Norm(x.Y)
				op := n.Opaque
				n.Opaque = before || op
				c := cmpCond(x.Op, a, b)
				if op {
					markOpaque(c)
				}
				return c
			}
			// err == nil / err != nil for the error result of a loop-free helper of the repository:
			// decided by which of its returns yield nil (an error built on the spot is not nil)
			if x.Op == token.EQL || x.Op == token.NEQ {
				for _, pair := range [][2]ssa.Value{{x.X, x.Y}, {x.Y, x.X}} {
					if !isNilConst(pair[1]) || !isErrorType(pair[0].Type()) {
						continue
					}
					if _, bound := n.Bind[pair[0]]; bound {
						continue
					}
					if nilC, ok := n.errNilCond(pair[0]); ok {
						if x.Op == token.NEQ {
							return cNot(nilC)
						}
						return nilC
					}
				}
			}
			// p == nil / p != nil for a pointer chosen on the way (bars set in the arms of a switch, nil
			// otherwise): by cases of that choice
			if (x.Op == token.EQL || x.Op == token.NEQ) && n.phiDepth < 3 {
				for _, pair := range [][2]ssa.Value{{x.X, x.Y}, {x.Y, x.X}} {
					phi, isPhi := pair[0].(*ssa.Phi)
					if !isPhi || !isNilConst(pair[1]) {
						continue
					}
					if _, isPtr := phi.Type().Underlying().(*types.Pointer); !isPtr {
						continue
					}
					if _, bound := n.Bind[phi]; bound {
						continue
					}
					if _, chosen := n.PhiChoice[phi]; chosen {
						continue
					}
					blk := phi.Block()
					loopCarried := false
					for _, pr := range blk.Preds {
						if blk.Dominates(pr) {
							loopCarried = true
						}
					}
					if loopCarried || blk.Idom() == nil {
						continue
					}
					n.phiDepth++
					total := cFalse
					for ei, e := range phi.Edges {
						pred := blk.Preds[ei]
						edge := cAnd(n.ReachCond(blk.Parent(), blk.Idom(), pred), n.EdgeCond(pred, blk))
						var isNil *Cond
						if isNilConst(e) {
							isNil = cTrue
						} else {
							as := n.Norm(e).asAtom()
							isNil = &Cond{Kind: CBool, Name: "Eq(" + as + ",nil)"}
							if as > "nil" {
								isNil = &Cond{Kind: CBool, Name: "Eq(nil," + as + ")"}
							}
						}
						total = cOr(total, cAnd(edge, isNil))
					}
					n.phiDepth--
					if x.Op == token.NEQ {
						return cNot(total)
					}
					return total
				}
			}
			if isBoolType(x.X.Type()) && (x.Op == token.EQL || x.Op == token.NEQ) {
				a, b := n.CondOf(x.X), n.CondOf(x.Y)
				eq := cOr(cAnd(a, b), cAnd(cNot(a), cNot(b)))
				if x.Op == token.NEQ {
					return cNot(eq)
				}
				return eq
			}
			before := n.Opaque
			n.Opaque = false
			as, bs := n.Norm(x.X).asAtom(), n.Norm(x.Y).asAtom()
			op := n.Opaque
			n.Opaque = before || op
			switch x.Op {
			case token.EQL, token.NEQ:
				if as > bs {
					as, bs = bs, as
				}
				// a known function is never nil; nil is nil
				if (as == "nil" && strings.HasPrefix(bs, "func:")) || (bs == "nil" && strings.HasPrefix(as, "func:")) || (as == "nil" && bs == "nil") {
					if (as == bs) == (x.Op == token.EQL) {
						return cTrue
					}
					return cFalse
				}
				c := &Cond{Kind: CBool, Name: "Eq(" + as + "," + bs + ")", Opaque: op}
				if x.Op == token.NEQ {
					return cNot(c)
				}
				return c
			}
			return &Cond{Kind: CBool, Name: fmt.Sprintf("Cmp%s(%s,%s)", x.Op, as, bs), Opaque: op}
		}
	case *ssa.Parameter:
		// a boolean parameter in a known calling context is the condition passed for it
		if _, bound := n.Bind[x]; !bound && isBoolType(x.Type()) && n.phiDepth < 3 {
			inEnv := false
			for i := len(n.env) - 1; i >= 0; i-- {
				if _, ok := n.env[i][x]; ok {
					inEnv = true
				}
			}
			if arg, ctx, ok := n.paramArg(x); ok && !inEnv {
				saved := n.Ctx
				n.Ctx = ctx
				n.phiDepth++
				c := n.CondOf(arg)
				n.phiDepth--
				n.Ctx = saved
				return c
			}
		}
	case *ssa.Phi:
		if i, ok := n.PhiChoice[x]; ok {
			return n.CondOf(x.Edges[i])
		}
		// a boolean computed by short-circuit evaluation and stored in a variable: expand over
		// the incoming edges (not for loop-carried phis)
		if _, bound := n.Bind[v]; !bound && isBoolType(x.Type()) && n.phiDepth < 3 {
			blk := x.Block()
			loopCarried := false
			for _, p := range blk.Preds {
				if blk.Dominates(p) {
					loopCarried = true
				}
			}
			// the edges are distinguished by what happens after the block's immediate dominator
			from := blk.Idom()
			if !loopCarried {
				n.phiDepth++
				total := cFalse
				for ei, e := range x.Edges {
					pred := blk.Preds[ei]
					edge := cAnd(n.ReachCond(blk.Parent(), from, pred), n.EdgeCond(pred, blk))
					total = cOr(total, cAnd(edge, n.CondOf(e)))
				}
				n.phiDepth--
				return total
			}
		}
	case *ssa.Extract:
		// boolean result of a multi-result helper without loops: true on the returns that yield true
		if call, ok := x.Tuple.(*ssa.Call); ok && isBoolType(x.Type()) {
			if _, bound := n.Bind[v]; !bound {
				if cal := call.Common().StaticCallee(); cal != nil && isRepoFunc(cal) && cal.Blocks != nil && n.depth < n.MaxInline &&
					!n.NoInline[n.P.FuncName(cal)] && pureLoopFree(cal) && len(n.Ctx) < 4 {
					savedCtx := n.Ctx
					n.Ctx = append(append([]ssa.CallInstruction{}, savedCtx...), call)
					n.depth++
					out := cFalse
					for _, ret := range returnsOf(cal) {
						if x.Index < len(ret.Results) {
							out = cOr(out, cAnd(n.ReachCond(cal, nil, ret.Block()), boolValueCond(n, cal, ret.Results[x.Index], ret.Block())))
						}
					}
					n.depth--
					n.Ctx = savedCtx
					return out
				}
			}
		}
	case *ssa.Call:
		// pure boolean helper of the repository without loops: its truth condition with the
		// arguments substituted (extracting a predicate into a helper does not change the form)
		if _, bound := n.Bind[v]; !bound {
			if cal := x.Common().StaticCallee(); cal != nil && isRepoFunc(cal) && cal.Blocks != nil && n.depth < n.MaxInline &&
				cal.Signature.Results().Len() == 1 && isBoolType(cal.Signature.Results().At(0).Type()) && !n.NoInline[n.P.FuncName(cal)] && pureLoopFree(cal) {
				env := map[ssa.Value]Poly{}
				for i, p := range cal.Params {
					if i < len(x.Common().Args) {
						if _, isStruct := p.Type().Underlying().(*types.Struct); isStruct {
							continue
						}
						env[p] = n.Norm(x.Common().Args[i])
					}
				}
				n.env = append(n.env, env)
				n.depth++
				savedCtx := n.Ctx
				n.Ctx = append(append([]ssa.CallInstruction{}, savedCtx...), x)
				c := FuncTruthCond(n, cal)
				n.Ctx = savedCtx
				n.depth--
				n.env = n.env[:len(n.env)-1]
				return c
			}
		}
	}
	before := n.Opaque
	n.Opaque = false
	name := n.Norm(v).asAtom()
	op := n.Opaque
	n.Opaque = before || op
	return &Cond{Kind: CBool, Name: name, Opaque: op}
}

func isBoolType(t types.Type) bool {
	b, ok := t.Underlying().(*types.Basic)
	return ok && b.Info()&types.IsBoolean != 0
}

func markOpaque(c *Cond) {
	if c.Kind == CCmp {
		// turn into an opaque boolean atom
		name := c.String()
		c.Kind, c.Name, c.Opaque = CBool, name, true
		return
	}
	for _, s := range c.Sub {
		markOpaque(s)
	}
}

// ---------------------------------------------------------------------------------------------
// Reach conditions

// backEdges: edges b->s where s dominates b.
func isBackEdge(b, s *ssa.BasicBlock) bool { return s.Dominates(b) }

// ReachCond computes the condition under which `target` is reached from `from` (nil = entry),
// ignoring loop back edges (loop-variant tests become opaque atoms through phis).
func (n *Normer) ReachCond(fn *ssa.Function, from, target *ssa.BasicBlock) *Cond {
	if from == nil {
		from = fn.Blocks[0]
	}
	saved := n.curFrom
	n.curFrom = from
	defer func() { n.curFrom = saved }()
	// blocks that can reach target (forward edges only)
	canReach := map[*ssa.BasicBlock]bool{target: true}
	changed := true
	for changed {
		changed = false
		for _, b := range fn.Blocks {
			if canReach[b] {
				continue
			}
			for _, s := range b.Succs {
				if canReach[s] && !isBackEdge(b, s) {
					canReach[b] = true
					changed = true
				}
			}
		}
	}
	memo := map[*ssa.BasicBlock]*Cond{}
	var cond func(b *ssa.BasicBlock) *Cond
	visiting := map[*ssa.BasicBlock]bool{}
	cond = func(b *ssa.BasicBlock) *Cond {
		if b == from {
			// a bottom-tested counting loop: its continue condition holds for the current value of
			// the loop variable at the top of every iteration (what a header test states directly)
			if w := n.LoopWhile(b); w != nil && !n.bodyFrom[b] {
				return w
			}
			return cTrue
		}
		if c, ok := memo[b]; ok {
			return c
		}
		if visiting[b] {
			return cFalse
		}
		visiting[b] = true
		res := cFalse
		for _, p := range b.Preds {
			if isBackEdge(p, b) {
				continue
			}
			res = cOr(res, cAnd(cond(p), n.EdgeCond(p, b)))
		}
		visiting[b] = false
		memo[b] = res
		return res
	}
	if !canReach[from] {
		return cFalse
	}
	return cond(target)
}

// EdgeCond is the condition for control to go from p to its successor s.
func (n *Normer) EdgeCond(p, s *ssa.BasicBlock) *Cond {
	if len(p.Succs) == 1 {
		if w := n.LoopWhile(p); w != nil {
			return w // "the loop continues", asked of the header of a bottom-tested loop
		}
		return cTrue
	}
	iff, ok := p.Instrs[len(p.Instrs)-1].(*ssa.If)
	if !ok {
		return cTrue
	}
	if p.Succs[0] == s && p.Succs[1] == s {
		return cTrue
	}
	c := n.CondOf(iff.Cond)
	if p.Succs[0] == s {
		return c
	}
	return cNot(c)
}

// ---------------------------------------------------------------------------------------------
// Semantic comparison

type condVars struct {
	bases map[string]map[int64]bool // base -> thresholds (values of -K that matter)
	bools map[string]bool           // name -> opaque?
}

func collect(c *Cond, cv *condVars) {
	switch c.Kind {
	case CCmp:
		if cv.bases[c.Base] == nil {
			cv.bases[c.Base] = map[int64]bool{}
		}
		cv.bases[c.Base][-c.K] = true // base + K ⋈ 0  <=> base ⋈ -K
	case CBool:
		cv.bools[c.Name] = cv.bools[c.Name] || c.Opaque
	}
	for _, s := range c.Sub {
		collect(s, cv)
	}
}

func evalCond(c *Cond, bv map[string]int64, bb map[string]bool) bool {
	switch c.Kind {
	case CTrue:
		return true
	case CFalse:
		return false
	case CAnd:
		return evalCond(c.Sub[0], bv, bb) && evalCond(c.Sub[1], bv, bb)
	case COr:
		return evalCond(c.Sub[0], bv, bb) || evalCond(c.Sub[1], bv, bb)
	case CNot:
		return !evalCond(c.Sub[0], bv, bb)
	case CCmp:
		v := bv[c.Base] + c.K
		if c.Op == "<" {
			return v < 0
		}
		return v == 0
	case CBool:
		return bb[c.Name]
	}
	return false
}

// CondRelation enumerates all assignments. Returns whether a => b and b => a hold after
// existentially projecting opaque boolean atoms, plus a witness assignment where they differ.
func CondRelation(a, b *Cond) (aImpB, bImpA bool, witness string) {
	cv := &condVars{bases: map[string]map[int64]bool{}, bools: map[string]bool{}}
	collect(a, cv)
	collect(b, cv)
	// an atom outside the fragment that occurs on both sides is the same unknown on both sides:
	// it is enumerated like a named atom, not projected away separately
	{
		ca := &condVars{bases: map[string]map[int64]bool{}, bools: map[string]bool{}}
		cb := &condVars{bases: map[string]map[int64]bool{}, bools: map[string]bool{}}
		collect(a, ca)
		collect(b, cb)
		for nm := range cv.bools {
			if _, inA := ca.bools[nm]; inA {
				if _, inB := cb.bools[nm]; inB {
					cv.bools[nm] = false
				}
			}
		}
	}
	var baseNames []string
	reps := map[string][]int64{}
	for bn, ts := range cv.bases {
		baseNames = append(baseNames, bn)
		set := map[int64]bool{}
		for t := range ts {
			set[t-1], set[t], set[t+1] = true, true, true
		}
		// a length is never negative, the remainder of a length by k lies in 0..k-1: values outside
		// are not assignments of the program
		lo, hi, bounded := baseDomain(bn)
		var vals []int64
		for v := range set {
			if bounded && (v < lo || v > hi) {
				continue
			}
			vals = append(vals, v)
		}
		if len(vals) == 0 {
			vals = append(vals, lo)
		}
		sort.Slice(vals, func(i, j int) bool { return vals[i] < vals[j] })
		reps[bn] = vals
	}
	sort.Strings(baseNames)
	// remainders of one quantity by k and by a divisor of k are not independent: (x % k) % d == x % d.
	// Both value sets are completed so that every value has a partner, and assignments that
	// contradict the identity are not assignments of the program.
	type modLink struct {
		big, small string
		d          int64
	}
	var links []modLink
	for _, A := range baseNames {
		xa, ka, okA := modBase(A)
		if !okA {
			continue
		}
		for _, B := range baseNames {
			xb, kb, okB := modBase(B)
			if !okB || A == B || xa != xb || kb >= ka || ka%kb != 0 || ka > 64 {
				continue
			}
			links = append(links, modLink{A, B, kb})
			set := map[int64]bool{}
			for _, v := range reps[B] {
				set[v] = true
			}
			for _, v := range reps[A] {
				set[v%kb] = true
			}
			var vb []int64
			for v := range set {
				vb = append(vb, v)
			}
			sort.Slice(vb, func(i, j int) bool { return vb[i] < vb[j] })
			reps[B] = vb
			setA := map[int64]bool{}
			for _, v := range reps[A] {
				setA[v] = true
			}
			for _, v := range vb {
				if v >= 0 {
					for w := v; w < ka; w += kb {
						setA[w] = true
					}
				} else {
					for w := v; w > -ka; w -= kb {
						setA[w] = true
					}
				}
			}
			var va []int64
			for v := range setA {
				va = append(va, v)
			}
			sort.Slice(va, func(i, j int) bool { return va[i] < va[j] })
			reps[A] = va
		}
	}
	var named, opaque []string
	for bn, op := range cv.bools {
		if op {
			opaque = append(opaque, bn)
		} else {
			named = append(named, bn)
		}
	}
	sort.Strings(named)
	sort.Strings(opaque)
	if len(opaque) > 12 || len(named) > 14 {
		return false, false, "too many boolean atoms to enumerate"
	}
	aImpB, bImpA = true, true
	bv := map[string]int64{}
	bb := map[string]bool{}
	var recBase func(i int)
	rows := 0
	recBase = func(i int) {
		if rows > 2000000 {
			return
		}
		if i < len(baseNames) {
			for _, v := range reps[baseNames[i]] {
				bv[baseNames[i]] = v
				recBase(i + 1)
			}
			return
		}
		for _, l := range links {
			if bv[l.big]%l.d != bv[l.small] {
				return
			}
		}
		for m := 0; m < 1<<uint(len(named)); m++ {
			for j, nm := range named {
				bb[nm] = m>>uint(j)&1 == 1
			}
			va, vb := false, false
			for o := 0; o < 1<<uint(len(opaque)); o++ {
				for j, nm := range opaque {
					bb[nm] = o>>uint(j)&1 == 1
				}
				va = va || evalCond(a, bv, bb)
				vb = vb || evalCond(b, bv, bb)
			}
			rows++
			if va != vb && witness == "" {
				var parts []string
				for _, bn := range baseNames {
					parts = append(parts, fmt.Sprintf("%s=%d", bn, bv[bn]))
				}
				for _, nm := range named {
					parts = append(parts, fmt.Sprintf("%s=%v", nm, bb[nm]))
				}
				witness = fmt.Sprintf("%s: code=%v reference=%v", strings.Join(parts, ", "), va, vb)
			}
			if va && !vb {
				aImpB = false
			}
			if vb && !va {
				bImpA = false
			}
		}
	}
	recBase(0)
	return
}

func CondEquivalent(a, b *Cond) (bool, string) {
	if a.String() == b.String() {
		return true, "" // syntactically the same condition (also when it contains atoms outside the fragment)
	}
	x, y, w := CondRelation(a, b)
	return x && y, w
}

// ---------------------------------------------------------------------------------------------
// Reference conditions: Go boolean expressions over role names.

func ParseRefCond(src string) (*Cond, error) {
	e, err := parser.ParseExpr(src)
	if err != nil {
		return nil, err
	}
	return refCond(e)
}

func MustRefCond(src string) *Cond {
	c, err := ParseRefCond(src)
	if err != nil {
		panic("bad reference condition " + src + ": " + err.Error())
	}
	return c
}

func refCond(e ast.Expr) (*Cond, error) {
	switch x := e.(type) {
	case *ast.ParenExpr:
		return refCond(x.X)
	case *ast.UnaryExpr:
		if x.Op == token.NOT {
			c, err := refCond(x.X)
			if err != nil {
				return nil, err
			}
			return cNot(c), nil
		}
	case *ast.Ident:
		if x.Name == "true" {
			return cTrue, nil
		}
		if x.Name == "false" {
			return cFalse, nil
		}
		return &Cond{Kind: CBool, Name: x.Name}, nil
	case *ast.CallExpr:
		p, err := refPoly(x)
		if err != nil {
			return nil, err
		}
		return &Cond{Kind: CBool, Name: p.asAtom()}, nil
	case *ast.BinaryExpr:
		switch x.Op {
		case token.LAND, token.LOR:
			a, err := refCond(x.X)
			if err != nil {
				return nil, err
			}
			b, err := refCond(x.Y)
			if err != nil {
				return nil, err
			}
			if x.Op == token.LAND {
				return cAnd(a, b), nil
			}
			return cOr(a, b), nil
		case token.EQL, token.NEQ, token.LSS, token.LEQ, token.GTR, token.GEQ:
			a, err := refPoly(x.X)
			if err != nil {
				return nil, err
			}
			b, err := refPoly(x.Y)
			if err != nil {
				return nil, err
			}
			return cmpCond(x.Op, a, b), nil
		}
	}
	return nil, fmt.Errorf("unsupported reference condition %T", e)
}

// pureLoopFree: no back edges, no stores/sends/go/defer/panic, only calls to builtins.
func pureLoopFree(fn *ssa.Function) bool {
	for _, b := range fn.Blocks {
		for _, s := range b.Succs {
			if s.Dominates(b) {
				return false
			}
		}
		for _, ins := range b.Instrs {
			switch x := ins.(type) {
			case *ssa.Store:
				// a spilled parameter / value receiver (a stack local of this very function) is not an effect
				if a, _, ok := rootAlloc(x.Addr); ok && !a.Heap && a.Parent() == fn {
					continue
				}
				return false
			case *ssa.Send, *ssa.Go, *ssa.Defer, *ssa.MapUpdate, *ssa.Panic:
				return false
			case *ssa.Call:
				// calls are allowed: their results stay uninterpreted atoms of the truth condition
				_ = x
			}
		}
	}
	return true
}

// errNilCond: the condition under which the error value v - one result of a call to a loop-free
// helper of the repository - is nil. Every return must be decided: nil constant, or an error
// constructed there (errors.New, fmt.Errorf, a composite value).
func (n *Normer) errNilCond(v ssa.Value) (*Cond, bool) {
	idx := 0
	call, ok := v.(*ssa.Call)
	if ex, isEx := v.(*ssa.Extract); isEx {
		call, ok = ex.Tuple.(*ssa.Call)
		idx = ex.Index
	}
	if !ok || n.depth >= n.MaxInline || len(n.Ctx) > 3 {
		return nil, false
	}
	cal := call.Common().StaticCallee()
	if cal == nil || !isRepoFunc(cal) || cal.Blocks == nil || n.NoInline[n.P.FuncName(cal)] || !pureLoopFreeAllowCalls(cal) {
		return nil, false
	}
	for _, c := range n.Ctx {
		if c.Common().StaticCallee() == cal {
			return nil, false
		}
	}
	saved := n.Ctx
	n.Ctx = append(append([]ssa.CallInstruction{}, saved...), call)
	n.depth++
	defer func() { n.Ctx = saved; n.depth-- }()
	out := cFalse
	for _, ret := range returnsOf(cal) {
		if idx >= len(ret.Results) {
			return nil, false
		}
		r := ret.Results[idx]
		rc := n.ReachCond(cal, nil, ret.Block())
		switch {
		case isNilConst(r):
			out = cOr(out, rc)
		case definitelyNonNilError(r):
			// contributes to "not nil"
		default:
			// an error handed on from another call: nil exactly when that one is
			if sub, ok := n.errNilCond(r); ok {
				out = cOr(out, cAnd(rc, sub))
			} else {
				name := n.Norm(r).asAtom()
				out = cOr(out, cAnd(rc, &Cond{Kind: CBool, Name: "Eq(" + name + ",nil)"}))
			}
		}
	}
	return out, true
}

func definitelyNonNilError(v ssa.Value) bool {
	switch x := v.(type) {
	case *ssa.MakeInterface:
		return true
	case *ssa.Call:
		switch calleeFull(x) {
		case "errors.New", "fmt.Errorf":
			return true
		}
	}
	return false
}

var reLenBase = regexp.MustCompile(`^len\([^()]*\)$`)
var reModLenBase = regexp.MustCompile(`^Mod\(len\([^()]*\),(\d+)\)$`)

// baseDomain: the feasible range of a comparison base that is a plain length or the remainder of a
// length by a positive constant.
func baseDomain(base string) (lo, hi int64, ok bool) {
	if reLenBase.MatchString(base) {
		return 0, math.MaxInt64, true
	}
	if m := reModLenBase.FindStringSubmatch(base); m != nil {
		k, err := strconv.ParseInt(m[1], 10, 64)
		if err == nil && k > 0 {
			return 0, k - 1, true
		}
	}
	// x & k with a non-negative constant k lies in 0..k (And(k,x) / And(x,k) as one whole base)
	if strings.HasPrefix(base, "And(") && strings.HasSuffix(base, ")") && closesAtEnd(base, 3) {
		parts := splitTopLevel(base[4 : len(base)-1])
		if len(parts) == 2 {
			for _, p := range parts {
				if k, err := strconv.ParseInt(p, 10, 64); err == nil && k >= 0 {
					return 0, k, true
				}
			}
		}
	}
	return 0, 0, false
}

// smallConstSelector: a loop-free helper with at most three returns whose result idx is a constant on
// every return (a limit or a size picked by a flag).
func smallConstSelector(fn *ssa.Function, idx int) bool {
	if fn == nil || !pureLoopFree(fn) {
		return false
	}
	rets := returnsOf(fn)
	if len(rets) < 2 || len(rets) > 3 {
		return false
	}
	for _, r := range rets {
		if idx >= len(r.Results) {
			return false
		}
		if _, isC := r.Results[idx].(*ssa.Const); !isC {
			return false
		}
	}
	return true
}

// singleBitTest recognises a condition that tests one bit of a value:
//
//	And(Shr(X,s),1) == 1, And(Shr(X,s),1) != 0, And(X,2^s) != 0, And(X,2^s) == 2^s  (and their negations)
//
// and returns the value, the bit number and whether the condition holds when the bit is set.
func singleBitTest(c *Cond) (src string, bit int64, set bool, ok bool) {
	neg := false
	for c.Kind == CNot {
		neg = !neg
		c = c.Sub[0]
	}
	if c.Kind != CCmp || c.Op != "==" || !strings.HasPrefix(c.Base, "And(") || !strings.HasSuffix(c.Base, ")") {
		return "", 0, false, false
	}
	args := splitTopLevel(c.Base[4 : len(c.Base)-1])
	if len(args) != 2 {
		return "", 0, false, false
	}
	x, ms := args[0], args[1]
	m, err := strconv.ParseInt(ms, 10, 64)
	if err != nil {
		x, ms = args[1], args[0]
		if m, err = strconv.ParseInt(ms, 10, 64); err != nil {
			return "", 0, false, false
		}
	}
	if m <= 0 || m&(m-1) != 0 {
		return "", 0, false, false
	}
	switch {
	case c.K == 0:
		set = false // == 0: the bit is clear
	case c.K == -m:
		set = true
	default:
		return "", 0, false, false
	}
	if neg {
		set = !set
	}
	for m > 1 {
		m >>= 1
		bit++
	}
	if strings.HasPrefix(x, "Shr(") && strings.HasSuffix(x, ")") {
		sa := splitTopLevel(x[4 : len(x)-1])
		if len(sa) == 2 {
			if sh, err := strconv.ParseInt(sa[1], 10, 64); err == nil && sh >= 0 {
				return sa[0], bit + sh, set, true
			}
		}
		return "", 0, false, false
	}
	if strings.HasPrefix(x, "Div(") && strings.HasSuffix(x, ")") {
		// a right shift of an unsigned value by a constant is normalised to a division by 2^s
		sa := splitTopLevel(x[4 : len(x)-1])
		if len(sa) == 2 {
			if d, err := strconv.ParseInt(sa[1], 10, 64); err == nil && d > 0 && d&(d-1) == 0 {
				for d > 1 {
					d >>= 1
					bit++
				}
				return sa[0], bit, set, true
			}
		}
		return "", 0, false, false
	}
	return x, bit, set, true
}

// splitTopLevel splits "a,f(b,c),d" at the commas outside parentheses and brackets.
func splitTopLevel(s string) []string {
	var out []string
	depth, start := 0, 0
	for i, r := range s {
		switch r {
		case '(', '[':
			depth++
		case ')', ']':
			depth--
		case ',':
			if depth == 0 {
				out = append(out, s[start:i])
				start = i + 1
			}
		}
	}
	return append(out, s[start:])
}

// modBase: a base of the form Mod(x,k) with a constant k > 1.
func modBase(b string) (x string, k int64, ok bool) {
	if !strings.HasPrefix(b, "Mod(") || !strings.HasSuffix(b, ")") {
		return "", 0, false
	}
	inner := b[4 : len(b)-1]
	depth := 0
	cut := -1
	for i, ch := range inner {
		switch ch {
		case '(', '[':
			depth++
		case ')', ']':
			depth--
			if depth < 0 {
				return "", 0, false
			}
		case ',':
			if depth == 0 {
				cut = i
			}
		}
	}
	if cut < 0 || depth != 0 {
		return "", 0, false
	}
	kk, err := strconv.ParseInt(inner[cut+1:], 10, 64)
	if err != nil || kk < 2 {
		return "", 0, false
	}
	return inner[:cut], kk, true
}

// closesAtEnd: the bracket opened at position open of s is closed by the last character of s.
func closesAtEnd(s string, open int) bool {
	depth := 0
	for i := open; i < len(s); i++ {
		switch s[i] {
		case '(', '[':
			depth++
		case ')', ']':
			depth--
			if depth == 0 {
				return i == len(s)-1
			}
		}
	}
	return false
}
