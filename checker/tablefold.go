package main

import (
	"go/token"
	"go/types"

	"golang.org/x/tools/go/ssa"
)

// Table folding: a read of an immutable package-level table at constant indices is replaced by the
// value of the table's initialiser (E1 evaluator). Together with the enumeration of constant-trip
// loops this makes "30 unrolled statements" and "a loop over a position table" the same thing to a
// rule. Immutability is checked here (no store / map update rooted at the variable outside init).

func (p *Prog) immutableGlobal(g *ssa.Global) bool {
	if p.immut == nil {
		p.immut = map[*ssa.Global]bool{}
		written := map[*ssa.Global]bool{}
		for _, f := range append(append([]*ssa.Function{}, p.Funcs...), p.CanaryFuncs...) {
			if f.Name() == "init" || (f.Synthetic != "" && f.Parent() == nil && f.Name() == "init") {
				continue
			}
			eachInstr(f, func(b *ssa.BasicBlock, ins ssa.Instruction) {
				switch x := ins.(type) {
				case *ssa.Store:
					if r := globalRoot(x.Addr, 0); r != nil {
						written[r] = true
					}
				case *ssa.MapUpdate:
					if r := globalRoot(x.Map, 0); r != nil {
						written[r] = true
					}
				}
			})
		}
		p.written = written
	}
	if v, ok := p.immut[g]; ok {
		return v
	}
	ok := !p.written[g] && g.Pkg != nil && isRepoPkg(g.Pkg.Pkg.Path())
	p.immut[g] = ok
	return ok
}

func isRepoPkg(path string) bool { return len(path) >= len(modPath) && path[:len(modPath)] == modPath }

func (n *Normer) constIndex(v ssa.Value) (int64, bool) {
	saved := n.FoldTables
	n.FoldTables = false
	k, ok := n.Norm(v).IsConst()
	n.FoldTables = saved
	return k, ok
}

// tableVal: the value of v when it is read out of immutable package-level tables at constant
// positions (in the current environment of the normaliser).
func (n *Normer) tableVal(v ssa.Value, depth int) (*Val, bool) {
	if depth > 16 {
		return nil, false
	}
	switch x := v.(type) {
	case *ssa.UnOp:
		if x.Op != token.MUL {
			return nil, false
		}
		return n.tableAddrVal(x.X, depth+1)
	case *ssa.Index:
		base, ok := n.tableVal(x.X, depth+1)
		if !ok || base.Kind != VList {
			return nil, false
		}
		k, ok := n.constIndex(x.Index)
		if !ok || k < 0 || int(k) >= len(base.List) {
			return nil, false
		}
		return base.List[k], true
	case *ssa.Field:
		base, ok := n.tableVal(x.X, depth+1)
		if !ok || base.Kind != VStruct {
			return nil, false
		}
		st, ok := x.X.Type().Underlying().(*types.Struct)
		if !ok {
			return nil, false
		}
		f := base.Fields[st.Field(x.Field).Name()]
		return f, f != nil
	case *ssa.Extract:
		// v, ok := table[k]
		lk, isLk := x.Tuple.(*ssa.Lookup)
		if !isLk || !lk.CommaOk {
			return nil, false
		}
		base, ok := n.tableVal(lk.X, depth+1)
		if !ok || base.Kind != VMap {
			return nil, false
		}
		var e *Val
		if isBoolType(lk.Index.Type()) {
			e, ok = n.boolKeyEntry(base, lk.Index)
			if !ok {
				return nil, false
			}
		} else {
			k, ok := n.constIndex(lk.Index)
			if !ok {
				return nil, false
			}
			e = base.MapGetInt(k)
		}
		if x.Index == 1 {
			return &Val{Kind: VBool, B: e != nil}, true
		}
		return e, e != nil
	case *ssa.Parameter:
		// a table entry handed to a helper (by value): the entry in the calling context
		arg, ctx, ok := n.paramArg(x)
		if !ok {
			return nil, false
		}
		saved := n.Ctx
		n.Ctx = ctx
		v, okV := n.tableVal(arg, depth+1)
		n.Ctx = saved
		return v, okV
	case *ssa.Lookup:
		if x.CommaOk {
			return nil, false
		}
		base, ok := n.tableVal(x.X, depth+1)
		if !ok || base.Kind != VMap {
			return nil, false
		}
		if isBoolType(x.Index.Type()) {
			e, ok := n.boolKeyEntry(base, x.Index)
			return e, ok && e != nil
		}
		k, ok := n.constIndex(x.Index)
		if !ok {
			return nil, false
		}
		e := base.MapGetInt(k)
		return e, e != nil
	}
	return nil, false
}

// boolKeyEntry: the entry of a map keyed by bool, when the key is decided in the current environment.
func (n *Normer) boolKeyEntry(m *Val, key ssa.Value) (*Val, bool) {
	saved := n.FoldTables
	n.FoldTables = false
	c := n.CondOf(key)
	n.FoldTables = saved
	if eq, _ := CondEquivalent(c, cTrue); eq {
		return m.MapGetBool(true), true
	}
	if eq, _ := CondEquivalent(c, cFalse); eq {
		return m.MapGetBool(false), true
	}
	return nil, false
}

func (n *Normer) tableAddrVal(addr ssa.Value, depth int) (*Val, bool) {
	if depth > 16 {
		return nil, false
	}
	switch x := addr.(type) {
	case *ssa.Global:
		if !n.P.immutableGlobal(x) {
			return nil, false
		}
		val, err := n.P.EvalVar(shortName(x.Pkg.Pkg.Path()), x.Name())
		if err != nil || val == nil {
			return nil, false
		}
		return val, true
	case *ssa.FieldAddr:
		base, ok := n.tableAddrVal(x.X, depth+1)
		if !ok || base.Kind != VStruct {
			return nil, false
		}
		st, ok := x.X.Type().Underlying().(*types.Pointer).Elem().Underlying().(*types.Struct)
		if !ok {
			return nil, false
		}
		f := base.Fields[st.Field(x.Field).Name()]
		return f, f != nil
	case *ssa.IndexAddr:
		var base *Val
		var ok bool
		if _, isPtr := x.X.Type().Underlying().(*types.Pointer); isPtr {
			base, ok = n.tableAddrVal(x.X, depth+1)
		} else {
			base, ok = n.tableVal(x.X, depth+1)
		}
		if !ok || base.Kind != VList {
			return nil, false
		}
		k, ok := n.constIndex(x.Index)
		if !ok || k < 0 || int(k) >= len(base.List) {
			return nil, false
		}
		return base.List[k], true
	case *ssa.FreeVar:
		// a local of the enclosing function captured by a function literal: the variable itself
		fn := x.Parent()
		if fn == nil || fn.Parent() == nil {
			return nil, false
		}
		idx := -1
		for i, fv := range fn.FreeVars {
			if fv == x {
				idx = i
			}
		}
		var bound ssa.Value
		cnt := 0
		eachInstr(fn.Parent(), func(b *ssa.BasicBlock, ins ssa.Instruction) {
			if mc, ok := ins.(*ssa.MakeClosure); ok && mc.Fn == ssa.Value(fn) && idx >= 0 && idx < len(mc.Bindings) {
				bound = mc.Bindings[idx]
				cnt++
			}
		})
		if cnt != 1 || bound == nil {
			return nil, false
		}
		return n.tableAddrVal(bound, depth+1)
	case *ssa.Alloc:
		// local copy of a table element: exactly one store of the whole value
		stores, paths, escapes := storesTo(x)
		if escapes || len(stores) != 1 || len(paths[0]) != 0 {
			return nil, false
		}
		return n.tableVal(stores[0].Val, depth+1)
	}
	return nil, false
}

// loopInstances: the environments (loop index -> constant) of every iteration of the constant-trip
// counting loops enclosing blk; one empty environment when blk is in no loop; ok=false when an
// enclosing loop is not a counting loop with constant bounds (at most 64 iterations each).
func (n *Normer) loopInstances(blk *ssa.BasicBlock) ([]map[ssa.Value]Poly, bool) {
	hdr := enclosingLoopHeader(blk)
	if hdr == nil {
		return []map[ssa.Value]Poly{{}}, true
	}
	idx, phi, init, ok := loopIndex(hdr)
	if rot, okR := rotatedLoop(hdr); okR || !ok {
		// bottom-tested counting loop (`for i := range 7`): the same enumeration from its own
		// continue condition
		if !okR {
			return nil, false
		}
		first, isK := n.Norm(rot.init).IsConst()
		step := pAdd(NewNormer(n.P).Norm(rot.next), NewNormer(n.P).Norm(rot.phi), -1)
		if st, isS := step.IsConst(); !isK || !isS || st != 1 {
			return nil, false
		}
		nn := NewNormer(n.P)
		nn.Bind[rot.phi] = "#i"
		if li, okL := rot.latch.Instrs[len(rot.latch.Instrs)-1].(*ssa.If); okL {
			if bo, okB := li.Cond.(*ssa.BinOp); okB && bo.Op == token.LSS && bo.X == rot.next {
				if k, okF := n.fixedByReach(hdr.Parent(), rot.pre, bo.Y); okF {
					nn.env = append(nn.env, map[ssa.Value]Poly{bo.Y: pConst(k)})
				}
			}
		}
		cond := nn.LoopWhile(hdr)
		if cond == nil {
			return nil, false
		}
		cv := &condVars{bases: map[string]map[int64]bool{}, bools: map[string]bool{}}
		collect(cond, cv)
		if len(cv.bools) != 0 || len(cv.bases) != 1 || cv.bases["#i"] == nil {
			return nil, false
		}
		outer, okO := n.loopInstances(rot.pre)
		if !okO {
			return nil, false
		}
		var out []map[ssa.Value]Poly
		for _, o := range outer {
			for i := first; evalCond(cond, map[string]int64{"#i": i}, nil); i++ {
				if i-first >= 64 {
					return nil, false
				}
				env := map[ssa.Value]Poly{rot.phi: pConst(i), rot.next: pConst(i + 1)}
				for k, v := range o {
					env[k] = v
				}
				out = append(out, env)
			}
		}
		return out, true
	}
	if len(hdr.Succs) != 2 {
		return nil, false
	}
	nn := NewNormer(n.P)
	nn.Bind[idx] = "#i"
	body := hdr.Succs[0]
	if !body.Dominates(blk) && body != blk {
		return nil, false
	}
	if bound := loopBoundValue(hdr, idx); bound != nil {
		// a bound that is not a constant by itself but fixed by a test passed on the way to the loop
		// (`if len(bits) != 15 { return }`)
		if k, ok := n.fixedByReach(hdr.Parent(), hdr, bound); ok {
			nn.env = append(nn.env, map[ssa.Value]Poly{bound: pConst(k)})
		}
	}
	cond := nn.EdgeCond(hdr, body)
	cv := &condVars{bases: map[string]map[int64]bool{}, bools: map[string]bool{}}
	collect(cond, cv)
	if len(cv.bools) != 0 || len(cv.bases) != 1 || cv.bases["#i"] == nil {
		return nil, false
	}
	var outer []map[ssa.Value]Poly
	if idom := hdr.Idom(); idom != nil {
		outer, ok = n.loopInstances(idom)
		if !ok {
			return nil, false
		}
	} else {
		outer = []map[ssa.Value]Poly{{}}
	}
	var out []map[ssa.Value]Poly
	for _, o := range outer {
		for i := init; evalCond(cond, map[string]int64{"#i": i}, nil); i++ {
			if i-init >= 64 {
				return nil, false
			}
			env := map[ssa.Value]Poly{idx: pConst(i)}
			if ssa.Value(phi) != idx {
				env[phi] = pConst(i - 1)
			}
			for k, v := range o {
				env[k] = v
			}
			out = append(out, env)
		}
	}
	return out, true
}

// fixedByReach: the constant the value v is known to equal whenever blk is reached (an equality test
// on the way, on every path), if any. The value is taken by cases (a slice chosen between a literal
// and a table row has the literal's length on one path and the tested length on the other).
func (n *Normer) fixedByReach(fn *ssa.Function, blk *ssa.BasicBlock, v ssa.Value) (int64, bool) {
	if _, isK := n.Norm(v).IsConst(); isK {
		return 0, false
	}
	reach := n.ReachCond(fn, nil, blk)
	if eq, _ := CondEquivalent(reach, cFalse); eq {
		return 0, false
	}
	cv := &condVars{bases: map[string]map[int64]bool{}, bools: map[string]bool{}}
	collect(reach, cv)
	var K int64
	have := false
	for _, cs := range n.valueCases(fn, nil, v, 0) {
		under := cAnd(reach, cs.cond)
		if eq, _ := CondEquivalent(under, cFalse); eq {
			continue
		}
		k, isK := cs.val.IsConst()
		if !isK {
			found := false
			probe := cmpCond(token.EQL, cs.val, pConst(0))
			if probe.Kind != CCmp {
				return 0, false
			}
			for cand := range cv.bases[probe.Base] {
				if imp, _, _ := CondRelation(under, cmpCond(token.EQL, cs.val, pConst(cand))); imp {
					k, found = cand, true
				}
			}
			if !found {
				// the value is outside the fragment (the length of a slice chosen on the way): an
				// equality among the conjuncts of the reach condition still fixes it
				var conj func(c *Cond)
				conj = func(c *Cond) {
					switch {
					case c.Kind == CAnd:
						for _, s := range c.Sub {
							conj(s)
						}
					case (c.Kind == CCmp || c.Kind == CBool) && c.Base == probe.Base && c.Op == "==":
						k, found = -c.K, true
					}
				}
				conj(under)
			}
			if !found {
				return 0, false
			}
		}
		if have && k != K {
			return 0, false
		}
		K, have = k, true
	}
	return K, have
}
