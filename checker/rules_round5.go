package main

import (
	"fmt"
	"go/token"
	"go/types"
	"sort"
	"strings"

	"golang.org/x/tools/go/ssa"
)

// ---------------------------------------------------------------------------------------------
// W1: arithmetic in integer types narrower than 32 bits.
//
// The normal forms treat integers as unbounded; that is only right where no operation can wrap.
// In this code base arithmetic whose RESULT TYPE is narrower than 32 bits is rare; every instance on
// the reference tree was read and is listed here with the reason why it stays in range (or why a
// wrap is harmless). Anything beyond this list - an accumulator that became a byte, a checksum summed
// in uint16 - is reported. The list is per package and per (operator, type), so moving code between
// functions of a package changes nothing.
var narrowAllowed = map[string]map[string]struct {
	n   int
	why string
}{
	"aztec": {
		"+:aztec.encodingMode": {1, "updateStateForChar: loop variable over the five modes 0..4"},
		"conv:int->uint8":      {8, "bit counts handed to AddBits / tokens: latch>>16 (<= 5+5 bits, A1 pins the latch table), word size 6..12 (A2), startPad < word size"},
	},
	"code128": {
		"conv:int->uint8":   {2, "getCodeIndexList: index of the character in a 96..106 character table, >= 0 checked just before"},
		"conv:int32->uint8": {1, "getCodeIndexList: two-digit value 0..99 in set C (digits established by shouldUseCTable, Z7)"},
	},
	"utils": {
		"conv:int->int32":   {1, "IntToRune: i + '0' under 0 <= i <= 9"},
		"conv:int32->uint8": {2, "GetBytes / IterateBytes: (word >> shift) & 0xFF"},
	},
	"datamatrix": {
		"-:uint8":         {4, "Set: 7-bitNum with bitNum 0..7 (D3 pins the bit numbers); encodeText: c-'0' under the digit test, c-127 under c > 127"},
		"*:uint8":         {1, "encodeText: (c-'0')*10 <= 90"},
		"+:uint8":         {3, "encodeText: digit pair + 130 <= 229, c+1 with c <= 127"},
		"conv:int->uint8": {2, "addPadding: 253-state value 1..254 (D5); calcECC: element of GF(256)"},
	},
	"qr": {
		"*:uint8":         {2, "interleave: capacity hint of make(..., 0, n) only; a wrapped hint changes nothing but the initial capacity"},
		"+:uint8":         {4, "interleave: same capacity hint; splitToBlocks: NumberOfBlocksInGroup1+NumberOfBlocksInGroup2 <= 81 (Q2 pins the table)"},
		"-:uint":          {4, "calcPenaltyRule1: cnt - 2 under cnt >= 5"},
		"conv:int->uint8": {1, "calcECC: element of GF(256)"},
	},
}

func narrowOpsOf(fn *ssa.Function) (ops []string, at []ssa.Instruction) {
	eachInstr(fn, func(b *ssa.BasicBlock, ins ssa.Instruction) {
		if cv, ok := ins.(*ssa.Convert); ok && isIntType(cv.Type()) && isIntType(cv.X.Type()) {
			// a conversion to a narrower integer type truncates
			if _, isConst := cv.X.(*ssa.Const); isConst {
				return
			}
			fs, _ := intSize(cv.X.Type())
			ts, _ := intSize(cv.Type())
			if lc, isCall := cv.X.(*ssa.Call); isCall && ts >= 32 {
				// the length of a package-level table fits any 32-bit type
				if bi, isB := lc.Common().Value.(*ssa.Builtin); isB && bi.Name() == "len" {
					if ld, isLd := lc.Common().Args[0].(*ssa.UnOp); isLd {
						if _, isG := ld.X.(*ssa.Global); isG {
							return
						}
					}
				}
			}
			if ts < fs && rangeIndexBelow(cv.X, int64(1)<<uint(min(ts, 62))) {
				return // the index of a range over a table with few entries fits
			}
			if ts < fs {
				ops = append(ops, fmt.Sprintf("conv:%s->%s", typeShort(cv.X.Type()), typeShort(cv.Type())))
				at = append(at, ins)
			}
			return
		}
		bo, ok := ins.(*ssa.BinOp)
		if !ok || !isIntType(bo.Type()) {
			return
		}
		switch bo.Op {
		case token.ADD, token.SUB, token.MUL, token.SHL:
		default:
			return // (| and ^ of two values of a type stay within the type: nothing is lost)
		}
		if sz, uns := intSize(bo.Type()); sz >= 32 {
			// wide enough - except that an unsigned difference wraps at zero
			if uns && bo.Op == token.SUB {
				ops = append(ops, fmt.Sprintf("-:%s", typeShort(bo.Type())))
				at = append(at, ins)
			}
			return
		}
		// the counter of `for range n` over a narrow n: the compiler's own increment, which stops at n
		if phi, isPhi := bo.X.(*ssa.Phi); isPhi && bo.Op == token.ADD && bo.Pos() == token.NoPos && phi.Comment == "rangeint.iter" {
			if k, isK := constInt(bo.Y); isK && k == 1 {
				return
			}
		}
		// constant folding leaves no BinOp; an operation on two constants cannot occur here
		ops = append(ops, fmt.Sprintf("%s:%s", bo.Op, typeShort(bo.Type())))
		at = append(at, ins)
	})
	return
}

func ruleNarrowArith(pkgs ...string) func(c *Ctx) {
	return func(c *Ctx) {
		const R = "W1-NARROW-ARITH"
		c.Doc(R, "arithmetic (+ - * <<) whose result type is narrower than 32 bits, subtraction in an unsigned type and conversions to a narrower integer type occur only at the instances confirmed by reading (per package, operator and type; reasons in narrowAllowed): elsewhere integers are wide enough that the unbounded normal forms are exact, so an accumulator, index or checksum that is narrowed to byte/uint16 or made unsigned is reported")
		c.Floor(R, len(pkgs))
		for _, pk := range pkgs {
			found := map[string]int{}
			where := map[string][]string{}
			nfn := 0
			for _, fn := range c.P.Funcs {
				if fn.Pkg == nil || shortName(fn.Pkg.Pkg.Path()) != pk {
					continue
				}
				nfn++
				ops, at := narrowOpsOf(fn)
				for i, o := range ops {
					found[o]++
					where[o] = append(where[o], c.P.FuncName(fn)+" "+c.P.Pos(at[i].Pos()))
				}
			}
			var extra []string
			for o, k := range found {
				if k > narrowAllowed[pk][o].n {
					sort.Strings(where[o])
					extra = append(extra, fmt.Sprintf("%s x%d (confirmed: %d) at %s", o, k, narrowAllowed[pk][o].n, strings.Join(where[o], ", ")))
				}
			}
			sort.Strings(extra)
			c.Count["narrow_arith_functions_scanned"] += nfn
			c.Check(R, pk+"/narrow-arithmetic", token.NoPos, len(extra) == 0 && nfn > 0, "only the confirmed narrow-typed operations", orOK(strings.Join(extra, "; ")))
		}
		for _, fn := range c.P.CanaryFuncs {
			ops, at := narrowOpsOf(fn)
			for i, o := range ops {
				c.Check(R, c.P.FuncName(fn)+"/"+o, at[i].Pos(), false, "no unconfirmed narrow-typed arithmetic", o)
			}
		}
	}
}

func init() {
	canaries = append(canaries, canary{Pkg: "codabar", Rule: "W1-NARROW-ARITH", Src: `
func zzVerifCanaryNarrow(bits []bool) int {
	var v byte
	for i, b := range bits {
		if b {
			v |= 1 << uint(len(bits)-i-1)
		}
	}
	return int(v)
}`})
	canaryExpect["W1-NARROW-ARITH"] = []string{"zzVerifCanaryNarrow"}
	all := []string{"aztec", "codabar", "code128", "code39", "code93", "datamatrix", "ean", "pdf417", "qr", "twooffive", "utils", "barcode"}
	register("C01", ruleNarrowArith("qr", "utils"))
	register("C02", ruleNarrowArith("datamatrix", "utils"))
	register("C03", ruleNarrowArith("aztec", "utils"))
	register("C04", ruleNarrowArith("pdf417", "utils"))
	register("C05", ruleNarrowArith("code128", "utils"))
	register("C06", ruleNarrowArith("ean", "utils"))
	register("C07", ruleNarrowArith("code39", "code93", "utils"))
	register("C08", ruleNarrowArith("codabar", "twooffive", "utils"))
	register("C10", ruleNarrowArith(all...))
	register("C12", ruleNarrowArith("qr", "datamatrix", "aztec", "pdf417", "utils"))
	register("C14", ruleNarrowArith("ean", "code128", "code39", "utils", "barcode"))
	register("C17", ruleNarrowArith("utils"))
	register("C18", ruleNarrowArith("utils"))
}

// ---------------------------------------------------------------------------------------------
// L4: what SetBit writes and what GetBit tests.
func ruleBitOps(c *Ctx) {
	const R = "L4-BITOPS"
	c.Doc(R, "utils.BitList.SetBit stores, exactly when value is true, word | 1<<s and, exactly when it is false, word &^ (1<<s) into the word it read (s = 31 - index%32, word index/32, L3); no other store; GetBit returns bit s of that word ((word>>s)&1 == 1 or word&(1<<s) != 0)")
	c.Floor(R, 3)
	if fn := c.theFunc(R, "utils.(*BitList).SetBit"); fn != nil && len(fn.Params) == 3 {
		n := NewNormer(c.P)
		n.BindParams(fn, "bl", "index", "value")
		// every load of the addressed word is the role "word"
		eachInstr(fn, func(b *ssa.BasicBlock, ins ssa.Instruction) {
			if ld, ok := ins.(*ssa.UnOp); ok && ld.Op == token.MUL {
				if ia, ok := ld.X.(*ssa.IndexAddr); ok && pEqual(n.Norm(ia.Index), MustRef("index/32")) {
					n.Bind[ld] = "word"
				}
			}
		})
		mask := "Shl(1," + MustRef("31 - index%32").String() + ")"
		setForms := map[string]bool{"Or(" + mask + ",word)": true, "Or(word," + mask + ")": true}
		clrForms := map[string]bool{"AndNot(word," + mask + ")": true, "And(Compl(" + mask + "),word)": true, "And(word,Compl(" + mask + "))": true}
		setC, clrC := cFalse, cFalse
		k := 0
		eachInstr(fn, func(b *ssa.BasicBlock, ins ssa.Instruction) {
			st, ok := ins.(*ssa.Store)
			if !ok {
				return
			}
			if a, _, isLocal := rootAlloc(st.Addr); isLocal && !a.Heap {
				return // a local of SetBit (e.g. the computed position), not list state
			}
			k++
			ia, isIA := st.Addr.(*ssa.IndexAddr)
			if !isIA || !pEqual(n.Norm(ia.Index), MustRef("index/32")) {
				c.Check(R, fmt.Sprintf("utils.(*BitList).SetBit/store#%d", k), st.Pos(), false, "only the addressed word is written", "store to "+n.Norm(st.Addr).String())
				return
			}
			v := n.Norm(st.Val).String()
			rc := n.ReachCond(fn, nil, st.Block())
			switch {
			case setForms[v]:
				setC = cOr(setC, rc)
			case clrForms[v]:
				clrC = cOr(clrC, rc)
			default:
				c.Check(R, fmt.Sprintf("utils.(*BitList).SetBit/store#%d", k), st.Pos(), false, "word | mask or word &^ mask", v)
			}
		})
		c.expectCond(R, "utils.(*BitList).SetBit/set-iff", fn.Pos(), setC, "value")
		c.expectCond(R, "utils.(*BitList).SetBit/clear-iff", fn.Pos(), clrC, "!value")
	}
	if fn := c.theFunc(R, "utils.(*BitList).GetBit"); fn != nil && len(fn.Params) == 2 {
		n := NewNormer(c.P)
		n.BindParams(fn, "bl", "index")
		eachInstr(fn, func(b *ssa.BasicBlock, ins ssa.Instruction) {
			if ld, ok := ins.(*ssa.UnOp); ok && ld.Op == token.MUL {
				if ia, ok := ld.X.(*ssa.IndexAddr); ok && pEqual(n.Norm(ia.Index), MustRef("index/32")) {
					n.Bind[ld] = "word"
				}
			}
		})
		s := MustRef("31 - index%32").String()
		truth := cFalse
		for _, ret := range returnsOf(fn) {
			truth = cOr(truth, cAnd(n.ReachCond(fn, nil, ret.Block()), n.CondOf(ret.Results[0])))
		}
		// the tested quantity: bit s of the word, as (word>>s)&1 or as word&(1<<s); the result is true
		// exactly when it is set (== 1 / != 0 / > 0 of a value that is 0 or 1, != 0 of the masked word)
		okG := false
		x := pAtom("And(1,Shr(word," + s + "))")
		dom := cAnd(cmpCond(token.GEQ, x, pConst(0)), cmpCond(token.LEQ, x, pConst(1)))
		if eq, _ := CondEquivalent(cAnd(dom, truth), cAnd(dom, cmpCond(token.EQL, x, pConst(1)))); eq {
			okG = true
		}
		for _, y := range []string{"And(Shl(1," + s + "),word)", "And(word,Shl(1," + s + "))"} {
			if eq, _ := CondEquivalent(truth, cmpCond(token.NEQ, pAtom(y), pConst(0))); eq {
				okG = true
			}
		}
		c.Check(R, "utils.(*BitList).GetBit/bit", fn.Pos(), okG, "bit 31-index%32 of data[index/32]", truth.String())
	}
}

func init() {
	for _, p := range []string{"C01", "C02", "C03", "C04", "C05", "C06", "C07", "C08", "C16", "C18"} {
		register(p, ruleBitOps)
	}
}

// ---------------------------------------------------------------------------------------------
// K6: the module pattern does not depend on the colours.
func ruleColorIndependence(c *Ctx) {
	const R = "K6-COLOR-INDEPENDENCE"
	c.Doc(R, "inside the encoder packages the colour scheme is only stored (constructors) and read by the image methods At / ColorModel / ColorScheme; no other function of an encoder package reads a scheme's fields or calls At / ColorModel / ColorScheme (mask choice, penalties, placement and text dumps work on the module bits), so the module pattern cannot depend on the colours")
	c.Floor(R, 10)
	imageMethods := map[string]bool{"At": true, "ColorModel": true, "ColorScheme": true}
	isScheme := func(t types.Type) bool {
		if p, ok := t.Underlying().(*types.Pointer); ok {
			t = p.Elem()
		}
		return namedTypeName(t) == "barcode.ColorScheme"
	}
	for _, pk := range []string{"aztec", "codabar", "code128", "code39", "code93", "datamatrix", "ean", "pdf417", "qr", "twooffive", "utils"} {
		var bad []string
		nfn := 0
		fns := append([]*ssa.Function{}, c.P.Funcs...)
		for _, fn := range fns {
			if fn.Pkg == nil || shortName(fn.Pkg.Pkg.Path()) != pk {
				continue
			}
			nfn++
			isImg := fn.Signature.Recv() != nil && imageMethods[fn.Name()]
			eachInstr(fn, func(b *ssa.BasicBlock, ins ssa.Instruction) {
				switch x := ins.(type) {
				case *ssa.FieldAddr:
					// reading Model / Foreground / Background of a scheme
					if isScheme(x.X.Type()) && !isImg {
						for _, r := range *x.Referrers() {
							if ld, ok := r.(*ssa.UnOp); ok && ld.Op == token.MUL {
								bad = append(bad, fmt.Sprintf("%s reads a colour of the scheme (%s)", c.P.FuncName(fn), c.P.Pos(x.Pos())))
							}
						}
					}
				case *ssa.Field:
					if isScheme(x.X.Type()) && !isImg {
						bad = append(bad, fmt.Sprintf("%s reads a colour of the scheme (%s)", c.P.FuncName(fn), c.P.Pos(x.Pos())))
					}
				case ssa.CallInstruction:
					cc := x.Common()
					name := ""
					if cc.IsInvoke() {
						name = cc.Method.Name()
					} else if cal := cc.StaticCallee(); cal != nil && cal.Signature.Recv() != nil && isRepoFunc(cal) {
						name = cal.Name()
					}
					if imageMethods[name] && !(isImg && name == fn.Name()) {
						bad = append(bad, fmt.Sprintf("%s calls %s (%s)", c.P.FuncName(fn), name, c.P.Pos(x.Pos())))
					}
				}
			})
		}
		sort.Strings(bad)
		c.Check(R, pk+"/colour-free-internals", token.NoPos, len(bad) == 0 && nfn > 0, "colours are read only by At/ColorModel/ColorScheme", orOK(strings.Join(bad, "; ")))
	}
	for _, fn := range c.P.CanaryFuncs {
		eachInstr(fn, func(b *ssa.BasicBlock, ins ssa.Instruction) {
			if x, ok := ins.(ssa.CallInstruction); ok {
				cc := x.Common()
				if cal := cc.StaticCallee(); cal != nil && cal.Signature.Recv() != nil && isRepoFunc(cal) && imageMethods[cal.Name()] {
					c.Check(R, c.P.FuncName(fn)+"/calls-"+cal.Name(), x.Pos(), false, "no image method call in encoder internals", cal.Name())
				}
			}
		})
	}
}

func init() {
	canaries = append(canaries, canary{Pkg: "qr", Rule: "K6-COLOR-INDEPENDENCE", Src: `
func zzVerifCanaryDark(q *qrcode) int {
	n := 0
	for x := 0; x < q.dimension; x++ {
		if q.At(x, 0) == q.color.Foreground {
			n++
		}
	}
	return n
}`})
	canaryExpect["K6-COLOR-INDEPENDENCE"] = []string{"zzVerifCanaryDark"}
	register("C11", ruleColorIndependence)
	register("C01", ruleColorIndependence)
}

// ---------------------------------------------------------------------------------------------
// Q12: the alphanumeric index of a character.
func ruleQRAlphaLookup(c *Ctx) {
	const R = "Q12-QR-ALPHA-LOOKUP"
	c.Doc(R, "qr.stringToAlphaIdx sends, for every rune r of the content, strings.IndexRune(charSet, r) with the full rune (no narrowing to a byte: a non-ASCII rune must give -1); the producer stops after the first negative index")
	c.Floor(R, 2)
	fn := c.theFunc(R, "qr.stringToAlphaIdx")
	if fn == nil {
		return
	}
	n := NewNormer(c.P)
	n.BindParams(fn, "content")
	sends := 0
	c.P.deepEachWithClosures(fn, func(f *ssa.Function, ins ssa.Instruction) {
		snd, ok := ins.(*ssa.Send)
		if !ok {
			return
		}
		sends++
		c.Fn(c.P.FuncName(f))
		// the rune of the range loop around the send
		var runeV ssa.Value
		eachInstr(f, func(b *ssa.BasicBlock, i2 ssa.Instruction) {
			if nx, ok := i2.(*ssa.Next); ok && nx.IsString {
				for _, r := range *nx.Referrers() {
					if ex, ok := r.(*ssa.Extract); ok && ex.Index == 2 {
						runeV = ex
					}
				}
			}
		})
		if runeV == nil {
			c.Undecided(R, "qr.stringToAlphaIdx/runes", snd.Pos(), "no range over the runes of the content")
			return
		}
		n.Bind[runeV] = "r"
		cs, _ := c.P.ConstString("qr", "charSet")
		got := n.Norm(snd.X).String()
		want := fmt.Sprintf("call:strings.IndexRune(const:%q,r)", cs)
		c.Check(R, "qr.stringToAlphaIdx/index", snd.Pos(), got == want, want, got)
	})
	c.Check(R, "qr.stringToAlphaIdx/sends", fn.Pos(), sends == 1, "one send per rune", fmt.Sprint(sends))
	if cs, ok := c.P.ConstString("qr", "charSet"); ok {
		c.Check(R, "qr.charSet", c.P.PkgConst("qr", "charSet").Pos(), cs == "0123456789ABCDEFGHIJKLMNOPQRSTUVWXYZ $%*+-./:", "the 45 characters of ISO 18004 table 5 in value order", cs)
	} else {
		c.Anchor(R, "qr.charSet", "constant not found")
	}
}

func init() {
	register("C01", ruleQRAlphaLookup)
	register("C10", ruleQRAlphaLookup)
	register("C13", ruleQRAlphaLookup)
}

// deepEachWithClosures visits the instructions of fn, of its function literals and of the
// unexported functions of the same package they call or start as goroutines (two levels).
func (p *Prog) deepEachWithClosures(fn *ssa.Function, f func(in *ssa.Function, ins ssa.Instruction)) {
	seen := map[*ssa.Function]bool{}
	var walk func(g *ssa.Function, depth int)
	walk = func(g *ssa.Function, depth int) {
		if g == nil || seen[g] || g.Blocks == nil {
			return
		}
		seen[g] = true
		eachInstr(g, func(b *ssa.BasicBlock, ins ssa.Instruction) {
			f(g, ins)
			if ci, ok := ins.(ssa.CallInstruction); ok && depth < 2 {
				if cal := ci.Common().StaticCallee(); cal != nil && isRepoFunc(cal) && cal.Pkg == fn.Pkg && cal.Object() != nil && !cal.Object().Exported() {
					walk(cal, depth+1)
				}
			}
		})
		for _, a := range g.AnonFuncs {
			walk(a, depth)
		}
	}
	walk(fn, 0)
}

func init() {
	// shared machinery, registered for the properties it serves: the Reed-Solomon encoder of utils is
	// the error correction of QR, DataMatrix and Aztec; the 1D constructors carry the colour scheme of
	// every 1D encoder; PDF417's text machine decides what its high-level encoder accepts
	for _, p := range []string{"C01", "C02", "C03", "C12"} {
		register(p, ruleGFArith, ruleGFPolyArith)
	}
	for _, p := range []string{"C05", "C06", "C07", "C08"} {
		register(p, ruleColor)
	}
	register("C10", rulePDF417TextMachine, rulePDF417Latches)
}

// rangeIndexBelow: v is the index of a `for i := range x` loop (go/ssa: phi from -1, index = phi+1)
// whose bound is a constant not above limit - the index then lies in 0..limit-1.
func rangeIndexBelow(v ssa.Value, limit int64) bool {
	bo, ok := v.(*ssa.BinOp)
	if !ok || bo.Op != token.ADD {
		return false
	}
	phi, ok := bo.X.(*ssa.Phi)
	if !ok || phi.Comment != "rangeindex" {
		return false
	}
	if k, isK := constInt(bo.Y); !isK || k != 1 {
		return false
	}
	refs := bo.Referrers()
	if refs == nil {
		return false
	}
	for _, r := range *refs {
		if cmp, isCmp := r.(*ssa.BinOp); isCmp && cmp.Op == token.LSS && cmp.X == ssa.Value(bo) {
			if k, isK := constInt(cmp.Y); isK && int64(k) <= limit && k >= 0 {
				if _, isIf := phi.Block().Instrs[len(phi.Block().Instrs)-1].(*ssa.If); isIf && cmp.Block() == phi.Block() {
					return true
				}
			}
		}
	}
	return false
}
