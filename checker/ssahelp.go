package main

import (
	"go/token"
	"go/types"
	"strings"

	"golang.org/x/tools/go/ssa"
)

// eachInstr visits every instruction of fn.
func eachInstr(fn *ssa.Function, f func(b *ssa.BasicBlock, ins ssa.Instruction)) {
	for _, b := range fn.Blocks {
		for _, ins := range b.Instrs {
			f(b, ins)
		}
	}
}

// calleeOf returns the statically resolved callee of a call instruction (nil for dynamic calls).
func calleeOf(ins ssa.Instruction) *ssa.Function {
	ci, ok := ins.(ssa.CallInstruction)
	if !ok {
		return nil
	}
	return ci.Common().StaticCallee()
}

// calleeFull returns "pkgpath.Name" of the static callee, "" if none.
func calleeFull(ins ssa.Instruction) string {
	fn := calleeOf(ins)
	if fn == nil {
		return ""
	}
	if fn.Pkg != nil {
		if fn.Signature.Recv() != nil {
			return fn.String()
		}
		return fn.Pkg.Pkg.Path() + "." + fn.Name()
	}
	return fn.String()
}

// callsTo finds call instructions in fn whose static callee is target.
func callsTo(fn *ssa.Function, target *ssa.Function) []*ssa.Call {
	var out []*ssa.Call
	eachInstr(fn, func(b *ssa.BasicBlock, ins ssa.Instruction) {
		if c, ok := ins.(*ssa.Call); ok && c.Common().StaticCallee() == target {
			out = append(out, c)
		}
	})
	return out
}

func isRepoFunc(fn *ssa.Function) bool {
	return fn != nil && fn.Pkg != nil && strings.HasPrefix(fn.Pkg.Pkg.Path(), modPath)
}

// returnsOf lists the Return instructions of fn.
func returnsOf(fn *ssa.Function) []*ssa.Return {
	var out []*ssa.Return
	eachInstr(fn, func(b *ssa.BasicBlock, ins ssa.Instruction) {
		if r, ok := ins.(*ssa.Return); ok {
			out = append(out, r)
		}
	})
	return out
}

// strip removes value-preserving wrappers.
func strip(v ssa.Value) ssa.Value {
	for {
		switch x := v.(type) {
		case *ssa.ChangeType:
			v = x.X
		case *ssa.MakeInterface:
			v = x.X
		case *ssa.ChangeInterface:
			v = x.X
		default:
			return v
		}
	}
}

func namedTypeName(t types.Type) string {
	if p, ok := t.(*types.Pointer); ok {
		t = p.Elem()
	}
	if n, ok := t.(*types.Named); ok {
		if n.Obj().Pkg() != nil {
			return shortName(n.Obj().Pkg().Path()) + "." + n.Obj().Name()
		}
		return n.Obj().Name()
	}
	return t.String()
}

func isNilConst(v ssa.Value) bool {
	c, ok := v.(*ssa.Const)
	return ok && c.Value == nil
}

// posOf gives a useful position for an instruction/value.
func posOf(v interface{ Pos() token.Pos }, fn *ssa.Function) token.Pos {
	if p := v.Pos(); p.IsValid() {
		return p
	}
	if fn != nil {
		return fn.Pos()
	}
	return token.NoPos
}

// instrPos tries harder: for instructions without position use the first operand with one.
func instrPos(ins ssa.Instruction) token.Pos {
	if ins.Pos().IsValid() {
		return ins.Pos()
	}
	for _, op := range ins.Operands(nil) {
		if *op != nil && (*op).Pos().IsValid() {
			return (*op).Pos()
		}
	}
	if ins.Parent() != nil {
		return ins.Parent().Pos()
	}
	return token.NoPos
}

// dominatesInstr: does instruction a dominate instruction b (same function)?
func dominatesInstr(a, b ssa.Instruction) bool {
	ba, bb := a.Block(), b.Block()
	if ba == bb {
		for _, ins := range ba.Instrs {
			if ins == a {
				return true
			}
			if ins == b {
				return false
			}
		}
		return false
	}
	return ba.Dominates(bb)
}

// reachable blocks from b following forward and back edges.
func reachableFrom(b *ssa.BasicBlock) map[*ssa.BasicBlock]bool {
	seen := map[*ssa.BasicBlock]bool{}
	var walk func(x *ssa.BasicBlock)
	walk = func(x *ssa.BasicBlock) {
		if seen[x] {
			return
		}
		seen[x] = true
		for _, s := range x.Succs {
			walk(s)
		}
	}
	walk(b)
	return seen
}

// exported entry points of the repo's packages: exported functions of non-utils packages and
// the root package whose results include Barcode/BarcodeIntCS, plus helpers named explicitly.
func (p *Prog) exportedFuncs(pkg string) []*ssa.Function {
	var out []*ssa.Function
	for _, fn := range p.Funcs {
		if fn.Parent() != nil || fn.Pkg == nil || shortName(fn.Pkg.Pkg.Path()) != pkg {
			continue
		}
		if fn.Signature.Recv() != nil {
			continue
		}
		if !token.IsExported(fn.Name()) {
			continue
		}
		out = append(out, fn)
	}
	return out
}

func isBarcodeIface(t types.Type) bool {
	n, ok := t.(*types.Named)
	if !ok || n.Obj().Pkg() == nil || n.Obj().Pkg().Path() != modPath {
		return false
	}
	return n.Obj().Name() == "Barcode" || n.Obj().Name() == "BarcodeIntCS"
}

func isErrorType(t types.Type) bool {
	n, ok := t.(*types.Named)
	return ok && n.Obj().Pkg() == nil && n.Obj().Name() == "error"
}

func isColorScheme(t types.Type) bool {
	n, ok := t.(*types.Named)
	return ok && n.Obj().Pkg() != nil && n.Obj().Pkg().Path() == modPath && n.Obj().Name() == "ColorScheme"
}

const tokenGEQ = token.GEQ

// ---------------------------------------------------------------------------------------------
// Bottom-tested ("rotated") counting loops. go/ssa lowers `for i := range n` to
//
//	pre:   if cond(init) goto hdr else done
//	hdr:   x = phi [pre: init, latch: next]   ... body ...
//	latch: next = x + step; if cond(next) goto hdr else done
//
// so the block that carries the loop variable has no exit test of its own. rotatedLoop recognises the
// shape; Normer.LoopWhile gives the loop's continue condition as a condition on the value of the loop
// variable in the current iteration (cond(x)), which holds at the top of hdr in every iteration - the
// same statement a top-tested loop makes with its header test.
type rotated struct {
	pre, latch, done *ssa.BasicBlock
	phi              *ssa.Phi
	init, next       ssa.Value
}

func rotatedLoop(hdr *ssa.BasicBlock) (*rotated, bool) {
	if hdr == nil || len(hdr.Preds) != 2 {
		return nil, false
	}
	var pre, latch *ssa.BasicBlock
	var pi, li int
	for i, p := range hdr.Preds {
		if hdr.Dominates(p) {
			latch, li = p, i
		} else {
			pre, pi = p, i
		}
	}
	if pre == nil || latch == nil || len(pre.Succs) != 2 || len(latch.Succs) != 2 {
		return nil, false
	}
	if pre.Succs[0] != hdr || latch.Succs[0] != hdr || pre.Succs[1] != latch.Succs[1] {
		return nil, false
	}
	// the header itself must not leave the loop (unless the whole loop is this one block)
	for _, s := range hdr.Succs {
		if latch == hdr {
			break
		}
		if !hdr.Dominates(s) || s == pre.Succs[1] {
			return nil, false
		}
	}
	for _, ins := range hdr.Instrs {
		p, ok := ins.(*ssa.Phi)
		if !ok {
			break
		}
		if !isIntType(p.Type()) {
			continue
		}
		if bo, ok := p.Edges[li].(*ssa.BinOp); ok && bo.Op == token.ADD && bo.X == ssa.Value(p) {
			if _, isC := bo.Y.(*ssa.Const); isC {
				return &rotated{pre: pre, latch: latch, done: pre.Succs[1], phi: p, init: p.Edges[pi], next: bo}, true
			}
		}
	}
	return nil, false
}

// LoopWhile: for a bottom-tested counting loop the continue condition in terms of the loop variable's
// current value; nil when hdr is not such a loop or the entry test is not the same condition at the
// start value.
func (n *Normer) LoopWhile(hdr *ssa.BasicBlock) *Cond {
	if n.noRot {
		return nil
	}
	rot, ok := rotatedLoop(hdr)
	if !ok {
		return nil
	}
	li, ok1 := rot.latch.Instrs[len(rot.latch.Instrs)-1].(*ssa.If)
	pi, ok2 := rot.pre.Instrs[len(rot.pre.Instrs)-1].(*ssa.If)
	if !ok1 || !ok2 {
		return nil
	}
	n.noRot = true
	defer func() { n.noRot = false }()
	// cond(next) with next := x
	n.env = append(n.env, map[ssa.Value]Poly{rot.next: n.Norm(rot.phi)})
	while := n.CondOf(li.Cond)
	n.env = n.env[:len(n.env)-1]
	// cond(next) with next := init must be the entry test
	n.env = append(n.env, map[ssa.Value]Poly{rot.next: n.Norm(rot.init)})
	atInit := n.CondOf(li.Cond)
	n.env = n.env[:len(n.env)-1]
	if eq, _ := CondEquivalent(atInit, n.CondOf(pi.Cond)); !eq {
		return nil
	}
	return while
}

// loopExitBlock: the block control reaches when the loop of hdr ends normally.
func loopExitBlock(hdr *ssa.BasicBlock) *ssa.BasicBlock {
	if rot, ok := rotatedLoop(hdr); ok {
		return rot.done
	}
	if len(hdr.Succs) == 2 {
		return hdr.Succs[1-loopBodySucc(hdr)]
	}
	return nil
}

// LoopCond: the continue condition of the loop headed by hdr in terms of the current value of its
// variable(s) - the header test of a top-tested loop, LoopWhile of a bottom-tested one.
func (n *Normer) LoopCond(hdr *ssa.BasicBlock) *Cond {
	if w := n.LoopWhile(hdr); w != nil {
		return w
	}
	if len(hdr.Succs) == 2 {
		return n.EdgeCond(hdr, hdr.Succs[loopBodySucc(hdr)])
	}
	return cTrue
}

// loopBodySucc: which successor of a top-tested loop header stays in the loop: normally the first
// (`for cond {`), the second when the header test is written as `if !cond { break }`.
func loopBodySucc(hdr *ssa.BasicBlock) int {
	if len(hdr.Succs) != 2 {
		return 0
	}
	back := func(from *ssa.BasicBlock) bool {
		seen := map[*ssa.BasicBlock]bool{}
		var walk func(b *ssa.BasicBlock) bool
		walk = func(b *ssa.BasicBlock) bool {
			if b == hdr {
				return true
			}
			if seen[b] || !hdr.Dominates(b) {
				return false
			}
			seen[b] = true
			for _, s := range b.Succs {
				if walk(s) {
					return true
				}
			}
			return false
		}
		return walk(from)
	}
	if !back(hdr.Succs[0]) && back(hdr.Succs[1]) {
		return 1
	}
	return 0
}

// inLoopBody: blk belongs to the body of the loop headed by hdr (for a bottom-tested loop the header
// block itself is the first block of the body).
func inLoopBody(hdr, blk *ssa.BasicBlock) bool {
	if _, ok := rotatedLoop(hdr); ok {
		return hdr.Dominates(blk)
	}
	return len(hdr.Succs) > 0 && hdr.Succs[loopBodySucc(hdr)].Dominates(blk)
}

// BodyStart: the block from which conditions inside the body are taken: the first body block of a
// top-tested loop; the header itself for a bottom-tested loop (whose continue condition is then not
// made part of conditions taken from it, exactly as the header test of a top-tested loop is not).
func (n *Normer) BodyStart(hdr *ssa.BasicBlock) *ssa.BasicBlock {
	if _, ok := rotatedLoop(hdr); ok {
		if n.bodyFrom == nil {
			n.bodyFrom = map[*ssa.BasicBlock]bool{}
		}
		n.bodyFrom[hdr] = true
		return hdr
	}
	return hdr.Succs[0]
}

// rotatedExitAlias: after a bottom-tested loop go/ssa merges "loop not entered" and "loop finished"
// in a phi of the exit block: [pre: init of P, latch: next value of P] for a header phi P. That is
// the value P has when the loop ends - what the header phi itself denotes after a top-tested loop.
func rotatedExitAlias(phi *ssa.Phi) *ssa.Phi {
	blk := phi.Block()
	for _, p := range blk.Preds {
		if len(p.Succs) != 2 || p.Succs[1] != blk {
			continue
		}
		rot, ok := rotatedLoop(p.Succs[0])
		if !ok || rot.done != blk {
			continue
		}
		hdr := p.Succs[0]
		pi, li, hpi, hli := -1, -1, -1, -1
		for i, q := range blk.Preds {
			if q == rot.pre {
				pi = i
			}
			if q == rot.latch {
				li = i
			}
		}
		for i, q := range hdr.Preds {
			if q == rot.pre {
				hpi = i
			}
			if q == rot.latch {
				hli = i
			}
		}
		if pi < 0 || li < 0 || hpi < 0 || hli < 0 || len(blk.Preds) != 2 {
			continue
		}
		for _, ins := range hdr.Instrs {
			hp, ok := ins.(*ssa.Phi)
			if !ok {
				break
			}
			if sameValue(hp.Edges[hpi], phi.Edges[pi]) && hp.Edges[hli] == phi.Edges[li] {
				return hp
			}
		}
	}
	return nil
}

func sameValue(a, b ssa.Value) bool {
	if a == b {
		return true
	}
	ca, ok1 := a.(*ssa.Const)
	cb, ok2 := b.(*ssa.Const)
	if ok1 && ok2 && types.Identical(ca.Type(), cb.Type()) {
		if ca.Value == nil || cb.Value == nil {
			return ca.Value == nil && cb.Value == nil
		}
		return ca.Value.ExactString() == cb.Value.ExactString()
	}
	return false
}

// tableRead: an element read of a table, whether the table is a map (Lookup) or an array / slice
// (Index, or the load of an IndexAddr): the instruction that yields the element.
func tableRead(ins ssa.Instruction) (ssa.Value, bool) {
	switch x := ins.(type) {
	case *ssa.Lookup:
		if _, isMap := x.X.Type().Underlying().(*types.Map); isMap {
			return x, true
		}
	case *ssa.Index:
		return x, true
	case *ssa.UnOp:
		if x.Op == token.MUL {
			if _, ok := x.X.(*ssa.IndexAddr); ok {
				return x, true
			}
		}
	}
	return nil, false
}

// canonAccess rewrites every idx(X,k) of a normal form as X[k]: an element access reads the same
// whether the table is a map or an array.
func canonAccess(s string) string {
	for {
		i := strings.Index(s, "idx(")
		if i < 0 {
			return s
		}
		// matching parenthesis and the last top-level comma
		depth, comma, end := 0, -1, -1
		for j := i + 3; j < len(s); j++ {
			switch s[j] {
			case '(', '[':
				depth++
			case ')', ']':
				depth--
				if depth == 0 && s[j] == ')' {
					end = j
				}
			case ',':
				if depth == 1 {
					comma = j
				}
			}
			if end >= 0 {
				break
			}
		}
		if end < 0 || comma < 0 {
			return s
		}
		s = s[:i] + s[i+4:comma] + "[" + s[comma+1:end] + "]" + s[end+1:]
	}
}

// isLoopHeader: some predecessor of b is dominated by b (a back edge enters it).
func isLoopHeader(b *ssa.BasicBlock) bool {
	for _, p := range b.Preds {
		if b.Dominates(p) {
			return true
		}
	}
	return false
}

// notFirstFlag: a boolean carried by the loop at hdr that is false when the loop is entered and set
// to true on every way round it (`first := true ... first = false` reads as its negation at the use):
// "this is not the first iteration". The phi, and whether the flag is the negated form (true on
// entry, false afterwards).
func notFirstFlag(hdr *ssa.BasicBlock) (flag *ssa.Phi, negated bool) {
	lookIn := []*ssa.BasicBlock{hdr}
	for _, blk := range lookIn {
		for _, ins := range blk.Instrs {
			phi, ok := ins.(*ssa.Phi)
			if !ok {
				break
			}
			if !isBoolType(phi.Type()) {
				continue
			}
			entry, round := -1, -1 // 0 false, 1 true, 2 mixed
			for ei, e := range phi.Edges {
				k, isC := e.(*ssa.Const)
				if !isC || k.Value == nil {
					entry, round = 2, 2
					break
				}
				v := 0
				if k.Value.String() == "true" {
					v = 1
				}
				slot := &entry
				if blk.Dominates(blk.Preds[ei]) {
					slot = &round
				}
				if *slot == -1 {
					*slot = v
				} else if *slot != v {
					*slot = 2
				}
			}
			if entry == 0 && round == 1 {
				return phi, false
			}
			if entry == 1 && round == 0 {
				return phi, true
			}
		}
	}
	return nil, false
}

// condMentions: the condition contains the named boolean.
func condMentions(c *Cond, name string) bool {
	if c == nil {
		return false
	}
	if c.Kind == CBool && c.Name == name {
		return true
	}
	for _, s := range c.Sub {
		if condMentions(s, name) {
			return true
		}
	}
	return false
}
