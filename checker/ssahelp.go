package main

import (
	"go/token"
	"go/types"
	"strings"

	"golang.org/x/tools/go/ssa"
)

// eachInstr visits every instruction of fn.
func eachInstr(fn *ssa.Function, f func(b *ssa.BasicBlock, ins ssa.Instruction)) {
	for _, b := range fn.Blocks {
		for _, ins := range b.Instrs {
			f(b, ins)
		}
	}
}

// calleeOf returns the statically resolved callee of a call instruction (nil for dynamic calls).
func calleeOf(ins ssa.Instruction) *ssa.Function {
	ci, ok := ins.(ssa.CallInstruction)
	if !ok {
		return nil
	}
	return ci.Common().StaticCallee()
}

// calleeFull returns "pkgpath.Name" of the static callee, "" if none.
func calleeFull(ins ssa.Instruction) string {
	fn := calleeOf(ins)
	if fn == nil {
		return ""
	}
	if fn.Pkg != nil {
		if fn.Signature.Recv() != nil {
			return fn.String()
		}
		return fn.Pkg.Pkg.Path() + "." + fn.Name()
	}
	return fn.String()
}

// callsTo finds call instructions in fn whose static callee is target.
func callsTo(fn *ssa.Function, target *ssa.Function) []*ssa.Call {
	var out []*ssa.Call
	eachInstr(fn, func(b *ssa.BasicBlock, ins ssa.Instruction) {
		if c, ok := ins.(*ssa.Call); ok && c.Common().StaticCallee() == target {
			out = append(out, c)
		}
	})
	return out
}

func isRepoFunc(fn *ssa.Function) bool {
	return fn != nil && fn.Pkg != nil && strings.HasPrefix(fn.Pkg.Pkg.Path(), modPath)
}

// returnsOf lists the Return instructions of fn.
func returnsOf(fn *ssa.Function) []*ssa.Return {
	var out []*ssa.Return
	eachInstr(fn, func(b *ssa.BasicBlock, ins ssa.Instruction) {
		if r, ok := ins.(*ssa.Return); ok {
			out = append(out, r)
		}
	})
	return out
}

// strip removes value-preserving wrappers.
func strip(v ssa.Value) ssa.Value {
	for {
		switch x := v.(type) {
		case *ssa.ChangeType:
			v = x.X
		case *ssa.MakeInterface:
			v = x.X
		case *ssa.ChangeInterface:
			v = x.X
		default:
			return v
		}
	}
}

func namedTypeName(t types.Type) string {
	if p, ok := t.(*types.Pointer); ok {
		t = p.Elem()
	}
	if n, ok := t.(*types.Named); ok {
		if n.Obj().Pkg() != nil {
			return shortName(n.Obj().Pkg().Path()) + "." + n.Obj().Name()
		}
		return n.Obj().Name()
	}
	return t.String()
}

func isNilConst(v ssa.Value) bool {
	c, ok := v.(*ssa.Const)
	return ok && c.Value == nil
}

// posOf gives a useful position for an instruction/value.
func posOf(v interface{ Pos() token.Pos }, fn *ssa.Function) token.Pos {
	if p := v.Pos(); p.IsValid() {
		return p
	}
	if fn != nil {
		return fn.Pos()
	}
	return token.NoPos
}

// instrPos tries harder: for instructions without position use the first operand with one.
func instrPos(ins ssa.Instruction) token.Pos {
	if ins.Pos().IsValid() {
		return ins.Pos()
	}
	for _, op := range ins.Operands(nil) {
		if *op != nil && (*op).Pos().IsValid() {
			return (*op).Pos()
		}
	}
	if ins.Parent() != nil {
		return ins.Parent().Pos()
	}
	return token.NoPos
}

// dominatesInstr: does instruction a dominate instruction b (same function)?
func dominatesInstr(a, b ssa.Instruction) bool {
	ba, bb := a.Block(), b.Block()
	if ba == bb {
		for _, ins := range ba.Instrs {
			if ins == a {
				return true
			}
			if ins == b {
				return false
			}
		}
		return false
	}
	return ba.Dominates(bb)
}

// reachable blocks from b following forward and back edges.
func reachableFrom(b *ssa.BasicBlock) map[*ssa.BasicBlock]bool {
	seen := map[*ssa.BasicBlock]bool{}
	var walk func(x *ssa.BasicBlock)
	walk = func(x *ssa.BasicBlock) {
		if seen[x] {
			return
		}
		seen[x] = true
		for _, s := range x.Succs {
			walk(s)
		}
	}
	walk(b)
	return seen
}

// exported entry points of the repo's packages: exported functions of non-utils packages and
// the root package whose results include Barcode/BarcodeIntCS, plus helpers named explicitly.
func (p *Prog) exportedFuncs(pkg string) []*ssa.Function {
	var out []*ssa.Function
	for _, fn := range p.Funcs {
		if fn.Parent() != nil || fn.Pkg == nil || shortName(fn.Pkg.Pkg.Path()) != pkg {
			continue
		}
		if fn.Signature.Recv() != nil {
			continue
		}
		if !token.IsExported(fn.Name()) {
			continue
		}
		out = append(out, fn)
	}
	return out
}

func isBarcodeIface(t types.Type) bool {
	n, ok := t.(*types.Named)
	if !ok || n.Obj().Pkg() == nil || n.Obj().Pkg().Path() != modPath {
		return false
	}
	return n.Obj().Name() == "Barcode" || n.Obj().Name() == "BarcodeIntCS"
}

func isErrorType(t types.Type) bool {
	n, ok := t.(*types.Named)
	return ok && n.Obj().Pkg() == nil && n.Obj().Name() == "error"
}

func isColorScheme(t types.Type) bool {
	n, ok := t.(*types.Named)
	return ok && n.Obj().Pkg() != nil && n.Obj().Pkg().Path() == modPath && n.Obj().Name() == "ColorScheme"
}

const tokenGEQ = token.GEQ
