package main

import (
	"fmt"
	"sort"
	"strings"

	"golang.org/x/tools/go/ssa"
)

// loopShape: index value, first value and step of a counting loop with an arbitrary step.
func loopShape(n *Normer, hdr *ssa.BasicBlock) (idx ssa.Value, init Poly, step Poly, ok bool) {
	cs := loopShapes(n, hdr)
	if len(cs) == 0 {
		return nil, nil, nil, false
	}
	return cs[0].idx, cs[0].init, cs[0].step, true
}

type loopVar struct {
	idx        ssa.Value
	init, step Poly
}

// loopShapes: every header phi that advances by a loop-invariant step (unit-step counters first).
func loopShapes(n *Normer, hdr *ssa.BasicBlock) []loopVar {
	var out []loopVar
	if v, _, in, isUnit := loopIndex(hdr); isUnit {
		out = append(out, loopVar{v, pConst(in), pConst(1)})
	}
	for _, ins := range hdr.Instrs {
		phi, isPhi := ins.(*ssa.Phi)
		if !isPhi {
			break
		}
		if !isIntType(phi.Type()) {
			continue
		}
		if len(out) > 0 && (out[0].idx == ssa.Value(phi)) {
			continue
		}
		var in, st Poly
		nIn, nSt, bad := 0, 0, false
		prev, hadPrev := n.Bind[phi]
		n.Bind[phi] = "\x00self"
		for i, e := range phi.Edges {
			if hdr.Dominates(hdr.Preds[i]) {
				d := pAdd(n.Norm(e), pAtom("\x00self"), -1)
				if strings.Contains(d.String(), "\x00self") {
					bad = true
				}
				if nSt > 0 && !pEqual(st, d) {
					bad = true
				}
				st = d
				nSt++
			} else {
				in = n.Norm(e)
				nIn++
			}
		}
		delete(n.Bind, phi)
		if hadPrev {
			n.Bind[phi] = prev
		}
		if !bad && nIn == 1 && nSt >= 1 {
			out = append(out, loopVar{phi, in, st})
		}
	}
	return out
}

// D9: DataMatrix Merge - finder / clock tracks and region copy.
func ruleDataMatrixMerge(c *Ctx) {
	const R = "D9-DM-MERGE"
	c.Doc(R, "datamatrix codeLayout.Merge: dotted top tracks every RegionRows+2 rows from row 0 (every second column), solid bottom tracks from row RegionRows+1, dotted right tracks from column RegionColumns+1 every RegionColumns+2 columns (every second row from 1), solid left tracks from column 0; every data module (x,y) of region (h,v) is copied from matrix position (RC*h+x, RR*v+y) to symbol position ((RC+2)*h+x+1, (RR+2)*v+y+1)")
	c.Floor(R, 5)
	fn := c.theFunc(R, "datamatrix.(*codeLayout).Merge")
	if fn == nil {
		return
	}
	n := NewNormer(c.P)
	n.BindParams(fn, "l")
	for k, v := range map[string]string{"RegionRows": "RR", "RegionColumns": "RC", "MatrixColumns": "MC", "MatrixRows": "MR"} {
		n.NoInline["datamatrix.(*dmCodeSize)."+k] = true
		n.AtomAlias["call:datamatrix.(*dmCodeSize)."+k+"(l.size)"] = v
	}
	n.NoInline["utils.(*BitList).GetBit"] = true
	setFn := c.P.Func("datamatrix.(*datamatrixCode).set")
	var got []string
	for _, site := range c.P.deepCallsTo(fn, setFn) {
		// the drawing loops may live in unexported helpers of Merge: values are read in the calling context
		call := site.Ins.(*ssa.Call)
		savedCtx := n.Ctx
		n.Ctx = site.Path
		if site.Fn != fn {
			c.Fn(c.P.FuncName(site.Fn))
		}
		// enclosing loops, innermost first
		var loops []string
		names := []string{"a", "b", "c", "d"}
		var hdrs []*ssa.BasicBlock
		for d := call.Block(); d != nil; d = d.Idom() {
			inLoop := false
			for _, p := range d.Preds {
				if d.Dominates(p) && (p == call.Block() || reachableWithin(d, call.Block(), p)) {
					inLoop = true
				}
			}
			if inLoop {
				hdrs = append(hdrs, d)
			}
		}
		// name outermost first so that signatures are stable
		bound := []ssa.Value{}
		for k := len(hdrs) - 1; k >= 0; k-- {
			idx, init, step, ok := loopShape(n, hdrs[k])
			if !ok || len(hdrs)-1-k >= len(names) {
				loops = append(loops, "?")
				continue
			}
			nm := names[len(hdrs)-1-k]
			n.Bind[idx] = nm
			bound = append(bound, idx)
			loops = append(loops, fmt.Sprintf("%s from %s step %s while %s", nm, init, step, n.LoopCond(hdrs[k])))
		}
		a := call.Common().Args
		sig := fmt.Sprintf("set(%s, %s, %s) in [%s]", n.Norm(a[1]), n.Norm(a[2]), n.Norm(a[3]), strings.Join(loops, "; "))
		got = append(got, sig)
		for _, v := range bound {
			delete(n.Bind, v)
		}
		n.Ctx = savedCtx
	}
	sort.Strings(got)
	cnd := func(s string) string { return MustRefCond(s).String() }
	pl := func(s string) string { return MustRef(s).String() }
	want := []string{
		// dotted horizontal
		fmt.Sprintf("set(b, a, const:true) in [a from 0 step %s while %s; b from 0 step 2 while %s]", pl("RR + 2"), cnd("a < l.size.Rows"), cnd("b < l.size.Columns")),
		// solid horizontal
		fmt.Sprintf("set(b, a, const:true) in [a from %s step %s while %s; b from 0 step 1 while %s]", pl("RR + 1"), pl("RR + 2"), cnd("a < l.size.Rows"), cnd("b < l.size.Columns")),
		// dotted vertical
		fmt.Sprintf("set(a, b, const:true) in [a from %s step %s while %s; b from 1 step 2 while %s]", pl("RC + 1"), pl("RC + 2"), cnd("a < l.size.Columns"), cnd("b < l.size.Rows")),
		// solid vertical
		fmt.Sprintf("set(a, b, const:true) in [a from 0 step %s while %s; b from 0 step 1 while %s]", pl("RC + 2"), cnd("a < l.size.Columns"), cnd("b < l.size.Rows")),
		// region copy
		fmt.Sprintf("set(%s, %s, call:utils.(*BitList).GetBit(l.matrix,%s)) in [a from 0 step 1 while %s; b from 0 step 1 while %s; c from 0 step 1 while %s; d from 0 step 1 while %s]",
			pl("(2 + RC)*a + c + 1"), pl("(2 + RR)*b + d + 1"), pl("RC*a + c + (RR*b + d)*MC"),
			cnd("a < l.size.RegionCountHorizontal"), cnd("b < l.size.RegionCountVertical"), cnd("c < RC"), cnd("d < RR")),
	}
	sort.Strings(want)
	for i, w := range want {
		g := ""
		if i < len(got) {
			g = got[i]
		}
		c.Check(R, fmt.Sprintf("datamatrix.Merge/write#%d", i+1), fn.Pos(), g == w, w, g)
	}
	if len(got) != len(want) {
		c.Check(R, "datamatrix.Merge/writes", fn.Pos(), false, fmt.Sprintf("%d write sites", len(want)), fmt.Sprint(len(got)))
	}
}

// reindexLoop expresses the variable of the counting loop at hdr through the index that is
// written in its body: q = storeIdx = ±x + rest. Afterwards Norm of the loop variable yields a
// polynomial in the role "q". Returns q's first value, its step per iteration and the loop's
// continue condition in terms of q. This makes a rule independent of whether a loop runs over
// i, over k-1-i or over an offset index.
func reindexLoop(n *Normer, hdr *ssa.BasicBlock, storeIdx ssa.Value) (first Poly, step Poly, cond *Cond, ok bool) {
	for _, lv := range loopShapes(n, hdr) {
		xv, init, st := lv.idx, lv.init, lv.step
		const X = "\x01x"
		n.Bind[xv] = X
		idx := n.Norm(storeIdx)
		delete(n.Bind, xv)
		a := idx[X]
		if a != 1 && a != -1 {
			continue
		}
		rest := Poly{}
		bad := false
		for m, cf := range idx {
			if m == X {
				continue
			}
			if strings.Contains(m, X) {
				bad = true
			}
			rest[m] = cf
		}
		if bad {
			continue
		}
		// x = a*(q - rest)
		xInQ := pScale(pAdd(pAtom("q"), rest, -1), a)
		n.env = append(n.env, map[ssa.Value]Poly{xv: xInQ})
		first = pAdd(pScale(init, a), rest, 1)
		step = pScale(st, a)
		cond = n.LoopCond(hdr)
		return first, step, cond, true
	}
	return nil, nil, nil, false
}
