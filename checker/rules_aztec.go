package main

import (
	"fmt"
	"go/token"
	"go/types"

	"golang.org/x/tools/go/ssa"
)

type edgeSpec struct {
	val  string // reference formula of the incoming value ("" = any)
	cond string // reference condition of the incoming edge ("" = not checked)
}

// checkPhiDef verifies the definition of a phi edge-wise: every incoming edge must match exactly
// one spec (value and condition), and every spec must be matched.
func checkPhiDef(c *Ctx, R, key string, n *Normer, fn *ssa.Function, from *ssa.BasicBlock, phi *ssa.Phi, specs []edgeSpec) {
	used := make([]bool, len(specs))
	for ei, e := range phi.Edges {
		pred := phi.Block().Preds[ei]
		if phi.Block().Dominates(pred) && from == nil {
			continue // loop back edge of a header phi: not part of this definition
		}
		n.Opaque = false
		v := n.Norm(e)
		cond := cAnd(n.ReachCond(fn, from, pred), n.EdgeCond(pred, phi.Block()))
		matched := -1
		var why string
		for si, sp := range specs {
			if sp.val != "" && !pEqual(v, MustRef(sp.val)) {
				continue
			}
			if sp.cond != "" {
				eq, w := CondEquivalent(cond, MustRefCond(sp.cond))
				if !eq {
					why = fmt.Sprintf("value %s arrives under %s, expected under %s (differs at %s)", v, cond, MustRefCond(sp.cond), w)
					continue
				}
			}
			matched = si
			break
		}
		pos := e.Pos()
		if !pos.IsValid() {
			pos = phi.Pos()
		}
		if matched < 0 {
			if why == "" {
				why = fmt.Sprintf("value %s under %s matches none of the expected definitions", v, cond)
			}
			c.Check(R, fmt.Sprintf("%s/edge%d", key, ei), pos, false, fmt.Sprint(specs), why)
		} else {
			used[matched] = true
			c.Check(R, fmt.Sprintf("%s/edge%d", key, ei), pos, true, fmt.Sprint(specs[matched]), v.String())
		}
	}
	for si, u := range used {
		if !u {
			c.Check(R, fmt.Sprintf("%s/case%d", key, si), phi.Pos(), false, fmt.Sprint(specs[si]), "no incoming edge provides this case")
		}
	}
}

func ruleAztecEncoder(c *Ctx) {
	const R = "A5-AZTEC-SIZING"
	c.Doc(R, "aztec.EncodeWithColor: eccBits = len*pct/100 + 11; explicit request: layers = |request|, rejected iff over 4 (compact) / 32 (full), too-large iff stuffed+ecc > usable or (compact and stuffed > 64 words); automatic: i = 0.., compact = i <= 3, layers = i+1 | i, give up iff i > 32, skip iff total > capacity or (compact and stuffed > 64 words), accept iff stuffed+ecc <= usable; stuffed bits and word size are only ever updated together (stuffBits(bits, word_size[layers])); symbol size 11|14 + 4*layers (+ reference grid lines for full range); totalBitsInLayer = (88|112 + 16*layers)*layers")
	c.Floor(R, 30)
	if fn := c.theFunc(R, "aztec.totalBitsInLayer"); fn != nil {
		n := NewNormer(c.P)
		if !bindByType(n, fn, roleSpec{"layers", isIntType}, roleSpec{"compact", isBoolType}) {
			c.Undecided(R, "aztec.totalBitsInLayer", fn.Pos(), "does not receive a layer count and a compact flag")
		} else {
			var alts []valCase
			for _, ret := range returnsOf(fn) {
				rc := n.ReachCond(fn, nil, ret.Block())
				for _, cs := range n.valueCases(fn, nil, ret.Results[0], 0) {
					alts = append(alts, valCase{cs.val, cAnd(rc, cs.cond)})
				}
			}
			for _, cs := range mergeCases(alts) {
				isCompact, _ := CondEquivalent(cs.cond, MustRefCond("compact"))
				isFull, _ := CondEquivalent(cs.cond, MustRefCond("!compact"))
				want := "(112 + 16*layers)*layers"
				if isCompact {
					want = "(88 + 16*layers)*layers"
				}
				if !isCompact && !isFull {
					c.Check(R, "aztec.totalBitsInLayer/"+cs.cond.String(), fn.Pos(), false, "one formula for compact and one for full-range symbols", cs.val.String()+" when "+cs.cond.String())
					continue
				}
				c.Check(R, fmt.Sprintf("aztec.totalBitsInLayer/compact=%v", isCompact), fn.Pos(), pEqual(cs.val, MustRef(want)), want, cs.val.String())
			}
		}
	}
	fn := c.theFunc(R, "aztec.EncodeWithColor")
	if fn == nil || len(fn.Params) != 4 {
		return
	}
	n := NewNormer(c.P)
	n.BindParams(fn, "data", "pct", "u", "color")
	byCallee := func(name string) []*ssa.Call {
		t := c.P.Func(name)
		if t == nil {
			return nil
		}
		return callsTo(fn, t)
	}
	hl := byCallee("aztec.highlevelEncode")
	if len(hl) != 1 {
		c.Undecided(R, "aztec.EncodeWithColor/highlevel", fn.Pos(), "expected one highlevelEncode call")
		return
	}
	n.Bind[hl[0]] = "bits"
	c.expectPoly(R, "aztec.EncodeWithColor/highlevel-arg", hl[0].Pos(), n, hl[0].Common().Args[0], "data")
	m := map[string]string{"ecc": "(bits.count*pct)/100 + 11"}
	m["total"] = "bits.count + {ecc}"

	stuffCalls := byCallee("aztec.stuffBits")
	tbl := byCallee("aztec.totalBitsInLayer")
	if len(stuffCalls) != 2 || len(tbl) != 2 {
		c.Undecided(R, "aztec.EncodeWithColor/shape", fn.Pos(), fmt.Sprintf("expected 2 stuffBits and 2 totalBitsInLayer calls (explicit and automatic branch), found %d/%d", len(stuffCalls), len(tbl)))
		return
	}
	// which is which: the automatic branch is inside the loop with a counter from 0
	var loopHdr *ssa.BasicBlock
	var iphi *ssa.Phi
	for _, b := range fn.Blocks {
		if phi, init, ok := loopCounter(b); ok && init == 0 && b.Dominates(tbl[1].Block()) && !b.Dominates(fn.Blocks[len(fn.Blocks)-1]) {
			if loopHdr == nil || loopHdr.Dominates(b) == false {
				// choose the outermost counting loop dominating the second totalBitsInLayer call but not the user branch
				if !b.Dominates(tbl[0].Block()) {
					if loopHdr == nil {
						loopHdr, iphi = b, phi
					}
				}
			}
		}
	}
	var userT, autoT *ssa.Call
	for _, t := range tbl {
		if loopHdr != nil && loopHdr.Dominates(t.Block()) {
			autoT = t
		} else {
			userT = t
		}
	}
	var userS, autoS *ssa.Call
	for _, s := range stuffCalls {
		if loopHdr != nil && loopHdr.Dominates(s.Block()) {
			autoS = s
		} else {
			userS = s
		}
	}
	if loopHdr == nil || userT == nil || autoT == nil || userS == nil || autoS == nil {
		c.Undecided(R, "aztec.EncodeWithColor/branches", fn.Pos(), "could not separate the explicit-layers branch from the automatic loop")
		return
	}

	// ---------------- explicit request
	userLayers, userCompact := argOfKind(userT.Common().Args, isIntType), argOfKind(userT.Common().Args, isBoolType)
	if userLayers == nil || userCompact == nil {
		c.Undecided(R, "aztec.EncodeWithColor/explicit-layers", userT.Pos(), "totalBitsInLayer is not called with a layer count and a compact flag")
		return
	}
	if lphi, ok := userLayers.(*ssa.Phi); ok {
		checkPhiDef(c, R, "aztec.EncodeWithColor/explicit-layers", n, fn, nil, lphi, []edgeSpec{{"-u", "u != 0 && u < 0"}, {"u", "u != 0 && u >= 0"}})
		n.Bind[lphi] = "L"
	} else {
		c.Undecided(R, "aztec.EncodeWithColor/explicit-layers", userT.Pos(), "layers is not |request| chosen by sign")
	}
	c.expectCond(R, "aztec.EncodeWithColor/explicit-compact", userT.Pos(), n.CondOf(userCompact), "u < 0")
	n.Bind[userT] = "T"
	// word size
	c.Check(R, "aztec.EncodeWithColor/explicit-wordsize", userS.Pos(), n.Norm(userS.Common().Args[1]).String() == "global:aztec.word_size[L]", "word_size[layers]", n.Norm(userS.Common().Args[1]).String())
	c.expectPoly(R, "aztec.EncodeWithColor/explicit-stuff-src", userS.Pos(), n, userS.Common().Args[0], "bits")
	n.Bind[userS.Common().Args[1]] = "w"
	n.Bind[userS] = "st"
	illegal, tooLarge := cFalse, cFalse
	afterLoop := map[*ssa.BasicBlock]bool{}
	for b := range reachableFrom(loopHdr) {
		if !loopHdr.Dominates(b) {
			afterLoop[b] = true
		}
	}
	var postJoin []*ssa.Return
	for _, ret := range returnsOf(fn) {
		if !isNilConst(ret.Results[0]) || loopHdr.Dominates(ret.Block()) {
			continue
		}
		rc := n.ReachCond(fn, nil, ret.Block())
		switch {
		case userT.Block().Dominates(ret.Block()):
			tooLarge = cOr(tooLarge, rc)
		case afterLoop[ret.Block()]:
			// rejections after both branches have merged are judged below (no-data guard)
			postJoin = append(postJoin, ret)
		default:
			illegal = cOr(illegal, rc)
		}
	}
	c.expectCond(R, "aztec.EncodeWithColor/explicit-illegal-iff", userT.Pos(), illegal, "u != 0 && ((u < 0 && L > 4) || (u >= 0 && L > 32))")
	c.expectCond(R, "aztec.EncodeWithColor/explicit-toolarge-iff", userS.Pos(), tooLarge,
		tmpl("u != 0 && !((u < 0 && L > 4) || (u >= 0 && L > 32)) && (st.count + {ecc} > T - T%w || (u < 0 && st.count > 64*w))", m))

	// ---------------- automatic loop
	n.Bind[iphi] = "i"
	autoLayers, autoCompact := argOfKind(autoT.Common().Args, isIntType), argOfKind(autoT.Common().Args, isBoolType)
	if autoLayers == nil || autoCompact == nil {
		c.Undecided(R, "aztec.EncodeWithColor/auto-layers", autoT.Pos(), "totalBitsInLayer is not called with a layer count and a compact flag")
		return
	}
	{
		// layers = i+1 for the four compact sizes, i afterwards (a phi or the result of a helper)
		reach := n.ReachCond(fn, loopHdr, autoT.Block())
		wantL := map[string]string{MustRef("i + 1").String(): "i <= 3", "i": "i > 3"}
		seenL := map[string]bool{}
		for _, cs := range n.valueCases(fn, loopHdr, autoLayers, 0) {
			v := cs.val.String()
			w, ok := wantL[v]
			if !ok {
				c.Check(R, "aztec.EncodeWithColor/auto-layers/"+v, autoT.Pos(), false, "i+1 (compact) or i", v+" when "+cs.cond.String())
				continue
			}
			seenL[v] = true
			c.expectCondC(R, "aztec.EncodeWithColor/auto-layers/"+v, autoT.Pos(), cAnd(reach, cs.cond), cAnd(reach, MustRefCond(w)))
		}
		for v := range wantL {
			if !seenL[v] {
				c.Check(R, "aztec.EncodeWithColor/auto-layers/"+v, autoT.Pos(), false, "layers = "+v+" when "+wantL[v], "never")
			}
		}
		n.Bind[autoLayers] = "L2"
	}
	c.expectCond(R, "aztec.EncodeWithColor/auto-compact", autoT.Pos(), n.CondOf(autoCompact), "i <= 3")
	n.Bind[autoT] = "T2"
	// paired state (wordSize, stuffedBits)
	wsAtom := "global:aztec.word_size[L2]"
	c.Check(R, "aztec.EncodeWithColor/auto-stuff-wordsize", autoS.Pos(), n.Norm(autoS.Common().Args[1]).String() == wsAtom, "stuffBits(bits, word_size[layers])", n.Norm(autoS.Common().Args[1]).String())
	c.expectPoly(R, "aztec.EncodeWithColor/auto-stuff-src", autoS.Pos(), n, autoS.Common().Args[0], "bits")
	// header phis for previous word size / stuffed bits
	var wprev, sprev *ssa.Phi
	for _, ins := range loopHdr.Instrs {
		p, ok := ins.(*ssa.Phi)
		if !ok {
			break
		}
		if p == iphi {
			continue
		}
		if isIntType(p.Type()) {
			wprev = p
		} else {
			sprev = p
		}
	}
	// merge phis after the restuff decision
	var wnew, snew *ssa.Phi
	for _, r := range *autoS.Referrers() {
		if p, ok := r.(*ssa.Phi); ok && !loopHdrPhi(p, loopHdr) {
			snew = p
		}
	}
	if snew != nil {
		for _, ins := range snew.Block().Instrs {
			if p, ok := ins.(*ssa.Phi); ok && isIntType(p.Type()) {
				wnew = p
			}
		}
	}
	if wprev == nil || sprev == nil || wnew == nil || snew == nil {
		c.Undecided(R, "aztec.EncodeWithColor/auto-paired-state", autoS.Pos(), "word size / stuffed bits are not carried as a pair through the loop")
	} else {
		n.Bind[wprev], n.Bind[sprev] = "wp", "sp"
		n.Bind[autoS] = "stnew"
		bindByNorm(n, fn, wsAtom, "wsL")
		// per edge the pair must be (wp, sp) [kept] or (word_size[L2], stuffBits(...)) [updated]; updated iff wp != word_size[L2]
		okPair := true
		why := ""
		for ei := range snew.Edges {
			wv, sv := n.Norm(wnew.Edges[ei]).String(), n.Norm(snew.Edges[ei]).String()
			pred := snew.Block().Preds[ei]
			cond := cAnd(n.ReachCond(fn, autoT.Block(), pred), n.EdgeCond(pred, snew.Block()))
			switch {
			case wv == "wp" && sv == "sp":
				if eq, w := CondEquivalent(cond, MustRefCond(tmpl("!({total} > T2) && wp == wsL", m))); !eq {
					okPair = false
					why += "pair kept under " + cond.String() + " (" + w + "); "
				}
			case wv == "wsL" && sv == "stnew":
				if eq, w := CondEquivalent(cond, MustRefCond(tmpl("!({total} > T2) && wp != wsL", m))); !eq {
					okPair = false
					why += "pair updated under " + cond.String() + " (" + w + "); "
				}
			default:
				okPair = false
				why += fmt.Sprintf("edge %d carries (%s, %s): word size and stuffed bits out of step; ", ei, wv, sv)
			}
		}
		c.Check(R, "aztec.EncodeWithColor/auto-paired-state", snew.Pos(), okPair, "(wordSize, stuffedBits) kept together or replaced together by (word_size[layers], stuffBits(bits, word_size[layers])) iff the word size changed", orOK(why))
		// the values carried to the next iteration are the same pair
		for ei := range wprev.Edges {
			if !loopHdr.Dominates(loopHdr.Preds[ei]) {
				continue
			}
			wb, sb := wprev.Edges[ei], sprev.Edges[ei]
			okCarry := true
			if pw, ok := wb.(*ssa.Phi); ok {
				ps, ok2 := sb.(*ssa.Phi)
				if !ok2 || ps.Block() != pw.Block() {
					okCarry = false
				} else {
					for k := range pw.Edges {
						a, b := pw.Edges[k], ps.Edges[k]
						if !((a == ssa.Value(wprev) && b == ssa.Value(sprev)) || (a == ssa.Value(wnew) && b == ssa.Value(snew))) {
							okCarry = false
						}
					}
				}
			} else if !(wb == ssa.Value(wnew) && sb == ssa.Value(snew)) {
				okCarry = false
			}
			c.Check(R, "aztec.EncodeWithColor/auto-carry", wprev.Pos(), okCarry, "next iteration sees the same (wordSize, stuffedBits) pair", fmt.Sprint(okCarry))
		}
		n.Bind[wnew], n.Bind[snew] = "w2", "st2"
	}
	// give up
	for _, ret := range returnsOf(fn) {
		if isNilConst(ret.Results[0]) && loopHdr.Dominates(ret.Block()) {
			c.expectCond(R, "aztec.EncodeWithColor/auto-giveup-iff", ret.Pos(), n.ReachCond(fn, loopHdr, ret.Block()), "i > 32")
		}
	}
	// accept edge: the loop exit that reaches the block after both branches
	join := hlJoin(fn, userT.Block(), loopHdr)
	if join == nil {
		c.Undecided(R, "aztec.EncodeWithColor/join", fn.Pos(), "no common continuation of the two branches")
		return
	}
	accept := cFalse
	for _, p := range join.Preds {
		if loopHdr.Dominates(p) {
			accept = cOr(accept, cAnd(n.ReachCond(fn, loopHdr, p), n.EdgeCond(p, join)))
		}
	}
	c.expectCond(R, "aztec.EncodeWithColor/auto-accept-iff", autoT.Pos(), accept,
		tmpl("i <= 32 && !({total} > T2) && !(i <= 3 && st2.count > 64*w2) && st2.count + {ecc} <= T2 - T2%w2", m))

	// ---------------- after the choice
	// final state phis at the join
	var Lf, Tf, wf, cf, stf *ssa.Phi
	for _, ins := range join.Instrs {
		p, ok := ins.(*ssa.Phi)
		if !ok {
			break
		}
		for ei := range p.Edges {
			if loopHdr.Dominates(join.Preds[ei]) {
				s := n.Norm(p.Edges[ei]).String()
				switch s {
				case "L2":
					Lf = p
				case "T2":
					Tf = p
				case "w2":
					wf = p
				case "st2":
					stf = p
				default:
					if isBoolType(p.Type()) {
						cf = p
					}
				}
			}
		}
	}
	if Lf == nil || Tf == nil || wf == nil || cf == nil || stf == nil {
		c.Undecided(R, "aztec.EncodeWithColor/final-state", join.Instrs[0].Pos(), "final (layers, totalBits, wordSize, compact, stuffedBits) not found at the join")
		return
	}
	for _, pr := range []struct {
		p          *ssa.Phi
		user, auto string
	}{{Lf, "L", "L2"}, {Tf, "T", "T2"}, {wf, "w", "w2"}, {stf, "st", "st2"}} {
		good := true
		for ei, e := range pr.p.Edges {
			want := pr.user
			if loopHdr.Dominates(join.Preds[ei]) {
				want = pr.auto
			}
			if n.Norm(e).String() != want {
				good = false
			}
		}
		c.Check(R, "aztec.EncodeWithColor/final-"+pr.user, pr.p.Pos(), good, "the chosen branch's own value", fmt.Sprint(pr.p.Edges))
	}
	for ei, e := range cf.Edges {
		want := "u < 0"
		if loopHdr.Dominates(join.Preds[ei]) {
			want = "i <= 3"
		}
		c.expectCond(R, fmt.Sprintf("aztec.EncodeWithColor/final-compact/edge%d", ei), cf.Pos(), n.CondOf(e), want)
	}
	n.Bind[Lf], n.Bind[Tf], n.Bind[wf], n.Bind[cf], n.Bind[stf] = "Lf", "Tf", "wf", "cf", "stf"
	if gcw := byCallee("aztec.generateCheckWords"); len(gcw) == 1 {
		a := gcw[0].Common().Args
		c.Check(R, "aztec.EncodeWithColor/checkwords-args", gcw[0].Pos(), n.Norm(a[0]).String() == "stf" && n.Norm(a[1]).String() == "Tf" && n.Norm(a[2]).String() == "wf", "generateCheckWords(stuffedBits, TotalBitsInLayer, wordSize)", fmt.Sprintf("(%s, %s, %s)", n.Norm(a[0]), n.Norm(a[1]), n.Norm(a[2])))
	} else {
		c.Check(R, "aztec.EncodeWithColor/checkwords", fn.Pos(), false, "one generateCheckWords call", fmt.Sprint(len(gcw)))
	}
	if gmm := byCallee("aztec.generateModeMessage"); len(gmm) == 1 {
		a := gmm[0].Common().Args
		c.Check(R, "aztec.EncodeWithColor/modemessage-args", gmm[0].Pos(), n.Norm(a[0]).String() == "cf" && n.Norm(a[1]).String() == "Lf" && pEqual(n.Norm(a[2]), MustRef("stf.count/wf")), "generateModeMessage(compact, layers, len(stuffed)/wordSize)", fmt.Sprintf("(%s, %s, %s)", n.Norm(a[0]), n.Norm(a[1]), n.Norm(a[2])))
	} else {
		c.Check(R, "aztec.EncodeWithColor/modemessage", fn.Pos(), false, "one generateModeMessage call", fmt.Sprint(len(gmm)))
	}
	// symbol size
	if nac := byCallee("aztec.newAztecCode"); len(nac) == 1 {
		cases := n.valueCases(fn, nil, nac[0].Common().Args[0], 0)
		checkCases(c, R, "aztec.EncodeWithColor/matrix-size", nac[0].Pos(), cases, []edgeSpec{
			{"11 + 4*Lf", "cf"},
			{"14 + 4*Lf + 1 + 2*(((14 + 4*Lf)/2 - 1)/15)", "!cf"}})
	} else {
		c.Check(R, "aztec.EncodeWithColor/matrix-size", fn.Pos(), false, "one newAztecCode call", fmt.Sprint(len(nac)))
	}
	// rejections after the size selection: only "no data word"
	for i, ret := range postJoin {
		rc := n.ReachCond(fn, join, ret.Block())
		c.expectCond(R, fmt.Sprintf("aztec.EncodeWithColor/no-data-iff#%d", i+1), ret.Pos(), rc, "stf.count/wf < 1")
	}
	checkAztecRefGrid(c, n, fn)
	if nac := byCallee("aztec.newAztecCode"); len(nac) == 1 {
		checkAztecDrawCalls(c, n, fn, join, nac[0].Common().Args[0])
	}
	checkAztecDataLayout(c, n, fn)
}

// A9: the reference grid of full-range symbols is complete. The symbol size reserves
// ((14+4L)/2-1)/15 grid lines on each side of the centre line (matrix-size obligation above); the
// loop that draws the lines advances 15 data modules / 16 symbol modules per line. For every layer
// count 1..32 the number of iterations of that loop, obtained by evaluating its own continue
// condition with the layer count substituted, must equal the number of reserved lines plus the
// centre line - otherwise an outermost line is reserved but never drawn.
func checkAztecRefGrid(c *Ctx, n *Normer, fn *ssa.Function) {
	const R = "A9-AZTEC-REFGRID"
	c.Doc(R, "aztec full-range symbols: the reference-grid loop (15 data modules / 16 symbol modules per step, starting at the centre) runs, for every layer count 1..32, exactly ((14+4L)/2-1)/15 + 1 times - as many lines as the symbol size reserves - evaluated from the loop's own continue condition with L substituted; the loop is reached only for full-range symbols and draws the four symmetric lines at centre -/+ j")
	c.Floor(R, 33)
	var Lf ssa.Value
	for v, r := range n.Bind {
		if r == "Lf" {
			Lf = v
		}
	}
	if Lf == nil {
		c.Undecided(R, "aztec.EncodeWithColor/grid-loop", fn.Pos(), "final layer count not identified")
		return
	}
	// the grid loop: header with two counters stepping 15 and 16
	type gl struct {
		F        *ssa.Function
		path     []ssa.CallInstruction
		hdr      *ssa.BasicBlock
		i15, j16 ssa.Value
		init15   Poly
	}
	var grid *gl
	seen := map[*ssa.Function]bool{}
	scan := func(F *ssa.Function, path []ssa.CallInstruction) {
		if seen[F] {
			return
		}
		seen[F] = true
		saved := n.Ctx
		n.Ctx = path
		for _, b := range F.Blocks {
			var g gl
			for _, lv := range loopShapes(n, b) {
				if k, ok := lv.step.IsConst(); ok && k == 15 {
					g.i15, g.init15 = lv.idx, lv.init
				} else if ok && k == 16 {
					g.j16 = lv.idx
				}
			}
			if g.i15 != nil && g.j16 != nil {
				g.F, g.path, g.hdr = F, path, b
				grid = &g
			}
		}
		n.Ctx = saved
	}
	scan(fn, nil)
	c.P.deepEach(fn, 2, func(s DeepSite) { scan(s.Fn, s.Path) })
	if grid == nil {
		c.Check(R, "aztec.EncodeWithColor/grid-loop", fn.Pos(), false, "a loop stepping 15 data modules / 16 symbol modules", "none")
		return
	}
	saved := n.Ctx
	defer func() { n.Ctx = saved }()
	n.Ctx = grid.path
	// reached only for full-range symbols
	site := DeepSite{Ins: grid.hdr.Instrs[0], Fn: grid.F, Path: grid.path}
	var join *ssa.BasicBlock
	if p, ok := Lf.(*ssa.Phi); ok {
		join = p.Block()
	}
	rc := n.ReachCondDeep(fn, join, site)
	n.Ctx = grid.path
	imp, _, w := CondRelation(rc, MustRefCond("!cf"))
	c.Check(R, "aztec.EncodeWithColor/grid-only-full-range", grid.hdr.Instrs[0].Pos(), imp, "drawn only when the symbol is not compact", rc.String()+" "+w)
	k0, ok0 := grid.init15.IsConst()
	c.Check(R, "aztec.EncodeWithColor/grid-start", grid.hdr.Instrs[0].Pos(), ok0 && k0 == 0, "starts at the centre line", grid.init15.String())
	// under !cf the base size is 14 + 4L: substitute for every value whose alternatives are
	// {11+4L when compact, 14+4L otherwise}
	baseEnv := map[ssa.Value]Poly{}
	bind := func(F *ssa.Function) {
		eachInstr(F, func(b *ssa.BasicBlock, ins ssa.Instruction) {
			v, ok := ins.(ssa.Value)
			if !ok || !isIntType(v.Type()) {
				return
			}
			switch v.(type) {
			case *ssa.Phi, *ssa.Call, *ssa.Extract:
			default:
				return
			}
			cs := n.valueCases(F, nil, v, 0)
			if len(cs) != 2 {
				return
			}
			a, b2 := cs[0].val.String(), cs[1].val.String()
			w11, w14 := MustRef("11 + 4*Lf").String(), MustRef("14 + 4*Lf").String()
			if (a == w11 && b2 == w14) || (a == w14 && b2 == w11) {
				baseEnv[v] = MustRef("14 + 4*Lf")
			}
		})
	}
	bind(fn)
	for lv := 1; lv <= 32; lv++ {
		key := fmt.Sprintf("aztec.EncodeWithColor/grid-lines/L=%d", lv)
		want := ((14+4*lv)/2-1)/15 + 1
		got := 0
		undecided := ""
		for i := int64(0); i <= 15*12; i += 15 {
			env := map[ssa.Value]Poly{Lf: pConst(int64(lv)), grid.i15: pConst(i)}
			for v, p := range baseEnv {
				q := Poly{}
				for m, cf := range p {
					q[m] = cf
				}
				// 14 + 4*Lf with Lf substituted
				env[v] = pConst(int64(14 + 4*lv))
				_ = q
			}
			n.env = append(n.env, env)
			cond := n.LoopCond(grid.hdr)
			n.env = n.env[:len(n.env)-1]
			switch cond.Kind {
			case CTrue:
				got++
				continue
			case CFalse:
			default:
				undecided = cond.String()
			}
			break
		}
		if undecided != "" {
			c.Undecided(R, key, grid.hdr.Instrs[0].Pos(), "continue condition does not evaluate with the layer count substituted: "+undecided)
			continue
		}
		c.Check(R, key, grid.hdr.Instrs[0].Pos(), got == want, fmt.Sprintf("%d grid lines per direction incl. the centre line (the symbol size reserves that many)", want), fmt.Sprintf("the loop runs %d times", got))
	}
}

func loopHdrPhi(p *ssa.Phi, hdr *ssa.BasicBlock) bool { return p.Block() == hdr }

// hlJoin: the first block reachable from both a and b that is dominated by neither.
func hlJoin(fn *ssa.Function, a, b *ssa.BasicBlock) *ssa.BasicBlock {
	ra, rb := reachableFrom(a), reachableFrom(b)
	var best *ssa.BasicBlock
	for _, x := range fn.Blocks {
		if ra[x] && rb[x] && !a.Dominates(x) && !b.Dominates(x) {
			if best == nil || x.Dominates(best) {
				best = x
			}
		}
	}
	return best
}

var _ = token.ADD

// ---------------------------------------------------------------------------------------------
// Case analysis of a value: phis inside its expression tree and results of multi-block helpers
// are expanded into (value, condition) alternatives.

type valCase struct {
	val  Poly
	cond *Cond
}

// expandableCall: v is the (single or extracted) result of an unexported multi-block loop-free
// helper whose returns are worth enumerating.
func expandableCall(v ssa.Value, n *Normer) (*ssa.Call, int, bool) {
	idx := 0
	call, ok := v.(*ssa.Call)
	if ex, isEx := v.(*ssa.Extract); isEx {
		call, ok = ex.Tuple.(*ssa.Call)
		idx = ex.Index
	}
	if !ok {
		return nil, 0, false
	}
	if _, bound := n.Bind[call]; bound {
		return nil, 0, false
	}
	cal := call.Common().StaticCallee()
	if cal == nil || !isRepoFunc(cal) || cal.Blocks == nil || inlinable(cal) || cal.Object() == nil || cal.Object().Exported() {
		return nil, 0, false
	}
	if _, single := v.(*ssa.Call); single && (cal.Signature.Results().Len() != 1 || !pureLoopFreeAllowCalls(cal)) {
		return nil, 0, false
	}
	if n.NoInline[n.P.FuncName(cal)] || len(n.Ctx) > 3 {
		return nil, 0, false
	}
	for _, c := range n.Ctx {
		if c.Common().StaticCallee() == cal {
			return nil, 0, false
		}
	}
	return call, idx, true
}

// firstOpen: the first choice point in the expression tree of v: a phi that is neither bound,
// loop-carried, nor already decided in n.PhiChoice (decided phis are followed through their chosen
// edge only), or the result of a multi-return helper not yet substituted (n.env).
func firstOpen(v ssa.Value, n *Normer, depth int) ssa.Value {
	if depth > 9 {
		return nil
	}
	if _, bound := n.Bind[v]; bound {
		return nil
	}
	for i := len(n.env) - 1; i >= 0; i-- {
		if _, ok := n.env[i][v]; ok {
			return nil
		}
	}
	switch x := v.(type) {
	case *ssa.Phi:
		if i, ok := n.PhiChoice[x]; ok {
			return firstOpen(x.Edges[i], n, depth+1)
		}
		blk := x.Block()
		for _, p := range blk.Preds {
			if blk.Dominates(p) {
				return nil // loop-carried
			}
		}
		if rotatedExitAlias(x) != nil {
			return nil // final value of a loop variable, not a choice
		}
		return x
	case *ssa.BinOp:
		if p := firstOpen(x.X, n, depth+1); p != nil {
			return p
		}
		return firstOpen(x.Y, n, depth+1)
	case *ssa.Convert:
		return firstOpen(x.X, n, depth+1)
	case *ssa.UnOp:
		if st := reachingStore(x); st != nil {
			return firstOpen(st.Val, n, depth+1) // a patched local: the value this read sees
		}
		return firstOpen(x.X, n, depth+1)
	case *ssa.ChangeType:
		return firstOpen(x.X, n, depth+1)
	case *ssa.Index:
		// an element selected by a computed position
		if p := firstOpen(x.Index, n, depth+1); p != nil {
			return p
		}
		if ld, ok := x.X.(*ssa.UnOp); ok && ld.Op == token.MUL {
			if g, ok := ld.X.(*ssa.Global); ok {
				if tp := smallTablePos(n, g, x.Index); tp != nil {
					return tp
				}
			}
		}
		return nil
	case *ssa.IndexAddr:
		if p := firstOpen(x.Index, n, depth+1); p != nil {
			return p
		}
		if g, ok := x.X.(*ssa.Global); ok {
			if tp := smallTablePos(n, g, x.Index); tp != nil {
				return tp
			}
		}
		if ld, ok := x.X.(*ssa.UnOp); ok && ld.Op == token.MUL {
			if g, ok := ld.X.(*ssa.Global); ok {
				if tp := smallTablePos(n, g, x.Index); tp != nil {
					return tp
				}
			}
		}
		// a small local literal table read at a computed position
		if al, ok := x.X.(*ssa.Alloc); ok {
			if arr, isArr := al.Type().Underlying().(*types.Pointer).Elem().Underlying().(*types.Array); isArr && arr.Len() >= 2 && arr.Len() <= 8 {
				if _, isK := n.Norm(x.Index).IsConst(); !isK {
					var rd ssa.Instruction
					for _, r := range *x.Referrers() {
						if ld, isLd := r.(*ssa.UnOp); isLd {
							rd = ld
						}
					}
					all := rd != nil
					for k := int64(0); k < arr.Len() && all; k++ {
						all = tableCellStore(al, k, nil, rd, 0) != nil
					}
					if all {
						return &tablePos{x.Index, int(arr.Len())}
					}
				}
			}
		}
		return nil
	case *ssa.Lookup:
		if p := firstOpen(x.Index, n, depth+1); p != nil {
			return p
		}
		// a package-level table keyed by a flag: one alternative per value of the flag
		if ld, ok := x.X.(*ssa.UnOp); ok && ld.Op == token.MUL && isBoolType(x.Index.Type()) {
			if g, ok := ld.X.(*ssa.Global); ok && n.P.immutableGlobal(g) {
				if _, isC := x.Index.(*ssa.Const); !isC {
					return &boolPos{x.Index}
				}
			}
		}
		if isBoolType(x.Index.Type()) && n.FoldTables {
			// ... or a map inside an entry of such a table that is already selected
			if _, isC := x.Index.(*ssa.Const); !isC {
				if _, decided := n.boolDecided(x.Index); !decided {
					if tv, ok := n.tableVal(x.X, 0); ok && tv != nil && tv.Kind == VMap {
						return &boolPos{x.Index}
					}
				}
			}
		}
		return nil
	case *ssa.Field:
		return firstOpen(x.X, n, depth+1)
	case *ssa.FieldAddr:
		return firstOpen(x.X, n, depth+1)
	case *ssa.Alloc:
		// local copy of a table entry: exactly one store of the whole value
		if stores, paths, escapes := storesTo(x); !escapes && len(stores) == 1 && len(paths[0]) == 0 {
			return firstOpen(stores[0].Val, n, depth+1)
		}
		return nil
	case *ssa.Call, *ssa.Extract:
		if ex, ok := v.(*ssa.Extract); ok {
			if lk, isLk := ex.Tuple.(*ssa.Lookup); isLk {
				return firstOpen(lk, n, depth+1)
			}
		}
		if _, _, ok := expandableCall(v, n); ok {
			return v
		}
		if call, ok := v.(*ssa.Call); ok && isMinMax(call) {
			for _, a := range call.Common().Args {
				if p := firstOpen(a, n, depth+1); p != nil {
					return p
				}
			}
			return v // min(a, b) / max(a, b): a two-way choice
		}
	}
	return nil
}

// tablePos: a choice point of firstOpen - the position at which a small immutable package-level table
// (array or slice literal of at most 8 entries) is read. The read selects one of the entries; a
// position outside the table panics, so the entries are the only alternatives.
type tablePos struct {
	ssa.Value // the position
	N         int
}

// boolPos: a choice point of firstOpen - the flag by which a package-level table is keyed.
type boolPos struct {
	ssa.Value
}

func smallTablePos(n *Normer, g *ssa.Global, idx ssa.Value) *tablePos {
	if _, isK := n.Norm(idx).IsConst(); isK {
		return nil
	}
	if !n.P.immutableGlobal(g) {
		return nil
	}
	N := 0
	switch t := g.Type().Underlying().(*types.Pointer).Elem().Underlying().(type) {
	case *types.Array:
		N = int(t.Len())
	case *types.Slice:
		if v, err := n.P.EvalVar(shortName(g.Pkg.Pkg.Path()), g.Name()); err == nil && v != nil && v.Kind == VList {
			N = len(v.List)
		}
	}
	if N < 2 || N > 8 {
		return nil
	}
	return &tablePos{idx, N}
}

// isMinMax: the builtin min or max applied to two integers.
func isMinMax(call *ssa.Call) bool {
	b, ok := call.Common().Value.(*ssa.Builtin)
	return ok && (b.Name() == "min" || b.Name() == "max") && len(call.Common().Args) == 2 && isIntType(call.Type())
}

func firstOpenPhi(v ssa.Value, n *Normer, depth int) *ssa.Phi {
	p, _ := firstOpen(v, n, depth).(*ssa.Phi)
	return p
}

// callCases: one alternative per return of the helper producing v, in the helper's calling context.
func (n *Normer) callCases(call *ssa.Call, idx int, depth int) []valCase {
	cal := call.Common().StaticCallee()
	var out []valCase
	saved := n.Ctx
	n.Ctx = append(append([]ssa.CallInstruction{}, saved...), call)
	for _, ret := range returnsOf(cal) {
		if idx >= len(ret.Results) {
			continue
		}
		rc := n.ReachCond(cal, nil, ret.Block())
		rv := ret.Results[idx]
		if cv, ok := rv.(*ssa.Convert); ok && n.StripNarrow != "" && typeShort(cv.Type()) == n.StripNarrow {
			// the caller stores the result in a location of that very type: the final narrowing is
			// the same wherever it is written
			rv = cv.X
		}
		for _, sub := range n.valueCases(cal, nil, rv, depth+1) {
			out = append(out, valCase{sub.val, cAnd(rc, sub.cond)})
		}
	}
	n.Ctx = saved
	return mergeCases(out)
}

func (n *Normer) valueCases(fn *ssa.Function, from *ssa.BasicBlock, v ssa.Value, depth int) []valCase {
	if depth > 3 {
		return []valCase{{n.Norm(v), cTrue}}
	}
	if _, bound := n.Bind[v]; bound {
		return []valCase{{n.Norm(v), cTrue}}
	}
	// result of a multi-block helper: one alternative per return
	if call, idx, ok := expandableCall(v, n); ok {
		return n.callCases(call, idx, depth)
	}
	var out []valCase
	var rec func(cond *Cond, decided int)
	rec = func(cond *Cond, decided int) {
		open := firstOpen(v, n, 0)
		if open != nil && decided < 6 {
			if call, idx, ok := expandableCall(open, n); ok {
				// a helper result inside the expression: substitute each of its alternatives
				for _, sub := range n.callCases(call, idx, depth) {
					n.env = append(n.env, map[ssa.Value]Poly{open: sub.val})
					rec(cAnd(cond, sub.cond), decided+1)
					n.env = n.env[:len(n.env)-1]
				}
				return
			}
		}
		if mm, ok := open.(*ssa.Call); ok && decided < 6 && isMinMax(mm) {
			// min(a, b) = a when a <= b, else b; max(a, b) = a when a >= b, else b
			a, b := n.Norm(mm.Common().Args[0]), n.Norm(mm.Common().Args[1])
			op := token.LEQ
			if mm.Common().Value.(*ssa.Builtin).Name() == "max" {
				op = token.GEQ
			}
			first := cmpCond(op, a, b)
			for k, alt := range []Poly{a, b} {
				cc := first
				if k == 1 {
					cc = cNot(first)
				}
				n.env = append(n.env, map[ssa.Value]Poly{open: alt})
				rec(cAnd(cond, cc), decided+1)
				n.env = n.env[:len(n.env)-1]
			}
			return
		}
		if tp, ok := open.(*tablePos); ok && decided < 6 {
			// the table entry read: entry k when the position is k; the last entry when it is none of
			// the others (a position outside the table does not return)
			pos := n.Norm(tp.Value)
			savedFold := n.FoldTables
			n.FoldTables = true
			others := cTrue
			for k := 0; k < tp.N; k++ {
				cc := cmpCond(token.EQL, pos, pConst(int64(k)))
				if k == tp.N-1 {
					cc = others
				} else {
					others = cAnd(others, cNot(cc))
				}
				n.env = append(n.env, map[ssa.Value]Poly{tp.Value: pConst(int64(k))})
				rec(cAnd(cond, cc), decided+1)
				n.env = n.env[:len(n.env)-1]
			}
			n.FoldTables = savedFold
			return
		}
		if bp, ok := open.(*boolPos); ok && decided < 6 {
			flag := n.CondOf(bp.Value)
			savedFold := n.FoldTables
			n.FoldTables = true
			for _, b := range []int64{1, 0} {
				cc := flag
				if b == 0 {
					cc = cNot(flag)
				}
				n.env = append(n.env, map[ssa.Value]Poly{bp.Value: pConst(b)})
				rec(cAnd(cond, cc), decided+1)
				n.env = n.env[:len(n.env)-1]
			}
			n.FoldTables = savedFold
			return
		}
		phi, _ := open.(*ssa.Phi)
		if phi == nil || decided >= 6 {
			if eq, _ := CondEquivalent(cond, cFalse); eq {
				return
			}
			// the selected alternative may itself be the result of a helper with several returns
			leaf := v
			for {
				p, ok := leaf.(*ssa.Phi)
				if !ok {
					break
				}
				i, chosen := n.PhiChoice[p]
				if !chosen {
					break
				}
				leaf = p.Edges[i]
			}
			if leaf != v && depth < 3 {
				switch leaf.(type) {
				case *ssa.Call, *ssa.Extract:
					for _, sub := range n.valueCases(fn, from, leaf, depth+1) {
						cc := cAnd(cond, sub.cond)
						if eq, _ := CondEquivalent(cc, cFalse); !eq {
							out = append(out, valCase{sub.val, cc})
						}
					}
					return
				}
			}
			out = append(out, valCase{n.Norm(v), cond})
			return
		}
		blk := phi.Block()
		f := blk.Idom()
		if from != nil && from.Dominates(blk) && from != blk {
			f = from
		}
		for ei := range phi.Edges {
			n.PhiChoice[phi] = ei
			pred := blk.Preds[ei]
			rec(cAnd(cond, cAnd(n.ReachCond(fn, f, pred), n.EdgeCond(pred, blk))), decided+1)
		}
		delete(n.PhiChoice, phi)
	}
	rec(cTrue, 0)
	return mergeCases(out)
}

func mergeCases(in []valCase) []valCase {
	var out []valCase
	for _, c := range in {
		found := false
		for i := range out {
			if pEqual(out[i].val, c.val) {
				out[i].cond = cOr(out[i].cond, c.cond)
				found = true
			}
		}
		if !found {
			out = append(out, c)
		}
	}
	return out
}

// checkCases: the alternatives of a value must be exactly the expected (formula, condition) pairs.
func checkCases(c *Ctx, R, key string, pos token.Pos, cases []valCase, specs []edgeSpec) {
	checkCasesUnder(c, R, key, pos, cases, specs, nil)
}

// checkCasesUnder: like checkCases, with the alternatives compared on the domain `dom` only (both the
// found and the expected condition are taken in conjunction with it).
func checkCasesUnder(c *Ctx, R, key string, pos token.Pos, cases []valCase, specs []edgeSpec, dom *Cond) {
	if dom != nil {
		cs2 := make([]valCase, len(cases))
		for i, cs := range cases {
			cs2[i] = valCase{cs.val, cAnd(dom, cs.cond)}
		}
		cases = mergeCases(cs2)
	}
	used := make([]bool, len(cases))
	for si, sp := range specs {
		ok := false
		why := "no alternative with value " + MustRef(sp.val).String()
		for ci, cs := range cases {
			if !pEqual(cs.val, MustRef(sp.val)) {
				continue
			}
			used[ci] = true
			if sp.cond == "" {
				ok = true
				continue
			}
			want := MustRefCond(sp.cond)
			if dom != nil {
				want = cAnd(dom, want)
			}
			eq, w := CondEquivalent(cs.cond, want)
			if eq {
				ok = true
			} else {
				why = fmt.Sprintf("value %s arises under %s, expected under %s (differs at %s)", cs.val, cs.cond, want, w)
			}
		}
		c.Check(R, fmt.Sprintf("%s/case%d", key, si), pos, ok, fmt.Sprintf("%s when %s", sp.val, sp.cond), map[bool]string{true: "ok", false: why}[ok])
	}
	for ci, cs := range cases {
		if !used[ci] {
			c.Check(R, fmt.Sprintf("%s/extra%d", key, ci), pos, false, "only the expected alternatives", fmt.Sprintf("%s when %s", cs.val, cs.cond))
		}
	}
}

// caseSpec / checkCasesC: checkCases with the expected alternatives given as values and conditions
// (for atoms that are not Go expressions).
type caseSpec struct {
	val  Poly
	cond *Cond
}

func checkCasesC(c *Ctx, R, key string, pos token.Pos, cases []valCase, specs []caseSpec) {
	used := make([]bool, len(cases))
	for si, sp := range specs {
		ok := false
		why := "no alternative with value " + sp.val.String()
		for ci, cs := range cases {
			if !pEqual(cs.val, sp.val) {
				continue
			}
			used[ci] = true
			eq, w := CondEquivalent(cs.cond, sp.cond)
			if eq {
				ok = true
			} else {
				why = fmt.Sprintf("value %s arises under %s, expected under %s (differs at %s)", cs.val, cs.cond, sp.cond, w)
			}
		}
		c.Check(R, fmt.Sprintf("%s/case%d", key, si), pos, ok, fmt.Sprintf("%s when %s", sp.val, sp.cond), map[bool]string{true: "ok", false: why}[ok])
	}
	for ci, cs := range cases {
		if !used[ci] {
			c.Check(R, fmt.Sprintf("%s/extra%d", key, ci), pos, false, "only the expected alternatives", fmt.Sprintf("%s when %s", cs.val, cs.cond))
		}
	}
}

// pureLoopFreeAllowCalls: no loops; may call other functions (e.g. append a symbol), the value
// returned is what matters to the caller of valueCases.
func pureLoopFreeAllowCalls(fn *ssa.Function) bool {
	for _, b := range fn.Blocks {
		for _, s := range b.Succs {
			if s.Dominates(b) {
				return false
			}
		}
	}
	return true
}

// boolDecided: the boolean v has a fixed value in the current environment.
func (n *Normer) boolDecided(v ssa.Value) (bool, bool) {
	for i := len(n.env) - 1; i >= 0; i-- {
		if p, ok := n.env[i][v]; ok {
			if k, isK := p.IsConst(); isK {
				return k != 0, true
			}
			return false, false
		}
	}
	return false, false
}
