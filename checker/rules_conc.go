package main

import (
	"fmt"
	"go/token"
	"go/types"
	"sort"
	"strings"

	"golang.org/x/tools/go/ssa"
)

// E6 — concurrency and effects.

func isMutexCall(ins ssa.Instruction, name string) (ssa.Value, bool) {
	var cc *ssa.CallCommon
	switch x := ins.(type) {
	case *ssa.Call:
		cc = x.Common()
	case *ssa.Defer:
		cc = x.Common()
	default:
		return nil, false
	}
	cal := cc.StaticCallee()
	if cal == nil || cal.Pkg == nil || cal.Pkg.Pkg.Path() != "sync" || cal.Name() != name {
		return nil, false
	}
	return cc.Args[0], true
}

// chanSource resolves a channel-typed value to its MakeChan (through capture cells), or nil.
func chanSource(v ssa.Value) ssa.Value {
	for depth := 0; depth < 6; depth++ {
		switch x := v.(type) {
		case *ssa.MakeChan:
			return x
		case *ssa.ChangeType:
			v = x.X
		case *ssa.UnOp:
			if x.Op != token.MUL {
				return nil
			}
			a, path, ok := rootAlloc(x.X)
			if !ok || len(path) != 0 {
				return nil
			}
			stores, paths, _ := storesTo(a)
			if len(stores) != 1 || len(paths[0]) != 0 {
				return nil
			}
			v = stores[0].Val
		case *ssa.Parameter:
			return x
		case *ssa.Call:
			return x // channel returned by a producer function
		default:
			return nil
		}
	}
	return nil
}

type lockState struct {
	locked  bool
	section ssa.Instruction // governing Lock call (nil if ambiguous)
}

// lockStates runs the forward must-analysis "mutex held" over fn and reports the state before
// each instruction of interest.
func lockStates(fn *ssa.Function) (before map[ssa.Instruction]lockState, deferred bool) {
	in := map[*ssa.BasicBlock]*lockState{}
	before = map[ssa.Instruction]lockState{}
	in[fn.Blocks[0]] = &lockState{}
	changed := true
	for iter := 0; changed && iter < 30; iter++ {
		changed = false
		for _, b := range fn.Blocks {
			st, ok := in[b]
			if !ok {
				continue
			}
			cur := *st
			for _, ins := range b.Instrs {
				before[ins] = cur
				if _, ok := isMutexCall(ins, "Lock"); ok {
					if _, isDefer := ins.(*ssa.Defer); !isDefer {
						cur = lockState{true, ins}
					}
				}
				if _, ok := isMutexCall(ins, "Unlock"); ok {
					if _, isDefer := ins.(*ssa.Defer); isDefer {
						deferred = true
					} else {
						cur = lockState{}
					}
				}
			}
			for _, s := range b.Succs {
				old, seen := in[s]
				nw := cur
				if seen {
					nw.locked = old.locked && cur.locked
					if old.section != cur.section {
						nw.section = nil
					}
					if nw == *old {
						continue
					}
				}
				cp := nw
				in[s] = &cp
				changed = true
			}
		}
	}
	return
}

func ruleConcurrency(c *Ctx) {
	all := c.P.Funcs
	withCanary := append(append([]*ssa.Function{}, c.P.Funcs...), c.P.CanaryFuncs...)

	// ---- G6 inventories
	const R6 = "G6-INVENTORY"
	c.Doc(R6, "concurrency inventory of non-test code: `go` statements only in the 4 known producer sites, no select, the only sync object is the ReedSolomonEncoder mutex, no channel stored in a struct field or package variable")
	c.Floor(R6, 4)
	goSites := map[string]int{}
	var goInstrs []*ssa.Go
	selects := 0
	for _, fn := range all {
		eachInstr(fn, func(b *ssa.BasicBlock, ins ssa.Instruction) {
			switch x := ins.(type) {
			case *ssa.Go:
				goSites[c.P.FuncName(fn)]++
				goInstrs = append(goInstrs, x)
			case *ssa.Select:
				selects++
				c.Check(R6, c.P.FuncName(fn)+"/select", x.Pos(), false, "no select statement (pipelines are single producer / single consumer)", "select")
			case *ssa.Store:
				if _, ok := x.Val.Type().Underlying().(*types.Chan); ok {
					if _, isField := x.Addr.(*ssa.FieldAddr); isField {
						c.Check(R6, c.P.FuncName(fn)+"/chan-in-struct", x.Pos(), false, "channels are local to their pipeline", "channel stored into a struct field")
					}
					if _, isG := x.Addr.(*ssa.Global); isG {
						c.Check(R6, c.P.FuncName(fn)+"/chan-in-global", x.Pos(), false, "channels are local to their pipeline", "channel stored into a package variable")
					}
				}
			}
		})
	}
	wantGo := map[string]int{"qr.iterateModules": 2, "qr.stringToAlphaIdx": 1, "utils.(*BitList).IterateBytes": 1}
	var names []string
	for k := range goSites {
		names = append(names, k)
	}
	sort.Strings(names)
	for _, k := range names {
		c.Check(R6, k+"/go", c.P.Func(k).Pos(), wantGo[k] == goSites[k], fmt.Sprintf("%d go statements (known producer site)", wantGo[k]), fmt.Sprint(goSites[k]))
	}
	for k, v := range wantGo {
		if goSites[k] == 0 {
			c.Check(R6, k+"/go", token.NoPos, false, fmt.Sprintf("%d go statements", v), "0")
		}
	}
	// sync objects: struct fields / globals / locals whose type mentions package sync
	syncUses := []string{}
	for _, pk := range c.P.Pkgs {
		for id, obj := range pk.TypesInfo.Defs {
			v, ok := obj.(*types.Var)
			if !ok || c.P.IsCanaryPos(id.Pos()) {
				continue
			}
			if strings.Contains(v.Type().String(), "sync.") {
				syncUses = append(syncUses, shortName(pk.PkgPath)+"."+v.Name()+":"+v.Type().String())
			}
		}
	}
	sort.Strings(syncUses)
	okSync := len(syncUses) == 1 && strings.HasPrefix(syncUses[0], "utils.") && strings.HasSuffix(syncUses[0], ":*sync.Mutex")
	c.Check(R6, "sync-objects", token.NoPos, okSync, "exactly one sync object: the *sync.Mutex field of utils.ReedSolomonEncoder", fmt.Sprint(syncUses))

	// ---- G1 lock discipline: fields of a mutex-carrying struct that are written after construction
	const R1 = "G1-LOCK"
	c.Doc(R1, "for every struct type that carries a sync.Mutex: each field that is stored to outside the struct's constructor (the shared mutable state: ReedSolomonEncoder's polynomial cache) is only accessed with that mutex held (forward must-analysis of Lock/Unlock over the CFG; helpers whose every call site holds the lock count as locked), all accesses of one call lie in ONE critical section (check-then-act atomicity), and every return leaves the mutex released (deferred or explicit)")
	c.Floor(R1, 5)
	guarded := guardedFields(c.P, withCanary)
	c.Count["guarded_fields"] = len(guarded)
	if len(guarded) == 0 {
		c.Check(R1, "guarded-fields", token.NoPos, false, "at least the polynomial cache of ReedSolomonEncoder", "no mutex-guarded mutable field found")
	}
	type accInfo struct {
		fn  *ssa.Function
		acc []ssa.Instruction
	}
	var infos []accInfo
	for _, fn := range withCanary {
		var accesses []ssa.Instruction
		eachInstr(fn, func(b *ssa.BasicBlock, ins ssa.Instruction) {
			fa, ok := ins.(*ssa.FieldAddr)
			if !ok {
				return
			}
			st := fa.X.Type().Underlying().(*types.Pointer).Elem().Underlying().(*types.Struct)
			if !guarded[st.Field(fa.Field)] {
				return
			}
			if _, fresh := fa.X.(*ssa.Alloc); fresh {
				return // constructor: object not yet shared
			}
			accesses = append(accesses, fa)
		})
		if len(accesses) > 0 {
			infos = append(infos, accInfo{fn, accesses})
		}
	}
	for _, inf := range infos {
		fn, accesses := inf.fn, inf.acc
		name := c.P.FuncName(fn)
		c.Fn(name)
		before, deferred := lockStates(fn)
		anyLock := false
		for ins := range before {
			if _, ok := isMutexCall(ins, "Lock"); ok {
				anyLock = true
			}
		}
		if !anyLock {
			// a helper: fine if every call site holds the lock (then it belongs to the caller's section)
			sites := c.P.callSitesOf(fn)
			allLocked := len(sites) > 0 && fn.Object() != nil && !fn.Object().Exported()
			for _, s := range sites {
				cb, _ := lockStates(s.Parent())
				if !cb[s].locked {
					allLocked = false
				}
			}
			c.Check(R1, name+"/called-with-lock-held", fn.Pos(), allLocked, "accesses guarded state without locking: every call site must hold the mutex", fmt.Sprintf("%d call sites, all locked=%v", len(sites), allLocked))
			c.Count["cache_accesses"] += len(accesses)
			continue
		}
		sections := map[ssa.Instruction]bool{}
		for i, a := range accesses {
			st := before[a]
			c.Check(R1, fmt.Sprintf("%s/access#%d", name, i+1), a.Pos(), st.locked, "mutex held", fmt.Sprintf("held=%v", st.locked))
			if st.locked {
				sections[st.section] = true
			}
		}
		// calls to helpers that access guarded state belong to the section of the call
		for _, other := range infos {
			for _, s := range c.P.callSitesOf(other.fn) {
				if s.Parent() == fn && before[s].locked {
					sections[before[s].section] = true
				} else if s.Parent() == fn && other.fn != fn {
					// called without the lock: the helper takes it itself (checked for the helper), which makes
					// the call a critical section of its own within this operation
					sections[s.(ssa.Instruction)] = true
				}
			}
		}
		c.Count["cache_accesses"] += len(accesses)
		_, ambiguous := sections[nil]
		c.Check(R1, name+"/one-critical-section", fn.Pos(), len(sections) == 1 && !ambiguous, "all accesses to the guarded state in one critical section", fmt.Sprintf("%d sections (ambiguous=%v)", len(sections), ambiguous))
		for i, ret := range returnsOf(fn) {
			if len(ret.Block().Preds) == 0 && ret.Block() != fn.Blocks[0] {
				continue // recover block
			}
			st := before[ret]
			c.Check(R1, fmt.Sprintf("%s/return#%d", name, i+1), ret.Pos(), !st.locked || deferred, "mutex released at return (explicitly or by defer)", fmt.Sprintf("held=%v deferred-unlock=%v", st.locked, deferred))
		}
	}

	// ---- G2 / U2 writes to package-level and shared state
	const R2 = "G2-GLOBAL-WRITES"
	c.Doc(R2, "package-level variables are written only by initialisers and init functions (no lazy initialisation): no Store/MapUpdate whose address is rooted at a package variable (directly, or through an element of the slice/map it holds) in any other function")
	sharedTypes := sharedNamedTypes(c.P)
	const RU = "U2-SHARED-STATE"
	c.Doc(RU, "stores into objects whose named type is reachable from a package-level variable, outside init and outside objects freshly allocated in the same function: exactly one site, the append to ReedSolomonEncoder.polynomes (entries never change once cached: it must be an append of the loaded slice)")
	c.Floor(RU, 1)
	gw := 0
	for _, fn := range withCanary {
		if fn.Name() == "init" || strings.HasPrefix(fn.Name(), "init#") {
			continue
		}
		name := c.P.FuncName(fn)
		k := 0
		eachInstr(fn, func(b *ssa.BasicBlock, ins ssa.Instruction) {
			var addr ssa.Value
			switch x := ins.(type) {
			case *ssa.Store:
				addr = x.Addr
			case *ssa.MapUpdate:
				addr = x.Map
			case ssa.CallInstruction:
				// a slice or map held in a package variable handed to code that may write through it:
				// the destination of copy, or any function outside the repository that is not known to
				// only read its argument (slices.Reverse, sort.Slice, rand.Shuffle, ...)
				cc := x.Common()
				if bi, isB := cc.Value.(*ssa.Builtin); isB {
					if bi.Name() == "copy" && len(cc.Args) == 2 {
						if g := globalValueRoot(cc.Args[0]); g != nil {
							k++
							gw++
							c.Check(R2, fmt.Sprintf("%s/globalwrite#%d", name, k), ins.Pos(), false, "no write to package-level state outside init", "copy into "+g.Name())
						}
					}
					return
				}
				cal := cc.StaticCallee()
				if cal == nil || isRepoFunc(cal) || readOnlyExternal[calleeFullName(cal)] {
					return
				}
				for _, a := range cc.Args {
					switch a.Type().Underlying().(type) {
					case *types.Slice, *types.Map:
					default:
						continue
					}
					if g := globalValueRoot(a); g != nil {
						k++
						gw++
						c.Check(R2, fmt.Sprintf("%s/globalwrite#%d", name, k), ins.Pos(), false, "no write to package-level state outside init", g.Name()+" handed to "+calleeFullName(cal)+", which may modify it in place")
					}
				}
				return
			default:
				return
			}
			if g := globalRoot(addr, 0); g != nil {
				k++
				gw++
				c.Check(R2, fmt.Sprintf("%s/globalwrite#%d", name, k), ins.Pos(), false, "no write to package-level state outside init", "writes "+g.Name())
				return
			}
			// shared-type stores
			st, ok := ins.(*ssa.Store)
			if !ok {
				return
			}
			base, field := storeBase(st.Addr)
			if base == nil {
				return
			}
			if _, fresh := base.(*ssa.Alloc); fresh {
				return
			}
			tn := namedTypeName(base.Type())
			if !sharedTypes[tn] {
				return
			}
			k++
			key := fmt.Sprintf("%s/store:%s.%s", name, tn, field)
			if fa0, isFa := st.Addr.(*ssa.FieldAddr); isFa && guarded[fa0.X.Type().Underlying().(*types.Pointer).Elem().Underlying().(*types.Struct).Field(fa0.Field)] {
				// must be append(load of the same field, ...)
				ok := false
				if call, isCall := st.Val.(*ssa.Call); isCall {
					if bi, isB := call.Common().Value.(*ssa.Builtin); isB && bi.Name() == "append" {
						if ld, isLd := call.Common().Args[0].(*ssa.UnOp); isLd {
							if fa, isFa := ld.X.(*ssa.FieldAddr); isFa && fa.Field == st.Addr.(*ssa.FieldAddr).Field {
								ok = true
							}
						}
					}
				}
				c.Check(RU, key, st.Pos(), ok, "append(rs.polynomes, next): cached entries are never replaced", st.Val.String())
				return
			}
			c.Check(RU, key, st.Pos(), false, "no store into shared objects except the cache append", "store into "+tn+"."+field)
		})
	}
	c.Count["global_writes"] = gw
	c.Check(R2, "inventory", token.NoPos, true, "scanned all functions", fmt.Sprintf("%d functions, %d writes", len(withCanary), gw))

	// ---- G3 producers close their channel on every path
	const R3 = "G3-PRODUCER-CLOSE"
	c.Doc(R3, "every goroutine started by the library sends only on channels created in its enclosing function and closes each of them on every path to its exit (no path from the goroutine's entry to a return avoids close(ch))")
	c.Floor(R3, 4)
	for _, g := range goInstrs {
		// the goroutine body: a closure literal, or a function/method of the repository started with
		// its arguments (channels handed over as parameters are traced back to the go statement)
		var cl *ssa.Function
		if mc, ok := g.Call.Value.(*ssa.MakeClosure); ok {
			cl = mc.Fn.(*ssa.Function)
		} else if cal := g.Call.StaticCallee(); cal != nil && isRepoFunc(cal) && cal.Blocks != nil {
			cl = cal
		}
		if cl == nil {
			c.Undecided(R3, c.P.FuncName(g.Parent())+"/go", g.Pos(), "goroutine body is neither a closure literal nor a function of the repository")
			continue
		}
		goParent := g.Parent()
		origChanSource := chanSource
		chanSource := func(v ssa.Value) ssa.Value {
			src := origChanSource(v)
			if p, ok := src.(*ssa.Parameter); ok && p.Parent() == cl {
				for i, q := range cl.Params {
					if q == p && i < len(g.Call.Args) {
						return origChanSource(g.Call.Args[i])
					}
				}
			}
			return src
		}
		name := c.P.FuncName(cl)
		c.Fn(name)
		sent := map[ssa.Value]bool{}
		closedIn := map[ssa.Value]map[*ssa.BasicBlock]bool{}
		bad := ""
		eachInstr(cl, func(b *ssa.BasicBlock, ins ssa.Instruction) {
			switch x := ins.(type) {
			case *ssa.Send:
				src := chanSource(x.Chan)
				if _, ok := src.(*ssa.MakeChan); !ok || src.(*ssa.MakeChan).Parent() != goParent {
					bad += "send on a channel not created by the enclosing function; "
					return
				}
				sent[src] = true
			case *ssa.Call:
				if bi, ok := x.Common().Value.(*ssa.Builtin); ok && bi.Name() == "close" {
					src := chanSource(x.Common().Args[0])
					if src != nil {
						if closedIn[src] == nil {
							closedIn[src] = map[*ssa.BasicBlock]bool{}
						}
						closedIn[src][b] = true
					}
				}
			case *ssa.Defer:
				// defer close(ch): once registered, the channel is closed on every exit
				if bi, ok := x.Common().Value.(*ssa.Builtin); ok && bi.Name() == "close" {
					src := chanSource(x.Common().Args[0])
					if src != nil {
						if closedIn[src] == nil {
							closedIn[src] = map[*ssa.BasicBlock]bool{}
						}
						closedIn[src][b] = true
					}
				}
			}
		})
		if len(sent) == 0 {
			bad += "goroutine sends on no channel; "
		}
		for ch := range sent {
			// can a return be reached from entry without passing a block that closes ch?
			seen := map[*ssa.BasicBlock]bool{}
			var walk func(b *ssa.BasicBlock) bool
			walk = func(b *ssa.BasicBlock) bool {
				if seen[b] || closedIn[ch][b] {
					return false
				}
				seen[b] = true
				if _, isRet := b.Instrs[len(b.Instrs)-1].(*ssa.Return); isRet {
					return true
				}
				for _, s := range b.Succs {
					if walk(s) {
						return true
					}
				}
				return false
			}
			if walk(cl.Blocks[0]) {
				bad += "a path to the goroutine's exit does not close its channel; "
			}
			// no send after close in the same path is not checked (would panic at once)
		}
		c.Check(R3, name+"/close-on-all-paths", g.Pos(), bad == "", "sends only on own channels; close(ch) on every path to exit", orOK(bad))
	}

	// ---- G4 consumers drain
	const R4 = "G4-CONSUMER-DRAIN"
	c.Doc(R4, "range-over-channel consumers never leave the loop early (every block of the loop body stays in the loop); counted consumers: after a producer has been started, every return except the last is reached only when a just-received value was negative (the producer has stopped after sending it)")
	c.Floor(R4, 3)
	for _, fn := range withCanary {
		name := c.P.FuncName(fn)
		k := 0
		eachInstr(fn, func(b *ssa.BasicBlock, ins ssa.Instruction) {
			u, ok := ins.(*ssa.UnOp)
			if !ok || u.Op != token.ARROW || !u.CommaOk {
				return
			}
			// rangechan loop header b: succ0 body, succ1 done
			if len(b.Succs) != 2 {
				return
			}
			k++
			c.Fn(name)
			body := b.Succs[0]
			// natural loop: blocks dominated by body... every block reachable from body without
			// passing b must not return and must not jump outside (i.e. all paths come back to b)
			seen := map[*ssa.BasicBlock]bool{}
			escape := ""
			var walk func(x *ssa.BasicBlock)
			walk = func(x *ssa.BasicBlock) {
				if x == b || seen[x] {
					return
				}
				seen[x] = true
				if !b.Dominates(x) {
					escape = "leaves the loop at " + c.P.Pos(instrPos(x.Instrs[0]))
					return
				}
				switch x.Instrs[len(x.Instrs)-1].(type) {
				case *ssa.Return, *ssa.Panic:
					escape = "returns from inside the loop at " + c.P.Pos(instrPos(x.Instrs[len(x.Instrs)-1]))
					return
				}
				if x == b.Succs[1] {
					escape = "breaks out of the loop"
					return
				}
				for _, s := range x.Succs {
					walk(s)
				}
			}
			walk(body)
			c.Check(R4, fmt.Sprintf("%s/rangechan#%d", name, k), u.Pos(), escape == "", "loop body always returns to the receive", orOK(escape))
		})
	}
	// counted consumers fed by a producer call in the same function
	producers := map[*ssa.Function]bool{}
	for _, g := range goInstrs {
		producers[g.Parent()] = true
	}
	for _, fn := range withCanary {
		name := c.P.FuncName(fn)
		eachInstr(fn, func(b *ssa.BasicBlock, ins ssa.Instruction) {
			call, ok := ins.(*ssa.Call)
			if !ok || calleeOf(call) == nil || !producers[calleeOf(call)] {
				return
			}
			if _, isChan := call.Type().Underlying().(*types.Chan); !isChan {
				return
			}
			// consumers of this channel in fn
			var recvs []*ssa.UnOp
			ranged := false
			passed := false
			for _, r := range *call.Referrers() {
				switch x := r.(type) {
				case *ssa.UnOp:
					if x.Op == token.ARROW {
						if x.CommaOk {
							ranged = true
						} else {
							recvs = append(recvs, x)
						}
					}
				case *ssa.Call:
					passed = true
				}
			}
			key := fmt.Sprintf("%s/producer:%s", name, calleeOf(call).Name())
			if ranged || passed {
				c.Check(R4, key, call.Pos(), true, "channel consumed by a range loop or handed to the consumer function", "ok")
				return
			}
			if len(recvs) == 0 {
				c.Check(R4, key, call.Pos(), false, "the producer's channel is consumed", "never received from: the goroutine blocks forever")
				return
			}
			// every return reachable after the call, except returns with a nil error (the final success), must imply a negative received value
			n := NewNormer(c.P)
			for i, r := range recvs {
				n.Bind[r] = fmt.Sprintf("r%d", i)
			}
			neg := cFalse
			for i := range recvs {
				neg = cOr(neg, MustRefCond(fmt.Sprintf("r%d < 0", i)))
			}
			reach := reachableFrom(call.Block())
			bad := ""
			for _, ret := range returnsOf(fn) {
				if !reach[ret.Block()] {
					continue
				}
				last := ret.Results[len(ret.Results)-1]
				if isErrorType(last.Type()) && isNilConst(last) {
					continue // success return: consumption count is argued in DESIGN (frozen instance)
				}
				rc := n.ReachCond(fn, call.Block(), ret.Block())
				imp, _, w := CondRelation(rc, neg)
				if !imp {
					bad += fmt.Sprintf("return at %s reachable while the producer may still be sending (%s); ", c.P.Pos(ret.Pos()), w)
				}
			}
			c.Check(R4, key, call.Pos(), bad == "", "early returns only after a negative value was received", orOK(bad))
		})
	}

	// ---- U3 map ranges
	const R5 = "U3-MAPRANGE"
	c.Doc(R5, "every range over a map in non-test code is order-independent: recognised idiom = return the key of the first entry whose <field> equals a loop-invariant target, which is order-independent iff <field> is injective on the table (checked on the evaluated literal)")
	c.Floor(R5, 0) // removing a map range is fine; the canary below shows the rule still sees them
	for _, fn := range withCanary {
		name := c.P.FuncName(fn)
		k := 0
		eachInstr(fn, func(b *ssa.BasicBlock, ins ssa.Instruction) {
			rg, ok := ins.(*ssa.Range)
			if !ok {
				return
			}
			if _, isMap := rg.X.Type().Underlying().(*types.Map); !isMap {
				return
			}
			k++
			c.Fn(name)
			key := fmt.Sprintf("%s/maprange#%d", name, k)
			ok2, why := mapRangeOrderIndependent(c, fn, rg)
			c.Check(R5, key, rg.Pos(), ok2, "order-independent body", why)
		})
	}

	// ---- U4 imports
	const R7 = "U4-IMPORTS"
	c.Doc(R7, "no package of the library imports a source of non-determinism or ambient state (time, math/rand, crypto/rand, os, runtime, unsafe, reflect, sync/atomic, net, syscall)")
	c.Floor(R7, 12)
	deny := map[string]bool{"time": true, "math/rand": true, "math/rand/v2": true, "crypto/rand": true, "os": true, "runtime": true, "unsafe": true, "reflect": true, "sync/atomic": true, "net": true, "syscall": true}
	var pks []string
	for k := range c.P.Pkgs {
		pks = append(pks, k)
	}
	sort.Strings(pks)
	for _, k := range pks {
		var bad []string
		for ip := range c.P.Pkgs[k].Imports {
			if deny[ip] {
				bad = append(bad, ip)
			}
		}
		sort.Strings(bad)
		c.Check(R7, k+"/imports", token.NoPos, len(bad) == 0, "no denied import", fmt.Sprint(bad))
	}
}

func init() {
	canaries = append(canaries, canary{Pkg: "twooffive", Rule: "U3-MAPRANGE", Src: `
func zzVerifCanaryMapOrder(m map[int]int) int {
	for k := range m {
		return k
	}
	return 0
}`})
	canaryExpect["U3-MAPRANGE"] = []string{"zzVerifCanaryMapOrder"}
}

// readOnlyExternal: functions outside the repository that only read a slice/map argument.
var readOnlyExternal = map[string]bool{
	"fmt.Sprint": true, "fmt.Sprintf": true, "fmt.Sprintln": true, "fmt.Errorf": true, "fmt.Fprintf": true, "fmt.Fprint": true, "fmt.Fprintln": true,
	"bytes.Equal": true, "bytes.IndexByte": true, "bytes.Contains": true, "bytes.Index": true,
	"sort.SearchInts": true, "sort.Search": true,
	"slices.Contains": true, "slices.Index": true, "slices.IndexFunc": true, "slices.ContainsFunc": true, "slices.BinarySearch": true, "slices.Equal": true, "slices.Max": true, "slices.Min": true, "slices.Backward": true, "slices.All": true, "slices.Values": true, "slices.Clone": true,
	"maps.Keys": true, "maps.Values": true, "maps.All": true, "maps.Clone": true,
	"strings.Join": true, "strings.NewReplacer": true, "unicode/utf8.DecodeRune": true, "unicode/utf8.RuneCount": true, "unicode/utf8.Valid": true,
}

func calleeFullName(f *ssa.Function) string {
	name := f.Name()
	if o := f.Origin(); o != nil {
		f = o // generic instantiation -> the generic function
		name = f.Name()
	}
	if f.Pkg != nil {
		return f.Pkg.Pkg.Path() + "." + name
	}
	if f.Object() != nil && f.Object().Pkg() != nil {
		return f.Object().Pkg().Path() + "." + name
	}
	return name
}

// globalValueRoot: v is (a sub-slice of) a slice/map/array value loaded from a package variable or from
// an element of one.
func globalValueRoot(v ssa.Value) *ssa.Global {
	for d := 0; d < 6; d++ {
		switch x := v.(type) {
		case *ssa.Slice:
			v = x.X
			continue
		case *ssa.UnOp:
			if x.Op == token.MUL {
				if g, ok := x.X.(*ssa.Global); ok {
					return g
				}
				return globalRoot(x.X, 0)
			}
		case *ssa.Lookup:
			return globalRoot(x, 0)
		case *ssa.Extract:
			if lk, ok := x.Tuple.(*ssa.Lookup); ok {
				return globalRoot(lk, 0)
			}
		case *ssa.Global: // pointer to a package-level array
			return x
		}
		return nil
	}
	return nil
}

func globalRoot(addr ssa.Value, depth int) *ssa.Global {
	if depth > 6 {
		return nil
	}
	switch x := addr.(type) {
	case *ssa.Global:
		return x
	case *ssa.FieldAddr:
		return globalRoot(x.X, depth+1)
	case *ssa.IndexAddr:
		return globalRoot(x.X, depth+1)
	case *ssa.UnOp:
		// element of the slice / map / array held directly in a package variable
		if x.Op == token.MUL {
			if g, ok := x.X.(*ssa.Global); ok {
				switch g.Type().Underlying().(*types.Pointer).Elem().Underlying().(type) {
				case *types.Slice, *types.Map, *types.Array:
					return g
				}
			}
		}
	case *ssa.Lookup:
		return globalRoot(x.X, depth+1)
	case *ssa.Slice:
		// a sub-slice shares the backing array
		return globalRoot(x.X, depth+1)
	case *ssa.Extract:
		// v, ok := table[k]: v is the table's own slice / map value
		if lk, ok := x.Tuple.(*ssa.Lookup); ok && x.Index == 0 {
			switch x.Type().Underlying().(type) {
			case *types.Slice, *types.Map, *types.Pointer:
				return globalRoot(lk, depth+1)
			}
		}
	}
	return nil
}

// storeBase: for a store through FieldAddr chains returns the base pointer and the outermost field.
func storeBase(addr ssa.Value) (ssa.Value, string) {
	fa, ok := addr.(*ssa.FieldAddr)
	if !ok {
		return nil, ""
	}
	st := fa.X.Type().Underlying().(*types.Pointer).Elem().Underlying().(*types.Struct)
	return fa.X, fname(st.Field(fa.Field))
}

// sharedNamedTypes: named struct types reachable from the types of package-level variables.
func sharedNamedTypes(p *Prog) map[string]bool {
	out := map[string]bool{}
	seen := map[types.Type]bool{}
	var walk func(t types.Type)
	walk = func(t types.Type) {
		if t == nil || seen[t] {
			return
		}
		seen[t] = true
		switch x := t.(type) {
		case *types.Named:
			if x.Obj().Pkg() != nil && strings.HasPrefix(x.Obj().Pkg().Path(), modPath) {
				if _, ok := x.Underlying().(*types.Struct); ok {
					out[shortName(x.Obj().Pkg().Path())+"."+x.Obj().Name()] = true
				}
				walk(x.Underlying())
			}
		case *types.Pointer:
			walk(x.Elem())
		case *types.Slice:
			walk(x.Elem())
		case *types.Array:
			walk(x.Elem())
		case *types.Map:
			walk(x.Key())
			walk(x.Elem())
		case *types.Struct:
			for i := 0; i < x.NumFields(); i++ {
				walk(x.Field(i).Type())
			}
		}
	}
	for _, pk := range p.Pkgs {
		sc := pk.Types.Scope()
		for _, nm := range sc.Names() {
			if v, ok := sc.Lookup(nm).(*types.Var); ok && !p.IsCanaryPos(v.Pos()) {
				walk(v.Type())
			}
		}
	}
	return out
}

// mapRangeOrderIndependent recognises: for k, v := range T { if v.F == target { return g(k) } }
// with T a package-level table whose field F is injective.
func mapRangeOrderIndependent(c *Ctx, fn *ssa.Function, rg *ssa.Range) (bool, string) {
	ld, ok := rg.X.(*ssa.UnOp)
	if !ok {
		return false, "map is not a package-level table"
	}
	g, ok := ld.X.(*ssa.Global)
	if !ok {
		return false, "map is not a package-level table"
	}
	var next *ssa.Next
	for _, r := range *rg.Referrers() {
		if nx, ok := r.(*ssa.Next); ok {
			next = nx
		}
	}
	if next == nil {
		return false, "no iteration"
	}
	header := next.Block()
	var keyV, valV ssa.Value
	for _, r := range *next.Referrers() {
		if ex, ok := r.(*ssa.Extract); ok {
			switch ex.Index {
			case 1:
				keyV = ex
			case 2:
				valV = ex
			}
		}
	}
	if len(header.Succs) != 2 || valV == nil {
		return false, "unrecognised loop shape"
	}
	body := header.Succs[0]
	n := NewNormer(c.P)
	if keyV != nil {
		n.Bind[keyV] = "k"
	}
	n.Bind[valV] = "v"
	// values computed before the loop are loop-invariant: name the phis among them
	inv := 0
	eachInstr(fn, func(b *ssa.BasicBlock, ins ssa.Instruction) {
		if phi, ok := ins.(*ssa.Phi); ok && !header.Dominates(b) {
			inv++
			n.Bind[phi] = fmt.Sprintf("inv%d", inv)
		}
	})
	// blocks of the loop
	field := ""
	exits := 0
	seen := map[*ssa.BasicBlock]bool{}
	var fail string
	var walk func(x *ssa.BasicBlock)
	walk = func(x *ssa.BasicBlock) {
		if x == header || seen[x] || fail != "" {
			return
		}
		seen[x] = true
		for _, ins := range x.Instrs {
			switch i := ins.(type) {
			case *ssa.Store:
				if a, _, ok := rootAlloc(i.Addr); ok && !a.Heap {
					continue // spill of the iteration value into a local
				}
				fail = "loop body has side effects: " + ins.String()
			case *ssa.MapUpdate, *ssa.Send, *ssa.Go, *ssa.Defer:
				fail = "loop body has side effects: " + ins.String()
			case *ssa.Call:
				fail = "loop body calls " + i.Common().String()
			case *ssa.Return:
				exits++
				rc := n.ReachCond(fn, body, x)
				// must be [v.F - target == 0] with target loop-invariant
				if rc.Kind != CCmp || rc.Op != "==" || !strings.Contains(rc.Base, "v.") {
					fail = "exit condition is not `v.<field> == target`: " + rc.String()
					return
				}
				for _, part := range strings.FieldsFunc(rc.Base, func(r rune) bool { return r == ' ' || r == '+' || r == '-' }) {
					if strings.HasPrefix(part, "v.") {
						field = strings.TrimPrefix(part, "v.")
					}
				}
				if strings.Contains(strings.Replace(rc.Base, "v."+field, "", 1), "v.") || strings.Contains(rc.Base, "k") && strings.Contains(rc.Base, "k ") {
					fail = "target depends on the iteration"
				}
			}
		}
		for _, s := range x.Succs {
			if header.Dominates(s) && s != header.Succs[1] {
				walk(s)
			} else if s != header {
				fail = "loop is left without returning (break): the chosen key would depend on iteration order"
			}
		}
	}
	walk(body)
	if fail != "" {
		return false, fail
	}
	if exits != 1 || field == "" {
		return false, fmt.Sprintf("%d exits", exits)
	}
	tbl, err := c.P.EvalVar(shortName(g.Pkg.Pkg.Path()), g.Name())
	if err != nil || tbl.Kind != VMap {
		return false, "table not evaluable"
	}
	vals := map[string]bool{}
	for _, e := range tbl.Map {
		f := e.V.Field(field)
		if f == nil {
			return false, "field " + field + " not in table entries"
		}
		if vals[f.String()] {
			return false, fmt.Sprintf("field %s is not injective on %s (value %s occurs twice): first match depends on map iteration order", field, g.Name(), f.String())
		}
		vals[f.String()] = true
	}
	return true, fmt.Sprintf("first match on %s.%s, injective over %d entries", g.Name(), field, len(tbl.Map))
}

func init() {
	canaries = append(canaries, canary{Pkg: "utils", Rule: "G2-GLOBAL-WRITES", Src: `
var zzVerifLazy []int

func zzVerifCanaryLazy() []int {
	if zzVerifLazy == nil {
		zzVerifLazy = make([]int, 4)
	}
	return zzVerifLazy
}

type zzVerifGuarded struct {
	mu *zzsync.Mutex
	xs []int
}

func (g *zzVerifGuarded) zzVerifGrow() {
	g.mu.Lock()
	g.xs = append(g.xs, 1)
	g.mu.Unlock()
}

func (g *zzVerifGuarded) zzVerifCanaryUnlocked() int {
	return len(g.xs)
}

func zzVerifUseGuarded(g *zzVerifGuarded) int {
	g.zzVerifGrow()
	return g.zzVerifCanaryUnlocked()
}`})
	canaryImports["utils"] = `import zzsync "sync"`
	canaryExpect["G2-GLOBAL-WRITES"] = []string{"zzVerifCanaryLazy"}
	canaryExpect["G1-LOCK"] = []string{"zzVerifCanaryUnlocked"}
}

// guardedFields: for struct types of the repository that carry a sync.Mutex / *sync.Mutex field,
// the fields that are stored to through a non-fresh receiver (mutable shared state).
func guardedFields(p *Prog, fns []*ssa.Function) map[*types.Var]bool {
	out := map[*types.Var]bool{}
	hasMutex := func(st *types.Struct) bool {
		for i := 0; i < st.NumFields(); i++ {
			if strings.HasSuffix(st.Field(i).Type().String(), "sync.Mutex") || strings.HasSuffix(st.Field(i).Type().String(), "sync.RWMutex") {
				return true
			}
		}
		return false
	}
	for _, fn := range fns {
		eachInstr(fn, func(b *ssa.BasicBlock, ins ssa.Instruction) {
			st, ok := ins.(*ssa.Store)
			if !ok {
				return
			}
			fa, ok := st.Addr.(*ssa.FieldAddr)
			if !ok {
				return
			}
			if _, fresh := fa.X.(*ssa.Alloc); fresh {
				return
			}
			s, ok := fa.X.Type().Underlying().(*types.Pointer).Elem().Underlying().(*types.Struct)
			if !ok || !hasMutex(s) {
				return
			}
			out[s.Field(fa.Field)] = true
		})
	}
	return out
}
