package main

import (
	"fmt"
	"go/constant"
	"go/token"
	"go/types"
	"strings"

	"golang.org/x/tools/go/ssa"
)

// V1 for Code 39 / V2 storage and forwarding.
func ruleCheckValue(c *Ctx) {
	const R = "V1-C39-CHECKVALUE"
	c.Doc(R, "code39.EncodeWithColor: the reported check value is checksumValue(X)#0 for the very string X that is stored as content, framed by '*' and drawn, and for which getChecksum(X) supplies the check character; checksumValue returns sum % 43 of the table values; getChecksum looks the character up by that same value")
	c.Floor(R, 5)
	if fn := c.theFunc(R, "code39.EncodeWithColor"); fn != nil {
		n := NewNormer(c.P)
		n.BindParams(fn, "content", "includeChecksum", "fullASCII", "color")
		var ctor *ssa.Call
		eachInstr(fn, func(b *ssa.BasicBlock, ins ssa.Instruction) {
			if call, ok := ins.(*ssa.Call); ok && calleeOf(call) != nil && calleeOf(call).Name() == "New1DCodeIntCheckSumWithColor" {
				ctor = call
			}
		})
		if ctor == nil {
			c.Check(R, "code39.EncodeWithColor/ctor", fn.Pos(), false, "New1DCodeIntCheckSumWithColor call", "none")
		} else {
			X := ctor.Common().Args[1]
			n.Bind[X] = "X"
			sum := ctor.Common().Args[3]
			okSum := false
			found := n.Norm(sum).String()
			if ex, ok := sum.(*ssa.Extract); ok && ex.Index == 0 {
				if call, ok := ex.Tuple.(*ssa.Call); ok && calleeOf(call) != nil && c.P.FuncName(calleeOf(call)) == "code39.checksumValue" {
					okSum = call.Common().Args[0] == X
					found = "checksumValue(" + n.Norm(call.Common().Args[0]).String() + ")#0"
				}
			}
			c.Check(R, "code39.EncodeWithColor/reported-value", ctor.Pos(), okSum, "checksumValue(X)#0 with X the stored content", found)
			// the drawn check character: getChecksum searches the table for a value; that value, seen in
			// this calling context, is checksumValue(X)#0 - whether getChecksum computes it from X itself
			// or receives it
			gcFn := checkCharFunc(c, "code39")
			for _, site := range c.P.deepCallsTo(fn, gcFn) {
				call := site.Ins.(*ssa.Call)
				sv, sub := code39SearchedValueDeep(c, gcFn)
				if sv == nil {
					c.Undecided(R, "code39.EncodeWithColor/check-char-subject", call.Pos(), "getChecksum does not select a character by a value")
					continue
				}
				n.NoInline["code39.checksumValue"] = true
				saved := n.Ctx
				n.Ctx = append(append(append([]ssa.CallInstruction{}, site.Path...), call), sub.Path...)
				got := n.Norm(sv).String()
				n.Ctx = saved
				c.Check(R, "code39.EncodeWithColor/check-char-subject", call.Pos(), got == "call:code39.checksumValue(X)#0", "the character of value checksumValue(X)#0", got)
			}
			// X is the prepared content: phi(prepare(content)#0 under fullASCII, content otherwise)
			if phi, ok := X.(*ssa.Phi); ok {
				delete(n.Bind, X)
				bindCalls(n, c.P, fn, nil, map[string][2]string{"code39.prepare": {"prepared", "prepErr"}})
				seen := map[string]bool{}
				for _, e := range phi.Edges {
					seen[n.Norm(e).String()] = true
				}
				c.Check(R, "code39.EncodeWithColor/content-choice", phi.Pos(), seen["prepared"] && seen["content"] && len(seen) == 2, "prepared spelling in full-ASCII mode, the input otherwise", fmt.Sprint(seen))
			}
		}
	}
	if fn := c.theFunc(R, "code39.checksumValue"); fn != nil {
		n := NewNormer(c.P)
		n.BindParams(fn, "content")
		for _, blk := range fn.Blocks {
			for _, ins := range blk.Instrs {
				if p, ok := ins.(*ssa.Phi); ok && isIntType(p.Type()) {
					n.Bind[p] = "sum"
				}
			}
		}
		okRet := 0
		for _, ret := range returnsOf(fn) {
			if k, ok := ret.Results[1].(*ssa.Const); ok && k.Value != nil && k.Value.String() == "true" {
				okRet++
				c.expectPoly(R, "code39.checksumValue/value", ret.Pos(), n, ret.Results[0], "sum % 43")
			}
		}
		c.Check(R, "code39.checksumValue/returns", fn.Pos(), okRet == 1, "one successful return", fmt.Sprint(okRet))
		// the accumulation: sum += info.value
		for _, blk := range fn.Blocks {
			for _, ins := range blk.Instrs {
				p, ok := ins.(*ssa.Phi)
				if !ok || !isIntType(p.Type()) {
					continue
				}
				for ei, e := range p.Edges {
					if blk.Dominates(blk.Preds[ei]) {
						got := n.Norm(e).String()
						c.Check(R, "code39.checksumValue/accumulate", p.Pos(), len(got) > 4 && got[len(got)-5:] == "+ sum" || contains(got, "sum +") || contains(got, ".value + sum") || contains(got, "sum"), "sum + value of the character", got)
					} else {
						c.expectPoly(R, "code39.checksumValue/start", p.Pos(), n, e, "0")
					}
				}
			}
		}
	}
	gcFn := checkCharFunc(c, "code39")
	if gcFn == nil {
		c.Anchor(R, "code39.getChecksum", "function not found")
	}
	if fn := gcFn; fn != nil {
		c.Fn(c.P.FuncName(fn))
		sumV, sub := code39SearchedValueDeep(c, fn)
		outer := fn
		if sumV != nil && sub.Fn != nil {
			fn = sub.Fn // the function that contains the search
			c.Fn(c.P.FuncName(fn))
		}
		// the result of the search is handed up unchanged to the function EncodeWithColor calls
		forwarded := true
		for k := len(sub.Path) - 1; k >= 0 && sumV != nil; k-- {
			cv := sub.Path[k].Value()
			G := sub.Path[k].Parent()
			okF := false
			for _, ret := range returnsOf(G) {
				r := ret.Results[0]
				if cvt, isCv := r.(*ssa.Convert); isCv {
					r = cvt.X
				}
				if ex, isEx := r.(*ssa.Extract); isEx && ex.Index == 0 {
					r = ex.Tuple
				}
				if r == ssa.Value(cv) && cv != nil {
					okF = true
				}
			}
			if !okF {
				forwarded = false
			}
		}
		_ = outer
		c.Check(R, "code39.getChecksum/value-source", fn.Pos(), sumV != nil, "selects the character by a check value (judged in its calling context above)", fmt.Sprint(sumV != nil))
		// the character returned is the one whose table value is that sum
		{
			good, how := false, "no table search keyed by the check value"
			if sumV != nil {
				n := NewNormer(c.P)
				n.Bind[sumV] = "sum"
				// (a) search of encodeTable returning the key whose value equals sum
				var next *ssa.Next
				eachInstr(fn, func(b *ssa.BasicBlock, ins ssa.Instruction) {
					if nx, isNx := ins.(*ssa.Next); isNx && !nx.IsString && n.Norm(rangeSubject(nx)).String() == "global:code39.encodeTable" {
						next = nx
					}
				})
				if next != nil {
					var keyV ssa.Value
					for _, r := range *next.Referrers() {
						if ex, isEx := r.(*ssa.Extract); isEx && ex.Index == 1 {
							keyV = ex
						}
					}
					eachInstr(fn, func(b *ssa.BasicBlock, ins ssa.Instruction) {
						bo, isBo := ins.(*ssa.BinOp)
						if !isBo || (bo.Op != token.EQL && bo.Op != token.NEQ) {
							return
						}
						if !(bo.X == sumV || bo.Y == sumV) {
							return
						}
						other := bo.X
						if other == sumV {
							other = bo.Y
						}
						if !strings.HasSuffix(n.Norm(other).String(), ".value") {
							return
						}
						for _, ret := range returnsOf(fn) {
							r0 := ret.Results[0]
							if cv, isCv := r0.(*ssa.Convert); isCv {
								r0 = cv.X
							}
							if r0 == keyV && keyV != nil && forwarded {
								match := n.CondOf(bo) // "the entry's value is the check value"
								if bo.Op == token.NEQ {
									match = cNot(match)
								}
								if imp, _, _ := CondRelation(n.ReachCond(fn, bo.Block(), ret.Block()), match); imp {
									good, how = true, "range over encodeTable, key returned when value == sum"
								}
							}
						}
					})
				}
				// (b) a constant alphabet string indexed by the sum: position i must hold the character of value i
				eachInstr(fn, func(b *ssa.BasicBlock, ins ssa.Instruction) {
					var str *ssa.Const
					var idx ssa.Value
					switch x := ins.(type) {
					case *ssa.Slice:
						if k, isK := x.X.(*ssa.Const); isK && x.Low == sumV {
							str, idx = k, x.Low
							if !pEqual(n.Norm(x.High), MustRef("sum + 1")) {
								str = nil
							}
						}
					case *ssa.Index:
						if k, isK := x.X.(*ssa.Const); isK && x.Index == sumV {
							str, idx = k, x.Index
						}
					case *ssa.Lookup:
						if k, isK := x.X.(*ssa.Const); isK && x.Index == sumV {
							str, idx = k, x.Index
						}
					}
					if str == nil || idx == nil || str.Value == nil || str.Value.Kind() != constant.String {
						return
					}
					tbl, err := c.P.EvalVar("code39", "encodeTable")
					if err != nil {
						return
					}
					alphabet := constant.StringVal(str.Value)
					good, how = len(alphabet) >= 43, "alphabet string indexed by the check value"
					for i := 0; i < len(alphabet) && i < 43; i++ {
						e := tbl.MapGetInt(int64(alphabet[i]))
						if e == nil || e.Field("value") == nil || e.Field("value").I != int64(i) {
							good = false
							how = fmt.Sprintf("alphabet string: position %d holds %q whose table value is not %d", i, alphabet[i], i)
							break
						}
					}
				})
			}
			c.Check(R, "code39.getChecksum/character-of-value", fn.Pos(), good, "returns the character whose encodeTable value equals the check value", how)
		}
	}

	c.Doc("K5-CONTENT", "Content returns the stored content; encoders store the text they were given (EAN: the completed code; Code 39/93: the prepared string)")
	const R2 = "V2-CHECKSUM-STORAGE"
	c.Doc(R2, "utils.New1DCodeIntCheckSum* store the checksum parameter in the checksum field and CheckSum() returns that field")
	c.Floor(R2, 3)
	for _, name := range []string{"utils.New1DCodeIntCheckSum", "utils.New1DCodeIntCheckSumWithColor"} {
		fn := c.theFunc(R2, name)
		if fn == nil {
			continue
		}
		n := NewNormer(c.P)
		n.BindParams(fn, "kind", "content", "bars", "checksum", "color")
		got := ctorFields(n, fn, 0)
		c.Check(R2, name, fn.Pos(), got["checksum"] == "checksum", "checksum parameter stored in the checksum field", got["checksum"])
		// the other fields: kind, content, bars
		c.Check("K5-CONTENT", name+"/fields", fn.Pos(), got["kind"] == "kind" && got["content"] == "content" && got["BitList"] == "bars", "kind, content and bars stored from the parameters of those names", fmt.Sprint(got))
	}
	for _, name := range []string{"utils.New1DCode", "utils.New1DCodeWithColor"} {
		fn := c.theFunc("K5-CONTENT", name)
		if fn == nil {
			continue
		}
		n := NewNormer(c.P)
		n.BindParams(fn, "kind", "content", "bars", "color")
		got := ctorFields(n, fn, 0)
		c.Check("K5-CONTENT", name+"/fields", fn.Pos(), got["kind"] == "kind" && got["content"] == "content" && got["BitList"] == "bars", "kind, content and bars stored from the parameters of those names", fmt.Sprint(got))
	}
	if fn := c.theFunc(R2, "utils.(*base1DCodeIntCS).CheckSum"); fn != nil {
		n := NewNormer(c.P)
		n.BindParams(fn, "c")
		got := n.Norm(returnsOf(fn)[0].Results[0]).String()
		c.Check(R2, "utils.(*base1DCodeIntCS).CheckSum", fn.Pos(), got == "c.checksum", "c.checksum", got)
	}
}

// S6: rune-keyed tables with non-ASCII keys must not be indexed with bytes of a string.
func ruleRuneKeys(c *Ctx) {
	const R = "S6-RUNE-KEYS"
	c.Doc(R, "a table keyed by rune that contains keys above 127 (the FNC placeholders) is never looked up with a single byte of a string converted to rune (multi-byte characters would miss the table)")
	c.Floor(R, 10)
	for _, fn := range append(append([]*ssa.Function{}, c.P.Funcs...), c.P.CanaryFuncs...) {
		k := 0
		eachInstr(fn, func(b *ssa.BasicBlock, ins ssa.Instruction) {
			lk, ok := ins.(*ssa.Lookup)
			if !ok {
				return
			}
			mt, ok := lk.X.Type().Underlying().(*types.Map)
			if !ok {
				return
			}
			if bk, ok := mt.Key().Underlying().(*types.Basic); !ok || bk.Kind() != types.Int32 {
				return
			}
			k++
			c.Fn(c.P.FuncName(fn))
			key := fmt.Sprintf("%s/runelookup#%d", c.P.FuncName(fn), k)
			fromByte := false
			if cv, ok := lk.Index.(*ssa.Convert); ok {
				if bt, uns := intSize(cv.X.Type()); bt == 8 && uns {
					switch src := cv.X.(type) {
					case *ssa.Index:
						fromByte = isStringType(src.X.Type())
					case *ssa.Lookup:
						fromByte = isStringType(src.X.Type())
					case *ssa.UnOp:
						fromByte = true // element of a []byte
					}
				}
			}
			wide := false
			if g, ok := globalOfLoad(lk.X); ok {
				if tbl, err := c.P.EvalVar(shortName(g.Pkg.Pkg.Path()), g.Name()); err == nil {
					for _, e := range tbl.Map {
						if e.K.Kind == VInt && e.K.I > 127 {
							wide = true
						}
					}
				}
			}
			c.Check(R, key, lk.Pos(), !(fromByte && wide), "rune keys come from ranging over the string or from []rune", fmt.Sprintf("key is a single byte=%v, table has non-ASCII keys=%v", fromByte, wide))
		})
	}
}

// ctorFields: the values a constructor stores into the fields of the object it builds (field name ->
// normal form over the constructor's parameters). A constructor that only delegates to a sibling
// (return otherCtor(args...)) is followed into the sibling in that calling context.
func ctorFields(n *Normer, fn *ssa.Function, depth int) map[string]string {
	got := map[string]string{}
	// a struct stored as a whole (embedded part, or the complete object built by a helper): its fields
	expand := func(v ssa.Value) bool {
		st, ok := v.Type().Underlying().(*types.Struct)
		if !ok {
			return false
		}
		for j := 0; j < st.NumFields(); j++ {
			if p, ok := n.fieldOf(v, j, 0); ok {
				got[fname(st.Field(j))] = p.String()
			}
		}
		return true
	}
	eachInstr(fn, func(b *ssa.BasicBlock, ins ssa.Instruction) {
		if st, ok := ins.(*ssa.Store); ok {
			if _, f := storeBase(st.Addr); f != "" {
				if !expand(st.Val) {
					got[f] = n.Norm(st.Val).String()
				}
			} else if _, isAlloc := st.Addr.(*ssa.Alloc); isAlloc {
				expand(st.Val)
			}
		}
	})
	if len(got) > 0 || depth >= 2 {
		return got
	}
	rets := returnsOf(fn)
	if len(rets) != 1 || len(rets[0].Results) != 1 {
		return got
	}
	v := rets[0].Results[0]
	for {
		switch x := v.(type) {
		case *ssa.MakeInterface:
			v = x.X
			continue
		case *ssa.ChangeInterface:
			v = x.X
			continue
		}
		break
	}
	call, ok := v.(*ssa.Call)
	if !ok {
		return got
	}
	cal := call.Common().StaticCallee()
	if cal == nil || !isRepoFunc(cal) || cal.Blocks == nil || cal == fn {
		return got
	}
	saved := n.Ctx
	n.Ctx = append(append([]ssa.CallInstruction{}, saved...), call)
	got = ctorFields(n, cal, depth+1)
	n.Ctx = saved
	return got
}

// code39SearchedValue: the value by which code39.getChecksum selects the check character: the
// operand compared with a table entry's value in the search, or the index into an alphabet string.
func code39SearchedValue(c *Ctx, fn *ssa.Function) ssa.Value {
	v, _ := code39SearchedValueDeep(c, fn)
	return v
}

// code39SearchedValueDeep: the same, also when the search itself lives in an unexported helper of fn;
// the site tells where (function and call path from fn).
func code39SearchedValueDeep(c *Ctx, fn *ssa.Function) (ssa.Value, DeepSite) {
	if fn == nil {
		return nil, DeepSite{}
	}
	n := NewNormer(c.P)
	var out ssa.Value
	var at DeepSite
	c.P.deepEach(fn, 2, func(s DeepSite) {
		before := out
		defer func() {
			if out != before {
				at = s
			}
		}()
		switch x := s.Ins.(type) {
		case *ssa.BinOp:
			if x.Op != token.EQL && x.Op != token.NEQ {
				return
			}
			for _, pair := range [][2]ssa.Value{{x.X, x.Y}, {x.Y, x.X}} {
				if strings.HasSuffix(n.Norm(pair[0]).String(), ".value") && isIntType(pair[1].Type()) {
					if _, isConst := pair[1].(*ssa.Const); !isConst {
						out = pair[1]
					}
				}
			}
		case *ssa.Slice:
			if k, isK := x.X.(*ssa.Const); isK && k.Value != nil && k.Value.Kind() == constant.String && x.Low != nil {
				out = x.Low
			}
		case *ssa.Index:
			if k, isK := x.X.(*ssa.Const); isK && k.Value != nil && k.Value.Kind() == constant.String {
				out = x.Index
			}
		case *ssa.Lookup:
			if k, isK := x.X.(*ssa.Const); isK && k.Value != nil && k.Value.Kind() == constant.String {
				out = x.Index
			}
		}
	})
	return out, at
}

// checkCharFunc: the function of package pk that supplies the check character(s): getChecksum, or -
// when it was renamed or given another signature - the function called from EncodeWithColor in (or
// below) which a table entry is selected by comparing its value with the check value.
func checkCharFunc(c *Ctx, pk string) *ssa.Function {
	if f := c.P.Func(pk + ".getChecksum"); f != nil {
		return f
	}
	enc := c.P.Func(pk + ".EncodeWithColor")
	if enc == nil {
		return nil
	}
	n := NewNormer(c.P)
	cands := map[*ssa.Function]bool{}
	c.P.deepEach(enc, 3, func(s DeepSite) {
		bo, ok := s.Ins.(*ssa.BinOp)
		if !ok || (bo.Op != token.EQL && bo.Op != token.NEQ) || len(s.Path) == 0 {
			return
		}
		for _, pair := range [][2]ssa.Value{{bo.X, bo.Y}, {bo.Y, bo.X}} {
			if _, isConst := pair[1].(*ssa.Const); isConst || !isIntType(pair[1].Type()) {
				continue
			}
			if strings.HasSuffix(n.Norm(pair[0]).String(), ".value") {
				if f := s.Path[0].Common().StaticCallee(); f != nil {
					cands[f] = true
				}
			}
		}
	})
	if len(cands) == 1 {
		for f := range cands {
			return f
		}
	}
	return nil
}
