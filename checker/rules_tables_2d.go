package main

import (
	"crypto/sha256"
	"fmt"
	"go/ast"
	"go/token"
	"math/bits"
	"sort"
	"strings"

	"golang.org/x/tools/go/ssa"
)

// ---------------------------------------------------------------------------------------------
// DataMatrix (ISO/IEC 16022 Table 7, square ECC 200 symbols)

var iso16022Square = [][5]int{ // size, regions per side, data codewords, ecc codewords, blocks
	{10, 1, 3, 5, 1}, {12, 1, 5, 7, 1}, {14, 1, 8, 10, 1}, {16, 1, 12, 12, 1}, {18, 1, 18, 14, 1}, {20, 1, 22, 18, 1},
	{22, 1, 30, 20, 1}, {24, 1, 36, 24, 1}, {26, 1, 44, 28, 1}, {32, 2, 62, 36, 1}, {36, 2, 86, 42, 1}, {40, 2, 114, 48, 1},
	{44, 2, 144, 56, 1}, {48, 2, 174, 68, 1}, {52, 2, 204, 84, 2}, {64, 4, 280, 112, 2}, {72, 4, 368, 144, 4}, {80, 4, 456, 192, 4},
	{88, 4, 576, 224, 4}, {96, 4, 696, 272, 4}, {104, 4, 816, 336, 6}, {120, 6, 1050, 408, 6}, {132, 6, 1304, 496, 8}, {144, 6, 1558, 620, 10},
}

func ruleDataMatrixTables(c *Ctx) {
	const R = "D1-DM-SIZES"
	c.Doc(R, "datamatrix.codeSizes: the 24 square ECC 200 sizes in ascending order; regions, ECC count and block count equal ISO 16022 Table 7; data capacity = mapping-matrix modules/8 - ECC equals the table; mapping matrix divisible into the regions; ECC divisible by blocks")
	c.Floor(R, 24)
	tbl, err := c.P.EvalVar("datamatrix", "codeSizes")
	if err != nil {
		c.Anchor(R, "datamatrix.codeSizes", err.Error())
		return
	}
	c.Fn("datamatrix.codeSizes")
	if len(tbl.List) != 24 {
		c.Check(R, "datamatrix.codeSizes/len", tbl.Pos, false, "24 rows", fmt.Sprint(len(tbl.List)))
	}
	for i, row := range tbl.List {
		if i >= 24 {
			break
		}
		ref := iso16022Square[i]
		key := fmt.Sprintf("datamatrix.codeSizes[%dx%d]", ref[0], ref[0])
		f := func(n string) int {
			if v := row.Field(n); v != nil && v.Kind == VInt {
				return int(v.I)
			}
			return -1
		}
		rows, cols, rh, rv, ecc, blk := f("Rows"), f("Columns"), f("RegionCountHorizontal"), f("RegionCountVertical"), f("ECCCount"), f("BlockCount")
		c.Count["table_entries"]++
		ok := rows == ref[0] && cols == ref[0] && rh == ref[1] && rv == ref[1] && ecc == ref[3] && blk == ref[4]
		why := fmt.Sprintf("rows=%d cols=%d regions=%dx%d ecc=%d blocks=%d", rows, cols, rh, rv, ecc, blk)
		if ok {
			// derived quantities exactly as the code derives them
			if (rows-2*rv)%rv != 0 || (cols-2*rh)%rh != 0 {
				ok = false
				why += " (mapping matrix not divisible into regions)"
			}
			data := ((cols-2*rh)*(rows-2*rv))/8 - ecc
			if data != ref[2] {
				ok = false
				why += fmt.Sprintf(" (data capacity %d)", data)
			}
			if ecc%blk != 0 {
				ok = false
				why += " (ecc not divisible by blocks)"
			}
		}
		c.Check(R, key, row.Pos, ok, fmt.Sprintf("rows=cols=%d regions=%dx%d data=%d ecc=%d blocks=%d", ref[0], ref[1], ref[1], ref[2], ref[3], ref[4]), why)
	}
}

// ---------------------------------------------------------------------------------------------
// Galois fields

func polyDegree(p int64) int { return bits.Len64(uint64(p)) - 1 }

// isPrimitive: x generates the multiplicative group of GF(2)[x]/(p).
func isPrimitive(p int64) bool {
	deg := polyDegree(p)
	if deg < 1 || deg > 16 {
		return false
	}
	size := int64(1) << uint(deg)
	x := int64(1)
	for i := int64(1); i < size; i++ {
		x <<= 1
		if x&size != 0 {
			x ^= p
		}
		if x == 1 {
			return i == size-1
		}
	}
	return false
}

// ruleGFConstruction (M2): every NewGaloisField call site has constant arguments describing a
// field: size a power of two, polynomial primitive of degree log2(size), base 0 or 1.
func ruleGFConstruction(pkgs ...string) func(c *Ctx) {
	return func(c *Ctx) {
		const R = "M2-GF-FIELDS"
		c.Doc(R, "every utils.NewGaloisField call in non-test code has constant arguments (pp, size, base) with size = 2^m, pp a primitive polynomial of degree m (so the log/antilog construction enumerates all non-zero elements) and base in {0,1}; the symbology's standard polynomial where one is prescribed")
		want := map[string]map[int64]int64{ // package -> size -> polynomial prescribed by the standard
			"qr":         {256: 0x11D},
			"datamatrix": {256: 0x12D},
			"aztec":      {16: 0x13, 64: 0x43, 256: 0x12D, 1024: 0x409, 4096: 0x1069},
		}
		wantBase := map[string]int64{"qr": 0, "datamatrix": 1, "aztec": 1}
		floor := 0
		for _, fn := range append(append([]*ssa.Function{}, c.P.Funcs...), c.P.CanaryFuncs...) {
			if len(pkgs) > 0 && !inPkgs(fn, pkgs) {
				continue
			}
			k := 0
			eachInstr(fn, func(b *ssa.BasicBlock, ins ssa.Instruction) {
				call, ok := ins.(*ssa.Call)
				if !ok || calleeFull(call) != modPath+"/utils.NewGaloisField" {
					return
				}
				k++
				floor++
				c.Fn(c.P.FuncName(fn))
				key := fmt.Sprintf("%s/NewGaloisField#%d", c.P.FuncName(fn), k)
				pk := shortName(fn.Pkg.Pkg.Path())
				check := func(key string, pp, size, base int64) {
					ok2 := size > 1 && size&(size-1) == 0 && polyDegree(pp) == bits.Len64(uint64(size))-1 && isPrimitive(pp) && (base == 0 || base == 1)
					exp := "primitive polynomial of degree log2(size), base 0/1"
					if w, has := want[pk][size]; has {
						exp = fmt.Sprintf("pp=%#x size=%d base=%d", w, size, wantBase[pk])
						ok2 = ok2 && pp == w && base == wantBase[pk]
					} else if _, known := want[pk]; known {
						ok2 = false
						exp = "a field size the symbology uses"
					}
					c.Check(R, key, call.Pos(), ok2, exp, fmt.Sprintf("pp=%#x size=%d base=%d primitive=%v", pp, size, base, isPrimitive(pp)))
				}
				n := NewNormer(c.P)
				n.FoldTables = true
				constArgs := func() ([3]int64, bool) {
					var a [3]int64
					for i := 0; i < 3; i++ {
						v, ok := n.Norm(call.Common().Args[i]).IsConst()
						if !ok {
							return a, false
						}
						a[i] = v
					}
					return a, true
				}
				if a, ok := constArgs(); ok {
					check(key, a[0], a[1], a[2])
					return
				}
				// arguments read out of an immutable table keyed by a parameter: one field per key
				var keyV ssa.Value
				var tbl *Val
				for _, arg := range call.Common().Args {
					v := arg
					if ex, ok := v.(*ssa.Extract); ok {
						v = ex.Tuple
					}
					if lk, ok := v.(*ssa.Lookup); ok {
						if t, ok := n.tableVal(lk.X, 0); ok && t.Kind == VMap {
							if _, isParam := lk.Index.(*ssa.Parameter); isParam {
								keyV, tbl = lk.Index, t
							}
						}
					}
				}
				if tbl == nil {
					c.Undecided(R, key, call.Pos(), "non-constant argument")
					return
				}
				for _, e := range tbl.Map {
					if e.K.Kind != VInt {
						c.Undecided(R, key, call.Pos(), "table key is not an integer")
						return
					}
					n.env = append(n.env, map[ssa.Value]Poly{keyV: pConst(e.K.I)})
					a, ok := constArgs()
					n.env = n.env[:len(n.env)-1]
					if !ok {
						c.Undecided(R, fmt.Sprintf("%s@%d", key, e.K.I), call.Pos(), "non-constant argument")
						continue
					}
					floor++
					check(fmt.Sprintf("%s@%d", key, e.K.I), a[0], a[1], a[2])
				}
			})
		}
		c.Count["gf_call_sites"] = floor
	}
}

// ---------------------------------------------------------------------------------------------
// Aztec

func ruleAztecTables(c *Ctx) {
	// A2 word sizes
	const R2 = "A2-AZTEC-WORDSIZE"
	c.Doc(R2, "aztec.word_size[layers] = 4 (mode message slot), 6 for 1-2 layers, 8 for 3-8, 10 for 9-22, 12 for 23-32 (ISO 24778)")
	c.Floor(R2, 33)
	ws, err := c.P.EvalVar("aztec", "word_size")
	if err != nil {
		c.Anchor(R2, "aztec.word_size", err.Error())
	} else {
		c.Fn("aztec.word_size")
		if len(ws.List) != 33 {
			c.Check(R2, "aztec.word_size/len", ws.Pos, false, "33 entries", fmt.Sprint(len(ws.List)))
		}
		for i, e := range ws.List {
			want := int64(12)
			switch {
			case i == 0:
				want = 4
			case i <= 2:
				want = 6
			case i <= 8:
				want = 8
			case i <= 22:
				want = 10
			}
			c.Count["table_entries"]++
			c.Check(R2, fmt.Sprintf("aztec.word_size[%d]", i), e.Pos, e.Kind == VInt && e.I == want, fmt.Sprint(want), e.String())
		}
	}
	// mode constants
	const R0 = "A0-AZTEC-MODES"
	c.Doc(R0, "the five Aztec mode constants are distinct; layer limits 32 (full range) and 4 (compact); DEFAULT_LAYERS = 0 means automatic")
	modes := []string{"mode_upper", "mode_lower", "mode_digit", "mode_mixed", "mode_punct"}
	mv := map[string]int64{}
	for _, m := range modes {
		v, ok := c.P.ConstInt("aztec", m)
		if !ok {
			c.Anchor(R0, "aztec."+m, "constant not found")
			return
		}
		mv[m] = v
	}
	distinct := map[int64]bool{}
	for _, v := range mv {
		distinct[v] = true
	}
	c.Check(R0, "aztec.modes", c.P.PkgConst("aztec", "mode_upper").Pos(), len(distinct) == 5, "5 distinct mode constants", fmt.Sprint(mv))
	for _, lim := range []struct {
		n string
		v int64
	}{{"max_nb_bits", 32}, {"max_nb_bits_compact", 4}, {"DEFAULT_LAYERS", 0}} {
		v, ok := c.P.ConstInt("aztec", lim.n)
		if !ok {
			c.Anchor(R0, "aztec."+lim.n, "constant not found")
			continue
		}
		c.Check(R0, "aztec."+lim.n, c.P.PkgConst("aztec", lim.n).Pos(), v == lim.v, fmt.Sprint(lim.v), fmt.Sprint(v))
	}

	// A1 latch table via the mode automaton
	const R1 = "A1-AZTEC-LATCH"
	c.Doc(R1, "aztec.latchTable[from][to] = (bitlen<<16)+bits: splitting the bits into codes of the current mode's width (4 in digit, else 5) and running the ISO 24778 latch automaton from `from` must end in `to` and consume exactly bitlen bits; diagonal = 0; shiftTable holds the standard shift codes")
	c.Floor(R1, 25)
	// automaton: mode -> code -> next mode
	U, L, D, M, P := "mode_upper", "mode_lower", "mode_digit", "mode_mixed", "mode_punct"
	auto := map[string]map[int]string{
		U: {28: L, 29: M, 30: D},
		L: {29: M, 30: D},
		M: {28: L, 29: U, 30: P},
		P: {31: U},
		D: {14: U},
	}
	width := func(m string) int {
		if m == D {
			return 4
		}
		return 5
	}
	lt, err := c.P.EvalVar("aztec", "latchTable")
	if err != nil {
		c.Anchor(R1, "aztec.latchTable", err.Error())
	} else {
		c.Fn("aztec.latchTable")
		for _, from := range modes {
			row := lt.MapGetInt(mv[from])
			for _, to := range modes {
				key := fmt.Sprintf("aztec.latchTable[%s][%s]", from, to)
				if row == nil || row.MapGetInt(mv[to]) == nil {
					c.Check(R1, key, lt.Pos, false, "entry present", "missing")
					continue
				}
				e := row.MapGetInt(mv[to])
				c.Count["table_entries"]++
				if from == to {
					c.Check(R1, key, e.Pos, e.I == 0, "0", e.String())
					continue
				}
				n := int(e.I >> 16)
				bitsV := int(e.I & 0xFFFF)
				cur := from
				rem := n
				trace := ""
				okk := n > 0 && n <= 16
				for okk && rem > 0 {
					w := width(cur)
					if rem < w {
						okk = false
						break
					}
					code := (bitsV >> uint(rem-w)) & (1<<uint(w) - 1)
					nx, has := auto[cur][code]
					trace += fmt.Sprintf("%s:%d ", strings.TrimPrefix(cur, "mode_"), code)
					if !has {
						okk = false
						break
					}
					cur = nx
					rem -= w
				}
				okk = okk && cur == to && rem == 0 && bitsV < 1<<uint(n)
				c.Check(R1, key, e.Pos, okk, "a latch sequence from "+from+" ending in "+to+" of exactly the stated bit length", fmt.Sprintf("len=%d bits=%#x trace=[%s] ends in %s", n, bitsV, strings.TrimSpace(trace), cur))
			}
		}
	}
	st, err := c.P.EvalVar("aztec", "shiftTable")
	if err != nil {
		c.Anchor(R1, "aztec.shiftTable", err.Error())
	} else {
		want := map[string]map[string]int64{U: {P: 0}, L: {P: 0, U: 28}, M: {P: 0}, D: {P: 0, U: 15}}
		n := 0
		for from, row := range want {
			for to, code := range row {
				key := fmt.Sprintf("aztec.shiftTable[%s][%s]", from, to)
				r := st.MapGetInt(mv[from])
				if r == nil || r.MapGetInt(mv[to]) == nil {
					c.Check(R1, key, st.Pos, false, "entry present", "missing")
					continue
				}
				e := r.MapGetInt(mv[to])
				c.Check(R1, key, e.Pos, e.I == code, fmt.Sprint(code), e.String())
				n++
			}
		}
		total := 0
		for _, r := range st.Map {
			total += len(r.V.Map)
		}
		if total != 6 {
			c.Check(R1, "aztec.shiftTable/len", st.Pos, false, "exactly the 6 standard shifts", fmt.Sprint(total))
		}
	}

	// A4 mixed and punct tables (local literals in init)
	const R4 = "A4-AZTEC-CHARTABLES"
	c.Doc(R4, "aztec init: mixedTable[i]/punctTable[i] list the character with code i (ISO 24778 Table 2; 0 = none / pair codes); every listed character has its standard code")
	c.Floor(R4, 2)
	mixedStd := map[int64]int64{} // char -> code
	for i, ch := range []int64{-1, ' ', 1, 2, 3, 4, 5, 6, 7, 8, 9, 10, 11, 12, 13, 27, 28, 29, 30, 31, '@', '\\', '^', '_', '`', '|', '~', 127} {
		if ch >= 0 {
			mixedStd[ch] = int64(i)
		}
	}
	punctStd := map[int64]int64{}
	for i, ch := range []int64{-1, '\r', -1, -1, -1, -1, '!', '"', '#', '$', '%', '&', '\'', '(', ')', '*', '+', ',', '-', '.', '/', ':', ';', '<', '=', '>', '?', '[', ']', '{', '}'} {
		if ch >= 0 {
			punctStd[ch] = int64(i)
		}
	}
	for _, t := range []struct {
		name string
		std  map[int64]int64
		skip bool // `if v > 0` guard: zero entries are not written
	}{{"mixedTable", mixedStd, false}, {"punctTable", punctStd, true}} {
		lit := c.P.LocalLit("aztec", "init", t.name)
		if lit == nil {
			c.Anchor(R4, "aztec.init/"+t.name, "local literal not found")
			continue
		}
		v, err := c.P.EvalExpr("aztec", lit)
		if err != nil {
			c.Undecided(R4, "aztec.init/"+t.name, lit.Pos(), err.Error())
			continue
		}
		// last writer wins, as in the fill loop
		final := map[int64]int64{}
		for i, e := range v.List {
			if e.Kind != VInt {
				continue
			}
			if t.skip && e.I <= 0 {
				continue
			}
			final[e.I] = int64(i)
		}
		var bad []string
		for ch, code := range final {
			if ch == 0 && !t.skip {
				continue // mixedTable[0] = 0 writes charMap[mixed][0] = 0: "not in table"
			}
			if want, ok := t.std[ch]; !ok || want != code {
				bad = append(bad, fmt.Sprintf("%q->%d", rune(ch), code))
			}
		}
		// every standard character except the historically absent '"' must be present in mixed
		if t.name == "mixedTable" {
			for ch, code := range t.std {
				if final[ch] != code {
					bad = append(bad, fmt.Sprintf("missing %q->%d", rune(ch), code))
				}
			}
		}
		sort.Strings(bad)
		c.Count["table_entries"] += len(v.List)
		c.Check(R4, "aztec.init/"+t.name, lit.Pos(), len(bad) == 0, "every listed character carries its standard code", fmt.Sprintf("%d entries; wrong: %v", len(v.List), bad))
	}
}

// ---------------------------------------------------------------------------------------------
// PDF417

func rulePDF417Tables(c *Ctx) {
	const R1 = "P1-PDF-ECFACTORS"
	c.Doc(R1, "pdf417.correctionFactors[l][i] = coefficient of x^i of prod_{j=1..2^(l+1)} (x - 3^j) over GF(929) (ISO 15438 Annex F closed form), for l = 0..8")
	c.Floor(R1, 9)
	cf, err := c.P.EvalVar("pdf417", "correctionFactors")
	if err != nil {
		c.Anchor(R1, "pdf417.correctionFactors", err.Error())
	} else {
		c.Fn("pdf417.correctionFactors")
		if len(cf.List) != 9 {
			c.Check(R1, "pdf417.correctionFactors/len", cf.Pos, false, "9 levels", fmt.Sprint(len(cf.List)))
		}
		for l, row := range cf.List {
			if l > 8 {
				break
			}
			k := 1 << uint(l+1)
			poly := []int64{1} // ascending powers
			pw := int64(1)
			for j := 1; j <= k; j++ {
				pw = pw * 3 % 929
				next := make([]int64, len(poly)+1)
				for i, cc := range poly {
					next[i+1] = (next[i+1] + cc) % 929
					next[i] = (next[i] + (929-pw)*cc) % 929
				}
				poly = next
			}
			got, ok := row.Ints()
			key := fmt.Sprintf("pdf417.correctionFactors[%d]", l)
			if !ok {
				c.Undecided(R1, key, row.Pos, "not an []int literal")
				continue
			}
			c.Count["table_entries"] += len(got)
			bad := ""
			if len(got) != k {
				bad = fmt.Sprintf("length %d", len(got))
			} else {
				for i := 0; i < k; i++ {
					if got[i] != poly[i] {
						bad = fmt.Sprintf("entry %d is %d, closed form gives %d", i, got[i], poly[i])
						break
					}
				}
			}
			c.Check(R1, key, row.Pos, bad == "", fmt.Sprintf("%d coefficients of the generator polynomial", k), orOK(bad))
		}
	}

	const R2 = "P2-PDF-CODEWORDS"
	c.Doc(R2, "pdf417.codewords: 3 clusters x 929 patterns; each 17 modules, bar first/space last, 4 bars + 4 spaces of width 1..6, cluster number (b1-b2+b3-b4+9) mod 9 = 0/3/6 for table 0/1/2, pairwise distinct within a cluster; order pinned by a digest of the evaluated table; start 0x1fea8, stop 0x3fa29")
	c.Floor(R2, 5)
	cw, err := c.P.EvalVar("pdf417", "codewords")
	if err != nil {
		c.Anchor(R2, "pdf417.codewords", err.Error())
	} else {
		c.Fn("pdf417.codewords")
		if len(cw.List) != 3 {
			c.Check(R2, "pdf417.codewords/len", cw.Pos, false, "3 clusters", fmt.Sprint(len(cw.List)))
		}
		h := sha256.New()
		for t, row := range cw.List {
			if t > 2 {
				break
			}
			vals, ok := row.Ints()
			key := fmt.Sprintf("pdf417.codewords[%d]", t)
			if !ok {
				c.Undecided(R2, key, row.Pos, "not an []int literal")
				continue
			}
			c.Count["table_entries"] += len(vals)
			bad := ""
			seen := map[int64]int{}
			if len(vals) != 929 {
				bad = fmt.Sprintf("%d patterns", len(vals))
			}
			for i, v := range vals {
				fmt.Fprintf(h, "%d:%d:%x;", t, i, v)
				if bad != "" {
					continue
				}
				b := intBits(v, 17)
				runs := bitsToRuns(b)
				if v>>17 != 0 || b[0] != '1' || b[16] != '0' || len(runs) != 8 {
					bad = fmt.Sprintf("pattern %d (%#x) is not 4 bars + 4 spaces in 17 modules", i, v)
					continue
				}
				for _, r := range runs {
					if r > 6 {
						bad = fmt.Sprintf("pattern %d (%#x) has an element wider than 6", i, v)
					}
				}
				cl := ((runs[0]-runs[2]+runs[4]-runs[6])%9 + 9) % 9
				if cl != 3*t {
					bad = fmt.Sprintf("pattern %d (%#x) belongs to cluster %d, not %d", i, v, cl, 3*t)
				}
				if j, dup := seen[v]; dup {
					bad = fmt.Sprintf("pattern %d duplicates %d", i, j)
				}
				seen[v] = i
			}
			c.Check(R2, key, row.Pos, bad == "", "929 distinct 17-module patterns of cluster "+fmt.Sprint(3*t), orOK(bad))
		}
		digest := fmt.Sprintf("%x", h.Sum(nil))
		c.Check(R2, "pdf417.codewords/order", cw.Pos, digest == pdfCodewordsDigest, "digest "+pdfCodewordsDigest+" (value of the table confirmed on the reference tree)", "digest "+digest)
	}
	for _, k := range []struct {
		n string
		v int64
	}{{"start_word", 0x1fea8}, {"stop_word", 0x3fa29}} {
		v, ok := c.P.ConstInt("pdf417", k.n)
		if !ok {
			c.Anchor(R2, "pdf417."+k.n, "constant not found")
			continue
		}
		c.Check(R2, "pdf417."+k.n, c.P.PkgConst("pdf417", k.n).Pos(), v == k.v, fmt.Sprintf("%#x", k.v), fmt.Sprintf("%#x", v))
	}

	const R3 = "P3-PDF-SUBMODES"
	c.Doc(R3, "pdf417 init: mixedRaw/punctRaw[i] is the character with value i in the Mixed / Punctuation text sub-mode (ISO 15438 Table 5/6; 0 = latch or shift slot)")
	c.Floor(R3, 2)
	mixedStd := []int64{48, 49, 50, 51, 52, 53, 54, 55, 56, 57, 38, 13, 9, 44, 58, 35, 45, 46, 36, 47, 43, 37, 42, 61, 94, 0, 32, 0, 0, 0}
	punctStd := []int64{59, 60, 62, 64, 91, 92, 93, 95, 96, 126, 33, 13, 9, 44, 58, 10, 45, 46, 36, 47, 34, 124, 42, 40, 41, 63, 123, 125, 39, 0}
	for _, t := range []struct {
		name string
		std  []int64
	}{{"mixedRaw", mixedStd}, {"punctRaw", punctStd}} {
		lit := c.P.LocalLit("pdf417", "init", t.name)
		if lit == nil {
			c.Anchor(R3, "pdf417.init/"+t.name, "local literal not found")
			continue
		}
		v, err := c.P.EvalExpr("pdf417", lit)
		if err != nil {
			c.Undecided(R3, "pdf417.init/"+t.name, lit.Pos(), err.Error())
			continue
		}
		got, _ := v.Ints()
		c.Count["table_entries"] += len(got)
		bad := ""
		// compare as the finite function value -> character (trailing zeros are no entries)
		for i := 0; i < 30; i++ {
			var g int64
			if i < len(got) {
				g = got[i]
			}
			if g != t.std[i] && bad == "" {
				bad = fmt.Sprintf("value %d is character %d, standard %d", i, g, t.std[i])
			}
		}
		for i := 30; i < len(got); i++ {
			if got[i] != 0 {
				bad = "more than 30 values"
			}
		}
		c.Check(R3, "pdf417.init/"+t.name, lit.Pos(), bad == "", "ISO 15438 sub-mode table", orOK(bad))
	}

	const R5 = "P5-PDF-CONSTS"
	c.Doc(R5, "PDF417 mode-latch codewords 900/901/902/924/913, padding 900, numeric threshold 13, symbol limits 2..30 columns and rows (as the property states)")
	c.Floor(R5, 11)
	for _, k := range []struct {
		n string
		v int64
	}{{"latch_to_text", 900}, {"latch_to_byte_padded", 901}, {"latch_to_numeric", 902}, {"latch_to_byte", 924}, {"shift_to_byte", 913},
		{"padding_codeword", 900}, {"min_numeric_count", 13}, {"minCols", 2}, {"maxCols", 30}, {"minRows", 2}, {"maxRows", 30}, {"moduleHeight", -1}} {
		v, ok := c.P.ConstInt("pdf417", k.n)
		if !ok {
			c.Anchor(R5, "pdf417."+k.n, "constant not found")
			continue
		}
		if k.v < 0 {
			c.Check(R5, "pdf417."+k.n, c.P.PkgConst("pdf417", k.n).Pos(), v >= 1, ">= 1", fmt.Sprint(v))
			continue
		}
		c.Check(R5, "pdf417."+k.n, c.P.PkgConst("pdf417", k.n).Pos(), v == k.v, fmt.Sprint(k.v), fmt.Sprint(v))
	}
}

var _ = ast.Inspect
var _ = token.NoPos
