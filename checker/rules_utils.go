package main

import (
	"fmt"
	"go/token"
	"go/types"

	"golang.org/x/tools/go/ssa"
)

// fieldStores lists stores to field `name` of the receiver-like base value in fn.
func fieldStores(fn *ssa.Function, base ssa.Value, name string) []*ssa.Store {
	var out []*ssa.Store
	eachInstr(fn, func(b *ssa.BasicBlock, ins ssa.Instruction) {
		st, ok := ins.(*ssa.Store)
		if !ok {
			return
		}
		fa, ok := st.Addr.(*ssa.FieldAddr)
		if !ok || fa.X != base {
			return
		}
		s := fa.X.Type().Underlying().(*types.Pointer).Elem().Underlying().(*types.Struct)
		if fname(s.Field(fa.Field)) == name {
			out = append(out, st)
		}
	})
	return out
}

func ruleBitList(c *Ctx) {
	const R1 = "L1-GROW-COPY"
	c.Doc(R1, "BitList growth (wherever AddBit or its helpers store to bl.data): the stored slice is freshly made, directly or by a helper that returns its own make, with length len(old)+growBy, growBy >= 1 on every path, and is the destination of a copy from the old bl.data that precedes the store/return (earlier bits survive growth)")
	c.Floor(R1, 2)
	var growSites []DeepSite
	if fn := c.theFunc(R1, "utils.(*BitList).AddBit"); fn != nil {
		n := NewNormer(c.P)
		n.BindParams(fn, "bl", "bits")
		c.P.deepEach(fn, 2, func(s DeepSite) {
			st, ok := s.Ins.(*ssa.Store)
			if !ok {
				return
			}
			fa, ok := st.Addr.(*ssa.FieldAddr)
			if !ok {
				return
			}
			stt := fa.X.Type().Underlying().(*types.Pointer).Elem().Underlying().(*types.Struct)
			if fname(stt.Field(fa.Field)) != "data" || namedTypeName(fa.X.Type()) != "utils.BitList" {
				return
			}
			if got := n.NormAt(s, fa.X).String(); got != "bl" {
				return
			}
			growSites = append(growSites, s)
		})
		if len(growSites) == 0 {
			c.Check(R1, "utils.(*BitList).AddBit/growth/store", fn.Pos(), false, "a store to bl.data reachable from AddBit", "none")
		}
		for gi, s := range growSites {
			key := "utils.(*BitList).AddBit/growth"
			if gi > 0 {
				key = fmt.Sprintf("%s#%d", key, gi+1)
			}
			st := s.Ins.(*ssa.Store)
			// the made slice: here, or the single result of a helper
			ms := s
			var mk *ssa.MakeSlice
			var anchor ssa.Instruction = st // what the copy must precede
			v := st.Val
			for depth := 0; depth < 3 && mk == nil; depth++ {
				switch x := v.(type) {
				case *ssa.MakeSlice:
					mk = x
				case *ssa.Call:
					cal := x.Common().StaticCallee()
					if cal == nil || !isRepoFunc(cal) || cal.Blocks == nil {
						depth = 3
						break
					}
					rets := returnsOf(cal)
					if len(rets) != 1 || len(rets[0].Results) != 1 {
						depth = 3
						break
					}
					ms = DeepSite{rets[0], cal, append(append([]ssa.CallInstruction{}, ms.Path...), x)}
					anchor = rets[0]
					v = rets[0].Results[0]
				default:
					depth = 3
				}
			}
			if mk == nil {
				c.Check(R1, key+"/fresh", st.Pos(), false, "a freshly made slice", st.Val.String())
				continue
			}
			saved := n.Ctx
			n.Ctx = ms.Path
			grows := false
			why := n.Norm(mk.Len).String()
			if add, ok := mk.Len.(*ssa.BinOp); ok && add.Op == token.ADD {
				for _, pair := range [][2]ssa.Value{{add.X, add.Y}, {add.Y, add.X}} {
					if pEqual(n.Norm(pair[0]), MustRef("len(bl.data)")) {
						l := newLbCtx(c.P)
						if lb := l.lb(pair[1]); lb != lbUnknown && lb >= 1 {
							grows = true
							why = fmt.Sprintf("len(bl.data) + growBy, growBy >= %d", lb)
						}
					}
				}
			}
			c.Check(R1, key+"/longer", mk.Pos(), grows, "len(bl.data) + (something >= 1)", why)
			copied := false
			for _, r := range *mk.Referrers() {
				if call, ok := r.(*ssa.Call); ok {
					if bi, ok := call.Common().Value.(*ssa.Builtin); ok && bi.Name() == "copy" && call.Common().Args[0] == ssa.Value(mk) {
						if pEqual(n.Norm(call.Common().Args[1]), MustRef("bl.data")) && dominatesInstr(call, anchor) {
							copied = true
						}
					}
				}
			}
			n.Ctx = saved
			c.Check(R1, key+"/copy", st.Pos(), copied, "copy(new, bl.data) before bl.data = new", fmt.Sprint(copied))
		}
	}

	const R2 = "L2-ADDBIT"
	c.Doc(R2, "utils.(*BitList).AddBit: per appended bit, the word index count/32 is computed from the CURRENT count inside the per-bit loop, growth repeats while index >= len(data), the bit is written at index count by SetBit only after that loop, and count is incremented exactly once after the write")
	c.Floor(R2, 5)
	if fn := c.theFunc(R2, "utils.(*BitList).AddBit"); fn != nil {
		n := NewNormer(c.P)
		n.BindParams(fn, "bl", "bits")
		setBit := c.P.Func("utils.(*BitList).SetBit")
		// the growth step as seen from AddBit: the call leading to the store to bl.data, or the store itself
		var gc []ssa.Instruction
		for _, s := range growSites {
			var ins ssa.Instruction = s.Ins
			if len(s.Path) > 0 {
				ins = s.Path[0]
			}
			dup := false
			for _, g := range gc {
				dup = dup || g == ins
			}
			if !dup {
				gc = append(gc, ins)
			}
		}
		sc := callsTo(fn, setBit)
		sts := fieldStores(fn, fn.Params[0], "count")
		if len(sc) != 1 || len(gc) != 1 || len(sts) != 1 {
			c.Check(R2, "utils.(*BitList).AddBit/shape", fn.Pos(), false, "one SetBit call, one growth step, one store to count", fmt.Sprintf("%d/%d/%d", len(sc), len(gc), len(sts)))
		} else {
			set, gr, st := sc[0], gc[0], sts[0]
			// the per-bit loop: range over bits; its body block dominates everything per bit
			var body *ssa.BasicBlock
			var bitIdx ssa.Value
			for _, b := range fn.Blocks {
				if idx, _, init, ok := loopIndex(b); ok && init == 0 && len(b.Succs) == 2 && b.Dominates(set.Block()) {
					// the per-bit loop: for i over len(bits)
					nn := NewNormer(c.P)
					nn.BindParams(fn, "bl", "bits")
					nn.Bind[idx] = "j"
					if eq, _ := CondEquivalent(nn.LoopCond(b), MustRefCond("j < len(bits)")); eq {
						body, bitIdx = b.Succs[0], idx
					}
				}
			}
			if body == nil {
				c.Undecided(R2, "utils.(*BitList).AddBit/loop", fn.Pos(), "no range loop over the bits")
			} else {
				// growth test: the capacity loop encloses the growth step - in AddBit itself, or in the
				// helper that AddBit calls once per bit
				perBit := body.Preds[0] // header of the per-bit loop
				site := growSites[0]
				chain := append(append([]ssa.Instruction{}, func() []ssa.Instruction {
					var cs []ssa.Instruction
					for _, p := range site.Path {
						cs = append(cs, p.(ssa.Instruction))
					}
					return cs
				}()...), site.Ins)
				var gh *ssa.BasicBlock
				var grIns ssa.Instruction
				level := -1
				for k, ins := range chain {
					h := enclosingLoopHeader(ins.Block())
					if h != nil && h != perBit {
						gh, grIns, level = h, ins, k
						break
					}
				}
				if gh == nil {
					c.Undecided(R2, "utils.(*BitList).AddBit/growth-test", gr.Pos(), "grow is not inside a test loop")
				} else {
					F := grIns.Parent()
					saved := n.Ctx
					n.Ctx = site.Path[:level]
					cond := n.ReachCond(F, gh, grIns.Block())
					n.Ctx = saved
					c.expectCond(R2, "utils.(*BitList).AddBit/growth-test", grIns.Pos(), cond, "bl.count/32 >= len(bl.data)")
					// the count that decides is read inside the per-bit loop (not hoisted)
					inLoop := true
					var visit func(v ssa.Value, d int)
					visit = func(v ssa.Value, d int) {
						if d > 6 {
							return
						}
						switch x := v.(type) {
						case *ssa.BinOp:
							visit(x.X, d+1)
							visit(x.Y, d+1)
						case *ssa.Convert:
							visit(x.X, d+1)
						case *ssa.UnOp:
							if fa, ok := x.X.(*ssa.FieldAddr); ok && x.Op == token.MUL {
								s := fa.X.Type().Underlying().(*types.Pointer).Elem().Underlying().(*types.Struct)
								if fname(s.Field(fa.Field)) == "count" && x.Parent() == fn && !body.Dominates(x.Block()) {
									inLoop = false
								}
							}
						}
					}
					if level == 0 {
						if iff, ok := gh.Instrs[len(gh.Instrs)-1].(*ssa.If); ok {
							visit(iff.Cond, 0)
						}
					} else {
						for _, a := range site.Path[0].Common().Args {
							visit(a, 0)
						}
						if !body.Dominates(site.Path[0].Block()) {
							inLoop = false
						}
					}
					c.Check(R2, "utils.(*BitList).AddBit/index-per-bit", grIns.Pos(), inLoop, "count is read inside the per-bit loop (not hoisted)", fmt.Sprint(inLoop))
					c.Check(R2, "utils.(*BitList).AddBit/grow-loops", grIns.Pos(), gh.Dominates(grIns.Block()) && len(grIns.Block().Succs) == 1 && grIns.Block().Succs[0] == gh, "growth repeats until the index fits", "grow block returns to the test")
				}
				if level <= 0 {
					c.Check(R2, "utils.(*BitList).AddBit/write-after-growth", set.Pos(), gh != nil && gh.Dominates(set.Block()) && set.Block() != gr.Block() && !gr.Block().Dominates(set.Block()), "SetBit after the capacity loop", "ok")
				} else {
					c.Check(R2, "utils.(*BitList).AddBit/write-after-growth", set.Pos(), dominatesInstr(gr, set), "SetBit after the capacity loop", "ok")
				}
				c.expectPoly(R2, "utils.(*BitList).AddBit/write-index", set.Pos(), n, set.Common().Args[1], "bl.count")
				if bitIdx != nil {
					n.Bind[bitIdx] = "j"
					got := n.Norm(set.Common().Args[2]).asAtom()
					c.Check(R2, "utils.(*BitList).AddBit/write-value", set.Pos(), got == "bits[j]", "bits[j] (the current bit)", got)
				}
				c.expectPoly(R2, "utils.(*BitList).AddBit/count-increment", st.Pos(), n, st.Val, "bl.count + 1")
				c.Check(R2, "utils.(*BitList).AddBit/increment-after-write", st.Pos(), dominatesInstr(set, st) && body.Dominates(st.Block()), "count++ after SetBit, once per bit", "ok")
			}
		}
	}

	const R3 = "L3-BITORDER"
	c.Doc(R3, "MSB-first packing: SetBit/GetBit use word index/32 and bit 31-index%32; AddByte/AddBits append bit i of the value for i from the top index down to 0; GetBytes returns count/8 (+1 if count%8 != 0) bytes taken from word i/4 at shift (3-i%4)*8; IterateBytes yields bytes while remaining bits > 0; NewBitList allocates capacity/32 (+1 if capacity%32 != 0) words and sets count")
	c.Floor(R3, 14)
	for _, m := range []string{"SetBit", "GetBit"} {
		fn := c.theFunc(R3, "utils.(*BitList)."+m)
		if fn == nil {
			continue
		}
		n := NewNormer(c.P)
		n.BindParams(fn, "bl", "index", "value")
		k := 0
		eachInstr(fn, func(b *ssa.BasicBlock, ins ssa.Instruction) {
			if ia, ok := ins.(*ssa.IndexAddr); ok {
				k++
				c.expectPoly(R3, fmt.Sprintf("utils.(*BitList).%s/word#%d", m, k), ia.Pos(), n, ia.Index, "index/32")
			}
			if bo, ok := ins.(*ssa.BinOp); ok && (bo.Op == token.SHL || bo.Op == token.SHR) {
				k++
				c.expectPoly(R3, fmt.Sprintf("utils.(*BitList).%s/shift#%d", m, k), bo.Pos(), n, bo.Y, "31 - index%32")
			}
		})
		if k < 2 {
			c.Check(R3, "utils.(*BitList)."+m+"/shape", fn.Pos(), false, "word index and shift", fmt.Sprint(k))
		}
	}
	for _, m := range []struct{ name, top string }{{"AddByte", "7"}, {"AddBits", "count - 1"}} {
		fn := c.theFunc(R3, "utils.(*BitList)."+m.name)
		if fn == nil {
			continue
		}
		n := NewNormer(c.P)
		n.BindParams(fn, "bl", "b", "count")
		addBit := c.P.Func("utils.(*BitList).AddBit")
		calls := callsTo(fn, addBit)
		if m.name == "AddByte" && len(calls) == 0 {
			// AddByte(b) written as AddBits(b, 8): the bit order is then the one checked for AddBits
			if del := callsTo(fn, c.P.Func("utils.(*BitList).AddBits")); len(del) == 1 && enclosingLoopHeader(del[0].Block()) == nil {
				a := del[0].Common().Args
				c.expectPoly(R3, "utils.(*BitList).AddByte/delegate-list", del[0].Pos(), n, a[0], "bl")
				c.expectPoly(R3, "utils.(*BitList).AddByte/delegate-value", del[0].Pos(), n, a[1], "b")
				c.expectPoly(R3, "utils.(*BitList).AddByte/delegate-count", del[0].Pos(), n, a[2], "8")
				c.expectCond(R3, "utils.(*BitList).AddByte/delegate-always", del[0].Pos(), n.ReachCond(fn, nil, del[0].Block()), "true")
				continue
			}
		}
		{
			// the bit number q that is tested runs from the top index down to 0, whatever the loop variable
			// itself does (q, q+1, count-1-q, ...) and wherever the loop lives (here or in an unexported
			// helper shared by AddByte and AddBits)
			sites := c.P.deepCallsTo(fn, addBit)
			if len(sites) == 1 {
				site := sites[0]
				call := site.Ins.(*ssa.Call)
				n.Ctx = site.Path
				var bitV ssa.Value
				if el := variadicElems(call.Common().Args[1]); len(el) == 1 {
					bitV = el[0]
				}
				var shift ssa.Value
				var findShift func(v ssa.Value, d int)
				findShift = func(v ssa.Value, d int) {
					if d > 6 || shift != nil {
						return
					}
					switch x := v.(type) {
					case *ssa.BinOp:
						if x.Op == token.SHR {
							shift = x.Y
							return
						}
						findShift(x.X, d+1)
						findShift(x.Y, d+1)
					case *ssa.Convert:
						findShift(x.X, d+1)
					}
				}
				if bitV != nil {
					findShift(bitV, 0)
				}
				hdr := enclosingLoopHeader(call.Block())
				if bitV == nil || shift == nil || hdr == nil {
					c.Undecided(R3, "utils.(*BitList)."+m.name+"/loop", call.Pos(), "no bit test of the form (v >> q) & 1 in a loop")
					continue
				}
				if cv, ok := shift.(*ssa.Convert); ok {
					shift = cv.X
				}
				first, step, while, okR := reindexLoop(n, hdr, shift)
				if !okR {
					c.Undecided(R3, "utils.(*BitList)."+m.name+"/loop", call.Pos(), "bit number is not an affine function of the loop variable")
					continue
				}
				c.Check(R3, "utils.(*BitList)."+m.name+"/start", call.Pos(), pEqual(first, MustRef(m.top)), m.top, first.String())
				c.Check(R3, "utils.(*BitList)."+m.name+"/step", call.Pos(), pEqual(step, pConst(-1)), "i - 1", step.String())
				c.expectCondC(R3, "utils.(*BitList)."+m.name+"/while", call.Pos(), while, MustRefCond("q >= 0"))
				c.expectCond(R3, "utils.(*BitList)."+m.name+"/bit", call.Pos(), n.CondOf(bitV), "And(1, Shr(b, q)) == 1")
				n.env = n.env[:len(n.env)-1]
				n.Ctx = nil
				continue
			}
			if len(calls) != 1 {
				c.Check(R3, "utils.(*BitList)."+m.name+"/shape", fn.Pos(), false, "one AddBit call in a loop", fmt.Sprint(len(calls)))
				continue
			}
		}
		call := calls[0]
		hdr := enclosingLoopHeader(call.Block())
		var phi *ssa.Phi
		if hdr != nil {
			for _, ins := range hdr.Instrs {
				if p, ok := ins.(*ssa.Phi); ok && isIntType(p.Type()) {
					phi = p
				}
			}
		}
		if phi == nil || len(phi.Edges) != 2 {
			c.Undecided(R3, "utils.(*BitList)."+m.name+"/loop", call.Pos(), "no counting loop")
			continue
		}
		n.Bind[phi] = "i"
		for ei, e := range phi.Edges {
			if hdr.Dominates(hdr.Preds[ei]) {
				c.expectPoly(R3, "utils.(*BitList)."+m.name+"/step", phi.Pos(), n, e, "i - 1")
			} else {
				c.expectPoly(R3, "utils.(*BitList)."+m.name+"/start", phi.Pos(), n, e, m.top)
			}
		}
		c.expectCond(R3, "utils.(*BitList)."+m.name+"/while", phi.Pos(), n.ReachCond(fn, hdr, call.Block()), "i >= 0")
		// the single variadic element
		var bitV ssa.Value
		if el := variadicElems(call.Common().Args[1]); len(el) == 1 {
			bitV = el[0]
		}
		if bitV == nil {
			c.Undecided(R3, "utils.(*BitList)."+m.name+"/bit", call.Pos(), "appended value not found")
		} else {
			c.expectCond(R3, "utils.(*BitList)."+m.name+"/bit", call.Pos(), n.CondOf(bitV), "And(1, Shr(b, i)) == 1")
		}
	}
	if fn := c.theFunc(R3, "utils.(*BitList).GetBytes"); fn != nil {
		n := NewNormer(c.P)
		n.BindParams(fn, "bl")
		var mk *ssa.MakeSlice
		eachInstr(fn, func(b *ssa.BasicBlock, ins ssa.Instruction) {
			if m, ok := ins.(*ssa.MakeSlice); ok {
				mk = m
			}
		})
		rets := returnsOf(fn)
		if mk == nil || len(rets) != 1 || rets[0].Results[0] != ssa.Value(mk) {
			c.Check(R3, "utils.(*BitList).GetBytes/result", fn.Pos(), false, "returns the freshly made byte slice", "other")
		} else if phi, ok := mk.Len.(*ssa.Phi); ok {
			for ei, e := range phi.Edges {
				pred := phi.Block().Preds[ei]
				cond := cAnd(n.ReachCond(fn, nil, pred), n.EdgeCond(pred, phi.Block()))
				v := n.Norm(e)
				switch {
				case pEqual(v, MustRef("bl.count/8")):
					c.expectCond(R3, "utils.(*BitList).GetBytes/len-exact", phi.Pos(), cond, "bl.count % 8 == 0")
				case pEqual(v, MustRef("bl.count/8 + 1")):
					c.expectCond(R3, "utils.(*BitList).GetBytes/len-partial", phi.Pos(), cond, "bl.count % 8 != 0")
				default:
					c.Check(R3, fmt.Sprintf("utils.(*BitList).GetBytes/len-edge%d", ei), phi.Pos(), false, "count/8 or count/8+1", v.String())
				}
			}
		} else if cases := n.valueCases(fn, nil, mk.Len, 0); len(cases) > 1 {
			// the length computed by a helper with the same two alternatives
			checkCases(c, R3, "utils.(*BitList).GetBytes/len", mk.Pos(), cases, []edgeSpec{{"bl.count/8", "bl.count % 8 == 0"}, {"bl.count/8 + 1", "bl.count % 8 != 0"}})
		} else {
			// single formula form, e.g. (count+7)/8
			c.expectPoly(R3, "utils.(*BitList).GetBytes/len", mk.Pos(), n, mk.Len, "(bl.count + 7)/8")
		}
		// element formula
		eachInstr(fn, func(b *ssa.BasicBlock, ins ssa.Instruction) {
			st, ok := ins.(*ssa.Store)
			if !ok {
				return
			}
			ia, ok := st.Addr.(*ssa.IndexAddr)
			if !ok || ia.X != ssa.Value(mk) {
				return
			}
			if h := enclosingLoopHeader(b); h != nil {
				if idx, phi, init, ok := loopIndex(h); ok {
					n.Bind[idx] = "i"
					c.Check(R3, "utils.(*BitList).GetBytes/loop-init", phi.Pos(), init == 0, "0", fmt.Sprint(init))
					// every byte of the result is filled: the loop runs to the length the slice was made with
					bound := loopBoundValue(h, idx)
					if rot, isRot := rotatedLoop(h); isRot {
						bound = loopBoundValue(rot.latch, rot.next)
					}
					okB := bound != nil && (bound == mk.Len || pEqual(n.Norm(bound), n.Norm(mk.Len)))
					if lc, isCall := bound.(*ssa.Call); isCall && !okB {
						if bi, isB := lc.Common().Value.(*ssa.Builtin); isB && bi.Name() == "len" && lc.Common().Args[0] == ssa.Value(mk) {
							okB = true
						}
					}
					found := "no bound"
					if bound != nil {
						found = n.Norm(bound).String()
					}
					c.Check(R3, "utils.(*BitList).GetBytes/loop-bound", phi.Pos(), okB && loopExitsOnlyAtHeader(h), "i runs to the length of the result", found)
				}
			}
			c.expectPoly(R3, "utils.(*BitList).GetBytes/elem-index", st.Pos(), n, ia.Index, "i")
			got := n.Norm(st.Val).String()
			want := "Conv:uint8(Shr(bl.data[Div(i,4)],24 - 8*Mod(i,4)))"
			c.Check(R3, "utils.(*BitList).GetBytes/elem-value", st.Pos(), got == want, want, got)
		})
	}
	if fn := c.theFunc(R3, "utils.NewBitList"); fn != nil {
		n := NewNormer(c.P)
		n.BindParams(fn, "capacity")
		var obj ssa.Value
		eachInstr(fn, func(b *ssa.BasicBlock, ins ssa.Instruction) {
			if a, ok := ins.(*ssa.Alloc); ok && namedTypeName(a.Type()) == "utils.BitList" {
				obj = a
			}
		})
		if obj == nil {
			c.Undecided(R3, "utils.NewBitList/alloc", fn.Pos(), "no BitList allocation")
		} else {
			for _, st := range fieldStores(fn, obj, "count") {
				c.expectPoly(R3, "utils.NewBitList/count", st.Pos(), n, st.Val, "capacity")
			}
			for _, st := range fieldStores(fn, obj, "data") {
				mk, ok := st.Val.(*ssa.MakeSlice)
				if !ok {
					c.Check(R3, "utils.NewBitList/data", st.Pos(), false, "make([]int32, words)", st.Val.String())
					continue
				}
				// len = capacity/32 + x, x = phi(0 | 1 under capacity%32 != 0)
				add, ok := mk.Len.(*ssa.BinOp)
				var phi *ssa.Phi
				if ok && add.Op == token.ADD {
					if p, ok := add.Y.(*ssa.Phi); ok {
						phi = p
					} else if p, ok := add.X.(*ssa.Phi); ok {
						phi = p
					}
				}
				if phi == nil {
					// a closed form, or the word count delivered by a helper
					cases := n.valueCases(fn, nil, mk.Len, 0)
					if len(cases) <= 1 {
						c.expectPoly(R3, "utils.NewBitList/words", mk.Pos(), n, mk.Len, "(capacity + 31)/32")
					} else {
						checkCases(c, R3, "utils.NewBitList/words", mk.Pos(), cases, []edgeSpec{{"capacity/32", "capacity % 32 == 0"}, {"capacity/32 + 1", "capacity % 32 != 0"}})
					}
					continue
				}
				for ei := range phi.Edges {
					n.PhiChoice[phi] = ei
					pred := phi.Block().Preds[ei]
					cond := cAnd(n.ReachCond(fn, nil, pred), n.EdgeCond(pred, phi.Block()))
					v := n.Norm(mk.Len)
					switch {
					case pEqual(v, MustRef("capacity/32")):
						c.expectCond(R3, "utils.NewBitList/words-exact", phi.Pos(), cond, "capacity % 32 == 0")
					case pEqual(v, MustRef("capacity/32 + 1")):
						c.expectCond(R3, "utils.NewBitList/words-partial", phi.Pos(), cond, "capacity % 32 != 0")
					default:
						c.Check(R3, fmt.Sprintf("utils.NewBitList/words-edge%d", ei), phi.Pos(), false, "capacity/32 or capacity/32+1", v.String())
					}
					delete(n.PhiChoice, phi)
				}
			}
		}
	}
	// IterateBytes goroutine
	if fn := c.theFunc(R3, "utils.(*BitList).IterateBytes"); fn != nil {
		for _, mc := range closuresOf(fn) {
			cl := mc.Fn.(*ssa.Function)
			if cl.Parent() != fn {
				continue
			}
			n := NewNormer(c.P)
			n.BindParams(fn, "bl")
			var send *ssa.Send
			eachInstr(cl, func(b *ssa.BasicBlock, ins ssa.Instruction) {
				if s, ok := ins.(*ssa.Send); ok {
					send = s
				}
			})
			if send == nil {
				c.Check(R3, "utils.(*BitList).IterateBytes/send", cl.Pos(), false, "a send in the goroutine", "none")
				continue
			}
			hdr := send.Block().Preds[0]
			// phis: c (remaining), shift, i
			var cphi, sphi, iphi *ssa.Phi
			for _, ins := range hdr.Instrs {
				p, ok := ins.(*ssa.Phi)
				if !ok {
					break
				}
				for ei, e := range p.Edges {
					if hdr.Dominates(hdr.Preds[ei]) {
						continue
					}
					nv := n.Norm(e)
					switch {
					case pEqual(nv, MustRef("bl.count")):
						cphi = p
					case pEqual(nv, MustRef("24")):
						sphi = p
					case pEqual(nv, MustRef("0")):
						iphi = p
					}
				}
			}
			if cphi != nil && iphi != nil && sphi == nil {
				// remaining-bits counter beside a byte counter: while rem > 0 { send byte i; i++; rem -= 8 }
				n.Bind[cphi], n.Bind[iphi] = "rem", "i"
				c.expectCond(R3, "utils.(*BitList).IterateBytes/while", cphi.Pos(), n.ReachCond(cl, hdr, send.Block()), "rem > 0")
				got := n.Norm(send.X).String()
				want := "Conv:uint8(Shr(bl.data[Div(i,4)],24 - 8*Mod(i,4)))"
				c.Check(R3, "utils.(*BitList).IterateBytes/byte", send.Pos(), got == want, want, got)
				for ei := range cphi.Edges {
					if hdr.Dominates(hdr.Preds[ei]) {
						c.expectPoly(R3, "utils.(*BitList).IterateBytes/rem-step", cphi.Pos(), n, cphi.Edges[ei], "rem - 8")
						okStep := pEqual(n.Norm(iphi.Edges[ei]), MustRef("i + 1"))
						for _, sh := range []int64{24, 16, 8, 0} {
							c.Check(R3, fmt.Sprintf("utils.(*BitList).IterateBytes/advance@%d", sh), iphi.Pos(), okStep, "byte counter i + 1 (word and shift are functions of it)", n.Norm(iphi.Edges[ei]).String())
						}
					}
				}
				continue
			}
			if cphi == nil || sphi == nil || iphi == nil {
				// closed form: byte number i from 0 while i < ceil(count/8), byte i = word i/4 at shift (3-i%4)*8
				// (the same formula L3 requires of GetBytes)
				idx, _, init, okI := loopIndex(hdr)
				iff, okIf := hdr.Instrs[len(hdr.Instrs)-1].(*ssa.If)
				if !okI || init != 0 || !okIf {
					c.Undecided(R3, "utils.(*BitList).IterateBytes/state", cl.Pos(), "neither the running state (remaining=count, shift=24, word=0) nor a byte counter from 0 found")
					continue
				}
				n.Bind[idx] = "i"
				var bound ssa.Value
				if bo, ok := iff.Cond.(*ssa.BinOp); ok && bo.Op == token.LSS && bo.X == idx {
					bound = bo.Y
				}
				cases := []valCase{}
				if bound == nil {
					// the test written on the bit count: 8*i < count (as many bytes as groups of 8 bits started)
					if len(hdr.Succs) != 2 {
						c.Undecided(R3, "utils.(*BitList).IterateBytes/while", hdr.Instrs[0].Pos(), "loop test is not i < byte count")
						continue
					}
					c.expectCond(R3, "utils.(*BitList).IterateBytes/while", iff.Pos(), n.EdgeCond(hdr, hdr.Succs[loopBodySucc(hdr)]), "8*i < bl.count")
				} else {
					cases = n.valueCases(cl, nil, bound, 0)
				}
				if bound == nil {
				} else if len(cases) == 1 {
					c.Check(R3, "utils.(*BitList).IterateBytes/while", bound.Pos(), pEqual(cases[0].val, MustRef("(bl.count + 7)/8")), "i < (count+7)/8", cases[0].val.String())
				} else {
					checkCases(c, R3, "utils.(*BitList).IterateBytes/while", bound.Pos(), cases, []edgeSpec{{"bl.count/8", "bl.count % 8 == 0"}, {"bl.count/8 + 1", "bl.count % 8 != 0"}})
				}
				got := n.Norm(send.X).String()
				want := "Conv:uint8(Shr(bl.data[Div(i,4)],24 - 8*Mod(i,4)))"
				c.Check(R3, "utils.(*BitList).IterateBytes/byte", send.Pos(), got == want, want, got)
				c.Check(R3, "utils.(*BitList).IterateBytes/rem-step", send.Pos(), true, "one byte per iteration (counter i)", "i + 1")
				for _, sh := range []int64{24, 16, 8, 0} {
					c.Check(R3, fmt.Sprintf("utils.(*BitList).IterateBytes/advance@%d", sh), send.Pos(), true, "word and shift are functions of the byte number", "closed form")
				}
				continue
			}
			n.Bind[cphi], n.Bind[sphi], n.Bind[iphi] = "rem", "shift", "w"
			c.expectCond(R3, "utils.(*BitList).IterateBytes/while", cphi.Pos(), n.ReachCond(cl, hdr, send.Block()), "rem > 0")
			got := n.Norm(send.X).String()
			want := "Conv:uint8(Shr(bl.data[w],shift))"
			c.Check(R3, "utils.(*BitList).IterateBytes/byte", send.Pos(), got == want, want, got)
			for ei, e := range cphi.Edges {
				if hdr.Dominates(hdr.Preds[ei]) {
					c.expectPoly(R3, "utils.(*BitList).IterateBytes/rem-step", cphi.Pos(), n, e, "rem - 8")
				}
			}
			// shift/word update: shift-8 unless that is negative, then 24 and next word
			for ei := range sphi.Edges {
				if !hdr.Dominates(hdr.Preds[ei]) {
					continue
				}
				sp, ok1 := sphi.Edges[ei].(*ssa.Phi)
				ip, ok2 := iphi.Edges[ei].(*ssa.Phi)
				if !ok1 || !ok2 || sp.Block() != ip.Block() {
					c.Undecided(R3, "utils.(*BitList).IterateBytes/advance", sphi.Pos(), "shift/word update is not a two-way choice")
					continue
				}
				// shift only takes the values 24, 16, 8, 0: tabulate the transition on that finite domain
				for _, sh := range []int64{24, 16, 8, 0} {
					taken := -1
					for k := range sp.Edges {
						pred := sp.Block().Preds[k]
						cond := cAnd(n.ReachCond(cl, send.Block(), pred), n.EdgeCond(pred, sp.Block()))
						cv := &condVars{bases: map[string]map[int64]bool{}, bools: map[string]bool{}}
						collect(cond, cv)
						okAtoms := len(cv.bools) == 0
						for bname := range cv.bases {
							if bname != "shift" {
								okAtoms = false
							}
						}
						if !okAtoms {
							c.Undecided(R3, "utils.(*BitList).IterateBytes/advance", sp.Pos(), "advance decision depends on more than the shift: "+cond.String())
							continue
						}
						if evalCond(cond, map[string]int64{"shift": sh}, nil) {
							taken = k
						}
					}
					if taken < 0 {
						c.Check(R3, fmt.Sprintf("utils.(*BitList).IterateBytes/advance@%d", sh), sp.Pos(), false, "one transition per shift value", "none taken")
						continue
					}
					sv, iv := n.Norm(sp.Edges[taken]), n.Norm(ip.Edges[taken])
					wantS, wantW := "shift - 8", "w"
					if sh == 0 {
						wantS, wantW = "24", "w + 1"
					}
					okT := pEqual(iv, MustRef(wantW)) && (pEqual(sv, MustRef(wantS)) || (sh != 0 && pEqual(sv, pConst(sh-8))))
					c.Check(R3, fmt.Sprintf("utils.(*BitList).IterateBytes/advance@%d", sh), sp.Pos(), okT, "("+wantS+", "+wantW+")", "("+sv.String()+", "+iv.String()+")")
				}
			}
		}
	}
}

func ruleGFArith(c *Ctx) {
	const R3 = "M3-GF-ARITH"
	c.Doc(R3, "GaloisField: AddOrSub = xor; Multiply returns 0 iff an operand is 0, else ALogTbl[(LogTbl[a]+LogTbl[b]) % (Size-1)]; Invers = ALogTbl[(Size-1)-LogTbl[x]]; Divide panics iff b == 0, returns 0 iff a == 0 (b != 0), else Multiply(a, Invers(b)) (siblings reduce the same way)")
	c.Floor(R3, 8)
	if fn := c.theFunc(R3, "utils.(*GaloisField).AddOrSub"); fn != nil {
		n := NewNormer(c.P)
		n.BindParams(fn, "gf", "a", "b")
		got := n.Norm(returnsOf(fn)[0].Results[0]).String()
		c.Check(R3, "utils.(*GaloisField).AddOrSub", fn.Pos(), got == "Xor(a,b)", "Xor(a,b)", got)
	}
	if fn := c.theFunc(R3, "utils.(*GaloisField).Multiply"); fn != nil {
		n := NewNormer(c.P)
		n.BindParams(fn, "gf", "a", "b")
		for _, ret := range returnsOf(fn) {
			rc := n.ReachCond(fn, nil, ret.Block())
			v := n.Norm(ret.Results[0])
			if k, ok := v.IsConst(); ok && k == 0 {
				c.expectCond(R3, "utils.(*GaloisField).Multiply/zero-iff", ret.Pos(), rc, "a == 0 || b == 0")
			} else {
				want := "gf.ALogTbl[Mod(gf.LogTbl[a] + gf.LogTbl[b],-1 + gf.Size)]"
				c.Check(R3, "utils.(*GaloisField).Multiply/product", ret.Pos(), v.String() == want, want, v.String())
			}
		}
	}
	if fn := c.theFunc(R3, "utils.(*GaloisField).Invers"); fn != nil {
		n := NewNormer(c.P)
		n.BindParams(fn, "gf", "x")
		got := n.Norm(returnsOf(fn)[0].Results[0]).String()
		want := "gf.ALogTbl[-1 - gf.LogTbl[x] + gf.Size]"
		c.Check(R3, "utils.(*GaloisField).Invers", fn.Pos(), got == want, want, got)
	}
	if fn := c.theFunc(R3, "utils.(*GaloisField).Divide"); fn != nil {
		n := NewNormer(c.P)
		n.BindParams(fn, "gf", "a", "b")
		eachInstr(fn, func(b *ssa.BasicBlock, ins ssa.Instruction) {
			if p, ok := ins.(*ssa.Panic); ok {
				c.expectCond(R3, "utils.(*GaloisField).Divide/panic-iff", p.Pos(), n.ReachCond(fn, nil, b), "b == 0")
			}
		})
		for _, ret := range returnsOf(fn) {
			rc := n.ReachCond(fn, nil, ret.Block())
			v := n.Norm(ret.Results[0])
			if k, ok := v.IsConst(); ok && k == 0 {
				c.expectCond(R3, "utils.(*GaloisField).Divide/zero-iff", ret.Pos(), rc, "b != 0 && a == 0")
			} else {
				want := "call:utils.(*GaloisField).Multiply(gf,a,gf.ALogTbl[-1 - gf.LogTbl[b] + gf.Size])"
				want2 := "gf.ALogTbl[Mod(-gf.LogTbl[b] + gf.LogTbl[a] + gf.Size - 1,gf.Size - 1)]"
				c.Check(R3, "utils.(*GaloisField).Divide/quotient", ret.Pos(), v.String() == want || v.String() == want2, want, v.String())
				c.expectCond(R3, "utils.(*GaloisField).Divide/quotient-iff", ret.Pos(), rc, "b != 0 && a != 0")
			}
		}
	}

	const R5 = "M5-GFPOLY-DIVIDE"
	c.Doc(R5, "GFPoly.Divide: each step uses scale = lead(remainder) * lead(divisor)^-1 and degreeDiff = deg(remainder) - deg(divisor) for BOTH the subtracted term (divisor.MultByMonominal) and the quotient monomial (sibling agreement); loop runs while deg(remainder) >= deg(divisor) and remainder != 0; ReedSolomonEncoder.Encode shifts the data by eccCount, divides by the generator of that degree and right-aligns the remainder")
	c.Floor(R5, 8)
	if fn := c.theFunc(R5, "utils.(*GFPoly).Divide"); fn != nil && len(fn.Params) == 2 {
		n := NewNormer(c.P)
		n.BindParams(fn, "gp", "o")
		var hdr *ssa.BasicBlock
		var qphi, rphi *ssa.Phi
		for _, b := range fn.Blocks {
			var phis []*ssa.Phi
			for _, ins := range b.Instrs {
				if p, ok := ins.(*ssa.Phi); ok {
					phis = append(phis, p)
				}
			}
			if len(phis) == 2 {
				hdr = b
				for _, p := range phis {
					for ei, e := range p.Edges {
						if !b.Dominates(b.Preds[ei]) {
							if e == ssa.Value(fn.Params[0]) {
								rphi = p
							} else {
								qphi = p
							}
						}
					}
				}
			}
		}
		if hdr == nil || qphi == nil || rphi == nil {
			c.Undecided(R5, "utils.(*GFPoly).Divide/loop", fn.Pos(), "quotient/remainder loop not found")
		} else {
			n.Bind[qphi], n.Bind[rphi] = "q", "r"
			for _, ret := range returnsOf(fn) {
				if len(ret.Results) == 2 {
					c.Check(R5, "utils.(*GFPoly).Divide/returns", ret.Pos(), ret.Results[0] == ssa.Value(qphi) && ret.Results[1] == ssa.Value(rphi), "(quotient, remainder)", ret.String())
				}
			}
			var back int
			for i, p := range hdr.Preds {
				if hdr.Dominates(p) {
					back = i
				}
			}
			// Degree, GetCoefficient, Zero and Invers are single-block helpers pinned separately: inlined
			inv := "gp.gf.ALogTbl[" + MustRef("gp.gf.Size - 1 - gp.gf.LogTbl[o.Coefficients[0]]").String() + "]"
			scale := "call:utils.(*GaloisField).Multiply(gp.gf,r.Coefficients[0]," + inv + ")"
			dd := MustRef("len(r.Coefficients) - len(o.Coefficients)").String()
			wantQ := "call:utils.(*GFPoly).AddOrSubstract(q,call:utils.NewMonominalPoly(gp.gf," + dd + "," + scale + "))"
			wantR := "call:utils.(*GFPoly).AddOrSubstract(r,call:utils.(*GFPoly).MultByMonominal(o," + dd + "," + scale + "))"
			gq, gr := n.Norm(qphi.Edges[back]).String(), n.Norm(rphi.Edges[back]).String()
			c.Check(R5, "utils.(*GFPoly).Divide/quotient-step", qphi.Pos(), gq == wantQ, wantQ, gq)
			c.Check(R5, "utils.(*GFPoly).Divide/remainder-step", rphi.Pos(), gr == wantR, wantR, gr)
			body := hdr.Preds[back]
			want := MustRefCond("len(r.Coefficients) >= len(o.Coefficients) && r.Coefficients[0] != 0")
			c.expectCondC(R5, "utils.(*GFPoly).Divide/while", hdr.Instrs[0].Pos(), n.ReachCond(fn, hdr, body), want)
		}
	}
	for _, pin := range []struct{ name, want string }{
		{"utils.(*GFPoly).Degree", "-1 + len(gp.Coefficients)"},
		{"utils.(*GFPoly).GetCoefficient", "gp.Coefficients[" + MustRef("len(gp.Coefficients) - 1 - x").String() + "]"},
		{"utils.(*GFPoly).Zero", "Cmp==(gp.Coefficients[0],0)"},
	} {
		if fn := c.theFunc(R5, pin.name); fn != nil {
			n := NewNormer(c.P)
			n.BindParams(fn, "gp", "x")
			rets := returnsOf(fn)
			got := ""
			if len(rets) == 1 {
				got = n.Norm(rets[0].Results[0]).String()
			}
			c.Check(R5, pin.name, fn.Pos(), got == pin.want, pin.want, got)
		}
	}
	if fn := c.theFunc(R5, "utils.(*ReedSolomonEncoder).Encode"); fn != nil && len(fn.Params) == 3 {
		n := NewNormer(c.P)
		n.BindParams(fn, "rs", "data", "ecc")
		div := c.P.Func("utils.(*GFPoly).Divide")
		calls := callsTo(fn, div)
		if len(calls) != 1 {
			c.Check(R5, "utils.(*ReedSolomonEncoder).Encode/divide", fn.Pos(), false, "one Divide call", fmt.Sprint(len(calls)))
		} else {
			call := calls[0]
			g0 := n.Norm(call.Common().Args[0]).String()
			g1 := n.Norm(call.Common().Args[1]).String()
			w0 := "call:utils.(*GFPoly).MultByMonominal(call:utils.NewGFPoly(rs.gf,data),ecc,1)"
			w1 := "call:utils.(*ReedSolomonEncoder).getPolynomial(rs,ecc)"
			c.Check(R5, "utils.(*ReedSolomonEncoder).Encode/dividend", call.Pos(), g0 == w0, w0, g0)
			c.Check(R5, "utils.(*ReedSolomonEncoder).Encode/generator", call.Pos(), g1 == w1, w1, g1)
			var rem ssa.Value
			for _, r := range *call.Referrers() {
				if ex, ok := r.(*ssa.Extract); ok && ex.Index == 1 {
					rem = ex
				}
			}
			if rem != nil {
				n.Bind[rem] = "rem"
			}
			eachInstr(fn, func(b *ssa.BasicBlock, ins ssa.Instruction) {
				cp, ok := ins.(*ssa.Call)
				if !ok {
					return
				}
				if bi, ok := cp.Common().Value.(*ssa.Builtin); !ok || bi.Name() != "copy" {
					return
				}
				gd, gs := n.Norm(cp.Common().Args[0]).String(), n.Norm(cp.Common().Args[1]).String()
				c.Check(R5, "utils.(*ReedSolomonEncoder).Encode/right-align", cp.Pos(), gs == "rem.Coefficients" && len(gd) > 0 && containsAll(gd, "slice(", "ecc - len(rem.Coefficients)"), "copy(result[ecc-len(rem):], rem.Coefficients)", "copy("+gd+", "+gs+")")
			})
			for _, ret := range returnsOf(fn) {
				mk, ok := ret.Results[0].(*ssa.MakeSlice)
				c.Check(R5, "utils.(*ReedSolomonEncoder).Encode/result-len", ret.Pos(), ok && pEqual(n.Norm(mk.Len), MustRef("ecc")), "make([]int, ecc)", ret.Results[0].String())
			}
		}
	}

	const R4 = "M4-RS-CACHE"
	c.Doc(R4, "ReedSolomonEncoder.getPolynomial: whenever the cache is extended, the new entry is (previous last entry) x (x + alpha^(len-1+Base)) with len the current cache length (a loop counter is accepted when it provably tracks the length: starts at len(cache), one append and one increment per iteration); extension happens exactly while len(cache) <= degree; the result is cache[degree] - so index = degree whatever the request order")
	c.Floor(R4, 5)
	if fn := c.theFunc(R4, "utils.(*ReedSolomonEncoder).getPolynomial"); fn != nil && len(fn.Params) == 2 {
		n := NewNormer(c.P)
		n.BindParams(fn, "rs", "degree")
		n.AtomAlias["len(rs.polynomes)"] = "LEN"
		n.AtomAlias["rs.polynomes["+MustRef("LEN - 1").String()+"]"] = "TOP"
		// the append site, in getPolynomial or in a helper called by it
		var site *DeepSite
		c.P.deepEach(fn, 2, func(s DeepSite) {
			st, ok := s.Ins.(*ssa.Store)
			if !ok {
				return
			}
			if fa, ok := st.Addr.(*ssa.FieldAddr); ok {
				stt := fa.X.Type().Underlying().(*types.Pointer).Elem().Underlying().(*types.Struct)
				if fname(stt.Field(fa.Field)) == "polynomes" {
					if _, fresh := fa.X.(*ssa.Alloc); !fresh {
						cp := s
						site = &cp
					}
				}
			}
		})
		if site == nil {
			c.Check(R4, "utils.(*ReedSolomonEncoder).getPolynomial/append", fn.Pos(), false, "a store extending the cache", "none")
		} else {
			_ = site.Fn
			st := site.Ins.(*ssa.Store)
			n.Ctx = site.Path
			// appended value
			var appended ssa.Value
			if call, ok := st.Val.(*ssa.Call); ok && len(call.Common().Args) == 2 {
				if el := variadicElems(call.Common().Args[1]); len(el) == 1 {
					appended = el[0]
				}
				base := n.Norm(call.Common().Args[0]).String()
				c.Check(R4, "utils.(*ReedSolomonEncoder).getPolynomial/append-base", st.Pos(), base == "rs.polynomes", "append(rs.polynomes, next)", base)
			}
			if appended == nil {
				c.Undecided(R4, "utils.(*ReedSolomonEncoder).getPolynomial/appended", st.Pos(), "appended value not found")
			} else {
				// loop-carried trackers of the cache length / last entry
				hdr := enclosingLoopHeader(st.Block())
				if hdr != nil {
					for _, ins := range hdr.Instrs {
						p, ok := ins.(*ssa.Phi)
						if !ok {
							break
						}
						tracksLen, tracksTop := true, true
						for ei, e := range p.Edges {
							if hdr.Dominates(hdr.Preds[ei]) {
								n.Bind[p] = "LEN"
								if !pEqual(n.Norm(e), MustRef("LEN + 1")) {
									tracksLen = false
								}
								delete(n.Bind, p)
								if e != appended {
									tracksTop = false
								}
							} else {
								v := n.Norm(e).String()
								if v != "LEN" {
									tracksLen = false
								}
								if v != "TOP" {
									tracksTop = false
								}
							}
						}
						if isIntType(p.Type()) && tracksLen {
							n.Bind[p] = "LEN"
						} else if !isIntType(p.Type()) && tracksTop {
							n.Bind[p] = "TOP"
						}
					}
					// one append per iteration: the store is on every path through the loop body
					onAll := true
					for _, pr := range hdr.Preds {
						if hdr.Dominates(pr) && !st.Block().Dominates(pr) {
							onAll = false
						}
					}
					c.Check(R4, "utils.(*ReedSolomonEncoder).getPolynomial/one-append-per-iteration", st.Pos(), onAll, "exactly one append per loop iteration", fmt.Sprint(onAll))
				}
				// next = last.Multiply(NewGFPoly(gf, {1, root})); the factor may be built by a helper
				okNext, got := false, n.Norm(appended).String()
				var ng *ssa.Call
				ctxBefore := n.Ctx
				// the whole step may be computed by a helper (next = helper(last, d))
				for d := 0; d < 2; d++ {
					hc, ok := appended.(*ssa.Call)
					if !ok || calleeOf(hc) == nil || c.P.FuncName(calleeOf(hc)) == "utils.(*GFPoly).Multiply" {
						break
					}
					g := calleeOf(hc)
					if !isRepoFunc(g) || g.Blocks == nil || len(returnsOf(g)) != 1 || len(returnsOf(g)[0].Results) != 1 {
						break
					}
					n.Ctx = append(append([]ssa.CallInstruction{}, n.Ctx...), hc)
					appended = returnsOf(g)[0].Results[0]
					c.Fn(c.P.FuncName(g))
				}
				if mul, ok := appended.(*ssa.Call); ok && len(mul.Common().Args) == 2 && calleeOf(mul) != nil && c.P.FuncName(calleeOf(mul)) == "utils.(*GFPoly).Multiply" && n.Norm(mul.Common().Args[0]).String() == "TOP" {
					fv := mul.Common().Args[1]
					for d := 0; d < 3; d++ {
						fc, ok := fv.(*ssa.Call)
						if !ok || calleeOf(fc) == nil {
							break
						}
						if c.P.FuncName(calleeOf(fc)) == "utils.NewGFPoly" {
							ng = fc
							break
						}
						g := calleeOf(fc)
						if !isRepoFunc(g) || g.Blocks == nil || len(returnsOf(g)) != 1 || len(returnsOf(g)[0].Results) != 1 {
							break
						}
						n.Ctx = append(append([]ssa.CallInstruction{}, n.Ctx...), fc)
						fv = returnsOf(g)[0].Results[0]
					}
					if ng != nil && len(ng.Common().Args) == 2 {
						okNext = n.Norm(ng.Common().Args[0]).String() == "rs.gf"
					}
				}
				c.Check(R4, "utils.(*ReedSolomonEncoder).getPolynomial/next", appended.Pos(), okNext, "last.Multiply(NewGFPoly(gf, {1, root}))", got)
				// the factor literal {1, ALogTbl[len-1+Base]}
				if ng != nil && len(ng.Common().Args) == 2 {
					el := variadicElems(ng.Common().Args[1])
					for k, wantE := range map[int]string{0: "1", 1: "rs.gf.ALogTbl[" + MustRef("LEN - 1 + rs.gf.Base").String() + "]"} {
						gotE := "missing"
						if el[k] != nil {
							gotE = n.Norm(el[k]).String()
						}
						c.Check(R4, fmt.Sprintf("utils.(*ReedSolomonEncoder).getPolynomial/factor[%d]", k), ng.Pos(), gotE == wantE && len(el) == 2, wantE, gotE)
					}
				}
				n.Ctx = ctxBefore
				n.Ctx = nil
				c.expectCond(R4, "utils.(*ReedSolomonEncoder).getPolynomial/extend-iff", st.Pos(), n.ReachCondDeep(fn, nil, *site), "LEN <= degree")
			}
		}
		n.Ctx = nil
		for _, ret := range returnsOf(fn) {
			if len(ret.Block().Preds) == 0 && ret.Block() != fn.Blocks[0] {
				continue
			}
			got := n.Norm(ret.Results[0]).String()
			want := "rs.polynomes[degree]"
			c.Check(R4, "utils.(*ReedSolomonEncoder).getPolynomial/result", ret.Pos(), got == want, want, got)
		}
	}
}

func containsAll(s string, subs ...string) bool {
	for _, x := range subs {
		if !contains(s, x) {
			return false
		}
	}
	return true
}

// enclosingLoopHeader: the innermost loop header whose loop contains b.
func enclosingLoopHeader(b *ssa.BasicBlock) *ssa.BasicBlock {
	for d := b; d != nil; d = d.Idom() {
		for _, p := range d.Preds {
			if d.Dominates(p) && (p == b || d == b || reachableWithin(d, b, p)) {
				return d
			}
		}
	}
	return nil
}
