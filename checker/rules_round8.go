package main

import (
	"fmt"
	"go/token"
	"go/types"
	"regexp"
	"sort"
	"strings"

	"golang.org/x/tools/go/ssa"
)

// Q14: automatic mode selection of the QR encoder.
func ruleQRAuto(c *Ctx) {
	const R = "Q14-QR-AUTO"
	c.Doc(R, "qr.encodeAuto runs the numeric, the alphanumeric and the byte-mode encoder in this order on (content, ecl) and returns the first result whose bit list and version are both non-nil, an error iff none; which inputs an encoder accepts is decided by that encoder alone (its own alphabet and capacity rules), not by a second classification; Encoding.getEncoder maps Auto/Numeric/AlphaNumeric/Unicode to encodeAuto/encodeNumeric/encodeAlphaNumeric/encodeUnicode")
	c.Floor(R, 8)
	kinds := []string{"Numeric", "AlphaNumeric", "Unicode"}
	encFn := map[string]string{"Auto": "qr.encodeAuto", "Numeric": "qr.encodeNumeric", "AlphaNumeric": "qr.encodeAlphaNumeric", "Unicode": "qr.encodeUnicode"}
	kv := map[string]int64{}
	for k := range encFn {
		v, ok := c.P.ConstInt("qr", k)
		if !ok {
			c.Anchor(R, "qr."+k, "encoding constant not found")
			return
		}
		kv[k] = v
	}
	if fn := c.theFunc(R, "qr.(Encoding).getEncoder"); fn != nil && len(fn.Params) == 1 {
		n := NewNormer(c.P)
		n.BindParams(fn, "e")
		for k, want := range encFn {
			ret, err := returnAt(n, fn, map[string]int64{"e": kv[k]}, nil)
			if err != nil {
				c.Undecided(R, "qr.getEncoder/"+k, fn.Pos(), err.Error())
				continue
			}
			got := n.Norm(ret.Results[0]).String()
			c.Check(R, "qr.getEncoder/"+k, ret.Pos(), got == "func:"+want, want, got)
		}
	}
	fn := c.theFunc(R, "qr.encodeAuto")
	if fn == nil || len(fn.Params) != 2 {
		return
	}
	n := NewNormer(c.P)
	n.BindParams(fn, "content", "ecl")
	getEnc := c.P.Func("qr.(Encoding).getEncoder")
	// the encoder runs, in dominance order
	type run struct {
		call *ssa.Call
		kind string
	}
	var runs []run
	eachInstr(fn, func(b *ssa.BasicBlock, ins ssa.Instruction) {
		call, ok := ins.(*ssa.Call)
		if !ok {
			return
		}
		kind := ""
		if cal := call.Common().StaticCallee(); cal != nil {
			for k, f := range encFn {
				if c.P.FuncName(cal) == f && k != "Auto" {
					kind = k
				}
			}
		} else if sel, ok := call.Common().Value.(*ssa.Call); ok && sel.Common().StaticCallee() == getEnc && getEnc != nil && len(sel.Common().Args) == 1 {
			if v, isK := n.Norm(sel.Common().Args[0]).IsConst(); isK {
				for _, k := range kinds {
					if kv[k] == v {
						kind = k
					}
				}
			}
		}
		if kind != "" {
			runs = append(runs, run{call, kind})
		}
	})
	if len(runs) == 0 {
		if ruleQRAutoLoop(c, R, fn, n, getEnc, kinds, kv) {
			return
		}
	}
	var got []string
	for _, r := range runs {
		got = append(got, r.kind)
	}
	okOrder := len(runs) == 3
	for i := 0; okOrder && i < 3; i++ {
		if runs[i].kind != kinds[i] || (i > 0 && !runs[i-1].call.Block().Dominates(runs[i].call.Block())) {
			okOrder = false
		}
	}
	c.Check(R, "qr.encodeAuto/order", fn.Pos(), okOrder, "numeric, then alphanumeric, then byte mode - one run each", strings.Join(got, ", "))
	if !okOrder {
		return
	}
	ok := make([]*Cond, 3)
	for i, r := range runs {
		args := r.call.Common().Args
		c.Check(R, fmt.Sprintf("qr.encodeAuto/%s-args", r.kind), r.call.Pos(), len(args) == 2 && n.Norm(args[0]).String() == "content" && n.Norm(args[1]).String() == "ecl", "(content, ecl)", callSig(n, c.P, r.call))
		for _, ref := range *r.call.Referrers() {
			if ex, isEx := ref.(*ssa.Extract); isEx {
				n.Bind[ex] = fmt.Sprintf("%s%d", []string{"b", "v", "err"}[ex.Index], i+1)
			}
		}
		ok[i] = cAnd(cNot(&Cond{Kind: CBool, Name: eqName(fmt.Sprintf("b%d", i+1), "nil")}), cNot(&Cond{Kind: CBool, Name: eqName(fmt.Sprintf("v%d", i+1), "nil")}))
	}
	failedBefore := cTrue
	seen := map[int]bool{}
	errSeen := false
	for _, ret := range returnsOf(fn) {
		rc := n.ReachCond(fn, nil, ret.Block())
		if isNilConst(ret.Results[0]) {
			errSeen = true
			c.expectCondC(R, "qr.encodeAuto/error-iff", ret.Pos(), rc, cAnd(cAnd(cNot(ok[0]), cNot(ok[1])), cNot(ok[2])))
			c.Check(R, "qr.encodeAuto/error-nonnil", ret.Pos(), !isNilConst(ret.Results[2]), "a non-nil error", ret.Results[2].String())
			continue
		}
		b := n.Norm(ret.Results[0]).String()
		k := -1
		for i := range runs {
			if b == fmt.Sprintf("b%d", i+1) {
				k = i
			}
		}
		if k < 0 {
			c.Check(R, "qr.encodeAuto/result", ret.Pos(), false, "the bit list of one of the three runs", b)
			continue
		}
		seen[k] = true
		c.Check(R, fmt.Sprintf("qr.encodeAuto/%s-result", runs[k].kind), ret.Pos(), n.Norm(ret.Results[1]).String() == fmt.Sprintf("v%d", k+1) && isNilConst(ret.Results[2]), "bits and version of the same run, nil error", n.Norm(ret.Results[1]).String())
		want := ok[k]
		for j := 0; j < k; j++ {
			want = cAnd(cNot(ok[j]), want)
		}
		c.expectCondC(R, fmt.Sprintf("qr.encodeAuto/%s-iff", runs[k].kind), ret.Pos(), rc, want)
	}
	_ = failedBefore
	c.Check(R, "qr.encodeAuto/returns", fn.Pos(), seen[0] && seen[1] && seen[2] && errSeen, "one success return per run and an error return", fmt.Sprint(seen, errSeen))
}

// ruleQRAutoLoop: encodeAuto written as a loop over a list of the three encodings. Returns false when
// the function does not have that shape.
func ruleQRAutoLoop(c *Ctx, R string, fn *ssa.Function, n *Normer, getEnc *ssa.Function, kinds []string, kv map[string]int64) bool {
	var run, sel *ssa.Call
	eachInstr(fn, func(b *ssa.BasicBlock, ins ssa.Instruction) {
		call, ok := ins.(*ssa.Call)
		if !ok || call.Common().StaticCallee() != nil {
			return
		}
		if s, ok := call.Common().Value.(*ssa.Call); ok && s.Common().StaticCallee() == getEnc && getEnc != nil && len(s.Common().Args) == 1 {
			if run != nil {
				run, sel = nil, nil
				return
			}
			run, sel = call, s
		}
	})
	if run == nil {
		return false
	}
	hdr := enclosingLoopHeader(run.Block())
	if hdr == nil {
		return false
	}
	idx, _, init, ok := loopIndex(hdr)
	if !ok || init != 0 {
		return false
	}
	// the encodings tried, in order: the list read at positions 0, 1, 2, ... while the loop continues
	var got []string
	savedFold := n.FoldTables
	n.FoldTables = true
	for k := int64(0); k < 5; k++ {
		n.env = append(n.env, map[ssa.Value]Poly{idx: pConst(k)})
		cont := n.LoopCond(hdr)
		v, isK := n.Norm(sel.Common().Args[0]).IsConst()
		n.env = n.env[:len(n.env)-1]
		if eq, _ := CondEquivalent(cont, cFalse); eq {
			break
		}
		if eq, _ := CondEquivalent(cont, cTrue); !eq || !isK {
			got = append(got, "?")
			break
		}
		name := fmt.Sprint(v)
		for _, kd := range kinds {
			if kv[kd] == v {
				name = kd
			}
		}
		got = append(got, name)
	}
	n.FoldTables = savedFold
	c.Check(R, "qr.encodeAuto/order", run.Pos(), strings.Join(got, ", ") == strings.Join(kinds, ", "), "numeric, then alphanumeric, then byte mode - one run each", strings.Join(got, ", "))
	args := run.Common().Args
	c.Check(R, "qr.encodeAuto/loop-args", run.Pos(), len(args) == 2 && n.Norm(args[0]).String() == "content" && n.Norm(args[1]).String() == "ecl", "(content, ecl)", callSig(n, c.P, run))
	for _, ref := range *run.Referrers() {
		if ex, isEx := ref.(*ssa.Extract); isEx {
			n.Bind[ex] = []string{"b", "v", "err"}[ex.Index]
		}
	}
	okC := cAnd(cNot(&Cond{Kind: CBool, Name: eqName("b", "nil")}), cNot(&Cond{Kind: CBool, Name: eqName("v", "nil")}))
	body := hdr.Succs[0]
	succ, errs := 0, 0
	for _, ret := range returnsOf(fn) {
		if isNilConst(ret.Results[0]) {
			errs++
			// reached when the loop has run out of encodings
			ex := loopExitBlock(hdr)
			after := ex != nil && ex.Dominates(ret.Block()) && !inLoopBody(hdr, ret.Block())
			rc := cFalse
			if after {
				rc = n.ReachCond(fn, ex, ret.Block())
			}
			eq, _ := CondEquivalent(rc, cTrue)
			c.Check(R, "qr.encodeAuto/error-iff", ret.Pos(), after && eq, "an error exactly when no encoding of the list succeeded", rc.String())
			c.Check(R, "qr.encodeAuto/error-nonnil", ret.Pos(), !isNilConst(ret.Results[2]), "a non-nil error", ret.Results[2].String())
			continue
		}
		succ++
		okRes := n.Norm(ret.Results[0]).String() == "b" && n.Norm(ret.Results[1]).String() == "v" && isNilConst(ret.Results[2]) && inLoopBody(hdr, ret.Block())
		c.Check(R, "qr.encodeAuto/loop-result", ret.Pos(), okRes, "bits and version of the current run, nil error", fmt.Sprintf("(%s, %s)", n.Norm(ret.Results[0]), n.Norm(ret.Results[1])))
		c.expectCondC(R, "qr.encodeAuto/loop-iff", ret.Pos(), n.ReachCond(fn, body, ret.Block()), okC)
	}
	c.Check(R, "qr.encodeAuto/returns", fn.Pos(), succ == 1 && errs == 1, "one success return in the loop and an error return after it", fmt.Sprint(succ, errs))
	// the loop goes on to the next encoding exactly when this one failed
	cont := cFalse
	for _, p := range hdr.Preds {
		if hdr.Dominates(p) {
			cont = cOr(cont, cAnd(n.ReachCond(fn, body, p), n.EdgeCond(p, hdr)))
		}
	}
	c.expectCondC(R, "qr.encodeAuto/next-iff", hdr.Instrs[0].Pos(), cont, cNot(okC))
	return true
}

// Q15: interleaving of the QR blocks.
func ruleQRInterleave(c *Ctx) {
	const R = "Q15-QR-INTERLEAVE"
	c.Doc(R, "qr.(blockList).interleave: for i = 0 .. max(data codewords per block)-1, for every block b in order, data codeword i of block b is appended when the block has one; then for i = 0 .. ecc codewords per block - 1, for every block in order, ecc codeword i; the result starts empty and is what is returned")
	c.Floor(R, 7)
	fn := c.theFunc(R, "qr.(blockList).interleave")
	if fn == nil || len(fn.Params) != 2 {
		return
	}
	n := NewNormer(c.P)
	n.BindParams(fn, "bl", "vi")
	// emissions: append(result, x), or result[pos] = x with a position counter that starts at 0 and is
	// advanced by one with every write (and only then)
	type emission struct {
		at   ssa.Instruction
		elem ssa.Value
	}
	var ems []emission
	for _, s := range appendSites(fn) {
		if len(s.elems) == 1 {
			ems = append(ems, emission{s.call, s.elems[0]})
		}
	}
	positional := false
	if len(ems) == 0 {
		okPos := true
		eachInstr(fn, func(b *ssa.BasicBlock, ins ssa.Instruction) {
			st, ok := ins.(*ssa.Store)
			if !ok {
				return
			}
			ia, ok := st.Addr.(*ssa.IndexAddr)
			if !ok {
				return
			}
			if _, isMk := ia.X.(*ssa.MakeSlice); !isMk {
				return
			}
			// the position: advanced by one in this block, nowhere else used for arithmetic
			incs := 0
			for _, r := range *ia.Index.Referrers() {
				if bo, ok := r.(*ssa.BinOp); ok && bo.Op == token.ADD && bo.X == ia.Index && bo.Block() == b {
					if k, isK := constInt(bo.Y); isK && k == 1 {
						incs++
					}
				}
			}
			if incs != 1 || !counterFromZero(ia.Index, 0) {
				okPos = false
			}
			ems = append(ems, emission{st, st.Val})
		})
		positional = len(ems) > 0
		if positional {
			c.Check(R, "qr.interleave/positions", fn.Pos(), okPos, "written at a position that starts at 0 and advances by one with every write", fmt.Sprint(okPos))
			// the slice written into must be long enough: its length must not be computed in byte arithmetic
			// (the codeword total exceeds 255 from version 9 on; as a capacity hint of append that was harmless)
			for _, e := range ems {
				if st, ok := e.at.(*ssa.Store); ok {
					if mk, ok := st.Addr.(*ssa.IndexAddr).X.(*ssa.MakeSlice); ok {
						narrow := ""
						var walk func(v ssa.Value, d int)
						walk = func(v ssa.Value, d int) {
							if d > 8 {
								return
							}
							switch x := v.(type) {
							case *ssa.BinOp:
								if bits, _ := intSize(x.Type()); bits < 32 && isIntType(x.Type()) {
									narrow = x.String()
								}
								walk(x.X, d+1)
								walk(x.Y, d+1)
							case *ssa.Convert:
								walk(x.X, d+1)
							case *ssa.Phi:
								for _, ed := range x.Edges {
									walk(ed, d+1)
								}
							}
						}
						walk(mk.Len, 0)
						c.Check(R, "qr.interleave/length@"+c.P.Pos(mk.Pos()), mk.Pos(), narrow == "", "a length computed in int (it reaches 3706)", "narrow arithmetic: "+narrow)
					}
				}
			}
		}
	}
	type nest struct {
		site         emission
		inner, outer *ssa.BasicBlock
	}
	var nests []nest
	for _, e := range ems {
		inner := enclosingLoopHeader(e.at.Block())
		if inner == nil {
			continue
		}
		var outer *ssa.BasicBlock
		for d := inner.Idom(); d != nil && outer == nil; d = d.Idom() {
			if h := enclosingLoopHeader(d); h != nil && h != inner {
				outer = h
			}
			if enclosingLoopHeader(d) == nil {
				break
			}
		}
		if outer == nil {
			continue
		}
		nests = append(nests, nest{site: e, inner: inner, outer: outer})
	}
	if len(nests) != 2 || len(ems) != 2 {
		c.Check(R, "qr.interleave/shape", fn.Pos(), false, "two emission sites, each inside a loop over the blocks inside a loop over the codeword number", fmt.Sprintf("%d emission sites, %d in a loop nest", len(ems), len(nests)))
		return
	}
	after := func(a, b nest) bool { // b's nest starts after a's has ended
		ex := loopExitBlock(a.outer)
		return ex != nil && reachableFrom(ex)[b.outer] && !inLoopBody(a.outer, b.outer)
	}
	if after(nests[1], nests[0]) && !after(nests[0], nests[1]) {
		nests[0], nests[1] = nests[1], nests[0]
	}
	c.Check(R, "qr.interleave/order", fn.Pos(), after(nests[0], nests[1]) && !after(nests[1], nests[0]), "the data pass ends before the ecc pass begins", "nested or unordered passes")
	for k, ns := range nests {
		name := []string{"data", "ecc"}[k]
		oi, _, oinit, ok1 := loopIndex(ns.outer)
		ii, _, iinit, ok2 := loopIndex(ns.inner)
		if !ok1 || !ok2 {
			c.Undecided(R, "qr.interleave/"+name+"-loops", ns.site.at.Pos(), "the pass is not a pair of counting loops")
			continue
		}
		n.Bind[oi], n.Bind[ii] = "i", "b"
		c.Check(R, "qr.interleave/"+name+"-from-zero", ns.site.at.Pos(), oinit == 0 && iinit == 0, "both loops start at 0", fmt.Sprint(oinit, iinit))
		// the element: bl[b].<field>[i]
		el := n.Norm(ns.site.elem).String()
		want := "bl[b]." + name + "[i]"
		c.Check(R, "qr.interleave/"+name+"-element", ns.site.at.Pos(), el == want, want, el)
		c.expectCond(R, "qr.interleave/"+name+"-blocks", ns.site.at.Pos(), n.LoopCond(ns.inner), "b < len(bl)")
		body := ns.inner.Succs[0]
		if k == 0 {
			// outer bound: the larger of the two block lengths
			hi := loopBoundValue(ns.outer, oi)
			if rot, isRot := rotatedLoop(ns.outer); isRot {
				hi = loopBoundValue(rot.latch, rot.next)
			}
			if hi == nil {
				c.Undecided(R, "qr.interleave/data-rows", ns.site.at.Pos(), "bound of the codeword loop not found")
			} else {
				// (with equal lengths either one will do)
				all := cFalse
				bad := ""
				for _, cs := range n.valueCases(fn, nil, hi, 0) {
					all = cOr(all, cs.cond)
					var need *Cond
					switch cs.val.String() {
					case "vi.DataCodeWordsPerBlockInGroup1":
						need = MustRefCond("vi.DataCodeWordsPerBlockInGroup1 >= vi.DataCodeWordsPerBlockInGroup2")
					case "vi.DataCodeWordsPerBlockInGroup2":
						need = MustRefCond("vi.DataCodeWordsPerBlockInGroup2 >= vi.DataCodeWordsPerBlockInGroup1")
					default:
						bad += "bound " + cs.val.String() + "; "
						continue
					}
					if imp, _, w := CondRelation(cs.cond, need); !imp {
						bad += fmt.Sprintf("%s chosen when %s (%s); ", cs.val, cs.cond, w)
					}
				}
				if eq, _ := CondEquivalent(all, cTrue); !eq {
					bad += "not every case covered; "
				}
				c.Check(R, "qr.interleave/data-rows", ns.site.at.Pos(), bad == "", "i < the larger of the two block lengths", orOK(bad))
			}
			c.expectCond(R, "qr.interleave/data-iff", ns.site.at.Pos(), n.ReachCond(fn, body, ns.site.at.Block()), "len(bl[b].data) > i")
		} else {
			c.expectCond(R, "qr.interleave/ecc-rows", ns.site.at.Pos(), n.LoopCond(ns.outer), "i < vi.ErrorCorrectionCodewordsPerBlock")
			c.expectCond(R, "qr.interleave/ecc-iff", ns.site.at.Pos(), n.ReachCond(fn, body, ns.site.at.Block()), "true")
		}
		c.Check(R, "qr.interleave/"+name+"-no-early-exit", ns.site.at.Pos(), loopExitsOnlyAtHeader(ns.inner) && loopExitsOnlyAtHeader(ns.outer), "the loops are left only when their counters reach the bound", "a break/return leaves a loop body")
		delete(n.Bind, oi)
		delete(n.Bind, ii)
	}
	// accumulation: the appended-to slice starts empty and is returned
	for _, ret := range returnsOf(fn) {
		// every source of the returned value is the one zero-length make, extended by the appends
		ok := true
		leaves := 0
		seen := map[ssa.Value]bool{}
		var walk func(v ssa.Value)
		walk = func(v ssa.Value) {
			if seen[v] {
				return
			}
			seen[v] = true
			switch x := v.(type) {
			case *ssa.Phi:
				for _, e := range x.Edges {
					walk(e)
				}
			case *ssa.Call:
				if bi, isB := x.Common().Value.(*ssa.Builtin); isB && bi.Name() == "append" {
					walk(x.Common().Args[0])
					return
				}
				ok = false
			case *ssa.MakeSlice:
				leaves++
				if k, isK := n.Norm(x.Len).IsConst(); !isK || k != 0 {
					ok = false
				}
			default:
				ok = false
			}
		}
		walk(ret.Results[0])
		ok = ok && leaves == 1
		if positional {
			// result[:pos] or result itself
			v := ret.Results[0]
			if sl, isSl := v.(*ssa.Slice); isSl && sl.Low == nil && sl.High != nil && counterFromZero(sl.High, 0) {
				v = sl.X
			}
			_, ok = v.(*ssa.MakeSlice)
		}
		c.Check(R, "qr.interleave/result", ret.Pos(), ok, "the accumulated slice, which starts with length 0", n.Norm(ret.Results[0]).String())
	}
}

// loopBoundValue: the value the loop index is compared against in the header test `idx < bound`.
func loopBoundValue(hdr *ssa.BasicBlock, idx ssa.Value) ssa.Value {
	iff, ok := hdr.Instrs[len(hdr.Instrs)-1].(*ssa.If)
	if !ok {
		return nil
	}
	bo, ok := iff.Cond.(*ssa.BinOp)
	if !ok || bo.Op != token.LSS || bo.X != idx {
		return nil
	}
	return bo.Y
}

func init() {
	register("C01", ruleQRAuto, ruleQRInterleave)
	register("C10", ruleQRAuto, ruleQRInterleave)
	register("C12", ruleQRInterleave)
	register("C13", ruleQRAuto)
	register("C16", ruleQRInterleave)
}

// A13: which candidate states updateStateForChar generates.
func ruleAztecCharCandidates(c *Ctx) {
	const R = "A13-AZTEC-CHAR-CANDIDATES"
	c.Doc(R, "aztec.updateStateForChar: for every mode 0..4 whose table holds the character (charMap[mode][ch] > 0): a latch-and-append candidate iff the character is not in the current mode's table, or the mode is the current mode, or the mode is Digit; a shift-and-append candidate iff the character is not in the current table and shiftTable[current mode] has an entry for the mode (the lookup decides, not the target mode alone); a binary-shift candidate iff a binary run is open or the current table lacks the character; each candidate carries the mode and the character's code in it")
	c.Floor(R, 8)
	fn := c.theFunc(R, "aztec.updateStateForChar")
	if fn == nil || len(fn.Params) != 3 {
		return
	}
	n := NewNormer(c.P)
	n.BindParams(fn, "s", "data", "index")
	// the mode loop
	var hdr *ssa.BasicBlock
	var modeV ssa.Value
	var init int64
	for _, b := range fn.Blocks {
		if idx, _, in, ok := loopIndex(b); ok && hdr == nil {
			hdr, modeV, init = b, idx, in
		}
	}
	if hdr == nil {
		c.Undecided(R, "aztec.updateStateForChar/modes", fn.Pos(), "no counting loop over the modes")
		return
	}
	n.Bind[modeV] = "mode"
	mv := map[string]int64{}
	for _, m := range []string{"mode_upper", "mode_digit", "mode_punct"} {
		mv[m], _ = c.P.ConstInt("aztec", m)
	}
	c.Check(R, "aztec.updateStateForChar/first-mode", hdr.Instrs[0].Pos(), init == mv["mode_upper"], fmt.Sprint(mv["mode_upper"]), fmt.Sprint(init))
	c.expectCond(R, "aztec.updateStateForChar/modes", hdr.Instrs[0].Pos(), n.LoopCond(hdr), fmt.Sprintf("mode <= %d", mv["mode_punct"]))
	body := hdr.Succs[0]
	ch := "data[index]"
	inMode := canonAccess(fmt.Sprintf("idx(idx(global:aztec.charMap,mode),%s)", ch))
	inCur := canonAccess(fmt.Sprintf("idx(idx(global:aztec.charMap,s.mode),%s)", ch))
	canon := func(cd *Cond) *Cond { return mapCondBases(cd, canonAccess) }
	has := cmpCond(token.GTR, pAtom(inMode), pConst(0))
	notCur := cNot(cmpCond(token.GTR, pAtom(inCur), pConst(0)))
	shiftOK := &Cond{Kind: CBool, Name: canonAccess("idx(idx(global:aztec.shiftTable,s.mode),mode)#1")}
	// the entries of charMap are character codes: never negative (0 = not in the table)
	dom := cAnd(cmpCond(token.GEQ, pAtom(inMode), pConst(0)), cmpCond(token.GEQ, pAtom(inCur), pConst(0)))
	for _, m := range []struct {
		name string
		want *Cond
	}{
		{"latchAndAppend", cAnd(has, cOr(cOr(notCur, MustRefCond("mode == s.mode")), MustRefCond(fmt.Sprintf("mode == %d", mv["mode_digit"]))))},
		{"shiftAndAppend", cAnd(has, cAnd(notCur, shiftOK))},
	} {
		calls := callsTo(fn, c.P.Func("aztec.(*state)."+m.name))
		if len(calls) != 1 {
			c.Check(R, "aztec.updateStateForChar/"+m.name, fn.Pos(), false, "one "+m.name+" candidate in the mode loop", fmt.Sprint(len(calls)))
			continue
		}
		call := calls[0]
		c.expectCondC(R, "aztec.updateStateForChar/"+m.name+"-iff", call.Pos(), cAnd(dom, canon(n.ReachCond(fn, body, call.Block()))), cAnd(dom, m.want))
		a := call.Common().Args
		got := fmt.Sprintf("(%s, %s)", n.Norm(a[1]), canonAccess(n.Norm(a[2]).String()))
		c.Check(R, "aztec.updateStateForChar/"+m.name+"-args", call.Pos(), got == "(mode, "+inMode+")", "(mode, charMap[mode][ch])", got)
	}
	for _, call := range callsTo(fn, c.P.Func("aztec.(*state).addBinaryShiftChar")) {
		want := cOr(MustRefCond("s.bShiftByteCount > 0"), cmpCond(token.EQL, pAtom(inCur), pConst(0)))
		// reached after the mode loop has run to its end
		reach := cFalse
		if ex := loopExitBlock(hdr); ex != nil && ex.Dominates(call.Block()) {
			reach = n.ReachCond(fn, ex, call.Block())
		}
		c.expectCondC(R, "aztec.updateStateForChar/binary-iff", call.Pos(), cAnd(dom, canon(reach)), cAnd(dom, want))
	}
	c.Check(R, "aztec.updateStateForChar/no-early-exit", hdr.Instrs[0].Pos(), loopExitsOnlyAtHeader(hdr), "every mode is tried", "a break/return leaves the mode loop")
}

// mapCondBases rewrites the base polynomials and atom names of a condition.
func mapCondBases(cd *Cond, f func(string) string) *Cond {
	switch cd.Kind {
	case CAnd, COr, CNot:
		out := &Cond{Kind: cd.Kind}
		for _, s := range cd.Sub {
			out.Sub = append(out.Sub, mapCondBases(s, f))
		}
		return out
	case CCmp:
		cp := *cd
		cp.Base = f(cd.Base)
		return &cp
	case CBool:
		cp := *cd
		cp.Name = f(cd.Name)
		return &cp
	}
	return cd
}

func init() {
	register("C03", ruleAztecCharCandidates)
}

// A14: bit stuffing of the Aztec data words.
func ruleAztecStuffing(c *Ctx) {
	const R = "A14-AZTEC-STUFFING"
	c.Doc(R, "aztec.stuffBits: words of wordSize bits are taken from position i = 0 while i < n; bit j of a word (from the top) is set iff i+j is beyond the end or bit i+j of the input is set; with mask = 2^wordSize - 2: a word whose masked value equals mask is emitted as word&mask, one whose masked value is 0 as word|1, any other as it is, always with wordSize bits; i advances by wordSize - 1 after a stuffed word (always - the replaced low bit is re-read, also at the end of the input) and by wordSize otherwise")
	c.Floor(R, 9)
	fn := c.theFunc(R, "aztec.stuffBits")
	if fn == nil || len(fn.Params) != 2 {
		return
	}
	n := NewNormer(c.P)
	n.NoInline["utils.(*BitList).Len"], n.NoInline["utils.(*BitList).GetBit"] = true, true
	n.BindParams(fn, "bits", "wordSize")
	for _, call := range callsTo(fn, c.P.Func("utils.(*BitList).Len")) {
		if call.Common().Args[0] == ssa.Value(fn.Params[0]) {
			n.Bind[call] = "n"
		}
	}
	maskP := pAdd(pAtom("Shl(1,wordSize)"), pConst(2), -1)
	var maskV, wordV ssa.Value
	var firstAnd *ssa.BinOp
	okShape := true
	eachInstr(fn, func(b *ssa.BasicBlock, ins ssa.Instruction) {
		bo, ok := ins.(*ssa.BinOp)
		if !ok || bo.Op != token.AND {
			return
		}
		for _, pr := range [][2]ssa.Value{{bo.X, bo.Y}, {bo.Y, bo.X}} {
			if _, bound := n.Bind[pr[0]]; !bound && pEqual(n.Norm(pr[0]), maskP) {
				if wordV != nil && wordV != pr[1] {
					okShape = false
				}
				maskV, wordV = pr[0], pr[1]
				if firstAnd == nil {
					firstAnd = bo
				}
			}
		}
	})
	addBits := callsTo(fn, c.P.Func("utils.(*BitList).AddBits"))
	if maskV == nil || !okShape || len(addBits) == 0 {
		c.Undecided(R, "aztec.stuffBits/mask", fn.Pos(), "no test of one word against the mask (1 << wordSize) - 2")
		return
	}
	n.Bind[maskV], n.Bind[wordV] = "mask", "word"
	and := n.Norm(firstAnd).asAtom()
	isMask := cmpCond(token.EQL, pAtom(and), pAtom("mask"))
	isZero := cmpCond(token.EQL, pAtom(and), pConst(0))
	from := firstAnd.Block()
	outer := enclosingLoopHeader(addBits[0].Block())
	if outer == nil || !outer.Dominates(from) {
		c.Undecided(R, "aztec.stuffBits/loop", fn.Pos(), "word loop not found")
		return
	}
	// the position: the int phi of the outer header that starts at 0
	var iphi *ssa.Phi
	for _, ins := range outer.Instrs {
		if p, ok := ins.(*ssa.Phi); ok && isIntType(p.Type()) {
			for ei, e := range p.Edges {
				if !outer.Dominates(outer.Preds[ei]) {
					if k, isK := constInt(e); isK && k == 0 {
						iphi = p
					}
				}
			}
		}
	}
	if iphi == nil {
		c.Undecided(R, "aztec.stuffBits/position", outer.Instrs[0].Pos(), "no position variable starting at 0")
		return
	}
	n.Bind[iphi] = "i"
	c.expectCond(R, "aztec.stuffBits/while", iphi.Pos(), n.LoopCond(outer), "i < n")
	var adv []valCase
	for ei, e := range iphi.Edges {
		if !outer.Dominates(outer.Preds[ei]) {
			continue
		}
		pred := outer.Preds[ei]
		edge := cAnd(n.ReachCond(fn, from, pred), n.EdgeCond(pred, outer))
		for _, cs := range n.valueCases(fn, from, e, 0) {
			adv = append(adv, valCase{cs.val, cAnd(edge, cs.cond)})
		}
	}
	checkCasesC(c, R, "aztec.stuffBits/advance", iphi.Pos(), mergeCases(adv), []caseSpec{
		{MustRef("i + wordSize - 1"), cOr(isMask, isZero)},
		{MustRef("i + wordSize"), cNot(cOr(isMask, isZero))}})
	// emissions
	var em []valCase
	for _, call := range addBits {
		reach := n.ReachCond(fn, from, call.Block())
		c.Check(R, "aztec.stuffBits/width@"+c.P.Pos(call.Pos()), call.Pos(), n.Norm(call.Common().Args[2]).String() == "Conv:uint8(wordSize)", "wordSize bits", n.Norm(call.Common().Args[2]).String())
		c.Check(R, "aztec.stuffBits/after-word@"+c.P.Pos(call.Pos()), call.Pos(), from.Dominates(call.Block()), "emitted after the word is complete", "before")
		for _, cs := range n.valueCases(fn, from, call.Common().Args[1], 0) {
			em = append(em, valCase{cs.val, cAnd(reach, cs.cond)})
		}
	}
	// (when the masked word equals the mask, emitting the mask is emitting the masked word)
	for i := range em {
		if pEqual(em[i].val, pAtom("mask")) {
			if imp, _, _ := CondRelation(em[i].cond, isMask); imp {
				em[i].val = pAtom(and)
			}
		}
	}
	checkCasesC(c, R, "aztec.stuffBits/emit", addBits[0].Pos(), mergeCases(em), []caseSpec{
		{pAtom(and), isMask},
		{pAtom("Or(1,word)"), cAnd(cNot(isMask), isZero)},
		{pAtom("word"), cAnd(cNot(isMask), cNot(isZero))}})
	// assembly of the word: in this function, or in an unexported helper that is given the position
	wfn := fn
	wv := wordV
	if hc, ok := wordV.(*ssa.Call); ok {
		if g := hc.Common().StaticCallee(); g != nil && isRepoFunc(g) && g.Blocks != nil && len(returnsOf(g)) == 1 && (g.Object() == nil || !g.Object().Exported()) {
			wfn, wv = g, returnsOf(g)[0].Results[0]
			n.Ctx = []ssa.CallInstruction{hc}
			defer func() { n.Ctx = nil }()
			c.Fn(c.P.FuncName(g))
			for _, call := range callsTo(g, c.P.Func("utils.(*BitList).Len")) {
				if n.Norm(call.Common().Args[0]).String() == "bits" {
					n.Bind[call] = "n"
				}
			}
		}
	}
	wphi, _ := wv.(*ssa.Phi)
	if wphi != nil && !isLoopHeader(wphi.Block()) {
		wphi = rotatedExitAlias(wphi) // what a bottom-tested loop leaves behind
	}
	if wphi == nil || !isLoopHeader(wphi.Block()) {
		c.Undecided(R, "aztec.stuffBits/word", fn.Pos(), "the word is not accumulated in a loop")
		return
	}
	n.Bind[wphi] = "word" // (the value left behind by the loop and the value inside it go by the same name)
	fn = wfn
	inner := wphi.Block()
	// the loop over the bits of a word, described by the position q of the input bit it reads:
	// q = i, i+1, ..., i+wordSize-1 - whatever the loop variable itself is (j with q = i+j, or q itself)
	var get *ssa.Call
	for _, call := range callsTo(fn, c.P.Func("utils.(*BitList).GetBit")) {
		if inLoopBody(inner, call.Block()) && n.Norm(call.Common().Args[0]).String() == "bits" {
			get = call
		}
	}
	if get == nil {
		c.Undecided(R, "aztec.stuffBits/word-loop", wphi.Pos(), "no read of an input bit in the word loop")
		return
	}
	first, step, while, okR := reindexLoop(n, inner, get.Common().Args[1])
	if !okR {
		c.Undecided(R, "aztec.stuffBits/word-loop", wphi.Pos(), "the bit position is not an affine function of the loop variable")
		return
	}
	c.Check(R, "aztec.stuffBits/word-loop-start", wphi.Pos(), pEqual(first, pAtom("i")) && pEqual(step, pConst(1)), "bit positions i, i+1, ...", fmt.Sprintf("from %s step %s", first, step))
	c.expectCondC(R, "aztec.stuffBits/word-loop", wphi.Pos(), while, MustRefCond("q < i + wordSize"))
	var asm []valCase
	for ei, e := range wphi.Edges {
		pred := inner.Preds[ei]
		if !inner.Dominates(pred) {
			c.expectPoly(R, "aztec.stuffBits/word-start", wphi.Pos(), n, e, "0")
			continue
		}
		wbody := n.BodyStart(inner)
		edge := cAnd(n.ReachCond(fn, wbody, pred), n.EdgeCond(pred, inner))
		if _, isRot := rotatedLoop(inner); isRot {
			edge = n.ReachCond(fn, wbody, pred) // the latch test decides about the next iteration, not about this value
		}
		for _, cs := range n.valueCases(fn, wbody, e, 0) {
			asm = append(asm, valCase{cs.val, cAnd(edge, cs.cond)})
		}
	}
	asm = mergeCases(asm)
	// within the loop the position is inside the word
	dom := MustRefCond("q < i + wordSize")
	for k := range asm {
		asm[k].cond = cAnd(dom, asm[k].cond)
	}
	setIff := cAnd(dom, cOr(MustRefCond("q >= n"), &Cond{Kind: CBool, Name: "call:utils.(*BitList).GetBit(bits,q)"}))
	clrIff := cAnd(dom, cNot(cOr(MustRefCond("q >= n"), &Cond{Kind: CBool, Name: "call:utils.(*BitList).GetBit(bits,q)"})))
	forms := [][]caseSpec{
		{{pAtom("Or(Shl(1," + MustRef("wordSize - 1 - q + i").String() + "),word)"), setIff}, {pAtom("word"), clrIff}},
		{{pAtom("Or(1," + MustRef("2*word").String() + ")"), setIff}, {MustRef("2*word"), clrIff}},
		{{MustRef("2*word + 1"), setIff}, {MustRef("2*word"), clrIff}},
	}
	okForm := false
	for _, specs := range forms {
		ok := len(asm) == len(specs)
		for _, sp := range specs {
			hit := false
			for _, cs := range asm {
				if pEqual(cs.val, sp.val) {
					if eq, _ := CondEquivalent(cs.cond, sp.cond); eq {
						hit = true
					}
				}
			}
			if !hit {
				ok = false
			}
		}
		if ok {
			okForm = true
		}
	}
	got := ""
	for _, cs := range asm {
		got += fmt.Sprintf("%s when %s; ", cs.val, cs.cond)
	}
	c.Check(R, "aztec.stuffBits/word-bit", wphi.Pos(), okForm, "the bit read at q goes to place wordSize-1-(q-i) of the word (or word = 2*word + bit), set iff q is past the end or the input bit is set", got)
	n.env = n.env[:len(n.env)-1]
}

func init() {
	register("C03", ruleAztecStuffing)
	register("C12", ruleAztecStuffing)
	register("C13", ruleAztecStuffing)
}

// A17: the map from data-layout coordinates to symbol coordinates.
func ruleAztecAlignmentMap(c *Ctx) {
	const R = "A17-AZTEC-ALIGNMAP"
	c.Doc(R, "aztec.EncodeWithColor: the alignment map has one entry per row of the data layout (base = 11|14 + 4*layers); compact symbols map i to i; full-range symbols map, for i = 0 .. base/2-1, base/2-1-i to centre-1-(i+i/15) and base/2+i to centre+1+(i+i/15) with centre = size/2 - one reference-grid line is skipped every 15 modules on either side of the centre")
	c.Floor(R, 9)
	fn := c.theFunc(R, "aztec.EncodeWithColor")
	if fn == nil || len(fn.Params) != 4 {
		return
	}
	n := NewNormer(c.P)
	n.BindParams(fn, "data", "pct", "req", "color")
	// the map: the []int that is filled by index in counting loops - in EncodeWithColor or in an
	// unexported helper it calls
	var mk *ssa.MakeSlice
	var otherMakes []*ssa.MakeSlice
	var stores []*ssa.Store
	root := fn
	scan := func(f *ssa.Function) {
		if mk != nil {
			return
		}
		byMake := map[*ssa.MakeSlice][]*ssa.Store{}
		eachInstr(f, func(b *ssa.BasicBlock, ins ssa.Instruction) {
			if st, ok := ins.(*ssa.Store); ok {
				if ia, ok := st.Addr.(*ssa.IndexAddr); ok {
					m, ok := ia.X.(*ssa.MakeSlice)
					if ld, isLd := ia.X.(*ssa.UnOp); isLd && !ok {
						// a variable (a named result) that holds the make
						if a, isA := ld.X.(*ssa.Alloc); isA {
							var found *ssa.MakeSlice
							for _, r := range *a.Referrers() {
								if s2, isSt := r.(*ssa.Store); isSt && s2.Addr == ssa.Value(a) {
									if m2, isMk := s2.Val.(*ssa.MakeSlice); isMk && dominatesInstr(s2, ld) {
										if found != nil && !dominatesInstr(found, s2) {
											found = nil
											break
										}
										found = m2
									}
								}
							}
							m, ok = found, found != nil
						}
					}
					if ok && typeShort(m.Type()) == "[]int" && enclosingLoopHeader(b) != nil {
						byMake[m] = append(byMake[m], st)
					}
				}
			}
		})
		total := 0
		for _, sts := range byMake {
			total += len(sts)
		}
		if total < 3 {
			return
		}
		// (one make per format is as good as one for both, as long as they have the same length)
		nn := NewNormer(c.P)
		for m, sts := range byMake {
			if mk == nil || m.Pos() < mk.Pos() {
				mk = m
			}
			stores = append(stores, sts...)
		}
		_ = nn
		for m := range byMake {
			if m != mk {
				n.Bind[m.Len] = "base"
				otherMakes = append(otherMakes, m)
			}
		}
		fn = f
	}
	scan(fn)
	c.P.deepEach(root, 2, func(s DeepSite) {
		if mk == nil && s.Fn != root {
			scan(s.Fn)
			if mk != nil {
				n.Ctx = s.Path
			}
		}
	})
	if mk == nil {
		c.Undecided(R, "aztec.EncodeWithColor/map", root.Pos(), "no []int filled by index in counting loops")
		return
	}
	c.Fn(c.P.FuncName(fn))
	n.Bind[mk.Len] = "base"
	if len(stores) != 3 {
		c.Check(R, "aztec.EncodeWithColor/map-writes", mk.Pos(), false, "three writes: the identity (compact) and the two halves (full range)", fmt.Sprint(len(stores)))
		return
	}
	// the branch test: the If that separates the identity store from the others
	var ident *ssa.Store
	var halves []*ssa.Store
	byHdr := map[*ssa.BasicBlock][]*ssa.Store{}
	for _, st := range stores {
		h := enclosingLoopHeader(st.Block())
		byHdr[h] = append(byHdr[h], st)
	}
	for h, sts := range byHdr {
		if h == nil {
			c.Check(R, "aztec.EncodeWithColor/map-writes", sts[0].Pos(), false, "the map is filled in counting loops", "a write outside a loop")
			return
		}
		if len(sts) == 1 {
			ident = sts[0]
		} else {
			halves = sts
		}
	}
	if ident == nil || len(halves) != 2 {
		c.Check(R, "aztec.EncodeWithColor/map-writes", mk.Pos(), false, "one loop with the identity, one loop with the two halves", fmt.Sprint(len(byHdr)))
		return
	}
	// compact / full: the two loops sit in the two arms of one test of the compact flag
	ih, hh := enclosingLoopHeader(ident.Block()), enclosingLoopHeader(halves[0].Block())
	var split *ssa.BasicBlock
	for d := ih.Idom(); d != nil; d = d.Idom() {
		if d.Dominates(hh) {
			split = d
			break
		}
	}
	if split == nil {
		c.Undecided(R, "aztec.EncodeWithColor/map-branch", mk.Pos(), "no common test above the two fill loops")
		return
	}
	iff, ok := split.Instrs[len(split.Instrs)-1].(*ssa.If)
	if !ok {
		c.Undecided(R, "aztec.EncodeWithColor/map-branch", mk.Pos(), "the fill loops are not the arms of one test")
		return
	}
	n.Bind[iff.Cond] = "compact"
	compact := &Cond{Kind: CBool, Name: "compact"}
	c.expectCondC(R, "aztec.EncodeWithColor/map-identity-iff", ident.Pos(), n.ReachCond(fn, split, loopEntry(ih)), compact)
	c.expectCondC(R, "aztec.EncodeWithColor/map-halves-iff", halves[0].Pos(), n.ReachCond(fn, split, loopEntry(hh)), cNot(compact))
	// the flag itself: the same value that selected the base size
	delete(n.Bind, mk.Len)
	var vc, vf Poly
	dbg := ""
	if p, isPhi := mk.Len.(*ssa.Phi); isPhi {
		for ei, e := range p.Edges {
			pred := p.Block().Preds[ei]
			cond := cAnd(n.ReachCond(fn, p.Block().Idom(), pred), n.EdgeCond(pred, p.Block()))
			val := n.Norm(e)
			dbg += fmt.Sprintf("%s when %s; ", val, cond)
			if eq, _ := CondEquivalent(cond, compact); eq {
				vc = val
			}
			if eq, _ := CondEquivalent(cond, cNot(compact)); eq {
				vf = val
			}
		}
	}
	if len(otherMakes) > 0 && vc == nil && vf == nil {
		// one list per format, each made with that format's base size
		lenOf := func(st *ssa.Store) Poly {
			m, _ := st.Addr.(*ssa.IndexAddr).X.(*ssa.MakeSlice)
			if m == nil {
				return nil
			}
			saved := n.Bind[m.Len]
			delete(n.Bind, m.Len)
			p := n.Norm(m.Len)
			n.Bind[m.Len] = saved
			return p
		}
		vc, vf = lenOf(ident), lenOf(halves[0])
		dbg += fmt.Sprintf("%v for the identity list, %v for the other; ", vc, vf)
	}
	if hc, idx, exp := expandableCall(mk.Len, n); exp && vc == nil && vf == nil {
		// the base size comes from a helper that is given the flag
		for _, cs := range n.callCases(hc, idx, 0) {
			dbg += fmt.Sprintf("%s when %s; ", cs.val, cs.cond)
			if eq, _ := CondEquivalent(cs.cond, compact); eq {
				vc = cs.val
			}
			if eq, _ := CondEquivalent(cs.cond, cNot(compact)); eq {
				vf = cs.val
			}
		}
	}
	n.Bind[mk.Len] = "base"
	okFlag := vc != nil && vf != nil && pEqual(pAdd(vf, vc, -1), pConst(3))
	c.Check(R, "aztec.EncodeWithColor/map-flag", iff.Pos(), okFlag, "the test that picks the fill loop is the compact flag that picks the base size (11 + 4*layers, else 14 + 4*layers)", dbg)
	// identity loop
	if idx, _, init, ok := loopIndex(ih); ok {
		n.Bind[idx] = "i"
		c.Check(R, "aztec.EncodeWithColor/map-identity-start", ident.Pos(), init == 0, "0", fmt.Sprint(init))
		w1, _ := CondEquivalent(n.LoopCond(ih), MustRefCond("i < base"))
		w2, _ := CondEquivalent(n.LoopCond(ih), cmpCond(token.LSS, pAtom("i"), pAtom("len("+n.Norm(mk).asAtom()+")")))
		c.Check(R, "aztec.EncodeWithColor/map-identity-all", ident.Pos(), w1 || w2, "i < base", n.LoopCond(ih).String())
		c.expectPoly(R, "aztec.EncodeWithColor/map-identity-index", ident.Pos(), n, ident.Addr.(*ssa.IndexAddr).Index, "i")
		c.expectPoly(R, "aztec.EncodeWithColor/map-identity-value", ident.Pos(), n, ident.Val, "i")
		delete(n.Bind, idx)
	} else {
		c.Undecided(R, "aztec.EncodeWithColor/map-identity-loop", ident.Pos(), "not a counting loop")
	}
	// halves
	if idx, _, init, ok := loopIndex(hh); ok {
		n.Bind[idx] = "i"
		c.Check(R, "aztec.EncodeWithColor/map-halves-start", halves[0].Pos(), init == 0, "0", fmt.Sprint(init))
		c.expectCond(R, "aztec.EncodeWithColor/map-halves-all", halves[0].Pos(), n.LoopCond(hh), "i < base/2")
		size := "(base + 1 + 2*((base/2 - 1)/15))"
		lo := [2]string{"base/2 - i - 1", size + "/2 - (i + i/15) - 1"}
		hi := [2]string{"base/2 + i", size + "/2 + (i + i/15) + 1"}
		seenLo, seenHi := false, false
		for _, st := range halves {
			ix, v := n.Norm(st.Addr.(*ssa.IndexAddr).Index), n.Norm(st.Val)
			switch {
			case pEqual(ix, MustRef(lo[0])):
				seenLo = true
				c.Check(R, "aztec.EncodeWithColor/map-low-half", st.Pos(), pEqual(v, MustRef(lo[1])), MustRef(lo[1]).String(), v.String())
			case pEqual(ix, MustRef(hi[0])):
				seenHi = true
				c.Check(R, "aztec.EncodeWithColor/map-high-half", st.Pos(), pEqual(v, MustRef(hi[1])), MustRef(hi[1]).String(), v.String())
			default:
				c.Check(R, "aztec.EncodeWithColor/map-half-index", st.Pos(), false, "base/2-1-i or base/2+i", ix.String())
			}
		}
		c.Check(R, "aztec.EncodeWithColor/map-both-halves", halves[0].Pos(), seenLo && seenHi, "both halves written", fmt.Sprint(seenLo, seenHi))
	} else {
		c.Undecided(R, "aztec.EncodeWithColor/map-halves-loop", halves[0].Pos(), "not a counting loop")
	}
}

func init() {
	register("C03", ruleAztecAlignmentMap)
	register("C12", ruleAztecAlignmentMap)
}

// A15: from stuffed bits to code words and back to bits.
func ruleAztecCheckWords(c *Ctx) {
	const R = "A15-AZTEC-CHECKWORDS"
	c.Doc(R, "aztec.bitsToWords: word i (i < wordCount) collects bits i*wordSize .. i*wordSize+wordSize-1, the first one as its most significant bit, in an int (no narrower accumulator: words have up to 12 bits); aztec.generateCheckWords: message words = bitsToWords(bits, wordSize, Len/wordSize), check words = Encode(message words, totalBits/wordSize - Len/wordSize); output = totalBits%wordSize zero bits, then every message word, then every check word, each with wordSize bits")
	c.Floor(R, 12)
	if fn := c.theFunc(R, "aztec.bitsToWords"); fn != nil && len(fn.Params) == 3 {
		ruleAztecBitsToWords(c, R, fn)
	}
	if fn := c.theFunc(R, "aztec.generateCheckWords"); fn != nil && len(fn.Params) == 3 {
		n := NewNormer(c.P)
		n.NoInline["utils.(*BitList).Len"] = true
		n.NoInline["aztec.bitsToWords"] = true
		n.BindParams(fn, "bits", "totalBits", "wordSize")
		for _, call := range callsTo(fn, c.P.Func("utils.(*BitList).Len")) {
			if call.Common().Args[0] == ssa.Value(fn.Params[0]) {
				n.Bind[call] = "L"
			}
		}
		b2w := callsTo(fn, c.P.Func("aztec.bitsToWords"))
		enc := callsTo(fn, c.P.Func("utils.(*ReedSolomonEncoder).Encode"))
		if len(b2w) != 1 || len(enc) != 1 {
			c.Check(R, "aztec.generateCheckWords/shape", fn.Pos(), false, "one bitsToWords call and one Encode call", fmt.Sprint(len(b2w), len(enc)))
			return
		}
		got := callSig(n, c.P, b2w[0])
		c.Check(R, "aztec.generateCheckWords/message-words", b2w[0].Pos(), got == "bitsToWords(bits, wordSize, "+MustRef("L/wordSize").String()+")", "bitsToWords(bits, wordSize, Len/wordSize)", got)
		n.Bind[b2w[0]] = "msg"
		a := enc[0].Common().Args
		c.Check(R, "aztec.generateCheckWords/encode-data", enc[0].Pos(), n.Norm(a[1]).String() == "msg", "the message words", n.Norm(a[1]).String())
		c.expectPoly(R, "aztec.generateCheckWords/encode-count", enc[0].Pos(), n, a[2], "totalBits/wordSize - L/wordSize")
		n.Bind[enc[0]] = "ecc"
		// the output: AddBits calls on the result list, in order - in this function or in an unexported
		// helper that appends a list of words
		type emit struct {
			call *ssa.Call
			top  ssa.Instruction // the instruction of fn that performs it
			hdr  *ssa.BasicBlock
		}
		var pad *ssa.Call
		var mw, ew *emit
		for _, site := range c.P.deepCallsTo(fn, c.P.Func("utils.(*BitList).AddBits")) {
			call := site.Ins.(*ssa.Call)
			var top ssa.Instruction = call
			if len(site.Path) > 0 {
				top = site.Path[0]
			}
			n.Ctx = site.Path
			h := enclosingLoopHeader(call.Block())
			if h == nil && len(site.Path) == 0 {
				if pad != nil {
					c.Check(R, "aztec.generateCheckWords/emissions", call.Pos(), false, "one padding emission outside the loops", "several")
				}
				pad = call
				n.Ctx = nil
				continue
			}
			if h == nil {
				c.Check(R, "aztec.generateCheckWords/emissions", call.Pos(), false, "words are appended in loops", "a helper that appends outside a loop")
				n.Ctx = nil
				continue
			}
			idx, _, init, ok := loopIndex(h)
			if !ok || init != 0 {
				c.Undecided(R, "aztec.generateCheckWords/loop", call.Pos(), "not a loop over all words from the first")
				n.Ctx = nil
				continue
			}
			old, had := n.Bind[idx]
			n.Bind[idx] = "k"
			v := canonAccess(n.Norm(call.Common().Args[1]).String())
			// an element of slices.Concat(msg, ecc): the message words followed by the check words
			var elemBase ssa.Value
			switch x := call.Common().Args[1].(type) {
			case *ssa.UnOp:
				if ia, ok := x.X.(*ssa.IndexAddr); ok {
					elemBase = ia.X
				}
			case *ssa.Index:
				elemBase = x.X
			}
			if cc, ok := elemBase.(*ssa.Call); ok && cc.Common().StaticCallee() != nil {
				if o := cc.Common().StaticCallee().Origin(); o != nil && o.Pkg != nil && o.Pkg.Pkg.Path() == "slices" && o.Name() == "Concat" && len(cc.Common().Args) == 1 {
					if el := variadicElems(cc.Common().Args[0]); len(el) == 2 && el[0] != nil && el[1] != nil && n.Norm(el[0]).String() == "msg" && n.Norm(el[1]).String() == "ecc" {
						n.Bind[cc] = "call:slices.Concat(msg,ecc)"
						v = canonAccess(n.Norm(call.Common().Args[1]).String())
					}
				}
			}
			var srcs []string
			var outerIdx ssa.Value // set when one loop nest walks a two-entry list {msg, ecc}
			switch v {
			case "msg[k]":
				srcs = []string{"msg"}
			case "ecc[k]":
				srcs = []string{"ecc"}
			case "call:slices.Concat(msg,ecc)[k]":
				srcs = []string{"msg", "ecc"} // one pass over the message words followed by the check words
			default:
				// for _, words := range [][]int{msg, ecc} { for _, w := range words { ... } }
				var h2 *ssa.BasicBlock
				if e := loopEntry(h); e != h {
					h2 = enclosingLoopHeader(e)
				} else if h.Idom() != nil {
					h2 = enclosingLoopHeader(h.Idom())
				}
				if h2 != nil && h2 != h && len(site.Path) == 0 {
					if i2, _, init2, ok2 := loopIndex(h2); ok2 && init2 == 0 {
						var vs []string
						for g := int64(0); g < 3; g++ {
							n.env = append(n.env, map[ssa.Value]Poly{i2: pConst(g)})
							cont := n.LoopCond(h2)
							vs = append(vs, canonAccess(n.Norm(call.Common().Args[1]).String()))
							n.env = n.env[:len(n.env)-1]
							if eq, _ := CondEquivalent(cont, cTrue); !eq {
								vs = vs[:len(vs)-1]
								break
							}
						}
						if len(vs) == 2 && vs[0] == "msg[k]" && vs[1] == "ecc[k]" {
							srcs, outerIdx = []string{"msg", "ecc"}, i2
						}
					}
				}
				if srcs == nil {
					c.Check(R, "aztec.generateCheckWords/emissions", call.Pos(), false, "message word k or check word k", v)
				}
			}
			for si, src := range srcs {
				if outerIdx != nil {
					n.env = append(n.env, map[ssa.Value]Poly{outerIdx: pConst(int64(si))})
				}
				e := &emit{call, top, h}
				if src == "msg" {
					mw = e
				} else {
					ew = e
				}
				list := src
				if len(srcs) == 2 && outerIdx == nil {
					list = "call:slices.Concat(msg,ecc)"
				}
				w1, _ := CondEquivalent(n.LoopCond(h), cmpCond(token.LSS, pAtom("k"), pAtom("len("+list+")")))
				c.Check(R, "aztec.generateCheckWords/"+src+"-all", call.Pos(), w1, "k < len("+list+")", n.LoopCond(h).String())
				c.expectCond(R, "aztec.generateCheckWords/"+src+"-always", call.Pos(), n.ReachCond(site.Fn, n.BodyStart(h), call.Block()), "true")
				c.Check(R, "aztec.generateCheckWords/"+src+"-width", call.Pos(), n.Norm(call.Common().Args[2]).String() == "Conv:uint8(wordSize)", "wordSize bits", n.Norm(call.Common().Args[2]).String())
				if outerIdx != nil {
					n.env = n.env[:len(n.env)-1]
				}
			}
			if had {
				n.Bind[idx] = old
			} else {
				delete(n.Bind, idx)
			}
			n.Ctx = nil
		}
		if pad == nil || mw == nil || ew == nil {
			c.Check(R, "aztec.generateCheckWords/emissions", fn.Pos(), false, "padding, message words, check words", fmt.Sprintf("pad=%v message=%v check=%v", pad != nil, mw != nil, ew != nil))
			return
		}
		c.expectPoly(R, "aztec.generateCheckWords/pad-value", pad.Pos(), n, pad.Common().Args[1], "0")
		gotW := n.Norm(pad.Common().Args[2]).String()
		c.Check(R, "aztec.generateCheckWords/pad-width", pad.Pos(), gotW == "Conv:uint8("+MustRef("totalBits % wordSize").String()+")", "totalBits % wordSize bits", gotW)
		before := func(a, b ssa.Instruction) bool { // a's work is finished before b starts
			if a == b {
				return false
			}
			if ha := enclosingLoopHeader(a.Block()); ha != nil && a.Parent() == fn {
				ex := loopExitBlock(ha)
				return ex != nil && ex.Dominates(b.Block()) && !inLoopBody(ha, b.Block())
			}
			return dominatesInstr(a, b)
		}
		order := before(pad, mw.top) && (mw.call == ew.call && mw.top == ew.top || before(mw.top, ew.top))
		c.Check(R, "aztec.generateCheckWords/order", fn.Pos(), order, "padding, then the message words, then the check words", fmt.Sprint(order))
		recv := pad.Common().Args[0]
		recvOf := func(e *emit) ssa.Value {
			if tc, ok := e.top.(*ssa.Call); ok && tc != e.call {
				// the helper appends to the list it is given
				for i, p := range calleeOf(tc).Params {
					if e.call.Common().Args[0] == ssa.Value(p) && i < len(tc.Common().Args) {
						return tc.Common().Args[i]
					}
				}
				return nil
			}
			return e.call.Common().Args[0]
		}
		same := recvOf(mw) == recv && recvOf(ew) == recv
		for _, ret := range returnsOf(fn) {
			c.Check(R, "aztec.generateCheckWords/result", ret.Pos(), same && ret.Results[0] == recv, "the list all three parts were appended to", n.Norm(ret.Results[0]).String())
		}
	}
}

func init() {
	register("C03", ruleAztecCheckWords)
	register("C12", ruleAztecCheckWords)
}

// A16: the fields of the Aztec mode message.
func ruleAztecModeMessage(c *Ctx) {
	const R = "A16-AZTEC-MODEMSG"
	c.Doc(R, "aztec.generateModeMessage: compact symbols carry layers-1 in 2 bits and words-1 in 6 bits, protected by check words over GF(16) to 28 bits; full-range symbols carry layers-1 in 5 bits and words-1 in 11 bits, protected to 40 bits; the layer field comes first; the protected message is what is returned")
	c.Floor(R, 5)
	fn := c.theFunc(R, "aztec.generateModeMessage")
	if fn == nil || len(fn.Params) != 3 {
		return
	}
	n := NewNormer(c.P)
	n.BindParams(fn, "compact", "layers", "words")
	compact := &Cond{Kind: CBool, Name: "compact"}
	type em struct {
		call *ssa.Call
		sig  string
	}
	arms := map[bool][]em{}
	n.NoInline["aztec.generateCheckWords"] = true
	// argVal: the value of an argument in one of the two formats (it may be selected beforehand)
	argVal := func(v ssa.Value, arm *Cond) string {
		out, cnt := "?", 0
		for _, cs := range n.valueCases(fn, nil, v, 0) {
			if eq, _ := CondEquivalent(cAnd(cs.cond, arm), cFalse); eq {
				continue
			}
			out = cs.val.String()
			cnt++
		}
		if cnt != 1 {
			return "?"
		}
		return out
	}
	classify := func(call *ssa.Call, kind string, a1, a2 ssa.Value) {
		rc := n.ReachCond(fn, nil, call.Block())
		for _, isC := range []bool{true, false} {
			arm := compact
			if !isC {
				arm = cNot(compact)
			}
			if eq, _ := CondEquivalent(cAnd(rc, arm), cFalse); eq {
				continue // not part of this format
			}
			if eq, _ := CondEquivalent(cAnd(rc, arm), arm); !eq {
				c.Check(R, "aztec.generateModeMessage/branch@"+c.P.Pos(call.Pos()), call.Pos(), false, "emitted for a whole format or not at all", rc.String())
				continue
			}
			arms[isC] = append(arms[isC], em{call, fmt.Sprintf("%s(%s, %s)", kind, argVal(a1, arm), argVal(a2, arm))})
		}
	}
	eachInstr(fn, func(b *ssa.BasicBlock, ins ssa.Instruction) {
		call, ok := ins.(*ssa.Call)
		if !ok || calleeOf(call) == nil {
			return
		}
		switch c.P.FuncName(calleeOf(call)) {
		case "utils.(*BitList).AddBits":
			classify(call, "bits", call.Common().Args[1], call.Common().Args[2])
		case "aztec.generateCheckWords":
			classify(call, "protect", call.Common().Args[1], call.Common().Args[2])
		}
	})
	want := map[bool][]string{
		true:  {"bits(" + MustRef("layers - 1").String() + ", 2)", "bits(" + MustRef("words - 1").String() + ", 6)", "protect(28, 4)"},
		false: {"bits(" + MustRef("layers - 1").String() + ", 5)", "bits(" + MustRef("words - 1").String() + ", 11)", "protect(40, 4)"},
	}
	for _, arm := range []bool{true, false} {
		name := map[bool]string{true: "compact", false: "full"}[arm]
		var got []string
		ordered := true
		for i, e := range arms[arm] {
			got = append(got, e.sig)
			if i > 0 && !dominatesInstr(arms[arm][i-1].call, e.call) {
				ordered = false
			}
		}
		c.Check(R, "aztec.generateModeMessage/"+name+"-fields", fn.Pos(), fmt.Sprint(got) == fmt.Sprint(want[arm]) && ordered, fmt.Sprint(want[arm]), fmt.Sprint(got))
		if len(arms[arm]) == 3 {
			// the fields go into the list that is protected
			list := arms[arm][0].call.Common().Args[0]
			c.Check(R, "aztec.generateModeMessage/"+name+"-list", arms[arm][2].call.Pos(), arms[arm][1].call.Common().Args[0] == list && arms[arm][2].call.Common().Args[0] == list, "both fields are appended to the list handed to generateCheckWords", "different lists")
		}
	}
	for _, ret := range returnsOf(fn) {
		ok := true
		for _, cs := range n.valueCases(fn, nil, ret.Results[0], 0) {
			if !strings.HasPrefix(cs.val.String(), "call:aztec.generateCheckWords(") {
				ok = false
			}
		}
		c.Check(R, "aztec.generateModeMessage/result", ret.Pos(), ok, "the protected message", n.Norm(ret.Results[0]).String())
	}
}

func init() {
	register("C03", ruleAztecModeMessage)
}

// counterFromZero: v belongs to a web of phis and +1 steps whose only other source is the constant 0.
func counterFromZero(v ssa.Value, depth int) bool {
	seen := map[ssa.Value]bool{}
	var walk func(x ssa.Value) bool
	walk = func(x ssa.Value) bool {
		if seen[x] {
			return true
		}
		seen[x] = true
		switch y := x.(type) {
		case *ssa.Const:
			k, ok := constInt(y)
			return ok && k == 0
		case *ssa.Phi:
			for _, e := range y.Edges {
				if !walk(e) {
					return false
				}
			}
			return true
		case *ssa.BinOp:
			if k, ok := constInt(y.Y); ok && k == 1 && y.Op == token.ADD {
				return walk(y.X)
			}
		}
		return false
	}
	return walk(v)
}

// A18: tokens and their bits.
func ruleAztecTokens(c *Ctx) {
	const R = "A18-AZTEC-TOKENS"
	c.Doc(R, "aztec tokens: the constructors store (previous token, value, bit count) / (previous token, start, byte count) in the fields the methods read; a simple token appends its value with its bit count; a binary shift run of n bytes emits, in front of byte 0 and - when n <= 62 - in front of byte 31, the code 31 in 5 bits followed by the length field: n-31 in 16 bits when n > 62, otherwise n (n < 31) or 31 (n >= 31) in 5 bits in front of byte 0 and n-31 in 5 bits in front of byte 31; every byte of the run follows; state.toBitList closes an open binary run at len(text), walks the tokens back to the first and appends them oldest first")
	c.Floor(R, 12)
	// constructors
	for _, k := range []struct {
		fn     string
		typ    string
		fields []string
	}{
		{"aztec.newSimpleToken", "aztec.simpleToken", []string{"token", "value", "bitCount"}},
		{"aztec.newShiftToken", "aztec.binaryShiftToken", []string{"token", "bShiftStart", "bShiftByteCnt"}},
	} {
		fn := c.theFunc(R, k.fn)
		if fn == nil || len(fn.Params) != 3 {
			continue
		}
		n := NewNormer(c.P)
		n.BindParams(fn, "p0", "p1", "p2")
		got := map[string]string{}
		eachInstr(fn, func(b *ssa.BasicBlock, ins ssa.Instruction) {
			st, ok := ins.(*ssa.Store)
			if !ok {
				return
			}
			if fa, ok := st.Addr.(*ssa.FieldAddr); ok {
				if a, ok := fa.X.(*ssa.Alloc); ok && namedTypeName(a.Type()) == k.typ {
					stt := a.Type().Underlying().(*types.Pointer).Elem().Underlying().(*types.Struct)
					got[fname(stt.Field(fa.Field))] = n.Norm(st.Val).String()
				}
			}
		})
		want := map[string]string{k.fields[0]: "p0", k.fields[1]: "p1", k.fields[2]: "p2"}
		c.Check(R, k.fn+"/fields", fn.Pos(), fmt.Sprint(got) == fmt.Sprint(want), fmt.Sprint(want), fmt.Sprint(got))
	}
	for _, m := range []struct{ fn, want string }{
		{"aztec.(*simpleToken).prev", "st.token"}, {"aztec.(*binaryShiftToken).prev", "st.token"}} {
		if fn := c.theFunc(R, m.fn); fn != nil && len(fn.Params) == 1 {
			n := NewNormer(c.P)
			n.BindParams(fn, "st")
			rets := returnsOf(fn)
			c.Check(R, m.fn, fn.Pos(), len(rets) == 1 && n.Norm(rets[0].Results[0]).String() == m.want, "the previous token", n.Norm(rets[0].Results[0]).String())
		}
	}
	if fn := c.theFunc(R, "aztec.(*simpleToken).appendTo"); fn != nil && len(fn.Params) == 3 {
		n := NewNormer(c.P)
		n.BindParams(fn, "st", "bits", "text")
		calls := callsTo(fn, c.P.Func("utils.(*BitList).AddBits"))
		ok := len(calls) == 1
		got := ""
		if ok {
			got = callSig(n, c.P, calls[0])
			eq, _ := CondEquivalent(n.ReachCond(fn, nil, calls[0].Block()), cTrue)
			ok = got == "AddBits(bits, st.value, st.bitCount)" && eq
		}
		c.Check(R, "aztec.(*simpleToken).appendTo", fn.Pos(), ok, "AddBits(bits, st.value, st.bitCount), always and once", got)
	}
	if fn := c.theFunc(R, "aztec.(*binaryShiftToken).appendTo"); fn != nil && len(fn.Params) == 3 {
		n := NewNormer(c.P)
		n.BindParams(fn, "bst", "bits", "text")
		n.AtomAlias["bst.bShiftByteCnt"] = "cnt"
		addBits := c.P.deepCallsTo(fn, c.P.Func("utils.(*BitList).AddBits"))
		addByte := c.P.deepCallsTo(fn, c.P.Func("utils.(*BitList).AddByte"))
		var hdr *ssa.BasicBlock
		if len(addByte) == 1 && len(addByte[0].Path) == 0 {
			hdr = enclosingLoopHeader(addByte[0].Ins.Block())
		}
		// the instruction of appendTo itself through which a site is reached
		top := func(s DeepSite) ssa.Instruction {
			if len(s.Path) > 0 {
				return s.Path[0]
			}
			return s.Ins
		}
		// precedes: a is executed before b whenever both are
		precedes := func(a, b DeepSite) bool {
			k := 0
			for k < len(a.Path) && k < len(b.Path) && a.Path[k] == b.Path[k] {
				k++
			}
			ia, ib := a.Ins, b.Ins
			if k < len(a.Path) {
				ia = a.Path[k]
			}
			if k < len(b.Path) {
				ib = b.Path[k]
			}
			return ia != ib && dominatesInstr(ia, ib)
		}
		if hdr == nil || len(addBits) == 0 {
			c.Undecided(R, "aztec.(*binaryShiftToken).appendTo/shape", fn.Pos(), "one AddByte in a loop and header emissions by AddBits")
		} else if idx, _, init, ok := loopIndex(hdr); !ok || init != 0 {
			c.Undecided(R, "aztec.(*binaryShiftToken).appendTo/loop", fn.Pos(), "not a counting loop from 0")
		} else {
			n.Bind[idx] = "i"
			body := n.BodyStart(hdr)
			c.expectCond(R, "aztec.(*binaryShiftToken).appendTo/bytes", hdr.Instrs[0].Pos(), n.LoopCond(hdr), "i < cnt")
			c.expectCond(R, "aztec.(*binaryShiftToken).appendTo/byte-always", addByte[0].Ins.Pos(), n.ReachCond(fn, body, addByte[0].Ins.Block()), "true")
			// the first emission of an iteration is the header code: the emissions no other one precedes
			isFirst := map[int]bool{}
			for ai := range addBits {
				minimal := true
				for bi, b := range addBits {
					if ai != bi && precedes(b, addBits[ai]) {
						minimal = false
					}
				}
				isFirst[ai] = minimal
			}
			H := MustRefCond("i == 0 || (i == 31 && cnt <= 62)")
			hdrCond := cFalse
			okHdr := true
			gotHdr := ""
			var fc *ssa.Call
			for ai, fs := range addBits {
				if !isFirst[ai] {
					continue
				}
				fc = fs.Ins.(*ssa.Call)
				got := fmt.Sprintf("(%s, %s)", n.NormAt(fs, fc.Common().Args[1]), n.NormAt(fs, fc.Common().Args[2]))
				if got != "(31, 5)" {
					okHdr = false
				}
				gotHdr += got + " "
				hdrCond = cOr(hdrCond, n.ReachCondDeep(fn, body, fs))
			}
			if fc == nil {
				c.Check(R, "aztec.(*binaryShiftToken).appendTo/header", fn.Pos(), false, "the code 31 in 5 bits before any length field", "no emission that precedes the others")
			} else {
				c.Check(R, "aztec.(*binaryShiftToken).appendTo/header", fc.Pos(), okHdr, "(31, 5)", gotHdr)
				c.expectCondC(R, "aztec.(*binaryShiftToken).appendTo/header-iff", fc.Pos(), hdrCond, H)
				type lf struct {
					key  string
					cond *Cond
				}
				var fields []lf
				for ai, a := range addBits {
					if isFirst[ai] {
						continue
					}
					call := a.Ins.(*ssa.Call)
					reach := n.ReachCondDeep(fn, body, a)
					w := n.NormAt(a, call.Common().Args[2]).String()
					saved := n.Ctx
					n.Ctx = a.Path
					var from *ssa.BasicBlock
					if len(a.Path) == 0 {
						from = body
					}
					cases := n.valueCases(a.Fn, from, call.Common().Args[1], 0)
					n.Ctx = saved
					for _, cs := range cases {
						key := fmt.Sprintf("(%s, %s)", cs.val, w)
						cc := cAnd(reach, cs.cond)
						found := false
						for i := range fields {
							if fields[i].key == key {
								fields[i].cond = cOr(fields[i].cond, cc)
								found = true
							}
						}
						if !found {
							fields = append(fields, lf{key, cc})
						}
					}
					tp := top(a)
					c.Check(R, "aztec.(*binaryShiftToken).appendTo/before-byte@"+c.P.Pos(call.Pos()), call.Pos(), reachableFrom(tp.Block())[addByte[0].Ins.Block()] && !dominatesInstr(addByte[0].Ins, tp), "the length field precedes the byte", "after")
				}
				short := cAnd(H, MustRefCond("cnt <= 62 && i == 0"))
				want := []lf{
					{fmt.Sprintf("(%s, 16)", MustRef("cnt - 31")), cAnd(H, MustRefCond("cnt > 62"))},
					{fmt.Sprintf("(%s, 5)", MustRef("cnt - 31")), cAnd(H, MustRefCond("cnt <= 62 && i != 0"))},
				}
				used := map[string]bool{}
				for k, w := range want {
					var got *Cond
					for _, f := range fields {
						if f.key == w.key {
							got = f.cond
							used[f.key] = true
						}
					}
					if got == nil {
						c.Check(R, fmt.Sprintf("aztec.(*binaryShiftToken).appendTo/length-field#%d", k+1), fn.Pos(), false, w.key+" when "+w.cond.String(), "never emitted")
						continue
					}
					c.expectCondC(R, fmt.Sprintf("aztec.(*binaryShiftToken).appendTo/length-field#%d", k+1), fn.Pos(), got, w.cond)
				}
				// in front of byte 0 of a run of at most 62 bytes: min(n, 31) (at n = 31 both spellings agree)
				cN, c31 := cFalse, cFalse
				for _, f := range fields {
					switch f.key {
					case "(cnt, 5)":
						cN, used[f.key] = f.cond, true
					case "(31, 5)":
						c31, used[f.key] = f.cond, true
					}
				}
				i1, _, _ := CondRelation(cN, cAnd(short, MustRefCond("cnt <= 31")))
				i2, _, _ := CondRelation(c31, cAnd(short, MustRefCond("cnt >= 31")))
				eqU, _ := CondEquivalent(cOr(cN, c31), short)
				c.Check(R, "aztec.(*binaryShiftToken).appendTo/length-field#3", fn.Pos(), i1 && i2 && eqU, "min(cnt, 31) in 5 bits in front of byte 0 when cnt <= 62", fmt.Sprintf("cnt when %s; 31 when %s", cN, c31))
				for _, f := range fields {
					if !used[f.key] {
						c.Check(R, "aztec.(*binaryShiftToken).appendTo/length-field-extra", fn.Pos(), false, "only the four length fields", f.key+" when "+f.cond.String())
					}
				}
			}
		}
	}
	if fn := c.theFunc(R, "aztec.(*state).toBitList"); fn != nil && len(fn.Params) == 2 {
		n := NewNormer(c.P)
		n.BindParams(fn, "s", "text")
		ends := callsTo(fn, c.P.Func("aztec.(*state).endBinaryShift"))
		okEnd := len(ends) == 1 && callSig(n, c.P, ends[0]) == "endBinaryShift(s, len(text))"
		c.Check(R, "aztec.(*state).toBitList/close", fn.Pos(), okEnd, "endBinaryShift(s, len(text)) first", fmt.Sprint(len(ends)))
		// the walk starts at the closed state's tokens
		startOK := false
		if okEnd {
			n.Bind[ends[0]] = "se"
			eachInstr(fn, func(b *ssa.BasicBlock, ins ssa.Instruction) {
				if p, ok := ins.(*ssa.Phi); ok && isLoopHeader(b) {
					for ei, e := range p.Edges {
						if !b.Dominates(b.Preds[ei]) && n.Norm(e).String() == "se.tokens" {
							startOK = true
						}
					}
				}
			})
		}
		c.Check(R, "aztec.(*state).toBitList/from-closed-state", fn.Pos(), startOK, "the token walk starts at the tokens of the closed state", fmt.Sprint(startOK))
		// emission: appendTo on tokens[k] for k = len-1 .. 0
		var emit *ssa.Call
		eachInstr(fn, func(b *ssa.BasicBlock, ins ssa.Instruction) {
			if call, ok := ins.(*ssa.Call); ok && call.Common().IsInvoke() && call.Common().Method.Name() == "appendTo" {
				emit = call
			}
		})
		if emit == nil {
			c.Check(R, "aztec.(*state).toBitList/emit", fn.Pos(), false, "appendTo on every token", "no call")
		} else if h := enclosingLoopHeader(emit.Block()); h == nil {
			c.Check(R, "aztec.(*state).toBitList/emit", emit.Pos(), false, "appendTo in a loop over the collected tokens", "not in a loop")
		} else {
			recv := emit.Common().Value
			var ixv ssa.Value
			if ld, ok := recv.(*ssa.UnOp); ok {
				if ia, ok := ld.X.(*ssa.IndexAddr); ok {
					ixv = ia.Index
					n.Bind[ia.X] = "toks"
				}
			}
			if ixv == nil {
				c.Undecided(R, "aztec.(*state).toBitList/emit", emit.Pos(), "receiver is not an element of the collected tokens")
			} else {
				// the collected list may have been put into input order first (slices.Reverse before the loop)
				reversed := false
				eachInstr(fn, func(b *ssa.BasicBlock, ins ssa.Instruction) {
					rc, ok := ins.(*ssa.Call)
					if !ok || rc.Common().StaticCallee() == nil || len(rc.Common().Args) != 1 {
						return
					}
					if o := rc.Common().StaticCallee().Origin(); o != nil && o.Pkg != nil && o.Pkg.Pkg.Path() == "slices" && o.Name() == "Reverse" {
						if n.Norm(rc.Common().Args[0]).String() == "toks" && rc.Block().Dominates(h) && !inLoopBody(h, rc.Block()) && enclosingLoopHeader(rc.Block()) == nil {
							reversed = true
						}
					}
				})
				first, step, while, ok := reindexLoop(n, h, ixv)
				if !ok {
					c.Undecided(R, "aztec.(*state).toBitList/order", emit.Pos(), "token position is not an affine function of the loop variable")
				} else if reversed {
					c.Check(R, "aztec.(*state).toBitList/order", emit.Pos(), pEqual(first, pConst(0)) && pEqual(step, pConst(1)), "the reversed list from its first element on", fmt.Sprintf("from %s step %s", first, step))
					c.expectCondC(R, "aztec.(*state).toBitList/all", emit.Pos(), while, MustRefCond("q < len(toks)"))
					n.env = n.env[:len(n.env)-1]
				} else {
					last := MustRef("len(toks) - 1")
					if ld, ok := recv.(*ssa.UnOp); ok {
						if mkv, ok := ld.X.(*ssa.IndexAddr).X.(*ssa.MakeSlice); ok {
							last = pAdd(n.Norm(mkv.Len), pConst(1), -1) // a list made with its final length
						}
					}
					c.Check(R, "aztec.(*state).toBitList/order", emit.Pos(), pEqual(first, last) && pEqual(step, pConst(-1)), "from the last collected token (the oldest) down to the first", fmt.Sprintf("from %s step %s", first, step))
					c.expectCondC(R, "aztec.(*state).toBitList/all", emit.Pos(), while, MustRefCond("q >= 0"))
					n.env = n.env[:len(n.env)-1]
				}
				a := emit.Common().Args
				c.Check(R, "aztec.(*state).toBitList/text", emit.Pos(), len(a) == 2 && n.Norm(a[1]).String() == "text", "the same text", callSig(n, c.P, emit))
				for _, ret := range returnsOf(fn) {
					c.Check(R, "aztec.(*state).toBitList/result", ret.Pos(), len(a) == 2 && ret.Results[0] == a[0], "the list the tokens were appended to", n.Norm(ret.Results[0]).String())
				}
			}
		}
	}
}

func init() {
	register("C03", ruleAztecTokens)
}

func ruleAztecBitsToWords(c *Ctx, R string, fn *ssa.Function) {
	n := NewNormer(c.P)
	n.NoInline["utils.(*BitList).GetBit"] = true
	n.BindParams(fn, "bits", "wordSize", "wordCount")
	var mk *ssa.MakeSlice
	eachInstr(fn, func(b *ssa.BasicBlock, ins ssa.Instruction) {
		if m, ok := ins.(*ssa.MakeSlice); ok {
			mk = m
		}
	})
	if mk == nil {
		c.Undecided(R, "aztec.bitsToWords/shape", fn.Pos(), "result slice not found")
		return
	}
	// where a finished word goes: message[i] = word, or message = append(message, word)
	var at ssa.Instruction
	var word ssa.Value
	appended := false
	eachInstr(fn, func(b *ssa.BasicBlock, ins ssa.Instruction) {
		if s, ok := ins.(*ssa.Store); ok {
			if ia, isIA := s.Addr.(*ssa.IndexAddr); isIA && ia.X == ssa.Value(mk) {
				at, word = s, s.Val
			}
		}
	})
	if at == nil {
		for _, s := range appendSites(fn) {
			if len(s.elems) == 1 {
				at, word, appended = s.call, s.elems[0], true
			}
		}
	}
	if at == nil {
		c.Undecided(R, "aztec.bitsToWords/shape", fn.Pos(), "no place where a finished word is stored")
		return
	}
	if appended {
		k, isK := n.Norm(mk.Len).IsConst()
		c.Check(R, "aztec.bitsToWords/count", mk.Pos(), isK && k == 0, "appended to an empty list", n.Norm(mk.Len).String())
	} else {
		c.expectPoly(R, "aztec.bitsToWords/count", mk.Pos(), n, mk.Len, "wordCount")
	}
	c.Check(R, "aztec.bitsToWords/word-type", mk.Pos(), typeShort(mk.Type().Underlying().(*types.Slice).Elem()) == "int", "[]int", typeShort(mk.Type()))
	outer := enclosingLoopHeader(at.Block())
	var wphi *ssa.Phi
	if p, ok := word.(*ssa.Phi); ok {
		if isLoopHeader(p.Block()) {
			wphi = p
		} else if hp := rotatedExitAlias(p); hp != nil {
			wphi = hp // the value a bottom-tested loop leaves behind
		}
	}
	if outer == nil || wphi == nil {
		c.Undecided(R, "aztec.bitsToWords/loops", at.Pos(), "word loop / bit loop not found")
		return
	}
	inner := wphi.Block()
	iv, _, iinit, ok1 := loopIndex(outer)
	jv, _, jinit, ok2 := loopIndex(inner)
	if !ok1 || !ok2 {
		c.Undecided(R, "aztec.bitsToWords/loops", at.Pos(), "not counting loops")
		return
	}
	n.Bind[iv], n.Bind[jv], n.Bind[wphi] = "i", "j", "word"
	c.Check(R, "aztec.bitsToWords/starts", at.Pos(), iinit == 0 && jinit == 0, "i, j from 0", fmt.Sprint(iinit, jinit))
	c.Check(R, "aztec.bitsToWords/word-width", wphi.Pos(), typeShort(wphi.Type()) == "int", "int accumulator", typeShort(wphi.Type()))
	w1, _ := CondEquivalent(n.LoopCond(outer), MustRefCond("i < wordCount"))
	w2, _ := CondEquivalent(n.LoopCond(outer), cmpCond(token.LSS, pAtom("i"), pAtom("len("+n.Norm(mk).asAtom()+")")))
	c.Check(R, "aztec.bitsToWords/words", at.Pos(), w1 || (w2 && !appended), "i < wordCount", n.LoopCond(outer).String())
	c.expectCond(R, "aztec.bitsToWords/bits", wphi.Pos(), n.LoopCond(inner), "j < wordSize")
	c.Check(R, "aztec.bitsToWords/no-early-exit", wphi.Pos(), loopExitsOnlyAtHeader(inner) && loopExitsOnlyAtHeader(outer), "every word takes wordSize bits, every word is produced", "a break/return leaves a loop")
	if st, ok := at.(*ssa.Store); ok {
		c.expectPoly(R, "aztec.bitsToWords/index", st.Pos(), n, st.Addr.(*ssa.IndexAddr).Index, "i")
	}
	c.Check(R, "aztec.bitsToWords/after-bits", at.Pos(), inLoopBody(outer, at.Block()) && !inLoopBody(inner, at.Block()), "the word is stored once per word, when all its bits are collected", "inside the bit loop or outside the word loop")
	// the bit that is read: number i*wordSize + j, or a position that starts at 0 and moves on by one with
	// every bit read
	gets := callsTo(fn, c.P.Func("utils.(*BitList).GetBit"))
	if len(gets) != 1 || gets[0].Common().Args[0] != ssa.Value(fn.Params[0]) {
		c.Check(R, "aztec.bitsToWords/source", fn.Pos(), false, "one GetBit on the stuffed bits", fmt.Sprint(len(gets)))
		return
	}
	pos := gets[0].Common().Args[1]
	posOK := pEqual(n.Norm(pos), MustRef("i*wordSize + j"))
	why := n.Norm(pos).String()
	if !posOK && counterFromZero(pos, 0) {
		// advanced exactly once per bit: the +1 sits in the bit loop and is passed in every iteration
		steps := 0
		every := true
		eachInstr(fn, func(b *ssa.BasicBlock, ins ssa.Instruction) {
			bo, ok := ins.(*ssa.BinOp)
			if !ok || bo.Op != token.ADD || bo.X != pos && !samePhiWeb(bo.X, pos) {
				return
			}
			if k, isK := constInt(bo.Y); !isK || k != 1 {
				return
			}
			steps++
			for _, p := range inner.Preds {
				if inner.Dominates(p) && !b.Dominates(p) {
					every = false
				}
			}
			if !inLoopBody(inner, b) && b != inner {
				every = false
			}
		})
		posOK = steps == 1 && every
		why = fmt.Sprintf("running position, %d step(s), in every iteration: %v", steps, every)
	}
	c.Check(R, "aztec.bitsToWords/bit-number", gets[0].Pos(), posOK, "bit i*wordSize + j", why)
	n.Bind[gets[0]] = "bit"
	var asm []valCase
	body := n.BodyStart(inner)
	for ei, e := range wphi.Edges {
		pred := inner.Preds[ei]
		if !inner.Dominates(pred) {
			c.expectPoly(R, "aztec.bitsToWords/word-start", wphi.Pos(), n, e, "0")
			continue
		}
		edge := cAnd(n.ReachCond(fn, body, pred), n.EdgeCond(pred, inner))
		if _, isRot := rotatedLoop(inner); isRot {
			edge = n.ReachCond(fn, body, pred) // the latch test decides about the next iteration, not about this value
		}
		for _, cs := range n.valueCases(fn, body, e, 0) {
			asm = append(asm, valCase{cs.val, cAnd(edge, cs.cond)})
		}
	}
	asm = mergeCases(asm)
	bit := &Cond{Kind: CBool, Name: "bit"}
	formA := []caseSpec{{pAtom("Or(Shl(1," + MustRef("wordSize - j - 1").String() + "),word)"), bit}, {pAtom("word"), cNot(bit)}}
	formB := []caseSpec{{pAtom("Or(1," + MustRef("2*word").String() + ")"), bit}, {MustRef("2*word"), cNot(bit)}}
	formB2 := []caseSpec{{MustRef("2*word + 1"), bit}, {MustRef("2*word"), cNot(bit)}}
	matches := func(specs []caseSpec) bool {
		if len(asm) != len(specs) {
			return false
		}
		for _, sp := range specs {
			ok := false
			for _, cs := range asm {
				if pEqual(cs.val, sp.val) {
					if eq, _ := CondEquivalent(cs.cond, sp.cond); eq {
						ok = true
					}
				}
			}
			if !ok {
				return false
			}
		}
		return true
	}
	got := ""
	for _, cs := range asm {
		got += fmt.Sprintf("%s when %s; ", cs.val, cs.cond)
	}
	c.Check(R, "aztec.bitsToWords/bit", wphi.Pos(), matches(formA) || matches(formB) || matches(formB2), "bit j of the word from the top: word | 1<<(wordSize-1-j) when set (or word = 2*word + bit)", got)
	for _, ret := range returnsOf(fn) {
		ok := ret.Results[0] == ssa.Value(mk)
		if appended {
			ok = true
			// every source of the returned value is the empty make extended by the appends
			seen := map[ssa.Value]bool{}
			var walk func(v ssa.Value)
			walk = func(v ssa.Value) {
				if seen[v] {
					return
				}
				seen[v] = true
				switch x := v.(type) {
				case *ssa.Phi:
					for _, e := range x.Edges {
						walk(e)
					}
				case *ssa.Call:
					if bi, isB := x.Common().Value.(*ssa.Builtin); isB && bi.Name() == "append" {
						walk(x.Common().Args[0])
						return
					}
					ok = false
				case *ssa.MakeSlice:
					if x != mk {
						ok = false
					}
				default:
					ok = false
				}
			}
			walk(ret.Results[0])
		}
		c.Check(R, "aztec.bitsToWords/result", ret.Pos(), ok, "the word slice", n.Norm(ret.Results[0]).String())
	}
}

// samePhiWeb: a and b are connected through phis and +1 steps (the same counter).
func samePhiWeb(a, b ssa.Value) bool {
	seen := map[ssa.Value]bool{}
	var walk func(x ssa.Value) bool
	walk = func(x ssa.Value) bool {
		if x == b {
			return true
		}
		if seen[x] {
			return false
		}
		seen[x] = true
		switch y := x.(type) {
		case *ssa.Phi:
			for _, e := range y.Edges {
				if walk(e) {
					return true
				}
			}
		case *ssa.BinOp:
			if y.Op == token.ADD {
				return walk(y.X)
			}
		}
		return false
	}
	return walk(a)
}

// loopEntry: the block from which a loop is entered - the header of a top-tested loop, the block with
// the entry test of a bottom-tested one.
func loopEntry(hdr *ssa.BasicBlock) *ssa.BasicBlock {
	if rot, ok := rotatedLoop(hdr); ok {
		return rot.pre
	}
	return hdr
}

// B6: drawing of 2-of-5 symbols.
func ruleTwoOfFiveAssembly(c *Ctx) {
	const R = "B6-2OF5-ASSEMBLY"
	c.Doc(R, "twooffive.EncodeWithColor: the start pattern of the variant first, its end pattern last; for every rune of the content, in order and without leaving the loop early (other than by the error return): standard - the rune's pattern in the bars with narrow spaces (nonInterleavedSpace); interleaved - every second rune draws the previous rune's pattern in the bars and its own in the spaces; a drawing is five bar/space pairs, bar i as wide as widths[a[i]] and space i as wide as widths[b[i]]; a rune missing from the table is an error")
	c.Floor(R, 10)
	fn := c.theFunc(R, "twooffive.EncodeWithColor")
	if fn == nil || len(fn.Params) != 3 {
		return
	}
	n := NewNormer(c.P)
	n.BindParams(fn, "content", "interleaved", "color")
	addBit := c.P.Func("utils.(*BitList).AddBit")
	// the rune loop
	var hdr *ssa.BasicBlock
	var runeV ssa.Value
	for _, b := range fn.Blocks {
		for _, ins := range b.Instrs {
			if nx, ok := ins.(*ssa.Next); ok && nx.IsString {
				if n.Norm(rangeSubject(nx)).String() == "content" {
					hdr = b
					for _, r := range *nx.Referrers() {
						if ex, ok := r.(*ssa.Extract); ok && ex.Index == 2 {
							runeV = ex
						}
					}
				}
			}
		}
	}
	if hdr == nil || runeV == nil {
		c.Undecided(R, "twooffive.EncodeWithColor/runes", fn.Pos(), "no range over the runes of the content")
		return
	}
	n.Bind[runeV] = "r"
	body := hdr.Succs[0]
	// bars and spaces: AddBit of one constant module inside a loop over the element's width inside a
	// loop over the five elements - here or in unexported helpers (the quantities then arrive as
	// parameters and are read in the calling context)
	type unit struct {
		call   *ssa.Call
		bit    string
		xh, ih *ssa.BasicBlock
		width  string       // the loop bound of the module loop, pattern named A
		wcases [2][]valCase // ... and its alternatives per variant (0 standard, 1 interleaved), by the element's value
		base   ssa.Value    // the pattern, as a value of EncodeWithColor
		path   []int        // field of a struct local, if the pattern is one
		at     ssa.Instruction
	}
	var units []unit
	var ii ssa.Value
	for _, site := range c.P.deepCallsTo(fn, addBit) {
		call := site.Ins.(*ssa.Call)
		el := variadicElems(call.Common().Args[1])
		if len(el) != 1 || el[0] == nil {
			continue
		}
		var top ssa.Instruction = call
		if len(site.Path) > 0 {
			top = site.Path[0]
		}
		if !inLoopBody(hdr, top.Block()) {
			continue
		}
		n.Ctx = site.Path
		bc := n.CondOf(el[0])
		n.Ctx = nil
		bit := ""
		switch bc.Kind {
		case CTrue:
			bit = "1"
		case CFalse:
			bit = "0"
		default:
			c.Check(R, "twooffive.EncodeWithColor/module@"+c.P.Pos(call.Pos()), call.Pos(), false, "a bar module or a space module", bc.String())
			continue
		}
		type frame struct {
			f   *ssa.Function
			ins ssa.Instruction
			ctx []ssa.CallInstruction
		}
		var frames []frame
		for k := 0; k <= len(site.Path); k++ {
			var ins ssa.Instruction = call
			if k < len(site.Path) {
				ins = site.Path[k]
			}
			frames = append(frames, frame{ins.Parent(), ins, site.Path[:k]})
		}
		type lp struct {
			h *ssa.BasicBlock
			k int
		}
		var loops []lp
		for k := len(frames) - 1; k >= 0; k-- {
			for h := enclosingLoopHeader(frames[k].ins.Block()); h != nil; {
				if frames[k].f == fn && h == hdr {
					break
				}
				loops = append(loops, lp{h, k})
				var nh *ssa.BasicBlock
				if e := loopEntry(h); e != h {
					nh = enclosingLoopHeader(e) // the entry test of a bottom-tested loop sits in the enclosing loop's body
				} else if h.Idom() != nil {
					nh = enclosingLoopHeader(h.Idom())
				}
				if nh == h {
					break
				}
				h = nh
			}
		}
		if len(loops) != 2 {
			c.Check(R, "twooffive.EncodeWithColor/module-loop@"+c.P.Pos(call.Pos()), call.Pos(), false, "modules are appended in a loop over the element's width inside a loop over the five elements", fmt.Sprintf("%d loops", len(loops)))
			continue
		}
		xh, ih := loops[0], loops[1]
		xi, _, xinit, okx := loopIndex(xh.h)
		iv, _, _, oki := loopIndex(ih.h)
		var bound ssa.Value
		if !okx && oki {
			// a run counted down: `for ; n > 0; n--` appends n modules
			bound = countdownFrom(xh.h)
			okx, xinit = bound != nil, 0
		}
		if !okx || !oki || xinit != 0 {
			c.Undecided(R, "twooffive.EncodeWithColor/module-loop@"+c.P.Pos(call.Pos()), call.Pos(), "not counting loops from 0")
			continue
		}
		if bound == nil {
			bound = loopBoundValue(xh.h, xi)
			if rot, isRot := rotatedLoop(xh.h); isRot {
				bound = loopBoundValue(rot.latch, rot.next)
			}
		}
		if bound == nil {
			c.Undecided(R, "twooffive.EncodeWithColor/module-loop@"+c.P.Pos(call.Pos()), call.Pos(), "bound of the module loop not found")
			continue
		}
		n.Bind[iv] = "i"
		ii = iv
		n.Ctx = frames[xh.k].ctx
		v, vfn := n.throughParams(bound, frames[xh.k].f)
		// the pattern whose element i decides the width
		var base ssa.Value
		var walk func(x ssa.Value, d int)
		walk = func(x ssa.Value, d int) {
			if d > 4 || base != nil {
				return
			}
			switch y := x.(type) {
			case *ssa.UnOp:
				if ia, ok := y.X.(*ssa.IndexAddr); ok && ia.Index == iv {
					base = ia.X
					return
				}
				walk(y.X, d+1)
			case *ssa.Index:
				if y.Index == iv {
					base = y.X
					return
				}
				walk(y.X, d+1)
				walk(y.Index, d+1)
			case *ssa.Lookup:
				walk(y.Index, d+1)
			case *ssa.Convert:
				walk(y.X, d+1)
			case *ssa.Call:
				for _, a := range y.Common().Args {
					walk(a, d+1)
				}
			case *ssa.Parameter:
				// the element itself is handed over
				if arg, _, ok := n.paramArg(y); ok {
					walk(arg, d+1)
				}
			}
		}
		walk(v, 0)
		exprBase := base
		var fieldPath []int
		if fa, ok := base.(*ssa.FieldAddr); ok {
			// the pattern is a field of a small struct that carries both
			if al, ok := fa.X.(*ssa.Alloc); ok {
				base, fieldPath = al, []int{fa.Field}
			}
		}
		// an array parameter is copied into a local of the helper first
		if al, ok := base.(*ssa.Alloc); ok && al.Parent() != fn {
			var src ssa.Value
			cnt := 0
			for _, r := range *al.Referrers() {
				if st, ok := r.(*ssa.Store); ok && st.Addr == ssa.Value(al) {
					src = st.Val
					cnt++
				}
			}
			if _, isP := src.(*ssa.Parameter); isP && cnt == 1 {
				base = src
			}
		}
		if base == nil {
			c.Check(R, "twooffive.EncodeWithColor/widths@"+c.P.Pos(call.Pos()), call.Pos(), false, "the width of element i of a pattern", n.Norm(v).String())
			n.Ctx = nil
			continue
		}
		old, had := n.Bind[base]
		n.Bind[base] = "A"
		w := canonAccess(n.Norm(v).String())
		if r, pth, ok := n.addrPath(exprBase); ok {
			w = strings.Replace(w, r+pth+"[i]", "A[i]", 1)
		}
		var wcases [2][]valCase
		if ilP := boolParam(fn); ilP != nil {
			savedFold := n.FoldTables
			n.FoldTables = true
			elemName := ""
			if r, pth, ok := n.addrPath(exprBase); ok {
				elemName = r + pth + "[i]"
			}
			ilName, ilBound := n.Bind[ilP]
			delete(n.Bind, ilP) // the flag takes its two values in turn
			for b := int64(0); b < 2; b++ {
				n.env = append(n.env, map[ssa.Value]Poly{ilP: pConst(b)})
				for _, cs := range n.valueCases(vfn, nil, v, 0) {
					wcases[b] = append(wcases[b], valCase{cs.val, renameBool(cs.cond, elemName, "A[i]")})
				}
				n.env = n.env[:len(n.env)-1]
			}
			if ilBound {
				n.Bind[ilP] = ilName
			}
			n.FoldTables = savedFold
		}
		if had {
			n.Bind[base] = old
		} else {
			delete(n.Bind, base)
		}
		rootBase, _ := n.throughParams(base, vfn)
		n.Ctx = nil
		u := unit{call: call, bit: bit, xh: xh.h, ih: ih.h, width: w, wcases: wcases, base: rootBase, path: fieldPath}
		if ld, ok := rootBase.(*ssa.UnOp); ok && ld.Op == token.MUL {
			u.base, u.at = ld.X, ld // the array is handed over by value: read here
		} else if ih.k == 0 {
			for _, p := range ih.h.Preds {
				if !ih.h.Dominates(p) {
					u.at = p.Instrs[len(p.Instrs)-1]
				}
			}
		}
		units = append(units, u)
	}
	if len(units) != 2 || units[0].bit == units[1].bit || units[0].ih != units[1].ih {
		c.Check(R, "twooffive.EncodeWithColor/drawing", fn.Pos(), false, "one bar loop and one space loop inside one loop over the five elements, inside the rune loop", fmt.Sprintf("%d module loops", len(units)))
		return
	}
	bar, space := units[0], units[1]
	if bar.bit != "1" {
		bar, space = space, bar
	}
	ih := bar.ih
	_, _, iinit, _ := loopIndex(ih)
	c.Check(R, "twooffive.EncodeWithColor/elements-start", ih.Instrs[0].Pos(), iinit == 0, "0", fmt.Sprint(iinit))
	c.expectCond(R, "twooffive.EncodeWithColor/elements", ih.Instrs[0].Pos(), n.LoopCond(ih), "i < 5")
	// order inside one element: bar first
	order := false
	if bar.xh.Parent() == space.xh.Parent() && bar.xh != space.xh {
		ex := loopExitBlock(bar.xh)
		order = ex != nil && ex.Dominates(space.xh) && inLoopBody(ih, loopEntry(space.xh))
	} else {
		// the module loop is shared (a helper called twice): the calls in the element loop's frame
		var cb, cs ssa.Instruction
		for _, site := range c.P.deepCallsTo(fn, addBit) {
			for _, pc := range site.Path {
				if inLoopBody(ih, pc.Block()) && pc.Parent() == ih.Parent() {
					n.Ctx = site.Path
					el := variadicElems(site.Ins.(*ssa.Call).Common().Args[1])
					if len(el) == 1 && el[0] != nil {
						switch n.CondOf(el[0]).Kind {
						case CTrue:
							cb = pc
						case CFalse:
							cs = pc
						}
					}
					n.Ctx = nil
				}
			}
		}
		order = cb != nil && cs != nil && cb != cs && dominatesInstr(cb, cs)
	}
	c.Check(R, "twooffive.EncodeWithColor/bar-then-space", bar.call.Pos(), order, "the bar of element i is followed by its space", fmt.Sprint(order))
	A, B := bar.base, space.base
	wa, wb := bar.width, space.width
	if A == nil || B == nil || (A == B && samePath(bar.path, space.path)) {
		c.Check(R, "twooffive.EncodeWithColor/widths", fn.Pos(), false, "bar widths from element i of one pattern, space widths from element i of the other", fmt.Sprintf("%s / %s (patterns %v %v, read at %v %v)", wa, wb, A, B, bar.at, space.at))
		return
	}
	c.Check(R, "twooffive.EncodeWithColor/widths", bar.call.Pos(), wa == wb && strings.Contains(wa, "A[i]"), "the same width rule applied to a[i] and b[i]", wa+" / "+wb)
	// the width as a function of (variant, element value): 1 module for a narrow element, 2 or 3 for a
	// wide one, in both variants - however the table is laid out
	semOK := true
	semWhy := ""
	for _, u := range []unit{bar, space} {
		for b := 0; b < 2; b++ {
			narrow, wide := cFalse, cFalse
			for _, cs := range u.wcases[b] {
				k, isK := cs.val.IsConst()
				switch {
				case isK && k == 1:
					narrow = cOr(narrow, cs.cond)
				case isK && (k == 2 || k == 3):
					wide = cOr(wide, cs.cond)
				default:
					semOK, semWhy = false, semWhy+fmt.Sprintf(" variant %d: width %s when %s;", b, cs.val, cs.cond)
				}
			}
			elem := &Cond{Kind: CBool, Name: "A[i]"}
			if eq, _ := CondEquivalent(narrow, cNot(elem)); !eq {
				semOK, semWhy = false, semWhy+fmt.Sprintf(" variant %d: one module when %s;", b, narrow)
			}
			if eq, _ := CondEquivalent(wide, elem); !eq {
				semOK, semWhy = false, semWhy+fmt.Sprintf(" variant %d: two or three modules when %s;", b, wide)
			}
		}
	}
	c.Check(R, "twooffive.EncodeWithColor/width-rule", bar.call.Pos(), semOK, "1 module for a narrow element, 2..3 for a wide one, in both variants", wa+" "+semWhy)
	_ = ii
	// the alternatives of a pattern: a local array written per variant (read where the drawing starts
	// or where it is handed to the helper), or a value selected per variant
	patternCases := func(u unit) ([]valCase, bool) {
		if al, ok := u.base.(*ssa.Alloc); ok {
			if u.at == nil {
				return nil, false
			}
			return n.cellCases(cellRef{al, u.path}, body, u.at)
		}
		if _, isArr := u.base.Type().Underlying().(*types.Array); isArr {
			return n.valueCases(fn, body, u.base, 0), true
		}
		return nil, false
	}
	casesA, ok1 := patternCases(bar)
	casesB, ok2 := patternCases(space)
	if !ok1 || !ok2 {
		c.Undecided(R, "twooffive.EncodeWithColor/patterns", fn.Pos(), "the patterns drawn are not decided by the stores of this iteration")
		return
	}
	const tbl = "idx(global:twooffive.encodingTable,"
	okR := &Cond{Kind: CBool, Name: tbl + "r)#1"}
	standard := cAnd(MustRefCond("!interleaved"), okR)
	var pairCond *Cond
	var pendingKey string
	for _, cs := range casesA {
		v := cs.val.String()
		switch {
		case v == tbl+"r)#0":
			c.expectCondC(R, "twooffive.EncodeWithColor/standard-bars", bar.call.Pos(), cs.cond, standard)
		case strings.HasPrefix(v, tbl) && strings.HasSuffix(v, ")#0"):
			pendingKey = v[len(tbl) : len(v)-3]
			pairCond = cs.cond
			okP := &Cond{Kind: CBool, Name: tbl + pendingKey + ")#1"}
			imp, _, w := CondRelation(cs.cond, cAnd(MustRefCond("interleaved"), cAnd(okP, okR)))
			c.Check(R, "twooffive.EncodeWithColor/interleaved-bars", bar.call.Pos(), imp, "the earlier rune's pattern, only in interleaved mode and only when both runes are in the table", cs.cond.String()+" "+w)
		default:
			c.Check(R, "twooffive.EncodeWithColor/bars-source", bar.call.Pos(), false, "a pattern of the encoding table", v)
		}
	}
	for _, cs := range casesB {
		v := cs.val.String()
		switch {
		case v == tbl+"r)#0":
			ok := pairCond != nil
			if ok {
				ok, _ = CondEquivalent(cs.cond, pairCond)
			}
			c.Check(R, "twooffive.EncodeWithColor/interleaved-spaces", space.call.Pos(), ok, "the current rune's pattern in the spaces exactly when the earlier rune's is in the bars", cs.cond.String())
		case v == "global:twooffive.nonInterleavedSpace":
			c.expectCondC(R, "twooffive.EncodeWithColor/standard-spaces", space.call.Pos(), cs.cond, standard)
		default:
			c.Check(R, "twooffive.EncodeWithColor/spaces-source", space.call.Pos(), false, "the current rune's pattern or nonInterleavedSpace", v)
		}
	}
	c.Check(R, "twooffive.EncodeWithColor/both-variants", fn.Pos(), len(casesA) == 2 && len(casesB) == 2 && pairCond != nil, "a standard and an interleaved way to fill bars and spaces", fmt.Sprint(len(casesA), len(casesB)))
	// the earlier rune: whatever holds it only ever receives the current rune
	if pairCond != nil {
		var pend ssa.Value
		eachInstr(fn, func(b *ssa.BasicBlock, ins ssa.Instruction) {
			if lk, ok := ins.(*ssa.Lookup); ok && lk.CommaOk && n.Norm(lk.Index).asAtom() == pendingKey && lk.Index != runeV {
				pend = lk.Index
			}
		})
		leaves, bad := 0, ""
		seen := map[ssa.Value]bool{}
		var walk func(v ssa.Value)
		walk = func(v ssa.Value) {
			if seen[v] {
				return
			}
			seen[v] = true
			switch x := v.(type) {
			case *ssa.Phi:
				for _, e := range x.Edges {
					walk(e)
				}
			case *ssa.UnOp:
				walk(x.X)
			case *ssa.Alloc:
				for _, r := range *x.Referrers() {
					if st, ok := r.(*ssa.Store); ok && st.Addr == ssa.Value(x) {
						walk(st.Val)
					}
				}
			case *ssa.Const:
			default:
				if v == runeV {
					leaves++
				} else {
					bad += n.Norm(v).String() + " "
				}
			}
		}
		if pend != nil {
			walk(pend)
		}
		c.Check(R, "twooffive.EncodeWithColor/earlier-rune", bar.call.Pos(), pend != nil && leaves > 0 && bad == "", "the remembered value is a rune of the content", orOK(bad))
	}
	// errors and exits of the rune loop
	for _, ret := range returnsOf(fn) {
		if !inLoopBody(hdr, ret.Block()) {
			continue
		}
		c.Check(R, "twooffive.EncodeWithColor/loop-exit@"+c.P.Pos(ret.Pos()), ret.Pos(), isNilConst(ret.Results[0]) && !isNilConst(ret.Results[1]), "the rune loop is left early only with an error", n.Norm(ret.Results[0]).String())
	}
	errStd := cFalse
	for _, ret := range returnsOf(fn) {
		if inLoopBody(hdr, ret.Block()) {
			errStd = cOr(errStd, cAnd(MustRefCond("!interleaved"), n.ReachCond(fn, body, ret.Block())))
		}
	}
	c.expectCondC(R, "twooffive.EncodeWithColor/standard-error-iff", fn.Pos(), errStd, cAnd(MustRefCond("!interleaved"), cNot(okR)))
	okExit := true
	eachInstr(fn, func(b *ssa.BasicBlock, ins ssa.Instruction) {
		if !inLoopBody(hdr, b) || b == hdr {
			return
		}
		if _, isRet := ins.(*ssa.Return); isRet {
			return
		}
		if ins == b.Instrs[len(b.Instrs)-1] {
			for _, s := range b.Succs {
				if s != hdr && !inLoopBody(hdr, s) {
					okExit = false // a break
				}
			}
		}
	})
	c.Check(R, "twooffive.EncodeWithColor/every-rune", hdr.Instrs[0].Pos(), okExit, "no break out of the rune loop", fmt.Sprint(okExit))
	// start and end pattern
	var start, end *ssa.Call
	for _, call := range callsTo(fn, addBit) {
		v := canonAccess(n.Norm(call.Common().Args[1]).String())
		switch {
		case strings.HasSuffix(v, ".start") && strings.Contains(v, "[interleaved]"):
			start = call
		case strings.HasSuffix(v, ".end") && strings.Contains(v, "[interleaved]"):
			end = call
		}
	}
	ex := loopExitBlock(hdr)
	okSE := start != nil && end != nil && start.Block().Dominates(hdr) && !inLoopBody(hdr, start.Block()) && ex != nil && ex.Dominates(end.Block())
	if okSE {
		e1, _ := CondEquivalent(n.ReachCond(fn, ex, end.Block()), cTrue)
		okSE = e1
	}
	c.Check(R, "twooffive.EncodeWithColor/start-end", fn.Pos(), okSE, "the variant's start pattern before the runes, its end pattern after them", fmt.Sprintf("start=%v end=%v", start != nil, end != nil))
}

func init() {
	register("C08", ruleTwoOfFiveAssembly)
}

// the constructors of the 1D image type, for the 1D properties that do not run the check-value rules
func rule1DConstructors(c *Ctx) {
	c.Doc("K5-CONTENT", "Content returns the stored content; encoders store the text they were given (EAN: the completed code; Code 39/93: the prepared string)")
	for _, name := range []string{"utils.New1DCodeIntCheckSum", "utils.New1DCodeIntCheckSumWithColor", "utils.New1DCode", "utils.New1DCodeWithColor"} {
		fn := c.theFunc("K5-CONTENT", name)
		if fn == nil {
			continue
		}
		n := NewNormer(c.P)
		if strings.Contains(name, "CheckSum") {
			n.BindParams(fn, "kind", "content", "bars", "checksum", "color")
		} else {
			n.BindParams(fn, "kind", "content", "bars", "color")
		}
		got := ctorFields(n, fn, 0)
		c.Check("K5-CONTENT", name+"/fields", fn.Pos(), got["kind"] == "kind" && got["content"] == "content" && got["BitList"] == "bars", "kind, content and bars stored from the parameters of those names", fmt.Sprint(got))
	}
}

func init() {
	register("C05", rule1DConstructors)
	register("C06", rule1DConstructors)
	register("C08", rule1DConstructors)
}

// Q16: data placement and mask selection in qr.render.
func ruleQRRender(c *Ctx) {
	const R = "Q16-QR-RENDER"
	c.Doc(R, "qr.render: the n-th module position delivered by iterateModules (n = 0, 1, ...) receives bit 7 - n%8 of data[n/8] while n < 8*len(data) and 0 afterwards; for every mask m = 0..7 that bit is written through setMasked(x, y, bit, m, results[m].Set) - mask number and candidate symbol belong together - and candidate m carries the format information of mask m (drawFormatInfo(vi, m, results[m].Set)); the symbol returned is the candidate whose penalty is the smallest seen")
	c.Floor(R, 9)
	fn := c.theFunc(R, "qr.render")
	if fn == nil || len(fn.Params) != 3 {
		return
	}
	n := NewNormer(c.P)
	n.BindParams(fn, "data", "vi", "color")
	// the candidates: the slice of symbols made here
	var results ssa.Value
	count := int64(-1)
	isCand := func(t types.Type) bool {
		ts := typeShort(t)
		return strings.HasPrefix(ts, "[]*") && strings.HasSuffix(ts, "qrcode")
	}
	eachInstr(fn, func(b *ssa.BasicBlock, ins ssa.Instruction) {
		switch m := ins.(type) {
		case *ssa.MakeSlice:
			if isCand(m.Type()) {
				results = m
				if k, isK := n.Norm(m.Len).IsConst(); isK {
					count = k
				}
			}
		case *ssa.Slice:
			// make with a constant size: a slice of a new array
			if al, ok := m.X.(*ssa.Alloc); ok && isCand(m.Type()) && m.Low == nil {
				if at, ok := al.Type().Underlying().(*types.Pointer).Elem().Underlying().(*types.Array); ok {
					results, count = m, at.Len()
				}
			}
		}
	})
	if results == nil {
		c.Undecided(R, "qr.render/candidates", fn.Pos(), "no list of candidate symbols")
		return
	}
	n.Bind[results] = "results"
	c.Check(R, "qr.render/candidates", results.Pos(), count == 8, "8 candidates", fmt.Sprint(count))
	// boundSet: v is results[m].Set for the loop index m of the enclosing counting loop
	boundSet := func(v ssa.Value, at *ssa.BasicBlock) (string, bool) {
		mc, ok := v.(*ssa.MakeClosure)
		if !ok || len(mc.Bindings) != 1 || !strings.Contains(mc.Fn.(*ssa.Function).Synthetic, "bound method") || !strings.HasSuffix(mc.Fn.Name(), "Set$bound") {
			return n.Norm(v).String(), false
		}
		return canonAccess(n.Norm(mc.Bindings[0]).String()), true
	}
	maskLoop := func(call *ssa.Call, key string) (ssa.Value, bool) {
		h := enclosingLoopHeader(call.Block())
		if h == nil {
			c.Check(R, key+"-loop", call.Pos(), false, "inside a loop over the masks", "no loop")
			return nil, false
		}
		idx, _, init, ok := loopIndex(h)
		if !ok {
			c.Undecided(R, key+"-loop", call.Pos(), "not a counting loop")
			return nil, false
		}
		old, had := n.Bind[idx]
		n.Bind[idx] = "m"
		eqW, _ := CondEquivalent(n.LoopCond(h), MustRefCond("m < 8"))
		if !eqW && count == 8 {
			eqW, _ = CondEquivalent(n.LoopCond(h), MustRefCond("m < len(results)"))
		}
		eqA, _ := CondEquivalent(n.ReachCond(fn, n.BodyStart(h), call.Block()), cTrue)
		c.Check(R, key+"-loop", call.Pos(), init == 0 && eqW && eqA && loopExitsOnlyAtHeader(h), "for every mask m = 0..7", fmt.Sprintf("from %d while %s", init, n.LoopCond(h)))
		if had {
			n.Bind[idx] = old
		} else {
			delete(n.Bind, idx)
		}
		return idx, true
	}
	// format information per candidate
	fmtCalls := 0
	for _, call := range callsTo(fn, c.P.Func("qr.drawFormatInfo")) {
		a := call.Common().Args
		// the mask number is the parameter that indexes the format words in drawFormatInfo (Q7); here:
		// the int argument that is -1 for the reservation; the marking function is the func argument
		reserve := false
		var setArg ssa.Value
		for _, x := range a {
			if k, isK := n.Norm(x).IsConst(); isK && k == -1 {
				reserve = true
			}
			if _, isFn := x.Type().Underlying().(*types.Signature); isFn {
				setArg = x
			}
		}
		if reserve {
			continue // the reservation in the occupancy map
		}
		fmtCalls++
		idx, ok := maskLoop(call, "qr.render/format")
		if !ok || setArg == nil {
			continue
		}
		n.Bind[idx] = "m"
		masks := 0
		for _, x := range a {
			if isIntType(x.Type()) && n.Norm(x).String() == "m" {
				masks++
			}
		}
		set, isSet := boundSet(setArg, call.Block())
		c.Check(R, "qr.render/format-mask", call.Pos(), masks == 1 && isSet && set == "results[m]", "drawFormatInfo(.., m, results[m].Set)", fmt.Sprintf("%d mask arguments, %s.Set", masks, set))
		delete(n.Bind, idx)
	}
	c.Check(R, "qr.render/format-sites", fn.Pos(), fmtCalls == 1, "one format-information call for the candidates", fmt.Sprint(fmtCalls))
	// data bits
	sm := callsTo(fn, c.P.Func("qr.setMasked"))
	if len(sm) != 1 {
		c.Check(R, "qr.render/data-sites", fn.Pos(), false, "one setMasked call", fmt.Sprint(len(sm)))
		return
	}
	call := sm[0]
	a := call.Common().Args
	idx, ok := maskLoop(call, "qr.render/data")
	if !ok {
		return
	}
	n.Bind[idx] = "m"
	set, isSet := boundSet(a[4], call.Block())
	c.Check(R, "qr.render/data-mask", call.Pos(), n.Norm(a[3]).String() == "m" && isSet && set == "results[m]", "setMasked(.., m, results[m].Set)", fmt.Sprintf("(%s, %s.Set)", n.Norm(a[3]), set))
	delete(n.Bind, idx)
	// the module position: X and Y of what the position channel delivered
	var recvLoop *ssa.BasicBlock
	var pos ssa.Value
	for _, b := range fn.Blocks {
		for _, ins := range b.Instrs {
			if u, ok := ins.(*ssa.UnOp); ok && u.Op == token.ARROW && u.CommaOk && isLoopHeader(b) {
				if src, ok := u.X.(*ssa.Call); ok && calleeOf(src) != nil && c.P.FuncName(calleeOf(src)) == "qr.iterateModules" {
					recvLoop = b
					for _, r := range *u.Referrers() {
						if ex, ok := r.(*ssa.Extract); ok && ex.Index == 0 {
							pos = ex
						}
					}
				}
			}
		}
	}
	if recvLoop == nil || pos == nil || !inLoopBody(recvLoop, call.Block()) {
		c.Check(R, "qr.render/positions", call.Pos(), false, "data modules are placed in a range over iterateModules(occupied)", "not found")
		return
	}
	n.Bind[pos] = "pos"
	xy := fmt.Sprintf("(%s, %s)", n.Norm(a[0]), n.Norm(a[1]))
	c.Check(R, "qr.render/position", call.Pos(), xy == "(pos.X, pos.Y)", "(pos.X, pos.Y)", xy)
	// the bit counter
	var nphi *ssa.Phi
	for _, ins := range recvLoop.Instrs {
		if p, ok := ins.(*ssa.Phi); ok && isIntType(p.Type()) {
			for ei, e := range p.Edges {
				if !recvLoop.Dominates(recvLoop.Preds[ei]) {
					if k, isK := constInt(e); isK && k == 0 {
						nphi = p
					}
				}
			}
		}
	}
	if nphi == nil {
		c.Undecided(R, "qr.render/bit-number", call.Pos(), "no bit counter starting at 0 in the position loop")
		return
	}
	n.Bind[nphi] = "n"
	okStep := true
	for ei, e := range nphi.Edges {
		if recvLoop.Dominates(recvLoop.Preds[ei]) && !pEqual(n.Norm(e), MustRef("n + 1")) {
			okStep = false
		}
	}
	c.Check(R, "qr.render/bit-number", nphi.Pos(), okStep, "one bit per module position", "other step")
	body := recvLoop.Succs[0]
	bitC := cFalse
	for _, cs := range n.condCases(fn, body, a[2]) {
		bitC = cOr(bitC, cs)
	}
	want := cAnd(MustRefCond("n < 8*len(data)"), cmpCond(token.EQL, pAtom("And(1,Shr(data[Div(n,8)],"+MustRef("7 - n%8").String()+"))"), pConst(1)))
	c.expectCondC(R, "qr.render/data-bit", call.Pos(), cAnd(n.ReachCond(fn, body, call.Block()), bitC), want)
	// selection
	pen := callsTo(fn, c.P.Func("qr.(*qrcode).calcPenalty"))
	if len(pen) != 1 || enclosingLoopHeader(pen[0].Block()) == nil {
		c.Check(R, "qr.render/selection", fn.Pos(), false, "one penalty evaluation per candidate", fmt.Sprint(len(pen)))
		return
	}
	sh := enclosingLoopHeader(pen[0].Block())
	kidx, _, kinit, okK := loopIndex(sh)
	if !okK {
		c.Undecided(R, "qr.render/selection", pen[0].Pos(), "not a counting loop")
		return
	}
	n.Bind[kidx] = "k"
	eqW, _ := CondEquivalent(n.LoopCond(sh), MustRefCond("k < 8"))
	if !eqW && count == 8 {
		eqW, _ = CondEquivalent(n.LoopCond(sh), MustRefCond("k < len(results)"))
	}
	c.Check(R, "qr.render/selection-all", pen[0].Pos(), kinit == 0 && eqW && loopExitsOnlyAtHeader(sh), "every candidate k = 0..7 is scored", n.LoopCond(sh).String())
	c.Check(R, "qr.render/selection-subject", pen[0].Pos(), canonAccess(n.Norm(pen[0].Common().Args[0]).String()) == "results[k]", "results[k]", n.Norm(pen[0].Common().Args[0]).String())
	n.Bind[pen[0]] = "p"
	for _, ret := range returnsOf(fn) {
		ld, ok := ret.Results[0].(*ssa.UnOp)
		var ia *ssa.IndexAddr
		if ok {
			ia, _ = ld.X.(*ssa.IndexAddr)
		}
		if ia == nil || n.Norm(ia.X).String() != "results" {
			c.Check(R, "qr.render/result", ret.Pos(), false, "one of the candidates", n.Norm(ret.Results[0]).String())
			continue
		}
		// the index: the loop's record of the best candidate so far
		best, _ := ia.Index.(*ssa.Phi)
		if best == nil || best.Block() != sh {
			c.Check(R, "qr.render/result", ret.Pos(), false, "results[best] with best updated in the scoring loop", n.Norm(ia.Index).String())
			continue
		}
		var low *ssa.Phi
		for _, ins := range sh.Instrs {
			if p, ok := ins.(*ssa.Phi); ok && p != best && p != kidx && !isIntType(p.Type()) == false && typeShort(p.Type()) == typeShort(pen[0].Type()) {
				low = p
			}
		}
		if low == nil {
			c.Undecided(R, "qr.render/result", ret.Pos(), "no record of the lowest penalty")
			continue
		}
		n.Bind[best], n.Bind[low] = "best", "low"
		bodyS := n.BodyStart(sh)
		okSel := false
		why := ""
		var bc, lc []valCase
		for ei := range best.Edges {
			pred := sh.Preds[ei]
			if !sh.Dominates(pred) {
				continue
			}
			edge := cAnd(n.ReachCond(fn, bodyS, pred), n.EdgeCond(pred, sh))
			for _, cs := range n.valueCases(fn, bodyS, best.Edges[ei], 0) {
				bc = append(bc, valCase{cs.val, cAnd(edge, cs.cond)})
			}
			for _, cs := range n.valueCases(fn, bodyS, low.Edges[ei], 0) {
				lc = append(lc, valCase{cs.val, cAnd(edge, cs.cond)})
			}
		}
		bc, lc = mergeCases(bc), mergeCases(lc)
		for _, strict := range []string{"p < low", "p <= low"} {
			tk := MustRefCond(strict)
			ok := len(bc) == 2 && len(lc) == 2
			for _, cs := range bc {
				switch cs.val.String() {
				case "k":
					if eq, _ := CondEquivalent(cs.cond, tk); !eq {
						ok = false
					}
				case "best":
					if eq, _ := CondEquivalent(cs.cond, cNot(tk)); !eq {
						ok = false
					}
				default:
					ok = false
				}
			}
			for _, cs := range lc {
				switch cs.val.String() {
				case "p":
					if eq, _ := CondEquivalent(cs.cond, tk); !eq {
						ok = false
					}
				case "low":
					if eq, _ := CondEquivalent(cs.cond, cNot(tk)); !eq {
						ok = false
					}
				default:
					ok = false
				}
			}
			if ok {
				okSel = true
			}
		}
		if !okSel {
			why = fmt.Sprintf("best: %d alternatives, low: %d alternatives", len(bc), len(lc))
			for _, cs := range append(bc, lc...) {
				why += fmt.Sprintf("; %s when %s", cs.val, cs.cond)
			}
		}
		c.Check(R, "qr.render/result", ret.Pos(), okSel, "results[best]; best := k and low := p exactly when p is lower than low", why)
	}
}

// condCases: the conditions under which the boolean v is true, one per alternative of its definition.
func (n *Normer) condCases(fn *ssa.Function, from *ssa.BasicBlock, v ssa.Value) []*Cond {
	if phi, ok := v.(*ssa.Phi); ok && !isLoopHeader(phi.Block()) {
		var out []*Cond
		for ei, e := range phi.Edges {
			pred := phi.Block().Preds[ei]
			edge := cAnd(n.ReachCond(fn, from, pred), n.EdgeCond(pred, phi.Block()))
			for _, sub := range n.condCases(fn, from, e) {
				out = append(out, cAnd(edge, sub))
			}
		}
		return out
	}
	return []*Cond{n.CondOf(v)}
}

func init() {
	register("C01", ruleQRRender)
	register("C12", ruleQRRender)
}

// P14: how far a PDF417 compaction segment reaches.
func rulePDFSegments(c *Ctx) {
	const R = "P14-PDF-SEGMENTS"
	c.Doc(R, "pdf417 segment scans: determineConsecutiveDigitCount = length of the leading run of ASCII digits (utils.RuneToInt(r) >= 0 - not a Unicode digit class); determineConsecutiveTextCount stops at the first position where a run of >= 13 digits starts or where a non-text character stands (no digit run and !isText); determineConsecutiveBinaryCount stops where a run of >= 13 digits or of > 5 text characters starts; each returns the number of positions passed before the stop")
	c.Floor(R, 6)
	type scan struct {
		fn   *ssa.Function
		hdr  *ssa.BasicBlock
		idx  ssa.Value
		elem ssa.Value
		n    *Normer
	}
	open := func(name string) *scan {
		fn := c.theFunc(R, name)
		if fn == nil || len(fn.Params) != 1 {
			return nil
		}
		n := NewNormer(c.P)
		n.BindParams(fn, "msg")
		n.NoInline["pdf417.determineConsecutiveDigitCount"], n.NoInline["pdf417.determineConsecutiveTextCount"], n.NoInline["utils.RuneToInt"] = true, true, true
		s := &scan{fn: fn, n: n}
		// the position: the variable the header test compares with the length (the count that is returned
		// may be a second variable that also goes up by one)
		for _, b := range fn.Blocks {
			if !isLoopHeader(b) || s.hdr != nil {
				continue
			}
			iff, ok := b.Instrs[len(b.Instrs)-1].(*ssa.If)
			if !ok {
				continue
			}
			bo, ok := iff.Cond.(*ssa.BinOp)
			if !ok || bo.Op != token.LSS {
				continue
			}
			switch x := bo.X.(type) {
			case *ssa.Phi:
				if x.Block() == b && counterFromZero(x, 0) {
					s.hdr, s.idx = b, x
				}
			case *ssa.BinOp:
				// range loops: the index is phi+1 with phi starting at -1
				if p, isPhi := x.X.(*ssa.Phi); isPhi && p.Block() == b && x.Op == token.ADD {
					if k, isK := constInt(x.Y); isK && k == 1 {
						for ei, e := range p.Edges {
							if !b.Dominates(b.Preds[ei]) {
								if k0, isK0 := constInt(e); isK0 && k0 == -1 {
									s.hdr, s.idx = b, x
								}
							}
						}
					}
				}
			}
		}
		if s.hdr == nil {
			c.Undecided(R, name+"/scan", fn.Pos(), "no loop over the positions of the input from 0")
			return nil
		}
		n.Bind[s.idx] = "i"
		eachInstr(fn, func(b *ssa.BasicBlock, ins ssa.Instruction) {
			if ld, ok := ins.(*ssa.UnOp); ok {
				if ia, ok := ld.X.(*ssa.IndexAddr); ok && ia.X == ssa.Value(fn.Params[0]) && ia.Index == s.idx {
					s.elem = ld
				}
			}
		})
		if s.elem != nil {
			n.Bind[s.elem] = "ch"
		}
		eq, _ := CondEquivalent(n.LoopCond(s.hdr), MustRefCond("i < len(msg)"))
		c.Check(R, name+"/all-positions", s.hdr.Instrs[0].Pos(), eq, "i < len(msg)", n.LoopCond(s.hdr).String())
		return s
	}
	// the continue condition of an iteration and the count that is returned
	finish := func(name string, s *scan, want *Cond, dom *Cond) {
		n, fn := s.n, s.fn
		body := n.BodyStart(s.hdr)
		cont := cFalse
		for _, p := range s.hdr.Preds {
			if s.hdr.Dominates(p) {
				cont = cOr(cont, cAnd(n.ReachCond(fn, body, p), n.EdgeCond(p, s.hdr)))
			}
		}
		if dom != nil {
			cont, want = cAnd(dom, cont), cAnd(dom, want)
		}
		c.expectCondC(R, name+"/continue-iff", s.hdr.Instrs[0].Pos(), cont, want)
		for k, ret := range returnsOf(fn) {
			v := ret.Results[0]
			ok := false
			why := n.Norm(v).String()
			switch {
			case v == s.idx && inLoopBody(s.hdr, ret.Block()):
				ok = true // stopped at position i: i positions passed
			case pEqual(n.Norm(v), MustRef("len(msg)")) && !inLoopBody(s.hdr, ret.Block()):
				ok = true // every position passed
			default:
				// a counter that goes up by one with every position passed
				if p, isPhi := v.(*ssa.Phi); isPhi && counterFromZero(p, 0) {
					steps, every := 0, true
					eachInstr(fn, func(b *ssa.BasicBlock, ins ssa.Instruction) {
						bo, isB := ins.(*ssa.BinOp)
						if !isB || bo.Op != token.ADD || !samePhiWeb(bo.X, p) && bo.X != ssa.Value(p) {
							return
						}
						if kk, isK := constInt(bo.Y); !isK || kk != 1 {
							return
						}
						steps++
						for _, lp := range s.hdr.Preds {
							if s.hdr.Dominates(lp) && !b.Dominates(lp) {
								every = false
							}
						}
					})
					ok = steps == 1 && every
					why = fmt.Sprintf("counter with %d step(s), on every continued iteration: %v", steps, every)
				}
			}
			c.Check(R, fmt.Sprintf("%s/count#%d", name, k+1), ret.Pos(), ok, "the number of positions passed", why)
		}
	}
	if s := open("pdf417.determineConsecutiveDigitCount"); s != nil && s.elem != nil {
		var d *ssa.Call
		for _, call := range callsTo(s.fn, c.P.Func("utils.RuneToInt")) {
			if call.Common().Args[0] == s.elem {
				d = call
			}
		}
		if d != nil {
			s.n.Bind[d] = "d"
			finish("pdf417.determineConsecutiveDigitCount", s, MustRefCond("d >= 0"), MustRefCond("d >= -1"))
		} else {
			finish("pdf417.determineConsecutiveDigitCount", s, MustRefCond("ch >= 48 && ch <= 57"), nil)
		}
	}
	restRe := regexp.MustCompile(`^(Conv:[^()]*\()*slice\(msg,i,\)\)*$`)
	rest := func(s *scan, call *ssa.Call) bool {
		// the argument: the input from position i on (as runes, possibly converted from bytes, possibly
		// through a conversion helper)
		return restRe.MatchString(s.n.Norm(call.Common().Args[0]).String())
	}
	if s := open("pdf417.determineConsecutiveTextCount"); s != nil && s.elem != nil {
		okArgs := false
		for _, call := range callsTo(s.fn, c.P.Func("pdf417.determineConsecutiveDigitCount")) {
			if rest(s, call) {
				s.n.Bind[call] = "nc"
				okArgs = true
			}
		}
		c.Check(R, "pdf417.determineConsecutiveTextCount/digit-run", s.fn.Pos(), okArgs, "digit run measured from the current position", fmt.Sprint(okArgs))
		isText := MustRefCond("ch == 9 || ch == 10 || ch == 13 || (ch >= 32 && ch <= 126)")
		stop := cOr(MustRefCond("nc >= 13"), cAnd(MustRefCond("nc == 0"), cNot(isText)))
		finish("pdf417.determineConsecutiveTextCount", s, cNot(stop), MustRefCond("nc >= 0"))
	}
	if s := open("pdf417.determineConsecutiveBinaryCount"); s != nil {
		okN, okT := false, false
		for _, call := range callsTo(s.fn, c.P.Func("pdf417.determineConsecutiveDigitCount")) {
			if rest(s, call) {
				s.n.Bind[call] = "nc"
				okN = true
			}
		}
		for _, call := range callsTo(s.fn, c.P.Func("pdf417.determineConsecutiveTextCount")) {
			if rest(s, call) {
				s.n.Bind[call] = "tc"
				okT = true
			}
		}
		c.Check(R, "pdf417.determineConsecutiveBinaryCount/runs", s.fn.Pos(), okN && okT, "digit run and text run measured from the current position", fmt.Sprint(okN, okT))
		finish("pdf417.determineConsecutiveBinaryCount", s, MustRefCond("nc < 13 && tc <= 5"), nil)
	}
}

func init() {
	register("C04", rulePDFSegments)
	register("C10", rulePDFSegments)
}

// Q17: alignment patterns, finder patterns and timing patterns of the QR symbol.
func ruleQRPatterns(c *Ctx) {
	const R = "Q17-QR-PATTERNS"
	c.Doc(R, "qr.drawAlignmentPatterns: for every pair (x, y) of alignment positions a 5x5 pattern (ring and centre dark) is drawn around (x, y) exactly when module (x, y) is not yet occupied - the occupancy map decides, not the coordinates; qr.drawFinderPatterns: three 7x7 patterns with separator at (0,0), (0,dim-7), (dim-7,0), clipped to the symbol; timing: modules (i,6) and (6,i) alternate with i%2 == 0 dark wherever not occupied")
	c.Floor(R, 8)
	// a pattern drawer: nested loops over (dx, dy), a set call at (dx+xoff, dy+yoff) with a value formula
	type drawer struct {
		fn         *ssa.Function
		from, to   [2]int64 // loop ranges (inclusive from, exclusive to)
		val        *Cond
		guard      *Cond
		clip       *Cond // x+xoff, y+yoff inside 0..dim-1, in the drawer's own terms
		dim        Poly
		clipBound  ssa.Value
		okCoord    bool
		paramNames [2]string
		dom        *Cond  // the loops' own ranges
		offIdx     [2]int // positions of the two offsets among the parameters
	}
	analyse := func(cl *ssa.Function, key string) *drawer {
		if cl == nil || len(cl.Params) < 2 {
			c.Undecided(R, key+"/drawer", token.NoPos, "no routine that draws one pattern at an offset")
			return nil
		}
		n := NewNormer(c.P)
		var setCall *ssa.Call
		eachInstr(cl, func(b *ssa.BasicBlock, ins ssa.Instruction) {
			if call, ok := ins.(*ssa.Call); ok && call.Common().StaticCallee() == nil && len(call.Common().Args) == 3 {
				setCall = call
			}
		})
		if setCall == nil {
			c.Undecided(R, key+"/set", cl.Pos(), "no call of the marking function")
			return nil
		}
		inner := enclosingLoopHeader(setCall.Block())
		var outer *ssa.BasicBlock
		if inner != nil && inner.Idom() != nil {
			outer = enclosingLoopHeader(inner.Idom())
		}
		if inner == nil || outer == nil {
			c.Undecided(R, key+"/loops", setCall.Pos(), "not two nested loops")
			return nil
		}
		d := &drawer{fn: cl}
		xi, _, xinit, ok1 := loopIndex(outer)
		yi, _, yinit, ok2 := loopIndex(inner)
		if !ok1 || !ok2 {
			c.Undecided(R, key+"/loops", setCall.Pos(), "not counting loops")
			return nil
		}
		n.Bind[xi], n.Bind[yi] = "x", "y"
		// parameters by role: the two offsets are what is added to the loop variables in the marked
		// coordinates; another integer (parameter or captured variable) is the symbol dimension
		var ints []ssa.Value
		for _, p := range cl.Params {
			if isIntType(p.Type()) {
				ints = append(ints, p)
			}
		}
		for _, fv := range cl.FreeVars {
			if pt, ok := fv.Type().Underlying().(*types.Pointer); ok && isIntType(pt.Elem()) {
				continue // a captured variable cell: read through its loads
			}
			if isIntType(fv.Type()) {
				ints = append(ints, fv)
			}
		}
		for k, v := range ints {
			n.Bind[v] = fmt.Sprintf("p%d", k)
		}
		{
			a := setCall.Common().Args
			paramIdx := func(v ssa.Value) int {
				for pi, p := range cl.Params {
					if ssa.Value(p) == v {
						return pi
					}
				}
				return -1
			}
			d.offIdx = [2]int{-1, -1}
			for k, v := range ints {
				if pEqual(n.Norm(a[0]), MustRef(fmt.Sprintf("x + p%d", k))) {
					n.Bind[v] = "xoff"
					d.offIdx[0] = paramIdx(v)
				} else if pEqual(n.Norm(a[1]), MustRef(fmt.Sprintf("y + p%d", k))) {
					n.Bind[v] = "yoff"
					d.offIdx[1] = paramIdx(v)
				}
			}
			for _, v := range ints {
				if strings.HasPrefix(n.Bind[v], "p") {
					n.Bind[v] = "dim"
					d.clipBound = v
				}
			}
		}
		d.from = [2]int64{xinit, yinit}
		for k, h := range []*ssa.BasicBlock{outer, inner} {
			v := []string{"x", "y"}[k]
			for lim := int64(-3); lim < 12; lim++ {
				if eq, _ := CondEquivalent(n.LoopCond(h), MustRefCond(fmt.Sprintf("%s < %d", v, lim))); eq {
					d.to[k] = lim
				}
			}
		}
		a := setCall.Common().Args
		d.okCoord = pEqual(n.Norm(a[0]), MustRef("x + xoff")) && pEqual(n.Norm(a[1]), MustRef("y + yoff"))
		d.val = n.CondOf(a[2])
		// what decides whether a module of the pattern is marked: everything between the start of the
		// outer loop's body and the call (a clip test may skip a whole column before the inner loop) -
		// compared on the loops' own ranges
		dom := MustRefCond(fmt.Sprintf("x >= %d && x < %d && y >= %d && y < %d", d.from[0], d.to[0], d.from[1], d.to[1]))
		d.dom = dom
		d.guard = cAnd(dom, n.ReachCond(cl, n.BodyStart(outer), setCall.Block()))
		// the symbol's dimension: a parameter, a variable of the enclosing function, or a bound read
		// in the comparison itself
		dimP := pAtom("dim")
		if d.clipBound == nil {
			eachInstr(cl, func(b *ssa.BasicBlock, ins ssa.Instruction) {
				if bo, ok := ins.(*ssa.BinOp); ok && bo.Op == token.LSS && pEqual(n.Norm(bo.X), MustRef("x + xoff")) {
					dimP = n.Norm(bo.Y)
					d.clipBound = bo.Y
				}
			})
		}
		d.clip = cAnd(dom, cAnd(cAnd(cmpCond(token.GEQ, MustRef("x + xoff"), pConst(0)), cmpCond(token.LSS, MustRef("x + xoff"), dimP)), cAnd(cmpCond(token.GEQ, MustRef("y + yoff"), pConst(0)), cmpCond(token.LSS, MustRef("y + yoff"), dimP))))
		d.dim = dimP
		return d
	}
	// the routine that draws one pattern: a function literal or an unexported function called from fn
	// with the offset as its first two (int) arguments, which calls a marking function
	closureOf := func(fn *ssa.Function) *ssa.Function {
		var found *ssa.Function
		eachInstr(fn, func(b *ssa.BasicBlock, ins ssa.Instruction) {
			call, ok := ins.(*ssa.Call)
			if !ok || found != nil {
				return
			}
			cal := call.Common().StaticCallee()
			if cal == nil || !isRepoFunc(cal) || cal.Blocks == nil {
				return
			}
			nInts := 0
			for _, p := range cal.Params {
				if isIntType(p.Type()) {
					nInts++
				}
			}
			if nInts < 2 {
				return
			}
			if cal.Parent() == nil && (cal.Object() == nil || cal.Object().Exported()) {
				return
			}
			marks := false
			eachInstr(cal, func(b2 *ssa.BasicBlock, i2 ssa.Instruction) {
				if c2, ok := i2.(*ssa.Call); ok && c2.Common().StaticCallee() == nil && !c2.Common().IsInvoke() && len(c2.Common().Args) == 3 {
					marks = true
				}
			})
			if marks {
				found = cal
			}
		})
		return found
	}
	if fn := c.theFunc(R, "qr.drawAlignmentPatterns"); fn != nil {
		var occP, viP *ssa.Parameter
		for _, p := range fn.Params {
			switch namedTypeName(p.Type()) {
			case "qr.qrcode":
				occP = p
			case "qr.versionInfo":
				viP = p
			}
		}
		if occP == nil || viP == nil {
			c.Check(R, "qr.drawAlignmentPatterns/unless-occupied", fn.Pos(), false, "receives the occupancy map and the version row", c.P.FuncName(fn)+fn.Signature.String())
		} else if d := analyse(closureOf(fn), "qr.drawAlignmentPatterns"); d != nil {
			c.Check(R, "qr.drawAlignmentPatterns/extent", d.fn.Pos(), d.from == [2]int64{-2, -2} && d.to == [2]int64{3, 3} && d.okCoord, "dx, dy = -2..2 around the centre", fmt.Sprintf("from %v to %v", d.from, d.to))
			c.expectCondC(R, "qr.drawAlignmentPatterns/shape", d.fn.Pos(), d.val, MustRefCond("x == -2 || x == 2 || y == -2 || y == 2 || (x == 0 && y == 0)"))
			c.expectCondC(R, "qr.drawAlignmentPatterns/every-module", d.fn.Pos(), d.guard, d.dom)
			// the call: for all pairs of positions, unless occupied
			n := NewNormer(c.P)
			n.Bind[occP], n.Bind[viP] = "occupied", "vi"
			n.NoInline["qr.(*qrcode).Get"] = true
			var draw *ssa.Call
			eachInstr(fn, func(b *ssa.BasicBlock, ins ssa.Instruction) {
				if call, ok := ins.(*ssa.Call); ok && call.Common().StaticCallee() == d.fn {
					draw = call
				}
			})
			var posV ssa.Value
			for _, call := range callsTo(fn, c.P.Func("qr.(*versionInfo).alignmentPatternPlacements")) {
				if call.Common().Args[0] == ssa.Value(viP) {
					posV = call
				}
			}
			if draw == nil || posV == nil {
				c.Check(R, "qr.drawAlignmentPatterns/pairs", fn.Pos(), false, "the pattern drawn for the positions of this version", "no draw call / no positions")
			} else {
				n.Bind[posV] = "pos"
				inner := enclosingLoopHeader(draw.Block())
				var outer *ssa.BasicBlock
				if inner != nil && inner.Idom() != nil {
					outer = enclosingLoopHeader(inner.Idom())
				}
				if inner == nil || outer == nil {
					c.Check(R, "qr.drawAlignmentPatterns/pairs", draw.Pos(), false, "inside two nested loops over the positions", "not nested")
				} else {
					oi, _, oinit, ok1 := loopIndex(outer)
					ii, _, iinit, ok2 := loopIndex(inner)
					if ok1 && ok2 {
						n.Bind[oi], n.Bind[ii] = "a", "b"
						e1, _ := CondEquivalent(n.LoopCond(outer), MustRefCond("a < len(pos)"))
						e2, _ := CondEquivalent(n.LoopCond(inner), MustRefCond("b < len(pos)"))
						cx, cy := canonAccess(n.Norm(draw.Common().Args[0]).String()), canonAccess(n.Norm(draw.Common().Args[1]).String())
						okPairs := oinit == 0 && iinit == 0 && e1 && e2 && ((cx == "pos[a]" && cy == "pos[b]") || (cx == "pos[b]" && cy == "pos[a]")) && loopExitsOnlyAtHeader(inner) && loopExitsOnlyAtHeader(outer)
						c.Check(R, "qr.drawAlignmentPatterns/pairs", draw.Pos(), okPairs, "every pair (pos[a], pos[b])", fmt.Sprintf("(%s, %s) for %s, %s", cx, cy, n.LoopCond(outer), n.LoopCond(inner)))
						occ := &Cond{Kind: CBool, Name: fmt.Sprintf("call:qr.(*qrcode).Get(occupied,%s,%s)", n.Norm(draw.Common().Args[0]), n.Norm(draw.Common().Args[1]))}
						c.expectCondC(R, "qr.drawAlignmentPatterns/unless-occupied", draw.Pos(), n.ReachCond(fn, n.BodyStart(inner), draw.Block()), cNot(occ))
					} else {
						c.Undecided(R, "qr.drawAlignmentPatterns/pairs", draw.Pos(), "not counting loops")
					}
				}
			}
		}
	}
	if fn := c.theFunc(R, "qr.drawFinderPatterns"); fn != nil {
		if d := analyse(closureOf(fn), "qr.drawFinderPatterns"); d != nil {
			c.Check(R, "qr.drawFinderPatterns/extent", d.fn.Pos(), d.from == [2]int64{-1, -1} && d.to == [2]int64{8, 8} && d.okCoord, "x, y = -1..7 (pattern and separator)", fmt.Sprintf("from %v to %v", d.from, d.to))
			c.expectCondC(R, "qr.drawFinderPatterns/shape", d.fn.Pos(), d.val, MustRefCond("(x == 0 || x == 6 || y == 0 || y == 6 || (x > 1 && x < 5 && y > 1 && y < 5)) && x <= 6 && y <= 6 && x >= 0 && y >= 0"))
			// clipped to the symbol
			nn := NewNormer(c.P)
			nn.BindParams(d.fn, "xoff", "yoff")
			_ = nn
			c.expectCondC(R, "qr.drawFinderPatterns/clipped", d.fn.Pos(), d.guard, d.clip)
			// the three corners
			n := NewNormer(c.P)
			if render := c.P.Func("qr.render"); render != nil {
				n.Root = render // a dimension handed in as a parameter is read in render's terms
				for _, p := range render.Params {
					if namedTypeName(p.Type()) == "qr.versionInfo" {
						n.Bind[p] = "vi"
					}
				}
			}
			for _, p := range fn.Params {
				if namedTypeName(p.Type()) == "qr.versionInfo" {
					n.Bind[p] = "vi"
				}
			}
			var got []string
			dimOK := true
			eachInstr(fn, func(b *ssa.BasicBlock, ins ssa.Instruction) {
				if call, ok := ins.(*ssa.Call); ok && call.Common().StaticCallee() == d.fn {
					if d.offIdx[0] < 0 || d.offIdx[1] < 0 {
						got = append(got, "(?, ?)")
					} else {
						got = append(got, fmt.Sprintf("(%s, %s)", n.Norm(call.Common().Args[d.offIdx[0]]), n.Norm(call.Common().Args[d.offIdx[1]])))
					}
					// the bound used for clipping is the symbol's dimension
					n.Ctx = []ssa.CallInstruction{call}
					eachInstr(d.fn, func(b2 *ssa.BasicBlock, i2 ssa.Instruction) {
						if bo, ok := i2.(*ssa.BinOp); ok && bo.Op == token.LSS && pEqual(d.dim, pAtom("dim")) || ok && bo.Op == token.LSS {
							if _, isParamOrFree := bo.Y.(*ssa.Const); !isParamOrFree && isIntType(bo.Y.Type()) && d.clipBound != nil && bo.Y == d.clipBound {
								if !pEqual(n.Norm(bo.Y), MustRef("4*vi.Version + 17")) {
									dimOK = false
								}
							}
						}
					})
					n.Ctx = nil
				}
			})
			c.Check(R, "qr.drawFinderPatterns/dimension", fn.Pos(), dimOK && d.clipBound != nil, "clipped at the symbol dimension 4*version + 17", fmt.Sprint(dimOK))
			sort.Strings(got)
			dim := MustRef("4*vi.Version + 17 - 7").String()
			want := []string{"(0, 0)", fmt.Sprintf("(0, %s)", dim), fmt.Sprintf("(%s, 0)", dim)}
			sort.Strings(want)
			c.Check(R, "qr.drawFinderPatterns/corners", fn.Pos(), fmt.Sprint(got) == fmt.Sprint(want), fmt.Sprint(want), fmt.Sprint(got))
		}
	}
}

func init() {
	register("C01", ruleQRPatterns)
}

// boolParam: the one boolean parameter of fn (the variant flag), if there is exactly one.
func boolParam(fn *ssa.Function) *ssa.Parameter {
	var found *ssa.Parameter
	for _, p := range fn.Params {
		if isBoolType(p.Type()) {
			if found != nil {
				return nil
			}
			found = p
		}
	}
	return found
}

// renameBool: a copy of the condition with the boolean atom `from` named `to`.
func renameBool(c *Cond, from, to string) *Cond {
	if c == nil || from == "" {
		return c
	}
	out := *c
	if c.Kind == CBool && canonAccess(c.Name) == from {
		out.Name = to
	}
	if len(c.Sub) > 0 {
		out.Sub = make([]*Cond, len(c.Sub))
		for i, s := range c.Sub {
			out.Sub[i] = renameBool(s, from, to)
		}
	}
	return &out
}

// countdownFrom: the header h tests `v > 0` for a variable that starts at some value N and is
// decremented by one on every way round - the loop runs max(N, 0) times; returns N.
func countdownFrom(h *ssa.BasicBlock) ssa.Value {
	iff, ok := h.Instrs[len(h.Instrs)-1].(*ssa.If)
	if !ok {
		return nil
	}
	bo, ok := iff.Cond.(*ssa.BinOp)
	if !ok {
		return nil
	}
	var phi *ssa.Phi
	switch {
	case bo.Op == token.GTR:
		if k, isK := constInt(bo.Y); isK && k == 0 {
			phi, _ = bo.X.(*ssa.Phi)
		}
	case bo.Op == token.LSS:
		if k, isK := constInt(bo.X); isK && k == 0 {
			phi, _ = bo.Y.(*ssa.Phi)
		}
	}
	if phi == nil || phi.Block() != h || len(h.Succs) != 2 || !h.Dominates(h.Succs[0]) {
		return nil
	}
	var start ssa.Value
	for ei, e := range phi.Edges {
		if h.Dominates(h.Preds[ei]) {
			dec, isDec := e.(*ssa.BinOp)
			if !isDec || dec.Op != token.SUB || dec.X != ssa.Value(phi) {
				return nil
			}
			if k, isK := constInt(dec.Y); !isK || k != 1 {
				return nil
			}
		} else {
			if start != nil && start != e {
				return nil
			}
			start = e
		}
	}
	return start
}
