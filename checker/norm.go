package main

// E2 — normal forms. Norm maps an SSA value to a multivariate polynomial with integer
// coefficients over atoms (parameters by role, field paths, len(), uninterpreted Div/Mod/...,
// calls). Equal canonical forms => equal functions. Reference formulas are Go expressions over
// role names pushed through the same algebra.

import (
	"fmt"
	"go/ast"
	"go/constant"
	"go/parser"
	"go/token"
	"go/types"
	"sort"
	"strconv"
	"strings"

	"golang.org/x/tools/go/ssa"
)

type Poly map[string]int64 // monomial key ("a*b", "" for the constant) -> coefficient

func pConst(k int64) Poly {
	if k == 0 {
		return Poly{}
	}
	return Poly{"": k}
}
func pAtom(a string) Poly { return Poly{a: 1} }

func (p Poly) IsConst() (int64, bool) {
	if len(p) == 0 {
		return 0, true
	}
	if len(p) == 1 {
		if k, ok := p[""]; ok {
			return k, true
		}
	}
	return 0, false
}

func pAdd(a, b Poly, sign int64) Poly {
	out := Poly{}
	for k, v := range a {
		out[k] = v
	}
	for k, v := range b {
		out[k] += sign * v
		if out[k] == 0 {
			delete(out, k)
		}
	}
	return out
}

func monoMul(a, b string) string {
	if a == "" {
		return b
	}
	if b == "" {
		return a
	}
	parts := append(splitMono(a), splitMono(b)...)
	sort.Strings(parts)
	return strings.Join(parts, "*")
}

// splitMono splits on '*' at nesting depth 0.
func splitMono(m string) []string {
	var out []string
	depth, start := 0, 0
	for i := 0; i < len(m); i++ {
		switch m[i] {
		case '(', '[':
			depth++
		case ')', ']':
			depth--
		case '*':
			if depth == 0 {
				out = append(out, m[start:i])
				start = i + 1
			}
		}
	}
	return append(out, m[start:])
}

func pMul(a, b Poly) Poly {
	out := Poly{}
	for ka, va := range a {
		for kb, vb := range b {
			k := monoMul(ka, kb)
			out[k] += va * vb
			if out[k] == 0 {
				delete(out, k)
			}
		}
	}
	return canonDivProducts(out)
}

// divParts remembers dividend and divisor of every Div atom that was built, so that the exact
// integer identity  b*(a/b) == a - a%b  (Go: truncated division, any signs, b != 0) can be applied:
// products of a quotient with its own divisor are rewritten to the remainder form. "Round up by
// comparing c*(n/c) with n" and "round up when n%c != 0" then have the same normal form.
var divParts = map[string][2]Poly{}

func mkDiv(a, b Poly) Poly {
	name := "Div(" + a.String() + "," + b.String() + ")"
	divParts[name] = [2]Poly{a, b}
	return pAtom(name)
}

func canonDivProducts(p Poly) Poly {
	for m, coef := range p {
		fs := splitMono(m)
		for i, f := range fs {
			parts, ok := divParts[f]
			if !ok {
				continue
			}
			a, b := parts[0], parts[1]
			rest := append(append([]string{}, fs[:i]...), fs[i+1:]...)
			var restMono string
			var q int64
			if kb, isK := b.IsConst(); isK {
				if kb == 0 || coef%kb != 0 {
					continue
				}
				q = coef / kb
				restMono = strings.Join(rest, "*")
			} else if len(b) == 1 {
				// divisor is a single atom with coefficient 1 that also occurs as a factor
				var atom string
				for k, v := range b {
					if v == 1 && len(splitMono(k)) == 1 {
						atom = k
					}
				}
				if atom == "" {
					continue
				}
				j := -1
				for k, r := range rest {
					if r == atom {
						j = k
						break
					}
				}
				if j < 0 {
					continue
				}
				rest = append(append([]string{}, rest[:j]...), rest[j+1:]...)
				restMono = strings.Join(rest, "*")
				q = coef
			} else {
				continue
			}
			// coef*m  ->  q*rest*(a - Mod(a,b))
			out := Poly{}
			for k, v := range p {
				if k != m {
					out[k] = v
				}
			}
			repl := pAdd(a, pAtom("Mod("+a.String()+","+b.String()+")"), -1)
			scaled := Poly{}
			for k, v := range repl {
				scaled[monoMul(k, restMono)] += v * q
			}
			return canonDivProducts(pAdd(out, scaled, 1))
		}
	}
	return p
}

func pScale(a Poly, k int64) Poly { return pMul(a, pConst(k)) }

func (p Poly) String() string {
	if len(p) == 0 {
		return "0"
	}
	keys := make([]string, 0, len(p))
	for k := range p {
		keys = append(keys, k)
	}
	sort.Strings(keys)
	var sb strings.Builder
	for i, k := range keys {
		v := p[k]
		if i > 0 {
			if v < 0 {
				sb.WriteString(" - ")
				v = -v
			} else {
				sb.WriteString(" + ")
			}
		} else if v < 0 {
			sb.WriteString("-")
			v = -v
		}
		if k == "" {
			sb.WriteString(strconv.FormatInt(v, 10))
		} else if v == 1 {
			sb.WriteString(k)
		} else {
			sb.WriteString(strconv.FormatInt(v, 10) + "*" + k)
		}
	}
	return sb.String()
}

func pEqual(a, b Poly) bool { return a.String() == b.String() }

// asAtom renders a polynomial as one atom string (used as argument of uninterpreted operators).
func (p Poly) asAtom() string {
	s := p.String()
	if len(p) == 1 {
		for k, v := range p {
			if v == 1 && k != "" {
				return k
			}
		}
	}
	if _, ok := p.IsConst(); ok {
		return s
	}
	return "(" + s + ")"
}

// ---------------------------------------------------------------------------------------------

type Normer struct {
	lenDepth    int
	bodyFrom    map[*ssa.BasicBlock]bool // headers of bottom-tested loops used as "start of the body" (loop test not part of the condition)
	noRot       bool                     // LoopWhile in progress: do not add loop invariants recursively
	StripNarrow string                   // callCases: a final conversion of a helper result to this integer type is dropped
	Root        *ssa.Function            // the function whose parameters carry the role names
	resolving   map[*ssa.Parameter]bool
	curFrom     *ssa.BasicBlock
	phiDepth    int
	NoInline    map[string]bool       // callee names kept as uninterpreted calls
	AtomAlias   map[string]string     // atom string -> role (e.g. "invoke:Bounds(bc)" -> "B")
	Ctx         []ssa.CallInstruction // calling context used to resolve helper parameters
	P           *Prog
	Bind        map[ssa.Value]string // role names for values (parameters, ...)
	PhiChoice   map[*ssa.Phi]int     // select one incoming edge of a phi (decision-table extraction)
	Opaque      bool                 // set when the result contains an atom outside the fragment
	OpaqueWhy   []string
	env         []map[ssa.Value]Poly
	depth       int
	MaxInline   int
	memo        map[ssa.Value]Poly
	sliceLen    map[string]ssa.Value
	lb          *lbCtx
	FoldTables  bool // reads of immutable package tables at constant positions become constants
}

func NewNormer(p *Prog) *Normer {
	return &Normer{P: p, Bind: map[ssa.Value]string{}, PhiChoice: map[*ssa.Phi]int{}, MaxInline: 5, memo: map[ssa.Value]Poly{}, NoInline: map[string]bool{}, AtomAlias: map[string]string{}}
}

// BindParams gives role names to the parameters of fn by position ("" keeps the default).
func (n *Normer) BindParams(fn *ssa.Function, roles ...string) {
	if n.Root == nil {
		n.Root = fn
	}
	for i, r := range roles {
		if i < len(fn.Params) && r != "" {
			n.Bind[fn.Params[i]] = r
		}
	}
}

func (n *Normer) opaque(why string) {
	n.Opaque = true
	if len(n.OpaqueWhy) < 5 {
		n.OpaqueWhy = append(n.OpaqueWhy, why)
	}
}

func isIntType(t types.Type) bool {
	b, ok := t.Underlying().(*types.Basic)
	return ok && b.Info()&types.IsInteger != 0
}
func isFloatType(t types.Type) bool {
	b, ok := t.Underlying().(*types.Basic)
	return ok && b.Info()&types.IsFloat != 0
}

func intSize(t types.Type) (bits int, unsigned bool) {
	b, _ := t.Underlying().(*types.Basic)
	if b == nil {
		return 64, false
	}
	switch b.Kind() {
	case types.Int8:
		return 8, false
	case types.Int16:
		return 16, false
	case types.Int32:
		return 32, false
	case types.Int64, types.Int, types.UntypedInt, types.UntypedRune:
		return 64, false
	case types.Uint8:
		return 8, true
	case types.Uint16:
		return 16, true
	case types.Uint32:
		return 32, true
	case types.Uint64, types.Uint, types.Uintptr:
		return 64, true
	}
	return 64, false
}

func (n *Normer) Norm(v ssa.Value) Poly {
	if r, ok := n.Bind[v]; ok {
		return pAtom(r)
	}
	for i := len(n.env) - 1; i >= 0; i-- {
		if p, ok := n.env[i][v]; ok {
			return p
		}
	}
	if n.FoldTables {
		switch v.(type) {
		case *ssa.UnOp, *ssa.Index, *ssa.Field, *ssa.Lookup, *ssa.Extract:
			if tv, ok := n.tableVal(v, 0); ok && tv != nil {
				switch tv.Kind {
				case VInt:
					return pConst(tv.I)
				case VString:
					return pAtom("const:" + strconv.Quote(tv.S))
				}
			}
		}
	}
	switch x := v.(type) {
	case *ssa.Const:
		if x.Value == nil {
			return pAtom("nil")
		}
		if x.Value.Kind() == constant.Int {
			if i, ok := constant.Int64Val(x.Value); ok {
				return pConst(i)
			}
			if u, ok := constant.Uint64Val(x.Value); ok {
				return pAtom(fmt.Sprintf("const:%d", u))
			}
		}
		if x.Value.Kind() == constant.Float {
			if iv := constant.ToInt(x.Value); iv.Kind() == constant.Int {
				if i, ok := constant.Int64Val(iv); ok {
					return pConst(i)
				}
			}
		}
		return pAtom("const:" + x.Value.ExactString())
	case *ssa.Parameter:
		fn := x.Parent()
		idx := -1
		for i, p := range fn.Params {
			if p == x {
				idx = i
			}
		}
		if n.Root != nil && fn != n.Root && idx >= 0 {
			// parameter of a helper: resolve through its call sites when they all agree
			if r, ok := n.resolveParam(fn, idx); ok {
				return r
			}
			return pAtom(fmt.Sprintf("%s.p%d", n.P.FuncName(fn), idx))
		}
		return pAtom(fmt.Sprintf("p%d", idx))
	case *ssa.FreeVar:
		if b := freeVarBinding(x); b != nil {
			return n.Norm(b)
		}
		n.opaque("unresolved free variable " + x.Name())
		return pAtom("freevar:" + x.Name())
	case *ssa.BinOp:
		return n.normBinOp(x)
	case *ssa.UnOp:
		switch x.Op {
		case token.SUB:
			return pScale(n.Norm(x.X), -1)
		case token.MUL:
			if st := resultSpillStore(x); st != nil {
				return n.Norm(st.Val) // `return v` in a function with defers: v is parked in a local and read back
			}
			if st := reachingStore(x); st != nil {
				return n.Norm(st.Val) // a local that is built and then patched: the store this read sees
			}
			if p, ok := n.localTableLoad(x); ok {
				return p // element of a local literal table at a known position
			}
			if p, ok := n.arrayElemLoad(x); ok {
				return p // element of an array value that was handed over as a whole
			}
			return n.normLoad(x.X)
		case token.NOT:
			return pAtom("Not(" + n.Norm(x.X).asAtom() + ")")
		case token.XOR:
			return pAtom("Compl(" + n.Norm(x.X).asAtom() + ")")
		case token.ARROW:
			n.opaque("channel receive")
			return pAtom(fmt.Sprintf("recv#%s", x.Name()))
		}
	case *ssa.Convert:
		return n.normConvert(x.X, x.Type())
	case *ssa.ChangeType:
		return n.Norm(x.X)
	case *ssa.MakeInterface:
		return n.Norm(x.X)
	case *ssa.ChangeInterface:
		return n.Norm(x.X)
	case *ssa.Phi:
		if i, ok := n.PhiChoice[x]; ok && i < len(x.Edges) {
			return n.Norm(x.Edges[i])
		}
		if hp := rotatedExitAlias(x); hp != nil {
			return n.Norm(hp) // the loop variable's value when the (bottom-tested) loop ends
		}
		n.opaque("phi " + x.Name() + " in " + n.P.FuncName(x.Parent()))
		return pAtom(fmt.Sprintf("phi:%s.%s", n.P.FuncName(x.Parent()), x.Name()))
	case *ssa.Call:
		return n.normCall(x)
	case *ssa.Field:
		if p, ok := n.fieldOf(x.X, x.Field, 0); ok {
			return p
		}
		st := x.X.Type().Underlying().(*types.Struct)
		return n.atom(n.Norm(x.X).asAtom() + "." + fname(st.Field(x.Field)))
	case *ssa.Index:
		if ld, isLd := x.X.(*ssa.UnOp); isLd && ld.Op == token.MUL {
			if alloc, isAlloc := ld.X.(*ssa.Alloc); isAlloc {
				if k, isK := n.Norm(x.Index).IsConst(); isK {
					if st := tableCellStore(alloc, k, nil, ld, 0); st != nil {
						return n.Norm(st.Val) // element of a local literal table at a known position
					}
				}
			}
		}
		if isStringType(x.X.Type()) {
			if b, ok := n.constStringByte(x.X, x.Index); ok {
				return pConst(b)
			}
			// a byte of a string reads like an element of the byte slice made from it
			return n.atom(n.Norm(x.X).asAtom() + "[" + n.Norm(x.Index).String() + "]")
		}
		switch x.X.(type) {
		case *ssa.Call, *ssa.Parameter:
			// an array value produced by a helper (or handed in) and read at a known position
			if _, isArr := x.X.Type().Underlying().(*types.Array); isArr {
				if k, isK := n.Norm(x.Index).IsConst(); isK {
					if p, ok := n.arrayElem(x.X, k, 0); ok {
						return p
					}
				}
			}
		}
		return pAtom("idx(" + n.Norm(x.X).asAtom() + "," + n.Norm(x.Index).String() + ")")
	case *ssa.Lookup:
		if isStringType(x.X.Type()) {
			if b, ok := n.constStringByte(x.X, x.Index); ok {
				return pConst(b)
			}
			return n.atom(n.Norm(x.X).asAtom() + "[" + n.Norm(x.Index).String() + "]")
		}
		return pAtom("idx(" + n.Norm(x.X).asAtom() + "," + n.Norm(x.Index).String() + ")")
	case *ssa.Extract:
		if call, ok := x.Tuple.(*ssa.Call); ok {
			if _, bound := n.Bind[call]; !bound {
				if r, ok := n.inlineCall(call, x.Index); ok {
					return r
				}
			}
		}
		return pAtom(fmt.Sprintf("%s#%d", n.Norm(x.Tuple).asAtom(), x.Index))
	case *ssa.Global:
		return pAtom("&global:" + shortName(x.Pkg.Pkg.Path()) + "." + x.Name())
	case *ssa.Function:
		return pAtom("func:" + n.P.FuncName(x))
	case *ssa.Slice:
		lo, hi := "", ""
		if x.Low != nil {
			lo = n.Norm(x.Low).String()
		}
		if x.High != nil {
			hi = n.Norm(x.High).String()
		}
		return pAtom("slice(" + n.Norm(x.X).asAtom() + "," + lo + "," + hi + ")")
	case *ssa.TypeAssert:
		if x.CommaOk {
			return pAtom("assert(" + n.Norm(x.X).asAtom() + "," + typeShort(x.AssertedType) + ")")
		}
		return n.Norm(x.X)
	case *ssa.Alloc, *ssa.FieldAddr, *ssa.IndexAddr:
		root, path, ok := n.addrPath(v)
		if ok {
			return pAtom("&" + root + path)
		}
	case *ssa.MakeClosure:
		return pAtom("closure:" + n.P.FuncName(x.Fn.(*ssa.Function)))
	case *ssa.Next, *ssa.Range, *ssa.Select, *ssa.MakeSlice, *ssa.MakeMap, *ssa.MakeChan:
		n.opaque(fmt.Sprintf("%T %s", v, v.Name()))
		name := fmt.Sprintf("%T:%s.%s", v, n.P.FuncName(v.Parent()), v.Name())
		if mk, ok := v.(*ssa.MakeSlice); ok {
			// len(make([]T, k)) == k: remembered under the slice's atom
			if n.sliceLen == nil {
				n.sliceLen = map[string]ssa.Value{}
			}
			n.sliceLen[name] = mk.Len
		}
		return pAtom(name)
	}
	n.opaque(fmt.Sprintf("unsupported value %T %s", v, v.String()))
	return pAtom(fmt.Sprintf("?%T:%s", v, v.Name()))
}

func typeShort(t types.Type) string {
	if b, ok := t.(*types.Basic); ok && b.Kind() < types.UntypedBool {
		return types.Typ[b.Kind()].Name() // byte -> uint8, rune -> int32
	}
	return types.TypeString(t, func(p *types.Package) string { return shortName(p.Path()) })
}

func freeVarBinding(fv *ssa.FreeVar) ssa.Value {
	fn := fv.Parent()
	idx := -1
	for i, f := range fn.FreeVars {
		if f == fv {
			idx = i
		}
	}
	if idx < 0 || fn.Parent() == nil {
		return nil
	}
	var found ssa.Value
	count := 0
	for _, b := range fn.Parent().Blocks {
		for _, ins := range b.Instrs {
			if mc, ok := ins.(*ssa.MakeClosure); ok && mc.Fn == fn {
				count++
				found = mc.Bindings[idx]
			}
		}
	}
	if count == 1 {
		return found
	}
	return nil
}

func (n *Normer) normConvert(x ssa.Value, to types.Type) Poly {
	from := x.Type()
	switch {
	case isIntType(from) && isIntType(to):
		fb, fu := intSize(from)
		tb, tu := intSize(to)
		// value-preserving: widening, or same size (int<->uint is used for shift counts; transparent)
		if tb > fb || (tb == fb) || (tb >= fb && fu == tu) {
			_ = fu
			_ = tu
			return n.Norm(x)
		}
		if k, ok := n.Norm(x).IsConst(); ok {
			return pConst(k)
		}
		inner := n.Norm(x).String()
		// masking with all the bits the narrower type keeps changes nothing: byte(v & 0xFF) = byte(v)
		if tb < 64 && strings.HasPrefix(inner, "And(") && strings.HasSuffix(inner, ")") {
			mask := strconv.FormatInt(int64(1)<<uint(tb)-1, 10)
			if args := splitTopLevel(inner[4 : len(inner)-1]); len(args) == 2 {
				if args[0] == mask {
					inner = args[1]
				} else if args[1] == mask {
					inner = args[0]
				}
			}
		}
		return pAtom("Conv:" + typeShort(to) + "(" + inner + ")")
	case isIntType(from) && isFloatType(to):
		return pAtom("F(" + n.Norm(x).String() + ")")
	case isFloatType(from) && isIntType(to):
		return pAtom("Trunc(" + n.Norm(x).asAtom() + ")")
	case isFloatType(from) && isFloatType(to):
		return n.Norm(x)
	}
	return pAtom("Conv:" + typeShort(to) + "(" + n.Norm(x).asAtom() + ")")
}

func (n *Normer) normBinOp(x *ssa.BinOp) Poly {
	a, b := n.Norm(x.X), n.Norm(x.Y)
	t := x.X.Type()
	if isFloatType(t) {
		switch x.Op {
		case token.QUO:
			return pAtom("FDiv(" + a.asAtom() + "," + b.asAtom() + ")")
		case token.ADD:
			return pAdd(a, b, 1)
		case token.SUB:
			return pAdd(a, b, -1)
		case token.MUL:
			return pMul(a, b)
		}
	}
	if !isIntType(t) {
		switch x.Op {
		case token.ADD: // string concatenation
			return pAtom("Cat(" + a.asAtom() + "," + b.asAtom() + ")")
		case token.EQL, token.NEQ, token.LSS, token.LEQ, token.GTR, token.GEQ:
			return pAtom(fmt.Sprintf("Cmp%s(%s,%s)", x.Op, a.asAtom(), b.asAtom()))
		}
	}
	switch x.Op {
	case token.ADD:
		return pAdd(a, b, 1)
	case token.SUB:
		return pAdd(a, b, -1)
	case token.MUL:
		return pMul(a, b)
	case token.QUO:
		ka, oka := a.IsConst()
		kb, okb := b.IsConst()
		if oka && okb && kb != 0 {
			return pConst(ka / kb)
		}
		return mkDiv(a, b)
	case token.REM:
		ka, oka := a.IsConst()
		kb, okb := b.IsConst()
		if oka && okb && kb != 0 {
			return pConst(ka % kb)
		}
		return mkMod(a, b)
	case token.SHL:
		if k, ok := b.IsConst(); ok && k >= 0 && k < 62 {
			return pScale(a, 1<<uint(k))
		}
		return pAtom("Shl(" + a.String() + "," + b.String() + ")")
	case token.SHR:
		// x >> k == x / 2^k for the non-negative quantities shifted in this code base (lengths, counts)
		if k, ok := b.IsConst(); ok && k >= 0 && k < 62 {
			if ka, oka := a.IsConst(); oka {
				return pConst(ka >> uint(k))
			}
			return mkDiv(a, pConst(1<<uint(k)))
		}
		return pAtom("Shr(" + a.String() + "," + b.String() + ")")
	case token.AND, token.OR, token.XOR, token.AND_NOT:
		// x & (2^k - 1) == x % 2^k for a non-negative x (lower-bound domain)
		if x.Op == token.AND {
			for _, pair := range [][2]ssa.Value{{x.X, x.Y}, {x.Y, x.X}} {
				if k, ok := constInt(pair[1]); ok && k >= 3 && (k+1)&k == 0 {
					if n.lb == nil {
						n.lb = newLbCtx(n.P)
					}
					if lb := n.lb.lb(pair[0]); lb != lbUnknown && lb >= 0 {
						return pAtom("Mod(" + n.Norm(pair[0]).String() + "," + pConst(int64(k)+1).String() + ")")
					}
				}
			}
		}
		as, bs := a.String(), b.String()
		if x.Op != token.AND_NOT && as > bs {
			as, bs = bs, as
		}
		name := map[token.Token]string{token.AND: "And", token.OR: "Or", token.XOR: "Xor", token.AND_NOT: "AndNot"}[x.Op]
		return pAtom(name + "(" + as + "," + bs + ")")
	case token.EQL, token.NEQ, token.LSS, token.LEQ, token.GTR, token.GEQ:
		return pAtom(fmt.Sprintf("Cmp%s(%s,%s)", x.Op, a.String(), b.String()))
	}
	n.opaque("binop " + x.Op.String())
	return pAtom("?binop")
}

// addrPath resolves an address to root + access path. Roots: local allocs (named by the single
// value stored into them when possible), parameters/other pointer values (by their atom).
func (n *Normer) addrPath(v ssa.Value) (root string, path string, ok bool) {
	switch x := v.(type) {
	case *ssa.FieldAddr:
		r, p, ok := n.addrPath(x.X)
		if !ok {
			return "", "", false
		}
		st := x.X.Type().Underlying().(*types.Pointer).Elem().Underlying().(*types.Struct)
		return r, p + "." + fname(st.Field(x.Field)), true
	case *ssa.IndexAddr:
		r, p, ok := n.addrPath(x.X)
		if !ok {
			return "", "", false
		}
		return r, p + "[" + n.Norm(x.Index).String() + "]", true
	case *ssa.Alloc:
		return fmt.Sprintf("alloc:%s.%s", n.P.FuncName(x.Parent()), x.Comment), "", true
	case *ssa.FreeVar:
		if b := freeVarBinding(x); b != nil {
			return n.addrPath(b)
		}
		return "", "", false
	case *ssa.Global:
		return "global:" + shortName(x.Pkg.Pkg.Path()) + "." + x.Name(), "", true
	default:
		// pointer-typed or slice-typed value
		return n.Norm(v).asAtom(), "", true
	}
}

// rootAlloc returns the Alloc an address is derived from (through FieldAddr and free variables)
// and the field path as selector indices.
// ptrAlias: pointer-typed parameters known to point to a struct allocated elsewhere (the receiver of
// a method value whose receiver was built by the function under analysis). Set by a rule for the
// duration of its analysis.
var ptrAlias = map[ssa.Value]*ssa.Alloc{}

// valAlias: struct-typed parameters known to hold a given struct value (the value receiver of a method
// value whose receiver was built by the function under analysis).
var valAlias = map[ssa.Value]ssa.Value{}

func rootAlloc(v ssa.Value) (*ssa.Alloc, []int, bool) {
	switch x := v.(type) {
	case *ssa.Alloc:
		return x, nil, true
	case *ssa.Parameter:
		if a, ok := ptrAlias[x]; ok {
			return a, nil, true
		}
	case *ssa.FieldAddr:
		a, p, ok := rootAlloc(x.X)
		if !ok {
			return nil, nil, false
		}
		return a, append(append([]int{}, p...), x.Field), true
	case *ssa.FreeVar:
		if b := freeVarBinding(x); b != nil {
			return rootAlloc(b)
		}
	}
	return nil, nil, false
}

func samePath(a, b []int) bool {
	if len(a) != len(b) {
		return false
	}
	for i := range a {
		if a[i] != b[i] {
			return false
		}
	}
	return true
}

// storesTo collects the stores whose address is derived from alloc (in the alloc's function and
// in closures capturing it).
func storesTo(alloc *ssa.Alloc) (stores []*ssa.Store, paths [][]int, escapes bool) {
	var visit func(fn *ssa.Function)
	seen := map[*ssa.Function]bool{}
	visit = func(fn *ssa.Function) {
		if seen[fn] {
			return
		}
		seen[fn] = true
		for _, b := range fn.Blocks {
			for _, ins := range b.Instrs {
				if st, ok := ins.(*ssa.Store); ok {
					if a, p, ok := rootAlloc(st.Addr); ok && a == alloc {
						stores = append(stores, st)
						paths = append(paths, p)
					}
				}
				if mc, ok := ins.(*ssa.MakeClosure); ok {
					visit(mc.Fn.(*ssa.Function))
				}
			}
		}
	}
	visit(alloc.Parent())
	return
}

func (n *Normer) normLoad(addr ssa.Value) Poly {
	if alloc, path, ok := rootAlloc(addr); ok {
		stores, paths, _ := storesTo(alloc)
		// exactly one store to exactly this path and none to a prefix/extension
		var exact []*ssa.Store
		var whole []*ssa.Store
		conflict := false
		for i, st := range stores {
			switch {
			case samePath(paths[i], path):
				exact = append(exact, st)
			case len(paths[i]) < len(path) && samePath(paths[i], path[:len(paths[i])]):
				whole = append(whole, st)
			case len(paths[i]) > len(path) && samePath(paths[i][:len(path)], path):
				conflict = true
			}
		}
		if !conflict && len(exact) == 1 && len(whole) == 0 {
			return n.Norm(exact[0].Val)
		}
		if !conflict && len(exact) == 0 && len(whole) == 1 {
			// value stored as a whole struct; project the remaining path
			st := whole[0]
			pl, _, _ := rootAlloc(st.Addr)
			_ = pl
			_, sp, _ := rootAlloc(st.Addr)
			if rest := path[len(sp):]; len(rest) == 1 {
				if _, isStruct := st.Val.Type().Underlying().(*types.Struct); isStruct {
					if p, ok := n.fieldOf(st.Val, rest[0], 0); ok {
						return p
					}
				}
			}
			base := n.Norm(st.Val).asAtom()
			t := st.Val.Type()
			for _, f := range path[len(sp):] {
				s, ok := t.Underlying().(*types.Struct)
				if !ok {
					break
				}
				base += "." + fname(s.Field(f))
				t = s.Field(f).Type()
			}
			return n.atom(base)
		}
		if len(exact) == 0 && len(whole) == 0 && !conflict {
			// zero value of a local
			if isIntType(addr.Type().Underlying().(*types.Pointer).Elem()) {
				return pConst(0)
			}
		}
		n.opaque(fmt.Sprintf("local %s has %d stores", alloc.Comment, len(exact)+len(whole)))
		return pAtom(fmt.Sprintf("cell:%s.%s%v", n.P.FuncName(alloc.Parent()), alloc.Comment, path))
	}
	// global constant-like variables and heap loads: uninterpreted access path
	root, path, ok := n.addrPath(addr)
	if !ok {
		n.opaque("load of unresolved address")
		return pAtom("load:?")
	}
	if strings.HasPrefix(root, "global:") && path == "" {
		return pAtom(root)
	}
	return n.atom(root + path)
}

func (n *Normer) normCall(x *ssa.Call) Poly {
	cc := x.Common()
	if cc.IsInvoke() {
		args := []string{n.Norm(cc.Value).asAtom()}
		for _, a := range cc.Args {
			args = append(args, n.Norm(a).String())
		}
		return n.atom("invoke:" + cc.Method.Name() + "(" + strings.Join(args, ",") + ")")
	}
	if b, ok := cc.Value.(*ssa.Builtin); ok {
		var args []string
		for _, a := range cc.Args {
			args = append(args, n.Norm(a).asAtom())
		}
		if b.Name() == "len" && len(args) == 1 {
			// the length of a parameter is the length of what the calling context passes for it
			if p, isP := cc.Args[0].(*ssa.Parameter); isP && n.lenDepth < 4 {
				if _, bound := n.Bind[p]; !bound {
					if arg, ctx, okA := n.paramArg(p); okA {
						if _, isSl := arg.(*ssa.Slice); isSl {
							saved := n.Ctx
							n.Ctx = ctx
							n.lenDepth++
							lo := pConst(0)
							sl := arg.(*ssa.Slice)
							var r Poly
							if sl.High != nil && sl.Max == nil {
								if sl.Low != nil {
									lo = n.Norm(sl.Low)
								}
								r = pAdd(n.Norm(sl.High), lo, -1)
							}
							n.lenDepth--
							n.Ctx = saved
							if r != nil {
								return r
							}
						}
					}
				}
			}
			if mk, ok := cc.Args[0].(*ssa.MakeSlice); ok {
				return n.Norm(mk.Len) // also when the slice has a role name
			}
			if lv, ok := n.sliceLen[args[0]]; ok {
				return n.Norm(lv)
			}
			// len(arr[:]) of a local array (a slice literal) is the array's length
			if sl, ok := cc.Args[0].(*ssa.Slice); ok && sl.Low == nil && sl.High == nil && sl.Max == nil {
				if _, bound := n.Bind[cc.Args[0]]; !bound {
					if pt, ok := sl.X.Type().Underlying().(*types.Pointer); ok {
						if at, ok := pt.Elem().Underlying().(*types.Array); ok {
							return pConst(at.Len())
						}
					}
				}
			}
			// len(x[lo:hi]) = hi - lo (the slice expression panics otherwise)
			_, named := n.Bind[cc.Args[0]]
			if sl, ok := cc.Args[0].(*ssa.Slice); ok && sl.High != nil && sl.Max == nil && !named {
				lo := pConst(0)
				if sl.Low != nil {
					lo = n.Norm(sl.Low)
				}
				return pAdd(n.Norm(sl.High), lo, -1)
			}
		}
		if b.Name() == "len" && len(cc.Args) == 1 {
			// the length of a package-level table that is never written is the length of its literal
			if ld, isLd := cc.Args[0].(*ssa.UnOp); isLd && ld.Op == token.MUL {
				if _, isG := ld.X.(*ssa.Global); isG {
					if tv, ok := n.tableVal(cc.Args[0], 0); ok && tv != nil && tv.Kind == VList {
						return pConst(int64(len(tv.List)))
					}
				}
			}
		}
		if b.Name() == "len" || b.Name() == "cap" {
			// len of a constant string folds
			if c, ok := cc.Args[0].(*ssa.Const); ok && c.Value != nil && c.Value.Kind() == constant.String {
				return pConst(int64(len(constant.StringVal(c.Value))))
			}
		}
		if b.Name() == "min" || b.Name() == "max" {
			sort.Strings(args)
			return pAtom(strings.Title(b.Name()) + "(" + strings.Join(args, ",") + ")")
		}
		return n.atom(b.Name() + "(" + strings.Join(args, ",") + ")")
	}
	// a method value (x.M bound earlier, called later): the method with its receiver put back
	if mc, ok := cc.Value.(*ssa.MakeClosure); ok && len(mc.Bindings) == 1 {
		if w, ok := mc.Fn.(*ssa.Function); ok && strings.Contains(w.Synthetic, "bound method") {
			var real *ssa.Function
			eachInstr(w, func(b *ssa.BasicBlock, ins ssa.Instruction) {
				if c2, ok := ins.(*ssa.Call); ok && c2.Common().StaticCallee() != nil {
					real = c2.Common().StaticCallee()
				}
			})
			if real != nil && isRepoFunc(real) {
				args := []string{n.Norm(mc.Bindings[0]).String()}
				for _, a := range cc.Args {
					args = append(args, n.Norm(a).String())
				}
				// (kept uninterpreted unless it is a single-block helper)
				if n.depth < n.MaxInline && inlinable(real) && !n.NoInline[n.P.FuncName(real)] {
					ret := real.Blocks[0].Instrs[len(real.Blocks[0].Instrs)-1].(*ssa.Return)
					env := map[ssa.Value]Poly{}
					all := append([]ssa.Value{mc.Bindings[0]}, cc.Args...)
					for i, p := range real.Params {
						if i < len(all) {
							env[p] = n.Norm(all[i])
						}
					}
					n.env = append(n.env, env)
					n.depth++
					res := n.Norm(ret.Results[0])
					n.depth--
					n.env = n.env[:len(n.env)-1]
					return res
				}
				return n.atom("call:" + n.P.FuncName(real) + "(" + strings.Join(args, ",") + ")")
			}
		}
	}
	callee := cc.StaticCallee()
	if callee == nil {
		// call of a function value
		args := []string{}
		for _, a := range cc.Args {
			args = append(args, n.Norm(a).String())
		}
		return pAtom("dyncall:" + n.Norm(cc.Value).asAtom() + "(" + strings.Join(args, ",") + ")")
	}
	var argp []Poly
	for _, a := range cc.Args {
		argp = append(argp, n.Norm(a))
	}
	full := callee.String()
	if callee.Pkg != nil && callee.Pkg.Pkg.Path() == "math" {
		switch callee.Name() {
		case "Min", "Max":
			s := []string{argp[0].asAtom(), argp[1].asAtom()}
			sort.Strings(s)
			return pAtom(callee.Name() + "(" + strings.Join(s, ",") + ")")
		}
	}
	// inline simple pure repo functions: a single block ending in Return
	if callee.Signature.Results().Len() == 1 {
		if r, ok := n.inlineCall(x, 0); ok {
			return r
		}
	}
	// well-known pure standard library accessors
	switch full {
	case "(image.Rectangle).Dx":
		b := n.Norm(cc.Args[0]).asAtom()
		return pAdd(pAtom(b+".Max.X"), pAtom(b+".Min.X"), -1)
	case "(image.Rectangle).Dy":
		b := n.Norm(cc.Args[0]).asAtom()
		return pAdd(pAtom(b+".Max.Y"), pAtom(b+".Min.Y"), -1)
	}
	var args []string
	for _, a := range argp {
		args = append(args, a.String())
	}
	name := full
	if callee.Pkg != nil && strings.HasPrefix(callee.Pkg.Pkg.Path(), modPath) {
		name = n.P.FuncName(callee)
	}
	return n.atom("call:" + name + "(" + strings.Join(args, ",") + ")")
}

// inlineCall: result idx of a call to a single-block pure repository function, with the
// arguments substituted for the parameters.
func (n *Normer) inlineCall(x *ssa.Call, idx int) (Poly, bool) {
	callee := x.Common().StaticCallee()
	if callee == nil || callee.Pkg == nil || !strings.HasPrefix(callee.Pkg.Pkg.Path(), modPath) || n.depth >= n.MaxInline || !inlinable(callee) || n.NoInline[n.P.FuncName(callee)] {
		return nil, false
	}
	ret := callee.Blocks[0].Instrs[len(callee.Blocks[0].Instrs)-1].(*ssa.Return)
	if idx >= len(ret.Results) {
		return nil, false
	}
	env := map[ssa.Value]Poly{}
	for i, p := range callee.Params {
		if i < len(x.Common().Args) {
			if _, isStruct := p.Type().Underlying().(*types.Struct); isStruct {
				continue // resolved field-wise through the calling context (fieldOf)
			}
			env[p] = n.Norm(x.Common().Args[i])
		}
	}
	n.env = append(n.env, env)
	n.depth++
	savedCtx := n.Ctx
	n.Ctx = append(append([]ssa.CallInstruction{}, savedCtx...), x)
	res := n.Norm(ret.Results[idx])
	n.Ctx = savedCtx
	n.depth--
	n.env = n.env[:len(n.env)-1]
	return res, true
}

func inlinable(fn *ssa.Function) bool {
	if len(fn.Blocks) != 1 {
		return false
	}
	b := fn.Blocks[0]
	ret, ok := b.Instrs[len(b.Instrs)-1].(*ssa.Return)
	if !ok || len(ret.Results) < 1 {
		return false
	}
	for _, ins := range b.Instrs {
		switch x := ins.(type) {
		case *ssa.Store:
			if a, _, ok := rootAlloc(x.Addr); ok && !a.Heap {
				continue // spill into a local of the helper
			}
			return false
		case *ssa.Send, *ssa.Go, *ssa.Defer, *ssa.MapUpdate, *ssa.Panic:
			return false
		}
	}
	return true
}

// ---------------------------------------------------------------------------------------------
// Reference formulas

// ParseRef parses a Go expression over role names into a polynomial. a/b -> Div(a,b),
// a%b -> Mod(a,b), a<<k -> a*2^k, F(a)/F(b) -> FDiv; Name(args...) is an uninterpreted atom.
func ParseRef(src string) (Poly, error) {
	e, err := parser.ParseExpr(src)
	if err != nil {
		return nil, err
	}
	return refPoly(e)
}

func MustRef(src string) Poly {
	p, err := ParseRef(src)
	if err != nil {
		panic("bad reference formula " + src + ": " + err.Error())
	}
	return p
}

func refPoly(e ast.Expr) (Poly, error) {
	switch x := e.(type) {
	case *ast.ParenExpr:
		return refPoly(x.X)
	case *ast.BasicLit:
		if x.Kind == token.INT {
			i, err := strconv.ParseInt(x.Value, 0, 64)
			return pConst(i), err
		}
		if x.Kind == token.STRING || x.Kind == token.CHAR {
			return pAtom("const:" + x.Value), nil
		}
	case *ast.Ident:
		return pAtom(x.Name), nil
	case *ast.SelectorExpr:
		b, err := refPoly(x.X)
		if err != nil {
			return nil, err
		}
		return pAtom(b.asAtom() + "." + x.Sel.Name), nil
	case *ast.UnaryExpr:
		a, err := refPoly(x.X)
		if err != nil {
			return nil, err
		}
		if x.Op == token.SUB {
			return pScale(a, -1), nil
		}
	case *ast.BinaryExpr:
		a, err := refPoly(x.X)
		if err != nil {
			return nil, err
		}
		b, err := refPoly(x.Y)
		if err != nil {
			return nil, err
		}
		switch x.Op {
		case token.ADD:
			return pAdd(a, b, 1), nil
		case token.SUB:
			return pAdd(a, b, -1), nil
		case token.MUL:
			return pMul(a, b), nil
		case token.QUO:
			ka, oka := a.IsConst()
			kb, okb := b.IsConst()
			if oka && okb && kb != 0 {
				return pConst(ka / kb), nil
			}
			return mkDiv(a, b), nil
		case token.REM:
			return mkMod(a, b), nil
		case token.SHL:
			if k, ok := b.IsConst(); ok {
				return pScale(a, 1<<uint(k)), nil
			}
			return pAtom("Shl(" + a.String() + "," + b.String() + ")"), nil
		case token.SHR:
			return pAtom("Shr(" + a.String() + "," + b.String() + ")"), nil
		}
	case *ast.IndexExpr:
		b, err := refPoly(x.X)
		if err != nil {
			return nil, err
		}
		i, err := refPoly(x.Index)
		if err != nil {
			return nil, err
		}
		return pAtom(b.asAtom() + "[" + i.String() + "]"), nil
	case *ast.CallExpr:
		id, ok := x.Fun.(*ast.Ident)
		if !ok {
			break
		}
		var args []Poly
		for _, a := range x.Args {
			p, err := refPoly(a)
			if err != nil {
				return nil, err
			}
			args = append(args, p)
		}
		var as []string
		for _, a := range args {
			switch id.Name {
			case "Div", "Mod", "Shr", "Shl", "F", "And", "Or", "Xor":
				as = append(as, a.String())
			default:
				as = append(as, a.asAtom())
			}
		}
		switch id.Name {
		case "Min", "Max", "And", "Or", "Xor":
			sort.Strings(as)
		}
		return pAtom(id.Name + "(" + strings.Join(as, ",") + ")"), nil
	}
	return nil, fmt.Errorf("unsupported reference expression %T", e)
}

// callSitesOf: static call sites of fn in the repository (non-test code).
func (p *Prog) callSitesOf(fn *ssa.Function) []ssa.CallInstruction {
	if p.sites == nil {
		p.sites = map[*ssa.Function][]ssa.CallInstruction{}
		for _, f := range append(append([]*ssa.Function{}, p.Funcs...), p.CanaryFuncs...) {
			eachInstr(f, func(b *ssa.BasicBlock, ins ssa.Instruction) {
				if ci, ok := ins.(ssa.CallInstruction); ok {
					if cal := ci.Common().StaticCallee(); cal != nil && isRepoFunc(cal) {
						p.sites[cal] = append(p.sites[cal], ci)
					}
				}
			})
		}
	}
	return p.sites[fn]
}

// resolveParam: the value of parameter idx of helper fn, if every call site passes the same
// (normal form of the) argument. Exported functions are not resolved (unknown callers).
func (n *Normer) resolveParam(fn *ssa.Function, idx int) (Poly, bool) {
	p := fn.Params[idx]
	if n.resolving == nil {
		n.resolving = map[*ssa.Parameter]bool{}
	}
	if n.resolving[p] || len(n.resolving) > 6 {
		return nil, false
	}
	n.resolving[p] = true
	defer delete(n.resolving, p)
	// calling context first (innermost matching call)
	for k := len(n.Ctx) - 1; k >= 0; k-- {
		if n.Ctx[k].Common().StaticCallee() == fn {
			args := n.Ctx[k].Common().Args
			if idx >= len(args) {
				return nil, false
			}
			saved := n.Ctx
			n.Ctx = n.Ctx[:k]
			v := n.Norm(args[idx])
			n.Ctx = saved
			return v, true
		}
	}
	if fn.Parent() != nil {
		return nil, false // closures are resolved through an explicit calling context only
	}
	if fn.Object() != nil && fn.Object().Exported() {
		return nil, false // unknown callers outside the repository
	}
	sites := n.P.callSitesOf(fn)
	if len(sites) == 0 {
		return nil, false
	}
	var agreed Poly
	for i, s := range sites {
		args := s.Common().Args
		if idx >= len(args) {
			return nil, false
		}
		v := n.Norm(args[idx])
		if i == 0 {
			agreed = v
		} else if !pEqual(agreed, v) {
			return nil, false
		}
	}
	return agreed, true
}

func (n *Normer) atom(s string) Poly {
	if r, ok := n.AtomAlias[s]; ok {
		return pAtom(r)
	}
	return pAtom(s)
}

// ---------------------------------------------------------------------------------------------
// Deep search: instructions of a function and of the unexported same-package helpers it calls
// (so that extracting code into a helper does not hide it from a rule).

type DeepSite struct {
	Ins  ssa.Instruction
	Fn   *ssa.Function
	Path []ssa.CallInstruction // calls leading from the root function to Fn
}

func (p *Prog) deepEach(root *ssa.Function, maxDepth int, f func(s DeepSite)) {
	var walk func(fn *ssa.Function, path []ssa.CallInstruction)
	walk = func(fn *ssa.Function, path []ssa.CallInstruction) {
		eachInstr(fn, func(b *ssa.BasicBlock, ins ssa.Instruction) {
			f(DeepSite{ins, fn, path})
			if len(path) >= maxDepth {
				return
			}
			ci, ok := ins.(ssa.CallInstruction)
			if !ok {
				return
			}
			cal := ci.Common().StaticCallee()
			if cal == nil || !isRepoFunc(cal) || cal.Blocks == nil {
				return
			}
			if cal.Parent() != nil {
				// a function literal of this very function, called directly
				if cal.Parent() != fn {
					return
				}
			} else if cal.Pkg != root.Pkg || cal.Object() == nil || cal.Object().Exported() {
				return
			}
			for _, pc := range path {
				if pc.Common().StaticCallee() == cal {
					return
				}
			}
			if cal == root {
				return
			}
			walk(cal, append(append([]ssa.CallInstruction{}, path...), ci))
		})
	}
	walk(root, nil)
}

// deepCallsTo: calls to target in root or its helpers (depth <= 2).
func (p *Prog) deepCallsTo(root, target *ssa.Function) []DeepSite {
	var out []DeepSite
	if root == nil || target == nil {
		return nil
	}
	p.deepEach(root, 2, func(s DeepSite) {
		if c, ok := s.Ins.(*ssa.Call); ok && c.Common().StaticCallee() == target {
			out = append(out, s)
		}
	})
	return out
}

// ReachCondDeep: condition (relative to `from` in root, nil = entry) under which the site's
// instruction is reached, through the chain of helper calls.
func (n *Normer) ReachCondDeep(root *ssa.Function, from *ssa.BasicBlock, s DeepSite) *Cond {
	saved := n.Ctx
	defer func() { n.Ctx = saved }()
	cond := cTrue
	cur := root
	for k, call := range s.Path {
		n.Ctx = s.Path[:k]
		f := from
		if k > 0 {
			f = nil
		}
		cond = cAnd(cond, n.ReachCond(cur, f, call.Block()))
		cur = call.Common().StaticCallee()
	}
	n.Ctx = s.Path
	f := from
	if len(s.Path) > 0 {
		f = nil
	}
	return cAnd(cond, n.ReachCond(cur, f, s.Ins.Block()))
}

// NormAt: normal form of v (a value of the site's function) in the site's calling context.
func (n *Normer) NormAt(s DeepSite, v ssa.Value) Poly {
	saved := n.Ctx
	n.Ctx = s.Path
	defer func() { n.Ctx = saved }()
	return n.Norm(v)
}

// ---------------------------------------------------------------------------------------------
// Struct value flow: the value of one field of a struct VALUE that is built locally (composite
// literal or field-wise stores into a local), handed over as an argument, or returned by a helper.
// Grouping a few values in a small struct does not hide them from the rules.

// paramArg: the argument bound to parameter p in the current calling context, or at the only call
// site of an unexported function.
func (n *Normer) paramArg(p *ssa.Parameter) (ssa.Value, []ssa.CallInstruction, bool) {
	fn := p.Parent()
	idx := -1
	for i, q := range fn.Params {
		if q == p {
			idx = i
		}
	}
	if idx < 0 {
		return nil, nil, false
	}
	for k := len(n.Ctx) - 1; k >= 0; k-- {
		if n.Ctx[k].Common().StaticCallee() == fn {
			args := n.Ctx[k].Common().Args
			if idx >= len(args) {
				return nil, nil, false
			}
			return args[idx], n.Ctx[:k], true
		}
	}
	if n.Root == fn || fn.Parent() != nil || (fn.Object() != nil && fn.Object().Exported()) {
		return nil, nil, false
	}
	sites := n.P.callSitesOf(fn)
	if len(sites) != 1 || idx >= len(sites[0].Common().Args) {
		return nil, nil, false
	}
	return sites[0].Common().Args[idx], nil, true
}

func (n *Normer) fieldOf(v ssa.Value, f int, depth int) (Poly, bool) {
	if depth > 5 {
		return nil, false
	}
	if _, bound := n.Bind[v]; bound {
		return nil, false
	}
	for i := len(n.env) - 1; i >= 0; i-- {
		if _, ok := n.env[i][v]; ok {
			return nil, false
		}
	}
	switch x := v.(type) {
	case *ssa.UnOp:
		if x.Op != token.MUL {
			return nil, false
		}
		a, apath, ok := rootAlloc(x.X) // also a local of the enclosing function captured by this closure
		if !ok || len(apath) != 0 {
			return nil, false
		}
		dominatesInstr := func(st *ssa.Store, ld ssa.Instruction) bool {
			if st.Parent() == ld.Parent() {
				return dominatesInstr(st, ld)
			}
			// written in the enclosing function before the closure that reads it is created
			if st.Parent() != a.Parent() {
				return false
			}
			cl := ld.Parent()
			for cl != nil && cl.Parent() != a.Parent() {
				cl = cl.Parent()
			}
			if cl == nil {
				return false
			}
			okAll, any := true, false
			eachInstr(a.Parent(), func(b *ssa.BasicBlock, ins ssa.Instruction) {
				if mc, isMC := ins.(*ssa.MakeClosure); isMC && mc.Fn == ssa.Value(cl) {
					any = true
					if !dominatesInstr(st, mc) {
						okAll = false
					}
				}
			})
			return okAll && any
		}
		stores, paths, _ := storesTo(a)
		var field, whole []*ssa.Store
		for i, st := range stores {
			switch {
			case len(paths[i]) == 1 && paths[i][0] == f:
				field = append(field, st)
			case len(paths[i]) == 0:
				whole = append(whole, st)
			case len(paths[i]) > 1 && paths[i][0] == f:
				return nil, false // nested writes into the field
			}
		}
		switch {
		case len(field) == 1 && len(whole) == 0 && dominatesInstr(field[0], x):
			return n.Norm(field[0].Val), true
		case len(field) == 0 && len(whole) == 1 && dominatesInstr(whole[0], x):
			return n.fieldOf(whole[0].Val, f, depth+1)
		case len(field) == 0 && len(whole) == 0:
			// zero value of the field
			if st, ok := a.Type().Underlying().(*types.Pointer).Elem().Underlying().(*types.Struct); ok && f < st.NumFields() && isIntType(st.Field(f).Type()) {
				return pConst(0), true
			}
		}
		return nil, false
	case *ssa.Index:
		// element of a local literal table (copied as a value) at a known position
		ld, isLd := x.X.(*ssa.UnOp)
		if !isLd || ld.Op != token.MUL {
			return nil, false
		}
		alloc, isAlloc := ld.X.(*ssa.Alloc)
		if !isAlloc {
			return nil, false
		}
		k, isK := n.Norm(x.Index).IsConst()
		if !isK {
			return nil, false
		}
		if st := tableCellStore(alloc, k, []int{f}, ld, 0); st != nil {
			return n.Norm(st.Val), true // the literal writes the element field by field
		}
		st := tableCellStore(alloc, k, nil, ld, 0)
		if st != nil {
			return n.fieldOf(st.Val, f, depth+1)
		}
		return nil, false
	case *ssa.Parameter:
		if v, ok := valAlias[x]; ok {
			return n.fieldOf(v, f, depth+1)
		}
		arg, ctx, ok := n.paramArg(x)
		if !ok {
			return nil, false
		}
		saved := n.Ctx
		n.Ctx = ctx
		p, ok := n.fieldOf(arg, f, depth+1)
		if !ok {
			// the argument itself may be an ordinary struct value: project by name
			if _, isStruct := arg.Type().Underlying().(*types.Struct); isStruct {
				st := arg.Type().Underlying().(*types.Struct)
				p, ok = pAtom(n.Norm(arg).asAtom()+"."+fname(st.Field(f))), true
			}
		}
		n.Ctx = saved
		return p, ok
	case *ssa.Call:
		cal := x.Common().StaticCallee()
		if cal == nil || !isRepoFunc(cal) || cal.Blocks == nil || cal.Signature.Results().Len() != 1 {
			return nil, false
		}
		rets := returnsOf(cal)
		if len(rets) != 1 {
			return nil, false
		}
		for _, c := range n.Ctx {
			if c.Common().StaticCallee() == cal {
				return nil, false
			}
		}
		saved := n.Ctx
		n.Ctx = append(append([]ssa.CallInstruction{}, saved...), x)
		p, ok := n.fieldOf(rets[0].Results[0], f, depth+1)
		n.Ctx = saved
		return p, ok
	case *ssa.Extract:
		call, ok := x.Tuple.(*ssa.Call)
		if !ok {
			return nil, false
		}
		cal := call.Common().StaticCallee()
		if cal == nil || !isRepoFunc(cal) || cal.Blocks == nil {
			return nil, false
		}
		rets := returnsOf(cal)
		if len(rets) != 1 || x.Index >= len(rets[0].Results) {
			return nil, false
		}
		saved := n.Ctx
		n.Ctx = append(append([]ssa.CallInstruction{}, saved...), call)
		p, ok := n.fieldOf(rets[0].Results[x.Index], f, depth+1)
		n.Ctx = saved
		return p, ok
	}
	return nil, false
}

// resultSpillStore: in a function with deferred calls go/ssa compiles `return v` to "store v into a
// result local; run the defers; load it; return". When the local is private to the function (not
// captured by a closure, address not passed on) the load yields the value stored last before it in
// the same block.
func resultSpillStore(ld *ssa.UnOp) *ssa.Store {
	a, ok := ld.X.(*ssa.Alloc)
	if !ok || a.Heap {
		return nil
	}
	for _, r := range *a.Referrers() {
		switch x := r.(type) {
		case *ssa.Store:
			if x.Addr != ssa.Value(a) {
				return nil
			}
		case *ssa.UnOp, *ssa.DebugRef:
		default:
			return nil
		}
	}
	// only when the load feeds a return directly
	feedsReturn := false
	for _, r := range *ld.Referrers() {
		if _, isRet := r.(*ssa.Return); isRet {
			feedsReturn = true
		}
	}
	if !feedsReturn {
		return nil
	}
	var last *ssa.Store
	for _, ins := range ld.Block().Instrs {
		if ins == ssa.Instruction(ld) {
			break
		}
		if st, ok := ins.(*ssa.Store); ok && st.Addr == ssa.Value(a) {
			last = st
		}
	}
	return last
}

// mkMod: a % b, with (x % k) % k = x % k for a constant k (true for either sign of x).
func mkMod(a, b Poly) Poly {
	if k, ok := b.IsConst(); ok && k != 0 && len(a) == 1 {
		suffix := "," + b.String() + ")"
		for m, cf := range a {
			if cf == 1 && strings.HasPrefix(m, "Mod(") && strings.HasSuffix(m, suffix) && !strings.Contains(m, "*") {
				// a is itself one Mod(..., k) atom
				depth, okAtom := 0, true
				for i, ch := range m {
					if ch == '(' {
						depth++
					} else if ch == ')' {
						depth--
						if depth == 0 && i != len(m)-1 {
							okAtom = false
						}
					}
				}
				if okAtom {
					return a
				}
			}
		}
	}
	return pAtom("Mod(" + a.String() + "," + b.String() + ")")
}

// constStringByte: byte k of a constant string, for a constant position k inside it.
func (n *Normer) constStringByte(sv, idx ssa.Value) (int64, bool) {
	k, ok := sv.(*ssa.Const)
	if !ok || k.Value == nil || k.Value.Kind() != constant.String {
		return 0, false
	}
	i, isK := n.Norm(idx).IsConst()
	str := constant.StringVal(k.Value)
	if !isK || i < 0 || i >= int64(len(str)) {
		return 0, false
	}
	return int64(str[i]), true
}
