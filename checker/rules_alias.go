package main

import (
	"fmt"
	"go/token"
	"go/types"

	"golang.org/x/tools/go/ssa"
)

// ALIAS (U1): a slice handed to an exported encoder is neither retained (stored in a heap
// object, global, closure or channel) nor written through, following calls (static and, for
// interface methods, every implementing method of the repo) to a bounded depth.

type aliasFinding struct {
	pos  token.Pos
	what string
}

type aliasCtx struct {
	c       *Ctx
	visited map[string]bool
	finds   []aliasFinding
	sites   int
}

func (a *aliasCtx) track(fn *ssa.Function, v ssa.Value, depth int, trail string) (returned bool) {
	key := fmt.Sprintf("%s/%s", a.c.P.FuncName(fn), v.Name())
	if a.visited[key] {
		return false
	}
	a.visited[key] = true
	a.c.Fn(a.c.P.FuncName(fn))
	refs := v.Referrers()
	if refs == nil {
		return false
	}
	here := trail + a.c.P.FuncName(fn)
	for _, r := range *refs {
		a.sites++
		switch i := r.(type) {
		case *ssa.DebugRef, *ssa.Index, *ssa.Lookup, *ssa.Range:
		case *ssa.IndexAddr:
			// reads are fine, writes through the element address are not
			for _, r2 := range *i.Referrers() {
				if st, ok := r2.(*ssa.Store); ok && st.Addr == i {
					a.finds = append(a.finds, aliasFinding{st.Pos(), here + ": writes through the caller's slice"})
				}
			}
		case *ssa.Phi, *ssa.ChangeType, *ssa.Slice:
			if a.track(fn, i.(ssa.Value), depth, trail) {
				returned = true
			}
		case *ssa.Convert:
			// []byte -> string copies
			if _, isSlice := i.Type().Underlying().(*types.Slice); isSlice {
				if a.track(fn, i, depth, trail) {
					returned = true
				}
			}
		case *ssa.MakeInterface:
			a.finds = append(a.finds, aliasFinding{i.Pos(), here + ": caller's slice boxed into an interface"})
		case *ssa.Store:
			if i.Val != v {
				continue
			}
			if al, _, ok := rootAlloc(i.Addr); ok && !al.Heap {
				// local cell: follow its loads
				for _, ar := range *al.Referrers() {
					if ld, ok := ar.(*ssa.UnOp); ok && ld.Op == token.MUL {
						if a.track(fn, ld, depth, trail) {
							returned = true
						}
					}
				}
				continue
			}
			if al, path, ok := rootAlloc(i.Addr); ok && al.Heap && len(path) == 0 && al.Parent() == fn {
				// a variable captured by closures that are only called while this call is running
				if ret, ok := a.capturedCell(fn, al, depth, trail); ok {
					if ret {
						returned = true
					}
					continue
				}
			}
			a.finds = append(a.finds, aliasFinding{i.Pos(), here + ": caller's slice stored into " + describeAddr(a.c, i.Addr) + " without copying"})
		case *ssa.MapUpdate:
			a.finds = append(a.finds, aliasFinding{i.Pos(), here + ": caller's slice stored into a map"})
		case *ssa.Send:
			a.finds = append(a.finds, aliasFinding{i.Pos(), here + ": caller's slice sent on a channel"})
		case *ssa.MakeClosure:
			a.finds = append(a.finds, aliasFinding{i.Pos(), here + ": caller's slice captured by a closure"})
		case *ssa.Return:
			returned = true
		case ssa.CallInstruction:
			cc := i.Common()
			if b, ok := cc.Value.(*ssa.Builtin); ok {
				switch b.Name() {
				case "append":
					if cc.Args[0] == v {
						a.finds = append(a.finds, aliasFinding{i.Pos(), here + ": append onto the caller's slice may write into its backing array"})
					}
				case "copy":
					if cc.Args[0] == v {
						a.finds = append(a.finds, aliasFinding{i.Pos(), here + ": copy into the caller's slice"})
					}
				}
				continue
			}
			var callees []*ssa.Function
			if cc.IsInvoke() {
				callees = a.c.P.implementations(cc.Value.Type(), cc.Method)
				if len(callees) == 0 {
					a.finds = append(a.finds, aliasFinding{i.Pos(), here + ": passed to unresolved interface method " + cc.Method.Name()})
				}
			} else if sc := cc.StaticCallee(); sc != nil {
				callees = []*ssa.Function{sc}
			} else {
				a.finds = append(a.finds, aliasFinding{i.Pos(), here + ": passed to a dynamic call"})
				continue
			}
			for _, cal := range callees {
				if !isRepoFunc(cal) || cal.Blocks == nil {
					if !knownReadOnly(cal) {
						a.finds = append(a.finds, aliasFinding{i.Pos(), here + ": passed to " + cal.String() + " (not known to be read-only)"})
					}
					continue
				}
				if depth >= 5 {
					a.finds = append(a.finds, aliasFinding{i.Pos(), here + ": call depth bound reached at " + a.c.P.FuncName(cal)})
					continue
				}
				off := 0
				if cc.IsInvoke() {
					off = 1 // receiver is params[0]
				}
				for ai, arg := range cc.Args {
					if arg == v && ai+off < len(cal.Params) {
						if a.track(cal, cal.Params[ai+off], depth+1, here+" -> ") {
							// callee returns an alias: the call's value is an alias here
							if val, ok := i.(ssa.Value); ok {
								if a.track(fn, val, depth, trail) {
									returned = true
								}
							}
						}
					}
				}
			}
		default:
			a.finds = append(a.finds, aliasFinding{instrPos(r), fmt.Sprintf("%s: unclassified use %T", here, r)})
		}
	}
	return returned
}

// capturedCell: the variable al of fn holds the tracked slice and is shared with closures. ok=false
// when the variable or one of the closures may outlive the call (the address or the closure value is
// stored, returned, started as a goroutine or handed to code that does more than call it). Otherwise
// the reads of the variable - in fn and inside the closures - are tracked like any other alias.
func (a *aliasCtx) capturedCell(fn *ssa.Function, al *ssa.Alloc, depth int, trail string) (returned, ok bool) {
	type capture struct {
		mc *ssa.MakeClosure
		fv *ssa.FreeVar
	}
	var loads []*ssa.UnOp
	var caps []capture
	for _, r := range *al.Referrers() {
		switch x := r.(type) {
		case *ssa.DebugRef:
		case *ssa.Store:
			if x.Addr != ssa.Value(al) {
				return false, false
			}
		case *ssa.UnOp:
			loads = append(loads, x)
		case *ssa.MakeClosure:
			cl := x.Fn.(*ssa.Function)
			for k, b := range x.Bindings {
				if b == ssa.Value(al) && k < len(cl.FreeVars) {
					caps = append(caps, capture{x, cl.FreeVars[k]})
				}
			}
		default:
			return false, false
		}
	}
	if depth >= 5 {
		return false, false
	}
	for _, cp := range caps {
		if !a.closureContained(cp.mc, 0) {
			return false, false
		}
		for _, r := range *cp.fv.Referrers() {
			switch x := r.(type) {
			case *ssa.DebugRef, *ssa.Store:
				if st, isSt := x.(*ssa.Store); isSt && st.Addr != ssa.Value(cp.fv) {
					return false, false
				}
			case *ssa.UnOp:
			default:
				return false, false // captured again by an inner closure, address passed on, ...
			}
		}
	}
	here := trail + a.c.P.FuncName(fn)
	for _, ld := range loads {
		if a.track(fn, ld, depth, trail) {
			returned = true
		}
	}
	for _, cp := range caps {
		cl := cp.mc.Fn.(*ssa.Function)
		for _, r := range *cp.fv.Referrers() {
			if ld, isLd := r.(*ssa.UnOp); isLd {
				if a.track(cl, ld, depth+1, here+" -> ") {
					// the closure hands an alias back to whoever calls it
					a.finds = append(a.finds, aliasFinding{cp.mc.Pos(), here + ": closure returns an alias of the caller's slice"})
				}
			}
		}
	}
	return returned, true
}

// closureContained: the function value v is only called (directly, deferred, or by repo functions
// that receive it as a parameter and only call it or pass it on likewise).
func (a *aliasCtx) closureContained(v ssa.Value, depth int) bool {
	if depth > 3 || v.Referrers() == nil {
		return false
	}
	for _, r := range *v.Referrers() {
		switch x := r.(type) {
		case *ssa.DebugRef:
		case *ssa.Go:
			return false
		case ssa.CallInstruction:
			cc := x.Common()
			if cc.Value == v {
				continue
			}
			cal := cc.StaticCallee()
			if cal == nil || !isRepoFunc(cal) || cal.Blocks == nil || cc.IsInvoke() {
				return false
			}
			for ai, arg := range cc.Args {
				if arg == v {
					if ai >= len(cal.Params) || !a.closureContained(cal.Params[ai], depth+1) {
						return false
					}
				}
			}
		default:
			return false
		}
	}
	return true
}

func describeAddr(c *Ctx, addr ssa.Value) string {
	n := NewNormer(c.P)
	r, p, ok := n.addrPath(addr)
	if !ok {
		return addr.String()
	}
	return r + p
}

func knownReadOnly(fn *ssa.Function) bool {
	if fn.Pkg == nil {
		return false
	}
	switch fn.Pkg.Pkg.Path() {
	case "bytes", "strings", "unicode/utf8", "fmt", "strconv", "errors":
		return true
	}
	return false
}

// implementations: repo methods named like m on types implementing iface.
func (p *Prog) implementations(iface types.Type, m *types.Func) []*ssa.Function {
	it, ok := iface.Underlying().(*types.Interface)
	if !ok {
		return nil
	}
	var out []*ssa.Function
	for _, fn := range append(append([]*ssa.Function{}, p.Funcs...), p.CanaryFuncs...) {
		recv := fn.Signature.Recv()
		if recv == nil || fn.Name() != m.Name() || fn.Parent() != nil {
			continue
		}
		if types.Implements(recv.Type(), it) {
			out = append(out, fn)
		}
	}
	return out
}

func ruleAlias(c *Ctx) {
	const R = "U1-ALIAS"
	c.Doc(R, "no slice parameter of an exported function of an encoder package is retained (heap store, global, map, closure, channel, interface) or written through, following static calls and all repo implementations of interface methods to depth 5")
	c.Floor(R, 2)
	for _, fn := range append(append([]*ssa.Function{}, c.P.Funcs...), c.P.CanaryFuncs...) {
		if fn.Parent() != nil || fn.Pkg == nil || fn.Signature.Recv() != nil {
			continue
		}
		pk := shortName(fn.Pkg.Pkg.Path())
		if pk == "utils" || (!token.IsExported(fn.Name()) && !c.P.IsCanaryPos(fn.Pos())) {
			continue
		}
		for pi, p := range fn.Params {
			if _, ok := p.Type().Underlying().(*types.Slice); !ok {
				continue
			}
			a := &aliasCtx{c: c, visited: map[string]bool{}}
			a.track(fn, p, 0, "")
			c.Count["alias_use_sites"] += a.sites
			found := fmt.Sprintf("%d uses followed, none retains or writes", a.sites)
			pos := p.Pos()
			if len(a.finds) > 0 {
				found = ""
				for i, f := range a.finds {
					if i > 0 {
						found += "; "
					}
					found += f.what + " (" + c.P.Pos(f.pos) + ")"
				}
				if !c.P.IsCanaryPos(pos) {
					pos = a.finds[0].pos
				}
			}
			c.Check(R, fmt.Sprintf("%s/param#%d", c.P.FuncName(fn), pi), pos, len(a.finds) == 0, "slice parameter only read, never retained", found)
		}
	}
}

func init() {
	canaries = append(canaries, canary{Pkg: "aztec", Rule: "U1-ALIAS", Src: `
type zzVerifKeep struct{ b []byte }

func zzVerifCanaryAlias(data []byte) *zzVerifKeep {
	k := new(zzVerifKeep)
	k.b = data[1:]
	return k
}`})
	canaryExpect["U1-ALIAS"] = []string{"zzVerifCanaryAlias"}
}
