package main

import (
	"go/token"
	"strings"

	"golang.org/x/tools/go/ssa"
)

// tmpl substitutes {name} placeholders.
func tmpl(s string, m map[string]string) string {
	for i := 0; i < 6; i++ { // nested placeholders
		for k, v := range m {
			s = strings.ReplaceAll(s, "{"+k+"}", "("+v+")")
		}
	}
	return s
}

// expectPoly compares the normal form of an SSA value with a reference formula.
func (c *Ctx) expectPoly(R, key string, pos token.Pos, n *Normer, v ssa.Value, ref string) bool {
	n.Opaque = false
	n.OpaqueWhy = nil
	got := n.Norm(v)
	want := MustRef(ref)
	if n.Opaque && !pEqual(got, want) {
		c.Undecided(R, key, pos, "expression outside the decidable fragment ("+strings.Join(n.OpaqueWhy, "; ")+"): "+got.String()+"; expected "+want.String())
		return false
	}
	return c.Check(R, key, pos, pEqual(got, want), want.String(), got.String())
}

// expectCond compares a condition with a reference condition (semantic equivalence).
func (c *Ctx) expectCond(R, key string, pos token.Pos, got *Cond, ref string) bool {
	want := MustRefCond(ref)
	eq, w := CondEquivalent(got, want)
	found := got.String()
	if !eq {
		found += "; differs at " + w
	}
	return c.Check(R, key, pos, eq, want.String(), found)
}

func (c *Ctx) expectCondC(R, key string, pos token.Pos, got, want *Cond) bool {
	eq, w := CondEquivalent(got, want)
	found := got.String()
	if !eq {
		found += "; differs at " + w
	}
	return c.Check(R, key, pos, eq, want.String(), found)
}

// theFunc fetches a function or records an ANCHOR failure.
func (c *Ctx) theFunc(R, name string) *ssa.Function {
	fn := c.P.Func(name)
	if fn == nil {
		c.Anchor(R, name, "function not found")
		return nil
	}
	c.Fn(name)
	return fn
}

// invokeOn finds the unique interface-method invocation recv.method() in fn.
func invokeOn(fn *ssa.Function, recv ssa.Value, method string) *ssa.Call {
	var found *ssa.Call
	n := 0
	eachInstr(fn, func(b *ssa.BasicBlock, ins ssa.Instruction) {
		if call, ok := ins.(*ssa.Call); ok && call.Common().IsInvoke() && call.Common().Method.Name() == method {
			v := call.Common().Value
			if v == recv || loadsFromSpillOf(v, recv) {
				found = call
				n++
			}
		}
	})
	if n >= 1 {
		return found
	}
	return nil
}

// loadsFromSpillOf: v is a load of a cell whose only store is p (parameter spilled for a closure).
func loadsFromSpillOf(v, p ssa.Value) bool {
	ld, ok := v.(*ssa.UnOp)
	if !ok || ld.Op != token.MUL {
		return false
	}
	a, _, ok := rootAlloc(ld.X)
	if !ok {
		return false
	}
	stores, paths, _ := storesTo(a)
	return len(stores) == 1 && len(paths[0]) == 0 && stores[0].Val == p
}

// closuresOf lists the anonymous functions created in fn.
func closuresOf(fn *ssa.Function) []*ssa.MakeClosure {
	var out []*ssa.MakeClosure
	eachInstr(fn, func(b *ssa.BasicBlock, ins ssa.Instruction) {
		if mc, ok := ins.(*ssa.MakeClosure); ok {
			out = append(out, mc)
		}
	})
	return out
}

// variadicElems returns the values stored into the backing array of a `slice t[:]` argument that
// go/ssa builds for variadic calls and slice literals (index -> value).
func variadicElems(arg ssa.Value) map[int]ssa.Value {
	sl, ok := arg.(*ssa.Slice)
	if !ok {
		return nil
	}
	a, ok := sl.X.(*ssa.Alloc)
	if !ok {
		return nil
	}
	out := map[int]ssa.Value{}
	for _, r := range *a.Referrers() {
		ia, ok := r.(*ssa.IndexAddr)
		if !ok {
			continue
		}
		k, ok := constInt(ia.Index)
		if !ok {
			return nil
		}
		for _, r2 := range *ia.Referrers() {
			if st, ok := r2.(*ssa.Store); ok && st.Addr == ssa.Value(ia) {
				out[k] = st.Val
			}
		}
	}
	return out
}

// bindByNorm gives role to every integer value of fn whose normal form is the given atom
// (several loads of the same location are distinct SSA values).
func bindByNorm(n *Normer, fn *ssa.Function, atom, role string) {
	var hits []ssa.Value
	eachInstr(fn, func(b *ssa.BasicBlock, ins ssa.Instruction) {
		v, ok := ins.(ssa.Value)
		if !ok || !isIntType(v.Type()) {
			return
		}
		if _, isLoad := v.(*ssa.UnOp); !isLoad {
			return
		}
		if n.Norm(v).String() == atom {
			hits = append(hits, v)
		}
	})
	for _, v := range hits {
		n.Bind[v] = role
	}
}
