package main

import (
	"fmt"
	"go/token"
	"go/types"
	"strings"

	"golang.org/x/tools/go/ssa"
)

// tmpl substitutes {name} placeholders.
func tmpl(s string, m map[string]string) string {
	for i := 0; i < 6; i++ { // nested placeholders
		for k, v := range m {
			s = strings.ReplaceAll(s, "{"+k+"}", "("+v+")")
		}
	}
	return s
}

// expectPoly compares the normal form of an SSA value with a reference formula.
func (c *Ctx) expectPoly(R, key string, pos token.Pos, n *Normer, v ssa.Value, ref string) bool {
	n.Opaque = false
	n.OpaqueWhy = nil
	got := n.Norm(v)
	want := MustRef(ref)
	if n.Opaque && !pEqual(got, want) {
		c.Undecided(R, key, pos, "expression outside the decidable fragment ("+strings.Join(n.OpaqueWhy, "; ")+"): "+got.String()+"; expected "+want.String())
		return false
	}
	return c.Check(R, key, pos, pEqual(got, want), want.String(), got.String())
}

// expectPolyUnder: like expectPoly, for a value that is only defined by cases (a result of a helper
// with several returns, a phi): the alternatives that are compatible with the condition `reach` under
// which the value is used must all have the expected normal form.
func (c *Ctx) expectPolyUnder(R, key string, pos token.Pos, n *Normer, fn *ssa.Function, reach *Cond, v ssa.Value, ref string) bool {
	n.Opaque = false
	n.OpaqueWhy = nil
	direct := n.Norm(v)
	want := MustRef(ref)
	if pEqual(direct, want) {
		return c.Check(R, key, pos, true, want.String(), direct.String())
	}
	var feasible []valCase
	for _, cs := range n.valueCases(fn, nil, v, 0) {
		if eq, _ := CondEquivalent(cAnd(reach, cs.cond), cFalse); !eq {
			feasible = append(feasible, cs)
		}
	}
	if len(feasible) == 0 {
		return c.expectPoly(R, key, pos, n, v, ref)
	}
	ok := true
	found := ""
	for _, cs := range feasible {
		if !pEqual(cs.val, want) {
			ok = false
		}
		found += cs.val.String() + " when " + cs.cond.String() + "; "
	}
	return c.Check(R, key, pos, ok, want.String(), found)
}

// expectCond compares a condition with a reference condition (semantic equivalence).
func (c *Ctx) expectCond(R, key string, pos token.Pos, got *Cond, ref string) bool {
	want := MustRefCond(ref)
	eq, w := CondEquivalent(got, want)
	found := got.String()
	if !eq {
		found += "; differs at " + w
	}
	return c.Check(R, key, pos, eq, want.String(), found)
}

func (c *Ctx) expectCondC(R, key string, pos token.Pos, got, want *Cond) bool {
	eq, w := CondEquivalent(got, want)
	found := got.String()
	if !eq {
		found += "; differs at " + w
	}
	return c.Check(R, key, pos, eq, want.String(), found)
}

// theFunc fetches a function or records an ANCHOR failure.
func (c *Ctx) theFunc(R, name string) *ssa.Function {
	fn := c.P.Func(name)
	if fn == nil {
		c.Anchor(R, name, "function not found")
		return nil
	}
	c.Fn(name)
	return fn
}

// invokeOn finds the unique interface-method invocation recv.method() in fn.
func invokeOn(fn *ssa.Function, recv ssa.Value, method string) *ssa.Call {
	var found *ssa.Call
	n := 0
	eachInstr(fn, func(b *ssa.BasicBlock, ins ssa.Instruction) {
		if call, ok := ins.(*ssa.Call); ok && call.Common().IsInvoke() && call.Common().Method.Name() == method {
			v := call.Common().Value
			if v == recv || loadsFromSpillOf(v, recv) {
				found = call
				n++
			}
		}
	})
	if n >= 1 {
		return found
	}
	return nil
}

// loadsFromSpillOf: v is a load of a cell whose only store is p (parameter spilled for a closure).
func loadsFromSpillOf(v, p ssa.Value) bool {
	ld, ok := v.(*ssa.UnOp)
	if !ok || ld.Op != token.MUL {
		return false
	}
	a, _, ok := rootAlloc(ld.X)
	if !ok {
		return false
	}
	stores, paths, _ := storesTo(a)
	return len(stores) == 1 && len(paths[0]) == 0 && stores[0].Val == p
}

// closuresOf lists the anonymous functions created in fn.
func closuresOf(fn *ssa.Function) []*ssa.MakeClosure {
	var out []*ssa.MakeClosure
	eachInstr(fn, func(b *ssa.BasicBlock, ins ssa.Instruction) {
		if mc, ok := ins.(*ssa.MakeClosure); ok {
			out = append(out, mc)
		}
	})
	return out
}

// variadicElems returns the values stored into the backing array of a `slice t[:]` argument that
// go/ssa builds for variadic calls and slice literals (index -> value).
func variadicElems(arg ssa.Value) map[int]ssa.Value {
	sl, ok := arg.(*ssa.Slice)
	if !ok {
		return nil
	}
	a, ok := sl.X.(*ssa.Alloc)
	if !ok {
		return nil
	}
	out := map[int]ssa.Value{}
	for _, r := range *a.Referrers() {
		ia, ok := r.(*ssa.IndexAddr)
		if !ok {
			continue
		}
		k, ok := constInt(ia.Index)
		if !ok {
			return nil
		}
		for _, r2 := range *ia.Referrers() {
			if st, ok := r2.(*ssa.Store); ok && st.Addr == ssa.Value(ia) {
				out[k] = st.Val
			}
		}
	}
	return out
}

// bindByNorm gives role to every integer value of fn whose normal form is the given atom
// (several loads of the same location are distinct SSA values).
func bindByNorm(n *Normer, fn *ssa.Function, atom, role string) {
	var hits []ssa.Value
	eachInstr(fn, func(b *ssa.BasicBlock, ins ssa.Instruction) {
		v, ok := ins.(ssa.Value)
		if !ok || !isIntType(v.Type()) {
			return
		}
		if _, isLoad := v.(*ssa.UnOp); !isLoad {
			return
		}
		if n.Norm(v).String() == atom {
			hits = append(hits, v)
		}
	})
	for _, v := range hits {
		n.Bind[v] = role
	}
}

// flattenArgs: the arguments of a call with every struct-literal argument (a value loaded from a
// local composite literal) replaced by the values of its fields, in field order. Rules that pick
// arguments by role/type keep working when a few parameters are grouped into a small struct.
func flattenArgs(args []ssa.Value) []ssa.Value {
	var out []ssa.Value
	for _, a := range args {
		st, isStruct := a.Type().Underlying().(*types.Struct)
		ld, isLoad := a.(*ssa.UnOp)
		if !isStruct || !isLoad || ld.Op != token.MUL {
			out = append(out, a)
			continue
		}
		al, ok := ld.X.(*ssa.Alloc)
		if !ok {
			out = append(out, a)
			continue
		}
		stores, paths, _ := storesTo(al)
		flat := make([]ssa.Value, st.NumFields())
		good := true
		for i, s := range stores {
			if len(paths[i]) != 1 || flat[paths[i][0]] != nil {
				good = false
				break
			}
			flat[paths[i][0]] = s.Val
		}
		for _, f := range flat {
			if f == nil {
				good = false
			}
		}
		if !good {
			out = append(out, a)
			continue
		}
		out = append(out, flat...)
	}
	return out
}

// argOfKind: the first (flattened) argument whose type satisfies pred.
func argOfKind(args []ssa.Value, pred func(types.Type) bool) ssa.Value {
	for _, a := range flattenArgs(args) {
		if pred(a.Type()) {
			return a
		}
	}
	return nil
}

// bindByType gives role names to the values a function receives, by type and order of appearance,
// whether they arrive as separate parameters or as fields of a small struct parameter: each role
// takes the first unused scalar parameter or struct field whose type satisfies its predicate.
type roleSpec struct {
	name string
	pred func(types.Type) bool
}

func bindByType(n *Normer, fn *ssa.Function, roles ...roleSpec) bool {
	if n.Root == nil {
		n.Root = fn
	}
	type slot struct {
		param *ssa.Parameter
		field int // -1: the parameter itself
		t     types.Type
		used  bool
	}
	var slots []*slot
	for _, p := range fn.Params {
		if st, ok := p.Type().Underlying().(*types.Struct); ok {
			slots = append(slots, &slot{p, -1, p.Type(), false}) // the struct as a whole may be a role itself
			for i := 0; i < st.NumFields(); i++ {
				slots = append(slots, &slot{p, i, st.Field(i).Type(), false})
			}
			continue
		}
		slots = append(slots, &slot{p, -1, p.Type(), false})
	}
	all := true
	for _, r := range roles {
		found := false
		for _, s := range slots {
			if s.used || !r.pred(s.t) {
				continue
			}
			s.used, found = true, true
			if s.field < 0 {
				n.Bind[s.param] = r.name
			} else {
				idx := 0
				for i, q := range fn.Params {
					if q == s.param {
						idx = i
					}
				}
				st := s.param.Type().Underlying().(*types.Struct)
				n.AtomAlias[fmt.Sprintf("p%d.%s", idx, fname(st.Field(s.field)))] = r.name
			}
			break
		}
		if !found {
			all = false
		}
	}
	return all
}

// flatNorms: normal forms of the arguments with struct-valued arguments replaced by the normal
// forms of their fields (resolved through literals, parameters and the calling context).
func flatNorms(n *Normer, args []ssa.Value) []string {
	var out []string
	for _, a := range args {
		st, isStruct := a.Type().Underlying().(*types.Struct)
		if !isStruct {
			out = append(out, n.Norm(a).String())
			continue
		}
		for i := 0; i < st.NumFields(); i++ {
			if p, ok := n.fieldOf(a, i, 0); ok {
				out = append(out, p.String())
			} else {
				out = append(out, n.Norm(a).asAtom()+"."+fname(st.Field(i)))
			}
		}
	}
	return out
}
