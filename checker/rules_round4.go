package main

import (
	"fmt"
	"go/types"
	"os"
	"sort"
	"strings"

	"golang.org/x/tools/go/ssa"
)

// P12: PDF417 text compaction as a decision table.
func rulePDF417TextMachine(c *Ctx) {
	const R = "P12-PDF-TEXTMACHINE"
	c.Doc(R, "pdf417.encodeText as a decision table over (sub-mode, character class, look-ahead): the value(s) appended, the next sub-mode and whether the character is consumed equal ISO/IEC 15438 text compaction (alpha: A-Z/space, ll=27, ml=28, ps=29+punct value; lower: a-z/space, as=27+alpha value, ml=28, ps=29; mixed: mixed value, pl=25 only if the next character is punctuation too, ll=27, al=28, ps=29; punctuation: punct value, al=29); a latch re-examines the same character, everything else consumes it")
	c.Floor(R, 12)
	fn := c.theFunc(R, "pdf417.encodeText")
	if fn == nil || len(fn.Params) != 2 {
		return
	}
	n := NewNormer(c.P)
	n.BindParams(fn, "text", "submode")
	// the scanning loop: idx < len(text)
	var hdr *ssa.BasicBlock
	var idxP, smP *ssa.Phi
	for _, b := range fn.Blocks {
		if len(b.Succs) != 2 {
			continue
		}
		for _, ins := range b.Instrs {
			p, ok := ins.(*ssa.Phi)
			if !ok {
				break
			}
			nn := NewNormer(c.P)
			nn.BindParams(fn, "text", "submode")
			nn.Bind[p] = "idx"
			if eq, _ := CondEquivalent(nn.LoopCond(b), MustRefCond("idx < len(text)")); eq && isIntType(p.Type()) {
				hdr, idxP = b, p
			}
		}
	}
	if hdr != nil {
		for _, ins := range hdr.Instrs {
			if p, ok := ins.(*ssa.Phi); ok && namedTypeName(p.Type()) == "pdf417.subMode" {
				smP = p
			}
		}
	}
	if hdr == nil || smP == nil {
		c.Undecided(R, "pdf417.encodeText/loop", fn.Pos(), "scanning loop with (idx, submode) state not found")
		return
	}
	n.Bind[idxP], n.Bind[smP] = "idx", "sm"
	body := hdr.Succs[0]
	// the current character
	eachInstr(fn, func(b *ssa.BasicBlock, ins ssa.Instruction) {
		if ld, ok := ins.(*ssa.UnOp); ok {
			if ia, ok := ld.X.(*ssa.IndexAddr); ok && ia.X == ssa.Value(fn.Params[0]) {
				switch n.Norm(ia.Index).String() {
				case "idx":
					n.Bind[ld] = "ch"
				case MustRef("idx + 1").String():
					n.Bind[ld] = "nx"
				}
			}
		}
	})
	n.AtomAlias["idx(global:pdf417.mixedMap,ch)#1"] = "inMixed"
	n.AtomAlias["idx(global:pdf417.punctMap,ch)#1"] = "inPunct"
	n.AtomAlias["idx(global:pdf417.punctMap,nx)#1"] = "nxPunct"
	type emit struct {
		val  string
		cond *Cond
	}
	var emits []emit
	for _, s := range appendSites(fn) {
		if len(s.elems) != 1 || enclosingLoopHeader(s.call.Block()) != hdr {
			continue
		}
		emits = append(emits, emit{n.Norm(s.elems[0]).String(), n.ReachCond(fn, body, s.call.Block())})
	}
	if os.Getenv("DBG") != "" {
		for _, e := range emits {
			fmt.Fprintln(os.Stderr, "EMIT", e.val, "WHEN", e.cond)
		}
	}
	sub := map[string]int64{}
	for _, nm := range []string{"subUpper", "subLower", "subMixed", "subPunct"} {
		v, ok := c.P.ConstInt("pdf417", nm)
		if !ok {
			c.Anchor(R, "pdf417."+nm, "constant not found")
			return
		}
		sub[nm] = v
	}
	m := map[string]string{
		"U": "(ch == 32 || (ch >= 65 && ch <= 90))", "L": "(ch == 32 || (ch >= 97 && ch <= 122))",
		"M": "inMixed", "P": "inPunct", "LA": "(idx + 1 < len(text) && nxPunct)",
		"SU": fmt.Sprintf("sm == %d", sub["subUpper"]),
		"SL": fmt.Sprintf("(sm != %d && sm == %d)", sub["subUpper"], sub["subLower"]),
		"SM": fmt.Sprintf("(sm != %d && sm != %d && sm == %d)", sub["subUpper"], sub["subLower"], sub["subMixed"]),
		"SP": fmt.Sprintf("(sm != %d && sm != %d && sm != %d)", sub["subUpper"], sub["subLower"], sub["subMixed"]),
	}
	ref := func(t string) *Cond {
		cnd := MustRefCond(tmpl(t, m))
		renameAtoms(cnd, map[string]string{"inMixed": "idx(global:pdf417.mixedMap,ch)#1", "inPunct": "idx(global:pdf417.punctMap,ch)#1", "nxPunct": "idx(global:pdf417.punctMap,nx)#1"})
		return cnd
	}
	psCond := "({SU} && !{U} && !{L} && !{M}) || ({SL} && !{L} && !{U} && !{M}) || ({SM} && !{M} && !{U} && !{L} && !{LA})"
	latchLower := "({SU} && !{U} && {L}) || ({SM} && !{M} && !{U} && {L})"
	latchMixed := "({SU} && !{U} && !{L} && {M}) || ({SL} && !{L} && !{U} && {M})"
	latchUpper := "({SM} && !{M} && {U}) || ({SP} && !{P})"
	latchPunct := "({SM} && !{M} && !{U} && !{L} && {LA})"
	want := map[string]string{
		"26":                             "({SU} && {U} && ch == 32) || ({SL} && {L} && ch == 32)",
		MustRef("ch - 65").String():      "({SU} && {U} && ch != 32) || ({SL} && !{L} && {U})",
		MustRef("ch - 97").String():      "{SL} && {L} && ch != 32",
		"27":                             "({SU} && !{U} && {L}) || ({SL} && !{L} && {U}) || ({SM} && !{M} && !{U} && {L})",
		"28":                             "({SU} && !{U} && !{L} && {M}) || ({SL} && !{L} && !{U} && {M}) || ({SM} && !{M} && {U})",
		"29":                             psCond + " || ({SP} && !{P})",
		"25":                             latchPunct,
		"idx(global:pdf417.punctMap,ch)": psCond + " || ({SP} && {P})",
		"idx(global:pdf417.mixedMap,ch)": "{SM} && {M}",
	}
	got := map[string]*Cond{}
	var order []string
	for _, e := range emits {
		if got[e.val] == nil {
			got[e.val] = cFalse
			order = append(order, e.val)
		}
		got[e.val] = cOr(got[e.val], e.cond)
	}
	sort.Strings(order)
	for _, v := range order {
		w, ok := want[v]
		if !ok {
			c.Check(R, "pdf417.encodeText/emits/"+v, fn.Pos(), false, "only the values of the ISO sub-mode tables", v+" when "+got[v].String())
			continue
		}
		c.expectCondC(R, "pdf417.encodeText/emits/"+v, fn.Pos(), got[v], ref(w))
	}
	for v := range want {
		if got[v] == nil {
			c.Check(R, "pdf417.encodeText/emits/"+v, fn.Pos(), false, "value emitted under "+tmpl(want[v], m), "never emitted")
		}
	}
	// a shift code precedes the value it applies to
	byBlock := map[*ssa.BasicBlock][]ssa.Value{}
	for _, s := range appendSites(fn) {
		if len(s.elems) == 1 && enclosingLoopHeader(s.call.Block()) == hdr {
			byBlock[s.call.Block()] = append(byBlock[s.call.Block()], s.elems[0])
		}
	}
	pairsOK := true
	for _, vs := range byBlock {
		if len(vs) == 2 {
			_, k0 := n.Norm(vs[0]).IsConst()
			_, k1 := n.Norm(vs[1]).IsConst()
			if !k0 || k1 {
				pairsOK = false
			}
		} else if len(vs) > 2 {
			pairsOK = false
		}
	}
	c.Check(R, "pdf417.encodeText/shift-before-value", fn.Pos(), pairsOK, "a shift code is appended before the character value it applies to", fmt.Sprint(pairsOK))
	// next state: sub-mode and position
	var next []jointCase
	for ei := range smP.Edges {
		pred := hdr.Preds[ei]
		if !hdr.Dominates(pred) {
			continue
		}
		edge := cAnd(n.ReachCond(fn, body, pred), n.EdgeCond(pred, hdr))
		next = append(next, jointCases(n, fn, body, []ssa.Value{smP.Edges[ei], idxP.Edges[ei]}, pred, edge, 0)...)
	}
	smCases, idxCases := map[string]*Cond{}, map[string]*Cond{}
	for _, jc := range next {
		a, b := n.Norm(jc.vals[0]).String(), n.Norm(jc.vals[1]).String()
		if smCases[a] == nil {
			smCases[a] = cFalse
		}
		if idxCases[b] == nil {
			idxCases[b] = cFalse
		}
		smCases[a] = cOr(smCases[a], jc.cond)
		idxCases[b] = cOr(idxCases[b], jc.cond)
	}
	anyLatch := "(" + latchLower + ") || (" + latchMixed + ") || (" + latchUpper + ") || (" + latchPunct + ")"
	wantSm := map[string]string{
		fmt.Sprint(sub["subLower"]): latchLower, fmt.Sprint(sub["subMixed"]): latchMixed,
		fmt.Sprint(sub["subUpper"]): latchUpper, fmt.Sprint(sub["subPunct"]): latchPunct,
		"sm": "!(" + anyLatch + ")",
	}
	for v, w := range wantSm {
		g := smCases[v]
		if g == nil {
			g = cFalse
		}
		c.expectCondC(R, "pdf417.encodeText/next-submode/"+v, smP.Pos(), g, ref(w))
	}
	for v := range smCases {
		if _, ok := wantSm[v]; !ok {
			c.Check(R, "pdf417.encodeText/next-submode/"+v, smP.Pos(), false, "one of the four sub-modes or unchanged", v+" when "+smCases[v].String())
		}
	}
	wantIdx := map[string]string{"idx": anyLatch, MustRef("idx + 1").String(): "!(" + anyLatch + ")"}
	for v, w := range wantIdx {
		g := idxCases[v]
		if g == nil {
			g = cFalse
		}
		c.expectCondC(R, "pdf417.encodeText/next-position/"+v, idxP.Pos(), g, ref(w))
	}
	for v := range idxCases {
		if _, ok := wantIdx[v]; !ok {
			c.Check(R, "pdf417.encodeText/next-position/"+v, idxP.Pos(), false, "idx (latch: same character again) or idx+1", v+" when "+idxCases[v].String())
		}
	}
	_ = strings.Join
}

// jointCases expands a tuple of values that may be phis of merge blocks (not loop headers) into
// alternatives over the incoming edges, keeping phis of the SAME block on the same edge. The
// condition of an alternative is: reach(from -> predecessor) and the edge, and the path from the
// merge block on to `at` (the block the tuple is used in / leaves from), and `cond`.
type jointCase struct {
	vals []ssa.Value
	cond *Cond
}

func jointCases(n *Normer, fn *ssa.Function, from *ssa.BasicBlock, vals []ssa.Value, at *ssa.BasicBlock, cond *Cond, depth int) []jointCase {
	var blk *ssa.BasicBlock
	if depth < 6 {
		for _, v := range vals {
			p, ok := v.(*ssa.Phi)
			if !ok {
				continue
			}
			if _, bound := n.Bind[p]; bound {
				continue
			}
			loopCarried := false
			for _, pr := range p.Block().Preds {
				if p.Block().Dominates(pr) {
					loopCarried = true
				}
			}
			if loopCarried {
				continue
			}
			// expand the phi closest to the use first
			if blk == nil || blk.Dominates(p.Block()) {
				blk = p.Block()
			}
		}
	}
	if blk == nil {
		if eq, _ := CondEquivalent(cond, cFalse); eq {
			return nil
		}
		return []jointCase{{vals, cond}}
	}
	var out []jointCase
	for j, pr := range blk.Preds {
		nv := make([]ssa.Value, len(vals))
		for k, v := range vals {
			nv[k] = v
			if p, ok := v.(*ssa.Phi); ok && p.Block() == blk {
				nv[k] = p.Edges[j]
			}
		}
		// cond already covers from -> at; refine it with the choice of this incoming edge
		cc := cAnd(cond, cAnd(n.ReachCond(fn, from, pr), n.EdgeCond(pr, blk)))
		out = append(out, jointCases(n, fn, from, nv, pr, cc, depth+1)...)
	}
	return out
}

func init() {
	register("C04", rulePDF417TextMachine)
}

// P13: PDF417 mode latches.
func rulePDF417Latches(c *Ctx) {
	const R = "P13-PDF-LATCHES"
	c.Doc(R, "pdf417.highlevelEncode per segment: 902 is emitted exactly for a numeric segment (>= 13 digits or the rest of the data); 900 exactly for a text segment entered from another compaction mode; the compaction mode becomes numeric / text / byte accordingly, except that a single byte met in text mode leaves the mode unchanged (it is sent with the shift 913); encodeBinary starts with 913 iff one byte in text mode, else 924 iff the byte count is a multiple of 6, else 901, and receives the mode AFTER that update")
	c.Floor(R, 8)
	fn := c.theFunc(R, "pdf417.highlevelEncode")
	if fn == nil {
		return
	}
	cv := map[string]int64{}
	for _, nm := range []string{"encText", "encNumeric", "encBinary", "latch_to_text", "latch_to_numeric", "latch_to_byte", "latch_to_byte_padded", "shift_to_byte", "min_numeric_count"} {
		v, ok := c.P.ConstInt("pdf417", nm)
		if !ok {
			c.Anchor(R, "pdf417."+nm, "constant not found")
			return
		}
		cv[nm] = v
	}
	n := NewNormer(c.P)
	n.BindParams(fn, "dataStr")
	bindCalls(n, c.P, fn, map[string]string{"pdf417.determineConsecutiveDigitCount": "nc", "pdf417.determineConsecutiveTextCount": "tc", "pdf417.determineConsecutiveBinaryCount": "bc"}, nil)
	// loop state
	var hdr *ssa.BasicBlock
	var mP, dataP *ssa.Phi
	for _, b := range fn.Blocks {
		for _, ins := range b.Instrs {
			p, ok := ins.(*ssa.Phi)
			if !ok {
				break
			}
			loopHdr := false
			for _, pr := range b.Preds {
				if b.Dominates(pr) {
					loopHdr = true
				}
			}
			if !loopHdr {
				continue
			}
			switch {
			case namedTypeName(p.Type()) == "pdf417.encodingMode":
				hdr, mP = b, p
			}
		}
	}
	if hdr != nil {
		for _, ins := range hdr.Instrs {
			if p, ok := ins.(*ssa.Phi); ok {
				if _, isSlice := p.Type().Underlying().(*types.Slice); isSlice && len(hdr.Succs) == 2 {
					nn := NewNormer(c.P)
					nn.Bind[p] = "data"
					if eq, _ := CondEquivalent(nn.LoopCond(hdr), MustRefCond("len(data) > 0")); eq {
						dataP = p
					}
				}
			}
		}
	}
	if hdr == nil || mP == nil || dataP == nil {
		c.Undecided(R, "pdf417.highlevelEncode/loop", fn.Pos(), "segment loop with (mode, remaining data) state not found")
		return
	}
	n.Bind[mP], n.Bind[dataP] = "M", "data"
	body := hdr.Succs[0]
	m := map[string]string{
		"N":   fmt.Sprintf("(nc >= %d || nc == len(data))", cv["min_numeric_count"]),
		"T":   "(tc >= 5 || tc == len(data))",
		"TXT": fmt.Sprint(cv["encText"]),
		"ONE": "(B == 1)",
	}
	assume := assumeNoErrors(n, fn) // (names the error results before any condition is taken)
	emitted := map[int64]*Cond{}
	for _, s := range appendSites(fn) {
		if len(s.elems) != 1 || enclosingLoopHeader(s.call.Block()) != hdr {
			continue
		}
		if k, ok := n.Norm(s.elems[0]).IsConst(); ok {
			if emitted[k] == nil {
				emitted[k] = cFalse
			}
			emitted[k] = cOr(emitted[k], n.ReachCond(fn, body, s.call.Block()))
		}
	}
	chk := func(key string, got *Cond, want string) {
		if got == nil {
			got = cFalse
		}
		c.expectCondC(R, key, fn.Pos(), cAnd(assume, got), cAnd(assume, MustRefCond(tmpl(want, m))))
	}
	chk("pdf417.highlevelEncode/latch-numeric-iff", emitted[cv["latch_to_numeric"]], "{N}")
	chk("pdf417.highlevelEncode/latch-text-iff", emitted[cv["latch_to_text"]], "!{N} && {T} && M != {TXT}")
	for k := range emitted {
		if k != cv["latch_to_numeric"] && k != cv["latch_to_text"] {
			c.Check(R, fmt.Sprintf("pdf417.highlevelEncode/emits/%d", k), fn.Pos(), false, "only 900 and 902 are emitted directly", fmt.Sprint(k))
		}
	}
	// the byte segment: its length and the mode handed to encodeBinary
	eb := c.P.deepCallsTo(fn, c.P.Func("pdf417.encodeBinary"))
	if len(eb) != 1 || eb[0].Fn != fn {
		c.Check(R, "pdf417.highlevelEncode/encodeBinary", fn.Pos(), false, "one encodeBinary call in the segment loop", fmt.Sprint(len(eb)))
		return
	}
	ebCall := eb[0].Ins.(*ssa.Call)
	// B = len(bytes)
	blen := n.Norm(ebCall.Common().Args[0])
	_ = blen
	var bytesV ssa.Value = ebCall.Common().Args[0]
	if sl, ok := bytesV.(*ssa.Slice); ok && sl.High != nil && sl.Low == nil {
		n.Bind[sl.High] = "B"
		c.Check(R, "pdf417.highlevelEncode/byte-segment", sl.Pos(), n.Norm(sl.X).String() == "data", "bytes = data[:B]", n.Norm(sl.X).String())
		// B is the binary count, at least 1
		cases := n.valueCasesUnbound(fn, sl.High)
		// (a count is never negative: compared on bc >= 0, so `bc == 0`, `bc < 1` and max(bc, 1) read the same)
		checkCasesUnder(c, R, "pdf417.highlevelEncode/byte-count", sl.Pos(), cases, []edgeSpec{{"1", "bc == 0"}, {"bc", "bc != 0"}}, MustRefCond("bc >= 0"))
	} else {
		c.Undecided(R, "pdf417.highlevelEncode/byte-segment", ebCall.Pos(), "byte segment is not data[:count]")
		return
	}
	// next mode
	var next []jointCase
	for ei := range mP.Edges {
		pred := hdr.Preds[ei]
		if !hdr.Dominates(pred) {
			continue
		}
		edge := cAnd(n.ReachCond(fn, body, pred), n.EdgeCond(pred, hdr))
		next = append(next, jointCases(n, fn, body, []ssa.Value{mP.Edges[ei]}, pred, edge, 0)...)
	}
	modeCases := map[string]*Cond{}
	for _, jc := range next {
		v := n.Norm(jc.vals[0]).String()
		if v == "M" {
			// the unchanged mode on a path that has established its value
			for _, k := range []int64{cv["encText"], cv["encNumeric"], cv["encBinary"]} {
				if imp, _, _ := CondRelation(jc.cond, MustRefCond(fmt.Sprintf("M == %d", k))); imp {
					v = fmt.Sprint(k)
				}
			}
		}
		if modeCases[v] == nil {
			modeCases[v] = cFalse
		}
		modeCases[v] = cOr(modeCases[v], jc.cond)
	}
	wantMode := map[string]string{
		fmt.Sprint(cv["encNumeric"]): "{N}",
		fmt.Sprint(cv["encText"]):    "(!{N} && {T}) || (!{N} && !{T} && B == 1 && M == {TXT})",
		fmt.Sprint(cv["encBinary"]):  "!{N} && !{T} && (B != 1 || M != {TXT})",
	}
	for v, w := range wantMode {
		chk("pdf417.highlevelEncode/next-mode/"+v, modeCases[v], w)
	}
	for v := range modeCases {
		if _, ok := wantMode[v]; !ok {
			c.Check(R, "pdf417.highlevelEncode/next-mode/"+v, mP.Pos(), false, "numeric, text, byte or unchanged", v+" when "+modeCases[v].String())
		}
	}
	// the mode handed to encodeBinary is the updated one
	var argCases []string
	for _, jc := range jointCases(n, fn, body, []ssa.Value{ebCall.Common().Args[1]}, ebCall.Block(), n.ReachCond(fn, body, ebCall.Block()), 0) {
		argCases = append(argCases, n.Norm(jc.vals[0]).String()+" when "+jc.cond.String())
	}
	sort.Strings(argCases)
	wantArg := []string{
		fmt.Sprint(cv["encBinary"]) + " when " + MustRefCond(tmpl("!{N} && !{T} && (B != 1 || M != {TXT})", m)).String(),
		"M when " + MustRefCond(tmpl("!{N} && !{T} && B == 1 && M == {TXT}", m)).String(),
	}
	okArg := len(argCases) == 2
	if okArg {
		for i, a := range argCases {
			parts := strings.SplitN(a, " when ", 2)
			wparts := strings.SplitN(wantArg[i], " when ", 2)
			if parts[0] != wparts[0] {
				okArg = false
			}
		}
	}
	c.Check(R, "pdf417.highlevelEncode/encodeBinary-mode", ebCall.Pos(), okArg, "encodeBinary receives the mode after the update (byte, or the unchanged text mode for a single byte)", fmt.Sprint(argCases))

	// encodeBinary's first codeword
	if bf := c.theFunc(R, "pdf417.encodeBinary"); bf != nil && len(bf.Params) == 2 {
		nb := NewNormer(c.P)
		nb.BindParams(bf, "data", "startmode")
		intro := map[int64]*Cond{}
		first := true
		// emission sites outside loops: appended elements and elements of a slice literal
		type site struct {
			v   ssa.Value
			blk *ssa.BasicBlock
		}
		var sites []site
		for _, s := range appendSites(bf) {
			if len(s.elems) == 1 && enclosingLoopHeader(s.call.Block()) == nil {
				sites = append(sites, site{s.elems[0], s.call.Block()})
			}
		}
		eachInstr(bf, func(b *ssa.BasicBlock, ins ssa.Instruction) {
			if st, ok := ins.(*ssa.Store); ok && enclosingLoopHeader(b) == nil && isIntType(st.Val.Type()) {
				if ia, ok := st.Addr.(*ssa.IndexAddr); ok {
					if a, ok := ia.X.(*ssa.Alloc); ok && a.Comment == "slicelit" {
						sites = append(sites, site{st.Val, b})
					}
				}
			}
		})
		for _, s := range sites {
			rc := nb.ReachCond(bf, nil, s.blk)
			for _, cs := range nb.valueCases(bf, nil, s.v, 0) {
				if k, ok := cs.val.IsConst(); ok && k >= 900 {
					if intro[k] == nil {
						intro[k] = cFalse
					}
					intro[k] = cOr(intro[k], cAnd(rc, cs.cond))
				}
			}
			_ = first
		}
		mb := map[string]string{"S": fmt.Sprintf("(len(data) == 1 && startmode == %d)", cv["encText"])}
		wantIntro := map[int64]string{cv["shift_to_byte"]: "{S}", cv["latch_to_byte"]: "!{S} && len(data) % 6 == 0", cv["latch_to_byte_padded"]: "!{S} && len(data) % 6 != 0"}
		for k, w := range wantIntro {
			g := intro[k]
			if g == nil {
				g = cFalse
			}
			c.expectCondC(R, fmt.Sprintf("pdf417.encodeBinary/introducer/%d", k), bf.Pos(), g, MustRefCond(tmpl(w, mb)))
		}
		for k := range intro {
			if _, ok := wantIntro[k]; !ok {
				c.Check(R, fmt.Sprintf("pdf417.encodeBinary/introducer/%d", k), bf.Pos(), false, "913, 924 or 901", fmt.Sprint(k))
			}
		}
	}
}

// valueCasesUnbound: alternatives of v ignoring a role name bound to v itself.
func (n *Normer) valueCasesUnbound(fn *ssa.Function, v ssa.Value) []valCase {
	name, had := n.Bind[v]
	delete(n.Bind, v)
	defer func() {
		if had {
			n.Bind[v] = name
		}
	}()
	return n.valueCases(fn, nil, v, 0)
}

func init() {
	register("C04", rulePDF417Latches)
}

// assumeNoErrors names every error result obtained from a call in fn (err1, err2, ...) and returns
// the condition "all of them are nil": rules about what happens on the normal path compare their
// conditions under this assumption (the error paths return and are judged by the error rules).
func assumeNoErrors(n *Normer, fn *ssa.Function) *Cond {
	assume := cTrue
	k := 0
	eachInstr(fn, func(b *ssa.BasicBlock, ins ssa.Instruction) {
		if ex, ok := ins.(*ssa.Extract); ok && isErrorType(ex.Type()) {
			if _, isCall := ex.Tuple.(*ssa.Call); isCall {
				k++
				n.Bind[ex] = fmt.Sprintf("err%d", k)
				assume = cAnd(assume, &Cond{Kind: CBool, Name: fmt.Sprintf("Eq(err%d,nil)", k)})
			}
		}
	})
	return assume
}

func init() {
	// round 4
	register("C07", ruleCheckValue)    // the drawn Code 39 check character is the one of the check value
	register("C14", ruleCode128Tables) // the drawn check character's pattern
	register("C01", ruleConcurrency)   // producer/consumer protocol of the QR encoders decides acceptance and the bit stream
	register("C10", ruleConcurrency)
	register("C13", ruleConcurrency)
	for _, p := range []string{"C01", "C02", "C03", "C04", "C05", "C06", "C07", "C08"} {
		register(p, ruleBitList) // every encoder builds its modules in a BitList
	}
}
