package main

import (
	"fmt"
	"go/types"

	"golang.org/x/tools/go/ssa"
)

// NEGMOD: an index into a slice/array/string whose expression contains a % must be provably
// non-negative (Go's % keeps the dividend's sign, so (a-b)%n indexes out of range).
func ruleNegMod(c *Ctx) {
	const R = "NEGMOD"
	c.Doc(R, "every slice/array/string index whose expression contains a % operation has a proven lower bound >= 0 (lower-bound domain; Go's % keeps the sign of the dividend)")
	c.Floor(R, 2)
	l := newLbCtx(c.P)
	for _, fn := range append(append([]*ssa.Function{}, c.P.Funcs...), c.P.CanaryFuncs...) {
		k := 0
		eachInstr(fn, func(b *ssa.BasicBlock, ins ssa.Instruction) {
			var idx ssa.Value
			switch x := ins.(type) {
			case *ssa.IndexAddr:
				idx = x.Index
			case *ssa.Index:
				idx = x.Index
			case *ssa.Lookup:
				if _, isMap := x.X.Type().Underlying().(*types.Map); !isMap {
					idx = x.Index
				}
			}
			if idx == nil {
				return
			}
			rem := containsRem(idx, 0)
			if rem == nil {
				return
			}
			k++
			c.Fn(c.P.FuncName(fn))
			c.Count["index_sites_with_mod"]++
			lb := l.lb(idx)
			n := NewNormer(c.P)
			found := fmt.Sprintf("index %s, lower bound unknown (dividend %s may be negative)", n.Norm(idx), n.Norm(rem.X))
			if lb != lbUnknown {
				found = fmt.Sprintf("index %s, lower bound %d", n.Norm(idx), lb)
			}
			c.Check(R, fmt.Sprintf("%s/modindex#%d", c.P.FuncName(fn), k), instrPos(ins), lb != lbUnknown && lb >= 0, "lower bound >= 0", found)
		})
	}
	for _, a := range l.Assumed {
		c.Notes = append(c.Notes, a)
	}
}

func init() {
	canaries = append(canaries, canary{Pkg: "utils", Rule: "NEGMOD", Src: `
func zzVerifCanaryNegMod(tbl []int, a, b int) int {
	return tbl[(a-b)%len(tbl)]
}`})
	canaryExpect["NEGMOD"] = []string{"zzVerifCanaryNegMod"}
}
