package main

import (
	"encoding/json"
	"fmt"
	"os"
	"sort"
)

var allProps = []string{"C01", "C02", "C03", "C04", "C05", "C06", "C07", "C08", "C09", "C10", "C11", "C12", "C13", "C14", "C15", "C16", "C17", "C18"}

// naReason: reason given in MANIFEST.not_applicable for a property without registered rules.
var naReason = map[string]string{}

func writeManifest(path string) error {
	var checks []map[string]interface{}
	var na []map[string]string
	for _, id := range allProps {
		info := propInfo[id]
		if len(propRules[id]) == 0 {
			r := naReason[id]
			if r == "" {
				r = "no static rule for this property is implemented yet; nothing is claimed"
			}
			na = append(na, map[string]string{"property_id": id, "reason": r})
			continue
		}
		checks = append(checks, map[string]interface{}{
			"property_id":         id,
			"quick_cmd":           fmt.Sprintf("bin/verifchk -prop %s -tier quick", id),
			"thorough_cmd":        fmt.Sprintf("bin/verifchk -prop %s -tier thorough", id),
			"evidence_file":       fmt.Sprintf("/verif/evidence/%s.json", id),
			"replay_cmd_template": "bin/verifchk -replay {path}",
			"engine":              "verifchk",
			"level_claimed": map[string]string{
				"category":   "other",
				"text":       "Static analysis of /repo's current source (type-checked AST + go/ssa). Decides structural necessary conditions of the property, not the behaviour itself: " + info.Explanation + " NOT decided: " + info.NotDecided,
				"design_ref": "DESIGN.md §3 " + id,
			},
			"level_note": "Trusted base: go/types and go/ssa (x/tools v0.29.0), the standard tables/closed forms embedded in the checker, the checker itself. Every obligation is keyed by rule+construct; undecidable or unresolved anchors fail. Assumptions: " + joinOr(info.Assumptions, "none beyond the trusted base"),
			"technique":  info.Technique,
		})
	}
	sort.Slice(checks, func(i, j int) bool { return checks[i]["property_id"].(string) < checks[j]["property_id"].(string) })
	m := map[string]interface{}{
		"version":   1,
		"setup_cmd": "cd /verif/checker && . ../env.sh && go build -o ../bin/verifchk . && cd /verif && bin/verifchk -list",
		"hooks": map[string]interface{}{
			"guard":            "verif",
			"enable":           "no hooks: static analysis reads the source; the guard tag is unused",
			"baseline_off_cmd": "cd /repo && go test -vet=off -count=1 ./...",
			"source_commits":   []string{},
			"add_only":         true,
		},
		"engines": []map[string]interface{}{{
			"name": "verifchk", "path": "/verif/checker", "serves_properties": claimed(),
			"kind_free_text": "repository-specific static analyser in Go: go/packages LoadAllSyntax + go/ssa; constant/literal evaluation of tables against embedded standards and closed forms; polynomial normal forms of SSA expressions and truth-table path conditions compared with the formulas the standards prescribe; dominance/control-dependence, value-flow, sign/length/mod-10 abstract domains; goroutine/channel/lock inventories",
		}},
		"checks":         checks,
		"not_applicable": na,
		"notes":          "All claims are level 'other': structural necessary conditions decided from source on every run; see DESIGN.md. known_findings.txt lists genuine defects (finding:/fixed:).",
	}
	if na == nil {
		m["not_applicable"] = []map[string]string{}
	}
	b, _ := json.MarshalIndent(m, "", " ")
	return os.WriteFile(path, append(b, '\n'), 0o644)
}

func claimed() []string {
	var out []string
	for _, id := range allProps {
		if len(propRules[id]) > 0 {
			out = append(out, id)
		}
	}
	return out
}

func joinOr(s []string, def string) string {
	if len(s) == 0 {
		return def
	}
	out := ""
	for i, x := range s {
		if i > 0 {
			out += "; "
		}
		out += x
	}
	return out
}
