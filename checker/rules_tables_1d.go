package main

import (
	"fmt"
	"go/token"
	"sort"
	"strings"
)

// widthsToBits turns a run-length string ("212222") into module bits starting with a bar.
func widthsToBits(w string) string {
	var sb strings.Builder
	bar := true
	for _, ch := range w {
		n := int(ch - '0')
		for i := 0; i < n; i++ {
			if bar {
				sb.WriteByte('1')
			} else {
				sb.WriteByte('0')
			}
		}
		bar = !bar
	}
	return sb.String()
}

func bitsToRuns(b string) []int {
	var runs []int
	for i := 0; i < len(b); {
		j := i
		for j < len(b) && b[j] == b[i] {
			j++
		}
		runs = append(runs, j-i)
		i = j
	}
	return runs
}

func intBits(v int64, n int) string {
	var sb strings.Builder
	for i := n - 1; i >= 0; i-- {
		if (v>>uint(i))&1 == 1 {
			sb.WriteByte('1')
		} else {
			sb.WriteByte('0')
		}
	}
	return sb.String()
}

// ---------------------------------------------------------------------------------------------
// Code 128 (ISO/IEC 15417)

var iso128Widths = strings.Fields(`
212222 222122 222221 121223 121322 131222 122213 122312 132212 221213
221312 231212 112232 122132 122231 113222 123122 123221 223211 221132
221231 213212 223112 312131 311222 321122 321221 312212 322112 322211
212123 212321 232121 111323 131123 131321 112313 132113 132311 211313
231113 231311 112133 112331 132131 113123 113321 133121 313121 211331
231131 213113 213311 213131 311123 311321 331121 312113 312311 332111
314111 221411 431111 111224 111422 121124 121421 141122 141221 112214
112412 122114 122411 142112 142211 241211 221114 413111 241112 134111
111242 121142 121241 114212 124112 124211 411212 421112 421211 212141
214121 412121 111143 111341 131141 114113 114311 411113 411311 113141
114131 311141 411131 211412 211214 211232 2331112`)

func ruleCode128Tables(c *Ctx) {
	const R = "Z1-C128-PATTERNS"
	c.Doc(R, "code128.encodingTable[v] (v=0..106) equals the ISO 15417 pattern; closed-form invariants: 11 modules (stop 13), 3 bars+3 spaces of width 1..4, even bar sum, pairwise distinct")
	c.Floor(R, 107)
	tbl, err := c.P.EvalVar("code128", "encodingTable")
	if err != nil {
		c.Anchor(R, "code128.encodingTable", err.Error())
		return
	}
	c.Fn("code128.encodingTable")
	seen := map[string]int{}
	if len(tbl.List) != 107 {
		c.Check(R, "code128.encodingTable/len", tbl.Pos, false, "107 entries", fmt.Sprint(len(tbl.List)))
	}
	for i, e := range tbl.List {
		bits, ok := e.Bits()
		key := fmt.Sprintf("code128.encodingTable[%d]", i)
		if !ok {
			c.Undecided(R, key, e.Pos, "not a []bool literal")
			continue
		}
		c.Count["table_entries"]++
		if i >= len(iso128Widths) {
			c.Check(R, key, e.Pos, false, "no such symbol value", bits)
			continue
		}
		want := widthsToBits(iso128Widths[i])
		ok = bits == want
		why := bits
		if ok && i < 106 {
			runs := bitsToRuns(bits)
			barSum := 0
			good := len(bits) == 11 && len(runs) == 6 && bits[0] == '1'
			for k, r := range runs {
				if r < 1 || r > 4 {
					good = false
				}
				if k%2 == 0 {
					barSum += r
				}
			}
			if !good || barSum%2 != 0 {
				ok = false
				why += " (closed-form invariant broken)"
			}
		}
		if j, dup := seen[bits]; dup {
			ok = false
			why += fmt.Sprintf(" (duplicate of value %d)", j)
		}
		seen[bits] = i
		c.Check(R, key, e.Pos, ok, want, why)
	}

	// Z2: character tables: index in the table == symbol value in that code set
	const R2 = "Z2-C128-CHARSETS"
	c.Doc(R2, "code set A: ASCII 32..95 -> 0..63, 0..31 -> 64..95; code set B: ASCII 32..127 -> 0..95 (index in aTable/bTable is the symbol value)")
	c.Floor(R2, 4)
	var ab, aOnly, bWant, aWant strings.Builder
	for r := 32; r <= 95; r++ {
		ab.WriteRune(rune(r))
	}
	for r := 0; r <= 31; r++ {
		aOnly.WriteRune(rune(r))
	}
	bWant.WriteString(ab.String())
	for r := 96; r <= 127; r++ {
		bWant.WriteRune(rune(r))
	}
	aWant.WriteString(ab.String() + aOnly.String())
	for _, t := range []struct{ name, want string }{{"abTable", ab.String()}, {"aOnlyTable", aOnly.String()}, {"aTable", aWant.String()}, {"bTable", bWant.String()}} {
		got, ok := c.P.ConstString("code128", t.name)
		if !ok {
			c.Anchor(R2, "code128."+t.name, "string constant not found")
			continue
		}
		cst := c.P.PkgConst("code128", t.name)
		c.Check(R2, "code128."+t.name, cst.Pos(), got == t.want, fmt.Sprintf("%q", t.want), fmt.Sprintf("%q", got))
	}

	// Z3: symbol constants
	const R3 = "Z3-C128-SYMBOLS"
	c.Doc(R3, "start A/B/C = 103/104/105, code A/B/C = 101/100/99, stop = 106; FNC placeholders are 4 distinct runes outside ASCII")
	c.Floor(R3, 8)
	for _, t := range []struct {
		name string
		want int64
	}{{"startASymbol", 103}, {"startBSymbol", 104}, {"startCSymbol", 105}, {"codeASymbol", 101}, {"codeBSymbol", 100}, {"codeCSymbol", 99}, {"stopSymbol", 106}} {
		got, ok := c.P.ConstInt("code128", t.name)
		if !ok {
			c.Anchor(R3, "code128."+t.name, "integer constant not found")
			continue
		}
		c.Check(R3, "code128."+t.name, c.P.PkgConst("code128", t.name).Pos(), got == t.want, fmt.Sprint(t.want), fmt.Sprint(got))
	}
	fn := map[int64]string{}
	okF := true
	var pos token.Pos
	for _, n := range []string{"FNC1", "FNC2", "FNC3", "FNC4"} {
		v, ok := c.P.ConstInt("code128", n)
		if !ok {
			c.Anchor(R3, "code128."+n, "rune constant not found")
			okF = false
			continue
		}
		pos = c.P.PkgConst("code128", n).Pos()
		if v < 128 || fn[v] != "" {
			okF = false
		}
		fn[v] = n
	}
	c.Check(R3, "code128.FNC1-4", pos, okF && len(fn) == 4, "4 distinct runes > 127", fmt.Sprint(fn))
}

// ---------------------------------------------------------------------------------------------
// EAN

var eanL = []string{"0001101", "0011001", "0010011", "0111101", "0100011", "0110001", "0101111", "0111011", "0110111", "0001011"}
var eanParity = []string{"LLLLLL", "LLGLGG", "LLGGLG", "LLGGGL", "LGLLGG", "LGGLLG", "LGGGLL", "LGLGLG", "LGLGGL", "LGGLGL"}

func complementBits(s string) string {
	b := []byte(s)
	for i := range b {
		b[i] ^= 1 // '0'<->'1'
	}
	return string(b)
}
func reverseStr(s string) string {
	b := []byte(s)
	for i, j := 0, len(b)-1; i < j; i, j = i+1, j-1 {
		b[i], b[j] = b[j], b[i]
	}
	return string(b)
}

func ruleEANTable(c *Ctx) {
	const R = "N1-EAN-DIGITSETS"
	c.Doc(R, "ean.encoderTable: keys '0'..'9'; LeftOdd = GS1 set A; Right = complement(A); LeftEven = reverse(Right); CheckSum = first-digit parity row (true = set B)")
	c.Floor(R, 40)
	tbl, err := c.P.EvalVar("ean", "encoderTable")
	if err != nil {
		c.Anchor(R, "ean.encoderTable", err.Error())
		return
	}
	c.Fn("ean.encoderTable")
	if len(tbl.Map) != 10 {
		c.Check(R, "ean.encoderTable/keys", tbl.Pos, false, "10 keys '0'..'9'", fmt.Sprint(len(tbl.Map)))
	}
	for d := 0; d < 10; d++ {
		e := tbl.MapGetInt(int64('0' + d))
		key := fmt.Sprintf("ean.encoderTable['%d']", d)
		if e == nil {
			c.Check(R, key, tbl.Pos, false, "entry present", "missing")
			continue
		}
		par := strings.NewReplacer("L", "0", "G", "1").Replace(eanParity[d])
		for _, f := range []struct{ name, want string }{
			{"LeftOdd", eanL[d]}, {"Right", complementBits(eanL[d])}, {"LeftEven", reverseStr(complementBits(eanL[d]))}, {"CheckSum", par},
		} {
			got, ok := e.Field(f.name).Bits()
			c.Count["table_entries"]++
			if !ok {
				c.Undecided(R, key+"."+f.name, e.Pos, "not a []bool literal")
				continue
			}
			c.Check(R, key+"."+f.name, e.Pos, got == f.want, f.want, got)
		}
	}
	for _, e := range tbl.Map {
		if e.K.Kind != VInt || e.K.I < '0' || e.K.I > '9' {
			c.Check(R, "ean.encoderTable/extra-key", e.K.Pos, false, "only keys '0'..'9'", e.K.String())
		}
	}
}

// ---------------------------------------------------------------------------------------------
// Code 39

var c39BarCode = map[byte]string{'1': "10001", '2': "01001", '3': "11000", '4': "00101", '5': "10100", '6': "01100", '7': "00011", '8': "10010", '9': "01010", '0': "00110"}

const c39Order = "0123456789ABCDEFGHIJKLMNOPQRSTUVWXYZ-. $/+%"

// code39Pattern constructs the standard pattern (narrow = 1 module, wide = 2 modules).
func code39Pattern(ch byte) string {
	groups := []string{"1234567890", "ABCDEFGHIJ", "KLMNOPQRST", "UVWXYZ-. *"}
	wideSpace := []int{1, 2, 3, 0}
	var bars, spaces string
	switch ch {
	case '$':
		bars, spaces = "00000", "1110"
	case '/':
		bars, spaces = "00000", "1101"
	case '+':
		bars, spaces = "00000", "1011"
	case '%':
		bars, spaces = "00000", "0111"
	default:
		found := false
		for g, grp := range groups {
			if i := strings.IndexByte(grp, ch); i >= 0 {
				bars = c39BarCode[groups[0][i]]
				sp := []byte("0000")
				sp[wideSpace[g]] = '1'
				spaces = string(sp)
				found = true
			}
		}
		if !found {
			return ""
		}
	}
	var sb strings.Builder
	for i := 0; i < 5; i++ {
		sb.WriteString(strings.Repeat("1", 1+int(bars[i]-'0')))
		if i < 4 {
			sb.WriteString(strings.Repeat("0", 1+int(spaces[i]-'0')))
		}
	}
	return sb.String()
}

// code39 full ASCII shift pairs (standard), r -> accepted spellings
func code39Extended(r int) []string {
	switch {
	case r == 0:
		return []string{"%U"}
	case r >= 1 && r <= 26:
		return []string{"$" + string(rune('A'+r-1))}
	case r >= 27 && r <= 31:
		return []string{"%" + string(rune('A'+r-27))}
	case r == 32:
		return []string{" "}
	case r >= 33 && r <= 44:
		return []string{"/" + string(rune('A'+r-33))}
	case r == 45:
		return []string{"-", "/M"}
	case r == 46:
		return []string{".", "/N"}
	case r == 47:
		return []string{"/O"}
	case r >= 48 && r <= 57:
		return []string{string(rune(r)), "/" + string(rune('P'+r-48))}
	case r == 58:
		return []string{"/Z"}
	case r >= 59 && r <= 63:
		return []string{"%" + string(rune('F'+r-59))}
	case r == 64:
		return []string{"%V"}
	case r >= 65 && r <= 90:
		return []string{string(rune(r))}
	case r >= 91 && r <= 95:
		return []string{"%" + string(rune('K'+r-91))}
	case r == 96:
		return []string{"%W"}
	case r >= 97 && r <= 122:
		return []string{"+" + string(rune('A'+r-97))}
	case r >= 123 && r <= 127:
		out := []string{"%" + string(rune('P'+r-123))}
		if r == 127 {
			out = append(out, "%X", "%Y", "%Z")
		}
		return out
	}
	return nil
}

func ruleCode39Tables(c *Ctx) {
	const R = "S1-C39-TABLE"
	c.Doc(R, "code39.encodeTable: 43 data characters with value = position in the standard order and the pattern given by the Code 39 construction rule (2-of-5 bars x wide-space position; $ / + % three wide spaces); '*' start/stop with value -1; values pairwise distinct")
	c.Floor(R, 44)
	tbl, err := c.P.EvalVar("code39", "encodeTable")
	if err != nil {
		c.Anchor(R, "code39.encodeTable", err.Error())
		return
	}
	c.Fn("code39.encodeTable")
	seenVal := map[int64]string{}
	seenPat := map[string]string{}
	all := c39Order + "*"
	for i := 0; i < len(all); i++ {
		ch := all[i]
		key := fmt.Sprintf("code39.encodeTable[%q]", string(ch))
		e := tbl.MapGetInt(int64(ch))
		if e == nil {
			c.Check(R, key, tbl.Pos, false, "entry present", "missing")
			continue
		}
		c.Count["table_entries"]++
		wantVal := int64(i)
		if ch == '*' {
			wantVal = -1
		}
		val := e.Field("value")
		pat, ok := e.Field("data").Bits()
		if val == nil || !ok {
			c.Undecided(R, key, e.Pos, "entry is not {int, []bool}")
			continue
		}
		want := code39Pattern(ch)
		good := val.I == wantVal && pat == want
		found := fmt.Sprintf("value=%d pattern=%s", val.I, pat)
		if o, dup := seenVal[val.I]; dup {
			good = false
			found += " (value duplicates " + o + ")"
		}
		if o, dup := seenPat[pat]; dup {
			good = false
			found += " (pattern duplicates " + o + ")"
		}
		seenVal[val.I] = string(ch)
		seenPat[pat] = string(ch)
		c.Check(R, key, e.Pos, good, fmt.Sprintf("value=%d pattern=%s", wantVal, want), found)
	}
	for _, e := range tbl.Map {
		if e.K.Kind != VInt || e.K.I > 127 || !strings.ContainsRune(all, rune(e.K.I)) {
			c.Check(R, "code39.encodeTable/extra-key", e.K.Pos, false, "only the 43 data characters and '*'", e.K.String())
		}
	}

	const R3 = "S3-C39-FULLASCII"
	c.Doc(R3, "code39.extendedTable as a function on ASCII 0..127 (absent key = the character itself): the spelling uses only basic-alphabet characters and decodes to r under the standard shift-pair table")
	c.Floor(R3, 128)
	ext, err := c.P.EvalVar("code39", "extendedTable")
	if err != nil {
		c.Anchor(R3, "code39.extendedTable", err.Error())
		return
	}
	for r := 0; r <= 127; r++ {
		key := fmt.Sprintf("code39.extendedTable[%d]", r)
		got := string(rune(r))
		pos := ext.Pos
		if e := ext.MapGetInt(int64(r)); e != nil && !(ext.Kind == VList && e.Kind == VString && e.S == "") {
			// (in an array the empty string stands for "no entry")
			if e.Kind != VString {
				c.Undecided(R3, key, e.Pos, "not a string")
				continue
			}
			got = e.S
			pos = e.Pos
		}
		c.Count["table_entries"]++
		okSp := false
		for _, w := range code39Extended(r) {
			if w == got {
				okSp = true
			}
		}
		c.Check(R3, key, pos, okSp, strings.Join(code39Extended(r), " | "), fmt.Sprintf("%q", got))
	}
	for _, e := range ext.Map {
		if e.K.Kind != VInt || e.K.I < 0 || e.K.I > 127 {
			c.Check(R3, "code39.extendedTable/extra-key", e.K.Pos, false, "keys within ASCII 0..127", e.K.String())
		}
	}
}

// ---------------------------------------------------------------------------------------------
// Code 93

var c93Widths = strings.Fields(`131112 111213 111312 111411 121113 121212 121311 111114 131211 141111
211113 211212 211311 221112 221211 231111 112113 112212 112311 122112 132111 111123 111222 111321 121122 131121
212112 212211 211122 211221 221121 222111 112122 112221 122121 123111
121131 311112 311211 321111 112131 113121 211131 121221 312111 311121 122211 111141`)

func code93Extended(r int, f1, f2, f3, f4 rune) []string {
	s := func(sh rune, c rune) string { return string([]rune{sh, c}) }
	switch {
	case r == 0:
		return []string{s(f2, 'U')}
	case r >= 1 && r <= 26:
		return []string{s(f1, rune('A'+r-1))}
	case r >= 27 && r <= 31:
		return []string{s(f2, rune('A'+r-27))}
	case r == 32:
		return []string{" "}
	case r >= 33 && r <= 44:
		out := []string{s(f3, rune('A'+r-33))}
		if r == 36 || r == 37 || r == 43 {
			out = append(out, string(rune(r))) // $ % + are also basic characters
		}
		return out
	case r == 45:
		return []string{"-"}
	case r == 46:
		return []string{"."}
	case r == 47:
		return []string{s(f3, 'O'), "/"}
	case r >= 48 && r <= 57:
		return []string{string(rune(r))}
	case r == 58:
		return []string{s(f3, 'Z')}
	case r >= 59 && r <= 63:
		return []string{s(f2, rune('F'+r-59))}
	case r == 64:
		return []string{s(f2, 'V')}
	case r >= 65 && r <= 90:
		return []string{string(rune(r))}
	case r >= 91 && r <= 95:
		return []string{s(f2, rune('K'+r-91))}
	case r == 96:
		return []string{s(f2, 'W')}
	case r >= 97 && r <= 122:
		return []string{s(f4, rune('A'+r-97))}
	case r >= 123 && r <= 127:
		return []string{s(f2, rune('P'+r-123))}
	}
	return nil
}

func ruleCode93Tables(c *Ctx) {
	const R = "S2-C93-TABLE"
	c.Doc(R, "code93.encodeTable: 48 characters, value = position in the standard order (0-9 A-Z - . space $ / + % ($) (%) (/) (+) *), pattern = standard 9-module pattern; closed-form invariants: bar first/space last, 3 bars + 3 spaces of width 1..4; values and patterns pairwise distinct")
	c.Floor(R, 48)
	tbl, err := c.P.EvalVar("code93", "encodeTable")
	if err != nil {
		c.Anchor(R, "code93.encodeTable", err.Error())
		return
	}
	c.Fn("code93.encodeTable")
	var fn [4]int64
	for i, n := range []string{"FNC1", "FNC2", "FNC3", "FNC4"} {
		v, ok := c.P.ConstInt("code93", n)
		if !ok {
			c.Anchor(R, "code93."+n, "rune constant not found")
			return
		}
		fn[i] = v
	}
	order := []int64{}
	for _, ch := range c39Order {
		order = append(order, int64(ch))
	}
	order = append(order, fn[0], fn[1], fn[2], fn[3], '*')
	seenVal := map[int64]bool{}
	seenPat := map[int64]bool{}
	for i, ch := range order {
		key := fmt.Sprintf("code93.encodeTable[%q]", string(rune(ch)))
		e := tbl.MapGetInt(ch)
		if e == nil {
			c.Check(R, key, tbl.Pos, false, "entry present", "missing")
			continue
		}
		c.Count["table_entries"]++
		val, dat := e.Field("value"), e.Field("data")
		if val == nil || dat == nil || val.Kind != VInt || dat.Kind != VInt {
			c.Undecided(R, key, e.Pos, "entry is not {int,int}")
			continue
		}
		want := widthsToBits(c93Widths[i])
		got := intBits(dat.I, 9)
		good := val.I == int64(i) && got == want && dat.I < 512
		runs := bitsToRuns(got)
		if len(runs) != 6 || got[0] != '1' || got[8] != '0' {
			good = false
		}
		found := fmt.Sprintf("value=%d pattern=%s", val.I, got)
		if seenVal[val.I] || seenPat[dat.I] {
			good = false
			found += " (duplicate)"
		}
		seenVal[val.I], seenPat[dat.I] = true, true
		c.Check(R, key, e.Pos, good, fmt.Sprintf("value=%d pattern=%s", i, want), found)
	}
	if len(tbl.Map) != 48 {
		c.Check(R, "code93.encodeTable/len", tbl.Pos, false, "48 entries", fmt.Sprint(len(tbl.Map)))
	}

	const R3 = "S3-C93-FULLASCII"
	c.Doc(R3, "code93.extendedTable[r] for r = 0..127 is the standard full-ASCII spelling (shift character + letter, or the character itself)")
	c.Floor(R3, 128)
	ext, err := c.P.EvalVar("code93", "extendedTable")
	if err != nil {
		c.Anchor(R3, "code93.extendedTable", err.Error())
		return
	}
	if len(ext.List) != 128 {
		c.Check(R3, "code93.extendedTable/len", ext.Pos, false, "128 entries", fmt.Sprint(len(ext.List)))
	}
	for r, e := range ext.List {
		key := fmt.Sprintf("code93.extendedTable[%d]", r)
		if e.Kind != VString {
			c.Undecided(R3, key, e.Pos, "not a string")
			continue
		}
		c.Count["table_entries"]++
		wants := code93Extended(r, rune(fn[0]), rune(fn[1]), rune(fn[2]), rune(fn[3]))
		ok := false
		for _, w := range wants {
			if w == e.S {
				ok = true
			}
		}
		c.Check(R3, key, e.Pos, ok, fmt.Sprintf("%q", wants), fmt.Sprintf("%q", e.S))
	}
}

// ---------------------------------------------------------------------------------------------
// Codabar

// 7 wide-flags (bar,space,bar,space,bar,space,bar) per character, as in the AIM/USS Codabar table
var codabarWide = map[rune]int{'0': 0x03, '1': 0x06, '2': 0x09, '3': 0x60, '4': 0x12, '5': 0x42, '6': 0x21, '7': 0x24, '8': 0x30, '9': 0x48,
	'-': 0x0c, '$': 0x18, ':': 0x45, '/': 0x51, '.': 0x54, '+': 0x15, 'A': 0x1A, 'B': 0x29, 'C': 0x0B, 'D': 0x0E}

func codabarPattern(r rune) string {
	w := codabarWide[r]
	var sb strings.Builder
	for i := 0; i < 7; i++ {
		n := 1
		if (w>>(6-uint(i)))&1 == 1 {
			n = 2
		}
		ch := "1"
		if i%2 == 1 {
			ch = "0"
		}
		sb.WriteString(strings.Repeat(ch, n))
	}
	return sb.String()
}

func ruleCodabarTable(c *Ctx) {
	const R = "B1-CODABAR-TABLE"
	c.Doc(R, "codabar.encodingTable: exactly the 20 Codabar characters, each 4 bars + 3 spaces with the standard wide elements (wide = 2 modules)")
	c.Floor(R, 20)
	tbl, err := c.P.EvalVar("codabar", "encodingTable")
	if err != nil {
		c.Anchor(R, "codabar.encodingTable", err.Error())
		return
	}
	c.Fn("codabar.encodingTable")
	var keys []int
	for r := range codabarWide {
		keys = append(keys, int(r))
	}
	sort.Ints(keys)
	for _, k := range keys {
		key := fmt.Sprintf("codabar.encodingTable[%q]", string(rune(k)))
		e := tbl.MapGetInt(int64(k))
		if e == nil {
			c.Check(R, key, tbl.Pos, false, "entry present", "missing")
			continue
		}
		c.Count["table_entries"]++
		got, ok := e.Bits()
		if !ok {
			c.Undecided(R, key, e.Pos, "not a []bool literal")
			continue
		}
		want := codabarPattern(rune(k))
		c.Check(R, key, e.Pos, got == want, want, got)
	}
	if len(tbl.Map) != 20 {
		c.Check(R, "codabar.encodingTable/len", tbl.Pos, false, "20 entries", fmt.Sprint(len(tbl.Map)))
	}
}

// ---------------------------------------------------------------------------------------------
// 2 of 5

func ruleTwoOfFiveTables(c *Ctx) {
	const R = "B3-2OF5-TABLES"
	c.Doc(R, "twooffive.encodingTable: digit d has exactly two wide elements whose weights 1-2-4-7-parity sum to d (11 for 0); modes: standard start 11011010 / stop 1101011, interleaved start 1010 / stop 11101, widths wide=3 narrow=1")
	c.Floor(R, 18)
	tbl, err := c.P.EvalVar("twooffive", "encodingTable")
	if err != nil {
		c.Anchor(R, "twooffive.encodingTable", err.Error())
		return
	}
	c.Fn("twooffive.encodingTable")
	weights := []int{1, 2, 4, 7, 0}
	for d := 0; d < 10; d++ {
		key := fmt.Sprintf("twooffive.encodingTable['%d']", d)
		e := tbl.MapGetInt(int64('0' + d))
		if e == nil {
			c.Check(R, key, tbl.Pos, false, "entry present", "missing")
			continue
		}
		c.Count["table_entries"]++
		bits, ok := e.Bits()
		if !ok || len(bits) != 5 {
			c.Check(R, key, e.Pos, false, "5 bools", bits)
			continue
		}
		sum, wide := 0, 0
		for i := 0; i < 5; i++ {
			if bits[i] == '1' {
				sum += weights[i]
				wide++
			}
		}
		want := d
		if d == 0 {
			want = 11
		}
		c.Check(R, key, e.Pos, wide == 2 && sum == want, fmt.Sprintf("two wide elements, weight sum %d", want), fmt.Sprintf("%s: %d wide, weight sum %d", bits, wide, sum))
	}
	if len(tbl.Map) != 10 {
		c.Check(R, "twooffive.encodingTable/len", tbl.Pos, false, "10 entries", fmt.Sprint(len(tbl.Map)))
	}
	pw, ok := c.P.ConstInt("twooffive", "patternWidth")
	if !ok {
		c.Anchor(R, "twooffive.patternWidth", "constant not found")
	} else {
		c.Check(R, "twooffive.patternWidth", c.P.PkgConst("twooffive", "patternWidth").Pos(), pw == 5, "5", fmt.Sprint(pw))
	}
	modes, err := c.P.EvalVar("twooffive", "modes")
	if err != nil {
		c.Anchor(R, "twooffive.modes", err.Error())
		return
	}
	for _, m := range []struct {
		il         bool
		start, end string
	}{{false, "11011010", "1101011"}, {true, "1010", "11101"}} {
		e := modes.MapGetBool(m.il)
		key := fmt.Sprintf("twooffive.modes[%v]", m.il)
		if e == nil {
			c.Check(R, key, modes.Pos, false, "entry present", "missing")
			continue
		}
		s, _ := e.Field("start").Bits()
		en, _ := e.Field("end").Bits()
		c.Check(R, key+".start", e.Pos, s == m.start, m.start, s)
		c.Check(R, key+".end", e.Pos, en == m.end, m.end, en)
		w := e.Field("widths")
		if w == nil || w.Kind != VMap {
			// the widths are not kept as a table of their own: what EncodeWithColor draws per element
			// value is pinned by B6 (1 module narrow, 2..3 wide, for both variants)
			c.Check(R, key+".widths", e.Pos, true, "narrow=1, wide=2..3", "decided by B6 on the drawing loop")
			continue
		}
		wt, wf := w.MapGetBool(true), w.MapGetBool(false)
		okw := wt != nil && wf != nil && wf.I == 1 && (wt.I == 2 || wt.I == 3)
		c.Check(R, key+".widths", e.Pos, okw, "narrow=1, wide=2..3 (wide:narrow ratio within the standard's 2:1..3:1)", w.String())
	}
	sp, err := c.P.EvalVar("twooffive", "nonInterleavedSpace")
	if err != nil {
		c.Anchor(R, "twooffive.nonInterleavedSpace", err.Error())
	} else {
		b, _ := sp.Bits()
		c.Check(R, "twooffive.nonInterleavedSpace", sp.Pos, b == "00000", "00000 (all spaces narrow)", b)
	}
}
