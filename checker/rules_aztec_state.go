package main

import (
	"fmt"
	"go/token"
	"go/types"
	"sort"
	"strings"

	"golang.org/x/tools/go/ssa"
)

// A6: structural rules on the Aztec encoder state transitions (aztec/state.go).
func ruleAztecState(c *Ctx) {
	const R = "A6-AZTEC-STATE"
	c.Doc(R, "aztec state transitions: BitCount is 4 exactly in digit mode, else 5; a binary shift is entered from Punct or Digit (which have no B/S code) only after latching to Upper (the latch block is reached iff mode is punct or digit, uses latchTable[mode][upper], and the new mode is upper); binary-shift cost 18 bits at byte 0 and 31, 9 at byte 62, else 8; latchAndAppend latches iff the mode changes, using latchTable[s.mode][mode]; shiftAndAppend emits shiftTable[s.mode][mode] in the CURRENT mode's width followed by a 5-bit value")
	c.Floor(R, 10)
	mv := map[string]int64{}
	for _, m := range []string{"mode_upper", "mode_lower", "mode_digit", "mode_mixed", "mode_punct"} {
		v, ok := c.P.ConstInt("aztec", m)
		if !ok {
			c.Anchor(R, "aztec."+m, "constant not found")
			return
		}
		mv[m] = v
	}
	if fn := c.theFunc(R, "aztec.(encodingMode).BitCount"); fn != nil {
		n := NewNormer(c.P)
		n.BindParams(fn, "em")
		for _, ret := range returnsOf(fn) {
			k, ok := n.Norm(ret.Results[0]).IsConst()
			rc := n.ReachCond(fn, nil, ret.Block())
			switch {
			case ok && k == 4:
				c.expectCond(R, "aztec.(encodingMode).BitCount/4-iff", ret.Pos(), rc, fmt.Sprintf("em == %d", mv["mode_digit"]))
			case ok && k == 5:
				c.expectCond(R, "aztec.(encodingMode).BitCount/5-iff", ret.Pos(), rc, fmt.Sprintf("em != %d", mv["mode_digit"]))
			default:
				c.Check(R, "aztec.(encodingMode).BitCount/value", ret.Pos(), false, "4 or 5", n.Norm(ret.Results[0]).String())
			}
		}
	}
	if fn := c.theFunc(R, "aztec.(*state).addBinaryShiftChar"); fn != nil {
		n := NewNormer(c.P)
		n.BindParams(fn, "s", "index")
		// latch block: the one that reads latchTable
		var latchBlk *ssa.BasicBlock
		var lookups []ssa.Value
		var lastSite DeepSite
		c.P.deepEach(fn, 1, func(s DeepSite) {
			if lk, ok := tableRead(s.Ins); ok && strings.Contains(NewNormer(c.P).Norm(lk).String(), "aztec.latchTable") {
				lookups = append(lookups, lk)
				lastSite = s
				latchBlk = s.Ins.Block()
				if len(s.Path) > 0 {
					latchBlk = s.Path[0].Block() // the call (in this function) of the helper that reads the table
				}
			}
		})
		if latchBlk == nil {
			c.Check(R, "aztec.(*state).addBinaryShiftChar/latch", fn.Pos(), false, "a latch to upper through latchTable", "no table lookup")
		} else {
			c.expectCond(R, "aztec.(*state).addBinaryShiftChar/latch-iff", latchBlk.Instrs[0].Pos(), n.ReachCond(fn, nil, latchBlk),
				fmt.Sprintf("s.mode == %d || s.mode == %d", mv["mode_punct"], mv["mode_digit"]))
			last := lookups[len(lookups)-1]
			got := n.NormAt(lastSite, last).String()
			want := fmt.Sprintf("idx(idx(global:aztec.latchTable,s.mode),%d)", mv["mode_upper"])
			c.Check(R, "aztec.(*state).addBinaryShiftChar/latch-entry", last.Pos(), canonAccess(got) == canonAccess(want), want, got)
		}
		// new state's fields
		var obj *ssa.Alloc
		eachInstr(fn, func(b *ssa.BasicBlock, ins ssa.Instruction) {
			if a, ok := ins.(*ssa.Alloc); ok && namedTypeName(a.Type()) == "aztec.state" {
				obj = a
			}
		})
		if obj == nil {
			c.Undecided(R, "aztec.(*state).addBinaryShiftChar/result", fn.Pos(), "no new state")
		} else {
			// the value a field of the new state has when it is returned: one store, or - when the state is
			// built first and patched under the latch condition - the last store on each path
			st0 := obj.Type().Underlying().(*types.Pointer).Elem().Underlying().(*types.Struct)
			finalCases := func(name string) ([]valCase, token.Pos, bool) {
				sts := fieldStores(fn, obj, name)
				if len(sts) == 1 {
					return n.valueCases(fn, nil, sts[0].Val, 0), sts[0].Pos(), true
				}
				if len(sts) == 0 {
					return nil, fn.Pos(), false
				}
				fidx := -1
				for i := 0; i < st0.NumFields(); i++ {
					if fname(st0.Field(i)) == name {
						fidx = i
					}
				}
				if fidx < 0 {
					return nil, fn.Pos(), false
				}
				cs, ok := n.firstEscapeCases(cellRef{obj, []int{fidx}})
				return cs, sts[0].Pos(), ok
			}
			latchC := fmt.Sprintf("s.mode == %d || s.mode == %d", mv["mode_punct"], mv["mode_digit"])
			if cs, pos, ok := finalCases("mode"); ok {
				checkCases(c, R, "aztec.(*state).addBinaryShiftChar/mode", pos, cs, []edgeSpec{
					{fmt.Sprint(mv["mode_upper"]), latchC},
					{"s.mode", "!(" + latchC + ")"}})
			} else {
				c.Undecided(R, "aztec.(*state).addBinaryShiftChar/mode", fn.Pos(), "mode of the new state is not decided by its stores")
			}
			if cs, pos, ok := finalCases("bShiftByteCount"); ok && len(cs) == 1 {
				c.Check(R, "aztec.(*state).addBinaryShiftChar/count", pos, pEqual(cs[0].val, MustRef("s.bShiftByteCount + 1")), "s.bShiftByteCount + 1", cs[0].val.String())
			} else {
				c.Undecided(R, "aztec.(*state).addBinaryShiftChar/count", fn.Pos(), "byte count of the new state is not decided by its stores")
			}
			// the bit count grows by the per-byte cost (and by the latch, when one was needed): the cost
			// is what remains of the new count after the old count and the latch bits are taken away
			if cs, pos, ok := finalCases("bitCount"); ok {
				// alternatives hidden in the stored expressions (the cost may come from a helper)
				var flat []valCase
				for _, c0 := range cs {
					flat = append(flat, c0)
				}
				byCost := map[int64]*Cond{}
				bad := ""
				for _, c0 := range flat {
					rest := Poly{}
					for m, cf := range c0.val {
						if m == "s.bitCount" && cf == 1 {
							continue
						}
						if strings.Contains(m, "latchTable") {
							continue
						}
						rest[m] = cf
					}
					k, isK := rest.IsConst()
					if !isK {
						bad += c0.val.String() + "; "
						continue
					}
					if byCost[k] == nil {
						byCost[k] = cFalse
					}
					byCost[k] = cOr(byCost[k], c0.cond)
				}
				if bad != "" {
					c.Undecided(R, "aztec.(*state).addBinaryShiftChar/delta", pos, "bit cost is not a choice of constants: "+bad)
				} else {
					var delta []valCase
					for k, cd := range byCost {
						delta = append(delta, valCase{pConst(k), cd})
					}
					sort.Slice(delta, func(i, j int) bool { a, _ := delta[i].val.IsConst(); b, _ := delta[j].val.IsConst(); return a > b })
					checkCases(c, R, "aztec.(*state).addBinaryShiftChar/delta", pos, delta, []edgeSpec{
						{"18", "s.bShiftByteCount == 0 || s.bShiftByteCount == 31"},
						{"9", "s.bShiftByteCount != 0 && s.bShiftByteCount != 31 && s.bShiftByteCount == 62"},
						{"8", "s.bShiftByteCount != 0 && s.bShiftByteCount != 31 && s.bShiftByteCount != 62"}})
				}
			} else {
				c.Undecided(R, "aztec.(*state).addBinaryShiftChar/delta", fn.Pos(), "bit count of the new state is not decided by its stores")
			}
		}
	}
	if fn := c.theFunc(R, "aztec.(*state).latchAndAppend"); fn != nil {
		n := NewNormer(c.P)
		n.BindParams(fn, "s", "mode", "value")
		var lk ssa.Value
		var blk *ssa.BasicBlock
		var lkSite DeepSite
		c.P.deepEach(fn, 1, func(s DeepSite) {
			if l, ok := tableRead(s.Ins); ok && strings.Contains(NewNormer(c.P).Norm(l).String(), "aztec.latchTable") {
				lk, blk, lkSite = l, s.Ins.Block(), s
				if len(s.Path) > 0 {
					blk = s.Path[0].Block()
				}
			}
		})
		if lk == nil {
			c.Check(R, "aztec.(*state).latchAndAppend/latch", fn.Pos(), false, "latchTable lookup", "none")
		} else {
			c.expectCond(R, "aztec.(*state).latchAndAppend/latch-iff", lk.Pos(), n.ReachCond(fn, nil, blk), "mode != s.mode")
			got := n.NormAt(lkSite, lk).String()
			c.Check(R, "aztec.(*state).latchAndAppend/latch-entry", lk.Pos(), canonAccess(got) == "global:aztec.latchTable[s.mode][mode]", "latchTable[s.mode][mode]", got)
		}
	}
	// latch tokens: wherever a latchTable entry L is turned into a token, the token carries the low 16
	// bits of L as its value and L >> 16 as its bit count (the longest latch, Digit -> Punct, has 14 bits)
	for _, name := range []string{"aztec.(*state).latchAndAppend", "aztec.(*state).addBinaryShiftChar"} {
		fn := c.P.Func(name)
		if fn == nil {
			continue
		}
		n := NewNormer(c.P)
		n.BindParams(fn, "s", "mode", "value")
		found := 0
		for _, site := range c.P.deepCallsTo(fn, c.P.Func("aztec.newSimpleToken")) {
			call := site.Ins.(*ssa.Call)
			a := call.Common().Args
			saved := n.Ctx
			n.Ctx = site.Path
			val, cnt := n.Norm(a[1]).String(), n.Norm(a[2]).String()
			n.Ctx = saved
			if !strings.Contains(val, "latchTable") && !strings.Contains(cnt, "latchTable") {
				continue
			}
			found++
			// L: the table entry inside the value expression
			L := ""
			if i := strings.Index(val, "idx(idx(global:aztec.latchTable"); i >= 0 {
				depth := 0
				for j := i; j < len(val); j++ {
					if val[j] == '(' {
						depth++
					} else if val[j] == ')' {
						depth--
						if depth == 0 {
							L = val[i : j+1]
							break
						}
					}
				}
			} else if i := strings.Index(val, "global:aztec.latchTable["); i >= 0 {
				j := i
				for depth := 0; j < len(val); j++ {
					if val[j] == '[' {
						depth++
					} else if val[j] == ']' {
						depth--
						if depth == 0 && (j+1 >= len(val) || val[j+1] != '[') {
							break
						}
					}
				}
				L = val[i : j+1]
			}
			okVal := L != "" && (val == "And(65535,"+L+")" || val == "And("+L+",65535)" || val == "Conv:uint16("+L+")" || val == "Mod("+L+",65536)")
			okCnt := L != "" && (cnt == "Conv:uint8(Shr("+L+",16))" || cnt == "Shr("+L+",16)" || cnt == "Conv:uint8(Div("+L+",65536))" || cnt == "Div("+L+",65536)")
			c.Check(R, fmt.Sprintf("%s/latch-token#%d", name, found), call.Pos(), okVal && okCnt, "token(L & 0xFFFF, L >> 16) for the latch entry L", fmt.Sprintf("token(%s, %s)", val, cnt))
		}
		c.Check(R, name+"/latch-token", fn.Pos(), found >= 1, "a token made from the latch entry", fmt.Sprint(found))
	}
	if fn := c.theFunc(R, "aztec.(*state).latchAndAppend"); fn != nil {
		// the value token and the new state
		n := NewNormer(c.P)
		n.BindParams(fn, "s", "mode", "value")
		n.NoInline["aztec.(encodingMode).BitCount"] = true
		var valueTok *ssa.Call
		for _, call := range callsTo(fn, c.P.Func("aztec.newSimpleToken")) {
			if n.Norm(call.Common().Args[1]).String() == "value" {
				valueTok = call
			}
		}
		if valueTok == nil {
			c.Check(R, "aztec.(*state).latchAndAppend/value-token", fn.Pos(), false, "a token for the value", "none")
		} else {
			got := n.Norm(valueTok.Common().Args[2]).String()
			c.Check(R, "aztec.(*state).latchAndAppend/value-token", valueTok.Pos(), got == "call:aztec.(encodingMode).BitCount(mode)", "token(value, BitCount of the NEW mode)", got)
			c.expectCond(R, "aztec.(*state).latchAndAppend/value-token-always", valueTok.Pos(), n.ReachCond(fn, nil, valueTok.Block()), "true")
			// it follows the latch token when there is one, else the old tokens
			prevOK := false
			for _, cs := range n.valueCases(fn, nil, valueTok.Common().Args[0], 0) {
				_ = cs
				prevOK = true
			}
			if phi, ok := valueTok.Common().Args[0].(*ssa.Phi); ok {
				seenOld, seenLatch := false, false
				for _, e := range phi.Edges {
					if n.Norm(e).String() == "s.tokens" {
						seenOld = true
						continue
					}
					// the latch token: built here, or in a helper that returns it
					for _, site := range c.P.deepCallsTo(fn, c.P.Func("aztec.newSimpleToken")) {
						lc := site.Ins.(*ssa.Call)
						if lc == valueTok || n.NormAt(site, lc.Common().Args[0]).String() != "s.tokens" {
							continue
						}
						switch x := e.(type) {
						case *ssa.Call:
							if x == lc {
								seenLatch = true
							} else if len(site.Path) == 1 && site.Path[0] == ssa.CallInstruction(x) {
								for _, r := range returnsOf(site.Fn) {
									if len(r.Results) == 1 && r.Results[0] == ssa.Value(lc) {
										seenLatch = true
									}
								}
							}
						case *ssa.Extract:
							if hc, isCall := x.Tuple.(*ssa.Call); isCall && len(site.Path) == 1 && site.Path[0] == ssa.CallInstruction(hc) {
								rs := returnsOf(site.Fn)
								okAll := len(rs) > 0
								for _, r := range rs {
									okAll = okAll && x.Index < len(r.Results) && r.Results[x.Index] == ssa.Value(lc)
								}
								seenLatch = seenLatch || okAll
							}
						}
					}
				}
				prevOK = seenOld && seenLatch
			} else {
				prevOK = false
			}
			c.Check(R, "aztec.(*state).latchAndAppend/token-chain", valueTok.Pos(), prevOK, "value token follows the latch token (which follows s.tokens), or s.tokens when no latch is needed", n.Norm(valueTok.Common().Args[0]).String())
		}
		var obj *ssa.Alloc
		eachInstr(fn, func(b *ssa.BasicBlock, ins ssa.Instruction) {
			if a, ok := ins.(*ssa.Alloc); ok && namedTypeName(a.Type()) == "aztec.state" {
				obj = a
			}
		})
		if obj == nil {
			c.Undecided(R, "aztec.(*state).latchAndAppend/result", fn.Pos(), "no new state")
		} else {
			for _, f := range []struct{ name, want string }{{"mode", "mode"}, {"bShiftByteCount", "0"}} {
				sts := fieldStores(fn, obj, f.name)
				got := "not stored"
				if len(sts) == 1 {
					got = n.Norm(sts[0].Val).String()
				}
				if f.name == "bShiftByteCount" && len(sts) == 0 {
					got = "0" // left at its zero value
				}
				c.Check(R, "aztec.(*state).latchAndAppend/new-"+f.name, fn.Pos(), got == f.want, f.want, got)
			}
			if sts := fieldStores(fn, obj, "tokens"); len(sts) == 1 && valueTok != nil {
				c.Check(R, "aztec.(*state).latchAndAppend/new-tokens", sts[0].Pos(), sts[0].Val == ssa.Value(valueTok), "the value token", n.Norm(sts[0].Val).String())
			} else {
				c.Check(R, "aztec.(*state).latchAndAppend/new-tokens", fn.Pos(), false, "the value token", fmt.Sprint(len(sts))+" stores")
			}
			if sts := fieldStores(fn, obj, "bitCount"); len(sts) == 1 {
				var cases []valCase
				for _, cs := range n.valueCases(fn, nil, sts[0].Val, 0) {
					// the latch cost, whatever entry it is read from, is named by its role
					v := Poly{}
					for m, cf := range cs.val {
						if (strings.HasPrefix(m, "Shr(") && strings.HasSuffix(m, ",16)") || strings.HasPrefix(m, "Div(") && strings.HasSuffix(m, ",65536)")) && strings.Contains(m, "latchTable") {
							v["latchbits"] += cf
						} else {
							v[m] += cf
						}
					}
					cases = append(cases, valCase{v, cs.cond})
				}
				base := pAdd(pAtom("s.bitCount"), n.Norm(bitCountOfMode(fn, sts[0].Val)), 1)
				checkCasesC(c, R, "aztec.(*state).latchAndAppend/new-bitCount", sts[0].Pos(), mergeCases(cases), []caseSpec{
					{pAdd(base, pAtom("latchbits"), 1), MustRefCond("mode != s.mode")},
					{base, MustRefCond("mode == s.mode")}})
			} else {
				c.Check(R, "aztec.(*state).latchAndAppend/new-bitCount", fn.Pos(), false, "one store of the bit count", fmt.Sprint(len(sts)))
			}
		}
	}
	if fn := c.theFunc(R, "aztec.(*state).shiftAndAppend"); fn != nil {
		n := NewNormer(c.P)
		n.BindParams(fn, "s", "mode", "value")
		nst := c.P.Func("aztec.newSimpleToken")
		calls := callsTo(fn, nst)
		if len(calls) != 2 {
			c.Check(R, "aztec.(*state).shiftAndAppend/tokens", fn.Pos(), false, "two tokens (shift code, value)", fmt.Sprint(len(calls)))
		} else {
			a := calls[0].Common().Args
			got := fmt.Sprintf("(%s, %s)", n.Norm(a[1]), n.Norm(a[2]))
			want := "(idx(idx(global:aztec.shiftTable,s.mode),mode), call:aztec.(encodingMode).BitCount(s.mode))"
			c.Check(R, "aztec.(*state).shiftAndAppend/shift-token", calls[0].Pos(), got == want, want, got)
			b := calls[1].Common().Args
			got = fmt.Sprintf("(%s, %s)", n.Norm(b[1]), n.Norm(b[2]))
			c.Check(R, "aztec.(*state).shiftAndAppend/value-token", calls[1].Pos(), got == "(value, 5)", "(value, 5)", got)
		}
	}
}

// bitCountOfMode: the conversion of mode.BitCount() (of the function's mode parameter) that occurs in
// the expression v; v itself when there is none (the comparison then fails with both forms shown).
func bitCountOfMode(fn *ssa.Function, v ssa.Value) ssa.Value {
	var found ssa.Value
	seen := map[ssa.Value]bool{}
	var walk func(x ssa.Value, depth int)
	walk = func(x ssa.Value, depth int) {
		if x == nil || seen[x] || depth > 8 || found != nil {
			return
		}
		seen[x] = true
		switch y := x.(type) {
		case *ssa.Convert:
			if call, ok := y.X.(*ssa.Call); ok && calleeOf(call) != nil && calleeOf(call).Name() == "BitCount" && len(call.Common().Args) == 1 && call.Common().Args[0] == ssa.Value(fn.Params[1]) {
				found = y
				return
			}
			walk(y.X, depth+1)
		case *ssa.BinOp:
			walk(y.X, depth+1)
			walk(y.Y, depth+1)
		case *ssa.Phi:
			for _, e := range y.Edges {
				walk(e, depth+1)
			}
		}
	}
	walk(v, 0)
	if found == nil {
		return v
	}
	return found
}
