package main

import (
	"fmt"
	"go/token"
	"strings"

	"golang.org/x/tools/go/ssa"
)

// A6: structural rules on the Aztec encoder state transitions (aztec/state.go).
func ruleAztecState(c *Ctx) {
	const R = "A6-AZTEC-STATE"
	c.Doc(R, "aztec state transitions: BitCount is 4 exactly in digit mode, else 5; a binary shift is entered from Punct or Digit (which have no B/S code) only after latching to Upper (the latch block is reached iff mode is punct or digit, uses latchTable[mode][upper], and the new mode is upper); binary-shift cost 18 bits at byte 0 and 31, 9 at byte 62, else 8; latchAndAppend latches iff the mode changes, using latchTable[s.mode][mode]; shiftAndAppend emits shiftTable[s.mode][mode] in the CURRENT mode's width followed by a 5-bit value")
	c.Floor(R, 10)
	mv := map[string]int64{}
	for _, m := range []string{"mode_upper", "mode_lower", "mode_digit", "mode_mixed", "mode_punct"} {
		v, ok := c.P.ConstInt("aztec", m)
		if !ok {
			c.Anchor(R, "aztec."+m, "constant not found")
			return
		}
		mv[m] = v
	}
	if fn := c.theFunc(R, "aztec.(encodingMode).BitCount"); fn != nil {
		n := NewNormer(c.P)
		n.BindParams(fn, "em")
		for _, ret := range returnsOf(fn) {
			k, ok := n.Norm(ret.Results[0]).IsConst()
			rc := n.ReachCond(fn, nil, ret.Block())
			switch {
			case ok && k == 4:
				c.expectCond(R, "aztec.(encodingMode).BitCount/4-iff", ret.Pos(), rc, fmt.Sprintf("em == %d", mv["mode_digit"]))
			case ok && k == 5:
				c.expectCond(R, "aztec.(encodingMode).BitCount/5-iff", ret.Pos(), rc, fmt.Sprintf("em != %d", mv["mode_digit"]))
			default:
				c.Check(R, "aztec.(encodingMode).BitCount/value", ret.Pos(), false, "4 or 5", n.Norm(ret.Results[0]).String())
			}
		}
	}
	if fn := c.theFunc(R, "aztec.(*state).addBinaryShiftChar"); fn != nil {
		n := NewNormer(c.P)
		n.BindParams(fn, "s", "index")
		// latch block: the one that reads latchTable
		var latchBlk *ssa.BasicBlock
		var lookups []ssa.Value
		var lastSite DeepSite
		c.P.deepEach(fn, 1, func(s DeepSite) {
			if lk, ok := tableRead(s.Ins); ok && strings.Contains(NewNormer(c.P).Norm(lk).String(), "aztec.latchTable") {
				lookups = append(lookups, lk)
				lastSite = s
				latchBlk = s.Ins.Block()
				if len(s.Path) > 0 {
					latchBlk = s.Path[0].Block() // the call (in this function) of the helper that reads the table
				}
			}
		})
		if latchBlk == nil {
			c.Check(R, "aztec.(*state).addBinaryShiftChar/latch", fn.Pos(), false, "a latch to upper through latchTable", "no table lookup")
		} else {
			c.expectCond(R, "aztec.(*state).addBinaryShiftChar/latch-iff", latchBlk.Instrs[0].Pos(), n.ReachCond(fn, nil, latchBlk),
				fmt.Sprintf("s.mode == %d || s.mode == %d", mv["mode_punct"], mv["mode_digit"]))
			last := lookups[len(lookups)-1]
			got := n.NormAt(lastSite, last).String()
			want := fmt.Sprintf("idx(idx(global:aztec.latchTable,s.mode),%d)", mv["mode_upper"])
			c.Check(R, "aztec.(*state).addBinaryShiftChar/latch-entry", last.Pos(), canonAccess(got) == canonAccess(want), want, got)
		}
		// new state's fields
		var obj *ssa.Alloc
		eachInstr(fn, func(b *ssa.BasicBlock, ins ssa.Instruction) {
			if a, ok := ins.(*ssa.Alloc); ok && namedTypeName(a.Type()) == "aztec.state" {
				obj = a
			}
		})
		if obj == nil {
			c.Undecided(R, "aztec.(*state).addBinaryShiftChar/result", fn.Pos(), "no new state")
		} else {
			for _, st := range fieldStores(fn, obj, "mode") {
				if phi, ok := st.Val.(*ssa.Phi); ok {
					checkPhiDef(c, R, "aztec.(*state).addBinaryShiftChar/mode", n, fn, nil, phi, []edgeSpec{
						{fmt.Sprint(mv["mode_upper"]), fmt.Sprintf("s.mode == %d || s.mode == %d", mv["mode_punct"], mv["mode_digit"])},
						{"s.mode", fmt.Sprintf("!(s.mode == %d || s.mode == %d)", mv["mode_punct"], mv["mode_digit"])}})
				} else {
					c.Check(R, "aztec.(*state).addBinaryShiftChar/mode", st.Pos(), false, "upper after a latch, else unchanged", n.Norm(st.Val).String())
				}
			}
			for _, st := range fieldStores(fn, obj, "bShiftByteCount") {
				c.expectPoly(R, "aztec.(*state).addBinaryShiftChar/count", st.Pos(), n, st.Val, "s.bShiftByteCount + 1")
			}
			for _, st := range fieldStores(fn, obj, "bitCount") {
				add, ok := st.Val.(*ssa.BinOp)
				// the per-byte cost: the operand of the sum whose alternatives are all constants
				var delta []valCase
				if ok && add.Op == token.ADD {
					for _, op := range []ssa.Value{add.Y, add.X} {
						cs := n.valueCases(fn, nil, op, 0)
						allConst := len(cs) > 1
						for _, k := range cs {
							if _, isK := k.val.IsConst(); !isK {
								allConst = false
							}
						}
						if allConst {
							delta = cs
							break
						}
					}
				}
				if delta == nil {
					c.Undecided(R, "aztec.(*state).addBinaryShiftChar/delta", st.Pos(), "bit cost is not a choice of constants")
					continue
				}
				checkCases(c, R, "aztec.(*state).addBinaryShiftChar/delta", st.Pos(), delta, []edgeSpec{
					{"18", "s.bShiftByteCount == 0 || s.bShiftByteCount == 31"},
					{"9", "s.bShiftByteCount != 0 && s.bShiftByteCount != 31 && s.bShiftByteCount == 62"},
					{"8", "s.bShiftByteCount != 0 && s.bShiftByteCount != 31 && s.bShiftByteCount != 62"}})
			}
		}
	}
	if fn := c.theFunc(R, "aztec.(*state).latchAndAppend"); fn != nil {
		n := NewNormer(c.P)
		n.BindParams(fn, "s", "mode", "value")
		var lk ssa.Value
		var blk *ssa.BasicBlock
		var lkSite DeepSite
		c.P.deepEach(fn, 1, func(s DeepSite) {
			if l, ok := tableRead(s.Ins); ok && strings.Contains(NewNormer(c.P).Norm(l).String(), "aztec.latchTable") {
				lk, blk, lkSite = l, s.Ins.Block(), s
				if len(s.Path) > 0 {
					blk = s.Path[0].Block()
				}
			}
		})
		if lk == nil {
			c.Check(R, "aztec.(*state).latchAndAppend/latch", fn.Pos(), false, "latchTable lookup", "none")
		} else {
			c.expectCond(R, "aztec.(*state).latchAndAppend/latch-iff", lk.Pos(), n.ReachCond(fn, nil, blk), "mode != s.mode")
			got := n.NormAt(lkSite, lk).String()
			c.Check(R, "aztec.(*state).latchAndAppend/latch-entry", lk.Pos(), canonAccess(got) == "global:aztec.latchTable[s.mode][mode]", "latchTable[s.mode][mode]", got)
		}
	}
	if fn := c.theFunc(R, "aztec.(*state).shiftAndAppend"); fn != nil {
		n := NewNormer(c.P)
		n.BindParams(fn, "s", "mode", "value")
		nst := c.P.Func("aztec.newSimpleToken")
		calls := callsTo(fn, nst)
		if len(calls) != 2 {
			c.Check(R, "aztec.(*state).shiftAndAppend/tokens", fn.Pos(), false, "two tokens (shift code, value)", fmt.Sprint(len(calls)))
		} else {
			a := calls[0].Common().Args
			got := fmt.Sprintf("(%s, %s)", n.Norm(a[1]), n.Norm(a[2]))
			want := "(idx(idx(global:aztec.shiftTable,s.mode),mode), call:aztec.(encodingMode).BitCount(s.mode))"
			c.Check(R, "aztec.(*state).shiftAndAppend/shift-token", calls[0].Pos(), got == want, want, got)
			b := calls[1].Common().Args
			got = fmt.Sprintf("(%s, %s)", n.Norm(b[1]), n.Norm(b[2]))
			c.Check(R, "aztec.(*state).shiftAndAppend/value-token", calls[1].Pos(), got == "(value, 5)", "(value, 5)", got)
		}
	}
}
