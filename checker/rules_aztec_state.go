package main

import (
	"fmt"
	"go/token"
	"go/types"
	"sort"
	"strings"

	"golang.org/x/tools/go/ssa"
)

// A6: structural rules on the Aztec encoder state transitions (aztec/state.go).
func ruleAztecState(c *Ctx) {
	const R = "A6-AZTEC-STATE"
	c.Doc(R, "aztec state transitions: BitCount is 4 exactly in digit mode, else 5; a binary shift is entered from Punct or Digit (which have no B/S code) only after latching to Upper (the latch block is reached iff mode is punct or digit, uses latchTable[mode][upper], and the new mode is upper); binary-shift cost 18 bits at byte 0 and 31, 9 at byte 62, else 8; latchAndAppend latches iff the mode changes, using latchTable[s.mode][mode]; shiftAndAppend emits shiftTable[s.mode][mode] in the CURRENT mode's width followed by a 5-bit value")
	c.Floor(R, 10)
	mv := map[string]int64{}
	for _, m := range []string{"mode_upper", "mode_lower", "mode_digit", "mode_mixed", "mode_punct"} {
		v, ok := c.P.ConstInt("aztec", m)
		if !ok {
			c.Anchor(R, "aztec."+m, "constant not found")
			return
		}
		mv[m] = v
	}
	if fn := c.theFunc(R, "aztec.(encodingMode).BitCount"); fn != nil {
		n := NewNormer(c.P)
		n.BindParams(fn, "em")
		for _, ret := range returnsOf(fn) {
			k, ok := n.Norm(ret.Results[0]).IsConst()
			rc := n.ReachCond(fn, nil, ret.Block())
			switch {
			case ok && k == 4:
				c.expectCond(R, "aztec.(encodingMode).BitCount/4-iff", ret.Pos(), rc, fmt.Sprintf("em == %d", mv["mode_digit"]))
			case ok && k == 5:
				c.expectCond(R, "aztec.(encodingMode).BitCount/5-iff", ret.Pos(), rc, fmt.Sprintf("em != %d", mv["mode_digit"]))
			default:
				c.Check(R, "aztec.(encodingMode).BitCount/value", ret.Pos(), false, "4 or 5", n.Norm(ret.Results[0]).String())
			}
		}
	}
	if fn := c.theFunc(R, "aztec.(*state).addBinaryShiftChar"); fn != nil {
		n := NewNormer(c.P)
		n.BindParams(fn, "s", "index")
		// latch block: the one that reads latchTable
		var latchBlk *ssa.BasicBlock
		var lookups []ssa.Value
		var lastSite DeepSite
		c.P.deepEach(fn, 1, func(s DeepSite) {
			if lk, ok := tableRead(s.Ins); ok && strings.Contains(NewNormer(c.P).Norm(lk).String(), "aztec.latchTable") {
				lookups = append(lookups, lk)
				lastSite = s
				latchBlk = s.Ins.Block()
				if len(s.Path) > 0 {
					latchBlk = s.Path[0].Block() // the call (in this function) of the helper that reads the table
				}
			}
		})
		if latchBlk == nil {
			c.Check(R, "aztec.(*state).addBinaryShiftChar/latch", fn.Pos(), false, "a latch to upper through latchTable", "no table lookup")
		} else {
			c.expectCond(R, "aztec.(*state).addBinaryShiftChar/latch-iff", latchBlk.Instrs[0].Pos(), n.ReachCond(fn, nil, latchBlk),
				fmt.Sprintf("s.mode == %d || s.mode == %d", mv["mode_punct"], mv["mode_digit"]))
			last := lookups[len(lookups)-1]
			got := n.NormAt(lastSite, last).String()
			want := fmt.Sprintf("idx(idx(global:aztec.latchTable,s.mode),%d)", mv["mode_upper"])
			c.Check(R, "aztec.(*state).addBinaryShiftChar/latch-entry", last.Pos(), canonAccess(got) == canonAccess(want), want, got)
		}
		// new state's fields
		var obj *ssa.Alloc
		eachInstr(fn, func(b *ssa.BasicBlock, ins ssa.Instruction) {
			if a, ok := ins.(*ssa.Alloc); ok && namedTypeName(a.Type()) == "aztec.state" {
				obj = a
			}
		})
		if obj == nil {
			c.Undecided(R, "aztec.(*state).addBinaryShiftChar/result", fn.Pos(), "no new state")
		} else {
			// the value a field of the new state has when it is returned: one store, or - when the state is
			// built first and patched under the latch condition - the last store on each path
			st0 := obj.Type().Underlying().(*types.Pointer).Elem().Underlying().(*types.Struct)
			finalCases := func(name string) ([]valCase, token.Pos, bool) {
				sts := fieldStores(fn, obj, name)
				if len(sts) == 1 {
					return n.valueCases(fn, nil, sts[0].Val, 0), sts[0].Pos(), true
				}
				if len(sts) == 0 {
					return nil, fn.Pos(), false
				}
				fidx := -1
				for i := 0; i < st0.NumFields(); i++ {
					if fname(st0.Field(i)) == name {
						fidx = i
					}
				}
				if fidx < 0 {
					return nil, fn.Pos(), false
				}
				cs, ok := n.firstEscapeCases(cellRef{obj, []int{fidx}})
				return cs, sts[0].Pos(), ok
			}
			latchC := fmt.Sprintf("s.mode == %d || s.mode == %d", mv["mode_punct"], mv["mode_digit"])
			if cs, pos, ok := finalCases("mode"); ok {
				checkCases(c, R, "aztec.(*state).addBinaryShiftChar/mode", pos, cs, []edgeSpec{
					{fmt.Sprint(mv["mode_upper"]), latchC},
					{"s.mode", "!(" + latchC + ")"}})
			} else {
				c.Undecided(R, "aztec.(*state).addBinaryShiftChar/mode", fn.Pos(), "mode of the new state is not decided by its stores")
			}
			if cs, pos, ok := finalCases("bShiftByteCount"); ok && len(cs) == 1 {
				c.Check(R, "aztec.(*state).addBinaryShiftChar/count", pos, pEqual(cs[0].val, MustRef("s.bShiftByteCount + 1")), "s.bShiftByteCount + 1", cs[0].val.String())
			} else {
				c.Undecided(R, "aztec.(*state).addBinaryShiftChar/count", fn.Pos(), "byte count of the new state is not decided by its stores")
			}
			// the bit count grows by the per-byte cost (and by the latch, when one was needed): the cost
			// is what remains of the new count after the old count and the latch bits are taken away
			if cs, pos, ok := finalCases("bitCount"); ok {
				// alternatives hidden in the stored expressions (the cost may come from a helper)
				var flat []valCase
				for _, c0 := range cs {
					flat = append(flat, c0)
				}
				byCost := map[int64]*Cond{}
				bad := ""
				for _, c0 := range flat {
					rest := Poly{}
					for m, cf := range c0.val {
						if m == "s.bitCount" && cf == 1 {
							continue
						}
						if strings.Contains(m, "latchTable") {
							continue
						}
						rest[m] = cf
					}
					k, isK := rest.IsConst()
					if !isK {
						bad += c0.val.String() + "; "
						continue
					}
					if byCost[k] == nil {
						byCost[k] = cFalse
					}
					byCost[k] = cOr(byCost[k], c0.cond)
				}
				if bad != "" {
					c.Undecided(R, "aztec.(*state).addBinaryShiftChar/delta", pos, "bit cost is not a choice of constants: "+bad)
				} else {
					var delta []valCase
					for k, cd := range byCost {
						delta = append(delta, valCase{pConst(k), cd})
					}
					sort.Slice(delta, func(i, j int) bool { a, _ := delta[i].val.IsConst(); b, _ := delta[j].val.IsConst(); return a > b })
					checkCases(c, R, "aztec.(*state).addBinaryShiftChar/delta", pos, delta, []edgeSpec{
						{"18", "s.bShiftByteCount == 0 || s.bShiftByteCount == 31"},
						{"9", "s.bShiftByteCount != 0 && s.bShiftByteCount != 31 && s.bShiftByteCount == 62"},
						{"8", "s.bShiftByteCount != 0 && s.bShiftByteCount != 31 && s.bShiftByteCount != 62"}})
				}
			} else {
				c.Undecided(R, "aztec.(*state).addBinaryShiftChar/delta", fn.Pos(), "bit count of the new state is not decided by its stores")
			}
		}
	}
	if fn := c.theFunc(R, "aztec.(*state).latchAndAppend"); fn != nil {
		n := NewNormer(c.P)
		n.BindParams(fn, "s", "mode", "value")
		var lk ssa.Value
		var blk *ssa.BasicBlock
		var lkSite DeepSite
		c.P.deepEach(fn, 1, func(s DeepSite) {
			if l, ok := tableRead(s.Ins); ok && strings.Contains(NewNormer(c.P).Norm(l).String(), "aztec.latchTable") {
				lk, blk, lkSite = l, s.Ins.Block(), s
				if len(s.Path) > 0 {
					blk = s.Path[0].Block()
				}
			}
		})
		if lk == nil {
			c.Check(R, "aztec.(*state).latchAndAppend/latch", fn.Pos(), false, "latchTable lookup", "none")
		} else {
			c.expectCond(R, "aztec.(*state).latchAndAppend/latch-iff", lk.Pos(), n.ReachCond(fn, nil, blk), "mode != s.mode")
			got := n.NormAt(lkSite, lk).String()
			c.Check(R, "aztec.(*state).latchAndAppend/latch-entry", lk.Pos(), canonAccess(got) == "global:aztec.latchTable[s.mode][mode]", "latchTable[s.mode][mode]", got)
		}
	}
	if fn := c.theFunc(R, "aztec.(*state).shiftAndAppend"); fn != nil {
		n := NewNormer(c.P)
		n.BindParams(fn, "s", "mode", "value")
		nst := c.P.Func("aztec.newSimpleToken")
		calls := callsTo(fn, nst)
		if len(calls) != 2 {
			c.Check(R, "aztec.(*state).shiftAndAppend/tokens", fn.Pos(), false, "two tokens (shift code, value)", fmt.Sprint(len(calls)))
		} else {
			a := calls[0].Common().Args
			got := fmt.Sprintf("(%s, %s)", n.Norm(a[1]), n.Norm(a[2]))
			want := "(idx(idx(global:aztec.shiftTable,s.mode),mode), call:aztec.(encodingMode).BitCount(s.mode))"
			c.Check(R, "aztec.(*state).shiftAndAppend/shift-token", calls[0].Pos(), got == want, want, got)
			b := calls[1].Common().Args
			got = fmt.Sprintf("(%s, %s)", n.Norm(b[1]), n.Norm(b[2]))
			c.Check(R, "aztec.(*state).shiftAndAppend/value-token", calls[1].Pos(), got == "(value, 5)", "(value, 5)", got)
		}
	}
}
