package main

import (
	"fmt"
	"go/constant"
	"go/token"
	"go/types"
	"regexp/syntax"
	"sort"
	"strings"

	"golang.org/x/tools/go/ssa"
)

// entryPoints: exported package-level functions whose results are (Barcode|BarcodeIntCS|string, error).
func entryPoints(p *Prog) []*ssa.Function {
	var out []*ssa.Function
	for _, fn := range p.Funcs {
		if fn.Parent() != nil || fn.Signature.Recv() != nil || !token.IsExported(fn.Name()) {
			continue
		}
		res := fn.Signature.Results()
		if res.Len() != 2 || !isErrorType(res.At(1).Type()) {
			continue
		}
		if isBarcodeIface(res.At(0).Type()) || isStringType(res.At(0).Type()) {
			out = append(out, fn)
		}
	}
	return out
}

// nonNilValue: is v definitely non-nil at the point it is returned from block blk?
func nonNilValue(c *Ctx, fn *ssa.Function, v ssa.Value, blk *ssa.BasicBlock, depth int) (bool, string) {
	if depth > 4 {
		return false, "too deep"
	}
	switch x := v.(type) {
	case *ssa.Alloc:
		return true, "fresh allocation"
	case *ssa.MakeInterface:
		return nonNilValue(c, fn, x.X, blk, depth+1)
	case *ssa.ChangeType:
		return nonNilValue(c, fn, x.X, blk, depth+1)
	case *ssa.ChangeInterface:
		return nonNilValue(c, fn, x.X, blk, depth+1)
	case *ssa.Const:
		if x.Value == nil {
			return false, "nil constant"
		}
		return true, "constant"
	case *ssa.Phi:
		for _, e := range x.Edges {
			if ok, why := nonNilValue(c, fn, e, blk, depth+1); !ok {
				return false, why
			}
		}
		return true, "all alternatives non-nil"
	case *ssa.BinOp:
		if isStringType(x.Type()) {
			return true, "string"
		}
	}
	// dereferenced before the return? (a nil value would have panicked, it cannot be returned)
	if refs := v.Referrers(); refs != nil {
		for _, r := range *refs {
			switch x := r.(type) {
			case *ssa.FieldAddr:
				if x.Block().Dominates(blk) {
					for _, r2 := range *x.Referrers() {
						if r2.Block().Dominates(blk) {
							return true, "dereferenced before the return"
						}
					}
				}
			}
		}
	}
	// dominated by a nil check?
	n := NewNormer(c.P)
	rc := n.ReachCond(fn, nil, blk)
	atom := n.Norm(v).asAtom()
	notNil := cNot(&Cond{Kind: CBool, Name: eqName(atom, "nil")})
	if imp, _, _ := CondRelation(rc, notNil); imp {
		return true, "guarded by a nil check"
	}
	if call, ok := v.(*ssa.Call); ok {
		if cal := call.Common().StaticCallee(); cal != nil && isRepoFunc(cal) && cal.Signature.Results().Len() == 1 && cal.Blocks != nil {
			for _, ret := range returnsOf(cal) {
				if ok, why := nonNilValue(c, cal, ret.Results[0], ret.Block(), depth+1); !ok {
					return false, c.P.FuncName(cal) + " may return nil: " + why
				}
			}
			return true, "callee never returns nil"
		}
	}
	return false, "may be nil: " + atom
}

func eqName(a, b string) string {
	if a > b {
		a, b = b, a
	}
	return "Eq(" + a + "," + b + ")"
}

func isErrorCtor(v ssa.Value) bool {
	call, ok := v.(*ssa.Call)
	if !ok {
		return false
	}
	switch calleeFull(call) {
	case "errors.New", "fmt.Errorf":
		return true
	}
	return false
}

func ruleEntryPoints(c *Ctx) {
	const R1 = "R1-RET-XOR"
	c.Doc(R1, "every return of every exported encoder entry point is exactly one of: (nil barcode, definitely non-nil error), (definitely non-nil barcode, nil error), or both results of one call to another function with this discipline")
	c.Floor(R1, 40)
	eps := entryPoints(c.P)
	c.Count["entry_points"] = len(eps)
	epSet := map[*ssa.Function]bool{}
	for _, f := range eps {
		epSet[f] = true
	}
	// internal helpers returning (x, error) that entry points forward results of
	for _, name := range []string{"barcode.scale1DCode", "barcode.scale2DCode"} {
		if f := c.P.Func(name); f != nil {
			epSet[f] = true
			eps = append(eps, f)
		}
	}
	for _, fn := range eps {
		name := c.P.FuncName(fn)
		c.Fn(name)
		for i, ret := range returnsOf(fn) {
			key := fmt.Sprintf("%s/return#%d", name, i+1)
			r0, r1 := ret.Results[0], ret.Results[1]
			// tail call
			if e0, ok := r0.(*ssa.Extract); ok {
				if e1, ok := r1.(*ssa.Extract); ok && e0.Tuple == e1.Tuple && e0.Index == 0 && e1.Index == 1 {
					if call, ok := e0.Tuple.(*ssa.Call); ok && epSet[call.Common().StaticCallee()] {
						c.Check(R1, key, ret.Pos(), true, "tail call", "forwards "+c.P.FuncName(call.Common().StaticCallee()))
						continue
					}
					// a tail call of a function value picked by a helper: every function it can be has the
					// discipline, and it is not nil where it is called
					if call, ok := e0.Tuple.(*ssa.Call); ok && call.Common().StaticCallee() == nil && !call.Common().IsInvoke() {
						n := NewNormer(c.P)
						if hc, idx, exp := expandableCall(call.Common().Value, n); exp {
							all, names := true, ""
							rc := n.ReachCond(fn, nil, call.Block())
							for _, cs := range n.callCases(hc, idx, 0) {
								n.env = append(n.env, map[ssa.Value]Poly{call.Common().Value: cs.val})
								reach := cAnd(cs.cond, n.ReachCond(fn, nil, call.Block()))
								n.env = n.env[:len(n.env)-1]
								if eq, _ := CondEquivalent(reach, cFalse); eq {
									continue // this alternative never gets here
								}
								nm := cs.val.asAtom()
								f := c.P.Func(strings.TrimPrefix(nm, "func:"))
								if !strings.HasPrefix(nm, "func:") || f == nil || !epSet[f] {
									all = false
								}
								names += nm + " "
							}
							_ = rc
							if all && names != "" {
								c.Check(R1, key, ret.Pos(), true, "tail call", "forwards "+names)
								continue
							}
						}
					}
				}
			}
			zero0 := isNilConst(r0)
			if k, ok := r0.(*ssa.Const); ok && isStringType(r0.Type()) && k.Value != nil && constant.StringVal(k.Value) == "" {
				zero0 = true
			}
			switch {
			case zero0:
				ok := isErrorCtor(r1)
				why := "error from errors.New/fmt.Errorf"
				if !ok {
					// an error value guarded by err != nil
					n := NewNormer(c.P)
					n.Bind[r1] = "err" // the guard is on this very value, whatever produced it
					rc := n.ReachCond(fn, nil, ret.Block())
					notNil := cNot(&Cond{Kind: CBool, Name: eqName(n.Norm(r1).asAtom(), "nil")})
					if imp, _, _ := CondRelation(rc, notNil); imp && !isNilConst(r1) {
						ok, why = true, "error value guarded by a nil check"
					} else {
						why = "second result may be nil: " + n.Norm(r1).asAtom()
					}
				}
				c.Check(R1, key, ret.Pos(), ok, "nil barcode with a definitely non-nil error", why)
			case isNilConst(r1):
				ok, why := nonNilValue(c, fn, r0, ret.Block(), 0)
				c.Check(R1, key, ret.Pos(), ok, "definitely non-nil barcode with a nil error", why)
			default:
				c.Check(R1, key, ret.Pos(), false, "exactly one of barcode / error", "both results may be set")
			}
		}
	}

	// R2 error discipline
	const R2 = "R2-ERRCHECK"
	c.Doc(R2, "every call in non-test code whose callee returns an error has that result tested against nil or returned; blank-discard only at frozen sites: the three sub-encoder calls of qr.encodeAuto (companion values are nil-checked instead) and regexp.Compile of a constant pattern that the checker itself parses")
	c.Floor(R2, 8)
	for _, fn := range append(append([]*ssa.Function{}, c.P.Funcs...), c.P.CanaryFuncs...) {
		name := c.P.FuncName(fn)
		k := 0
		eachInstr(fn, func(b *ssa.BasicBlock, ins ssa.Instruction) {
			call, ok := ins.(*ssa.Call)
			if !ok {
				return
			}
			sig := call.Common().Signature()
			res := sig.Results()
			if res.Len() == 0 || !isErrorType(res.At(res.Len()-1).Type()) {
				return
			}
			if isErrorCtor(call) {
				return
			}
			k++
			key := fmt.Sprintf("%s/errcall#%d", name, k)
			c.Fn(name)
			// find the error value
			var errV ssa.Value
			if res.Len() == 1 {
				errV = call
			} else {
				for _, r := range *call.Referrers() {
					if ex, ok := r.(*ssa.Extract); ok && ex.Index == res.Len()-1 {
						errV = ex
					}
				}
			}
			if errV != nil {
				live := false
				for _, r := range *errV.Referrers() {
					if _, dbg := r.(*ssa.DebugRef); !dbg {
						live = true
					}
				}
				if !live {
					errV = nil
				}
			}
			if errV == nil {
				// discarded
				if strings.HasPrefix(calleeFull(call), "(*bytes.Buffer).Write") || strings.HasPrefix(calleeFull(call), "(*strings.Builder).Write") {
					c.Check(R2, key, call.Pos(), true, "bytes.Buffer / strings.Builder writes never fail (documented: err is always nil)", "infallible")
					return
				}
				switch {
				case name == "qr.encodeAuto":
					// companion values must both be nil-checked before use
					var comp []ssa.Value
					for _, r := range *call.Referrers() {
						if ex, ok := r.(*ssa.Extract); ok && ex.Index < res.Len()-1 {
							comp = append(comp, ex)
						}
					}
					checked := 0
					for _, v := range comp {
						for _, r := range *v.Referrers() {
							if bo, ok := r.(*ssa.BinOp); ok && (bo.Op == token.NEQ || bo.Op == token.EQL) && (isNilConst(bo.X) || isNilConst(bo.Y)) {
								checked++
								break
							}
						}
					}
					c.Check(R2, key, call.Pos(), len(comp) == 2 && checked == 2, "frozen instance: error discarded, both companion values nil-checked", fmt.Sprintf("%d companions, %d nil-checked", len(comp), checked))
				case calleeFull(call) == "regexp.Compile":
					pat, ok := call.Common().Args[0].(*ssa.Const)
					good := false
					why := "non-constant pattern"
					if ok && pat.Value != nil {
						_, err := syntax.Parse(constant.StringVal(pat.Value), syntax.Perl)
						good = err == nil
						why = fmt.Sprintf("constant pattern %q parses: %v", constant.StringVal(pat.Value), good)
					}
					c.Check(R2, key, call.Pos(), good, "frozen instance: constant pattern that compiles", why)
				default:
					c.Check(R2, key, call.Pos(), false, "error result tested or returned", "error result of "+call.Common().String()+" is discarded")
				}
				return
			}
			used := false
			for _, r := range *errV.Referrers() {
				switch x := r.(type) {
				case *ssa.BinOp:
					if (x.Op == token.NEQ || x.Op == token.EQL) && (isNilConst(x.X) || isNilConst(x.Y)) {
						used = true
					}
				case *ssa.Return:
					used = true
				case *ssa.Phi:
					used = true
				}
			}
			c.Check(R2, key, call.Pos(), used, "error result tested against nil or returned", fmt.Sprintf("tested=%v", used))
		})
	}

	// WRAP: plain wrappers forward their parameters in order
	const RW = "W1-WRAPPERS"
	c.Doc(RW, "every exported wrapper that only delegates to a sibling (Encode -> EncodeWithColor etc.) passes its own parameters unchanged and in order, followed by the default colour scheme")
	c.Floor(RW, 11)
	for _, fn := range entryPoints(c.P) {
		if len(fn.Blocks) != 1 {
			continue
		}
		var call *ssa.Call
		ncalls := 0
		eachInstr(fn, func(b *ssa.BasicBlock, ins ssa.Instruction) {
			if cl, ok := ins.(*ssa.Call); ok {
				ncalls++
				call = cl
			}
		})
		if ncalls != 1 || call.Common().StaticCallee() == nil || !isRepoFunc(call.Common().StaticCallee()) {
			continue
		}
		name := c.P.FuncName(fn)
		c.Fn(name)
		args := call.Common().Args
		good := len(args) >= len(fn.Params)
		var got []string
		for i, a := range args {
			if i < len(fn.Params) {
				if a != ssa.Value(fn.Params[i]) {
					good = false
				}
				if p, ok := a.(*ssa.Parameter); ok {
					got = append(got, p.Name())
				} else {
					got = append(got, a.Name())
				}
			}
		}
		var want []string
		for _, p := range fn.Params {
			want = append(want, p.Name())
		}
		c.Check(RW, name, call.Pos(), good, strings.Join(want, ", ")+" in order", strings.Join(got, ", "))
	}
}

// ---------------------------------------------------------------------------------------------
// Guards: for functions whose error returns are not loop-dependent, "returns an error exactly
// when <condition>"; for the others, the guard returns (those whose condition is decidable).

type guardSpec struct {
	fn     string
	roles  []string
	calls  map[string]string    // callee name -> role of the call value
	ext    map[string][2]string // callee name -> roles of result #0 / #1
	errIff string               // condition over roles for the union of decidable error returns
	subst  map[string]string    // rename boolean atoms of the reference
}

func bindCalls(n *Normer, p *Prog, fn *ssa.Function, calls map[string]string, ext map[string][2]string) {
	// (also in the unexported helpers fn delegates to: a step may be moved into a helper)
	p.deepEach(fn, 2, func(s DeepSite) {
		ins := s.Ins
		call, ok := ins.(*ssa.Call)
		if !ok || calleeOf(call) == nil {
			return
		}
		name := p.FuncName(calleeOf(call))
		if !isRepoFunc(calleeOf(call)) {
			name = calleeFull(call)
		}
		if r, ok := calls[name]; ok {
			n.Bind[call] = r
		}
		if rs, ok := ext[name]; ok {
			for _, r := range *call.Referrers() {
				if ex, ok := r.(*ssa.Extract); ok && ex.Index < 2 && rs[ex.Index] != "" {
					n.Bind[ex] = rs[ex.Index]
				}
				// the two results returned as one small struct: its fields, in order, carry the roles
				if st, isSt := call.Type().Underlying().(*types.Struct); isSt && st.NumFields() == 2 {
					switch x := r.(type) {
					case *ssa.Field:
						if x.Field < 2 && rs[x.Field] != "" {
							n.Bind[x] = rs[x.Field]
						}
					case *ssa.Store:
						if a, isA := x.Addr.(*ssa.Alloc); isA && x.Val == ssa.Value(call) {
							for _, ar := range *a.Referrers() {
								if fa, isFA := ar.(*ssa.FieldAddr); isFA && fa.Field < 2 && rs[fa.Field] != "" {
									for _, lr := range *fa.Referrers() {
										if ld, isLd := lr.(*ssa.UnOp); isLd {
											n.Bind[ld] = rs[fa.Field]
										}
									}
								}
							}
						}
					}
				}
			}
		}
	})
}

func renameAtoms(c *Cond, m map[string]string) {
	if c.Kind == CBool {
		if nn, ok := m[c.Name]; ok {
			c.Name = nn
		}
	}
	for _, s := range c.Sub {
		renameAtoms(s, m)
	}
}

func hasOpaque(c *Cond) bool {
	if c.Kind == CBool && c.Opaque {
		return true
	}
	for _, s := range c.Sub {
		if hasOpaque(s) {
			return true
		}
	}
	return false
}

// assumeNoForeignChar: the guards are stated for inputs whose characters all belong to the alphabet
// (what happens to the others is the subject of R7 / R-ATOI). A library search over the characters
// with a predicate or a character set - strings.IndexFunc / IndexAny / ContainsFunc / ContainsAny -
// is therefore read as "nothing found".
func assumeNoForeignChar(c *Cond) *Cond {
	switch c.Kind {
	case CAnd:
		return cAnd(assumeNoForeignChar(c.Sub[0]), assumeNoForeignChar(c.Sub[1]))
	case COr:
		return cOr(assumeNoForeignChar(c.Sub[0]), assumeNoForeignChar(c.Sub[1]))
	case CNot:
		return cNot(assumeNoForeignChar(c.Sub[0]))
	case CCmp:
		if strings.HasPrefix(c.Base, "call:strings.IndexFunc(") || strings.HasPrefix(c.Base, "call:strings.IndexAny(") {
			v := -1 + c.K
			if (c.Op == "<" && v < 0) || (c.Op == "==" && v == 0) {
				return cTrue
			}
			return cFalse
		}
	case CBool:
		if strings.HasPrefix(c.Name, "call:strings.ContainsFunc(") || strings.HasPrefix(c.Name, "call:strings.ContainsAny(") {
			return cFalse
		}
	}
	return c
}

func ruleGuards(c *Ctx) {
	const R = "R5-GUARDS"
	c.Doc(R, "input guards of the entry points: the union of the error returns whose condition does not depend on loop state is exactly the rejection condition the symbology prescribes (length limits, parity, emptiness, level and dimension ranges, nil results of sub-steps) - boundary operators included")
	c.Floor(R, 11)
	nilOf := func(role string) string { return eqName(role, "nil") }
	specs := []guardSpec{
		{fn: "code128.EncodeWithColor", roles: []string{"content", "color"},
			calls:  map[string]string{"code128.strToRunes": "runes", "code128.getCodeIndexList": "idx"},
			errIff: "len(runes) <= 0 || len(runes) > 80 || idxNil", subst: map[string]string{"idxNil": nilOf("idx")}},
		{fn: "code128.EncodeWithoutChecksumWithColor", roles: []string{"content", "color"},
			calls:  map[string]string{"code128.strToRunes": "runes", "code128.getCodeIndexList": "idx"},
			errIff: "len(runes) <= 0 || len(runes) > 80 || idxNil", subst: map[string]string{"idxNil": nilOf("idx")}},
		{fn: "pdf417.EncodeWithColor", roles: []string{"data", "level", "color"},
			// encodeData cannot fail (every return yields a nil error - read through the helper); whether
			// it still has an error result or not makes no difference to what is rejected
			ext:    map[string][2]string{"pdf417.highlevelEncode": {"words", "hlErr"}, "pdf417.calcDimensions": {"cols", "rows"}, "pdf417.encodeData": {"cw", ""}},
			errIff: "level >= 9 || !hlNil || cols < 2 || cols > 30 || rows < 2 || rows > 30",
			subst:  map[string]string{"hlNil": nilOf("hlErr")}},
		{fn: "twooffive.EncodeWithColor", roles: []string{"content", "interleaved", "color"},
			errIff: "empty || (interleaved && len(content)%2 == 1)", subst: map[string]string{"empty": "Eq(const:\"\",content)"}},
		{fn: "twooffive.AddCheckSum", roles: []string{"content"},
			errIff: "empty", subst: map[string]string{"empty": "Eq(const:\"\",content)"}},
		{fn: "qr.encodeNumeric", roles: []string{"content", "ecl"},
			calls:  map[string]string{"qr.findSmallestVersionInfo": "vi"},
			errIff: "viNil", subst: map[string]string{"viNil": nilOf("vi")}},
		{fn: "qr.encodeAlphaNumeric", roles: []string{"content", "ecl"},
			calls:  map[string]string{"qr.findSmallestVersionInfo": "vi"},
			errIff: "viNil", subst: map[string]string{"viNil": nilOf("vi")}},
		{fn: "qr.encodeUnicode", roles: []string{"content", "ecl"},
			calls:  map[string]string{"qr.findSmallestVersionInfo": "vi"},
			errIff: "viNil", subst: map[string]string{"viNil": nilOf("vi")}},
		{fn: "qr.EncodeWithColor", roles: []string{"content", "level", "mode", "color"},
			errIff: "!errNil", subst: map[string]string{"errNil": "Eq(dyncall:call:qr.(Encoding).getEncoder(mode)(content,level)#2,nil)"}},
		{fn: "code39.EncodeWithColor", roles: []string{"content", "includeChecksum", "fullASCII", "color"},
			ext:    map[string][2]string{"code39.prepare": {"prepared", "prepErr"}},
			calls:  map[string]string{"strings.ContainsRune": "hasStar"},
			errIff: "(fullASCII && !prepNil) || (!fullASCII && hasStar)", subst: map[string]string{"prepNil": nilOf("prepErr")}},
		{fn: "code93.EncodeWithColor", roles: []string{"content", "includeChecksum", "fullASCII", "color"},
			ext:    map[string][2]string{"code93.prepare": {"prepared", "prepErr"}},
			calls:  map[string]string{"strings.ContainsRune": "hasStar"},
			errIff: "(fullASCII && !prepNil) || (!fullASCII && hasStar)", subst: map[string]string{"prepNil": nilOf("prepErr")}},
	}
	for _, sp := range specs {
		fn := c.theFunc(R, sp.fn)
		if fn == nil {
			continue
		}
		n := NewNormer(c.P)
		n.BindParams(fn, sp.roles...)
		bindCalls(n, c.P, fn, sp.calls, sp.ext)
		got := cFalse
		nret, nop := 0, 0
		for _, ret := range returnsOf(fn) {
			r0 := ret.Results[0]
			zero := isNilConst(r0)
			if k, ok := r0.(*ssa.Const); ok && isStringType(r0.Type()) && k.Value != nil && constant.StringVal(k.Value) == "" {
				zero = true
			}
			if !zero {
				continue
			}
			rc := assumeNoForeignChar(n.ReachCond(fn, nil, ret.Block()))
			nret++
			if rc.Kind == CFalse {
				nop++ // a rejection by a library search over the characters: alphabet membership (R7, R-ATOI)
				continue
			}
			if hasOpaque(rc) {
				nop++
				continue
			}
			got = cOr(got, rc)
		}
		want := MustRefCond(sp.errIff)
		renameAtoms(want, sp.subst)
		eq, w := CondEquivalent(got, want)
		found := got.String()
		if !eq {
			found += "; differs at " + w
		}
		c.Count["guard_error_returns"] += nret
		c.Check(R, sp.fn+"/error-iff", fn.Pos(), eq, want.String(), fmt.Sprintf("%s (%d error returns, %d loop-dependent)", found, nret, nop))
	}

	// loop-dependent rejections: alphabet membership (R7)
	const R7 = "R7-ALPHABET"
	c.Doc(R7, "1D encoders draw a pattern only after the table-membership test of that very lookup succeeded (a foreign character leads to an error return, never to a zero-value pattern); utils.RuneToInt-based digit tests lead to an error")
	c.Floor(R7, 7)
	for _, fnName := range []string{"code39.EncodeWithColor", "code93.EncodeWithColor", "ean.encodeEAN8", "ean.encodeEAN13", "twooffive.EncodeWithColor", "twooffive.AddCheckSum", "code39.checksumValue", "code93.getChecksum", "codabar.EncodeWithColor"} {
		fn := c.theFunc(R7, fnName)
		if fn == nil {
			continue
		}
		k := 0
		c.P.deepEach(fn, 2, func(site DeepSite) {
			lk, ok := site.Ins.(*ssa.Lookup)
			if !ok {
				return
			}
			if _, isMap := lk.X.Type().Underlying().(*types.Map); !isMap {
				return
			}
			if _, isG := globalOfLoad(lk.X); !isG {
				return
			}
			k++
			key := fmt.Sprintf("%s/lookup#%d", fnName, k)
			if !lk.CommaOk {
				// plain lookup: only fine if the key set was validated (codabar: regexp); flag unless validated
				if fnName == "codabar.EncodeWithColor" {
					c.Check(R7, key, lk.Pos(), true, "validated by the whole-match regular expression (rule B2)", "plain lookup after validation")
				} else if fnName == "twooffive.EncodeWithColor" && isBoolType(lk.Index.Type()) {
					c.Check(R7, key, lk.Pos(), true, "lookup in the two-entry widths map keyed by bool", "total")
				} else {
					c.Check(R7, key, lk.Pos(), false, "comma-ok lookup with the failure leading to an error", "plain lookup: a foreign character yields the zero pattern")
				}
				return
			}
			var okV, valV ssa.Value
			for _, r := range *lk.Referrers() {
				if ex, ok := r.(*ssa.Extract); ok {
					if ex.Index == 1 {
						okV = ex
					} else {
						valV = ex
					}
				}
			}
			if okV == nil {
				c.Check(R7, key, lk.Pos(), valV == nil, "membership result tested", "ok result discarded while the value is used")
				return
			}
			// every use of the looked-up value must be reached only when ok is true
			bad := ""
			if valV != nil {
				bad = guardedUses(c, site.Fn, lk.Block(), valV, okV, 0)
			}
			c.Check(R7, key, lk.Pos(), bad == "", "looked-up pattern/value used only under ok", orOK(bad))
		})
		if k == 0 {
			c.Check(R7, fnName+"/lookups", fn.Pos(), false, "table lookups present", "none")
		}
	}
	_ = sort.Strings
}

func globalOfLoad(v ssa.Value) (*ssa.Global, bool) {
	ld, ok := v.(*ssa.UnOp)
	if !ok || ld.Op != token.MUL {
		return nil, false
	}
	g, ok := ld.X.(*ssa.Global)
	return g, ok
}

// guardedUses: every consuming use of val (a value obtained together with the success flag ok at
// block def of fn) is reached only when ok holds. Projections, conversions, spills into locals and
// phis are followed to their own uses; a return that hands both val and ok to the caller moves the
// obligation to every call site of fn.
func guardedUses(c *Ctx, fn *ssa.Function, def *ssa.BasicBlock, val, ok ssa.Value, depth int) string {
	if depth > 2 {
		return "value and flag are passed up through more than two helpers"
	}
	n := NewNormer(c.P)
	n.Bind[ok] = "ok"
	okAtom := &Cond{Kind: CBool, Name: "ok"}
	seen := map[ssa.Value]bool{}
	bad := ""
	var follow func(v ssa.Value, d int)
	sink := func(u ssa.Instruction) {
		if bad != "" {
			return
		}
		if ret, isRet := u.(*ssa.Return); isRet {
			vi, oi := -1, -1
			for i, r := range ret.Results {
				if seen[r] || r == val {
					vi = i
				}
				if r == ok {
					oi = i
				}
			}
			if vi >= 0 && oi >= 0 {
				// both handed to the caller: check there
				for _, cs := range c.P.callSitesOf(fn) {
					call, isCall := cs.(*ssa.Call)
					if !isCall {
						bad = "helper result used by a go/defer statement"
						return
					}
					var ev, eo ssa.Value
					for _, r := range *call.Referrers() {
						if ex, isEx := r.(*ssa.Extract); isEx {
							if ex.Index == vi {
								ev = ex
							} else if ex.Index == oi {
								eo = ex
							}
						}
					}
					if ev == nil {
						continue
					}
					if eo == nil {
						bad = "the membership flag returned by " + c.P.FuncName(fn) + " is discarded at " + c.P.Pos(call.Pos()) + " while the value is used"
						return
					}
					if b := guardedUses(c, call.Parent(), call.Block(), ev, eo, depth+1); b != "" {
						bad = b
						return
					}
				}
				return
			}
		}
		rc := n.ReachCond(fn, def, u.Block())
		if u.Block() == def {
			rc = cTrue
		}
		imp, _, _ := CondRelation(rc, okAtom)
		if !imp {
			bad = "value used at " + c.P.Pos(instrPos(u)) + " although the lookup may have failed"
		}
	}
	follow = func(v ssa.Value, d int) {
		if seen[v] || d > 8 || bad != "" {
			return
		}
		seen[v] = true
		refs := v.Referrers()
		if refs == nil {
			return
		}
		for _, r := range *refs {
			switch x := r.(type) {
			case *ssa.DebugRef:
			case *ssa.Extract, *ssa.Field, *ssa.Convert, *ssa.ChangeType, *ssa.Phi, *ssa.Slice, *ssa.MakeInterface:
				follow(x.(ssa.Value), d+1)
			case *ssa.FieldAddr:
				follow(x, d+1)
			case *ssa.IndexAddr:
				if x.X == v {
					follow(x, d+1)
				} else {
					sink(x) // used as an index
				}
			case *ssa.Index:
				if x.X == v {
					follow(x, d+1)
				} else {
					sink(x)
				}
			case *ssa.UnOp:
				follow(x, d+1)
			case *ssa.Store:
				if x.Val == v {
					if a, _, isLocal := rootAlloc(x.Addr); isLocal && !a.Heap {
						follow(a, d+1) // spill into a local: its reads are the uses
						continue
					}
				} else if _, _, isLocal := rootAlloc(x.Addr); isLocal {
					continue // v is the address being written (initialisation of the spill)
				}
				sink(x)
			default:
				sink(r)
			}
		}
	}
	follow(val, 0)
	return bad
}
