package main

import (
	"fmt"

	"golang.org/x/tools/go/ssa"
)

// P4 = ROWIND: pdf417 left/right row indicators as decision tables cluster -> formula.
func ruleRowIndicators(c *Ctx) {
	const R = "P4-ROWIND"
	c.Doc(R, "pdf417.getLeftCodeWord/getRightCodeWord: for cluster k = row mod 3 the value is 30*(row/3) + {(rows-1)/3, 3*level+(rows-1)%3, cols-1}; left uses the list in order (k=0,1,2), right rotated by one (ISO 15438); siblings must agree on each quantity")
	c.Floor(R, 6)
	quant := []string{"(rows-1)/3", "3*level + (rows-1)%3", "cols-1"}
	for _, side := range []struct {
		fn  string
		rot int
	}{{"pdf417.getLeftCodeWord", 0}, {"pdf417.getRightCodeWord", 2}} {
		fn := c.P.Func(side.fn)
		if fn == nil {
			// recognised by its role: the function whose result is wrapped by getCodeword before
			// (left) / after (right) the data codewords of a row
			l, r := pdfIndicatorFuncs(c)
			fn = l
			if side.rot != 0 {
				fn = r
			}
		}
		if fn == nil {
			c.Anchor(R, side.fn, "function not found")
			continue
		}
		c.Fn(c.P.FuncName(fn))
		rets := returnsOf(fn)
		multiRet := len(rets) != 1
		// the roles (row, rows, cols, level) are those of the call in EncodeWithColor: the helper's
		// parameters - scalars or fields of a struct - resolve through that calling context
		n := pdfIndicatorContext(c, fn)
		if n == nil {
			if len(fn.Params) != 4 {
				c.Undecided(R, side.fn, fn.Pos(), "not called once from EncodeWithColor and not of the form (rowNum, rows, columns, securityLevel)")
				continue
			}
			n = NewNormer(c.P)
			n.BindParams(fn, "row", "rows", "cols", "level")
		}
		if multiRet {
			// one return per cluster (`switch row % 3 { case 0: return ... }`): the return reached at k
			eachInstr(fn, func(b *ssa.BasicBlock, ins ssa.Instruction) {
				if v, ok := ins.(ssa.Value); ok && isIntType(v.Type()) {
					if pEqual(n.Norm(v), MustRef("row % 3")) {
						n.Bind[v] = "k"
					}
				}
			})
			for k := int64(0); k < 3; k++ {
				key := fmt.Sprintf("%s/cluster%d", side.fn, k)
				ret, err := returnAt(n, fn, map[string]int64{"k": k}, nil)
				if err != nil {
					c.Undecided(R, key, fn.Pos(), err.Error())
					continue
				}
				n.Opaque = false
				got := n.Norm(ret.Results[0])
				want := pAdd(MustRef("30*(row/3)"), MustRef(quant[(int(k)+side.rot)%3]), 1)
				if n.Opaque {
					c.Undecided(R, key, ret.Pos(), "formula outside the fragment: "+got.String())
					continue
				}
				c.Check(R, key, ret.Pos(), pEqual(got, want), want.String(), got.String())
			}
			continue
		}
		// find the phi feeding the result and the scrutinee (row % 3)
		var phi *ssa.Phi
		var find func(v ssa.Value, d int)
		find = func(v ssa.Value, d int) {
			if d > 6 || phi != nil {
				return
			}
			switch x := v.(type) {
			case *ssa.Phi:
				phi = x
			case *ssa.BinOp:
				find(x.X, d+1)
				find(x.Y, d+1)
			case *ssa.Convert:
				find(x.X, d+1)
			}
		}
		find(rets[0].Results[0], 0)
		if phi == nil {
			// the selection happens elsewhere (a helper shared by both sides, a table): evaluate the result
			// with the cluster number substituted
			var ks []ssa.Value
			eachInstr(fn, func(b *ssa.BasicBlock, ins ssa.Instruction) {
				if v, ok := ins.(ssa.Value); ok && isIntType(v.Type()) {
					if pEqual(n.Norm(v), MustRef("row % 3")) {
						ks = append(ks, v)
					}
				}
			})
			if len(ks) == 0 {
				// the cluster never appears as such (e.g. the right side asks for (row+2)%3 directly): evaluate
				// the result for every row number a symbol can have (0..89), the other quantities symbolic
				var rowVals []ssa.Value
				for v, name := range n.Bind {
					if name == "row" {
						rowVals = append(rowVals, v)
					}
				}
				bad := ""
				for r := int64(0); r < 90 && len(rowVals) > 0 && bad == ""; r++ {
					env := map[ssa.Value]Poly{}
					for _, v := range rowVals {
						delete(n.Bind, v)
						env[v] = pConst(r)
					}
					n.env = append(n.env, env)
					var got Poly
					cnt := 0
					for _, cs := range n.valueCases(fn, nil, rets[0].Results[0], 0) {
						if eq, _ := CondEquivalent(cs.cond, cTrue); eq {
							got = cs.val
							cnt++
						} else if eq, _ := CondEquivalent(cs.cond, cFalse); !eq {
							cnt = 99
						}
					}
					n.env = n.env[:len(n.env)-1]
					for _, v := range rowVals {
						n.Bind[v] = "row"
					}
					want := pAdd(pConst(30*(r/3)), MustRef(quant[(int(r%3)+side.rot)%3]), 1)
					if cnt != 1 || !pEqual(got, want) {
						bad = fmt.Sprintf("row %d: %v (%d alternatives), expected %s", r, got, cnt, want)
					}
				}
				if len(rowVals) == 0 {
					c.Undecided(R, side.fn, fn.Pos(), "result does not depend on the cluster number row % 3")
					continue
				}
				for k := 0; k < 3; k++ {
					c.Check(R, fmt.Sprintf("%s/cluster%d", side.fn, k), fn.Pos(), bad == "", "30*(row/3) + the quantity of the cluster, for every row 0..89", orOK(bad))
				}
				continue
			}
			for k := int64(0); k < 3; k++ {
				key := fmt.Sprintf("%s/cluster%d", side.fn, k)
				env := map[ssa.Value]Poly{}
				for _, v := range ks {
					env[v] = pConst(k)
				}
				n.env = append(n.env, env)
				var got Poly
				cnt, open := 0, ""
				for _, cs := range n.valueCases(fn, nil, rets[0].Results[0], 0) {
					if eq, _ := CondEquivalent(cs.cond, cFalse); eq {
						continue
					}
					if eq, _ := CondEquivalent(cs.cond, cTrue); eq {
						got = cs.val
						cnt++
					} else {
						open += cs.cond.String() + "; "
					}
				}
				n.env = n.env[:len(n.env)-1]
				want := pAdd(MustRef("30*(row/3)"), MustRef(quant[(int(k)+side.rot)%3]), 1)
				if cnt != 1 || open != "" {
					c.Undecided(R, key, fn.Pos(), "the value for this cluster is not decided by row % 3 alone: "+open)
					continue
				}
				c.Check(R, key, fn.Pos(), pEqual(got, want), want.String(), got.String())
			}
			continue
		}
		// scrutinee: bind every value normalising to Mod(row,3) to role k
		eachInstr(fn, func(b *ssa.BasicBlock, ins ssa.Instruction) {
			if v, ok := ins.(ssa.Value); ok && isIntType(v.Type()) {
				if pEqual(n.Norm(v), MustRef("row % 3")) {
					n.Bind[v] = "k"
				}
			}
		})
		for k := int64(0); k < 3; k++ {
			key := fmt.Sprintf("%s/cluster%d", side.fn, k)
			arm, err := PhiArm(n, fn, phi, nil, "k", k)
			if err != nil {
				c.Undecided(R, key, phi.Pos(), err.Error())
				continue
			}
			n.PhiChoice[phi] = arm
			n.Opaque = false
			got := n.Norm(rets[0].Results[0])
			delete(n.PhiChoice, phi)
			want := pAdd(MustRef("30*(row/3)"), MustRef(quant[(int(k)+side.rot)%3]), 1)
			pos := phi.Edges[arm].Pos()
			if !pos.IsValid() {
				pos = phi.Pos()
			}
			if n.Opaque {
				c.Undecided(R, key, pos, "formula outside the fragment: "+got.String())
				continue
			}
			c.Check(R, key, pos, pEqual(got, want), want.String(), got.String())
		}
	}
}

// pdfIndicatorFuncs: the two functions whose results EncodeWithColor passes through getCodeword as
// the first and as the last codeword of a row (besides start and stop pattern).
func pdfIndicatorFuncs(c *Ctx) (left, right *ssa.Function) {
	enc := c.P.Func("pdf417.EncodeWithColor")
	gc := c.P.Func("pdf417.getCodeword")
	if enc == nil || gc == nil {
		return nil, nil
	}
	var calls []*ssa.Call
	for _, s := range c.P.deepCallsTo(enc, gc) {
		a := s.Ins.(*ssa.Call).Common().Args
		if len(a) != 2 {
			continue
		}
		if ic, ok := a[1].(*ssa.Call); ok && calleeOf(ic) != nil && isRepoFunc(calleeOf(ic)) && calleeOf(ic).Blocks != nil {
			calls = append(calls, ic)
		}
	}
	if len(calls) != 2 || calls[0].Parent() != calls[1].Parent() || calleeOf(calls[0]) == calleeOf(calls[1]) {
		return nil, nil
	}
	switch {
	case dominatesInstr(calls[0], calls[1]):
		return calleeOf(calls[0]), calleeOf(calls[1])
	case dominatesInstr(calls[1], calls[0]):
		return calleeOf(calls[1]), calleeOf(calls[0])
	}
	return nil, nil
}

// pdfIndicatorContext: a normaliser in which the parameters of a row-indicator function resolve to
// the roles of its single call site in pdf417.EncodeWithColor (row = index of the row loop, rows and
// cols = results of calcDimensions, level = the security level parameter).
func pdfIndicatorContext(c *Ctx, fn *ssa.Function) *Normer {
	enc := c.P.Func("pdf417.EncodeWithColor")
	if enc == nil || len(enc.Params) != 3 {
		return nil
	}
	sites := c.P.deepCallsTo(enc, fn)
	if len(sites) != 1 {
		return nil
	}
	s := sites[0]
	n := NewNormer(c.P)
	n.BindParams(enc, "data", "level", "color")
	bindCalls(n, c.P, enc, nil, map[string][2]string{"pdf417.calcDimensions": {"cols", "rows"}})
	// the row number: index of the loop around the call (in the function that contains it)
	call := s.Ins.(*ssa.Call)
	h := enclosingLoopHeader(call.Block())
	if h == nil {
		return nil
	}
	idx, _, init, ok := loopIndex(h)
	if !ok || init != 0 {
		return nil
	}
	n.Bind[idx] = "row"
	n.Ctx = append(append([]ssa.CallInstruction{}, s.Path...), call)
	return n
}
