package main

// E1 — constant / literal evaluator. Evaluates composite literals and constant expressions to a
// value tree, exactly as the compiler folds them. No function body is executed; a non-constant
// element makes the table undecided (error).

import (
	"fmt"
	"go/ast"
	"go/constant"
	"go/token"
	"go/types"
	"sort"
	"strings"
)

type VKind int

const (
	VInt VKind = iota
	VBool
	VString
	VList
	VMap
	VStruct
)

type MapEntry struct{ K, V *Val }

type Val struct {
	Kind   VKind
	I      int64
	B      bool
	S      string
	List   []*Val
	Map    []MapEntry
	Fields map[string]*Val
	Order  []string // struct field order
	Pos    token.Pos
}

func (v *Val) String() string {
	if v == nil {
		return "<absent>"
	}
	switch v.Kind {
	case VInt:
		return fmt.Sprint(v.I)
	case VBool:
		if v.B {
			return "1"
		}
		return "0"
	case VString:
		return fmt.Sprintf("%q", v.S)
	case VList:
		allBool := len(v.List) > 0
		for _, e := range v.List {
			if e.Kind != VBool {
				allBool = false
			}
		}
		var sb strings.Builder
		if allBool {
			for _, e := range v.List {
				sb.WriteString(e.String())
			}
			return sb.String()
		}
		sb.WriteString("[")
		for i, e := range v.List {
			if i > 0 {
				sb.WriteString(" ")
			}
			sb.WriteString(e.String())
		}
		sb.WriteString("]")
		return sb.String()
	case VMap:
		var parts []string
		for _, e := range v.Map {
			parts = append(parts, e.K.String()+":"+e.V.String())
		}
		sort.Strings(parts)
		return "{" + strings.Join(parts, " ") + "}"
	case VStruct:
		var parts []string
		for _, f := range v.Order {
			parts = append(parts, f+"="+v.Fields[f].String())
		}
		return "<" + strings.Join(parts, " ") + ">"
	}
	return "?"
}

// Bits renders a []bool value as a 0/1 string.
func (v *Val) Bits() (string, bool) {
	if v == nil || v.Kind != VList {
		return "", false
	}
	var sb strings.Builder
	for _, e := range v.List {
		if e.Kind != VBool {
			return "", false
		}
		if e.B {
			sb.WriteByte('1')
		} else {
			sb.WriteByte('0')
		}
	}
	return sb.String(), true
}

func (v *Val) Ints() ([]int64, bool) {
	if v == nil || v.Kind != VList {
		return nil, false
	}
	out := make([]int64, len(v.List))
	for i, e := range v.List {
		if e.Kind != VInt {
			return nil, false
		}
		out[i] = e.I
	}
	return out, true
}

// MapGet looks up an int or bool key.
// Entries: number of entries of a table value, whether it is written as a map or as an array / slice.
func (v *Val) Entries() int {
	if v == nil {
		return 0
	}
	if v.Kind == VList {
		return len(v.List)
	}
	return len(v.Map)
}

// MapGetInt: the entry for the integer key k - of a map, or of an array / slice indexed by the key
// (a table may be written either way).
func (v *Val) MapGetInt(k int64) *Val {
	if v != nil && v.Kind == VList {
		if k >= 0 && int(k) < len(v.List) {
			return v.List[k]
		}
		return nil
	}
	if v == nil || v.Kind != VMap {
		return nil
	}
	var found *Val
	for _, e := range v.Map {
		if e.K.Kind == VInt && e.K.I == k {
			found = e.V // (duplicate constant keys are a compile error in Go)
		}
	}
	return found
}

func (v *Val) MapGetBool(k bool) *Val {
	if v == nil || v.Kind != VMap {
		return nil
	}
	for _, e := range v.Map {
		if e.K.Kind == VBool && e.K.B == k {
			return e.V
		}
	}
	return nil
}

func (v *Val) Field(name string) *Val {
	if v == nil || v.Kind != VStruct {
		return nil
	}
	return v.Fields[name]
}

type evaluator struct {
	info *types.Info
	p    *Prog
	pkg  string
	dep  int
}

func (p *Prog) EvalExpr(pkg string, e ast.Expr) (*Val, error) {
	pk := p.Pkgs[pkg]
	if pk == nil {
		return nil, fmt.Errorf("no package %s", pkg)
	}
	ev := &evaluator{info: pk.TypesInfo, p: p, pkg: pkg}
	return ev.eval(e, nil)
}

// EvalVar evaluates the initializer of a package-level variable.
func (p *Prog) EvalVar(pkg, name string) (*Val, error) {
	e, _ := p.VarInit(pkg, name)
	if e == nil {
		return nil, fmt.Errorf("package-level var %s.%s with initializer not found", pkg, name)
	}
	return p.EvalExpr(pkg, e)
}

func (ev *evaluator) eval(e ast.Expr, hint types.Type) (*Val, error) {
	if tv, ok := ev.info.Types[e]; ok && tv.Value != nil {
		return constVal(tv.Value, e.Pos())
	}
	switch x := e.(type) {
	case *ast.ParenExpr:
		return ev.eval(x.X, hint)
	case *ast.UnaryExpr:
		if x.Op == token.AND {
			return ev.eval(x.X, nil)
		}
	case *ast.Ident:
		// reference to another package-level var with a literal initializer
		if obj, ok := ev.info.Uses[x].(*types.Var); ok && obj.Pkg() != nil && obj.Parent() == obj.Pkg().Scope() && ev.dep < 4 {
			init, _ := ev.p.VarInit(shortName(obj.Pkg().Path()), obj.Name())
			if init != nil {
				sub := &evaluator{info: ev.p.Pkgs[shortName(obj.Pkg().Path())].TypesInfo, p: ev.p, pkg: shortName(obj.Pkg().Path()), dep: ev.dep + 1}
				return sub.eval(init, nil)
			}
		}
	case *ast.CallExpr:
		// conversion T(x) of a constant is handled above; []rune("..")/[]byte("..") literal conversions
		if len(x.Args) == 1 {
			if tv, ok := ev.info.Types[x.Fun]; ok && tv.IsType() {
				return ev.eval(x.Args[0], tv.Type)
			}
		}
	case *ast.CompositeLit:
		t := ev.info.TypeOf(x)
		if t == nil {
			t = hint
		}
		if t == nil {
			return nil, fmt.Errorf("%s: composite literal without type", ev.p.Pos(x.Pos()))
		}
		if pt, ok := t.Underlying().(*types.Pointer); ok {
			t = pt.Elem()
		}
		switch u := t.Underlying().(type) {
		case *types.Slice, *types.Array:
			out := &Val{Kind: VList, Pos: x.Pos()}
			idx := 0
			tmp := map[int]*Val{}
			max := -1
			for _, el := range x.Elts {
				var ve ast.Expr = el
				if kv, ok := el.(*ast.KeyValueExpr); ok {
					ktv, ok := ev.info.Types[kv.Key]
					if !ok || ktv.Value == nil {
						return nil, fmt.Errorf("%s: non-constant index key", ev.p.Pos(kv.Pos()))
					}
					k, _ := constant.Int64Val(constant.ToInt(ktv.Value))
					idx = int(k)
					ve = kv.Value
				}
				v, err := ev.eval(ve, nil)
				if err != nil {
					return nil, err
				}
				tmp[idx] = v
				if idx > max {
					max = idx
				}
				idx++
			}
			n := max + 1
			if arr, ok := u.(*types.Array); ok {
				n = int(arr.Len())
			}
			for i := 0; i < n; i++ {
				if v, ok := tmp[i]; ok {
					out.List = append(out.List, v)
				} else {
					out.List = append(out.List, zeroVal(elemType(u), x.Pos()))
				}
			}
			return out, nil
		case *types.Map:
			out := &Val{Kind: VMap, Pos: x.Pos()}
			for _, el := range x.Elts {
				kv, ok := el.(*ast.KeyValueExpr)
				if !ok {
					return nil, fmt.Errorf("%s: map element without key", ev.p.Pos(el.Pos()))
				}
				k, err := ev.eval(kv.Key, nil)
				if err != nil {
					return nil, err
				}
				v, err := ev.eval(kv.Value, nil)
				if err != nil {
					return nil, err
				}
				out.Map = append(out.Map, MapEntry{k, v})
			}
			return out, nil
		case *types.Struct:
			out := &Val{Kind: VStruct, Pos: x.Pos(), Fields: map[string]*Val{}}
			for i := 0; i < u.NumFields(); i++ {
				out.Order = append(out.Order, fname(u.Field(i)))
			}
			for i, el := range x.Elts {
				if kv, ok := el.(*ast.KeyValueExpr); ok {
					id, ok := kv.Key.(*ast.Ident)
					if !ok {
						return nil, fmt.Errorf("%s: struct key is not an identifier", ev.p.Pos(kv.Pos()))
					}
					v, err := ev.eval(kv.Value, nil)
					if err != nil {
						return nil, err
					}
					out.Fields[id.Name] = v
				} else {
					if i >= u.NumFields() {
						return nil, fmt.Errorf("%s: too many positional fields", ev.p.Pos(el.Pos()))
					}
					v, err := ev.eval(el, nil)
					if err != nil {
						return nil, err
					}
					out.Fields[fname(u.Field(i))] = v
				}
			}
			for i := 0; i < u.NumFields(); i++ {
				if out.Fields[fname(u.Field(i))] == nil {
					out.Fields[fname(u.Field(i))] = zeroVal(u.Field(i).Type(), x.Pos())
				}
			}
			return out, nil
		}
	}
	return nil, fmt.Errorf("%s: not a constant or literal: %s", ev.p.Pos(e.Pos()), types.ExprString(e))
}

func elemType(t types.Type) types.Type {
	switch u := t.(type) {
	case *types.Slice:
		return u.Elem()
	case *types.Array:
		return u.Elem()
	}
	return nil
}

func zeroVal(t types.Type, pos token.Pos) *Val {
	if t == nil {
		return &Val{Kind: VInt, Pos: pos}
	}
	switch u := t.Underlying().(type) {
	case *types.Basic:
		switch {
		case u.Info()&types.IsBoolean != 0:
			return &Val{Kind: VBool, Pos: pos}
		case u.Info()&types.IsString != 0:
			return &Val{Kind: VString, Pos: pos}
		default:
			return &Val{Kind: VInt, Pos: pos}
		}
	case *types.Slice, *types.Array:
		return &Val{Kind: VList, Pos: pos}
	case *types.Map:
		return &Val{Kind: VMap, Pos: pos}
	case *types.Struct:
		out := &Val{Kind: VStruct, Pos: pos, Fields: map[string]*Val{}}
		for i := 0; i < u.NumFields(); i++ {
			out.Order = append(out.Order, fname(u.Field(i)))
			out.Fields[fname(u.Field(i))] = zeroVal(u.Field(i).Type(), pos)
		}
		return out
	}
	return &Val{Kind: VList, Pos: pos}
}

func constVal(c constant.Value, pos token.Pos) (*Val, error) {
	switch c.Kind() {
	case constant.Bool:
		return &Val{Kind: VBool, B: constant.BoolVal(c), Pos: pos}, nil
	case constant.String:
		return &Val{Kind: VString, S: constant.StringVal(c), Pos: pos}, nil
	case constant.Int:
		i, ok := constant.Int64Val(c)
		if !ok {
			return nil, fmt.Errorf("integer constant out of range")
		}
		return &Val{Kind: VInt, I: i, Pos: pos}, nil
	case constant.Float:
		f := constant.ToInt(c)
		if f.Kind() == constant.Int {
			i, _ := constant.Int64Val(f)
			return &Val{Kind: VInt, I: i, Pos: pos}, nil
		}
	}
	return nil, fmt.Errorf("unsupported constant kind %v", c.Kind())
}

// ConstInt returns the value of a package-level integer constant.
func (p *Prog) ConstInt(pkg, name string) (int64, bool) {
	c := p.PkgConst(pkg, name)
	if c == nil {
		return 0, false
	}
	v := constant.ToInt(c.Val())
	if v.Kind() != constant.Int {
		return 0, false
	}
	i, ok := constant.Int64Val(v)
	return i, ok
}

func (p *Prog) ConstString(pkg, name string) (string, bool) {
	c := p.PkgConst(pkg, name)
	if c == nil || c.Val().Kind() != constant.String {
		return "", false
	}
	return constant.StringVal(c.Val()), true
}

// LocalLit finds the composite literal assigned to local variable `name` inside function fn (AST).
func (p *Prog) LocalLit(pkg, fn, name string) ast.Expr {
	fd := p.FuncDecl(pkg, fn)
	if fd == nil || fd.Body == nil {
		return nil
	}
	var found ast.Expr
	ast.Inspect(fd.Body, func(n ast.Node) bool {
		as, ok := n.(*ast.AssignStmt)
		if !ok {
			return true
		}
		for i, l := range as.Lhs {
			if id, ok := l.(*ast.Ident); ok && id.Name == name && i < len(as.Rhs) && found == nil {
				found = as.Rhs[i]
			}
		}
		return true
	})
	return found
}
