package main

import (
	"fmt"
	"go/ast"
	"go/token"
	"go/types"
	"os"
	"path/filepath"
	"sort"
	"strings"

	"golang.org/x/tools/go/packages"
	"golang.org/x/tools/go/ssa"
	"golang.org/x/tools/go/ssa/ssautil"
)

const modPath = "github.com/boombuler/barcode"

// Prog is the resolved program: type-checked syntax and SSA of every package of /repo's
// current working tree (non-test files), plus the canary overlay files.
type Prog struct {
	renameBack      map[*ssa.Function]string
	renamesBuilt    bool
	buildingRenames bool
	immut           map[*ssa.Global]bool
	written         map[*ssa.Global]bool
	RepoDir         string
	Fset            *token.FileSet
	Pkgs            map[string]*packages.Package // key: short name ("barcode", "qr", "utils", ...)
	SSA             *ssa.Program
	SSAPkgs         map[string]*ssa.Package
	// all source-level functions (incl. anonymous) of repo packages, canaries excluded
	Funcs         []*ssa.Function
	CanaryFuncs   []*ssa.Function
	GOARCH        string
	sites         map[*ssa.Function][]ssa.CallInstruction
	fnValues      map[*ssa.Function]bool
	CanaryDropped []string // packages whose canary file did not compile against this tree
}

var expectedPkgs = []string{"barcode", "aztec", "codabar", "code128", "code39", "code93", "datamatrix", "ean", "pdf417", "qr", "twooffive", "utils"}

func shortName(pkgPath string) string {
	if pkgPath == modPath {
		return "barcode"
	}
	return strings.TrimPrefix(pkgPath, modPath+"/")
}

// Load type-checks and builds SSA for the repo. Any load problem is a hard error: a static
// tool sees only what was parsed, so an incomplete load must never look like a pass.
func Load(repoDir, goarch string, overlay map[string][]byte) (*Prog, error) {
	env := append(os.Environ(), "GOFLAGS=-mod=mod", "GOPROXY=off", "GOSUMDB=off", "GOTOOLCHAIN=local", "GOWORK=off", "CGO_ENABLED=0")
	if goarch != "" {
		env = append(env, "GOARCH="+goarch)
	}
	cfg := &packages.Config{
		Mode:    packages.LoadAllSyntax,
		Dir:     repoDir,
		Tests:   false,
		Env:     env,
		Overlay: overlay,
	}
	pkgs, err := packages.Load(cfg, "./...")
	if err != nil {
		return nil, fmt.Errorf("packages.Load: %v", err)
	}
	if len(pkgs) == 0 {
		return nil, fmt.Errorf("no packages loaded from %s", repoDir)
	}
	p := &Prog{RepoDir: repoDir, Pkgs: map[string]*packages.Package{}, SSAPkgs: map[string]*ssa.Package{}, GOARCH: goarch}
	var errs []string
	packages.Visit(pkgs, nil, func(pk *packages.Package) {
		for _, e := range pk.Errors {
			errs = append(errs, e.Error())
		}
	})
	if len(errs) > 0 {
		// a canary that no longer compiles against this tree is a problem of the self-check, not of
		// the repository: drop the canary files of the affected packages and load again
		onlyCanary := len(overlay) > 0
		drop := map[string]bool{}
		for _, e := range errs {
			if !strings.Contains(e, canaryFileName) {
				onlyCanary = false
			}
		}
		if onlyCanary {
			ov := map[string][]byte{}
			for f, b := range overlay {
				bad := false
				for _, e := range errs {
					if strings.Contains(e, f) {
						bad = true
					}
				}
				if bad {
					drop[f] = true
				} else {
					ov[f] = b
				}
			}
			p2, err := Load(repoDir, goarch, ov)
			if err == nil {
				for f := range drop {
					p2.CanaryDropped = append(p2.CanaryDropped, filepath.Base(filepath.Dir(f)))
				}
			}
			return p2, err
		}
		sort.Strings(errs)
		return nil, fmt.Errorf("type-check/load errors (%d): %s", len(errs), strings.Join(errs, "; "))
	}
	for _, pk := range pkgs {
		if !strings.HasPrefix(pk.PkgPath, modPath) {
			return nil, fmt.Errorf("unexpected package %s", pk.PkgPath)
		}
		p.Pkgs[shortName(pk.PkgPath)] = pk
		p.Fset = pk.Fset
	}
	for _, name := range expectedPkgs {
		if p.Pkgs[name] == nil {
			return nil, fmt.Errorf("package %q of the repository was not loaded (ANCHOR)", name)
		}
	}
	prog, spkgs := ssautil.AllPackages(pkgs, ssa.InstantiateGenerics)
	prog.Build()
	p.SSA = prog
	for i, pk := range pkgs {
		if spkgs[i] == nil {
			return nil, fmt.Errorf("no SSA for %s", pk.PkgPath)
		}
		p.SSAPkgs[shortName(pk.PkgPath)] = spkgs[i]
	}
	// collect source functions
	for fn := range ssautil.AllFunctions(prog) {
		if fn.Pkg == nil || fn.Synthetic != "" && fn.Syntax() == nil {
			continue
		}
		if !strings.HasPrefix(fn.Pkg.Pkg.Path(), modPath) {
			continue
		}
		if fn.Blocks == nil {
			continue
		}
		if fn.Syntax() == nil && fn.Name() != "init" {
			continue
		}
		if p.IsCanaryPos(fn.Pos()) || (fn.Parent() != nil && p.IsCanaryPos(fn.Parent().Pos())) {
			p.CanaryFuncs = append(p.CanaryFuncs, fn)
			continue
		}
		p.Funcs = append(p.Funcs, fn)
	}
	sort.Slice(p.Funcs, func(i, j int) bool { return p.FuncName(p.Funcs[i]) < p.FuncName(p.Funcs[j]) })
	sort.Slice(p.CanaryFuncs, func(i, j int) bool { return p.FuncName(p.CanaryFuncs[i]) < p.FuncName(p.CanaryFuncs[j]) })
	p.installAliases()
	if len(p.Funcs) < 100 {
		return nil, fmt.Errorf("only %d source functions found; expected >= 100", len(p.Funcs))
	}
	return p, nil
}

const canaryFileName = "zz_verif_canary.go"

func (p *Prog) IsCanaryPos(pos token.Pos) bool {
	if !pos.IsValid() {
		return false
	}
	return filepath.Base(p.Fset.Position(pos).Filename) == canaryFileName
}

// FuncName gives a stable, line-free name: pkg.Func, pkg.(*T).M, pkg.Func$1
// FuncName: the reference name of fn ("pkg.Func", "pkg.(*T).Method", closures "parent$k"). A
// function that was renamed (recognised by its unique signature, see renamedFunc) keeps the name it
// has on the reference tree, so that rules, role bindings and normal forms do not depend on it.
func (p *Prog) FuncName(fn *ssa.Function) string {
	if fn == nil {
		return "<nil>"
	}
	if !p.renamesBuilt && !p.buildingRenames {
		p.buildingRenames = true
		p.renameBack = map[*ssa.Function]string{}
		have := map[string]bool{}
		for _, f := range p.Funcs {
			have[p.rawFuncName(f)] = true
		}
		for name := range refFuncSigs {
			if !have[name] {
				if f := p.renamedFunc(name); f != nil {
					p.renameBack[f] = name
				}
			}
		}
		p.buildingRenames = false
		p.renamesBuilt = true
	}
	if n, ok := p.renameBack[fn]; ok && !p.buildingRenames {
		return n
	}
	return p.rawFuncName(fn)
}

func (p *Prog) rawFuncName(fn *ssa.Function) string {
	if fn == nil {
		return "<nil>"
	}
	if fn.Parent() != nil {
		return p.FuncName(fn.Parent()) + "$" + strings.TrimPrefix(fn.Name(), fn.Parent().Name()+"$")
	}
	pk := ""
	if fn.Pkg != nil {
		pk = shortName(fn.Pkg.Pkg.Path())
	} else if fn.Object() != nil && fn.Object().Pkg() != nil {
		pk = shortName(fn.Object().Pkg().Path())
	}
	if recv := fn.Signature.Recv(); recv != nil {
		t := recv.Type()
		ptr := ""
		if pt, ok := t.(*types.Pointer); ok {
			t = pt.Elem()
			ptr = "*"
		}
		tn := t.String()
		if n, ok := t.(*types.Named); ok {
			tn = n.Obj().Name()
		}
		return fmt.Sprintf("%s.(%s%s).%s", pk, ptr, tn, fn.Name())
	}
	return pk + "." + fn.Name()
}

// Func returns the function by FuncName, or nil.
func (p *Prog) Func(name string) *ssa.Function {
	for _, fn := range p.Funcs {
		if p.FuncName(fn) == name {
			return fn
		}
	}
	return p.renamedFunc(name)
}

func (p *Prog) Pos(pos token.Pos) string {
	if !pos.IsValid() {
		return "-"
	}
	ps := p.Fset.Position(pos)
	rel, err := filepath.Rel(p.RepoDir, ps.Filename)
	if err != nil {
		rel = ps.Filename
	}
	return fmt.Sprintf("%s:%d", rel, ps.Line)
}

// PkgVar finds a package-level variable object.
func (p *Prog) PkgVar(pkg, name string) *types.Var {
	pk := p.Pkgs[pkg]
	if pk == nil {
		return nil
	}
	o := pk.Types.Scope().Lookup(name)
	v, _ := o.(*types.Var)
	return v
}

func (p *Prog) PkgConst(pkg, name string) *types.Const {
	pk := p.Pkgs[pkg]
	if pk == nil {
		return nil
	}
	o := pk.Types.Scope().Lookup(name)
	v, _ := o.(*types.Const)
	return v
}

// VarInit returns the initializer expression of a package-level var.
func (p *Prog) VarInit(pkg, name string) (ast.Expr, *packages.Package) {
	pk := p.Pkgs[pkg]
	if pk == nil {
		return nil, nil
	}
	for _, f := range pk.Syntax {
		if p.IsCanaryPos(f.Pos()) {
			continue
		}
		for _, d := range f.Decls {
			gd, ok := d.(*ast.GenDecl)
			if !ok || gd.Tok != token.VAR {
				continue
			}
			for _, s := range gd.Specs {
				vs := s.(*ast.ValueSpec)
				for i, n := range vs.Names {
					if n.Name == name && i < len(vs.Values) {
						return vs.Values[i], pk
					}
				}
			}
		}
	}
	return nil, pk
}

// FuncDecl returns the AST declaration of a top-level function or method ("T.M").
func (p *Prog) FuncDecl(pkg, name string) *ast.FuncDecl {
	pk := p.Pkgs[pkg]
	if pk == nil {
		return nil
	}
	for _, f := range pk.Syntax {
		if p.IsCanaryPos(f.Pos()) {
			continue
		}
		for _, d := range f.Decls {
			fd, ok := d.(*ast.FuncDecl)
			if !ok {
				continue
			}
			n := fd.Name.Name
			if fd.Recv != nil && len(fd.Recv.List) == 1 {
				t := fd.Recv.List[0].Type
				if st, ok := t.(*ast.StarExpr); ok {
					t = st.X
				}
				if id, ok := t.(*ast.Ident); ok {
					n = id.Name + "." + n
				}
			}
			if n == name {
				return fd
			}
		}
	}
	return nil
}
