package main

// sha256 over "<table>:<index>:<hex value>;" of the evaluated pdf417.codewords literal, taken on the
// reference tree after the closed-form invariants (cluster formula, widths, distinctness) held.
var pdfCodewordsDigest = "37abc127ddc5e95e0a0d2fcb34a457bf84ed7088e596f38d6ce52deb3d21ed29"
