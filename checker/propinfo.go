package main

func init() {
	propInfo["C05"] = PropInfo{
		Explanation: "Code 128: all 107 bar patterns equal ISO 15417 and satisfy its closed-form invariants; the code-set character tables map each character to its symbol value; start/code/stop symbol constants.",
		NotDecided:  "the code-set chooser's transition behaviour and the round trip for all strings.",
		Technique:   "static: constant-folded table comparison against embedded standard + closed-form invariants",
	}
	propInfo["C06"] = PropInfo{
		Explanation: "EAN: the L/G/R digit sets and first-digit parity rows equal the GS1 tables (R = complement of L, G = reverse of R).",
		NotDecided:  "symbol assembly for all digit strings.",
		Technique:   "static: constant-folded table comparison against closed-form relations",
	}
	propInfo["C07"] = PropInfo{
		Explanation: "Code 39/93: character tables (values and patterns) equal the standards' construction; full-ASCII tables decode to the right character for all 128 code points.",
		NotDecided:  "assembly and round trip for all strings.",
		Technique:   "static: constant-folded table comparison against embedded standard + construction rule",
	}
	propInfo["C08"] = PropInfo{
		Explanation: "Codabar and 2-of-5: element patterns, start/stop patterns and widths equal the standards.",
		NotDecided:  "assembly and round trip for all strings.",
		Technique:   "static: constant-folded table comparison against embedded standard",
	}
}
