package main

func init() {
	T := "static analysis of the type-checked AST and go/ssa form: "
	propInfo["C01"] = PropInfo{
		Explanation: "QR: format/version BCH words, the 160-row block table, alphanumeric alphabet and mode indicators, mask formulas, format/version bit coordinates, character-count widths, capacity guard, padding constants, numeric-mode digit validation (R-ATOI), the alignment-pattern centres and the module placement order of every version 1..40 (per-version constant propagation of the source functions), the byte/word bridge around the Reed-Solomon encoder and the channel pipelines are as ISO 18004 prescribes.",
		NotDecided:  "bit-stream assembly for arbitrary content, Reed-Solomon arithmetic on arbitrary data, mask choice: the decoded content of a rendered symbol is not computed.",
		Technique:   T + "constant-folded tables vs closed forms (BCH, geometry) and embedded ISO table; polynomial normal forms of mask/coordinate formulas; per-table-row constant propagation over SSA (alignment centres, placement order of every version) against ISO tables; DigitOnly validation-loop recognition",
	}
	propInfo["C04"] = PropInfo{
		Explanation: "PDF417: row-indicator decision tables (cluster -> formula) equal ISO 15438 and agree between the left and right sibling; Reed-Solomon factor tables equal the closed form over GF(929); codeword pattern tables satisfy the cluster invariants; text sub-mode tables and compaction constants.",
		NotDecided:  "the compaction state machine, dimension choice and the RS recurrence for arbitrary data.",
		Technique:   T + "decision-table extraction + polynomial normal forms; constant-folded tables vs closed forms",
	}
	propInfo["C05"] = PropInfo{
		Explanation: "Code 128: all 107 bar patterns equal ISO 15417 and satisfy its closed-form invariants; the code-set character tables map each character to its symbol value; start/code/stop symbol constants; FNC decision tables; check-character identity.",
		NotDecided:  "the code-set chooser's transition behaviour and the round trip for all strings.",
		Technique:   T + "constant-folded table comparison against embedded standard + closed-form invariants",
	}
	propInfo["C06"] = PropInfo{
		Explanation: "EAN: L/G/R digit sets and parity rows equal the GS1 tables; calcCheckNum is only applied to 7/12-digit strings (LenSet typestate); the reported check value is the last digit of the content; the check digit function is s -> (10 - s mod 10) mod 10 with weight 3 on the right-most digit.",
		NotDecided:  "symbol assembly for all digit strings (guards, set selection per position) beyond the listed rules.",
		Technique:   T + "table comparison vs closed-form relations; LenSet dataflow; Mod-10 transfer-table tabulation; reach conditions",
	}
	propInfo["C07"] = PropInfo{
		Explanation: "Code 39/93: character tables (values and patterns) equal the standards' construction; full-ASCII tables decode to the right character for all 128 code points; check characters are appended exactly when requested (control dependence on includeChecksum, siblings agree).",
		NotDecided:  "assembly and round trip for all strings.",
		Technique:   T + "table comparison vs construction rule; reach-condition implication (control dependence)",
	}
	propInfo["C08"] = PropInfo{
		Explanation: "Codabar and 2-of-5: element patterns, start/stop patterns and widths equal the standards; the 2-of-5 check-digit helper computes s -> (10 - s mod 10) mod 10 with weight 3 on the right-most digit (sibling of the EAN function).",
		NotDecided:  "assembly and round trip for all strings.",
		Technique:   T + "table comparison against embedded standard; Mod-10 transfer-table tabulation over the accumulator",
	}
	propInfo["C10"] = PropInfo{
		Explanation: "no index built from a % of a possibly negative dividend (NEGMOD, lower-bound domain); strconv parsers only see digit-validated strings (R-ATOI); entry points return exactly one of (barcode, error); error results are not dropped; capacity/length guards have the boundary operator the standard implies; producers close their channels.",
		NotDecided:  "'exactly the representable inputs' for the stateful choosers; termination of data-dependent loops; index bounds in general.",
		Technique:   T + "lower-bound abstract domain; validation-loop recognition; return-shape and error-discipline rules; reach conditions vs reference guards",
	}
	propInfo["C11"] = PropInfo{
		Explanation: "colour threading: every ColorScheme parameter reaches a colour field or colour parameter and has no other use; no default scheme where a caller's scheme is in scope; plain wrappers use ColorScheme16; every colour-carrying struct allocation initialises the field; At/ColorModel/ColorScheme/Bounds/Metadata/Content method shapes.",
		NotDecided:  "pixel values of rendered symbols.",
		Technique:   T + "value-flow (def-use through phis, spills, calls) with sink classification; method-shape rules via normal forms",
	}
	propInfo["C12"] = PropInfo{
		Explanation: "the level parameter reaches the format bits / row indicators / check-word counts: PDF417 row-indicator formulas carry 3*level; QR format words per level are BCH-correct and indexed by the version row's level; block table equals ISO.",
		NotDecided:  "validity of the Reed-Solomon words themselves.",
		Technique:   T + "decision-table extraction, value-flow and table comparison",
	}
	propInfo["C14"] = PropInfo{
		Explanation: "EAN: CheckSum() is the digit value of the content's last character on every feasible path; calcCheckNum only sees data digits; Code 39/128: the value handed to the constructor is the modulo-43/103 value whose character is drawn; no decimal parsing of check characters (R-ATOI); storage and forwarding through base1DCodeIntCS and the scaled wrapper.",
		NotDecided:  "numeric equality for all contents.",
		Technique:   T + "LenSet typestate, value identity through SSA def-use, validation-loop recognition",
	}
	propInfo["C15"] = PropInfo{
		Explanation: "no slice parameter of an encoder is retained or written through (ALIAS, inter-procedural, interface methods resolved to all repo implementations); shared-state inventory; map ranges are order-independent; import/effect allow-list.",
		NotDecided:  "equality with a fresh process as such.",
		Technique:   T + "alias value-flow to depth 5; inventories with floors",
	}
	propInfo["C17"] = PropInfo{
		Explanation: "GF arithmetic never indexes the antilog table with a possibly negative % result (NEGMOD, with the field-element invariant LogTbl[i] >= 0 derived from all stores); every constructed field uses a primitive polynomial of the right degree.",
		NotDecided:  "the field laws for all operands, the polynomial division identity and the RS root property (numerical).",
		Technique:   T + "lower-bound abstract domain with program-wide field-element invariant; constant evaluation of constructor arguments + primitivity test",
		Assumptions: []string{"code outside the repository does not write the exported LogTbl/ALogTbl fields"},
	}
	propInfo["C02"] = PropInfo{
		Explanation: "DataMatrix: the 24-row symbol size table equals ISO 16022 Table 7 (regions, data/ECC capacity, blocks) and is ascending; the Reed-Solomon field is GF(256)/0x12D base 1; placement patterns, corner conditions, padding constants and the per-block codeword split.",
		NotDecided:  "the placement traversal as a whole, Reed-Solomon arithmetic and the round trip for arbitrary content.",
		Technique:   T + "constant-folded table vs embedded ISO table and derived invariants; polynomial normal forms of placement coordinates; reach conditions",
	}
	propInfo["C03"] = PropInfo{
		Explanation: "Aztec: the latch table is validated by running the ISO 24778 mode automaton over every entry; shift table, word sizes per layer count, Galois fields per word size (primitive polynomials), mixed/punct character tables; size and capacity formulas; stuffed bits and word size stay paired.",
		NotDecided:  "optimality/correctness of the dynamic-programming high-level encoder, bit stuffing and the spiral placement for arbitrary payloads.",
		Technique:   T + "table entries replayed through an embedded mode automaton; constant evaluation + primitivity test; polynomial normal forms; paired-update invariants on SSA phis",
	}
	propInfo["C09"] = PropInfo{
		Explanation: "Scale: factor, offset and source-coordinate formulas, the exact error guard, the exact fill region, the inner At call, the result rectangle, dispatch on dimensionality, default fill choice and the pass-through methods of the wrapper types are the ones the property prescribes (normal forms and semantic condition equivalence).",
		NotDecided:  "pixel-exactness for concrete sizes is implied only insofar as these formulas are the specification; float rounding for huge sizes is not modelled.",
		Technique:   T + "polynomial normal forms through closure capture cells; truth-table/ordering equivalence of path conditions; decision-table extraction",
	}
	propInfo["C13"] = PropInfo{
		Explanation: "smallest symbol: QR and DataMatrix tables are in ascending order and equal ISO capacities, the searches return the FIRST row satisfying the exact capacity guard; Auto tries Numeric, AlphaNumeric, Unicode in that order; Aztec and PDF417 size formulas.",
		NotDecided:  "minimality for arbitrary content (depends on run-time bit counts).",
		Technique:   T + "table order + first-match loop shape + guard equivalence (reach conditions vs reference)",
	}
	propInfo["C16"] = PropInfo{
		Explanation: "the whole structural argument for this code base: one mutex, every cache access inside one critical section per call, mutex released on every return; no writes to package-level state outside init (no lazy init); every goroutine closes its channel on all paths; range consumers never leave early; counted consumers return early only after a negative value; no select, no other sync objects, no stored channels; no nondeterministic imports; map ranges order-independent.",
		NotDecided:  "absence of data races in general (no pointer analysis): sound for this code base under the listed inventories; element-count equality between producers and counted consumers.",
		Technique:   T + "forward must-analysis of lock state; must-pass-through (close) on the goroutine CFG; loop-escape analysis; reach-condition implication; inventories with floors and canaries",
	}
	propInfo["C18"] = PropInfo{
		Explanation: "BitList: growth copies the old words into a strictly longer fresh slice before replacing them; AddBit re-reads the count per bit, grows until the word index fits, writes at index count and increments once after the write; MSB-first bit order in SetBit/GetBit/AddByte/AddBits; byte views (GetBytes length and element formula, IterateBytes loop condition, byte formula and word/shift advance); NewBitList word count.",
		NotDecided:  "bit positions under arbitrary operation sequences (the rules pin each operation's formula, not their composition).",
		Technique:   T + "dominance/ordering rules, lower-bound domain (growth amount), polynomial normal forms and reach conditions of the loop tests",
	}
}
