package main

import (
	"go/token"
	"go/types"

	"golang.org/x/tools/go/ssa"
)

// Cell flow: a local struct (or variable) that is built and then patched -
//
//	next := &state{mode: s.mode, bitCount: s.bitCount + cost}
//	if latch { next.mode = upper; next.bitCount += n }
//	return next
//
// - is written several times on loop-free paths. The value a read sees (reachingStore) and the value a
// field has at a given point (cellCases) are decided from the stores of this one function, provided
// the cell is private up to that point: its address has not been handed to a call, a closure or
// another location on a path that reaches the read.

type cellRef struct {
	alloc *ssa.Alloc
	path  []int
}

func cellOf(addr ssa.Value) (cellRef, bool) {
	switch x := addr.(type) {
	case *ssa.Alloc:
		return cellRef{x, nil}, true
	case *ssa.FieldAddr:
		if a, ok := x.X.(*ssa.Alloc); ok {
			return cellRef{a, []int{x.Field}}, true
		}
	}
	return cellRef{}, false
}

// before: instruction a is executed before b on some loop-free path (same block earlier, or a's block
// reaches b's block over forward edges).
func before(a, b ssa.Instruction) bool {
	if a == b {
		return false
	}
	if a.Block() == b.Block() {
		for _, ins := range a.Block().Instrs {
			if ins == a {
				return true
			}
			if ins == b {
				return false
			}
		}
		return false
	}
	return forwardReaches(a.Block(), b.Block())
}

func forwardReaches(from, to *ssa.BasicBlock) bool {
	seen := map[*ssa.BasicBlock]bool{from: true}
	work := []*ssa.BasicBlock{from}
	for len(work) > 0 {
		b := work[len(work)-1]
		work = work[:len(work)-1]
		for _, s := range b.Succs {
			if s.Dominates(b) { // back edge
				continue
			}
			if s == to {
				return true
			}
			if !seen[s] {
				seen[s] = true
				work = append(work, s)
			}
		}
	}
	return false
}

// cellStores: the stores of the alloc's function into exactly this cell, or nil when the cell cannot
// be followed up to `at`: a store to a part or to the whole of it, a write from a closure, an escape of
// the address that may precede `at`, or a loop around any of the accesses.
func cellStores(ref cellRef, at ssa.Instruction, ignore ...ssa.Instruction) []*ssa.Store {
	ignored := func(i ssa.Instruction) bool {
		for _, g := range ignore {
			if g == i {
				return true
			}
		}
		return false
	}
	fn := ref.alloc.Parent()
	if at.Parent() != fn {
		return nil
	}
	inLoop := func(b *ssa.BasicBlock) bool {
		h := enclosingLoopHeader(b)
		return h != nil && !h.Dominates(ref.alloc.Block())
	}
	if inLoop(at.Block()) {
		return nil
	}
	var stores []*ssa.Store
	okAll := true
	var visitAddr func(addr ssa.Value, path []int)
	visitAddr = func(addr ssa.Value, path []int) {
		for _, r := range *addr.Referrers() {
			switch x := r.(type) {
			case *ssa.FieldAddr:
				visitAddr(x, append(append([]int{}, path...), x.Field))
			case *ssa.Store:
				if x.Addr != addr {
					// the address itself is stored somewhere: an escape
					if before(x, at) {
						okAll = false
					}
					continue
				}
				same := samePath(path, ref.path)
				overlap := len(path) < len(ref.path) && samePath(path, ref.path[:len(path)]) || len(path) > len(ref.path) && samePath(path[:len(ref.path)], ref.path)
				if overlap && before(x, at) {
					okAll = false
				}
				if same {
					if inLoop(x.Block()) {
						okAll = false
					}
					stores = append(stores, x)
				}
			case *ssa.UnOp, *ssa.DebugRef:
			case *ssa.IndexAddr:
				// element of an array cell: not followed
				if before(x, at) {
					okAll = false
				}
			default:
				// call argument, closure binding, conversion, phi, return, ...
				if ins, ok := r.(ssa.Instruction); ok {
					if _, isRet := r.(*ssa.Return); isRet {
						continue
					}
					if phi, isPhi := r.(*ssa.Phi); isPhi && onlyReturned(phi) {
						continue // merged with other results and handed back: it only leaves the function
					}
					if ignored(ins) {
						continue
					}
					if before(ins, at) {
						okAll = false
					}
				}
			}
		}
	}
	visitAddr(ref.alloc, nil)
	if !okAll {
		return nil
	}
	return stores
}

// reachingStore: the store whose value the load ld of a patched local cell reads, when that is the
// same store on every path.
func reachingStore(ld *ssa.UnOp) *ssa.Store {
	if ld.Op != token.MUL {
		return nil
	}
	ref, ok := cellOf(ld.X)
	if !ok {
		return nil
	}
	stores := cellStores(ref, ld)
	if len(stores) < 2 {
		return nil // zero or one store: the ordinary load rules apply
	}
	var cands []*ssa.Store
	for _, s := range stores {
		if before(s, ld) {
			cands = append(cands, s)
		}
	}
	for _, s := range cands {
		if !dominatesInstr(s, ld) {
			continue
		}
		last := true
		for _, o := range cands {
			if o != s && !(dominatesInstr(o, s)) {
				last = false // another store may come after s (or beside it) before the load
			}
		}
		if last {
			return s
		}
	}
	return nil
}

// cellCases: the alternatives of the value of a patched local cell when control is at `at`, relative
// to `from` (nil = function entry): one per store that can be the last one before `at`.
func (n *Normer) cellCases(ref cellRef, from *ssa.BasicBlock, at ssa.Instruction) ([]valCase, bool) {
	stores := cellStores(ref, at)
	if len(stores) == 0 {
		return nil, false
	}
	return n.cellCasesOf(ref, stores, from, at)
}

func (n *Normer) cellCasesOf(ref cellRef, stores []*ssa.Store, from *ssa.BasicBlock, at ssa.Instruction) ([]valCase, bool) {
	fn := ref.alloc.Parent()
	var cands []*ssa.Store
	for _, s := range stores {
		if before(s, at) {
			cands = append(cands, s)
		}
	}
	if len(cands) == 0 {
		return nil, false
	}
	// some store must always have happened: one that dominates `at`, or (checked below) stores that
	// together cover every way of getting there
	covered := false
	for _, s := range cands {
		if dominatesInstr(s, at) {
			covered = true
		}
	}
	var out []valCase
	for _, s := range cands {
		cond := cAnd(n.ReachCond(fn, from, s.Block()), n.ReachCond(fn, s.Block(), at.Block()))
		for _, o := range cands {
			if o == s || !before(s, o) {
				continue
			}
			// o overwrites s when it is executed after s on the way to `at`
			cond = cAnd(cond, cNot(cAnd(n.ReachCond(fn, s.Block(), o.Block()), n.ReachCond(fn, o.Block(), at.Block()))))
		}
		if eq, _ := CondEquivalent(cond, cFalse); eq {
			continue
		}
		// the stored expression may itself be a choice (helper result, selection)
		for _, sub := range n.valueCases(fn, from, s.Val, 0) {
			cc := cAnd(cond, sub.cond)
			if eq, _ := CondEquivalent(cc, cFalse); !eq {
				out = append(out, valCase{sub.val, cc})
			}
		}
	}
	if !covered {
		all := cFalse
		for _, c0 := range out {
			all = cOr(all, c0.cond)
		}
		if eq, _ := CondEquivalent(all, n.ReachCond(fn, from, at.Block())); !eq {
			return nil, false // the zero value may be read
		}
	}
	return mergeCases(out), true
}

// onlyReturned: the phi is used by return instructions only.
func onlyReturned(phi *ssa.Phi) bool {
	for _, r := range *phi.Referrers() {
		switch r.(type) {
		case *ssa.Return, *ssa.DebugRef:
		default:
			return false
		}
	}
	return true
}

// escapePoints: the instructions at which the object built in alloc leaves the function's hands: a
// call that receives it, a return that hands it back (directly or merged with other results).
func escapePoints(alloc *ssa.Alloc) []ssa.Instruction {
	var out []ssa.Instruction
	add := func(i ssa.Instruction) {
		for _, o := range out {
			if o == i {
				return
			}
		}
		out = append(out, i)
	}
	for _, r := range *alloc.Referrers() {
		switch x := r.(type) {
		case *ssa.Return:
			add(x)
		case ssa.CallInstruction:
			add(x)
		case *ssa.Phi:
			if onlyReturned(x) {
				for _, rr := range *x.Referrers() {
					if ret, ok := rr.(*ssa.Return); ok {
						add(ret)
					}
				}
			}
		}
	}
	return out
}

// firstEscapeCases: the alternatives of a field of a built-then-patched local object at the moment
// the object first leaves the function (escapePoints). Fails when a store to the field may follow an
// escape, or when the cell cannot be followed.
func (n *Normer) firstEscapeCases(ref cellRef) ([]valCase, bool) {
	fn := ref.alloc.Parent()
	points := escapePoints(ref.alloc)
	if len(points) == 0 {
		return nil, false
	}
	var all []valCase
	for _, p := range points {
		first := true
		for _, q := range points {
			if q != p && q.Block() == p.Block() && before(q, p) {
				first = false // q always comes first
			}
		}
		if !first {
			continue
		}
		stores := cellStores(ref, p, points...)
		if len(stores) == 0 {
			return nil, false
		}
		for _, s := range stores {
			for _, q := range points {
				if before(q, s) {
					return nil, false // the object is written after it has been handed out
				}
			}
		}
		// paths on which another escape came first are decided at that escape
		notEarlier := cTrue
		for _, q := range points {
			if q != p && before(q, p) {
				notEarlier = cAnd(notEarlier, cNot(cAnd(n.ReachCond(fn, nil, q.Block()), n.ReachCond(fn, q.Block(), p.Block()))))
			}
		}
		cs, ok := n.cellCasesOf(ref, stores, nil, p)
		if !ok {
			return nil, false
		}
		for _, c0 := range cs {
			cc := cAnd(cAnd(c0.cond, n.ReachCond(fn, nil, p.Block())), notEarlier)
			if eq, _ := CondEquivalent(cc, cFalse); eq {
				continue
			}
			all = append(all, valCase{c0.val, cc})
		}
	}
	return mergeCases(all), true
}

// Local literal tables: a local array written only at constant positions (a composite literal) and
// read at a computed position -
//
//	groups := [2]struct{ blocks, words byte }{{vi.N1, vi.W1}, {vi.N2, vi.W2}}
//	for _, g := range groups { ... g.words ... }
//
// When the position of a read is known (the loop is instantiated per index), the read is the value
// stored at that position. The array may have been copied as a whole once (range over an array value).
func (n *Normer) localTableLoad(ld *ssa.UnOp) (Poly, bool) {
	if ld.Op != token.MUL {
		return nil, false
	}
	var fields []int
	cur := ld.X
	for {
		fa, ok := cur.(*ssa.FieldAddr)
		if !ok {
			break
		}
		fields = append([]int{fa.Field}, fields...)
		cur = fa.X
	}
	ia, ok := cur.(*ssa.IndexAddr)
	if !ok {
		return nil, false
	}
	base := ia.X
	if sl, isSl := base.(*ssa.Slice); isSl && sl.Low == nil && sl.High == nil && sl.Max == nil {
		base = sl.X // a slice literal: the whole backing array
	}
	alloc, ok := base.(*ssa.Alloc)
	if !ok {
		return nil, false
	}
	if _, isArr := alloc.Type().Underlying().(*types.Pointer).Elem().Underlying().(*types.Array); !isArr {
		return nil, false
	}
	if _, isK := ia.Index.(*ssa.Const); isK && base == ia.X {
		return nil, false // the ordinary load rules resolve constant positions
	}
	k, isK := n.Norm(ia.Index).IsConst()
	if !isK {
		return nil, false
	}
	st := tableCellStore(alloc, k, fields, ld, 0)
	if st == nil {
		// the local is assigned a whole table on each of several paths (a switch that picks a row):
		// with the selector known, one of the assignments is the one that reaches this read
		if len(fields) == 0 {
			if p, ok := n.selectedTableElem(alloc, k, ld); ok {
				return p, true
			}
		}
		return nil, false
	}
	return n.Norm(st.Val), true
}

// selectedTableElem: alloc is filled on different paths (whole array values, or literals written in
// place element by element); when, in the current environment, the stores of element k that can reach
// ld form a chain on one path, the value of the last of them.
func (n *Normer) selectedTableElem(alloc *ssa.Alloc, k int64, ld ssa.Instruction) (Poly, bool) {
	fn := alloc.Parent()
	type cand struct {
		st    *ssa.Store
		whole bool
	}
	var cands []cand
	for _, r := range *alloc.Referrers() {
		switch x := r.(type) {
		case *ssa.Store:
			if x.Addr != ssa.Value(alloc) {
				return nil, false
			}
			if before(x, ld) {
				cands = append(cands, cand{x, true})
			}
		case *ssa.IndexAddr:
			kk := int64(-1)
			if c, isC := x.Index.(*ssa.Const); isC {
				if v, isInt := constInt(c); isInt {
					kk = int64(v)
				}
			}
			for _, rr := range *x.Referrers() {
				switch y := rr.(type) {
				case *ssa.UnOp, *ssa.DebugRef:
				case *ssa.Store:
					if y.Addr != ssa.Value(x) || kk < 0 {
						return nil, false
					}
					if kk == k && before(y, ld) {
						cands = append(cands, cand{y, false})
					}
				default:
					return nil, false
				}
			}
		case *ssa.UnOp, *ssa.DebugRef:
		default:
			return nil, false
		}
	}
	var live []cand
	for _, cd := range cands {
		cond := n.ReachCond(fn, nil, cd.st.Block())
		if eq, _ := CondEquivalent(cond, cFalse); eq {
			continue
		}
		if eq, _ := CondEquivalent(cond, cTrue); !eq {
			return nil, false // not decided in this environment
		}
		live = append(live, cd)
	}
	if len(live) == 0 {
		return nil, false
	}
	last := live[0]
	for _, cd := range live[1:] {
		switch {
		case dominatesInstr(last.st, cd.st):
			last = cd
		case dominatesInstr(cd.st, last.st):
		default:
			return nil, false
		}
	}
	if !last.whole {
		return n.Norm(last.st.Val), true
	}
	return n.arrayElem(last.st.Val, k, 0)
}

// tableCellStore: the one store that defines element k (field path `fields`) of the local array when
// `at` is executed, or nil when the array is not a write-once literal at that point.
func tableCellStore(alloc *ssa.Alloc, k int64, fields []int, at ssa.Instruction, depth int) *ssa.Store {
	if depth > 2 {
		return nil
	}
	var found *ssa.Store
	var whole *ssa.Store
	ok := true
	var visit func(addr ssa.Value, idx int64, path []int)
	visit = func(addr ssa.Value, idx int64, path []int) {
		for _, r := range *addr.Referrers() {
			switch x := r.(type) {
			case *ssa.FieldAddr:
				visit(x, idx, append(append([]int{}, path...), x.Field))
			case *ssa.Store:
				if x.Addr != addr {
					ok = false // the address escapes
					continue
				}
				if !dominatesInstr(x, at) {
					ok = false // written on some paths only, or after the read
					continue
				}
				if idx != k {
					continue
				}
				switch {
				case samePath(path, fields):
					if found != nil {
						ok = false
					}
					found = x
				case len(path) < len(fields) && samePath(path, fields[:len(path)]), len(path) > len(fields) && samePath(path[:len(fields)], fields):
					ok = false
				}
			case *ssa.UnOp, *ssa.DebugRef:
			default:
				ok = false
			}
		}
	}
	for _, r := range *alloc.Referrers() {
		switch x := r.(type) {
		case *ssa.IndexAddr:
			if c, isC := x.Index.(*ssa.Const); isC {
				if kk, isInt := constInt(c); isInt {
					visit(x, int64(kk), nil)
					continue
				}
				ok = false
				continue
			}
			// computed position: reads only
			var readsOnly func(a ssa.Value) bool
			readsOnly = func(a ssa.Value) bool {
				for _, rr := range *a.Referrers() {
					switch y := rr.(type) {
					case *ssa.FieldAddr:
						if !readsOnly(y) {
							return false
						}
					case *ssa.UnOp, *ssa.DebugRef:
					default:
						return false
					}
				}
				return true
			}
			if !readsOnly(x) {
				ok = false
			}
		case *ssa.Store:
			if x.Addr != ssa.Value(alloc) || whole != nil {
				ok = false
				continue
			}
			whole = x
		case *ssa.UnOp, *ssa.DebugRef:
		case *ssa.Slice:
			// a view of the whole array that is only read through
			for _, rr := range *x.Referrers() {
				switch y := rr.(type) {
				case *ssa.IndexAddr:
					for _, r3 := range *y.Referrers() {
						switch r3.(type) {
						case *ssa.UnOp, *ssa.DebugRef, *ssa.FieldAddr:
						default:
							ok = false
						}
					}
				case *ssa.DebugRef, *ssa.Range:
				case *ssa.Call:
					if b, isB := y.Common().Value.(*ssa.Builtin); !isB || b.Name() != "len" {
						ok = false
					}
				default:
					ok = false
				}
			}
		default:
			ok = false
		}
	}
	if !ok {
		return nil
	}
	if whole != nil {
		// a copy of another local array, taken once before the read
		src, isLd := whole.Val.(*ssa.UnOp)
		if found != nil || !isLd || src.Op != token.MUL || !dominatesInstr(whole, at) {
			return nil
		}
		from, isAlloc := src.X.(*ssa.Alloc)
		if !isAlloc {
			return nil
		}
		return tableCellStore(from, k, fields, src, depth+1)
	}
	return found
}

// Arrays handed around by value: `values [3]int` received as a parameter (go/ssa copies it into a
// local first), produced by a helper that returns a composite literal. Element k of such a value is
// the k-th entry of the literal, read in the context it was built in.
func (n *Normer) arrayElemLoad(ld *ssa.UnOp) (Poly, bool) {
	if ld.Op != token.MUL {
		return nil, false
	}
	ia, ok := ld.X.(*ssa.IndexAddr)
	if !ok {
		return nil, false
	}
	alloc, ok := ia.X.(*ssa.Alloc)
	if !ok {
		return nil, false
	}
	if _, isArr := alloc.Type().Underlying().(*types.Pointer).Elem().Underlying().(*types.Array); !isArr {
		return nil, false
	}
	k, isK := n.Norm(ia.Index).IsConst()
	if !isK {
		return nil, false
	}
	// the local holds one array value, stored as a whole
	var whole *ssa.Store
	for _, r := range *alloc.Referrers() {
		switch x := r.(type) {
		case *ssa.Store:
			if x.Addr != ssa.Value(alloc) || whole != nil {
				return nil, false
			}
			whole = x
		case *ssa.IndexAddr:
			for _, rr := range *x.Referrers() {
				switch rr.(type) {
				case *ssa.UnOp, *ssa.DebugRef:
				default:
					return nil, false
				}
			}
		case *ssa.UnOp, *ssa.DebugRef:
		default:
			return nil, false
		}
	}
	if whole == nil || !dominatesInstr(whole, ld) {
		return nil, false
	}
	return n.arrayElem(whole.Val, k, 0)
}

func (n *Normer) arrayElem(v ssa.Value, k int64, depth int) (Poly, bool) {
	if depth > 4 {
		return nil, false
	}
	switch x := v.(type) {
	case *ssa.UnOp:
		if x.Op != token.MUL {
			return nil, false
		}
		alloc, ok := x.X.(*ssa.Alloc)
		if !ok {
			return nil, false
		}
		if st := tableCellStore(alloc, k, nil, x, 0); st != nil {
			return n.Norm(st.Val), true
		}
	case *ssa.Index:
		// a row of a local table of arrays, at a known position
		j, isK := n.Norm(x.Index).IsConst()
		if !isK {
			return nil, false
		}
		if ld, ok := x.X.(*ssa.UnOp); ok && ld.Op == token.MUL {
			if alloc, ok := ld.X.(*ssa.Alloc); ok {
				if st := tableCellStore(alloc, j, nil, ld, 0); st != nil {
					return n.arrayElem(st.Val, k, depth+1)
				}
				if st := nestedCellStore(alloc, j, k, ld); st != nil {
					return n.Norm(st.Val), true
				}
			}
		}
		return nil, false
	case *ssa.Parameter:
		arg, ctx, ok := n.paramArg(x)
		if !ok {
			return nil, false
		}
		saved := n.Ctx
		n.Ctx = ctx
		p, ok := n.arrayElem(arg, k, depth+1)
		n.Ctx = saved
		return p, ok
	case *ssa.Call:
		g := x.Common().StaticCallee()
		if g == nil || !isRepoFunc(g) || g.Blocks == nil || len(returnsOf(g)) != 1 || len(returnsOf(g)[0].Results) != 1 {
			return nil, false
		}
		saved := n.Ctx
		n.Ctx = append(append([]ssa.CallInstruction{}, saved...), x)
		p, ok := n.arrayElem(returnsOf(g)[0].Results[0], k, depth+1)
		n.Ctx = saved
		return p, ok
	}
	return nil, false
}

// nestedCellStore: a local table of arrays whose literal is written in place - table[j][k] = v - :
// the one store of that cell, when it dominates the read and the table does not escape.
func nestedCellStore(alloc *ssa.Alloc, j, k int64, at ssa.Instruction) *ssa.Store {
	var found *ssa.Store
	ok := true
	for _, r := range *alloc.Referrers() {
		switch row := r.(type) {
		case *ssa.IndexAddr:
			rc, isC := row.Index.(*ssa.Const)
			rj, isInt := int64(0), false
			if isC {
				if v, okI := constInt(rc); okI {
					rj, isInt = int64(v), true
				}
			}
			for _, rr := range *row.Referrers() {
				switch cell := rr.(type) {
				case *ssa.IndexAddr:
					cc, isCC := cell.Index.(*ssa.Const)
					ck, isIntC := int64(0), false
					if isCC {
						if v, okI := constInt(cc); okI {
							ck, isIntC = int64(v), true
						}
					}
					for _, u := range *cell.Referrers() {
						switch st := u.(type) {
						case *ssa.Store:
							if st.Addr != ssa.Value(cell) || !isInt || !isIntC {
								ok = false
								continue
							}
							if rj == j && ck == k {
								if found != nil || !dominatesInstr(st, at) {
									ok = false
								}
								found = st
							}
						case *ssa.UnOp, *ssa.DebugRef:
						default:
							ok = false
						}
					}
				case *ssa.UnOp, *ssa.DebugRef:
				default:
					ok = false // a row stored or handed out as a whole
				}
			}
		case *ssa.UnOp, *ssa.DebugRef:
		default:
			ok = false
		}
	}
	if !ok {
		return nil
	}
	return found
}
