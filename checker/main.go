package main

import (
	"encoding/json"
	"flag"
	"fmt"
	"os"
	"path/filepath"
	"runtime/debug"
	"sort"
	"strconv"
	"time"
)

// propRules: property id -> rule functions. Filled by init() in rules_*.go.
var propRules = map[string][]func(*Ctx){}

func register(prop string, fns ...func(*Ctx)) { propRules[prop] = append(propRules[prop], fns...) }

var verbose bool

func main() {
	prop := flag.String("prop", "", "property id (C01..C18) or 'all'")
	tier := flag.String("tier", "", "quick|thorough (default: $VERIF_TIER or quick)")
	repo := flag.String("repo", "/repo", "repository working tree")
	verif := flag.String("verif", "", "verif dir (default: parent of the binary's dir)")
	replay := flag.String("replay", "", "violation file to re-evaluate")
	list := flag.Bool("list", false, "list properties and rules")
	manifest := flag.String("manifest", "", "write MANIFEST.json to this path and exit")
	genRef := flag.String("gen-ref", "", "dev: write the reference shapes (struct fields, signatures) of the current tree to this Go file")
	flag.BoolVar(&verbose, "v", false, "print every obligation")
	flag.Parse()
	if *tier == "" {
		*tier = os.Getenv("VERIF_TIER")
	}
	if *tier != "thorough" {
		*tier = "quick"
	}
	seed, _ := strconv.Atoi(os.Getenv("VERIF_SEED"))
	if *verif == "" {
		exe, _ := os.Executable()
		*verif = filepath.Dir(filepath.Dir(exe))
	}
	if *manifest != "" {
		if err := writeManifest(*manifest); err != nil {
			fmt.Fprintln(os.Stderr, err)
			os.Exit(2)
		}
		return
	}
	if *list {
		var ps []string
		for p := range propRules {
			ps = append(ps, p)
		}
		sort.Strings(ps)
		for _, p := range ps {
			fmt.Println(p, len(propRules[p]), "rule groups")
		}
		return
	}
	var props []string
	if *prop == "all" {
		for p := range propRules {
			props = append(props, p)
		}
		sort.Strings(props)
	} else {
		props = []string{*prop}
	}
	if *replay != "" {
		b, err := os.ReadFile(*replay)
		if err != nil {
			fmt.Fprintln(os.Stderr, err)
			os.Exit(2)
		}
		var vf violationFile
		json.Unmarshal(b, &vf)
		fmt.Printf("replaying %s: obligation %s (re-running all rules of %s on the current tree)\n", *replay, vf.Obligation.Key, vf.Property)
		props = []string{vf.Property}
	}
	start := time.Now()
	p, err := Load(*repo, "", canaryOverlay(*repo))
	if err != nil {
		// a failed load is a failed check for every requested property
		for _, id := range props {
			failLoad(*verif, id, *tier, seed, start, err)
		}
		os.Exit(1)
	}
	if *genRef != "" {
		if err := p.genRef(*genRef); err != nil {
			fmt.Fprintln(os.Stderr, err)
			os.Exit(2)
		}
		return
	}
	exit := 0
	for _, id := range props {
		rules := propRules[id]
		if len(rules) == 0 {
			fmt.Fprintf(os.Stderr, "no rules registered for %s\n", id)
			os.Exit(2)
		}
		code := runProp(p, id, *tier, *verif, *repo, seed, start)
		if code > exit {
			exit = code
		}
	}
	os.Exit(exit)
}

func runProp(p *Prog, id, tier, verif, repo string, seed int, start time.Time) (code int) {
	c := NewCtx(id, tier, p)
	func() {
		defer func() {
			if r := recover(); r != nil {
				c.add(Obligation{Key: "PANIC/checker", Rule: "PANIC", Construct: "checker", Pos: "-", OK: false,
					Found: fmt.Sprintf("checker panic: %v\n%s", r, debug.Stack()), Kind: "UNDECIDED"})
			}
		}()
		for _, r := range propRules[id] {
			r(c)
		}
		checkCanaries(c)
	}()
	extra := map[string]interface{}{}
	if tier == "thorough" {
		thorough(c, repo, extra)
	}
	return c.Finish(verif, start, seed, extra)
}

func failLoad(verif, id, tier string, seed int, start time.Time, err error) {
	os.MkdirAll(filepath.Join(verif, "evidence", "violations"), 0o755)
	path := filepath.Join(verif, "evidence", "violations", id+"-1.json")
	o := Obligation{Key: "LOAD/repo", Rule: "LOAD", Construct: "repo", Pos: "-", OK: false, Found: err.Error(), Kind: "UNDECIDED", Expected: "the repository loads and type-checks"}
	b, _ := json.MarshalIndent(violationFile{Property: id, Tier: tier, Obligation: o}, "", " ")
	os.WriteFile(path, b, 0o644)
	ev := map[string]interface{}{
		"property_id": id, "tier": tier, "seed": seed, "level": "other",
		"coverage": map[string]interface{}{"explanation": "the repository could not be loaded/type-checked; nothing was decided: " + err.Error(),
			"obligations": 1, "discharged": 0, "samples": []interface{}{o}, "evaluations": 1, "distinct_nontrivial": 0},
		"wall_s": time.Since(start).Seconds(), "violations": 1,
	}
	b, _ = json.MarshalIndent(ev, "", " ")
	os.WriteFile(filepath.Join(verif, "evidence", id+".json"), b, 0o644)
	fmt.Printf("VIOLATION property=%s replay=%s\n  LOAD: %v\n", id, path, err)
}
