package main

import (
	"fmt"
	"go/constant"
	"go/token"
	"sort"
	"strings"

	"golang.org/x/tools/go/ssa"
)

// FuncTruthCond: the condition under which a bool-returning function returns true.
func FuncTruthCond(n *Normer, fn *ssa.Function) *Cond {
	out := cFalse
	for _, ret := range returnsOf(fn) {
		if len(ret.Results) != 1 {
			continue
		}
		rc := n.ReachCond(fn, nil, ret.Block())
		out = cOr(out, cAnd(rc, boolValueCond(n, fn, ret.Results[0], ret.Block())))
	}
	return out
}

// boolValueCond: condition (relative to reaching blk) under which bool value v is true; phis of
// short-circuit evaluation are expanded over their incoming edges.
func boolValueCond(n *Normer, fn *ssa.Function, v ssa.Value, blk *ssa.BasicBlock) *Cond {
	if k, ok := v.(*ssa.Const); ok && k.Value != nil && k.Value.Kind() == constant.Bool {
		if constant.BoolVal(k.Value) {
			return cTrue
		}
		return cFalse
	}
	if phi, ok := v.(*ssa.Phi); ok && phi.Block() == blk {
		// the reach condition of blk is the OR over its edges; refine per edge
		total := cFalse
		for ei, e := range phi.Edges {
			pred := blk.Preds[ei]
			edge := cAnd(n.ReachCond(fn, nil, pred), n.EdgeCond(pred, blk))
			total = cOr(total, cAnd(edge, boolValueCond(n, fn, e, pred)))
		}
		return total
	}
	return n.CondOf(v)
}

func rulePDF417Encoder(c *Ctx) {
	const R7 = "P7-PDF-PREDICATES"
	c.Doc(R7, "pdf417 text-compaction predicates: isText = TAB, LF, CR or 32..126 (DEL is not text); alpha upper = space or A-Z; alpha lower = space or a-z; mixed/punctuation = membership in the sub-mode maps")
	c.Floor(R7, 3)
	refs := []struct{ parent, name, ref string }{
		{"pdf417.determineConsecutiveTextCount", "isText", "ch == 9 || ch == 10 || ch == 13 || (ch >= 32 && ch <= 126)"},
		{"pdf417.encodeText", "isAlphaUpper", "ch == 32 || (ch >= 65 && ch <= 90)"},
		{"pdf417.encodeText", "isAlphaLower", "ch == 32 || (ch >= 97 && ch <= 122)"},
	}
	for _, r := range refs {
		parent := c.theFunc(R7, r.parent)
		if parent == nil {
			continue
		}
		matched := 0
		var tried []string
		// candidate predicates: closures of the parent and one-argument boolean functions it calls
		var cands []*ssa.Function
		seenC := map[*ssa.Function]bool{}
		for _, cl := range parent.AnonFuncs {
			if cl.Parent() == parent {
				cands = append(cands, cl)
				seenC[cl] = true
			}
		}
		c.P.deepEach(parent, 1, func(s DeepSite) {
			if call, ok := s.Ins.(*ssa.Call); ok {
				if cal := call.Common().StaticCallee(); cal != nil && isRepoFunc(cal) && cal.Blocks != nil && cal.Pkg == parent.Pkg && !seenC[cal] {
					seenC[cal] = true
					cands = append(cands, cal)
				}
			}
		})
		for _, cl := range cands {
			if len(cl.Params) != 1 || cl.Signature.Results().Len() != 1 || !isBoolType(cl.Signature.Results().At(0).Type()) {
				continue
			}
			n := NewNormer(c.P)
			n.BindParams(cl, "ch")
			tc := FuncTruthCond(n, cl)
			if hasNamedBool(tc) {
				continue // membership predicates (isMixed/isPunctuation)
			}
			tried = append(tried, tc.String())
			if eq, _ := CondEquivalent(tc, MustRefCond(r.ref)); eq {
				matched++
			}
		}
		c.Check(R7, r.parent+"/"+r.name, parent.Pos(), matched == 1, "exactly one predicate equivalent to "+r.ref, fmt.Sprintf("%d matches among %v", matched, tried))
	}

	const R8 = "P8-PDF-MODESTATE"
	c.Doc(R8, "pdf417.highlevelEncode: the text sub-mode is reset to its initial value only on paths on which a mode latch is emitted and the compaction mode assigned (a single shifted byte, codeword 913, does not change the decoder's sub-mode)")
	c.Floor(R8, 3)
	if fn := c.theFunc(R8, "pdf417.highlevelEncode"); fn != nil {
		k := 0
		for _, b := range fn.Blocks {
			var mphi, sphi *ssa.Phi
			for _, ins := range b.Instrs {
				p, ok := ins.(*ssa.Phi)
				if !ok {
					break
				}
				switch namedTypeName(p.Type()) {
				case "pdf417.encodingMode":
					mphi = p
				case "pdf417.subMode":
					sphi = p
				}
			}
			if sphi == nil {
				continue
			}
			for ei, e := range sphi.Edges {
				pred := b.Preds[ei]
				if !b.Dominates(pred) && b == fn.Blocks[0].Succs[0] && len(pred.Preds) == 0 {
					continue // initial state
				}
				if pred == fn.Blocks[0] {
					continue
				}
				_, reset := e.(*ssa.Const)
				if !reset {
					continue
				}
				k++
				ok := false
				found := "compaction mode is not assigned on this path"
				if mphi != nil {
					if _, set := mphi.Edges[ei].(*ssa.Const); set {
						ok = true
						found = "mode assigned " + mphi.Edges[ei].String()
					} else {
						found = "mode may be unchanged (" + mphi.Edges[ei].Name() + ")"
					}
				}
				c.Check(R8, fmt.Sprintf("pdf417.highlevelEncode/submode-reset#%d", k), sphi.Pos(), ok, "sub-mode reset only together with a mode assignment", found)
			}
		}
		// and the converse on mode phis: a constant mode assignment comes with a sub-mode reset
		for _, b := range fn.Blocks {
			var mphi, sphi *ssa.Phi
			for _, ins := range b.Instrs {
				p, ok := ins.(*ssa.Phi)
				if !ok {
					break
				}
				switch namedTypeName(p.Type()) {
				case "pdf417.encodingMode":
					mphi = p
				case "pdf417.subMode":
					sphi = p
				}
			}
			if mphi == nil {
				continue
			}
			for ei, e := range mphi.Edges {
				if b.Preds[ei] == fn.Blocks[0] {
					continue
				}
				if _, set := e.(*ssa.Const); !set {
					continue
				}
				k++
				ok := false
				if sphi != nil {
					_, ok = sphi.Edges[ei].(*ssa.Const)
				}
				c.Check(R8, fmt.Sprintf("pdf417.highlevelEncode/mode-set#%d", k), mphi.Pos(), ok, "a latch resets the sub-mode", fmt.Sprint(ok))
			}
		}
	}

	c.Doc("C13-PDF-PADDING", "pdf417.getPadding: padding = columns - (data+ecc+1) mod columns codewords of value 900, only when that remainder is positive (never a full row)")
	c.Doc("C13-PDF-ROWS", "pdf417.calculateNumberOfRows = ceil((m+1+k)/c): (m+1+k)/c + 1, reduced by one when that already covers a further row")
	c.Doc("K5-CONTENT", "Content returns the stored content; encoders store the text they were given (EAN: the completed code; Code 39/93: the prepared string)")
	const R6 = "P6-PDF-ROWS"
	c.Doc(R6, "pdf417.EncodeWithColor: for row r the cluster table is r%3 for the left indicator, every data codeword and the right indicator; both indicator functions get (r, rows, columns, securityLevel) with rows/columns from calcDimensions; each row = start, left, data..., right, stop; width = (columns+4)*17+1; check-word count 2^(level+1) is used for the dimensions, the padding and Compute")
	c.Floor(R6, 12)
	if fn := c.theFunc(R6, "pdf417.EncodeWithColor"); fn != nil && len(fn.Params) == 3 {
		n := NewNormer(c.P)
		n.MaxInline = 0
		n.BindParams(fn, "data", "level", "color")
		bindCalls(n, c.P, fn, nil, map[string][2]string{"pdf417.calcDimensions": {"cols", "rows"}, "pdf417.highlevelEncode": {"words", "hlErr"}, "pdf417.encodeData": {"cw", "edErr"}})
		// row loop counter: the rangeindex used as rowNum = arg0 of getLeftCodeWord
		lf, rf := c.P.Func("pdf417.getLeftCodeWord"), c.P.Func("pdf417.getRightCodeWord")
		if lf == nil || rf == nil {
			lf, rf = pdfIndicatorFuncs(c) // recognised by their role in the row
		}
		left := c.P.deepCallsTo(fn, lf)
		right := c.P.deepCallsTo(fn, rf)
		gcw := c.P.deepCallsTo(fn, c.P.Func("pdf417.getCodeword"))
		if len(left) != 1 || len(right) != 1 || len(gcw) != 3 {
			c.Check(R6, "pdf417.EncodeWithColor/shape", fn.Pos(), false, "one left, one right indicator call and three getCodeword calls", fmt.Sprintf("%d/%d/%d", len(left), len(right), len(gcw)))
		} else {
			row := left[0].Ins.(*ssa.Call).Common().Args[0]
			if !isIntType(row.Type()) {
				// the row number is not the first argument: the index of the row loop around the call
				if h := enclosingLoopHeader(left[0].Ins.Block()); h != nil {
					if idx, _, init, ok := loopIndex(h); ok && init == 0 {
						row = idx
					}
				}
			}
			n.Bind[row] = "r"
			for _, s := range append(left, right...) {
				call := s.Ins.(*ssa.Call)
				var got []string
				for _, a := range call.Common().Args {
					got = append(got, n.NormAt(s, a).String())
				}
				if pdfIndicatorContext(c, calleeOf(call)) != nil {
					// P4 evaluates the indicator formulas with the parameters resolved through this very call:
					// the roles are those of the data flow, however the values are handed over
					c.Check(R6, "pdf417.EncodeWithColor/"+calleeOf(call).Name()+"-args", call.Pos(), true, "roles resolved through the calling context (P4)", fmt.Sprint(got))
					continue
				}
				c.Check(R6, "pdf417.EncodeWithColor/"+calleeOf(call).Name()+"-args", call.Pos(), fmt.Sprint(got) == "[r rows cols level]", "[r rows cols level]", fmt.Sprint(got))
			}
			kinds := map[string]bool{}
			for _, s := range gcw {
				call := s.Ins.(*ssa.Call)
				saved := n.Ctx
				n.Ctx = s.Path
				c.expectPoly(R6, "pdf417.EncodeWithColor/cluster@"+c.P.Pos(call.Pos()), call.Pos(), n, call.Common().Args[0], "r % 3")
				n.Ctx = saved
				switch w := call.Common().Args[1].(type) {
				case *ssa.Call:
					kinds[calleeOf(w).Name()] = true
				default:
					kinds["data"] = true
				}
			}
			c.Check(R6, "pdf417.EncodeWithColor/row-layout", fn.Pos(), len(kinds) == 3, "left indicator, data words, right indicator all through getCodeword", fmt.Sprint(kinds))
			// row order from the range loop
			if bo, ok := row.(*ssa.BinOp); ok {
				if phi, ok := bo.X.(*ssa.Phi); ok {
					_, init, okc := loopCounter(phi.Block())
					c.Check(R6, "pdf417.EncodeWithColor/row-index", row.Pos(), okc && init == -1, "row number = index of the row in the grid", fmt.Sprint(init))
				}
			}
		}
		// start/stop constants in the appends (in EncodeWithColor or the helpers it delegates the rows to)
		sw, _ := c.P.ConstInt("pdf417", "start_word")
		ew, _ := c.P.ConstInt("pdf417", "stop_word")
		seen := map[int64]int{}
		rowFns := map[*ssa.Function]bool{fn: true}
		c.P.deepEach(fn, 2, func(s DeepSite) { rowFns[s.Fn] = true })
		for f := range rowFns {
			for _, s := range appendSites(f) {
				for _, e := range s.elems {
					if k, ok := n.Norm(e).IsConst(); ok {
						seen[k]++
					}
				}
			}
			// rows filled by index instead of append
			eachInstr(f, func(b *ssa.BasicBlock, ins ssa.Instruction) {
				if st, ok := ins.(*ssa.Store); ok && isIntType(st.Val.Type()) {
					if ia, ok := st.Addr.(*ssa.IndexAddr); ok {
						if _, isMk := ia.X.(*ssa.MakeSlice); isMk {
							if k, ok := n.Norm(st.Val).IsConst(); ok {
								seen[k]++
							}
						}
					}
				}
			})
		}
		c.Check(R6, "pdf417.EncodeWithColor/start-stop", fn.Pos(), seen[sw] == 1 && seen[ew] == 1, "start and stop pattern appended once per row", fmt.Sprintf("start %d, stop %d", seen[sw], seen[ew]))
		// width
		eachInstr(fn, func(b *ssa.BasicBlock, ins ssa.Instruction) {
			st, ok := ins.(*ssa.Store)
			if !ok {
				return
			}
			if base, f := storeBase(st.Addr); f == "width" && base != nil && namedTypeName(base.Type()) == "pdf417.pdfBarcode" {
				savedInl := n.MaxInline
				n.MaxInline = NewNormer(c.P).MaxInline // the width may be computed by a one-line helper
				c.expectPoly(R6, "pdf417.EncodeWithColor/width", st.Pos(), n, st.Val, "(cols+4)*17 + 1")
				n.MaxInline = savedInl
			} else if base, f := storeBase(st.Addr); f == "data" && base != nil && namedTypeName(base.Type()) == "pdf417.pdfBarcode" {
				c.expectPoly("K5-CONTENT", "pdf417.EncodeWithColor/content", st.Pos(), n, st.Val, "data")
			}
		})
		// security level threading
		cd := callsTo(fn, c.P.Func("pdf417.calcDimensions"))
		ed := callsTo(fn, c.P.Func("pdf417.encodeData"))
		if len(cd) == 1 && len(ed) == 1 {
			// what calcDimensions receives (separately or grouped): the data word count and the check word
			// count of the requested level; which is which is decided in its calling context (C13-PDF-DIMENSIONS)
			var flat []string
			for _, a := range flattenArgs(cd[0].Common().Args) {
				flat = append(flat, n.Norm(a).String())
			}
			sort.Strings(flat)
			wantFlat := []string{"call:pdf417.(securitylevel).ErrorCorrectionWordCount(level)", "len(words)"}
			c.Check(R6, "pdf417.EncodeWithColor/dims-ecc", cd[0].Pos(), fmt.Sprint(flat) == fmt.Sprint(wantFlat), fmt.Sprint(wantFlat), fmt.Sprint(flat))
			var edArgs []string
			for _, a := range flattenArgs(ed[0].Common().Args) {
				edArgs = append(edArgs, n.Norm(a).String())
			}
			got := "(" + strings.Join(edArgs, ", ") + ")"
			c.Check(R6, "pdf417.EncodeWithColor/encodeData-args", ed[0].Pos(), got == "(words, cols, level)", "(words, cols, level)", got)
		} else {
			c.Check(R6, "pdf417.EncodeWithColor/pipeline", fn.Pos(), false, "calcDimensions and encodeData called once", fmt.Sprintf("%d/%d", len(cd), len(ed)))
		}
	}
	if fn := c.theFunc(R6, "pdf417.(securitylevel).ErrorCorrectionWordCount"); fn != nil {
		n := NewNormer(c.P)
		n.BindParams(fn, "level")
		got := n.Norm(returnsOf(fn)[0].Results[0]).String()
		c.Check(R6, "pdf417.ErrorCorrectionWordCount", fn.Pos(), got == "Shl(1,1 + level)", "1 << (level+1)", got)
	}
	if fn := c.theFunc(R6, "pdf417.encodeData"); fn != nil && len(fn.Params) == 3 {
		n := NewNormer(c.P)
		n.MaxInline = 0
		n.BindParams(fn, "words", "cols", "sl")
		gp := callsTo(fn, c.P.Func("pdf417.getPadding"))
		cp := callsTo(fn, c.P.Func("pdf417.(securitylevel).Compute"))
		if len(gp) != 1 || len(cp) != 1 {
			c.Check(R6, "pdf417.encodeData/shape", fn.Pos(), false, "one getPadding and one Compute call", fmt.Sprintf("%d/%d", len(gp), len(cp)))
		} else {
			// (what getPadding receives is judged inside getPadding, analysed in this calling context)
			var gpArgs []string
			for _, a := range gp[0].Common().Args {
				gpArgs = append(gpArgs, n.Norm(a).String())
			}
			c.Check(R6, "pdf417.encodeData/padding-args", gp[0].Pos(), len(gpArgs) > 0, "padding derived from the word counts and the column count", strings.Join(gpArgs, ", "))
			n.Bind[gp[0]] = "pad"
			c.Check(R6, "pdf417.encodeData/compute-level", cp[0].Pos(), n.Norm(cp[0].Common().Args[0]).String() == "sl", "sl", n.Norm(cp[0].Common().Args[0]).String())
			// Compute's argument = append([length], append(words, pad...)...)
			arg := n.Norm(cp[0].Common().Args[1]).String()
			okArg := strings.HasPrefix(arg, "append(") && strings.Contains(arg, "append(words,pad)")
			segForm := false
			if !okArg {
				// the same sequence built piece by piece into one slice: [descriptor] words... pad...
				segs, descr := appendSegments(n, cp[0].Common().Args[1], 0)
				if len(segs) == 3 && segs[0] == "elems" && segs[1] == "words" && segs[2] == "pad" && len(descr) == 1 {
					d := n.Norm(descr[0])
					if pEqual(d, MustRef("len(words) + len(pad) + 1")) || pEqual(d, MustRef("len(append(words,pad)) + 1")) {
						okArg, segForm = true, true
						c.Check(R6, "pdf417.encodeData/length-descriptor", cp[0].Pos(), true, "len(data+padding) + 1", d.String())
					}
				}
			}
			c.Check(R6, "pdf417.encodeData/compute-arg", cp[0].Pos(), okArg, "length descriptor followed by data and padding", arg)
			// the descriptor value
			for _, s := range appendSites(fn) {
				if len(s.elems) == 1 && n.Norm(s.call.Common().Args[0]).String() == "nil" || len(s.elems) == 1 {
					v := n.Norm(s.elems[0])
					if !pEqual(v, MustRef("len(append(words,pad)) + 1")) {
						continue
					}
					c.Check(R6, "pdf417.encodeData/length-descriptor", s.call.Pos(), true, "len(data+padding) + 1", v.String())
				}
			}
			for _, ret := range returnsOf(fn) {
				got := n.Norm(ret.Results[0]).String()
				okRes := strings.HasPrefix(got, "append(") && strings.HasSuffix(got, ",call:pdf417.(securitylevel).Compute(sl,"+arg+"))")
				if segForm && !okRes {
					if ap, isAp := ret.Results[0].(*ssa.Call); isAp {
						if bi, isB := ap.Common().Value.(*ssa.Builtin); isB && bi.Name() == "append" {
							okRes = ap.Common().Args[0] == cp[0].Common().Args[1] && ap.Common().Args[1] == ssa.Value(cp[0])
						}
					}
				}
				c.Check(R6, "pdf417.encodeData/result", ret.Pos(), okRes, "codewords followed by the check words computed over them", got)
			}
		}
	}
	if fn := c.theFunc(R6, "pdf417.getPadding"); fn != nil {
		// analysed in its calling context: M = number of data words, K = check words, cols = columns
		n, enc := pdfRoot(c)
		sites := []DeepSite{}
		if enc != nil {
			sites = c.P.deepCallsTo(enc, fn)
		}
		T := "(M + K + 1)"
		switch {
		case len(sites) == 1:
			n.Ctx = append(append([]ssa.CallInstruction{}, sites[0].Path...), sites[0].Ins.(*ssa.Call))
		case len(fn.Params) == 3:
			n = NewNormer(c.P)
			n.BindParams(fn, "M", "K", "cols")
		default:
			c.Undecided("C13-PDF-PADDING", "pdf417.getPadding/context", fn.Pos(), "not called once from EncodeWithColor and not of the form (dataCount, ecCount, columns)")
			n = nil
		}
		if n != nil {
			pc, _ := c.P.ConstInt("pdf417", "padding_codeword")
			var mk *ssa.MakeSlice
			eachInstr(fn, func(b *ssa.BasicBlock, ins ssa.Instruction) {
				if m, ok := ins.(*ssa.MakeSlice); ok {
					mk = m
				}
			})
			if mk != nil {
				c.expectPoly("C13-PDF-PADDING", "pdf417.getPadding/count", mk.Pos(), n, mk.Len, "cols - "+T+"%cols")
				// (codeword counts are not negative, so neither is the remainder)
				nonneg := MustRefCond(T + "%cols >= 0")
				c.expectCondC("C13-PDF-PADDING", "pdf417.getPadding/iff", mk.Pos(), cAnd(nonneg, n.ReachCond(fn, nil, mk.Block())), cAnd(nonneg, MustRefCond(T+"%cols > 0")))
				eachInstr(fn, func(b *ssa.BasicBlock, ins ssa.Instruction) {
					if st, ok := ins.(*ssa.Store); ok {
						if ia, ok := st.Addr.(*ssa.IndexAddr); ok && ia.X == ssa.Value(mk) {
							k, ok := n.Norm(st.Val).IsConst()
							c.Check("C13-PDF-PADDING", "pdf417.getPadding/value", st.Pos(), ok && k == pc, fmt.Sprint(pc), n.Norm(st.Val).String())
						}
					}
				})
			} else {
				// built by appending the pad codeword in a counting loop
				found := false
				for _, s := range appendSites(fn) {
					h := enclosingLoopHeader(s.call.Block())
					if h == nil || len(s.elems) != 1 {
						continue
					}
					k, isK := n.Norm(s.elems[0]).IsConst()
					idx, _, init, okL := loopIndex(h)
					if !isK || !okL {
						continue
					}
					found = true
					c.Check("C13-PDF-PADDING", "pdf417.getPadding/value", s.call.Pos(), k == pc, fmt.Sprint(pc), fmt.Sprint(k))
					n.Bind[idx] = "i"
					// appended for i = init .. while the loop condition holds: count = bound - init under the loop's reach condition
					cond := n.LoopCond(h)
					reach := n.ReachCond(fn, nil, h)
					c.Check("C13-PDF-PADDING", "pdf417.getPadding/loop-start", s.call.Pos(), init == 0, "0", fmt.Sprint(init))
					c.expectCondC("C13-PDF-PADDING", "pdf417.getPadding/count", s.call.Pos(), cAnd(reach, cond), MustRefCond(T+"%cols > 0 && i < cols - "+T+"%cols"))
				}
				// built by the library: slices.Repeat of the one-element list [pad codeword]
				eachInstr(fn, func(b *ssa.BasicBlock, ins ssa.Instruction) {
					call, ok := ins.(*ssa.Call)
					if !ok || found {
						return
					}
					cal := call.Common().StaticCallee()
					if cal == nil || cal.Pkg != nil && cal.Pkg.Pkg.Path() != "slices" || !strings.HasPrefix(cal.Name(), "Repeat") || len(call.Common().Args) != 2 {
						return
					}
					if o := cal.Origin(); o == nil || o.Pkg == nil || o.Pkg.Pkg.Path() != "slices" {
						return
					}
					el := variadicElems(call.Common().Args[0])
					if len(el) != 1 || el[0] == nil {
						return
					}
					found = true
					k, isK := n.Norm(el[0]).IsConst()
					c.Check("C13-PDF-PADDING", "pdf417.getPadding/value", call.Pos(), isK && k == pc, fmt.Sprint(pc), n.Norm(el[0]).String())
					c.expectPoly("C13-PDF-PADDING", "pdf417.getPadding/count", call.Pos(), n, call.Common().Args[1], "cols - "+T+"%cols")
					nonneg := MustRefCond(T + "%cols >= 0")
					c.expectCondC("C13-PDF-PADDING", "pdf417.getPadding/iff", call.Pos(), cAnd(nonneg, n.ReachCond(fn, nil, call.Block())), cAnd(nonneg, MustRefCond(T+"%cols > 0")))
				})
				if !found {
					c.Check("C13-PDF-PADDING", "pdf417.getPadding/make", fn.Pos(), false, "padding slice", "none")
				}
			}
		}
	}
	if fn := c.theFunc(R6, "pdf417.calculateNumberOfRows"); fn != nil && len(fn.Params) == 3 {
		n := NewNormer(c.P)
		n.BindParams(fn, "m", "k", "cc")
		// ceil((m+1+k)/cc), in whatever way the rounding is written; the codeword counts are not negative
		assume := MustRefCond("(m+1+k) % cc >= 0")
		var alts []valCase
		for _, ret := range returnsOf(fn) {
			rc := n.ReachCond(fn, nil, ret.Block())
			for _, cs := range n.valueCases(fn, nil, ret.Results[0], 0) {
				alts = append(alts, valCase{cs.val, cAnd(rc, cs.cond)})
			}
		}
		want := map[string]string{MustRef("(m+1+k)/cc + 1").String(): "(m+1+k) % cc > 0", MustRef("(m+1+k)/cc").String(): "(m+1+k) % cc <= 0"}
		seen := map[string]bool{}
		for _, cs := range mergeCases(alts) {
			v := cs.val.String()
			w, ok := want[v]
			if !ok {
				c.Check("C13-PDF-ROWS", "pdf417.calculateNumberOfRows/"+v, fn.Pos(), false, "(m+1+k)/cc rounded up", v+" when "+cs.cond.String())
				continue
			}
			seen[v] = true
			c.expectCondC("C13-PDF-ROWS", "pdf417.calculateNumberOfRows/"+v, fn.Pos(), cAnd(assume, cs.cond), cAnd(assume, MustRefCond(w)))
		}
		for v, w := range want {
			if !seen[v] {
				c.Check("C13-PDF-ROWS", "pdf417.calculateNumberOfRows/"+v, fn.Pos(), false, v+" when "+w, "never")
			}
		}
	}
	if fn := c.theFunc(R6, "pdf417.renderBarcode"); fn != nil && len(fn.Params) == 1 {
		n := NewNormer(c.P)
		n.BindParams(fn, "codes")
		addBits := callsTo(fn, c.P.Func("utils.(*BitList).AddBits"))
		// the row: element of codes at the index of the outer loop
		var rowV *ssa.UnOp
		var outerHdr *ssa.BasicBlock
		eachInstr(fn, func(b *ssa.BasicBlock, ins ssa.Instruction) {
			if ld, ok := ins.(*ssa.UnOp); ok && ld.Op == token.MUL {
				if ia, ok := ld.X.(*ssa.IndexAddr); ok && ia.X == ssa.Value(fn.Params[0]) {
					for _, blk := range fn.Blocks {
						if idx, _, init, ok := loopIndex(blk); ok && init == 0 && idx == ia.Index {
							rowV, outerHdr = ld, blk
						}
					}
				}
			}
		})
		if rowV == nil {
			c.Undecided(R6, "pdf417.renderBarcode/rows", fn.Pos(), "no loop over the rows of the codeword matrix")
			return
		}
		n.Bind[rowV] = "row"
		if idx, _, _, ok := loopIndex(outerHdr); ok {
			n.Bind[idx] = "i"
		}
		c.expectCond(R6, "pdf417.renderBarcode/rows", rowV.Pos(), n.LoopCond(outerHdr), "i < len(codes)")
		peeled := fmt.Sprintf("slice(row,,%s)[j]", MustRef("len(row) - 1"))
		lastElem := fmt.Sprintf("row[%s]", MustRef("len(row) - 1"))
		// module count per codeword: alternatives (17 | 18) with their conditions, whether written as
		// two calls or as one call with a selected width; or the stop pattern taken out of the column
		// loop (columns 0..len-2 with 17 modules, then column len-1 with 18)
		cond18, cond17 := cFalse, cFalse
		var hdr *ssa.BasicBlock
		var after []*ssa.Call
		bad := ""
		for _, call := range addBits {
			var inner *ssa.BasicBlock
			for d := call.Block(); d != nil && d != outerHdr; d = d.Idom() {
				if idx, _, init, ok := loopIndex(d); ok && init == 0 && inLoopBody(d, call.Block()) {
					// innermost counting loop: the column loop
					n.Bind[idx] = "j"
					inner = d
					break
				}
			}
			if inner == nil {
				after = append(after, call)
				continue
			}
			if hdr != nil && hdr != inner {
				bad = "more than one column loop"
				break
			}
			hdr = inner
			reach := n.ReachCond(fn, hdr.Succs[0], call.Block())
			for _, cs := range n.valueCases(fn, hdr.Succs[0], call.Common().Args[2], 0) {
				k, ok := cs.val.IsConst()
				switch {
				case ok && k == 18:
					cond18 = cOr(cond18, cAnd(reach, cs.cond))
				case ok && k == 17:
					cond17 = cOr(cond17, cAnd(reach, cs.cond))
				default:
					bad = "module count " + cs.val.String()
				}
			}
			elem := n.Norm(call.Common().Args[1]).String()
			if len(after) == 0 && elem != "row[j]" && elem != peeled {
				bad = "codeword drawn is " + elem
			}
		}
		switch {
		case bad != "" || hdr == nil:
			c.Check(R6, "pdf417.renderBarcode/widths", fn.Pos(), false, "17 modules per codeword, 18 for the stop pattern", orOK(bad))
		case len(after) == 0:
			elemOK := true
			for _, call := range addBits {
				if n.Norm(call.Common().Args[1]).String() != "row[j]" {
					elemOK = false
				}
			}
			c.Check(R6, "pdf417.renderBarcode/codeword", fn.Pos(), elemOK, "row[j]", fmt.Sprint(elemOK))
			c.expectCond(R6, "pdf417.renderBarcode/columns", fn.Pos(), n.LoopCond(hdr), "j < len(row)")
			c.expectCond(R6, "pdf417.renderBarcode/last-column", fn.Pos(), cond18, "j == len(row) - 1")
			c.expectCond(R6, "pdf417.renderBarcode/other-columns", fn.Pos(), cond17, "j != len(row) - 1")
		case len(after) == 1:
			// peeled form
			last := after[0]
			elemOK := true
			for _, call := range addBits {
				if call != last && n.Norm(call.Common().Args[1]).String() != peeled {
					elemOK = false
				}
			}
			c.Check(R6, "pdf417.renderBarcode/codeword", fn.Pos(), elemOK, "row[:len(row)-1][j]", fmt.Sprint(elemOK))
			c.expectCond(R6, "pdf417.renderBarcode/columns", fn.Pos(), n.LoopCond(hdr), "j < len(row) - 1")
			c.expectCond(R6, "pdf417.renderBarcode/other-columns", fn.Pos(), cond17, "true")
			c.Check(R6, "pdf417.renderBarcode/other-columns-width", fn.Pos(), cond18.Kind == CFalse, "17 modules inside the column loop", cond18.String())
			w, isK := n.Norm(last.Common().Args[2]).IsConst()
			el := n.Norm(last.Common().Args[1]).String()
			// the conditions before the column loop and after it (the loop itself always ends)
			reach := cFalse
			if ex := loopExitBlock(hdr); ex != nil && len(hdr.Preds) == 2 {
				pre := hdr.Preds[0]
				if hdr.Dominates(pre) {
					pre = hdr.Preds[1]
				}
				reach = cAnd(n.ReachCond(fn, rowV.Block(), pre), n.ReachCond(fn, ex, last.Block()))
			}
			e1, _ := CondEquivalent(reach, MustRefCond("len(row) != 0"))
			e2, _ := CondEquivalent(reach, cTrue)
			okLast := isK && w == 18 && el == lastElem && (e1 || e2) && hdr.Dominates(last.Block()) && !inLoopBody(hdr, last.Block())
			c.Check(R6, "pdf417.renderBarcode/last-column", last.Pos(), okLast, "after the column loop: row[len(row)-1] with 18 modules (for every non-empty row)", fmt.Sprintf("%s with %s modules when %s", el, n.Norm(last.Common().Args[2]), reach))
		default:
			c.Check(R6, "pdf417.renderBarcode/widths", fn.Pos(), false, "17 modules per codeword, 18 for the stop pattern", fmt.Sprintf("%d AddBits calls outside the column loop", len(after)))
		}
	}
}

func hasNamedBool(c *Cond) bool {
	if c.Kind == CBool {
		return true
	}
	for _, s := range c.Sub {
		if hasNamedBool(s) {
			return true
		}
	}
	return false
}

// pdfRoot: a normaliser rooted in pdf417.EncodeWithColor with the roles of the encoding pipeline:
// words = high-level codewords, M = their number, K = check word count of the requested level,
// cols/rows = the chosen dimensions. Helpers are analysed with n.Ctx set to their call path from here.
func pdfRoot(c *Ctx) (*Normer, *ssa.Function) {
	enc := c.P.Func("pdf417.EncodeWithColor")
	if enc == nil || len(enc.Params) != 3 {
		return nil, nil
	}
	n := NewNormer(c.P)
	n.BindParams(enc, "data", "level", "color")
	n.NoInline["pdf417.(securitylevel).ErrorCorrectionWordCount"] = true
	bindCalls(n, c.P, enc, nil, map[string][2]string{"pdf417.calcDimensions": {"cols", "rows"}, "pdf417.highlevelEncode": {"words", "hlErr"}, "pdf417.encodeData": {"cw", "edErr"}})
	n.AtomAlias["len(words)"] = "M"
	n.AtomAlias["call:pdf417.(securitylevel).ErrorCorrectionWordCount(level)"] = "K"
	return n, enc
}

// appendSegments: the pieces a slice is put together from by a chain of appends, in order: "elems"
// for individually listed elements (returned in elems), else the normal form of the appended slice.
// An empty start (nil, make with length 0) contributes nothing.
func appendSegments(n *Normer, v ssa.Value, depth int) (segs []string, elems []ssa.Value) {
	if depth > 8 {
		return []string{"?"}, nil
	}
	switch x := v.(type) {
	case *ssa.Const:
		if x.Value == nil {
			return nil, nil
		}
	case *ssa.MakeSlice:
		if k, isK := n.Norm(x.Len).IsConst(); isK && k == 0 {
			return nil, nil
		}
	case *ssa.Call:
		if bi, ok := x.Common().Value.(*ssa.Builtin); ok && bi.Name() == "append" && len(x.Common().Args) == 2 {
			head, he := appendSegments(n, x.Common().Args[0], depth+1)
			if el := variadicElems(x.Common().Args[1]); el != nil {
				var keys []int
				for k := range el {
					keys = append(keys, k)
				}
				sort.Ints(keys)
				for _, k := range keys {
					he = append(he, el[k])
				}
				return append(head, "elems"), he
			}
			tail, te := appendSegments(n, x.Common().Args[1], depth+1)
			return append(head, tail...), append(he, te...)
		}
	}
	if el := variadicElems(v); el != nil {
		var keys []int
		for k := range el {
			keys = append(keys, k)
		}
		sort.Ints(keys)
		for _, k := range keys {
			elems = append(elems, el[k])
		}
		return []string{"elems"}, elems
	}
	return []string{n.Norm(v).String()}, nil
}
