package main

// E5 (part): LenSet — the set of possible len(s) of a string value at a program point, as a
// finite or co-finite set of naturals. Forward dataflow over the CFG; `len(v) == k` branch
// conditions refine the set on both edges; concatenation adds, s[a:len(s)-k] subtracts.

import (
	"fmt"
	"go/constant"
	"go/token"
	"go/types"
	"sort"

	"golang.org/x/tools/go/ssa"
)

type LenSet struct {
	Neg bool         // true: all naturals except Set
	Set map[int]bool // elements (or exclusions)
}

func lsTop() LenSet { return LenSet{Neg: true, Set: map[int]bool{}} }
func lsOf(xs ...int) LenSet {
	s := LenSet{Set: map[int]bool{}}
	for _, x := range xs {
		s.Set[x] = true
	}
	return s
}
func lsEmpty() LenSet { return lsOf() }

func (a LenSet) IsTop() bool { return a.Neg && len(a.Set) == 0 }

func (a LenSet) Has(k int) bool {
	if a.Neg {
		return !a.Set[k]
	}
	return a.Set[k]
}

func (a LenSet) String() string {
	var ks []int
	for k := range a.Set {
		ks = append(ks, k)
	}
	sort.Ints(ks)
	if a.Neg {
		if len(ks) == 0 {
			return "any"
		}
		return fmt.Sprintf("any except %v", ks)
	}
	return fmt.Sprint(ks)
}

func lsUnion(a, b LenSet) LenSet {
	switch {
	case !a.Neg && !b.Neg:
		out := lsOf()
		for k := range a.Set {
			out.Set[k] = true
		}
		for k := range b.Set {
			out.Set[k] = true
		}
		return out
	case a.Neg && b.Neg:
		out := lsTop()
		for k := range a.Set {
			if b.Set[k] {
				out.Set[k] = true
			}
		}
		return out
	case a.Neg:
		out := lsTop()
		for k := range a.Set {
			if !b.Set[k] {
				out.Set[k] = true
			}
		}
		return out
	default:
		return lsUnion(b, a)
	}
}

func lsIntersectOne(a LenSet, k int) LenSet {
	if a.Has(k) {
		return lsOf(k)
	}
	return lsEmpty()
}

func lsMinusOne(a LenSet, k int) LenSet {
	out := LenSet{Neg: a.Neg, Set: map[int]bool{}}
	for x := range a.Set {
		out.Set[x] = true
	}
	if a.Neg {
		out.Set[k] = true
	} else {
		delete(out.Set, k)
	}
	return out
}

func lsSum(a, b LenSet) LenSet {
	if a.Neg || b.Neg {
		return lsTop()
	}
	out := lsOf()
	for x := range a.Set {
		for y := range b.Set {
			out.Set[x+y] = true
		}
	}
	return out
}

func lsShift(a LenSet, d int) LenSet {
	if a.Neg {
		if len(a.Set) == 0 {
			return lsTop()
		}
		out := lsTop()
		for x := range a.Set {
			if x+d >= 0 {
				out.Set[x+d] = true
			}
		}
		// shifting down may introduce small values that were impossible... keep sound: only
		// exclusions that stay valid are kept (x+d excluded iff x excluded) — valid for any d.
		return out
	}
	out := lsOf()
	for x := range a.Set {
		if x+d >= 0 {
			out.Set[x+d] = true
		}
	}
	return out
}

func lsEqual(a, b LenSet) bool {
	if a.Neg != b.Neg || len(a.Set) != len(b.Set) {
		return false
	}
	for k := range a.Set {
		if !b.Set[k] {
			return false
		}
	}
	return true
}

func lsSubset(a LenSet, of ...int) bool {
	if a.Neg {
		return false
	}
	for k := range a.Set {
		ok := false
		for _, o := range of {
			if o == k {
				ok = true
			}
		}
		if !ok {
			return false
		}
	}
	return true
}

func lsDisjoint(a LenSet, of ...int) bool {
	for _, o := range of {
		if a.Has(o) {
			return false
		}
	}
	return true
}

// ---------------------------------------------------------------------------------------------

type lenFacts map[ssa.Value]LenSet // absent = top

type LenAnalysis struct {
	fn    *ssa.Function
	in    map[*ssa.BasicBlock]lenFacts
	reach map[*ssa.BasicBlock]bool
}

func isStringType(t types.Type) bool {
	b, ok := t.Underlying().(*types.Basic)
	return ok && b.Info()&types.IsString != 0
}

func lenArg(v ssa.Value) ssa.Value {
	c, ok := v.(*ssa.Call)
	if !ok {
		return nil
	}
	if b, ok := c.Common().Value.(*ssa.Builtin); ok && b.Name() == "len" && isStringType(c.Common().Args[0].Type()) {
		return c.Common().Args[0]
	}
	return nil
}

func constInt(v ssa.Value) (int, bool) {
	c, ok := v.(*ssa.Const)
	if !ok || c.Value == nil || c.Value.Kind() != constant.Int {
		return 0, false
	}
	i, ok := constant.Int64Val(c.Value)
	return int(i), ok
}

func (la *LenAnalysis) lenOf(v ssa.Value, f lenFacts, depth int) LenSet {
	if s, ok := f[v]; ok {
		return s
	}
	if depth > 8 {
		return lsTop()
	}
	switch x := v.(type) {
	case *ssa.Const:
		if x.Value != nil && x.Value.Kind() == constant.String {
			return lsOf(len(constant.StringVal(x.Value)))
		}
	case *ssa.BinOp:
		if x.Op == token.ADD && isStringType(x.Type()) {
			return lsSum(la.lenOf(x.X, f, depth+1), la.lenOf(x.Y, f, depth+1))
		}
	case *ssa.Convert:
		if isStringType(x.Type()) && isIntType(x.X.Type()) {
			return lsOf(1, 2, 3, 4) // string(rune): 1..4 bytes, whatever the rune
		}
	case *ssa.Slice:
		if !isStringType(x.X.Type()) {
			break
		}
		lo := 0
		if x.Low != nil {
			k, ok := constInt(x.Low)
			if !ok {
				return lsTop()
			}
			lo = k
		}
		base := la.lenOf(x.X, f, depth+1)
		if x.High == nil {
			return lsShift(base, -lo)
		}
		if k, ok := constInt(x.High); ok {
			return lsOf(k - lo)
		}
		if sub, ok := x.High.(*ssa.BinOp); ok && sub.Op == token.SUB {
			if lenArg(sub.X) == x.X {
				if k, ok := constInt(sub.Y); ok {
					return lsShift(base, -k-lo)
				}
			}
		}
	}
	return lsTop()
}

func copyFacts(f lenFacts) lenFacts {
	out := lenFacts{}
	for k, v := range f {
		out[k] = v
	}
	return out
}

// refine applies the branch condition of p on the edge to successor index si.
func (la *LenAnalysis) refine(p *ssa.BasicBlock, si int, f lenFacts) lenFacts {
	iff, ok := p.Instrs[len(p.Instrs)-1].(*ssa.If)
	if !ok {
		return f
	}
	cmp, ok := iff.Cond.(*ssa.BinOp)
	if !ok || (cmp.Op != token.EQL && cmp.Op != token.NEQ) {
		return f
	}
	v := lenArg(cmp.X)
	k, okk := constInt(cmp.Y)
	if v == nil {
		v = lenArg(cmp.Y)
		k, okk = constInt(cmp.X)
	}
	if v == nil || !okk {
		return f
	}
	eqEdge := si == 0
	if cmp.Op == token.NEQ {
		eqEdge = !eqEdge
	}
	out := copyFacts(f)
	cur := la.lenOf(v, f, 0)
	if eqEdge {
		out[v] = lsIntersectOne(cur, k)
	} else {
		out[v] = lsMinusOne(cur, k)
	}
	return out
}

func NewLenAnalysis(fn *ssa.Function) *LenAnalysis {
	la := &LenAnalysis{fn: fn, in: map[*ssa.BasicBlock]lenFacts{}, reach: map[*ssa.BasicBlock]bool{}}
	la.in[fn.Blocks[0]] = lenFacts{}
	la.reach[fn.Blocks[0]] = true
	for iter := 0; iter < 50; iter++ {
		changed := false
		for _, b := range fn.Blocks {
			if !la.reach[b] {
				continue
			}
			for si, s := range b.Succs {
				ef := la.refine(b, si, la.in[b])
				// an edge on which a refined value has an empty set is infeasible
				feasible := true
				for _, ls := range ef {
					if !ls.Neg && len(ls.Set) == 0 {
						feasible = false
					}
				}
				if !feasible {
					continue
				}
				// phi facts of s for this edge
				ef = copyFacts(ef)
				pi := -1
				for i, p := range s.Preds {
					if p == b {
						pi = i
					}
				}
				for _, ins := range s.Instrs {
					phi, ok := ins.(*ssa.Phi)
					if !ok {
						break
					}
					if isStringType(phi.Type()) && pi >= 0 {
						ef[phi] = la.lenOf(phi.Edges[pi], ef, 0)
					}
				}
				if !la.reach[s] {
					la.reach[s] = true
					la.in[s] = ef
					changed = true
					continue
				}
				// join: union; a value missing on one side is top
				cur := la.in[s]
				joined := lenFacts{}
				for v, ls := range cur {
					if o, ok := ef[v]; ok {
						joined[v] = lsUnion(ls, o)
					}
				}
				if len(joined) != len(cur) {
					changed = true
				} else {
					for v, ls := range joined {
						if !lsEqual(ls, cur[v]) {
							changed = true
						}
					}
				}
				la.in[s] = joined
			}
		}
		if !changed {
			break
		}
	}
	return la
}

// At returns the LenSet of string value v at the start of block b.
func (la *LenAnalysis) At(v ssa.Value, b *ssa.BasicBlock) LenSet {
	if !la.reach[b] {
		return lsEmpty()
	}
	return la.lenOf(v, la.in[b], 0)
}

// OnEdge returns the LenSet of v on the CFG edge p -> p.Succs[si].
func (la *LenAnalysis) OnEdge(v ssa.Value, p *ssa.BasicBlock, si int) LenSet {
	if !la.reach[p] {
		return lsEmpty()
	}
	return la.lenOf(v, la.refine(p, si, la.in[p]), 0)
}
