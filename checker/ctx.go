package main

import (
	"bufio"
	"encoding/json"
	"fmt"
	"go/token"
	"os"
	"path/filepath"
	"sort"
	"strings"
	"time"
)

// Obligation is one rule instance: rule + construct (never a line number) is its identity.
type Obligation struct {
	Key       string `json:"key"` // <rule>/<construct>
	Rule      string `json:"rule"`
	Construct string `json:"construct"`
	Pos       string `json:"pos"`
	OK        bool   `json:"ok"`
	Expected  string `json:"expected,omitempty"`
	Found     string `json:"found,omitempty"`
	Kind      string `json:"kind,omitempty"` // "", "UNDECIDED", "ANCHOR", "FLOOR", "CANARY"
	Canary    bool   `json:"-"`
}

type Ctx struct {
	Prop  string
	Tier  string
	P     *Prog
	Obs   []Obligation
	Count map[string]int // named counters for evidence (functions analysed, call sites, table entries...)
	Rules map[string]*RuleStat
	Notes []string
	funcs map[string]bool
}

type RuleStat struct {
	Instances int    `json:"instances"`
	Floor     int    `json:"floor"`
	Failed    int    `json:"failed"`
	Doc       string `json:"doc,omitempty"`
}

func NewCtx(prop, tier string, p *Prog) *Ctx {
	return &Ctx{Prop: prop, Tier: tier, P: p, Count: map[string]int{}, Rules: map[string]*RuleStat{}, funcs: map[string]bool{}}
}

func (c *Ctx) rule(rule string) *RuleStat {
	r := c.Rules[rule]
	if r == nil {
		r = &RuleStat{}
		c.Rules[rule] = r
	}
	return r
}

// Doc records the one-line statement of a rule (goes into evidence).
func (c *Ctx) Doc(rule, doc string) { c.rule(rule).Doc = doc }

// Floor records the minimum instance count confirmed by hand on today's tree.
func (c *Ctx) Floor(rule string, n int) { c.rule(rule).Floor = n }

// Check records an obligation.
func (c *Ctx) Check(rule, construct string, pos token.Pos, ok bool, expected, found string) bool {
	o := Obligation{Key: rule + "/" + construct, Rule: rule, Construct: construct, Pos: c.P.Pos(pos), OK: ok, Expected: expected, Found: found}
	if c.P.IsCanaryPos(pos) {
		o.Canary = true
	}
	c.add(o)
	return ok
}

func (c *Ctx) add(o Obligation) {
	c.Obs = append(c.Obs, o)
	if verbose {
		fmt.Printf("  [%v canary=%v] %s at %s: expected %q found %q\n", o.OK, o.Canary, o.Key, o.Pos, trunc(o.Expected, 120), trunc(o.Found, 160))
	}
	if o.Canary {
		return
	}
	r := c.rule(o.Rule)
	r.Instances++
	if !o.OK {
		r.Failed++
	}
}

// Undecided: the analysis could not decide an armed obligation. Counts as a failure.
func (c *Ctx) Undecided(rule, construct string, pos token.Pos, why string) {
	c.add(Obligation{Key: rule + "/" + construct, Rule: rule, Construct: construct, Pos: c.P.Pos(pos), OK: false, Found: why, Kind: "UNDECIDED", Canary: c.P.IsCanaryPos(pos)})
}

// Anchor: a construct the rule is anchored in could not be resolved.
func (c *Ctx) Anchor(rule, construct string, why string) {
	c.add(Obligation{Key: rule + "/" + construct, Rule: rule, Construct: construct, Pos: "-", OK: false, Found: why, Kind: "ANCHOR"})
}

func (c *Ctx) Fn(name string) { c.funcs[name] = true }

// ---------------------------------------------------------------------------------------------

type knownFinding struct {
	Prop string
	Key  string
	Text string
}

func readKnownFindings(path string) ([]knownFinding, error) {
	f, err := os.Open(path)
	if err != nil {
		if os.IsNotExist(err) {
			return nil, nil
		}
		return nil, err
	}
	defer f.Close()
	var out []knownFinding
	sc := bufio.NewScanner(f)
	for sc.Scan() {
		line := strings.TrimSpace(sc.Text())
		if !strings.HasPrefix(line, "finding:") {
			continue // "fixed:" lines and comments suppress nothing
		}
		rest := strings.TrimSpace(strings.TrimPrefix(line, "finding:"))
		kf := knownFinding{}
		for _, fld := range strings.Fields(rest) {
			if strings.HasPrefix(fld, "property=") {
				kf.Prop = strings.TrimPrefix(fld, "property=")
			} else if strings.HasPrefix(fld, "key=") {
				kf.Key = strings.TrimPrefix(fld, "key=")
			}
		}
		kf.Text = rest
		if kf.Prop != "" && kf.Key != "" {
			out = append(out, kf)
		}
	}
	return out, sc.Err()
}

// ---------------------------------------------------------------------------------------------

type violationFile struct {
	Property   string       `json:"property"`
	Tier       string       `json:"tier"`
	Obligation Obligation   `json:"obligation"`
	All        []Obligation `json:"all_failed"`
	Replay     string       `json:"replay"`
}

// Finish evaluates floors/canaries, writes evidence, prints VIOLATION / KNOWN-FINDING lines and
// returns the exit code.
func (c *Ctx) Finish(verifDir string, start time.Time, seed int, extra map[string]interface{}) int {
	// floors
	var rules []string
	for r := range c.Rules {
		rules = append(rules, r)
	}
	sort.Strings(rules)
	for _, r := range rules {
		st := c.Rules[r]
		if st.Instances < st.Floor {
			c.add(Obligation{Key: r + "/floor", Rule: r, Construct: "floor", Pos: "-", OK: false,
				Expected: fmt.Sprintf(">= %d instances", st.Floor), Found: fmt.Sprintf("%d instances", st.Instances), Kind: "FLOOR"})
		}
	}
	known, err := readKnownFindings(filepath.Join(verifDir, "known_findings.txt"))
	if err != nil {
		fmt.Fprintln(os.Stderr, "known_findings:", err)
		return 2
	}
	var failed, knownHit []Obligation
	discharged := 0
	total := 0
	for _, o := range c.Obs {
		if o.Canary {
			continue
		}
		total++
		if o.OK {
			discharged++
			continue
		}
		isKnown := false
		for _, k := range known {
			if k.Prop == c.Prop && k.Key == o.Key && o.Kind == "" {
				isKnown = true
				fmt.Printf("KNOWN-FINDING: property=%s %s [%s at %s: expected %s, found %s]\n", c.Prop, k.Text, o.Key, o.Pos, o.Expected, o.Found)
			}
		}
		if isKnown {
			knownHit = append(knownHit, o)
		} else {
			failed = append(failed, o)
		}
	}
	exit := 0
	evDir := filepath.Join(verifDir, "evidence")
	os.MkdirAll(filepath.Join(evDir, "violations"), 0o755)
	// remove stale violation files of this property
	old, _ := filepath.Glob(filepath.Join(evDir, "violations", c.Prop+"-*.json"))
	for _, f := range old {
		os.Remove(f)
	}
	for i, o := range failed {
		exit = 1
		name := fmt.Sprintf("%s-%d.json", c.Prop, i+1)
		path := filepath.Join(evDir, "violations", name)
		vf := violationFile{Property: c.Prop, Tier: c.Tier, Obligation: o, Replay: fmt.Sprintf("bin/verifchk -prop %s -replay %s", c.Prop, "evidence/violations/"+name)}
		if i == 0 {
			vf.All = failed
		}
		b, _ := json.MarshalIndent(vf, "", " ")
		os.WriteFile(path, b, 0o644)
		kind := o.Kind
		if kind == "" {
			kind = "RULE"
		}
		fmt.Printf("VIOLATION property=%s replay=%s\n", c.Prop, path)
		fmt.Printf("  %s %s at %s\n    expected: %s\n    found:    %s\n", kind, o.Key, o.Pos, o.Expected, o.Found)
	}

	// samples: a few obligations written out
	var samples []interface{}
	seen := map[string]int{}
	for _, o := range c.Obs {
		if o.Canary {
			continue
		}
		if seen[o.Rule] >= 2 {
			continue
		}
		seen[o.Rule]++
		samples = append(samples, map[string]interface{}{"key": o.Key, "pos": o.Pos, "ok": o.OK, "expected": trunc(o.Expected, 300), "found": trunc(o.Found, 300)})
		if len(samples) >= 40 {
			break
		}
	}
	var fns []string
	for f := range c.funcs {
		fns = append(fns, f)
	}
	sort.Strings(fns)
	info := propInfo[c.Prop]
	if info.Assumptions == nil {
		info.Assumptions = []string{}
	}
	if c.Notes == nil {
		c.Notes = []string{}
	}
	cov := map[string]interface{}{
		"explanation":          info.Explanation,
		"not_decided":          info.NotDecided,
		"obligations":          total,
		"discharged":           discharged + len(knownHit),
		"known_findings":       len(knownHit),
		"checker_cmd":          fmt.Sprintf("bin/verifchk -prop %s -tier %s", c.Prop, c.Tier),
		"trusted_base":         []string{"go/types + go/ssa (x/tools v0.29.0)", "standard tables and closed forms embedded in /verif/checker", "this checker"},
		"rules":                c.Rules,
		"functions_analysed":   fns,
		"functions_in_program": len(c.P.Funcs),
		"packages_loaded":      len(c.P.Pkgs),
		"counters":             c.Count,
		"samples":              samples,
		"evaluations":          total,
		"distinct_nontrivial":  total,
		"rule":                 "one evaluation = one obligation (rule instance on a named construct of /repo's current source); all are distinct by key",
		"exhaustive":           false,
		"notes":                c.Notes,
	}
	for k, v := range extra {
		cov[k] = v
	}
	ev := map[string]interface{}{
		"property_id": c.Prop,
		"tier":        c.Tier,
		"seed":        seed,
		"level":       "other",
		"coverage":    cov,
		"assumptions": info.Assumptions,
		"wall_s":      time.Since(start).Seconds(),
		"violations":  len(failed),
	}
	b, _ := json.MarshalIndent(ev, "", " ")
	if err := os.WriteFile(filepath.Join(evDir, c.Prop+".json"), b, 0o644); err != nil {
		fmt.Fprintln(os.Stderr, "evidence:", err)
		return 2
	}
	fmt.Printf("property=%s tier=%s obligations=%d discharged=%d known=%d violations=%d rules=%d wall=%.1fs\n",
		c.Prop, c.Tier, total, discharged, len(knownHit), len(failed), len(c.Rules), time.Since(start).Seconds())
	return exit
}

func trunc(s string, n int) string {
	if len(s) <= n {
		return s
	}
	return s[:n] + "…"
}

type PropInfo struct {
	Explanation string // what is decided (structural clauses)
	NotDecided  string // behavioural remainder
	Assumptions []string
	Technique   string
}

var propInfo = map[string]PropInfo{}
