package main

import (
	"fmt"
	"go/constant"
	"go/token"
	"go/types"

	"golang.org/x/tools/go/ssa"
)

// R-ATOI: strconv.Atoi/ParseInt/ParseUint accept a sign (and ParseInt base prefixes); a string
// handed to them must be proven digits-only by a validation loop (DigitOnly domain), otherwise
// the encoder accepts content ("+12", "-0") that it then alters.
func ruleAtoiPkgs(floor int, pkgs ...string) func(*Ctx) {
	return func(c *Ctx) { ruleAtoi(c, floor, pkgs) }
}

func ruleAtoi(c *Ctx, floor int, pkgs []string) {
	const R = "R-ATOI"
	c.Doc(R, "every strconv.Atoi/ParseInt/ParseUint argument in non-test code is digits-only on every path: a per-rune validation loop over the string (or a superstring) whose continue-condition implies '0'<=r<='9' dominates the call")
	c.Floor(R, floor)
	for _, fn := range append(append([]*ssa.Function{}, c.P.Funcs...), c.P.CanaryFuncs...) {
		if len(pkgs) > 0 && !inPkgs(fn, pkgs) && !c.P.IsCanaryPos(fn.Pos()) {
			continue
		}
		k := 0
		eachInstr(fn, func(b *ssa.BasicBlock, ins ssa.Instruction) {
			call, ok := ins.(*ssa.Call)
			if !ok {
				return
			}
			switch calleeFull(call) {
			case "strconv.Atoi", "strconv.ParseInt", "strconv.ParseUint":
			default:
				return
			}
			k++
			c.Fn(c.P.FuncName(fn))
			c.Count["strconv_parse_sites"]++
			arg := call.Common().Args[0]
			ok, why := digitOnly(c, arg, call, 0)
			c.Check(R, fmt.Sprintf("%s/%s#%d", c.P.FuncName(fn), call.Common().StaticCallee().Name(), k), call.Pos(), ok,
				"argument proven digits-only", why)
		})
	}
	// the digit classifier itself
	const R2 = "R-ATOI/classifier"
	c.Doc(R2, "utils.RuneToInt returns a non-negative value only for '0'..'9' (decision form of its returns)")
	if fn := c.P.Func("utils.RuneToInt"); fn == nil {
		c.Anchor(R2, "utils.RuneToInt", "function not found")
	} else {
		ok, why := runeToIntIsClassifier(c, fn)
		c.Check(R2, "utils.RuneToInt", fn.Pos(), ok, "returns >= 0 only under 48 <= r <= 57, and then r-48", why)
	}
}

func runeToIntIsClassifier(c *Ctx, fn *ssa.Function) (bool, string) {
	n := NewNormer(c.P)
	n.BindParams(fn, "r")
	digit := MustRefCond("r >= 48 && r <= 57")
	for _, ret := range returnsOf(fn) {
		v := ret.Results[0]
		if k, ok := n.Norm(v).IsConst(); ok && k < 0 {
			continue
		}
		rc := n.ReachCond(fn, nil, ret.Block())
		imp, _, w := CondRelation(rc, digit)
		if !imp {
			return false, "a non-negative return is reachable for a non-digit: " + w
		}
		if !pEqual(n.Norm(v), MustRef("r - 48")) {
			return false, "digit value is " + n.Norm(v).String()
		}
	}
	return true, "ok"
}

// digitOnly decides whether string value v is digits-only at instruction `at`.
func digitOnly(c *Ctx, v ssa.Value, at ssa.Instruction, depth int) (bool, string) {
	if depth > 6 {
		return false, "derivation too deep"
	}
	if k, ok := v.(*ssa.Const); ok && k.Value != nil && k.Value.Kind() == constant.String {
		s := constant.StringVal(k.Value)
		for _, r := range s {
			if r < '0' || r > '9' {
				return false, fmt.Sprintf("constant %q is not digits-only", s)
			}
		}
		return true, "constant digits"
	}
	if ok, why := validatedBy(c, v, at); ok {
		return true, why
	}
	switch x := v.(type) {
	case *ssa.Slice:
		return digitOnly(c, x.X, at, depth+1)
	case *ssa.Phi:
		for _, e := range x.Edges {
			if ok, why := digitOnly(c, e, at, depth+1); !ok {
				return false, why
			}
		}
		return true, "all phi edges digits-only"
	case *ssa.BinOp:
		if b, ok := x.Type().Underlying().(*types.Basic); ok && b.Info()&types.IsString != 0 {
			if ok, why := digitOnly(c, x.X, at, depth+1); !ok {
				return false, why
			}
			return digitOnly(c, x.Y, at, depth+1)
		}
	}
	n := NewNormer(c.P)
	return false, "no dominating digit-validation loop over " + n.Norm(v).asAtom() + " or a superstring of it"
}

// validatedBy: is there a `for _, r := range v` loop dominating `at` whose continue-condition
// implies that r is a digit?
func validatedBy(c *Ctx, v ssa.Value, at ssa.Instruction) (bool, string) {
	fn := at.Parent()
	// a variable captured by a closure lives in a cell: every read of a cell that is written exactly
	// once (the parameter spill) is the same string
	cands := []ssa.Value{v}
	if ld, isLd := v.(*ssa.UnOp); isLd && ld.Op == token.MUL {
		if a, isA := ld.X.(*ssa.Alloc); isA {
			if stores, paths, _ := storesTo(a); len(stores) == 1 && len(paths[0]) == 0 {
				cands = append(cands, stores[0].Val)
				for _, r := range *a.Referrers() {
					if l2, ok := r.(*ssa.UnOp); ok && l2.Op == token.MUL && l2 != ld {
						cands = append(cands, l2)
					}
				}
			}
		}
	}
	var allRefs []ssa.Instruction
	for _, cv := range cands {
		if rr := cv.Referrers(); rr != nil {
			allRefs = append(allRefs, *rr...)
		}
	}
	// a library search for an offending character: strings.IndexFunc(v, pred) < 0 (or
	// !strings.ContainsFunc(v, pred)) on the way to `at`, where pred is false for digits only
	for _, ref := range allRefs {
		call, ok := ref.(*ssa.Call)
		if !ok || call.Parent() != fn || call.Common().StaticCallee() == nil || len(call.Common().Args) != 2 {
			continue
		}
		full := calleeFull(call)
		if full != "strings.IndexFunc" && full != "strings.ContainsFunc" {
			continue
		}
		var pred *ssa.Function
		pv := call.Common().Args[1]
		if ct, ok := pv.(*ssa.ChangeType); ok {
			pv = ct.X
		}
		switch x := pv.(type) {
		case *ssa.Function:
			pred = x
		case *ssa.MakeClosure:
			if len(x.Bindings) == 0 {
				pred = x.Fn.(*ssa.Function)
			}
		}
		if pred == nil || pred.Blocks == nil || len(pred.Params) != 1 || !call.Block().Dominates(at.Block()) {
			continue
		}
		np := NewNormer(c.P)
		np.BindParams(pred, "r")
		offending := cFalse
		for _, ret := range returnsOf(pred) {
			offending = cOr(offending, cAnd(np.ReachCond(pred, nil, ret.Block()), np.CondOf(ret.Results[0])))
		}
		if imp, _, _ := CondRelation(cNot(offending), MustRefCond("r >= 48 && r <= 57")); !imp {
			continue
		}
		n := NewNormer(c.P)
		n.Bind[call] = "found"
		rc := n.ReachCond(fn, call.Block(), at.Block())
		want := MustRefCond("found < 0")
		if full == "strings.ContainsFunc" {
			want = cNot(&Cond{Kind: CBool, Name: "found"})
		}
		if imp, _, _ := CondRelation(rc, want); imp {
			return true, "no character outside 0-9 found by " + full + " with " + c.P.FuncName(pred)
		}
	}
	for _, ref := range allRefs {
		rg, ok := ref.(*ssa.Range)
		if !ok || rg.Parent() != fn {
			continue
		}
		if b, ok := rg.X.Type().Underlying().(*types.Basic); !ok || b.Info()&types.IsString == 0 {
			continue
		}
		for _, r2 := range *rg.Referrers() {
			next, ok := r2.(*ssa.Next)
			if !ok {
				continue
			}
			var okV, runeV ssa.Value
			for _, r3 := range *next.Referrers() {
				if ex, ok := r3.(*ssa.Extract); ok {
					switch ex.Index {
					case 0:
						okV = ex
					case 2:
						runeV = ex
					}
				}
			}
			if okV == nil || runeV == nil {
				continue
			}
			header := next.Block()
			iff, ok := header.Instrs[len(header.Instrs)-1].(*ssa.If)
			if !ok || iff.Cond != okV {
				continue
			}
			body, done := header.Succs[0], header.Succs[1]
			if !done.Dominates(at.Block()) || body.Dominates(at.Block()) {
				continue
			}
			n := NewNormer(c.P)
			n.Bind[runeV] = "r"
			cont := cFalse
			for _, p := range header.Preds {
				if header.Dominates(p) { // latch
					cont = cOr(cont, cAnd(n.ReachCond(fn, body, p), n.EdgeCond(p, header)))
				}
			}
			for _, ref := range []string{"r >= 48 && r <= 57", "call:utils.RuneToInt(r) >= 0"} {
				imp, _, _ := CondRelation(cont, mustRefCondAtoms(ref))
				if imp {
					return true, "validation loop with continue-condition " + cont.String()
				}
			}
		}
	}
	return false, ""
}

// mustRefCondAtoms parses a reference condition in which atoms of the form call:pkg.F(x) may occur.
func mustRefCondAtoms(src string) *Cond {
	if src == "call:utils.RuneToInt(r) >= 0" {
		return cmpCond(tokenGEQ, pAtom("call:utils.RuneToInt(r)"), pConst(0))
	}
	return MustRefCond(src)
}

func init() {
	canaryImports["qr"] = `import zzstrconv "strconv"`
	canaries = append(canaries, canary{Pkg: "qr", Rule: "R-ATOI", Src: `
func zzVerifCanaryAtoi(s string) int {
	for _, r := range s {
		if r < '0' && r > '9' { // wrong operator: validates nothing
			return -1
		}
	}
	i, _ := zzstrconv.Atoi(s)
	return i
}`})
	canaryExpect["R-ATOI"] = []string{"zzVerifCanaryAtoi"}
}

func inPkgs(fn *ssa.Function, pkgs []string) bool {
	for fn.Parent() != nil {
		fn = fn.Parent()
	}
	if fn.Pkg == nil {
		return false
	}
	for _, p := range pkgs {
		if shortName(fn.Pkg.Pkg.Path()) == p {
			return true
		}
	}
	return false
}
