package main

import (
	"fmt"
	"sort"
	"strconv"
	"strings"

	"golang.org/x/tools/go/ssa"
)

func ruleImageMethods(c *Ctx) {
	const R2 = "K2-IMAGE-COLORS"
	c.Doc(R2, "for the five symbol image types: At returns color.Foreground exactly when the module bit is set and color.Background otherwise (nothing else); ColorModel returns color.Model; ColorScheme returns color; the module index formula of the getter equals that of the setter (sibling agreement)")
	c.Floor(R2, 20)
	const R3 = "K3-BOUNDS"
	c.Doc(R3, "Bounds = image.Rect(0,0,w,h): 1D (Len(),1); QR (dimension,dimension) with dimension = 4*version+17; DataMatrix (Columns,Rows); Aztec (size,size); PDF417 (width, Len/width*moduleHeight)")
	c.Floor(R3, 5)
	const R4 = "K4-METADATA"
	c.Doc(R4, "Metadata names the symbology constant of the package and the right dimensionality (1 for base1DCode with the stored kind, 2 for the 2D types)")
	c.Floor(R4, 5)
	const R5 = "K5-CONTENT"
	c.Doc(R5, "Content returns the stored content; encoders store the text they were given (EAN: the completed code; Code 39/93: the prepared string)")
	c.Floor(R5, 9)
	types_ := []struct {
		recv, bit, w, h, kind string
		dims                  int64
		content               string
	}{
		{"utils.(*base1DCode)", "call:utils.(*BitList).GetBit(c.BitList,x)", "call:utils.(*BitList).Len(c.BitList)", "1", "", 1, "c.content"},
		{"qr.(*qrcode)", "call:utils.(*BitList).GetBit(c.data," + MustRef("y + x*c.dimension").String() + ")", "c.dimension", "c.dimension", "TypeQR", 2, "c.content"},
		{"datamatrix.(*datamatrixCode)", "call:utils.(*BitList).GetBit(c.BitList," + MustRef("y + x*c.dmCodeSize.Rows").String() + ")", "c.dmCodeSize.Columns", "c.dmCodeSize.Rows", "TypeDataMatrix", 2, "c.content"},
		{"aztec.(*aztecCode)", "call:utils.(*BitList).GetBit(c.BitList," + MustRef("y + x*c.size").String() + ")", "c.size", "c.size", "TypeAztec", 2, "Conv:string(c.content)"},
		{"pdf417.(*pdfBarcode)", "call:utils.(*BitList).GetBit(c.code," + MustRef("x + c.width*(y/2)").String() + ")", "c.width", pScale(pAtom("Div(call:utils.(*BitList).Len(c.code),c.width)"), 2).String(), "TypePDF", 2, "c.data"},
	}
	for _, t := range types_ {
		mk := func(fn *ssa.Function) *Normer {
			// helpers of the image types are inlined down to the bit-list primitives
			n := NewNormer(c.P)
			n.NoInline["utils.(*BitList).GetBit"], n.NoInline["utils.(*BitList).Len"] = true, true
			n.BindParams(fn, "c", "x", "y")
			return n
		}
		if fn := c.theFunc(R2, t.recv+".At"); fn != nil {
			n := mk(fn)
			fg, bg := cFalse, cFalse
			other := ""
			for _, ret := range returnsOf(fn) {
				reach := n.ReachCond(fn, nil, ret.Block())
				// (the colour may be picked into a variable first: one alternative per way to get here)
				for _, cs := range n.valueCases(fn, nil, ret.Results[0], 0) {
					v := cs.val.String()
					rc := cAnd(reach, cs.cond)
					switch v {
					case "c.color.Foreground":
						fg = cOr(fg, rc)
					case "c.color.Background":
						bg = cOr(bg, rc)
					default:
						other = v
					}
				}
			}
			c.Check(R2, t.recv+".At/only-two-colours", fn.Pos(), other == "", "only color.Foreground / color.Background", orOK(other))
			bitAtom := &Cond{Kind: CBool, Name: t.bit}
			c.expectCondC(R2, t.recv+".At/foreground-iff", fn.Pos(), fg, bitAtom)
			c.expectCondC(R2, t.recv+".At/background-iff", fn.Pos(), bg, cNot(bitAtom))
		}
		if fn := c.theFunc(R2, t.recv+".ColorModel"); fn != nil {
			n := mk(fn)
			got := n.Norm(returnsOf(fn)[0].Results[0]).String()
			c.Check(R2, t.recv+".ColorModel", fn.Pos(), got == "c.color.Model", "c.color.Model", got)
		}
		if fn := c.theFunc(R2, t.recv+".ColorScheme"); fn != nil {
			n := mk(fn)
			got := n.Norm(returnsOf(fn)[0].Results[0]).String()
			c.Check(R2, t.recv+".ColorScheme", fn.Pos(), got == "c.color", "c.color", got)
		}
		if fn := c.theFunc(R3, t.recv+".Bounds"); fn != nil {
			n := mk(fn)
			rets := returnsOf(fn)
			call, ok := rets[0].Results[0].(*ssa.Call)
			if !ok || calleeFull(call) != "image.Rect" {
				c.Check(R3, t.recv+".Bounds", fn.Pos(), false, "image.Rect(0,0,w,h)", n.Norm(rets[0].Results[0]).String())
			} else {
				a := call.Common().Args
				got := fmt.Sprintf("(%s, %s, %s, %s)", n.Norm(a[0]), n.Norm(a[1]), n.Norm(a[2]), n.Norm(a[3]))
				want := fmt.Sprintf("(0, 0, %s, %s)", t.w, t.h)
				c.Check(R3, t.recv+".Bounds", call.Pos(), got == want, want, got)
			}
		}
		if fn := c.theFunc(R4, t.recv+".Metadata"); fn != nil {
			n := mk(fn)
			// Metadata{kind, dims} literal: stores into a local struct
			var kind, dims string
			eachInstr(fn, func(b *ssa.BasicBlock, ins ssa.Instruction) {
				if st, ok := ins.(*ssa.Store); ok {
					if _, f := storeBase(st.Addr); f == "CodeKind" {
						kind = n.Norm(st.Val).String()
					} else if f == "Dimensions" {
						dims = n.Norm(st.Val).String()
					}
				}
			})
			wantKind := "c.kind"
			if t.kind != "" {
				if k := c.P.PkgConst("barcode", t.kind); k != nil {
					wantKind = "const:" + k.Val().ExactString()
				}
			}
			c.Check(R4, t.recv+".Metadata", fn.Pos(), kind == wantKind && dims == fmt.Sprint(t.dims), fmt.Sprintf("{%s, %d}", wantKind, t.dims), fmt.Sprintf("{%s, %s}", kind, dims))
		}
		if fn := c.theFunc(R5, t.recv+".Content"); fn != nil {
			n := mk(fn)
			got := n.Norm(returnsOf(fn)[0].Results[0]).String()
			// a content kept as []byte is converted on the way out; kept as a string it is returned as it is
			okC := got == t.content || "Conv:string("+got+")" == t.content
			c.Check(R5, t.recv+".Content", fn.Pos(), okC, t.content, got)
		}
	}
	// kind strings as the property names them
	for k, want := range map[string]string{"TypeAztec": "Aztec", "TypeCodabar": "Codabar", "TypeCode128": "Code 128", "TypeCode39": "Code 39", "TypeCode93": "Code 93", "TypeDataMatrix": "DataMatrix", "TypeEAN8": "EAN 8", "TypeEAN13": "EAN 13", "TypePDF": "PDF417", "TypeQR": "QR Code", "Type2of5": "2 of 5", "Type2of5Interleaved": "2 of 5 (interleaved)"} {
		got, ok := c.P.ConstString("barcode", k)
		if !ok {
			c.Anchor(R4, "barcode."+k, "constant not found")
			continue
		}
		c.Check(R4, "barcode."+k, c.P.PkgConst("barcode", k).Pos(), got == want, want, got)
	}
	// getter/setter index agreement
	for _, pr := range []struct{ get, set, want string }{
		{"qr.(*qrcode).Get", "qr.(*qrcode).Set", "y + x*c.dimension"},
		{"datamatrix.(*datamatrixCode).get", "datamatrix.(*datamatrixCode).set", "y + x*c.dmCodeSize.Rows"},
		{"aztec.(*aztecCode).At", "aztec.(*aztecCode).set", "y + x*c.size"},
	} {
		for _, name := range []string{pr.get, pr.set} {
			fn := c.theFunc(R2, name)
			if fn == nil {
				continue
			}
			n := NewNormer(c.P)
			n.BindParams(fn, "c", "x", "y")
			found := false
			// the bit-list access itself, in this function or in an unexported helper it delegates to; an
			// index computed by a helper is read through it
			c.P.deepEach(fn, 2, func(s DeepSite) {
				call, ok := s.Ins.(*ssa.Call)
				if !ok || calleeOf(call) == nil {
					return
				}
				if nm := c.P.FuncName(calleeOf(call)); nm == "utils.(*BitList).GetBit" || nm == "utils.(*BitList).SetBit" {
					found = true
					saved := n.Ctx
					n.Ctx = s.Path
					c.expectPoly(R2, name+"/module-index", call.Pos(), n, call.Common().Args[1], pr.want)
					n.Ctx = saved
				}
			})
			if !found {
				c.Check(R2, name+"/module-index", fn.Pos(), false, "bit list access", "none")
			}
		}
	}
	// encoders: content and kind handed to the 1D constructors
	kinds := map[string][]string{
		"code128.EncodeWithColor": {"Code 128"}, "code128.EncodeWithoutChecksumWithColor": {"Code 128"},
		"code39.EncodeWithColor": {"Code 39"}, "code93.EncodeWithColor": {"Code 93"}, "codabar.EncodeWithColor": {"Codabar"},
		"twooffive.EncodeWithColor": {"2 of 5", "2 of 5 (interleaved)"}, "ean.EncodeWithColor": {"EAN 8", "EAN 13"},
	}
	for name, want := range kinds {
		fn := c.theFunc(R4, name)
		if fn == nil {
			continue
		}
		var got []string
		n := NewNormer(c.P)
		n.BindParams(fn, "content", "interleaved")
		byKind := map[string]*Cond{}
		c.P.deepEach(fn, 2, func(s DeepSite) {
			call, ok := s.Ins.(*ssa.Call)
			if !ok || calleeOf(call) == nil || calleeOf(call).Pkg == nil || shortName(calleeOf(call).Pkg.Pkg.Path()) != "utils" {
				return
			}
			if len(call.Common().Args) < 3 || !isStringType(call.Common().Args[0].Type()) {
				return
			}
			// the kind argument: a constant, or a choice of constants (phi / value helper)
			rc := n.ReachCondDeep(fn, nil, s)
			saved := n.Ctx
			n.Ctx = s.Path
			cases := n.valueCases(s.Fn, nil, call.Common().Args[0], 0)
			// a kind chosen together with the bars: alternatives on which the bars are nil never reach
			// the constructor (the nil result is rejected before)
			if _, isPhi := call.Common().Args[0].(*ssa.Phi); isPhi {
				cases = nil
				for _, jc := range jointCases(n, s.Fn, s.Fn.Blocks[0], []ssa.Value{call.Common().Args[0], call.Common().Args[2]}, call.Block(), cTrue, 0) {
					if isNilConst(jc.vals[1]) {
						continue
					}
					cases = append(cases, valCase{n.Norm(jc.vals[0]), jc.cond})
				}
			}
			n.Ctx = saved
			for _, cs := range cases {
				v := cs.val.asAtom()
				if !strings.HasPrefix(v, "const:\"") {
					continue
				}
				kind, err := strconv.Unquote(strings.TrimPrefix(v, "const:"))
				if err != nil {
					continue
				}
				if byKind[kind] == nil {
					byKind[kind] = cFalse
					got = append(got, kind)
				}
				byKind[kind] = cOr(byKind[kind], cAnd(rc, cs.cond))
			}
		})
		if name == "twooffive.EncodeWithColor" {
			for _, kind := range got {
				rc := byKind[kind]
				imp, _, _ := CondRelation(rc, &Cond{Kind: CBool, Name: "interleaved"})
				impN, _, _ := CondRelation(rc, cNot(&Cond{Kind: CBool, Name: "interleaved"}))
				c.Check(R4, name+"/kind-by-variant:"+kind, fn.Pos(), (kind == "2 of 5 (interleaved)" && imp) || (kind == "2 of 5" && impN), "interleaved kind iff the interleaved flag", fmt.Sprintf("imp=%v impNot=%v", imp, impN))
			}
		}
		sort.Strings(got)
		okk := len(got) == len(want)
		for _, w := range want {
			f := false
			for _, g := range got {
				if g == w {
					f = true
				}
			}
			okk = okk && f
		}
		c.Check(R4, name+"/kind", fn.Pos(), okk, fmt.Sprint(want), fmt.Sprint(got))
	}
	// content stored by the 2D encoders
	for _, v := range []struct{ fn, field, want string }{
		{"qr.EncodeWithColor", "content", "content"},
		{"datamatrix.EncodeWithColor", "content", "content"},
	} {
		fn := c.theFunc(R5, v.fn)
		if fn == nil {
			continue
		}
		n := NewNormer(c.P)
		n.BindParams(fn, "content")
		found := false
		eachInstr(fn, func(b *ssa.BasicBlock, ins ssa.Instruction) {
			if st, ok := ins.(*ssa.Store); ok {
				if _, f := storeBase(st.Addr); f == v.field {
					found = true
					c.expectPoly(R5, v.fn+"/content-stored", st.Pos(), n, st.Val, v.want)
				}
			}
		})
		c.Check(R5, v.fn+"/content", fn.Pos(), found, "content stored in the result", fmt.Sprint(found))
	}
	// 1D encoders: content argument of the constructor
	for name, want := range map[string]string{"code128.EncodeWithColor": "content", "code128.EncodeWithoutChecksumWithColor": "content", "codabar.EncodeWithColor": "content", "twooffive.EncodeWithColor": "content"} {
		fn := c.theFunc(R5, name)
		if fn == nil {
			continue
		}
		n := NewNormer(c.P)
		n.BindParams(fn, "content")
		kk := 0
		eachInstr(fn, func(b *ssa.BasicBlock, ins ssa.Instruction) {
			call, ok := ins.(*ssa.Call)
			if !ok || calleeOf(call) == nil || calleeOf(call).Pkg == nil || shortName(calleeOf(call).Pkg.Pkg.Path()) != "utils" || len(call.Common().Args) < 3 || !isStringType(call.Common().Args[0].Type()) {
				return
			}
			kk++
			c.expectPoly(R5, fmt.Sprintf("%s/content-arg#%d", name, kk), call.Pos(), n, call.Common().Args[1], want)
		})
	}
}
