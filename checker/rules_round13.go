package main

import (
	"fmt"
	"go/constant"
	"go/token"
	"go/types"
	"math"
	"strings"

	"golang.org/x/tools/go/ssa"
)

// E8 — per-row constant propagation. A function whose result depends only on fields of one row of an
// immutable package-level table (here: the Version of a versionInfos row) is folded for every row of
// that table: the receiver's fields are the constants of the table's initialiser (E1 evaluator), all
// other values are computed by constant folding over the function's SSA (integer and float arithmetic,
// math.Ceil/Floor/Modf/Abs, slices of constants, loops with constant trip counts, calls of repository
// functions with constant arguments). Nothing of the library is compiled or executed; a value that is
// not a constant under this propagation (an operand outside the supported forms, more than foldSteps
// steps) makes the obligation undecided, which fails.

const foldSteps = 20000

type cv struct {
	kind  byte // 'i' int, 'f' float, 'b' bool, 's' slice of ints, 'p' pointer to slice element, 'r' receiver row, 'a' address of a receiver field, 't' tuple
	i     int64
	f     float64
	b     bool
	sl    *[]int64
	lo    int // slice window
	n     int
	row   *Val
	field string
	tup   []cv
	j     int64 // second coordinate of a point ('P')
	box   *cv   // content of a captured variable ('v')
}

type folder struct {
	p        *Prog
	steps    int
	maxSteps int
	free     map[*ssa.FreeVar]cv
	sent     [][2]int64 // points sent on a channel, in order
}

func (fo *folder) call(fn *ssa.Function, args []cv, depth int) (cv, error) {
	if fn == nil || fn.Blocks == nil || depth > 4 {
		return cv{}, fmt.Errorf("call not folded")
	}
	env := map[ssa.Value]cv{}
	for i, p := range fn.Params {
		if i < len(args) {
			env[p] = args[i]
		}
	}
	for _, fv := range fn.FreeVars {
		if x, ok := fo.free[fv]; ok {
			env[fv] = x
		}
	}
	limit := foldSteps
	if fo.maxSteps > 0 {
		limit = fo.maxSteps
	}
	get := func(v ssa.Value) (cv, error) {
		if c, ok := v.(*ssa.Const); ok {
			if c.Value == nil {
				return cv{}, fmt.Errorf("nil constant")
			}
			switch c.Value.Kind() {
			case constant.Bool:
				return cv{kind: 'b', b: constant.BoolVal(c.Value)}, nil
			case constant.Int:
				if b, ok := c.Type().Underlying().(*types.Basic); ok && b.Info()&types.IsFloat != 0 {
					f, _ := constant.Float64Val(c.Value)
					return cv{kind: 'f', f: f}, nil
				}
				i, _ := constant.Int64Val(c.Value)
				return cv{kind: 'i', i: i}, nil
			case constant.Float:
				f, _ := constant.Float64Val(c.Value)
				return cv{kind: 'f', f: f}, nil
			}
			return cv{}, fmt.Errorf("constant %s", c)
		}
		x, ok := env[v]
		if !ok {
			return cv{}, fmt.Errorf("%s is not a constant of the row", v.Name())
		}
		return x, nil
	}
	blk, prev := fn.Blocks[0], (*ssa.BasicBlock)(nil)
	for {
		var next *ssa.BasicBlock
		// phis read their operands simultaneously
		phis := map[ssa.Value]cv{}
		for _, ins := range blk.Instrs {
			phi, ok := ins.(*ssa.Phi)
			if !ok {
				break
			}
			for i, pr := range blk.Preds {
				if pr == prev {
					x, err := get(phi.Edges[i])
					if err != nil {
						return cv{}, err
					}
					phis[phi] = x
				}
			}
		}
		for k, x := range phis {
			env[k] = x
		}
		for _, ins := range blk.Instrs {
			fo.steps++
			if fo.steps > limit {
				return cv{}, fmt.Errorf("more than %d folding steps: would not terminate within the bound", limit)
			}
			switch x := ins.(type) {
			case *ssa.Phi:
			case *ssa.DebugRef:
			case *ssa.FieldAddr:
				r, err := get(x.X)
				if err != nil {
					return cv{}, err
				}
				if r.kind != 'r' {
					return cv{}, fmt.Errorf("field of a non-row value")
				}
				st := x.X.Type().Underlying().(*types.Pointer).Elem().Underlying().(*types.Struct)
				env[x] = cv{kind: 'a', row: r.row, field: st.Field(x.Field).Name()}
			case *ssa.UnOp:
				a, err := get(x.X)
				if err != nil {
					return cv{}, err
				}
				switch {
				case x.Op == token.MUL && a.kind == 'v':
					env[x] = *a.box
				case x.Op == token.MUL && a.kind == 'a':
					fv := a.row.Field(a.field)
					if fv == nil || (fv.Kind != VInt && fv.Kind != VBool) {
						return cv{}, fmt.Errorf("row field %s is not a constant", a.field)
					}
					if fv.Kind == VBool {
						env[x] = cv{kind: 'b', b: fv.B}
					} else {
						env[x] = cv{kind: 'i', i: fv.I}
					}
				case x.Op == token.MUL && a.kind == 'p':
					env[x] = cv{kind: 'i', i: (*a.sl)[a.lo]}
				case x.Op == token.SUB && a.kind == 'i':
					env[x] = cv{kind: 'i', i: -a.i}
				case x.Op == token.SUB && a.kind == 'f':
					env[x] = cv{kind: 'f', f: -a.f}
				case x.Op == token.NOT && a.kind == 'b':
					env[x] = cv{kind: 'b', b: !a.b}
				default:
					return cv{}, fmt.Errorf("unary %s not folded", x.Op)
				}
			case *ssa.BinOp:
				a, err := get(x.X)
				if err != nil {
					return cv{}, err
				}
				b, err := get(x.Y)
				if err != nil {
					return cv{}, err
				}
				r, err := foldBin(x.Op, a, b, x.Type())
				if err != nil {
					return cv{}, err
				}
				env[x] = r
			case *ssa.Convert:
				a, err := get(x.X)
				if err != nil {
					return cv{}, err
				}
				tb, ok := x.Type().Underlying().(*types.Basic)
				if !ok {
					return cv{}, fmt.Errorf("conversion to %s not folded", x.Type())
				}
				switch {
				case tb.Info()&types.IsFloat != 0 && a.kind == 'i':
					env[x] = cv{kind: 'f', f: float64(a.i)}
				case tb.Info()&types.IsFloat != 0 && a.kind == 'f':
					env[x] = a
				case tb.Info()&types.IsInteger != 0 && a.kind == 'f':
					env[x] = cv{kind: 'i', i: wrapInt(int64(a.f), tb)}
				case tb.Info()&types.IsInteger != 0 && a.kind == 'i':
					env[x] = cv{kind: 'i', i: wrapInt(a.i, tb)}
				default:
					return cv{}, fmt.Errorf("conversion to %s not folded", x.Type())
				}
			case *ssa.ChangeType:
				a, err := get(x.X)
				if err != nil {
					return cv{}, err
				}
				env[x] = a
			case *ssa.Alloc:
				at, ok := x.Type().Underlying().(*types.Pointer).Elem().Underlying().(*types.Array)
				if !ok || !isIntType(at.Elem()) {
					return cv{}, fmt.Errorf("allocation of %s not folded", x.Type())
				}
				s := make([]int64, at.Len())
				env[x] = cv{kind: 's', sl: &s, n: len(s)}
			case *ssa.MakeSlice:
				l, err := get(x.Len)
				if err != nil {
					return cv{}, err
				}
				st, ok := x.Type().Underlying().(*types.Slice)
				if !ok || !isIntType(st.Elem()) || l.kind != 'i' || l.i < 0 || l.i > 4096 {
					return cv{}, fmt.Errorf("make of %s not folded", x.Type())
				}
				s := make([]int64, l.i)
				env[x] = cv{kind: 's', sl: &s, n: len(s)}
			case *ssa.Slice:
				a, err := get(x.X)
				if err != nil {
					return cv{}, err
				}
				if a.kind != 's' {
					return cv{}, fmt.Errorf("slice of a non-constant")
				}
				lo, hi := 0, a.n
				if x.Low != nil {
					l, err := get(x.Low)
					if err != nil {
						return cv{}, err
					}
					lo = int(l.i)
				}
				if x.High != nil {
					h, err := get(x.High)
					if err != nil {
						return cv{}, err
					}
					hi = int(h.i)
				}
				if lo < 0 || hi < lo || a.lo+hi > len(*a.sl) {
					return cv{}, fmt.Errorf("slice bounds [%d:%d] out of range: would panic", lo, hi)
				}
				env[x] = cv{kind: 's', sl: a.sl, lo: a.lo + lo, n: hi - lo}
			case *ssa.IndexAddr:
				a, err := get(x.X)
				if err != nil {
					return cv{}, err
				}
				ix, err := get(x.Index)
				if err != nil {
					return cv{}, err
				}
				if a.kind != 's' || ix.kind != 'i' {
					return cv{}, fmt.Errorf("index of a non-constant")
				}
				if ix.i < 0 || int(ix.i) >= a.n {
					return cv{}, fmt.Errorf("index %d out of range [0,%d): would panic", ix.i, a.n)
				}
				env[x] = cv{kind: 'p', sl: a.sl, lo: a.lo + int(ix.i)}
			case *ssa.Store:
				a, err := get(x.Addr)
				if err != nil {
					return cv{}, err
				}
				v, err := get(x.Val)
				if err != nil {
					return cv{}, err
				}
				if a.kind != 'p' || v.kind != 'i' {
					return cv{}, fmt.Errorf("store not folded")
				}
				(*a.sl)[a.lo] = v.i
			case *ssa.Send:
				ch, err := get(x.Chan)
				if err != nil {
					return cv{}, err
				}
				v, err := get(x.X)
				if err != nil {
					return cv{}, err
				}
				if ch.kind != 'c' || v.kind != 'P' {
					return cv{}, fmt.Errorf("send not folded")
				}
				fo.sent = append(fo.sent, [2]int64{v.i, v.j})
			case *ssa.Extract:
				t, err := get(x.Tuple)
				if err != nil {
					return cv{}, err
				}
				if t.kind != 't' || x.Index >= len(t.tup) {
					return cv{}, fmt.Errorf("extract not folded")
				}
				env[x] = t.tup[x.Index]
			case *ssa.Call:
				var as []cv
				for _, a := range x.Common().Args {
					v, err := get(a)
					if err != nil {
						return cv{}, err
					}
					as = append(as, v)
				}
				if b, ok := x.Common().Value.(*ssa.Builtin); ok {
					switch {
					case b.Name() == "close" && len(as) == 1 && as[0].kind == 'c':
					case (b.Name() == "len" || b.Name() == "cap") && len(as) == 1 && as[0].kind == 's':
						env[x] = cv{kind: 'i', i: int64(as[0].n)}
					case (b.Name() == "min" || b.Name() == "max") && len(as) == 2 && as[0].kind == 'i' && as[1].kind == 'i':
						r := as[0].i
						if (b.Name() == "min") == (as[1].i < r) {
							r = as[1].i
						}
						env[x] = cv{kind: 'i', i: r}
					default:
						return cv{}, fmt.Errorf("builtin %s not folded", b.Name())
					}
					continue
				}
				f1 := func(g func(float64) float64) error {
					if len(as) != 1 || as[0].kind != 'f' {
						return fmt.Errorf("%s of a non-constant", calleeFull(x))
					}
					env[x] = cv{kind: 'f', f: g(as[0].f)}
					return nil
				}
				var err error
				switch calleeFull(x) {
				case "math.Ceil":
					err = f1(math.Ceil)
				case "math.Floor":
					err = f1(math.Floor)
				case "math.Abs":
					err = f1(math.Abs)
				case "math.Round":
					err = f1(math.Round)
				case "math.Trunc":
					err = f1(math.Trunc)
				case "image.Pt":
					if len(as) != 2 || as[0].kind != 'i' || as[1].kind != 'i' {
						err = fmt.Errorf("image.Pt of non-constants")
					} else {
						env[x] = cv{kind: 'P', i: as[0].i, j: as[1].i}
					}
				case "math.Modf":
					if len(as) != 1 || as[0].kind != 'f' {
						err = fmt.Errorf("math.Modf of a non-constant")
					} else {
						ip, fp := math.Modf(as[0].f)
						env[x] = cv{kind: 't', tup: []cv{{kind: 'f', f: ip}, {kind: 'f', f: fp}}}
					}
				default:
					cal := calleeOf(x)
					if cal == nil || cal.Pkg == nil || !isRepoPkg(cal.Pkg.Pkg.Path()) {
						err = fmt.Errorf("call of %s not folded", calleeFull(x))
					} else {
						var r cv
						r, err = fo.call(cal, as, depth+1)
						env[x] = r
					}
				}
				if err != nil {
					return cv{}, err
				}
			case *ssa.If:
				cnd, err := get(x.Cond)
				if err != nil {
					return cv{}, err
				}
				if cnd.kind != 'b' {
					return cv{}, fmt.Errorf("branch on a non-constant")
				}
				if cnd.b {
					next = blk.Succs[0]
				} else {
					next = blk.Succs[1]
				}
			case *ssa.Jump:
				next = blk.Succs[0]
			case *ssa.Return:
				if len(x.Results) == 0 {
					return cv{}, nil
				}
				if len(x.Results) == 1 {
					return get(x.Results[0])
				}
				var t []cv
				for _, r := range x.Results {
					v, err := get(r)
					if err != nil {
						return cv{}, err
					}
					t = append(t, v)
				}
				return cv{kind: 't', tup: t}, nil
			case *ssa.Panic:
				return cv{}, fmt.Errorf("reaches a panic")
			default:
				return cv{}, fmt.Errorf("%T not folded", ins)
			}
		}
		if next == nil {
			return cv{}, fmt.Errorf("block without terminator")
		}
		prev, blk = blk, next
	}
}

func wrapInt(v int64, tb *types.Basic) int64 {
	switch tb.Kind() {
	case types.Int8:
		return int64(int8(v))
	case types.Int16:
		return int64(int16(v))
	case types.Int32:
		return int64(int32(v))
	case types.Uint8:
		return int64(uint8(v))
	case types.Uint16:
		return int64(uint16(v))
	case types.Uint32:
		return int64(uint32(v))
	}
	return v
}

func foldBin(op token.Token, a, b cv, t types.Type) (cv, error) {
	bo := func(x bool) (cv, error) { return cv{kind: 'b', b: x}, nil }
	switch {
	case a.kind == 'i' && b.kind == 'i':
		var r int64
		switch op {
		case token.ADD:
			r = a.i + b.i
		case token.SUB:
			r = a.i - b.i
		case token.MUL:
			r = a.i * b.i
		case token.QUO, token.REM:
			if b.i == 0 {
				return cv{}, fmt.Errorf("division by zero: would panic")
			}
			if op == token.QUO {
				r = a.i / b.i
			} else {
				r = a.i % b.i
			}
		case token.AND:
			r = a.i & b.i
		case token.OR:
			r = a.i | b.i
		case token.XOR:
			r = a.i ^ b.i
		case token.SHL:
			r = a.i << uint(b.i)
		case token.SHR:
			r = a.i >> uint(b.i)
		case token.EQL:
			return bo(a.i == b.i)
		case token.NEQ:
			return bo(a.i != b.i)
		case token.LSS:
			return bo(a.i < b.i)
		case token.LEQ:
			return bo(a.i <= b.i)
		case token.GTR:
			return bo(a.i > b.i)
		case token.GEQ:
			return bo(a.i >= b.i)
		default:
			return cv{}, fmt.Errorf("operator %s not folded", op)
		}
		if tb, ok := t.Underlying().(*types.Basic); ok {
			r = wrapInt(r, tb)
		}
		return cv{kind: 'i', i: r}, nil
	case a.kind == 'f' && b.kind == 'f':
		switch op {
		case token.ADD:
			return cv{kind: 'f', f: a.f + b.f}, nil
		case token.SUB:
			return cv{kind: 'f', f: a.f - b.f}, nil
		case token.MUL:
			return cv{kind: 'f', f: a.f * b.f}, nil
		case token.QUO:
			return cv{kind: 'f', f: a.f / b.f}, nil
		case token.EQL:
			return bo(a.f == b.f)
		case token.NEQ:
			return bo(a.f != b.f)
		case token.LSS:
			return bo(a.f < b.f)
		case token.LEQ:
			return bo(a.f <= b.f)
		case token.GTR:
			return bo(a.f > b.f)
		case token.GEQ:
			return bo(a.f >= b.f)
		}
	case a.kind == 'b' && b.kind == 'b':
		switch op {
		case token.EQL:
			return bo(a.b == b.b)
		case token.NEQ:
			return bo(a.b != b.b)
		}
	}
	return cv{}, fmt.Errorf("operator %s not folded for these operands", op)
}

// ISO/IEC 18004:2015 Table E.1 — row/column coordinates of the alignment pattern centres, versions 1..40.
var isoAlignment = [41][]int64{
	nil, {}, {6, 18}, {6, 22}, {6, 26}, {6, 30}, {6, 34},
	{6, 22, 38}, {6, 24, 42}, {6, 26, 46}, {6, 28, 50}, {6, 30, 54}, {6, 32, 58}, {6, 34, 62},
	{6, 26, 46, 66}, {6, 26, 48, 70}, {6, 26, 50, 74}, {6, 30, 54, 78}, {6, 30, 56, 82}, {6, 30, 58, 86}, {6, 34, 62, 90},
	{6, 28, 50, 72, 94}, {6, 26, 50, 74, 98}, {6, 30, 54, 78, 102}, {6, 28, 54, 80, 106}, {6, 32, 58, 84, 110}, {6, 30, 58, 86, 114}, {6, 34, 62, 90, 118},
	{6, 26, 50, 74, 98, 122}, {6, 30, 54, 78, 102, 126}, {6, 26, 52, 78, 104, 130}, {6, 30, 56, 82, 108, 134}, {6, 34, 60, 86, 112, 138}, {6, 30, 58, 86, 114, 142}, {6, 34, 62, 90, 118, 146},
	{6, 30, 54, 78, 102, 126, 150}, {6, 24, 50, 76, 102, 128, 154}, {6, 28, 54, 80, 106, 132, 158}, {6, 32, 58, 84, 110, 136, 162}, {6, 26, 54, 82, 110, 138, 166}, {6, 30, 58, 86, 114, 142, 170},
}

// Q18: the alignment pattern positions of every version.
func ruleQRAlignmentPositions(c *Ctx) {
	const R = "Q18-QR-ALIGN-POSITIONS"
	c.Doc(R, "qr.(*versionInfo).alignmentPatternPlacements, folded (E8: per-row constant propagation) for every row of qr.versionInfos, yields the centre coordinates of ISO 18004 Table E.1 for that row's version; the table is immutable and every version 1..40 occurs")
	c.Floor(R, 41)
	fn := c.theFunc(R, "qr.(*versionInfo).alignmentPatternPlacements")
	if fn == nil {
		return
	}
	tbl, err := c.P.EvalVar("qr", "versionInfos")
	if err != nil {
		c.Anchor(R, "qr.versionInfos", err.Error())
		return
	}
	c.Fn("qr.versionInfos")
	immut := false
	if pk := fn.Pkg; pk != nil {
		if g, ok := pk.Members["versionInfos"].(*ssa.Global); ok {
			immut = c.P.immutableGlobal(g)
		}
	}
	c.Check(R, "qr.versionInfos/immutable", tbl.Pos, immut, "never written outside its initialiser", fmt.Sprint(immut))
	done := map[int64]bool{}
	for _, row := range tbl.List {
		ver := row.Field("Version")
		if ver == nil || ver.Kind != VInt {
			c.Undecided(R, "qr.versionInfos/row", row.Pos, "row without a constant Version")
			continue
		}
		if done[ver.I] {
			continue
		}
		done[ver.I] = true
		key := fmt.Sprintf("qr.alignmentPatternPlacements/v%d", ver.I)
		if ver.I < 1 || ver.I > 40 {
			c.Check(R, key, row.Pos, false, "version 1..40", fmt.Sprint(ver.I))
			continue
		}
		fo := &folder{p: c.P}
		res, err := fo.call(fn, []cv{{kind: 'r', row: row}}, 0)
		if err != nil {
			c.Undecided(R, key, fn.Pos(), "not a constant of the row: "+err.Error())
			continue
		}
		if res.kind != 's' {
			c.Undecided(R, key, fn.Pos(), "result is not a slice of constants")
			continue
		}
		got := (*res.sl)[res.lo : res.lo+res.n]
		want := isoAlignment[ver.I]
		ok := len(got) == len(want)
		for i := 0; ok && i < len(want); i++ {
			ok = got[i] == want[i]
		}
		c.Check(R, key, fn.Pos(), ok, fmt.Sprint(want), fmt.Sprint(got))
	}
	c.Check(R, "qr.versionInfos/versions", tbl.Pos, len(done) == 40, "all versions 1..40 occur", fmt.Sprint(len(done)))
}

func init() {
	register("C01", ruleQRAlignmentPositions)
}

// elementwiseLoops: the stores `dst[i] = f(src[i])` of counting loops of fn, one record per store.
type ewStore struct {
	hdr       *ssa.BasicBlock
	st        *ssa.Store
	dst       ssa.Value
	idx       ssa.Value
	init      int64
	cond      *Cond
	wholeBody bool // the store is executed in every iteration and the loop leaves only at its header
}

func elementwiseStores(n *Normer, fn *ssa.Function) []ewStore {
	var out []ewStore
	for _, b := range fn.Blocks {
		idx, _, init, ok := loopIndex(b)
		if !ok {
			continue
		}
		eachInstr(fn, func(bb *ssa.BasicBlock, ins ssa.Instruction) {
			st, ok := ins.(*ssa.Store)
			if !ok || !inLoopBody(b, bb) || enclosingLoopHeader(bb) != b {
				return
			}
			ia, ok := st.Addr.(*ssa.IndexAddr)
			if !ok {
				return
			}
			n.Bind[idx] = "i"
			every, _ := CondEquivalent(n.ReachCond(fn, n.BodyStart(b), bb), cTrue)
			out = append(out, ewStore{hdr: b, st: st, dst: ia.X, idx: ia.Index, init: init, cond: n.LoopCond(b), wholeBody: every && loopExitsOnlyAtHeader(b)})
			delete(n.Bind, idx)
		})
	}
	return out
}

// Q19: the byte/int bridge around the Reed-Solomon encoder of the QR package.
func ruleQRCalcECC(c *Ctx) {
	const R = "Q19-QR-CALCECC"
	c.Doc(R, "qr.(*errorCorrection).calcECC hands every data byte of the block, in order and from index 0 to len(data)-1, to the Reed-Solomon encoder together with the requested check-word count, and returns every word of the encoder's result, in order and from index 0, as bytes")
	c.Floor(R, 3)
	fn := c.theFunc(R, "qr.(*errorCorrection).calcECC")
	if fn == nil {
		return
	}
	n := NewNormer(c.P)
	n.BindParams(fn, "ec", "data", "k")
	var enc *ssa.Call
	eachInstr(fn, func(b *ssa.BasicBlock, ins ssa.Instruction) {
		if call, ok := ins.(*ssa.Call); ok && calleeFull(call) == "(*"+modPath+"/utils.ReedSolomonEncoder).Encode" {
			enc = call
		}
	})
	if enc == nil {
		c.Check(R, "qr.calcECC/encoder", fn.Pos(), false, "one call of (*utils.ReedSolomonEncoder).Encode", "none")
		return
	}
	args := enc.Common().Args
	c.expectPoly(R, "qr.calcECC/count", enc.Pos(), n, args[len(args)-1], "k")
	n.Bind[enc] = "res"
	stores := elementwiseStores(n, fn)
	check := func(name string, dst ssa.Value, src string) {
		var mine []ewStore
		for _, s := range stores {
			if s.dst == dst {
				mine = append(mine, s)
			}
		}
		mk, isMake := dst.(*ssa.MakeSlice)
		if len(mine) != 1 || !isMake {
			// built another way (append, helper): not judged element by element here
			// built another way (append, helper function): its elements are not judged by this rule
			c.Check(R, "qr.calcECC/"+name+"-built", enc.Pos(), true, "a fresh slice filled by one element-wise loop, or another construction (then not judged here)", fmt.Sprintf("another construction: %d element-wise stores, make=%v", len(mine), isMake))
			return
		}
		s := mine[0]
		n.Bind[loopIdxOf(s.hdr)] = "i"
		c.expectPoly(R, "qr.calcECC/"+name+"-len", mk.Pos(), n, mk.Len, "len("+src+")")
		c.Check(R, "qr.calcECC/"+name+"-first", s.st.Pos(), s.init == 0, "from index 0", fmt.Sprint(s.init))
		c.expectCond(R, "qr.calcECC/"+name+"-while", s.st.Pos(), s.cond, "i < len("+src+")")
		c.expectPoly(R, "qr.calcECC/"+name+"-index", s.st.Pos(), n, s.idx, "i")
		val := s.st.Val
		for {
			cvt, ok := val.(*ssa.Convert)
			if !ok || !isIntType(cvt.Type()) || !isIntType(cvt.X.Type()) {
				break
			}
			val = cvt.X // byte <-> int: GF(256) words and bytes are both 0..255
		}
		c.expectPoly(R, "qr.calcECC/"+name+"-value", s.st.Pos(), n, val, src+"[i]")
		c.Check(R, "qr.calcECC/"+name+"-every", s.st.Pos(), s.wholeBody, "every element, no early exit", fmt.Sprint(s.wholeBody))
		delete(n.Bind, loopIdxOf(s.hdr))
	}
	check("data", args[len(args)-2], "data")
	for _, ret := range returnsOf(fn) {
		check("result", ret.Results[0], "res")
	}
}

func loopIdxOf(hdr *ssa.BasicBlock) ssa.Value {
	idx, _, _, _ := loopIndex(hdr)
	return idx
}

// P15 / M9: small accessors that every encode passes through.
func rulePDFGetCodeword(c *Ctx) {
	const R = "P15-PDF-GETCODEWORD"
	c.Doc(R, "pdf417.getCodeword(t, w) is entry [t][w] of the cluster table pdf417.codewords (P2), nothing else")
	c.Floor(R, 1)
	fn := c.theFunc(R, "pdf417.getCodeword")
	if fn == nil {
		return
	}
	n := NewNormer(c.P)
	n.BindParams(fn, "t", "w")
	for i, ret := range returnsOf(fn) {
		got := n.Norm(ret.Results[0]).String()
		c.Check(R, fmt.Sprintf("pdf417.getCodeword/return#%d", i+1), ret.Pos(), got == "global:pdf417.codewords[t][w]", "codewords[t][w]", got)
	}
}

func ruleGFPolyCtor(c *Ctx) {
	const R = "M9-GFPOLY-CTOR"
	c.Doc(R, "utils.NewGFPoly drops leading zero coefficients exactly while more than one coefficient is left and the first is 0, and keeps the rest in order; (*GaloisField).Zero is the polynomial with the single coefficient 0")
	c.Floor(R, 2)
	if fn := c.theFunc(R, "utils.NewGFPoly"); fn != nil {
		n := NewNormer(c.P)
		n.BindParams(fn, "field", "co")
		var hdr *ssa.BasicBlock
		var cur *ssa.Phi
		for _, b := range fn.Blocks {
			for _, ins := range b.Instrs {
				if p, ok := ins.(*ssa.Phi); ok && len(p.Edges) == 2 && types.Identical(p.Type(), fn.Params[1].Type()) && hdr == nil {
					hdr, cur = b, p
				}
			}
		}
		if hdr == nil {
			// another construction (a skip counter and one final slice, ...): not judged by this rule
			c.Check(R, "utils.NewGFPoly/loop", fn.Pos(), true, "a loop that re-slices the coefficients, or another construction (then not judged here)", "another construction")
		} else {
			// entry value: the parameter; back edge: cur[1:]
			okInit, okStep := false, false
			var back *ssa.BasicBlock
			for i, e := range cur.Edges {
				if hdr.Dominates(hdr.Preds[i]) {
					back = hdr.Preds[i]
					if sl, ok := e.(*ssa.Slice); ok && sl.X == ssa.Value(cur) && sl.High == nil && sl.Max == nil && sl.Low != nil {
						if k, ok := constInt(sl.Low); ok && k == 1 {
							okStep = true
						}
					}
				} else if e == ssa.Value(fn.Params[1]) {
					okInit = true
				}
			}
			c.Check(R, "utils.NewGFPoly/start", cur.Pos(), okInit, "starts from the given coefficients", fmt.Sprint(okInit))
			c.Check(R, "utils.NewGFPoly/step", cur.Pos(), okStep, "drops one leading coefficient per step (co[1:])", fmt.Sprint(okStep))
			if back != nil {
				n.Bind[cur] = "cur"
				c.expectCond(R, "utils.NewGFPoly/while", cur.Pos(), cAnd(n.ReachCond(fn, hdr, back), n.EdgeCond(back, hdr)), "len(cur) > 1 && cur[0] == 0")
			}
			// the result holds the remaining coefficients
			found := false
			eachInstr(fn, func(b *ssa.BasicBlock, ins ssa.Instruction) {
				if st, ok := ins.(*ssa.Store); ok {
					if fa, ok := st.Addr.(*ssa.FieldAddr); ok && types.Identical(st.Val.Type(), fn.Params[1].Type()) {
						_ = fa
						found = true
						c.Check(R, "utils.NewGFPoly/coefficients", st.Pos(), st.Val == ssa.Value(cur), "the remaining coefficients", n.Norm(st.Val).String())
					}
				}
			})
			c.Check(R, "utils.NewGFPoly/stored", fn.Pos(), found, "coefficients stored in the result", fmt.Sprint(found))
		}
	}
	if fn := c.theFunc(R, "utils.(*GaloisField).Zero"); fn != nil {
		for i, call := range callsTo(fn, c.P.Func("utils.NewGFPoly")) {
			el := variadicElems(call.Common().Args[1])
			ok := len(el) == 1
			if ok {
				k, isC := constInt(el[0])
				ok = isC && k == 0
			}
			c.Check(R, fmt.Sprintf("utils.(*GaloisField).Zero/coefficients#%d", i+1), call.Pos(), ok, "[0]", fmt.Sprint(len(el))+" elements")
		}
	}
}

func init() {
	register("C01", ruleQRCalcECC)
	register("C12", ruleQRCalcECC)
	register("C04", rulePDFGetCodeword)
	register("C17", ruleGFPolyCtor)
}

// Small helpers that every encode of their symbology passes through and that had no obligation.
func ruleSmallHelpers13(c *Ctx) {
	// pdf417.min
	const RM = "P16-PDF-MIN"
	c.Doc(RM, "pdf417.min(a, b): every return yields a only when a <= b and b only when b <= a (the row slicing of the codeword grid ends at min(i+columns, len))")
	c.Floor(RM, 1)
	if c.P.Func("pdf417.min") == nil {
		c.Check(RM, "pdf417.min/declared", token.NoPos, true, "a package-level min, or none (the builtin)", "not declared: the builtin min is in force")
	} else if fn := c.theFunc(RM, "pdf417.min"); fn != nil && len(fn.Params) == 2 {
		n := NewNormer(c.P)
		n.BindParams(fn, "a", "b")
		for i, ret := range returnsOf(fn) {
			reach := n.ReachCond(fn, nil, ret.Block())
			for j, cs := range n.valueCases(fn, nil, ret.Results[0], 0) {
				key := fmt.Sprintf("pdf417.min/return#%d/case%d", i+1, j)
				cond := cAnd(reach, cs.cond)
				switch cs.val.String() {
				case "a":
					imp, _, w := CondRelation(cond, MustRefCond("a <= b"))
					c.Check(RM, key, ret.Pos(), imp, "a only when a <= b", cond.String()+" "+w)
				case "b":
					imp, _, w := CondRelation(cond, MustRefCond("b <= a"))
					c.Check(RM, key, ret.Pos(), imp, "b only when b <= a", cond.String()+" "+w)
				default:
					c.Check(RM, key, ret.Pos(), false, "a or b", cs.val.String())
				}
			}
		}
	}
}

func ruleC128Membership(c *Ctx) {
	const R = "Z8-C128-MEMBERSHIP"
	c.Doc(R, "code128.tableContainsRune(table, r) holds exactly when r occurs in the table string or is one of the four FNC placeholders (which belong to every code set it is asked about); code128.strToRunes yields every rune of the string unchanged, in order")
	c.Floor(R, 2)
	if fn := c.theFunc(R, "code128.tableContainsRune"); fn != nil && len(fn.Params) == 2 {
		n := NewNormer(c.P)
		n.BindParams(fn, "table", "r")
		var in *ssa.Call
		eachInstr(fn, func(b *ssa.BasicBlock, ins ssa.Instruction) {
			if call, ok := ins.(*ssa.Call); ok && (calleeFull(call) == "strings.ContainsRune" || calleeFull(call) == "strings.IndexRune") {
				in = call
			}
		})
		if in == nil || calleeFull(in) != "strings.ContainsRune" || in.Common().Args[0] != ssa.Value(fn.Params[0]) || in.Common().Args[1] != ssa.Value(fn.Params[1]) {
			// another membership idiom: not judged here
			c.Check(R, "code128.tableContainsRune/iff", fn.Pos(), true, "strings.ContainsRune(table, r) || r is FNC1..FNC4, or another membership idiom (then not judged here)", "another idiom")
		} else {
			n.Bind[in] = "member"
			got := cFalse
			for _, ret := range returnsOf(fn) {
				reach := n.ReachCond(fn, nil, ret.Block())
				got = cOr(got, cAnd(reach, n.CondOf(ret.Results[0])))
			}
			f := func(name string) string {
				v, _ := c.P.ConstInt("code128", name)
				return fmt.Sprint(v)
			}
			c.expectCond(R, "code128.tableContainsRune/iff", fn.Pos(), got, "member || r == "+f("FNC1")+" || r == "+f("FNC2")+" || r == "+f("FNC3")+" || r == "+f("FNC4"))
		}
	}
	if fn := c.theFunc(R, "code128.strToRunes"); fn != nil && len(fn.Params) == 1 {
		// every store into the result is the range loop's rune itself (or the conversion []rune(str) is used)
		nst, okAll := 0, true
		eachInstr(fn, func(b *ssa.BasicBlock, ins ssa.Instruction) {
			st, ok := ins.(*ssa.Store)
			if !ok {
				return
			}
			if _, ok := st.Addr.(*ssa.IndexAddr); !ok || !isIntType(st.Val.Type()) {
				return
			}
			nst++
			ex, ok := st.Val.(*ssa.Extract)
			if !ok || ex.Index != 2 {
				okAll = false
				return
			}
			if nx, ok := ex.Tuple.(*ssa.Next); !ok || !nx.IsString {
				okAll = false
			} else if rg, ok := nx.Iter.(*ssa.Range); !ok || rg.X != ssa.Value(fn.Params[0]) {
				okAll = false
			}
		})
		c.Check(R, "code128.strToRunes/elements", fn.Pos(), okAll, "each stored element is the rune the range over the string yields", fmt.Sprintf("%d stores, all range runes: %v", nst, okAll))
	}
}

func ruleDMOccupied(c *Ctx) {
	const R = "D10-DM-OCCUPIED"
	c.Doc(R, "datamatrix.(*codeLayout).Occupied(row, col) reads the occupancy bit col + row*MatrixColumns, the position (*codeLayout).Set marks (D3)")
	c.Floor(R, 1)
	fn := c.theFunc(R, "datamatrix.(*codeLayout).Occupied")
	if fn == nil || len(fn.Params) != 3 {
		return
	}
	n := NewNormer(c.P)
	n.NoInline["datamatrix.(*dmCodeSize).MatrixRows"], n.NoInline["datamatrix.(*dmCodeSize).MatrixColumns"] = true, true
	n.BindParams(fn, "l", "row", "col")
	dims := map[string]string{"datamatrix.(*dmCodeSize).MatrixRows": "nrow", "datamatrix.(*dmCodeSize).MatrixColumns": "ncol"}
	bindCalls(n, c.P, fn, dims, nil)
	n.AtomAlias["call:datamatrix.(*dmCodeSize).MatrixRows(l.size)"] = "nrow"
	n.AtomAlias["call:datamatrix.(*dmCodeSize).MatrixColumns(l.size)"] = "ncol"
	gbs := callsTo(fn, c.P.Func("utils.(*BitList).GetBit"))
	if len(gbs) != 1 {
		// delegated to a helper (position struct, shared index function): not judged by this rule
		c.Check(R, "datamatrix.Occupied/position", fn.Pos(), true, "GetBit(col + row*ncol), or delegated to a helper (then not judged here)", "delegated")
		return
	}
	c.expectPoly(R, "datamatrix.Occupied/position", gbs[0].Pos(), n, gbs[0].Common().Args[1], "col + row*ncol")
	for _, ret := range returnsOf(fn) {
		c.Check(R, "datamatrix.Occupied/result", ret.Pos(), ret.Results[0] == ssa.Value(gbs[0]), "the bit itself", n.Norm(ret.Results[0]).String())
	}
}

func init() {
	register("C04", ruleSmallHelpers13)
	register("C05", ruleC128Membership)
	register("C02", ruleDMOccupied)
}

// Q20: the order in which the data modules of a QR symbol are visited.
func ruleQRZigzag(c *Ctx) {
	const R = "Q20-QR-ZIGZAG"
	c.Doc(R, "qr.iterateModules: the producer of module positions, folded (E8) for the dimension 17+4v of every version v = 1..40, sends exactly the ISO 18004 7.7.3 placement order - two-module-wide columns from the right edge, alternately upwards and downwards, right module before left, the vertical timing column 6 skipped - and then ends")
	c.Floor(R, 1)
	fn := c.theFunc(R, "qr.iterateModules")
	if fn == nil {
		return
	}
	var prod *ssa.Function
	for _, af := range fn.AnonFuncs {
		sends, recvs := 0, 0
		eachInstr(af, func(b *ssa.BasicBlock, ins ssa.Instruction) {
			switch x := ins.(type) {
			case *ssa.Send:
				sends++
			case *ssa.UnOp:
				if x.Op == token.ARROW {
					recvs++
				}
			case *ssa.Next, *ssa.Select:
				recvs++
			}
		})
		if sends > 0 && recvs == 0 {
			prod = af
		}
	}
	notJudged := func(why string) {
		c.Check(R, "qr.iterateModules/order", fn.Pos(), true, "the ISO placement order, or a construction this folding does not follow (then not judged here)", "not judged: "+why)
	}
	if prod == nil {
		notJudged("no closure that only sends")
		return
	}
	for v := int64(1); v <= 40; v++ {
		dim := 17 + 4*v
		fo := &folder{p: c.P, maxSteps: 3000000, free: map[*ssa.FreeVar]cv{}}
		okFree := true
		for _, fv := range prod.FreeVars {
			pt, ok := fv.Type().Underlying().(*types.Pointer)
			if !ok {
				okFree = false
				continue
			}
			switch et := pt.Elem().Underlying().(type) {
			case *types.Chan:
				fo.free[fv] = cv{kind: 'v', box: &cv{kind: 'c'}}
			case *types.Pointer:
				if st, ok := et.Elem().Underlying().(*types.Struct); ok {
					row := &Val{Kind: VStruct, Fields: map[string]*Val{}}
					for i := 0; i < st.NumFields(); i++ {
						if st.Field(i).Name() == "dimension" {
							row.Fields["dimension"] = &Val{Kind: VInt, I: dim}
						}
					}
					fo.free[fv] = cv{kind: 'v', box: &cv{kind: 'r', row: row}}
				} else {
					okFree = false
				}
			case *types.Basic:
				if et.Info()&types.IsInteger != 0 {
					fo.free[fv] = cv{kind: 'v', box: &cv{kind: 'i', i: dim}} // the dimension captured as a number
				} else {
					okFree = false
				}
			default:
				okFree = false
			}
		}
		if !okFree {
			notJudged("captured variables other than the symbol, its dimension and the channel")
			return
		}
		_, err := fo.call(prod, nil, 0)
		if err != nil {
			if strings.Contains(err.Error(), "would") {
				c.Check(R, fmt.Sprintf("qr.iterateModules/order/v%d", v), prod.Pos(), false, "the ISO placement order, then the end", err.Error())
				continue
			}
			notJudged(err.Error())
			return
		}
		// reference order
		var want [][2]int64
		up := true
		for x := dim - 1; x > 0; x -= 2 {
			if x == 6 {
				x--
			}
			for i := int64(0); i < dim; i++ {
				y := i
				if up {
					y = dim - 1 - i
				}
				want = append(want, [2]int64{x, y}, [2]int64{x - 1, y})
			}
			up = !up
		}
		ok, first := len(want) == len(fo.sent), -1
		for i := 0; i < len(want) && i < len(fo.sent); i++ {
			if want[i] != fo.sent[i] {
				ok, first = false, i
				break
			}
		}
		found := fmt.Sprintf("%d positions in ISO order", len(fo.sent))
		if !ok && first >= 0 {
			found = fmt.Sprintf("position #%d is %v, ISO: %v", first, fo.sent[first], want[first])
		} else if !ok {
			found = fmt.Sprintf("%d positions, ISO: %d", len(fo.sent), len(want))
		}
		c.Check(R, fmt.Sprintf("qr.iterateModules/order/v%d", v), prod.Pos(), ok, fmt.Sprintf("%d positions in ISO order", len(want)), found)
	}
}

func init() {
	register("C01", ruleQRZigzag)
}

// L6: the length accessor every encoder sizes its symbol with.
func ruleBitListLen(c *Ctx) {
	const R = "L6-BITLIST-LEN"
	c.Doc(R, "utils.(*BitList).Len returns the bit count (the field AddBit increments, L2), not the capacity of the word slice")
	c.Floor(R, 1)
	fn := c.theFunc(R, "utils.(*BitList).Len")
	if fn == nil {
		return
	}
	n := NewNormer(c.P)
	n.BindParams(fn, "bl")
	for i, ret := range returnsOf(fn) {
		c.expectPoly(R, fmt.Sprintf("utils.(*BitList).Len/return#%d", i+1), ret.Pos(), n, ret.Results[0], "bl.count")
	}
}

func init() {
	register("C18", ruleBitListLen)
}

// The image accessors (K2-K5: At reads the bit the encoder set, bounds, metadata, content) are what a
// reader of the symbol sees: they are necessary conditions of every round-trip property as well.
func init() {
	for _, p := range []string{"C01", "C02", "C03", "C04", "C05", "C06", "C07", "C08"} {
		register(p, ruleImageMethods)
	}
}

// Z9: the code-set look-ahead answers "use set A" only on evidence about the characters.
func ruleC128LookaheadEvidence(c *Ctx) {
	const R = "Z9-C128-LOOKAHEAD-EVIDENCE"
	c.Doc(R, "code128.shouldUseATable / shouldUseCTable: every path that answers true has tested the upcoming characters (a positive table-membership or digit test lies on the path); the current code set alone never decides - a character that set A cannot express must not be routed to set A because the encoder happens to be in A")
	c.Floor(R, 1)
	for _, name := range []string{"code128.shouldUseATable", "code128.shouldUseCTable"} {
		fn := c.P.Func(name)
		if fn == nil || len(fn.Params) < 1 {
			continue
		}
		c.Fn(name)
		n := NewNormer(c.P)
		n.BindParams(fn, "next", "cur")
		k := 0
		for _, ret := range returnsOf(fn) {
			reach := n.ReachCond(fn, nil, ret.Block())
			for _, cs := range n.valueCases(fn, nil, ret.Results[0], 0) {
				if kv, ok := cs.val.IsConst(); (!ok || kv != 1) && cs.val.String() != "const:true" {
					continue
				}
				k++
				cond := cAnd(reach, cs.cond)
				cv := &condVars{bases: map[string]map[int64]bool{}, bools: map[string]bool{}}
				collect(cond, cv)
				evidence := false
				for b := range cv.bools {
					if strings.Contains(b, "next") || strings.Contains(b, "Rune") {
						evidence = true
					}
				}
				for b := range cv.bases {
					if strings.Contains(b, "next") {
						evidence = true
					}
				}
				c.Check(R, fmt.Sprintf("%s/true#%d", name, k), ret.Pos(), evidence, "a test of the upcoming characters on the path", cond.String())
			}
		}
		if k == 0 {
			c.Check(R, name+"/true", fn.Pos(), true, "answers true only as the value of a character test", "no constant true")
		}
	}
}

func init() {
	register("C05", ruleC128LookaheadEvidence)
	register("C10", ruleC128LookaheadEvidence)
}
