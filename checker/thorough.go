package main

import (
	"encoding/json"
	"fmt"
	"os"
	"os/exec"
	"path/filepath"
	"sort"
	"strings"
	"sync"

	"golang.org/x/tools/go/callgraph"
	"golang.org/x/tools/go/callgraph/cha"
	"golang.org/x/tools/go/ssa"
)

// thorough = quick + (a) the same rules on a GOARCH=386 load (32-bit int: constant folding and
// normal forms are redone), (b) call-graph coverage report: which functions reachable from the
// exported API carry obligations of this property, (c) rule sensitivity: every seeded change of
// this property kept under /verif/seeded is applied to a scratch copy of /repo's current tree and
// the check must flag it (a survivor is a weakness of the checker, recorded, not a violation).
func thorough(c *Ctx, repo string, extra map[string]interface{}) {
	// (a) 386
	p386, err := Load(repo, "386", canaryOverlay(repo))
	if err != nil {
		c.add(Obligation{Key: "ARCH386/load", Rule: "ARCH386", Construct: "load", Pos: "-", OK: false, Found: err.Error(), Kind: "UNDECIDED", Expected: "the repository loads with GOARCH=386"})
	} else {
		c2 := NewCtx(c.Prop, c.Tier, p386)
		func() {
			defer func() {
				if r := recover(); r != nil {
					c2.add(Obligation{Key: "PANIC/checker386", Rule: "PANIC", Construct: "checker386", OK: false, Found: fmt.Sprint(r), Kind: "UNDECIDED"})
				}
			}()
			for _, r := range propRules[c.Prop] {
				r(c2)
			}
		}()
		want := map[string]bool{}
		for _, o := range c.Obs {
			if !o.Canary {
				want[o.Key] = o.OK
			}
		}
		diff := 0
		n386 := 0
		for _, o := range c2.Obs {
			if o.Canary {
				continue
			}
			n386++
			if ok, seen := want[o.Key]; !seen || ok != o.OK {
				diff++
				o.Key = "ARCH386/" + o.Key
				o.Rule = "ARCH386"
				o.OK = false
				o.Found = "verdict differs under GOARCH=386: " + o.Found
				c.add(o)
			}
		}
		c.Check("ARCH386", "same-verdicts", 0, diff == 0 && n386 == len(want), fmt.Sprintf("%d obligations with identical verdicts", len(want)), fmt.Sprintf("%d obligations, %d differ", n386, diff))
		extra["configs"] = []string{"GOARCH=" + defaultArch(), "GOARCH=386"}
	}

	// (b) coverage over the call graph
	cg := cha.CallGraph(c.P.SSA)
	reach := map[*ssa.Function]bool{}
	var stack []*callgraph.Node
	for _, fn := range c.P.Funcs {
		if fn.Parent() == nil && fn.Object() != nil && fn.Object().Exported() && fn.Signature.Recv() == nil {
			if nd := cg.Nodes[fn]; nd != nil {
				stack = append(stack, nd)
			}
		}
	}
	for len(stack) > 0 {
		nd := stack[len(stack)-1]
		stack = stack[:len(stack)-1]
		if reach[nd.Func] {
			continue
		}
		reach[nd.Func] = true
		for _, e := range nd.Out {
			if isRepoFunc(e.Callee.Func) {
				stack = append(stack, e.Callee)
			}
		}
	}
	nReach := 0
	var uncovered []string
	for _, fn := range c.P.Funcs {
		if reach[fn] {
			nReach++
		}
	}
	for f := range c.funcs {
		_ = f
	}
	extra["reachable_functions"] = nReach
	extra["functions_with_obligations"] = len(c.funcs)
	_ = uncovered

	// (c) sensitivity on the seeded changes of this property
	verifDir := verifRoot()
	dirs, _ := filepath.Glob(filepath.Join(verifDir, "seeded", "*"))
	sort.Strings(dirs)
	type res struct {
		id     string
		status string
		benign bool
	}
	var mu sync.Mutex
	var results []res
	sem := make(chan struct{}, 4)
	var wg sync.WaitGroup
	for _, d := range dirs {
		b, err := os.ReadFile(filepath.Join(d, "meta.json"))
		if err != nil {
			continue
		}
		var meta struct {
			Property string `json:"property"`
			Kind     string `json:"kind"`
		}
		json.Unmarshal(b, &meta)
		if meta.Property != c.Prop {
			continue
		}
		wg.Add(1)
		go func(d string, benign bool) {
			defer wg.Done()
			sem <- struct{}{}
			defer func() { <-sem }()
			st := runOnVariant(repo, verifDir, d, c.Prop)
			mu.Lock()
			results = append(results, res{filepath.Base(d), st, benign})
			mu.Unlock()
		}(d, meta.Kind == "benign")
	}
	wg.Wait()
	sort.Slice(results, func(i, j int) bool { return results[i].id < results[j].id })
	killed, total, silent, benign, skipped := 0, 0, 0, 0, 0
	survivors, alarms := []string{}, []string{}
	for _, r := range results {
		isBenign := r.benign
		switch {
		case r.status == "skipped":
			skipped++
		case isBenign:
			benign++
			if r.status == "silent" {
				silent++
			} else {
				alarms = append(alarms, r.id)
			}
		default:
			total++
			if r.status == "flagged" {
				killed++
			} else {
				survivors = append(survivors, r.id)
			}
		}
	}
	extra["mutants_total"] = total
	extra["mutants_killed"] = killed
	extra["mutants_survived"] = survivors
	extra["benign_total"] = benign
	extra["benign_silent"] = silent
	extra["benign_alarms"] = alarms
	extra["variants_skipped_patch_does_not_apply"] = skipped
	c.Notes = append(c.Notes, fmt.Sprintf("sensitivity: %d/%d seeded changes of %s flagged; %d/%d behaviour-preserving variants silent; %d skipped (patch does not apply to the current tree)", killed, total, c.Prop, silent, benign, skipped))
}

func defaultArch() string {
	out, err := exec.Command("go", "env", "GOARCH").Output()
	if err != nil {
		return "?"
	}
	return strings.TrimSpace(string(out))
}

func verifRoot() string {
	exe, _ := os.Executable()
	return filepath.Dir(filepath.Dir(exe))
}

// runOnVariant copies the repo's current working tree to a scratch directory (outside /repo and
// /verif), applies the variant's patch, runs this checker on it and removes the scratch copy.
func runOnVariant(repo, verifDir, variantDir, prop string) string {
	scratch, err := os.MkdirTemp("", "verif-variant-")
	if err != nil {
		return "skipped"
	}
	defer os.RemoveAll(scratch)
	src := filepath.Join(scratch, "src")
	if out, err := exec.Command("rsync", "-a", "--exclude", ".git", repo+"/", src+"/").CombinedOutput(); err != nil {
		_ = out
		return "skipped"
	}
	patch := filepath.Join(variantDir, "patch.diff")
	cmd := exec.Command("git", "apply", "--unsafe-paths", "--directory", src, patch)
	cmd.Dir = scratch
	if _, err := cmd.CombinedOutput(); err != nil {
		cmd = exec.Command("patch", "-p1", "-s", "-i", patch)
		cmd.Dir = src
		if _, err2 := cmd.CombinedOutput(); err2 != nil {
			return "skipped"
		}
	}
	vdir := filepath.Join(scratch, "verif")
	os.MkdirAll(filepath.Join(vdir, "evidence"), 0o755)
	if b, err := os.ReadFile(filepath.Join(verifDir, "known_findings.txt")); err == nil {
		os.WriteFile(filepath.Join(vdir, "known_findings.txt"), b, 0o644)
	}
	exe, _ := os.Executable()
	run := exec.Command(exe, "-prop", prop, "-tier", "quick", "-repo", src, "-verif", vdir)
	run.Env = append(os.Environ(), "VERIF_TIER=quick")
	out, _ := run.CombinedOutput()
	if strings.Contains(string(out), "VIOLATION property="+prop) {
		return "flagged"
	}
	if run.ProcessState != nil && run.ProcessState.ExitCode() == 0 {
		return "silent"
	}
	return "flagged"
}
