package main

func thorough(c *Ctx, repo string, extra map[string]interface{}) {
}
