package main

import (
	"fmt"
)

func bchRemainder(data, dataBits, gen, genBits int) int {
	v := data << uint(genBits-1)
	for i := dataBits + genBits - 2; i >= genBits-1; i-- {
		if v>>uint(i)&1 == 1 {
			v ^= gen << uint(i-(genBits-1))
		}
	}
	return v
}

// qrTotalCodewords: (modules - function modules) / 8 from the symbol geometry.
func qrTotalCodewords(v int) int {
	dim := 17 + 4*v
	total := dim * dim
	finder := 3 * 64 // 3 finder patterns incl. separators (8x8)
	align := 0
	if v >= 2 {
		n := v/7 + 2
		align = (n*n - 3) * 25
		// alignment patterns overlapping the timing patterns
		timingOverlap := (n - 2) * 2 * 5
		align -= timingOverlap
	}
	timing := 2 * (dim - 16)
	format := 31 // 2 x 15 format bits + dark module
	version := 0
	if v >= 7 {
		version = 36
	}
	return (total - finder - align - timing - format - version) / 8
}

func ruleQRTables(c *Ctx) {
	// Q1 format words
	const R1 = "Q1-QR-FORMAT"
	c.Doc(R1, "qr.formatInfos[level][mask] (32 words) = BCH(15,5) of (indicator<<3|mask) with generator 0x537, XOR 0x5412, MSB first; indicators L=01 M=00 Q=11 H=10")
	c.Floor(R1, 32)
	levels := []string{"L", "M", "Q", "H"}
	indicator := map[string]int{"L": 1, "M": 0, "Q": 3, "H": 2}
	lv := map[string]int64{}
	for i, l := range levels {
		v, ok := c.P.ConstInt("qr", l)
		if !ok {
			c.Anchor(R1, "qr."+l, "error-correction level constant not found")
			return
		}
		c.Check("Q4-QR-CONSTS", "qr."+l, c.P.PkgConst("qr", l).Pos(), v == int64(i), fmt.Sprint(i), fmt.Sprint(v))
		lv[l] = v
	}
	fi, err := c.P.EvalVar("qr", "formatInfos")
	if err != nil {
		c.Anchor(R1, "qr.formatInfos", err.Error())
	} else {
		c.Fn("qr.formatInfos")
		for _, l := range levels {
			row := fi.MapGetInt(lv[l])
			for m := 0; m < 8; m++ {
				key := fmt.Sprintf("qr.formatInfos[%s][%d]", l, m)
				if row == nil || row.MapGetInt(int64(m)) == nil {
					c.Check(R1, key, fi.Pos, false, "entry present", "missing")
					continue
				}
				e := row.MapGetInt(int64(m))
				got, ok := e.Bits()
				if !ok {
					c.Undecided(R1, key, e.Pos, "not a []bool literal")
					continue
				}
				c.Count["table_entries"]++
				data := indicator[l]<<3 | m
				word := (data<<10 | bchRemainder(data, 5, 0x537, 11)) ^ 0x5412
				want := intBits(int64(word), 15)
				c.Check(R1, key, e.Pos, got == want, want, got)
			}
			if row != nil && row.Entries() != 8 {
				c.Check(R1, fmt.Sprintf("qr.formatInfos[%s]/len", l), row.Pos, false, "8 masks", fmt.Sprint(row.Entries()))
			}
		}
		if fi.Entries() != 4 {
			c.Check(R1, "qr.formatInfos/len", fi.Pos, false, "4 levels", fmt.Sprint(fi.Entries()))
		}
	}

	// Q2 version words
	const R2 = "Q2-QR-VERSION"
	c.Doc(R2, "qr.versionInfoBitsByVersion: keys exactly 7..40, value = BCH(18,6) of the version with generator 0x1F25, MSB first")
	c.Floor(R2, 34)
	vi, err := c.P.EvalVar("qr", "versionInfoBitsByVersion")
	if err != nil {
		c.Anchor(R2, "qr.versionInfoBitsByVersion", err.Error())
	} else {
		for v := 7; v <= 40; v++ {
			key := fmt.Sprintf("qr.versionInfoBitsByVersion[%d]", v)
			e := vi.MapGetInt(int64(v))
			if e == nil {
				c.Check(R2, key, vi.Pos, false, "entry present", "missing")
				continue
			}
			got, ok := e.Bits()
			if !ok {
				c.Undecided(R2, key, e.Pos, "not a []bool literal")
				continue
			}
			c.Count["table_entries"]++
			want := intBits(int64(v<<12|bchRemainder(v, 6, 0x1F25, 13)), 18)
			c.Check(R2, key, e.Pos, got == want, want, got)
		}
		for _, e := range vi.Map {
			if e.K.Kind != VInt || e.K.I < 7 || e.K.I > 40 {
				c.Check(R2, "qr.versionInfoBitsByVersion/extra-key", e.K.Pos, false, "keys 7..40 only (versions 1..6 carry no version information)", e.K.String())
			}
		}
	}

	// Q3 block table
	const R3 = "Q3-QR-BLOCKS"
	c.Doc(R3, "qr.versionInfos: 160 rows ordered version 1..40 x L,M,Q,H; each row equals ISO 18004 Table 9; sum of blocks*(data+ecc) equals the codeword count implied by the symbol geometry; group 2 holds one more data codeword per block than group 1 (or is absent)")
	c.Floor(R3, 160)
	tbl, err := c.P.EvalVar("qr", "versionInfos")
	if err != nil {
		c.Anchor(R3, "qr.versionInfos", err.Error())
	} else {
		c.Fn("qr.versionInfos")
		if len(tbl.List) != 160 {
			c.Check(R3, "qr.versionInfos/len", tbl.Pos, false, "160 rows", fmt.Sprint(len(tbl.List)))
		}
		for i, row := range tbl.List {
			if i >= 160 {
				break
			}
			ref := isoQRBlocks[i]
			key := fmt.Sprintf("qr.versionInfos[v%d-%s]", ref[0], levels[ref[1]])
			f := func(n string) int {
				if v := row.Field(n); v != nil && v.Kind == VInt {
					return int(v.I)
				}
				return -1
			}
			got := [7]int{f("Version"), f("Level"), f("ErrorCorrectionCodewordsPerBlock"), f("NumberOfBlocksInGroup1"), f("DataCodeWordsPerBlockInGroup1"), f("NumberOfBlocksInGroup2"), f("DataCodeWordsPerBlockInGroup2")}
			c.Count["table_entries"]++
			want := ref
			want[1] = int(lv[levels[ref[1]]])
			ok := got == want
			why := fmt.Sprint(got)
			total := got[3]*(got[4]+got[2]) + got[5]*(got[6]+got[2])
			if ok && total != qrTotalCodewords(got[0]) {
				ok = false
				why += fmt.Sprintf(" (total codewords %d, geometry gives %d)", total, qrTotalCodewords(got[0]))
			}
			if ok && got[5] != 0 && got[6] != got[4]+1 {
				ok = false
				why += " (group 2 is not group 1 + 1)"
			}
			c.Check(R3, key, row.Pos, ok, fmt.Sprint(want), why)
		}
	}

	// Q4 alphabet and mode indicators
	const R4 = "Q4-QR-CONSTS"
	c.Doc(R4, "alphanumeric alphabet = the 45 characters of ISO 18004 Table 5 in order; mode indicators numeric=1 alphanumeric=2 byte=4 kanji=8; level constants L,M,Q,H = 0..3 (index of the table)")
	c.Floor(R4, 9)
	cs, ok := c.P.ConstString("qr", "charSet")
	if !ok {
		c.Anchor(R4, "qr.charSet", "constant not found")
	} else {
		want := "0123456789ABCDEFGHIJKLMNOPQRSTUVWXYZ $%*+-./:"
		c.Check(R4, "qr.charSet", c.P.PkgConst("qr", "charSet").Pos(), cs == want, fmt.Sprintf("%q", want), fmt.Sprintf("%q", cs))
	}
	for _, m := range []struct {
		n string
		v int64
	}{{"numericMode", 1}, {"alphaNumericMode", 2}, {"byteMode", 4}, {"kanjiMode", 8}} {
		got, ok := c.P.ConstInt("qr", m.n)
		if !ok {
			c.Anchor(R4, "qr."+m.n, "constant not found")
			continue
		}
		c.Check(R4, "qr."+m.n, c.P.PkgConst("qr", m.n).Pos(), got == m.v, fmt.Sprint(m.v), fmt.Sprint(got))
	}
}
