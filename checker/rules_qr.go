package main

import (
	"fmt"
	"go/token"
	"go/types"
	"sort"
	"strings"

	"golang.org/x/tools/go/ssa"
)

// returnAt finds the unique Return of fn reached under the given assignment of comparison bases
// and boolean atoms. Conditions mentioning anything else make the table undecided.
func returnAt(n *Normer, fn *ssa.Function, bv map[string]int64, bb map[string]bool) (*ssa.Return, error) {
	var hit *ssa.Return
	for _, ret := range returnsOf(fn) {
		cond := n.ReachCond(fn, nil, ret.Block())
		cv := &condVars{bases: map[string]map[int64]bool{}, bools: map[string]bool{}}
		collect(cond, cv)
		for b := range cv.bases {
			if _, ok := bv[b]; !ok {
				return nil, fmt.Errorf("return at %s depends on %s", n.P.Pos(ret.Pos()), b)
			}
		}
		for b := range cv.bools {
			if _, ok := bb[b]; !ok {
				return nil, fmt.Errorf("return at %s depends on %s", n.P.Pos(ret.Pos()), b)
			}
		}
		if evalCond(cond, bv, bb) {
			if hit != nil {
				return nil, fmt.Errorf("two returns reachable")
			}
			hit = ret
		}
	}
	if hit == nil {
		return nil, fmt.Errorf("no return reachable")
	}
	return hit, nil
}

// loopCounter: a header phi with a constant entry value and a +1 back edge.
func loopCounter(header *ssa.BasicBlock) (*ssa.Phi, int64, bool) {
	for _, ins := range header.Instrs {
		phi, ok := ins.(*ssa.Phi)
		if !ok {
			break
		}
		if !isIntType(phi.Type()) || len(phi.Edges) < 2 {
			continue
		}
		var init int64
		nInit, nStep, bad := 0, 0, false
		for i, e := range phi.Edges {
			if header.Dominates(header.Preds[i]) {
				if bo, ok := e.(*ssa.BinOp); ok && bo.Op == token.ADD && bo.X == phi {
					if k, ok := constInt(bo.Y); ok && k == 1 {
						nStep++
						continue
					}
				}
				bad = true
			} else if k, ok := constInt(e); ok {
				init = int64(k)
				nInit++
			} else {
				bad = true
			}
		}
		if !bad && nInit == 1 && nStep >= 1 {
			return phi, init, true
		}
	}
	return nil, 0, false
}

// loopIndex: the value that plays the role of the loop index inside the body and its first
// value: the phi itself for `for i := k; ...; i++`, the incremented value for range loops
// (go/ssa rotates them: phi starts at -1 and the body uses phi+1).
func loopIndex(header *ssa.BasicBlock) (ssa.Value, *ssa.Phi, int64, bool) {
	phi, init, ok := loopCounter(header)
	if !ok {
		return nil, nil, 0, false
	}
	if init == -1 {
		for _, r := range *phi.Referrers() {
			if bo, ok := r.(*ssa.BinOp); ok && bo.Op == token.ADD && bo.X == ssa.Value(phi) && bo.Block() == header {
				if k, ok := constInt(bo.Y); ok && k == 1 {
					return bo, phi, 0, true
				}
			}
		}
	}
	return phi, phi, init, true
}

func ruleQRFormulas(c *Ctx) {
	// ---- Q8 character count indicator widths
	const R8 = "Q8-QR-CHARCOUNT"
	c.Doc(R8, "qr.(*versionInfo).charCountBits as a decision table (mode x version class) equals ISO 18004 Table 3: numeric 10/12/14, alphanumeric 9/11/13, byte 8/16/16, kanji 8/10/12 for versions 1-9 / 10-26 / 27-40")
	c.Floor(R8, 24)
	if fn := c.theFunc(R8, "qr.(*versionInfo).charCountBits"); fn != nil {
		n := NewNormer(c.P)
		n.BindParams(fn, "vi", "m")
		iso := map[int64][3]int64{1: {10, 12, 14}, 2: {9, 11, 13}, 4: {8, 16, 16}, 8: {8, 10, 12}}
		for _, mode := range []int64{1, 2, 4, 8} {
			for _, v := range []int64{1, 9, 10, 26, 27, 40} {
				cls := 0
				if v >= 10 {
					cls = 1
				}
				if v >= 27 {
					cls = 2
				}
				key := fmt.Sprintf("qr.charCountBits/mode%d/v%d", mode, v)
				ret, err := returnAt(n, fn, map[string]int64{"m": mode, "vi.Version": v}, nil)
				var got int64
				ok := false
				if err == nil {
					got, ok = n.Norm(ret.Results[0]).IsConst()
				}
				if !ok {
					// the widths kept in a package-level table: read it at this mode and version class
					mp := fn.Params[1]
					delete(n.Bind, mp)
					n.env = append(n.env, map[ssa.Value]Poly{mp: pConst(mode)})
					savedFold := n.FoldTables
					n.FoldTables = true
					at := map[string]int64{"m": mode, "vi.Version": v}
					rets := []*ssa.Return{ret}
					if err != nil {
						// (also whether the mode is in the table at all decides which return is taken)
						rets = nil
						for _, r := range returnsOf(fn) {
							rc := n.ReachCond(fn, nil, r.Block())
							cv := &condVars{bases: map[string]map[int64]bool{}, bools: map[string]bool{}}
							collect(rc, cv)
							if len(cv.bools) == 0 && evalCond(rc, at, nil) {
								rets = append(rets, r)
							}
						}
					}
					if len(rets) == 1 {
						ret, err = rets[0], nil
						for _, cs := range n.valueCases(fn, nil, ret.Results[0], 0) {
							if k, isC := cs.val.IsConst(); isC && evalCond(cs.cond, at, nil) {
								got, ok = k, true
							}
						}
					}
					n.FoldTables = savedFold
					n.env = n.env[:len(n.env)-1]
					n.Bind[mp] = "m"
				}
				if err != nil {
					c.Undecided(R8, key, fn.Pos(), err.Error())
					continue
				}
				c.Check(R8, key, ret.Pos(), ok && got == iso[mode][cls], fmt.Sprint(iso[mode][cls]), n.Norm(ret.Results[0]).String())
			}
		}
	}

	// ---- Q6 mask patterns
	const R6 = "Q6-QR-MASKS"
	c.Doc(R6, "qr.setMasked: for mask k the module is inverted exactly when ISO 18004 mask condition k holds at (row y, column x); the result is written at (x, y)")
	c.Floor(R6, 9)
	if fn := c.theFunc(R6, "qr.setMasked"); fn != nil && len(fn.Params) == 5 {
		n := NewNormer(c.P)
		n.BindParams(fn, "x", "y", "val", "mask", "set")
		iso := []string{
			"(y+x)%2 == 0", "y%2 == 0", "x%3 == 0", "(y+x)%3 == 0", "(y/2+x/3)%2 == 0",
			"(y*x)%2+(y*x)%3 == 0", "((y*x)%2+(y*x)%3)%2 == 0", "((y+x)%2+(y*x)%3)%2 == 0",
		}
		var setCall *ssa.Call
		eachInstr(fn, func(b *ssa.BasicBlock, ins ssa.Instruction) {
			if call, ok := ins.(*ssa.Call); ok && call.Common().Value == ssa.Value(fn.Params[4]) {
				setCall = call
			}
		})
		if setCall == nil {
			c.Undecided(R6, "qr.setMasked/set", fn.Pos(), "no call of the set parameter")
		} else {
			c.expectPoly(R6, "qr.setMasked/set-x", setCall.Pos(), n, setCall.Common().Args[0], "x")
			c.expectPoly(R6, "qr.setMasked/set-y", setCall.Pos(), n, setCall.Common().Args[1], "y")
			// the written value as a condition over (val, x, y) for each mask number k: it must be
			// val XOR (ISO condition k) - however the selection is written (a switch over the mask with
			// one xor per arm, or one test of a helper that evaluates the mask condition)
			maskP := fn.Params[3]
			for k := int64(0); k < 8; k++ {
				key := fmt.Sprintf("qr.setMasked/mask%d", k)
				m := NewNormer(c.P)
				m.Bind[fn.Params[0]], m.Bind[fn.Params[1]], m.Bind[fn.Params[2]] = "x", "y", "val"
				m.env = append(m.env, map[ssa.Value]Poly{maskP: pConst(k)})
				got := m.CondOf(setCall.Common().Args[2])
				isoC := MustRefCond(iso[k])
				val := &Cond{Kind: CBool, Name: "val"}
				want := cOr(cAnd(val, cNot(isoC)), cAnd(cNot(val), isoC))
				c.expectCondC(R6, key, setCall.Pos(), got, want)
			}
		}
	}

	// ---- Q7 format and version information coordinates
	const R7 = "Q7-QR-INFOCOORDS"
	c.Doc(R7, "qr.drawFormatInfo writes format bit i (MSB first) at the 2x15 ISO positions (expressed in dim); qr.drawVersionInfo writes bit 17-i at (dim-11+i%3, i/3) and transposed; the dark module is set at (8, dim-8)")
	c.Floor(R7, 33)
	if fn := c.theFunc(R7, "qr.drawFormatInfo"); fn != nil {
		// roles by use and by the data flow from render: set = the callback parameter, mask = the int
		// parameter compared with -1, vi / level / dim = whatever the call sites in render agree on
		n := NewNormer(c.P)
		var setP *ssa.Parameter
		for _, p := range fn.Params {
			if _, isFn := p.Type().Underlying().(*types.Signature); isFn {
				setP = p
				n.Bind[p] = "set"
			}
			if namedTypeName(p.Type()) == "qr.versionInfo" {
				n.Bind[p] = "vi"
			}
		}
		eachInstr(fn, func(b *ssa.BasicBlock, ins ssa.Instruction) {
			if bo, ok := ins.(*ssa.BinOp); ok && (bo.Op == token.EQL || bo.Op == token.NEQ) {
				if p, isP := bo.X.(*ssa.Parameter); isP && isIntType(p.Type()) {
					if k, isK := constInt(bo.Y); isK && k == -1 {
						n.Bind[p] = "mask"
					}
				}
			}
		})
		if render := c.P.Func("qr.render"); render != nil {
			n.Root = render
			for _, p := range render.Params {
				if namedTypeName(p.Type()) == "qr.versionInfo" {
					n.Bind[p] = "vi"
				}
			}
		}
		n.NoInline["qr.(*versionInfo).modulWidth"] = true
		n.AtomAlias["call:qr.(*versionInfo).modulWidth(vi)"] = "dim"
		if setP == nil {
			c.Undecided(R7, "qr.drawFormatInfo/set", fn.Pos(), "no callback parameter")
			return
		}
		want := map[string]bool{}
		first := [][2]string{{"0", "8"}, {"1", "8"}, {"2", "8"}, {"3", "8"}, {"4", "8"}, {"5", "8"}, {"7", "8"}, {"8", "8"}, {"8", "7"}, {"8", "5"}, {"8", "4"}, {"8", "3"}, {"8", "2"}, {"8", "1"}, {"8", "0"}}
		second := [][2]string{{"8", "dim-1"}, {"8", "dim-2"}, {"8", "dim-3"}, {"8", "dim-4"}, {"8", "dim-5"}, {"8", "dim-6"}, {"8", "dim-7"}, {"dim-8", "8"}, {"dim-7", "8"}, {"dim-6", "8"}, {"dim-5", "8"}, {"dim-4", "8"}, {"dim-3", "8"}, {"dim-2", "8"}, {"dim-1", "8"}}
		for i := 0; i < 15; i++ {
			want[fmt.Sprintf("(%s,%s)<-bit%d", MustRef(first[i][0]), MustRef(first[i][1]), i)] = true
			want[fmt.Sprintf("(%s,%s)<-bit%d", MustRef(second[i][0]), MustRef(second[i][1]), i)] = true
		}
		got := map[string]ssa.Instruction{}
		var fmtVal ssa.Value
		n.FoldTables = true
		// the module writes may sit in an unexported helper that receives the word and the callback
		placeFn := fn
		direct := false
		eachInstr(fn, func(b *ssa.BasicBlock, ins ssa.Instruction) {
			if call, ok := ins.(*ssa.Call); ok && call.Common().Value == ssa.Value(setP) {
				direct = true
			}
		})
		if !direct {
			eachInstr(fn, func(b *ssa.BasicBlock, ins ssa.Instruction) {
				call, ok := ins.(*ssa.Call)
				if !ok || calleeOf(call) == nil || !isRepoFunc(calleeOf(call)) || calleeOf(call).Blocks == nil || placeFn != fn {
					return
				}
				for i, a := range call.Common().Args {
					if a == ssa.Value(setP) && i < len(calleeOf(call).Params) {
						placeFn = calleeOf(call)
						setP = placeFn.Params[i]
						n.Bind[setP] = "set"
						n.Ctx = append(append([]ssa.CallInstruction{}, n.Ctx...), call)
						c.Fn(c.P.FuncName(placeFn))
					}
				}
			})
		}
		eachInstr(placeFn, func(b *ssa.BasicBlock, ins ssa.Instruction) {
			call, ok := ins.(*ssa.Call)
			if !ok || call.Common().Value != ssa.Value(setP) {
				return
			}
			// a call inside constant-trip loops stands for one call per iteration
			insts, ok := n.loopInstances(b)
			if !ok {
				c.Undecided(R7, "qr.drawFormatInfo/loop@"+c.P.Pos(call.Pos()), call.Pos(), "set call inside a loop whose iterations cannot be enumerated")
				return
			}
			a := call.Common().Args
			for _, env := range insts {
				n.env = append(n.env, env)
				if lh := enclosingLoopHeader(b); lh != nil && len(lh.Succs) == 2 && lh.Succs[0] != b {
					// a write that is guarded inside the loop (`if i < 7 {...} else {...}`) happens in the
					// iterations that pass the guard
					rc := n.ReachCond(placeFn, lh.Succs[0], b)
					if eq, _ := CondEquivalent(rc, cFalse); eq {
						n.env = n.env[:len(n.env)-1]
						continue
					}
					if eq, _ := CondEquivalent(rc, cTrue); !eq {
						c.Undecided(R7, "qr.drawFormatInfo/guard@"+c.P.Pos(call.Pos()), call.Pos(), "set call under a condition that the iteration does not decide: "+rc.String())
						n.env = n.env[:len(n.env)-1]
						continue
					}
				}
				idx := "?"
				if ld, ok := a[2].(*ssa.UnOp); ok {
					if ia, ok := ld.X.(*ssa.IndexAddr); ok {
						if k, ok := n.Norm(ia.Index).IsConst(); ok {
							idx = fmt.Sprint(k)
						}
						fmtVal = ia.X
					}
				}
				key := fmt.Sprintf("(%s,%s)<-bit%s", n.Norm(a[0]), n.Norm(a[1]), idx)
				if _, dup := got[key]; dup {
					key += "#again"
				}
				got[key] = call
				n.env = n.env[:len(n.env)-1]
			}
		})
		n.FoldTables = false
		var keys []string
		for k := range want {
			keys = append(keys, k)
		}
		sort.Strings(keys)
		for _, k := range keys {
			_, ok := got[k]
			c.Check(R7, "qr.drawFormatInfo/"+k, fn.Pos(), ok, "set"+k, map[bool]string{true: "present", false: "missing"}[ok])
		}
		for k, ins := range got {
			if !want[k] {
				c.Check(R7, "qr.drawFormatInfo/extra"+k, ins.Pos(), false, "only the 30 ISO positions", "set"+k)
			}
		}
		// C12: the word drawn is formatInfos[vi.Level][usedMask] (or the all-true occupancy mask for -1)
		if phi, ok := fmtVal.(*ssa.Phi); ok {
			found := false
			for _, e := range phi.Edges {
				s := n.Norm(e).asAtom()
				if s == "idx(idx(global:qr.formatInfos,vi.Level),mask)" || s == "global:qr.formatInfos[vi.Level][mask]" || s == "idx(global:qr.formatInfos[vi.Level],mask)" || s == "idx(global:qr.formatInfos,vi.Level)[mask]" {
					found = true
				}
			}
			c.Check("C12-QR-LEVEL", "qr.drawFormatInfo/word", phi.Pos(), found, "formatInfos[vi.Level][usedMask]", fmt.Sprint(phi.Edges))
		} else if fmtVal != nil {
			// no special case in this function (the occupancy pass is a function of its own): the word is
			// the table entry itself
			s := canonAccess(n.Norm(fmtVal).asAtom())
			if _, isP := fmtVal.(*ssa.Parameter); isP {
				for _, p := range fn.Params {
					if isIntType(p.Type()) {
						n.Bind[p] = "mask"
					}
				}
				s = canonAccess(n.Norm(fmtVal).asAtom())
			}
			c.Check("C12-QR-LEVEL", "qr.drawFormatInfo/word", fmtVal.Pos(), s == "global:qr.formatInfos[vi.Level][mask]", "formatInfos[vi.Level][usedMask] selected unless mask == -1", s)
		}
	}
	if fn := c.theFunc(R7, "qr.drawVersionInfo"); fn != nil {
		n := NewNormer(c.P)
		var setP *ssa.Parameter
		for _, p := range fn.Params {
			if _, isFn := p.Type().Underlying().(*types.Signature); isFn {
				setP = p
				n.Bind[p] = "set"
			}
			if namedTypeName(p.Type()) == "qr.versionInfo" {
				n.Bind[p] = "vi"
			}
		}
		if render := c.P.Func("qr.render"); render != nil {
			n.Root = render // other parameters (version, dimension) resolve through the call in render
			for _, p := range render.Params {
				if namedTypeName(p.Type()) == "qr.versionInfo" {
					n.Bind[p] = "vi"
				}
			}
		}
		if setP == nil {
			c.Undecided(R7, "qr.drawVersionInfo/set", fn.Pos(), "no callback parameter")
			return
		}
		var bitsV ssa.Value
		eachInstr(fn, func(b *ssa.BasicBlock, ins ssa.Instruction) {
			if lk, ok := ins.(*ssa.Lookup); ok && !isStringType(lk.X.Type()) {
				c.Check(R7, "qr.drawVersionInfo/key", lk.Pos(), n.Norm(lk.X).asAtom() == "global:qr.versionInfoBitsByVersion" && n.Norm(lk.Index).asAtom() == "vi.Version", "versionInfoBitsByVersion[vi.Version]", n.Norm(lk.X).asAtom()+"["+n.Norm(lk.Index).asAtom()+"]")
				if !lk.CommaOk {
					bitsV = lk // a missing entry reads as the nil slice: nothing is drawn
				}
				for _, r := range *lk.Referrers() {
					if ex, ok := r.(*ssa.Extract); ok && ex.Index == 0 {
						bitsV = ex
					}
				}
			}
		})
		if bitsV != nil {
			n.Bind[bitsV] = "bits"
		}
		var calls []*ssa.Call
		eachInstr(fn, func(b *ssa.BasicBlock, ins ssa.Instruction) {
			if call, ok := ins.(*ssa.Call); ok && call.Common().Value == ssa.Value(setP) {
				calls = append(calls, call)
				if idx, _, _, ok := loopIndex(b.Preds[0]); ok {
					n.Bind[idx] = "i"
				}
			}
		})
		if len(calls) != 2 {
			c.Undecided(R7, "qr.drawVersionInfo/sets", fn.Pos(), fmt.Sprintf("%d set calls, expected 2", len(calls)))
		} else {
			// loop: i from 0 while i < len(bits)
			hdr := calls[0].Block().Preds[0]
			if idx, phi, init, ok := loopIndex(hdr); ok {
				n.Bind[idx] = "i"
				c.Check(R7, "qr.drawVersionInfo/loop-init", phi.Pos(), init == 0, "i starts at 0", fmt.Sprint(init))
				c.expectCond(R7, "qr.drawVersionInfo/loop-cond", phi.Pos(), n.ReachCond(fn, hdr, calls[0].Block()), "i < len(bits)")
			} else if rot, okR := rotatedLoop(enclosingLoopHeader(calls[0].Block())); okR {
				// bottom-tested form (`for i := range n`)
				rh := enclosingLoopHeader(calls[0].Block())
				n.Bind[rot.phi] = "i"
				init, isK := n.Norm(rot.init).IsConst()
				c.Check(R7, "qr.drawVersionInfo/loop-init", rot.phi.Pos(), isK && init == 0, "i starts at 0", n.Norm(rot.init).String())
				w := n.LoopWhile(rh)
				if w == nil {
					c.Undecided(R7, "qr.drawVersionInfo/loop-cond", rot.phi.Pos(), "entry test and continue test of the loop differ")
				} else {
					c.expectCond(R7, "qr.drawVersionInfo/loop-cond", rot.phi.Pos(), cAnd(w, n.ReachCond(fn, rh, calls[0].Block())), "i < len(bits)")
				}
			} else {
				c.Undecided(R7, "qr.drawVersionInfo/loop", fn.Pos(), "no counting loop around the set calls")
			}
			m := map[string]string{"dimv": "4*vi.Version + 17"}
			X, Y := tmpl("{dimv} - 11 + i%3", m), "i/3"
			idx := func(call *ssa.Call) ssa.Value {
				if ld, ok := call.Common().Args[2].(*ssa.UnOp); ok {
					if ia, ok := ld.X.(*ssa.IndexAddr); ok {
						return ia.Index
					}
				}
				return nil
			}
			for k, call := range calls {
				wx, wy := X, Y
				if k == 1 {
					wx, wy = Y, X
				}
				c.expectPoly(R7, fmt.Sprintf("qr.drawVersionInfo/set%d-x", k+1), call.Pos(), n, call.Common().Args[0], wx)
				c.expectPoly(R7, fmt.Sprintf("qr.drawVersionInfo/set%d-y", k+1), call.Pos(), n, call.Common().Args[1], wy)
				if iv := idx(call); iv != nil {
					base := call.Common().Args[2].(*ssa.UnOp).X.(*ssa.IndexAddr).X
					c.Check(R7, fmt.Sprintf("qr.drawVersionInfo/set%d-word", k+1), call.Pos(), n.Norm(base).asAtom() == "bits", "element of the version word", n.Norm(base).asAtom())
					c.expectPoly(R7, fmt.Sprintf("qr.drawVersionInfo/set%d-bit", k+1), call.Pos(), n, iv, "len(bits) - i - 1")
				} else {
					c.Undecided(R7, fmt.Sprintf("qr.drawVersionInfo/set%d-bit", k+1), call.Pos(), "bit argument is not an element of the version word")
				}
			}
		}
	}
	c.Doc("K3-BOUNDS", "Bounds = image.Rect(0,0,w,h): 1D (Len(),1); QR (dimension,dimension) with dimension = 4*version+17; DataMatrix (Columns,Rows); Aztec (size,size); PDF417 (width, Len/width*moduleHeight)")
	if fn := c.theFunc(R7, "qr.(*versionInfo).modulWidth"); fn != nil {
		n := NewNormer(c.P)
		n.BindParams(fn, "vi")
		rets := returnsOf(fn)
		if len(rets) == 1 {
			c.expectPoly("K3-BOUNDS", "qr.(*versionInfo).modulWidth", rets[0].Pos(), n, rets[0].Results[0], "4*vi.Version + 17")
		}
	}

	// ---- Q9 terminator and padding
	const R9 = "Q9-QR-PADDING"
	c.Doc(R9, "qr.addPaddingAndTerminator: up to 4 terminator zero bits while capacity remains; zero bits to the byte boundary; pad bytes 236 and 17 alternating, starting with 236, while capacity remains")
	c.Floor(R9, 5)
	if fn := c.theFunc(R9, "qr.addPaddingAndTerminator"); fn != nil && len(fn.Params) == 2 {
		n := NewNormer(c.P)
		n.BindParams(fn, "bl", "vi")
		m := map[string]string{"cap": "8*(vi.NumberOfBlocksInGroup1*vi.DataCodeWordsPerBlockInGroup1 + vi.NumberOfBlocksInGroup2*vi.DataCodeWordsPerBlockInGroup2)"}
		// loops: identify by the calls in their bodies
		var addBit []*ssa.Call
		addByte := map[int64]*ssa.Call{}
		var padCalls []*ssa.Call // pad byte picked by a computed value (table of the two pad codewords)
		eachInstr(fn, func(b *ssa.BasicBlock, ins ssa.Instruction) {
			call, ok := ins.(*ssa.Call)
			if !ok || calleeOf(call) == nil {
				return
			}
			switch c.P.FuncName(calleeOf(call)) {
			case "utils.(*BitList).AddBit":
				addBit = append(addBit, call)
			case "utils.(*BitList).AddByte":
				if k, ok := n.Norm(call.Common().Args[1]).IsConst(); ok {
					addByte[k] = call
				} else {
					padCalls = append(padCalls, call)
				}
			}
		})
		loopOf := func(b *ssa.BasicBlock) *ssa.BasicBlock { // innermost loop header dominating b with a back edge from a block dominated by it
			for d := b; d != nil; d = d.Idom() {
				for _, p := range d.Preds {
					if d.Dominates(p) && (p == b || reachableWithin(d, b, p)) {
						return d
					}
				}
			}
			return nil
		}
		termOK, alignOK := false, false
		for _, call := range addBit {
			h := loopOf(call.Block())
			if h == nil {
				continue
			}
			if phi, init, ok := loopCounter(h); ok {
				n.Bind[phi] = "i"
				eq, _ := CondEquivalent(n.ReachCond(fn, h, call.Block()), MustRefCond(tmpl("i < 4 && bl.count < {cap}", m)))
				if !eq && init == 0 && terminatorClosedForm(c, n, fn, h, phi, call, tmpl("{cap} - bl.count", m)) {
					// the number of terminator bits computed up front: min(4, capacity - length), one bit per
					// iteration - the same bits as testing the growing length every time
					eq = true
				}
				if eq && init == 0 {
					termOK = true
				} else {
					c.Check(R9, "qr.addPaddingAndTerminator/terminator", call.Pos(), false, "for i := 0; i < 4 && Len < capacity", n.ReachCond(fn, h, call.Block()).String())
				}
				delete(n.Bind, phi)
			} else {
				eq, _ := CondEquivalent(n.ReachCond(fn, h, call.Block()), MustRefCond("bl.count % 8 != 0"))
				if eq {
					alignOK = true
				}
			}
		}
		c.Check(R9, "qr.addPaddingAndTerminator/terminator-loop", fn.Pos(), termOK, "terminator loop: at most 4 zero bits while Len < capacity", fmt.Sprint(termOK))
		c.Check(R9, "qr.addPaddingAndTerminator/align-loop", fn.Pos(), alignOK, "zero bits while Len % 8 != 0", fmt.Sprint(alignOK))
		c236, c17 := addByte[236], addByte[17]
		if tg := padToggle(n, padCalls, loopOf); tg != nil {
			// the pad byte kept in a loop variable that starts at 236 and flips between the two values
			// on every way round: 236, 17, 236, ...
			c.Check(R9, "qr.addPaddingAndTerminator/pad-init", tg.phi.Pos(), tg.first == 236, "starts with 236", fmt.Sprint(tg.first))
			c.Check(R9, "qr.addPaddingAndTerminator/padbytes", tg.phi.Pos(), (tg.first == 236 && tg.other == 17), "pad bytes 236 and 17 only", fmt.Sprintf("%d and %d", tg.first, tg.other))
			rc := n.ReachCond(fn, tg.h, padCalls[0].Block())
			c.expectCond(R9, "qr.addPaddingAndTerminator/pad236-iff", padCalls[0].Pos(), rc, tmpl("bl.count < {cap}", m))
			c.expectCond(R9, "qr.addPaddingAndTerminator/pad17-iff", padCalls[0].Pos(), rc, tmpl("bl.count < {cap}", m))
		} else if len(padCalls) == 1 && len(addByte) == 0 {
			// one AddByte whose argument is a choice (the pad codewords in a table, a selected value)
			call := padCalls[0]
			h := loopOf(call.Block())
			if phi, init, ok := loopCounter(h); ok && h != nil {
				n.Bind[phi] = "i"
				c.Check(R9, "qr.addPaddingAndTerminator/pad-init", phi.Pos(), init == 0, "i starts at 0", fmt.Sprint(init))
				reach := n.ReachCond(fn, h, call.Block())
				var cs []valCase
				for _, c0 := range n.valueCases(fn, h, call.Common().Args[1], 0) {
					cs = append(cs, valCase{c0.val, cAnd(reach, c0.cond)})
				}
				for k, sp := range []edgeSpec{{"236", tmpl("bl.count < {cap} && i%2 == 0", m)}, {"17", tmpl("bl.count < {cap} && i%2 != 0", m)}} {
					key := []string{"qr.addPaddingAndTerminator/pad236-iff", "qr.addPaddingAndTerminator/pad17-iff"}[k]
					var found *Cond
					for _, c0 := range cs {
						if pEqual(c0.val, MustRef(sp.val)) {
							found = c0.cond
						}
					}
					if found == nil {
						c.Check(R9, key, call.Pos(), false, sp.val+" when "+sp.cond, "value never appended")
					} else {
						c.expectCond(R9, key, call.Pos(), found, sp.cond)
					}
				}
				c.Check(R9, "qr.addPaddingAndTerminator/padbytes", call.Pos(), len(cs) == 2, "pad bytes 236 and 17 only", fmt.Sprint(len(cs))+" alternatives")
			} else {
				c.Undecided(R9, "qr.addPaddingAndTerminator/pad-loop", call.Pos(), "pad bytes are not inside a counting loop")
			}
		} else if c236 == nil || c17 == nil || len(addByte) != 2 || len(padCalls) != 0 {
			c.Check(R9, "qr.addPaddingAndTerminator/padbytes", fn.Pos(), false, "pad bytes 236 and 17", fmt.Sprint(len(addByte)))
		} else {
			h := loopOf(c236.Block())
			if phi, init, ok := loopCounter(h); ok && h != nil {
				n.Bind[phi] = "i"
				c.Check(R9, "qr.addPaddingAndTerminator/pad-init", phi.Pos(), init == 0, "i starts at 0", fmt.Sprint(init))
				c.expectCond(R9, "qr.addPaddingAndTerminator/pad236-iff", c236.Pos(), n.ReachCond(fn, h, c236.Block()), tmpl("bl.count < {cap} && i%2 == 0", m))
				c.expectCond(R9, "qr.addPaddingAndTerminator/pad17-iff", c17.Pos(), n.ReachCond(fn, h, c17.Block()), tmpl("bl.count < {cap} && i%2 != 0", m))
			} else {
				c.Undecided(R9, "qr.addPaddingAndTerminator/pad-loop", c236.Pos(), "pad bytes are not inside a counting loop")
			}
		}
	}

	// ---- R5 capacity search
	const R5 = "R5-QR-CAPACITY"
	c.Doc(R5, "qr.findSmallestVersionInfo returns the FIRST row of versionInfos (ascending version) with Level == ecl and 8*totalDataBytes >= dataBits + 4 + charCountBits(mode); nil otherwise")
	c.Floor(R5, 3)
	if fn := c.theFunc(R5, "qr.findSmallestVersionInfo"); fn != nil && len(fn.Params) == 3 {
		n := NewNormer(c.P)
		n.BindParams(fn, "ecl", "mode", "bits")
		// the loop variable: receiver of totalDataBytes
		var vi ssa.Value
		eachInstr(fn, func(b *ssa.BasicBlock, ins ssa.Instruction) {
			if ld, ok := ins.(*ssa.UnOp); ok && ld.Op == token.MUL {
				if _, isIA := ld.X.(*ssa.IndexAddr); isIA && strings.HasPrefix(NewNormer(c.P).Norm(ld).asAtom(), "global:qr.versionInfos[") {
					vi = ld
				}
			}
		})
		if vi == nil {
			c.Undecided(R5, "qr.findSmallestVersionInfo/row", fn.Pos(), "no row of versionInfos is read")
		} else {
			// vi must be the element of versionInfos at the range index
			nn := NewNormer(c.P)
			src := nn.Norm(vi).asAtom()
			c.Check(R5, "qr.findSmallestVersionInfo/table", vi.Pos(), strings.HasPrefix(src, "global:qr.versionInfos["), "element of qr.versionInfos at the loop index", src)
			isRange := false
			if ld, ok := vi.(*ssa.UnOp); ok {
				if ia, ok := ld.X.(*ssa.IndexAddr); ok {
					for _, blk := range fn.Blocks {
						if idx, _, init, ok := loopIndex(blk); ok && idx == ia.Index && init == 0 {
							isRange = true
						}
					}
				}
			}
			c.Check(R5, "qr.findSmallestVersionInfo/ascending", vi.Pos(), isRange, "rows visited in table order from index 0, step 1", fmt.Sprint(isRange))
			n.Bind[vi] = "vi"
			m := map[string]string{"T": "vi.NumberOfBlocksInGroup1*vi.DataCodeWordsPerBlockInGroup1 + vi.NumberOfBlocksInGroup2*vi.DataCodeWordsPerBlockInGroup2"}
			// charCountBits atom: the width is taken for this row and the requested mode (what the helper
			// returns is Q8's subject)
			ccb := "call:qr.(*versionInfo).charCountBits(vi,mode)"
			for _, call := range callsTo(fn, c.P.Func("qr.(*versionInfo).charCountBits")) {
				args := call.Common().Args
				if len(args) == 2 && args[0] == vi && args[1] == ssa.Value(fn.Params[1]) {
					n.Bind[call] = ccb
				}
			}
			accept := cFalse
			for _, ret := range returnsOf(fn) {
				if isNilConst(ret.Results[0]) {
					continue
				}
				c.Check(R5, "qr.findSmallestVersionInfo/returns-row", ret.Pos(), ret.Results[0] == vi, "the row that satisfied the guard", n.Norm(ret.Results[0]).String())
				// the decision of one iteration: from the block that reads the row
				var from *ssa.BasicBlock
				if vb := vi.(ssa.Instruction).Block(); vb.Dominates(ret.Block()) {
					from = vb
				}
				accept = cOr(accept, n.ReachCond(fn, from, ret.Block()))
			}
			want := cAnd(MustRefCond("vi.Level == ecl"), cmpCond(token.GEQ, pScale(MustRef(tmpl("{T}", m)), 8), pAdd(MustRef("bits + 4"), pAtom(ccb), 1)))
			c.expectCondC(R5, "qr.findSmallestVersionInfo/guard", fn.Pos(), accept, want)
		}
	}

	// ---- Q10 drawing order
	const R10 = "Q10-QR-ORDER"
	c.Doc(R10, "qr.render: alignment patterns are drawn after the finder patterns and before anything else marks modules occupied (their overlap test must only see the finder patterns); format info is reserved before data placement")
	c.Floor(R10, 2)
	if fn := c.theFunc(R10, "qr.render"); fn != nil {
		var finder, align, iter *ssa.Call
		var otherWrites []ssa.Instruction
		var setAll *ssa.MakeClosure
		for _, mc := range closuresOf(fn) {
			if mc.Fn.(*ssa.Function).Parent() == fn { // the anonymous setAll; bound-method wrappers have no parent
				setAll = mc
			}
		}
		eachInstr(fn, func(b *ssa.BasicBlock, ins ssa.Instruction) {
			call, ok := ins.(*ssa.Call)
			if !ok {
				return
			}
			if cal := calleeOf(call); cal != nil {
				switch c.P.FuncName(cal) {
				case "qr.drawFinderPatterns":
					finder = call
					return
				case "qr.drawAlignmentPatterns":
					align = call
					return
				case "qr.iterateModules":
					iter = call
					return
				case "qr.drawVersionInfo", "qr.drawFormatInfo":
					otherWrites = append(otherWrites, call)
					return
				}
			}
			if setAll != nil && call.Common().Value == ssa.Value(setAll) {
				otherWrites = append(otherWrites, call)
				return
			}
			// any other routine that is handed the marking function draws function patterns as well
			for _, a := range call.Common().Args {
				if setAll != nil && a == ssa.Value(setAll) {
					otherWrites = append(otherWrites, call)
					return
				}
			}
		})
		if finder == nil || align == nil || iter == nil {
			c.Anchor(R10, "qr.render/calls", "drawFinderPatterns / drawAlignmentPatterns / iterateModules call not found")
		} else {
			c.Check(R10, "qr.render/finder-before-alignment", align.Pos(), dominatesInstr(finder, align), "drawFinderPatterns dominates drawAlignmentPatterns", fmt.Sprint(dominatesInstr(finder, align)))
			bad := ""
			for _, w := range otherWrites {
				if !dominatesInstr(align, w) {
					bad += c.P.Pos(w.Pos()) + " "
				}
			}
			c.Check(R10, "qr.render/alignment-before-other-marks", align.Pos(), bad == "", "every other occupancy write is dominated by the drawAlignmentPatterns call", "not dominated: "+orOK(bad))
		}
	}

	// ---- C12: both group loops of splitToBlocks use the row's ecc count
	const R12 = "C12-QR-LEVEL"
	c.Doc(R12, "the QR level parameter selects the format word (formatInfos[vi.Level][mask]) and both block groups are protected with vi.ErrorCorrectionCodewordsPerBlock check codewords; block g holds DataCodeWordsPerBlockInGroup<g> data codewords and there are NumberOfBlocksInGroup<g> of them")
	c.Floor(R12, 4)
	if fn := c.theFunc(R12, "qr.splitToBlocks"); fn != nil && len(fn.Params) == 2 {
		n := NewNormer(c.P)
		n.BindParams(fn, "data", "vi")
		sites := c.P.deepCallsTo(fn, c.P.Func("qr.(*errorCorrection).calcECC"))
		for k, s := range sites {
			got := n.NormAt(s, s.Ins.(*ssa.Call).Common().Args[2])
			c.Check(R12, fmt.Sprintf("qr.splitToBlocks/calcECC#%d-count", k+1), s.Ins.Pos(), pEqual(got, MustRef("vi.ErrorCorrectionCodewordsPerBlock")), "vi.ErrorCorrectionCodewordsPerBlock", got.String())
		}
		fused := false
		// receive counts: each receive sits in a loop nest bounded by (DataCodeWordsPerBlockInGroup g) inside (NumberOfBlocksInGroup g)
		seenG := map[int]bool{}
		c.P.deepEach(fn, 2, func(s DeepSite) {
			u, ok := s.Ins.(*ssa.UnOp)
			if !ok || u.Op != token.ARROW {
				return
			}
			bounds, idxs := enclosingLoops(n, s)
			matched := 0
			matchGroup := func(bs []*Cond) int {
				for g := 1; g <= 2; g++ {
					e1, _ := CondEquivalent(bs[0], MustRefCond(fmt.Sprintf("i < vi.DataCodeWordsPerBlockInGroup%d", g)))
					e2, _ := CondEquivalent(bs[1], MustRefCond(fmt.Sprintf("i < vi.NumberOfBlocksInGroup%d", g)))
					if e1 && e2 {
						return g
					}
				}
				return 0
			}
			if len(bounds) == 2 {
				matched = matchGroup(bounds)
			}
			if len(bounds) == 2 && matched == 0 {
				// one loop over all blocks, the block length chosen by the block number:
				// for b < N1+N2 { len := W1; if b >= N1 { len = W2 } ... }
				if all, _ := CondEquivalent(bounds[1], MustRefCond("i < vi.NumberOfBlocksInGroup1 + vi.NumberOfBlocksInGroup2")); all {
					outerHdr := idxs[1].(ssa.Instruction).Block()
					for _, b := range fn.Blocks {
						for _, ins := range b.Instrs {
							phi, isPhi := ins.(*ssa.Phi)
							if !isPhi || isLoopHeader(b) || !strings.Contains(bounds[0].String(), n.Norm(phi).String()) {
								continue
							}
							when := map[int]*Cond{1: cFalse, 2: cFalse}
							okAll := true
							for ei := range phi.Edges {
								n.PhiChoice[phi] = ei
								g := 0
								inner := enclosingLoopBounds(n, s)[0]
								for gg := 1; gg <= 2; gg++ {
									if eq, _ := CondEquivalent(inner, MustRefCond(fmt.Sprintf("i < vi.DataCodeWordsPerBlockInGroup%d", gg))); eq {
										g = gg
									}
								}
								old, had := n.Bind[idxs[1]]
								n.Bind[idxs[1]] = "i"
								cond := cAnd(n.ReachCond(fn, outerHdr, b.Preds[ei]), n.EdgeCond(b.Preds[ei], b))
								if had {
									n.Bind[idxs[1]] = old
								} else {
									delete(n.Bind, idxs[1])
								}
								if g == 0 {
									okAll = false
								} else {
									when[g] = cOr(when[g], cond)
								}
							}
							delete(n.PhiChoice, phi)
							dom := MustRefCond("i >= 0 && i < vi.NumberOfBlocksInGroup1 + vi.NumberOfBlocksInGroup2")
							e1, _ := CondEquivalent(cAnd(dom, when[1]), cAnd(dom, MustRefCond("i < vi.NumberOfBlocksInGroup1")))
							e2, _ := CondEquivalent(cAnd(dom, when[2]), cAnd(dom, MustRefCond("i >= vi.NumberOfBlocksInGroup1")))
							if okAll && e1 && e2 {
								seenG[1], seenG[2] = true, true
								fused = true
								return
							}
						}
					}
				}
			}
			if len(bounds) == 3 {
				// both groups handled by one loop nest that runs over a two-entry local table of
				// (block count, block length): instantiate the outer loop per entry
				if two, _ := CondEquivalent(bounds[2], MustRefCond("i < 2")); two {
					var gs []int
					for k := int64(0); k < 2; k++ {
						n.env = append(n.env, map[ssa.Value]Poly{idxs[2]: pConst(k)})
						gs = append(gs, matchGroup(enclosingLoopBounds(n, s)))
						n.env = n.env[:len(n.env)-1]
					}
					if gs[0] == 1 && gs[1] == 2 {
						seenG[1], seenG[2] = true, true
						fused = true
						return
					}
				}
			}
			var bs []string
			for _, x := range bounds {
				bs = append(bs, x.String())
			}
			if matched == 0 {
				c.Check(R12, "qr.splitToBlocks/receive-loop", u.Pos(), false, "receive inside `for b < NumberOfBlocksInGroup<g> { for cw < DataCodeWordsPerBlockInGroup<g>`", strings.Join(bs, " inside "))
			}
			seenG[matched] = true
		})
		c.Check(R12, "qr.splitToBlocks/receive-loops", fn.Pos(), seenG[1] && seenG[2], "one receive loop nest per group", fmt.Sprint(seenG))
		c.Check(R12, "qr.splitToBlocks/calcECC-sites", fn.Pos(), len(sites) == 2 || fused && len(sites) == 1, "calcECC reached in 2 contexts (group 1 and group 2), or once in a nest shared by both groups", fmt.Sprint(len(sites)))
	}
}

// enclosingLoopBounds: the continue-conditions (index named "i") of the counting loops around a
// deep site, innermost first, across the chain of helper calls.
func enclosingLoopBounds(n *Normer, s DeepSite) []*Cond {
	out, _ := enclosingLoops(n, s)
	return out
}

// enclosingLoops: enclosingLoopBounds together with the index value of each loop.
func enclosingLoops(n *Normer, s DeepSite) ([]*Cond, []ssa.Value) {
	var out []*Cond
	var idxs []ssa.Value
	saved := n.Ctx
	defer func() { n.Ctx = saved }()
	level := len(s.Path)
	ins := s.Ins
	for {
		n.Ctx = s.Path[:level]
		b := ins.Block()
		for d := b; d != nil; d = d.Idom() {
			inLoop := false
			for _, p := range d.Preds {
				if d.Dominates(p) && (p == b || reachableWithin(d, b, p)) {
					inLoop = true
				}
			}
			if !inLoop || len(d.Succs) != 2 {
				continue
			}
			if idx, _, init, ok := loopIndex(d); ok && init == 0 {
				old, had := n.Bind[idx]
				n.Bind[idx] = "i"
				out = append(out, n.LoopCond(d))
				idxs = append(idxs, idx)
				if had {
					n.Bind[idx] = old
				} else {
					delete(n.Bind, idx)
				}
			}
		}
		if level == 0 {
			break
		}
		level--
		ins = s.Path[level]
	}
	return out, idxs
}

// reachableWithin: can p be reached from b without leaving the blocks dominated by d?
func reachableWithin(d, b, p *ssa.BasicBlock) bool {
	seen := map[*ssa.BasicBlock]bool{}
	var walk func(x *ssa.BasicBlock) bool
	walk = func(x *ssa.BasicBlock) bool {
		if x == p {
			return true
		}
		if seen[x] || !d.Dominates(x) {
			return false
		}
		seen[x] = true
		for _, s := range x.Succs {
			if s != d && walk(s) {
				return true
			}
		}
		return false
	}
	return walk(b)
}

// terminatorClosedForm: the loop at h runs i = 0 .. min(4, room)-1 where room (the formula `room` over
// the list's length) is read before the loop, and each iteration appends exactly one bit through the
// one AddBit call - so the list grows in step with i and the count equals "while i < 4 and length <
// capacity".
func terminatorClosedForm(c *Ctx, n *Normer, fn *ssa.Function, h *ssa.BasicBlock, phi *ssa.Phi, addBit *ssa.Call, room string) bool {
	// the bound: the other side of the comparison with the counter (or counter+1 at the bottom)
	var bound ssa.Value
	eachInstr(fn, func(b *ssa.BasicBlock, ins ssa.Instruction) {
		iff, ok := ins.(*ssa.If)
		if !ok || !(b == h || h.Dominates(b)) {
			return
		}
		bo, ok := iff.Cond.(*ssa.BinOp)
		if !ok || bo.Op != token.LSS {
			return
		}
		x := bo.X
		if inc, isInc := x.(*ssa.BinOp); isInc && inc.Op == token.ADD && inc.X == ssa.Value(phi) {
			x = phi
		}
		if x == ssa.Value(phi) {
			bound = bo.Y
		}
	})
	mm, ok := bound.(*ssa.Call)
	if !ok || !isMinMax(mm) || mm.Common().Value.(*ssa.Builtin).Name() != "min" {
		return false
	}
	if mm.Block() == h || h.Dominates(mm.Block()) {
		return false // recomputed inside the loop: not a count fixed up front
	}
	args := mm.Common().Args
	four, roomV := args[0], args[1]
	if k, isK := n.Norm(four).IsConst(); !isK || k != 4 {
		four, roomV = args[1], args[0]
	}
	if k, isK := n.Norm(four).IsConst(); !isK || k != 4 {
		return false
	}
	if !pEqual(n.Norm(roomV), MustRef(room)) {
		return false
	}
	// exactly one bit per iteration: the AddBit call is the only call in the loop, has one bit, and is
	// reached on every iteration
	if len(addBit.Common().Args) != 2 {
		return false
	}
	oneBit := false
	if sl, isSl := addBit.Common().Args[1].(*ssa.Slice); isSl {
		if al, isAl := sl.X.(*ssa.Alloc); isAl {
			if arr, isArr := al.Type().Underlying().(*types.Pointer).Elem().Underlying().(*types.Array); isArr && arr.Len() == 1 {
				oneBit = true
			}
		}
	}
	body := n.BodyStart(h)
	always, _ := CondEquivalent(n.ReachCond(fn, body, addBit.Block()), cTrue)
	return oneBit && always && loopCallCount(fn, h) == 1
}

func isCallInstr(ins ssa.Instruction) bool { _, ok := ins.(*ssa.Call); return ok }

// loopCallCount: the number of non-builtin calls inside the loop headed by h.
func loopCallCount(fn *ssa.Function, h *ssa.BasicBlock) int {
	k := 0
	for _, b := range fn.Blocks {
		if b != h && !(h.Dominates(b) && reachableWithin(h, b, h)) {
			continue
		}
		inLoop := b == h
		if !inLoop {
			for _, p := range h.Preds {
				if h.Dominates(p) && (p == b || reachableWithin(h, b, p)) {
					inLoop = true
				}
			}
		}
		if !inLoop {
			continue
		}
		for _, ins := range b.Instrs {
			if call, ok := ins.(*ssa.Call); ok {
				if _, isB := call.Common().Value.(*ssa.Builtin); !isB {
					k++
				}
			}
		}
	}
	return k
}

type padTog struct {
	phi          *ssa.Phi
	h            *ssa.BasicBlock
	first, other int64
}

// padToggle: the one pad call appends a loop variable p with p0 = A and p' = p ^ (A^B) (or the other
// value picked by comparison) on every back edge - the values alternate A, B, A, ...
func padToggle(n *Normer, padCalls []*ssa.Call, loopOf func(*ssa.BasicBlock) *ssa.BasicBlock) *padTog {
	if len(padCalls) != 1 {
		return nil
	}
	phi, ok := padCalls[0].Common().Args[1].(*ssa.Phi)
	if !ok {
		return nil
	}
	h := loopOf(padCalls[0].Block())
	if h == nil || phi.Block() != h {
		return nil
	}
	t := &padTog{phi: phi, h: h, first: -1, other: -1}
	for ei, e := range phi.Edges {
		if h.Dominates(h.Preds[ei]) {
			bo, isBo := e.(*ssa.BinOp)
			if !isBo || bo.Op != token.XOR {
				return nil
			}
			var mask ssa.Value
			switch {
			case bo.X == ssa.Value(phi):
				mask = bo.Y
			case bo.Y == ssa.Value(phi):
				mask = bo.X
			default:
				return nil
			}
			k, isK := n.Norm(mask).IsConst()
			if !isK {
				return nil
			}
			if t.other >= 0 && t.other != k {
				return nil
			}
			t.other = k // the mask for now
		} else {
			k, isK := n.Norm(e).IsConst()
			if !isK || (t.first >= 0 && t.first != k) {
				return nil
			}
			t.first = k
		}
	}
	if t.first < 0 || t.other < 0 {
		return nil
	}
	t.other = t.first ^ t.other
	return t
}
